// C26, role clause under the transport's configuration options.
//
// "For any two distinct peers exactly one of them takes the offerer role" is
// quantified over peers, not over configurations: whatever options the two
// WebRTC transports run with, exactly one of them may offer. This part builds
// the REAL transport of each peer through its public constructor with a
// harness-made Config (every combination of the rarely used options), lets the
// real Execute / DialPeer / sessionTracker run on a real controller bus whose
// SignalPeer directive is resolved by the harness, and reads the role each
// side really takes off the wire: the first signal a tracker transmits is an
// SDP offer (offerer) or a request for an offer (answerer). The signal is
// decoded with the remote peer's private key, which the harness owns.
//
// Each side's transport is its own object (in reality its own process), so
// the role of side A under option set x and of side B under option set y are
// observed once each; the verdict is then taken over the full cross product
// (x, y): the two roles must differ for every combination.
package c26

import (
	"context"
	"fmt"
	"io"
	"math/bits"
	"runtime"
	"sort"
	"strings"
	"sync"
	"sync/atomic"
	"time"

	"github.com/aperturerobotics/bifrost/peer"
	"github.com/aperturerobotics/bifrost/signaling"
	"github.com/aperturerobotics/bifrost/transport/common/dialer"
	transport_quic "github.com/aperturerobotics/bifrost/transport/common/quic"
	bwebrtc "github.com/aperturerobotics/bifrost/transport/webrtc"
	"github.com/aperturerobotics/controllerbus/bus/inmem"
	"github.com/aperturerobotics/controllerbus/controller"
	"github.com/aperturerobotics/controllerbus/directive"
	cdc "github.com/aperturerobotics/controllerbus/directive/controller"
	"github.com/aperturerobotics/util/backoff"
	"github.com/blang/semver/v4"
	"github.com/sirupsen/logrus"
	"verifharness/keys"
	"verifharness/vf"
)

// roleOpt is one configuration option of transport/webrtc.Config that the
// enumeration switches on (off = the zero value every other test uses).
type roleOpt struct {
	name string
	set  func(c *bwebrtc.Config, local, remote, third *keys.Identity)
}

// roleOpts lists every field of transport/webrtc.Config. The first
// roleOptsCore entries (options that Execute, DialPeer, the constructor or the
// session tracker read) are enumerated exhaustively on the "core" pairs, all
// of them on the "full" pairs (thorough tier); every pair sees at least the
// default, each option alone and all options together.
var roleOpts = []roleOpt{
	{"disable_listen", func(c *bwebrtc.Config, _, _, _ *keys.Identity) { c.DisableListen = true }},
	{"verbose", func(c *bwebrtc.Config, _, _, _ *keys.Identity) { c.Verbose = true }},
	{"all_peers", func(c *bwebrtc.Config, _, _, _ *keys.Identity) { c.AllPeers = true }},
	{"signaling_id", func(c *bwebrtc.Config, _, _, _ *keys.Identity) { c.SignalingId = "c26-options" }},
	{"quic", func(c *bwebrtc.Config, _, _, _ *keys.Identity) {
		c.Quic = &transport_quic.Opts{MaxIdleTimeoutDur: "7s", Verbose: true}
	}},
	{"web_rtc", func(c *bwebrtc.Config, _, _, _ *keys.Identity) { c.WebRtc = &bwebrtc.WebRtcConfig{} }},
	{"block_peers", func(c *bwebrtc.Config, _, _, third *keys.Identity) { c.BlockPeers = []string{third.String()} }},
	{"transport_type", func(c *bwebrtc.Config, _, _, _ *keys.Identity) { c.TransportType = "webrtc-alt" }},
	{"backoff", func(c *bwebrtc.Config, _, _, _ *keys.Identity) {
		c.Backoff = &backoff.Backoff{BackoffKind: backoff.BackoffKind_BackoffKind_CONSTANT, Constant: &backoff.Constant{Interval: 50}}
	}},
	{"dialers", func(c *bwebrtc.Config, _, remote, _ *keys.Identity) {
		c.Dialers = map[string]*dialer.DialerOpts{remote.String(): {Address: "webrtc"}}
	}},
	{"transport_peer_id", func(c *bwebrtc.Config, local, _, _ *keys.Identity) { c.TransportPeerId = local.String() }},
}

// roleOptsCore is the number of leading options enumerated exhaustively
// (2^roleOptsCore option sets per side) on the "core" pairs; set per tier.
var roleOptsCore = 5

func optNames(mask uint) string {
	if mask == 0 {
		return "(default)"
	}
	var s []string
	for i, o := range roleOpts {
		if mask&(1<<uint(i)) != 0 {
			s = append(s, o.name)
		}
	}
	return strings.Join(s, "+")
}

func optConfig(mask uint, local, remote, third *keys.Identity) *bwebrtc.Config {
	c := &bwebrtc.Config{}
	for i, o := range roleOpts {
		if mask&(1<<uint(i)) != 0 {
			o.set(c, local, remote, third)
		}
	}
	return c
}

// observed roles
const (
	roleUnknown  = 0
	roleOfferer  = 1
	roleAnswerer = 2
)

func roleName(v int8) string {
	switch v {
	case roleOfferer:
		return "offerer"
	case roleAnswerer:
		return "answerer"
	}
	return "undecided"
}

// optSession is the harness's signaling session: it records what the tracker
// transmits. The real code scrubs the buffer after Send, so it is copied.
type optSession struct {
	local, remote peer.ID
	sigID         string
	first         chan []byte
	sends         atomic.Int64
}

func (s *optSession) GetLocalPeerID() peer.ID  { return s.local }
func (s *optSession) GetRemotePeerID() peer.ID { return s.remote }
func (s *optSession) Send(ctx context.Context, msg []byte) error {
	if s.sends.Add(1) == 1 {
		s.first <- append([]byte(nil), msg...)
	}
	return nil
}

func (s *optSession) Recv(ctx context.Context) ([]byte, error) {
	<-ctx.Done()
	return nil, ctx.Err()
}

// optSignalCtrl resolves SignalPeer directives on the observation's bus.
type optSignalCtrl struct {
	mu   sync.Mutex
	sess []*optSession
}

func (c *optSignalCtrl) GetControllerInfo() *controller.Info {
	return controller.NewInfo("verif/c26/option-roles-signaling", semver.MustParse("0.0.1"), "harness signaling for C26 option roles")
}
func (c *optSignalCtrl) Execute(ctx context.Context) error { return nil }
func (c *optSignalCtrl) Close() error                      { return nil }
func (c *optSignalCtrl) HandleDirective(ctx context.Context, di directive.Instance) ([]directive.Resolver, error) {
	d, ok := di.GetDirective().(signaling.SignalPeer)
	if !ok {
		return nil, nil
	}
	s := &optSession{local: d.SignalLocalPeerID(), remote: d.SignalRemotePeerID(), sigID: d.SignalingID(), first: make(chan []byte, 1)}
	c.mu.Lock()
	c.sess = append(c.sess, s)
	c.mu.Unlock()
	return directive.R(directive.NewValueResolver([]signaling.SignalPeerValue{s}), nil)
}

// firstSession waits (condition: the directive arrived) for the session.
func (c *optSignalCtrl) sessions() []*optSession {
	c.mu.Lock()
	defer c.mu.Unlock()
	return append([]*optSession(nil), c.sess...)
}

// observeRole runs local's real transport, configured with conf, towards
// remote and returns the role it takes as seen on the signaling channel.
// why != "" = undecided (watchdog or start-up failure: inconclusive, never a
// verdict); bad != "" = the transport misbehaved in a way the property names.
//
// A tracker may never transmit anything: newSession registers its
// OnNegotiationNeeded callback after CreateDataChannel, and pion drops the
// event when its operations goroutine gets there first (liveness, not C26's
// subject). patience bounds how long one attempt waits for the first signal;
// an attempt that saw none is "silent" and is repeated by observeRoleRetry with
// a fresh transport. Time only decides whether an observation is obtained,
// never what it says.
func observeRole(le *logrus.Entry, conf *bwebrtc.Config, local, remote *keys.Identity, patience time.Duration) (role int8, why string, bad string, wit map[string]any) {
	ctx, cancel := context.WithCancel(context.Background())
	defer cancel()
	b := inmem.NewBus(cdc.NewController(ctx, le))
	sc := &optSignalCtrl{}
	rel, err := b.AddController(ctx, sc, nil)
	if err != nil {
		return roleUnknown, "harness signaling controller: " + err.Error(), "", nil
	}
	defer rel()
	var w *bwebrtc.WebRTC
	if pk, pd := vf.Try(func() { w, err = bwebrtc.NewWebRTC(ctx, le, b, conf, local.Priv, nil) }); pk || err != nil {
		return roleUnknown, fmt.Sprint("NewWebRTC failed: ", pd, err), "", nil
	}
	if err := w.Execute(ctx); err != nil {
		return roleUnknown, "Execute failed: " + err.Error(), "", nil
	}
	dialDone := make(chan struct{})
	go func() {
		defer close(dialDone)
		_, _, _ = w.DialPeer(ctx, remote.ID, "webrtc")
	}()
	defer func() {
		cancel()
		_ = w.Close()
		<-dialDone
	}()

	// wait for the tracker's signaling session, then for its first signal
	watchdog := time.NewTimer(patience)
	defer watchdog.Stop()
	tick := time.NewTicker(2 * time.Millisecond)
	defer tick.Stop()
	var s *optSession
	for s == nil {
		if ss := sc.sessions(); len(ss) != 0 {
			s = ss[0]
			break
		}
		select {
		case <-tick.C:
		case <-dialDone:
			return roleUnknown, "DialPeer returned before any signaling session was opened", "", nil
		case <-watchdog.C:
			return roleUnknown, "watchdog: no signaling session opened", "", nil
		}
	}
	var msg []byte
	select {
	case msg = <-s.first:
	case <-watchdog.C:
		return roleUnknown, silentTracker, "", nil
	}
	wit = map[string]any{"signal_local": s.local.String(), "signal_remote": s.remote.String(), "signaling_id": s.sigID}
	if s.remote != remote.ID || s.local != local.ID {
		return roleUnknown, "signaling session opened for other peers than the dialed pair", "", wit
	}
	sig, derr := bwebrtc.DecodeWebRtcSignal(msg, remote.Priv)
	if derr != nil {
		return roleUnknown, "", "first signal of the tracker does not decode with the dialed peer's key: " + derr.Error(), wit
	}
	switch body := sig.GetBody().(type) {
	case *bwebrtc.WebRtcSignal_RequestOffer:
		return roleAnswerer, "", "", wit
	case *bwebrtc.WebRtcSignal_Sdp:
		switch body.Sdp.GetSdpType() {
		case "offer":
			return roleOfferer, "", "", wit
		case "answer", "pranswer":
			// an answer without any offer received: acts as answerer
			return roleAnswerer, "", "", wit
		}
		return roleUnknown, "first signal is an sdp of type " + body.Sdp.GetSdpType(), "", wit
	}
	return roleUnknown, "first signal is neither an offer nor a request for one: " + describe(sig), "", wit
}

const silentTracker = "watchdog: tracker sent no signal"

// observeRoleRetry repeats silent attempts with growing patience.
func observeRoleRetry(le *logrus.Entry, mk func() *bwebrtc.Config, local, remote *keys.Identity) (role int8, why string, bad string, wit map[string]any, silent int) {
	for _, patience := range []time.Duration{time.Second, 2 * time.Second, 4 * time.Second, 8 * time.Second, 16 * time.Second, 60 * time.Second} {
		role, why, bad, wit = observeRole(le, mk(), local, remote, patience)
		if why != silentTracker {
			return
		}
		silent++
	}
	return
}

// refOfferer is the harness's own reading of the rule (the peer whose id text
// sorts first, byte by byte, offers). The property only demands "exactly one";
// which one is observed and counted, not judged.
func refOfferer(a, b string) bool {
	n := len(a)
	if len(b) < n {
		n = len(b)
	}
	for i := 0; i < n; i++ {
		if a[i] != b[i] {
			return a[i] < b[i]
		}
	}
	return len(a) < len(b)
}

type optPair struct {
	a, b  *keys.Identity
	class string
	masks []uint // option sets observed on each side
}

// coverMasks: default, every single option, every pair of options, all
// options, all but one, plus the full enumeration of the core options.
func coverMasks(full bool) []uint {
	k := uint(len(roleOpts))
	all := uint(1)<<k - 1
	set := map[uint]bool{0: true, all: true}
	for i := uint(0); i < k; i++ {
		set[1<<i] = true
		set[all&^(1<<i)] = true
		for j := i + 1; j < k; j++ {
			set[1<<i|1<<j] = true
		}
	}
	if full {
		for m := uint(0); m <= all; m++ {
			set[m] = true
		}
	}
	out := make([]uint, 0, len(set))
	for m := range set {
		out = append(out, m)
	}
	sort.Slice(out, func(i, j int) bool {
		if bits.OnesCount(out[i]) != bits.OnesCount(out[j]) {
			return bits.OnesCount(out[i]) < bits.OnesCount(out[j])
		}
		return out[i] < out[j]
	})
	return out
}

// singleMasks: default, every single option, all options.
func singleMasks() []uint {
	k := uint(len(roleOpts))
	out := []uint{0}
	for i := uint(0); i < k; i++ {
		out = append(out, 1<<i)
	}
	return append(out, uint(1)<<k-1)
}

func coreMasks() []uint {
	out := make([]uint, 0, 1<<uint(roleOptsCore))
	for m := uint(0); m < 1<<uint(roleOptsCore); m++ {
		out = append(out, m)
	}
	return out
}

func mergeMasks(a, b []uint) []uint {
	seen := map[uint]bool{}
	var out []uint
	for _, l := range [][]uint{a, b} {
		for _, m := range l {
			if !seen[m] {
				seen[m] = true
				out = append(out, m)
			}
		}
	}
	return out
}

func partOptionRoles(r *vf.Run, pool []*keys.Identity, hostile []hostileID) {
	le := logrus.NewEntry(logrus.New())
	le.Logger.SetOutput(io.Discard)
	le.Logger.SetLevel(logrus.DebugLevel)
	rng := r.Rand("c26/option-roles")
	third := pool[len(pool)-1]

	// pairs: a few with the FULL 2^k enumeration per side, more with the full
	// enumeration of the core options + the pairwise cover of all options,
	// hostile (colliding-id) pairs among both.
	var pairs []optPair
	roleOptsCore = r.N(6, 8)
	nFull := r.N(0, 1)
	nCore := r.N(2, 3)
	nSingles := r.N(8, 24)
	pick := func() (*keys.Identity, *keys.Identity) {
		for {
			a, b := pool[rng.IntN(len(pool)-1)], pool[rng.IntN(len(pool)-1)]
			if a.ID != b.ID {
				return a, b
			}
		}
	}
	hostileAt := 0
	nextHostile := func() *hostileID {
		for hostileAt < 10 {
			h := hostilePick(hostile, hostileAt)
			hostileAt++
			if h != nil && h.a.ID != h.b.ID {
				return h
			}
		}
		return nil
	}
	add := func(n int, class string, masks []uint, hostileEvery int) {
		for i := 0; i < n; i++ {
			if hostileEvery > 0 && i%hostileEvery == hostileEvery-1 {
				if h := nextHostile(); h != nil {
					a, b := h.a, h.b
					if rng.IntN(2) == 0 {
						a, b = b, a
					}
					pairs = append(pairs, optPair{a: a, b: b, class: class + "/hostile-" + h.view, masks: masks})
					continue
				}
			}
			a, b := pick()
			pairs = append(pairs, optPair{a: a, b: b, class: class + "/pool", masks: masks})
		}
	}
	cover := coverMasks(false)
	add(nFull, "full", coverMasks(true), 0)
	add(nCore, "core", mergeMasks(coreMasks(), cover), 2)
	add(nSingles, "singles", singleMasks(), 2)

	// observations: (pair, side, mask), run on all cores
	type job struct{ p, side, mi int }
	var jobs []job
	res := make([][2][]int8, len(pairs))
	for p := range pairs {
		for side := 0; side < 2; side++ {
			res[p][side] = make([]int8, len(pairs[p].masks))
			for mi := range pairs[p].masks {
				jobs = append(jobs, job{p, side, mi})
			}
		}
	}
	r.Begin(fmt.Sprintf("roles taken by real WebRTC transports under config options: %d pairs, %d transports (options: %d, %d enumerated exhaustively)", len(pairs), len(jobs), len(roleOpts), roleOptsCore))
	start := time.Now()
	var next atomic.Int64
	var wg sync.WaitGroup
	workers := runtime.NumCPU()
	if workers > 16 {
		workers = 16
	}
	for wk := 0; wk < workers; wk++ {
		wg.Add(1)
		go func() {
			defer wg.Done()
			for {
				ji := int(next.Add(1)) - 1
				if ji >= len(jobs) {
					return
				}
				j := jobs[ji]
				pr := pairs[j.p]
				local, remote := pr.a, pr.b
				if j.side == 1 {
					local, remote = pr.b, pr.a
				}
				mask := pr.masks[j.mi]
				conf := optConfig(mask, local, remote, third)
				var role int8
				var why, bad string
				var wit map[string]any
				var silent int
				if pk, pd := vf.Try(func() {
					role, why, bad, wit, silent = observeRoleRetry(le, func() *bwebrtc.Config { return optConfig(mask, local, remote, third) }, local, remote)
				}); pk {
					r.Violation("newSessionTracker/config-options/panic", "transport panicked while starting a session: "+pd, map[string]any{"local": local.String(), "remote": remote.String(), "options": optNames(mask)})
					continue
				}
				if silent > 0 {
					r.Count("option_role_attempts_repeated_tracker_silent", silent) // lost negotiation-needed event; observed only
				}
				r.Case(fmt.Sprintf("option-role|%s|%s|%x", local.String(), remote.String(), mask), role != roleUnknown)
				if bad != "" {
					if wit == nil {
						wit = map[string]any{}
					}
					wit["local"], wit["remote"], wit["options"] = local.String(), remote.String(), optNames(mask)
					r.Violation("sessionTracker/first-signal-not-for-dialed-peer", bad, wit)
					continue
				}
				if role == roleUnknown {
					r.Inconclusive(fmt.Sprintf("option role %s -> %s [%s]: %s", local, remote, optNames(mask), why))
					continue
				}
				res[j.p][j.side][j.mi] = role
				r.Count("option_role_transports_"+roleName(role), 1)
				if wit != nil && wit["signaling_id"] != conf.GetSignalingId() {
					r.Count("option_role_signaling_id_differs_from_config", 1) // observed only
				}
			}
		}()
	}
	wg.Wait()
	r.Extra("option_roles_wall", time.Since(start).Round(time.Millisecond).String())

	// verdict over the cross product of the two sides' option sets
	for p, pr := range pairs {
		as, bs := pr.a.String(), pr.b.String()
		ra, rb := res[p][0], res[p][1]
		r.Count("option_role_pairs_"+strings.SplitN(pr.class, "-", 2)[0], 1)
		r.Distinct("option_role_pair_classes", pr.class)
		refA := refOfferer(as, bs)
		type clash struct{ ma, mb uint }
		var worst *clash
		nClash, nJudged := 0, 0
		for i, ma := range pr.masks {
			if ra[i] == roleUnknown {
				continue
			}
			r.Distinct("option_sets_observed", fmt.Sprintf("%x", ma))
			if (ra[i] == roleOfferer) != refA {
				r.Count("option_role_differs_from_reference_order", 1) // observed only
			}
			for j, mb := range pr.masks {
				if rb[j] == roleUnknown {
					continue
				}
				nJudged++
				if ra[i] != rb[j] {
					continue
				}
				nClash++
				c := clash{ma, mb}
				if worst == nil || bits.OnesCount(c.ma)+bits.OnesCount(c.mb) < bits.OnesCount(worst.ma)+bits.OnesCount(worst.mb) {
					worst = &c
				}
			}
		}
		for j := range pr.masks {
			if rb[j] != roleUnknown && (rb[j] == roleOfferer) == refA {
				r.Count("option_role_differs_from_reference_order", 1) // observed only
			}
		}
		r.Count("option_role_combinations_judged", nJudged)
		if p < 2 {
			r.Sample(map[string]any{"option_role_pair": pr.class, "a": as, "b": bs, "option_sets_per_side": len(pr.masks), "combinations_judged": nJudged, "a_role_default": roleName(ra[0]), "b_role_default": roleName(rb[0])})
		}
		if worst == nil {
			continue
		}
		// which options, alone, flip a side's role against its default
		flips := map[string]bool{}
		for side, rs := range [][]int8{ra, rb} {
			for i, m := range pr.masks {
				if bits.OnesCount(m) == 1 && rs[i] != roleUnknown && rs[0] != roleUnknown && rs[i] != rs[0] {
					flips[fmt.Sprintf("%s@%c", optNames(m), 'a'+side)] = true
				}
			}
		}
		var fl []string
		for f := range flips {
			fl = append(fl, f)
		}
		sort.Strings(fl)
		var roleAt = func(rs []int8, m uint) int8 {
			for i, x := range pr.masks {
				if x == m {
					return rs[i]
				}
			}
			return roleUnknown
		}
		what := "both transports of a pair of distinct peers take the offerer role"
		if roleAt(ra, worst.ma) == roleAnswerer {
			what = "neither transport of a pair of distinct peers takes the offerer role"
		}
		r.Violation("newSessionTracker/role-clash/config-options", what+" under some configuration of the two transports", map[string]any{
			"a": as, "b": bs, "class": pr.class,
			"a_options": optNames(worst.ma), "b_options": optNames(worst.mb),
			"a_role": roleName(roleAt(ra, worst.ma)), "b_role": roleName(roleAt(rb, worst.mb)),
			"clashing_combinations": nClash, "combinations_judged": nJudged,
			"single_options_that_flip_a_role": fl,
			"observed_by": "first signal each real sessionTracker transmitted (sdp offer / request_offer), decoded with the dialed peer's key",
		})
	}
}
