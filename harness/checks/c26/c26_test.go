// C26: WebRTC signals are private to the recipient; offerer roles never clash;
// a link is only accepted from the peer that was signaled.
//
// Part A (signals): real EncodeWebRtcSignal / DecodeWebRtcSignal over generated
// signals and key pairs. Oracle (harness-owned ground truth: which key the
// payload was encoded for): decode with that key == original (EqualVT against
// a clone taken before encoding); decode with any other key fails; decrypting
// under another context fails and a payload sealed under another context does
// not decode; tampered payloads never decode to a different signal; the
// plaintext does not appear in the payload; arbitrary bytes never panic.
// Part B (roles): VerifIsOfferer(a,b) XOR VerifIsOfferer(b,a) for a != b, both
// false for a == b.
// Part C (link): the real executeLink (via VerifExecuteLink, real NewWebRTC +
// newSessionTracker) runs over an in-memory message pipe against a second real
// executeLink that holds either the signaled peer's key or another key.
package c26

import (
	"bytes"
	"context"
	"encoding/json"
	"fmt"
	"io"
	"math/rand/v2"
	"strings"
	"sync"
	"testing"
	"time"

	"github.com/aperturerobotics/bifrost/link"
	"github.com/aperturerobotics/bifrost/peer"
	bwebrtc "github.com/aperturerobotics/bifrost/transport/webrtc"
	pion "github.com/pion/webrtc/v4"
	"github.com/sirupsen/logrus"
	"verifharness/g12util"
	"verifharness/keys"
	"verifharness/vf"
)

// ------------------------------------------------------------------ signals

const sdpTemplate = "v=0\r\no=- %d 1700000000 IN IP4 0.0.0.0\r\ns=-\r\nt=0 0\r\na=msid-semantic:WMS*\r\na=fingerprint:sha-256 %s\r\na=extmap-allow-mixed\r\na=group:BUNDLE 0\r\n" +
	"m=application 9 UDP/DTLS/SCTP webrtc-datachannel\r\nc=IN IP4 0.0.0.0\r\na=setup:%s\r\na=mid:0\r\na=sendrecv\r\na=sctp-port:5000\r\na=max-message-size:1073741823\r\na=ice-ufrag:%s\r\na=ice-pwd:%s\r\n%s"

func genSDP(rng *rand.Rand) string {
	fp := make([]string, 32)
	for i := range fp {
		fp[i] = fmt.Sprintf("%02X", rng.UintN(256))
	}
	var cands strings.Builder
	for i := rng.IntN(5); i > 0; i-- {
		fmt.Fprintf(&cands, "a=candidate:%d 1 udp %d 192.168.%d.%d %d typ host\r\n", rng.Uint32(), rng.Uint32(), rng.IntN(256), rng.IntN(256), 1024+rng.IntN(60000))
	}
	if rng.IntN(2) == 0 {
		cands.WriteString("a=end-of-candidates\r\n")
	}
	return fmt.Sprintf(sdpTemplate, rng.Uint64()>>1, strings.Join(fp, ":"), []string{"actpass", "active", "passive"}[rng.IntN(3)],
		g12util.RandFrom(rng, "abcdefghijklmnopqrstuvwxyzABCDEFGHIJKLMNOPQRSTUVWXYZ", 16), g12util.RandFrom(rng, "abcdefghijklmnopqrstuvwxyzABCDEFGHIJKLMNOPQRSTUVWXYZ", 32), cands.String())
}

type sigCase struct {
	kind string
	sig  *bwebrtc.WebRtcSignal
}

func realPionOffer() (string, error) {
	se := pion.SettingEngine{}
	se.DetachDataChannels()
	api := pion.NewAPI(pion.WithSettingEngine(se))
	pc, err := api.NewPeerConnection(pion.Configuration{})
	if err != nil {
		return "", err
	}
	defer pc.Close()
	neg, proto, ord := true, "bifrost-quic", false
	var id uint16 = 1
	if _, err := pc.CreateDataChannel("bifrost-quic", &pion.DataChannelInit{Negotiated: &neg, Protocol: &proto, ID: &id, Ordered: &ord}); err != nil {
		return "", err
	}
	offer, err := pc.CreateOffer(nil)
	if err != nil {
		return "", err
	}
	return offer.SDP, nil
}

func genSignals(rng *rand.Rand, n int) []sigCase {
	var out []sigCase
	add := func(kind string, s *bwebrtc.WebRtcSignal) { out = append(out, sigCase{kind, s}) }
	add("empty", &bwebrtc.WebRtcSignal{})
	add("request-offer-0", &bwebrtc.WebRtcSignal{Body: &bwebrtc.WebRtcSignal_RequestOffer{RequestOffer: 0}})
	add("request-offer-max", &bwebrtc.WebRtcSignal{Body: &bwebrtc.WebRtcSignal_RequestOffer{RequestOffer: ^uint64(0)}})
	add("sdp-empty", &bwebrtc.WebRtcSignal{Body: &bwebrtc.WebRtcSignal_Sdp{Sdp: &bwebrtc.WebRtcSdp{}}})
	add("ice-empty", &bwebrtc.WebRtcSignal{Body: &bwebrtc.WebRtcSignal_Ice{Ice: &bwebrtc.WebRtcIce{}}})
	add("sdp-large", &bwebrtc.WebRtcSignal{Body: &bwebrtc.WebRtcSignal_Sdp{Sdp: &bwebrtc.WebRtcSdp{TxSeqno: 7, SdpType: "offer", Sdp: strings.Repeat(genSDP(rng), 40)}}})
	add("sdp-binaryish", &bwebrtc.WebRtcSignal{Body: &bwebrtc.WebRtcSignal_Sdp{Sdp: &bwebrtc.WebRtcSdp{TxSeqno: 1, SdpType: "weird\x00type", Sdp: "a\x00b é🙂"}}})
	if sdp, err := realPionOffer(); err == nil {
		add("sdp-real-pion-offer", &bwebrtc.WebRtcSignal{Body: &bwebrtc.WebRtcSignal_Sdp{Sdp: bwebrtc.NewWebRtcSdp(1, &pion.SessionDescription{Type: pion.SDPTypeOffer, SDP: sdp})}})
	}
	for len(out) < n {
		switch rng.IntN(4) {
		case 0:
			add("request-offer", &bwebrtc.WebRtcSignal{Body: &bwebrtc.WebRtcSignal_RequestOffer{RequestOffer: rng.Uint64() >> rng.UintN(64)}})
		case 1, 2:
			typ := []string{"offer", "answer", "pranswer", "rollback"}[rng.IntN(4)]
			add("sdp-"+typ, &bwebrtc.WebRtcSignal{Body: &bwebrtc.WebRtcSignal_Sdp{Sdp: &bwebrtc.WebRtcSdp{TxSeqno: rng.Uint64N(1000), SdpType: typ, Sdp: genSDP(rng)}}})
		default:
			mid := "0"
			idx := uint16(rng.UintN(3))
			uf := g12util.RandFrom(rng, "abcdefghijklmnop", 8)
			ci := pion.ICECandidateInit{
				Candidate:        fmt.Sprintf("candidate:%d 1 udp %d 10.0.%d.%d %d typ host", rng.Uint32(), rng.Uint32(), rng.IntN(256), rng.IntN(256), 1024+rng.IntN(60000)),
				SDPMid:           &mid,
				SDPMLineIndex:    &idx,
				UsernameFragment: &uf,
			}
			if rng.IntN(5) == 0 {
				ci = pion.ICECandidateInit{} // end-of-candidates marker
			}
			b, _ := json.Marshal(ci)
			add("ice", &bwebrtc.WebRtcSignal{Body: &bwebrtc.WebRtcSignal_Ice{Ice: &bwebrtc.WebRtcIce{Candidate: string(b)}}})
		}
	}
	return out
}

var otherContexts = []string{
	"",
	" ",
	bwebrtc.SignalingCryptContext + " ",
	strings.ToUpper(bwebrtc.SignalingCryptContext),
	bwebrtc.SignalingCryptContext[:len(bwebrtc.SignalingCryptContext)-1],
	"github.com/aperturerobotics/bifrost 2024-01-15 17:58:55 some other purpose",
	"bifrost/peer encrypt curve25519 " + bwebrtc.SignalingCryptContext,
}

func describe(s *bwebrtc.WebRtcSignal) string {
	b, _ := s.MarshalVT()
	return vf.Hex(b)
}

func partSignals(r *vf.Run, pool []*keys.Identity) {
	rng := r.Rand("c26/signals")
	sigs := genSignals(rng, r.N(60, 1000))
	nKeys := r.N(4, 6)
	for si, sc := range sigs {
		if si%16 == 0 {
			r.Begin(fmt.Sprintf("signals batch at %d (%s)", si, sc.kind))
		}
		for ki := 0; ki < nKeys; ki++ {
			k := pool[(si+ki)%len(pool)]
			orig := sc.sig.CloneVT()
			plain, _ := orig.MarshalVT()
			var payload []byte
			var err error
			wit := map[string]any{"kind": sc.kind, "signal_pb_hex": vf.Hex(plain), "recipient": k.String()}
			if pk, pd := vf.Try(func() { payload, err = bwebrtc.EncodeWebRtcSignal(sc.sig, k.Pub) }); pk {
				r.Violation("EncodeWebRtcSignal/panic", "EncodeWebRtcSignal panicked: "+pd, wit)
				r.Case(fmt.Sprintf("sig|%s|%d|%d", sc.kind, si, ki), false)
				continue
			}
			if err != nil {
				wit["err"] = err.Error()
				r.Violation("EncodeWebRtcSignal/error", "a well-formed signal could not be encoded for an Ed25519 recipient", wit)
				r.Case(fmt.Sprintf("sig|%s|%d|%d", sc.kind, si, ki), false)
				continue
			}
			r.Case(fmt.Sprintf("sig|%s|%x|%s", sc.kind, plain, k.String()), true)
			r.Distinct("signal_kinds", sc.kind)
			r.Count("encoded", 1)
			if si < 3 && ki == 0 {
				r.Sample(map[string]any{"kind": sc.kind, "signal_pb_hex": vf.Hex(plain), "recipient": k.String(), "payload_len": len(payload)})
			}
			wit["payload_hex"] = vf.Hex(payload)
			if !sc.sig.EqualVT(orig) {
				r.Violation("EncodeWebRtcSignal/mutated-input", "encoding changed the signal passed in", wit)
			}
			// privacy: the plaintext must not be readable in the payload
			if len(plain) >= 16 && bytes.Contains(payload, plain) {
				r.Violation("EncodeWebRtcSignal/plaintext-in-payload", "the marshalled signal appears verbatim in the payload", wit)
			}
			if sdp := sc.sig.GetSdp().GetSdp(); len(sdp) >= 32 && bytes.Contains(payload, []byte(sdp[:32])) {
				r.Violation("EncodeWebRtcSignal/plaintext-in-payload", "SDP text appears verbatim in the payload", wit)
			}

			// (1) the recipient decodes exactly the original
			var dec *bwebrtc.WebRtcSignal
			if pk, pd := vf.Try(func() { dec, err = bwebrtc.DecodeWebRtcSignal(append([]byte(nil), payload...), k.Priv) }); pk {
				r.Violation("DecodeWebRtcSignal/panic/own-payload", "DecodeWebRtcSignal panicked: "+pd, wit)
				continue
			}
			r.Count("decoded_by_recipient", 1)
			if err != nil || dec == nil {
				wit["err"] = fmt.Sprint(err)
				r.Violation("DecodeWebRtcSignal/recipient-cannot-decode", "the recipient could not decode a payload encoded for it", wit)
			} else if !dec.EqualVT(orig) {
				wit["decoded_pb_hex"] = describe(dec)
				r.Violation("DecodeWebRtcSignal/roundtrip-differs", "decoded signal differs from the original", wit)
			}

			// (2) nobody else decodes it
			for j := 1; j <= 2; j++ {
				o := pool[(si+ki+j*3+1)%len(pool)]
				if o.ID == k.ID {
					continue
				}
				var d2 *bwebrtc.WebRtcSignal
				var e2 error
				if pk, pd := vf.Try(func() { d2, e2 = bwebrtc.DecodeWebRtcSignal(append([]byte(nil), payload...), o.Priv) }); pk {
					r.Violation("DecodeWebRtcSignal/panic/other-key", "DecodeWebRtcSignal panicked: "+pd, wit)
					continue
				}
				r.Count("decode_attempts_other_key", 1)
				if e2 == nil {
					wit["other_key"], wit["decoded_pb_hex"] = o.String(), describe(d2)
					r.Violation("DecodeWebRtcSignal/decoded-with-other-key", "a payload was decoded with a key it was not encoded for", wit)
				}
			}

			// (3) context separation
			if ki == 0 {
				for _, oc := range otherContexts {
					var p2 []byte
					var e3 error
					if pk, pd := vf.Try(func() { p2, e3 = peer.DecryptWithPrivKey(k.Priv, oc, append([]byte(nil), payload...)) }); pk {
						r.Violation("DecryptWithPrivKey/panic", "panicked: "+pd, wit)
						continue
					}
					r.Count("decrypt_attempts_other_context", 1)
					if e3 == nil {
						wit["context"], wit["plaintext_hex"] = oc, vf.Hex(p2)
						r.Violation("DecodeWebRtcSignal/decrypted-in-other-context", "a signaling payload was decrypted under a non-WebRTC context", wit)
					}
					// a payload sealed under the other context must not decode as a signal
					foreign, e4 := peer.EncryptToPubKey(k.Pub, oc, append([]byte(nil), plain...))
					if e4 != nil {
						continue
					}
					var d5 *bwebrtc.WebRtcSignal
					var e5 error
					if pk, pd := vf.Try(func() { d5, e5 = bwebrtc.DecodeWebRtcSignal(foreign, k.Priv) }); pk {
						r.Violation("DecodeWebRtcSignal/panic/foreign-context", "panicked: "+pd, wit)
						continue
					}
					r.Count("decode_attempts_foreign_context_payload", 1)
					if e5 == nil {
						wit["context"], wit["decoded_pb_hex"] = oc, describe(d5)
						r.Violation("DecodeWebRtcSignal/accepted-foreign-context", "a payload sealed under another context decoded as a WebRTC signal", wit)
					}
				}
			}

			// (5) the same payload SLICE presented to the decoder several times
			sharedSliceHistories(r, rng, pool, sc, orig, payload, k, si, ki, wit)

			// (4) tampering never yields a different signal
			nt := 6
			for t := 0; t < nt; t++ {
				m := append([]byte(nil), payload...)
				how := ""
				switch t {
				case 0:
					m = m[:len(m)-1]
					how = "drop-last"
				case 1:
					m = append(m, byte(rng.UintN(256)))
					how = "append"
				case 2:
					m = m[:rng.IntN(len(m))]
					how = "truncate"
				default:
					pos := rng.IntN(len(m))
					if t == 3 {
						pos = rng.IntN(4) // nonce prefix
					} else if t == 4 && len(m) > 36 {
						pos = 4 + rng.IntN(32) // wrapped message key
					}
					m[pos] ^= 1 << rng.UintN(8)
					how = fmt.Sprintf("flip@%d", pos)
				}
				var d6 *bwebrtc.WebRtcSignal
				var e6 error
				if pk, pd := vf.Try(func() { d6, e6 = bwebrtc.DecodeWebRtcSignal(m, k.Priv) }); pk {
					wit["tamper"] = how
					r.Violation("DecodeWebRtcSignal/panic/tampered", "panicked: "+pd, wit)
					continue
				}
				r.Count("decode_attempts_tampered", 1)
				if e6 == nil && !d6.EqualVT(orig) {
					wit["tamper"], wit["decoded_pb_hex"] = how, describe(d6)
					r.Violation("DecodeWebRtcSignal/tampered-decodes-differently", "a tampered payload decoded to a signal other than the original", wit)
				} else if e6 == nil {
					r.Count("tampered_but_decoded_to_original", 1)
				}
			}
		}
	}

	// arbitrary bytes as payload, and arbitrary bytes as (properly sealed) plaintext
	n := r.N(3000, 50000)
	adv := g12util.Adversarial()
	for i := 0; i < n; i++ {
		if i%512 == 0 {
			r.Begin(fmt.Sprintf("arbitrary payload batch at %d", i))
		}
		k := pool[i%len(pool)]
		var raw []byte
		switch {
		case i < len(adv):
			raw = []byte(adv[i])
		case i%3 == 0:
			raw = g12util.RandBytes(rng, rng.IntN(40))
		case i%3 == 1:
			raw = g12util.RandBytes(rng, 30+rng.IntN(300))
		default:
			raw = []byte(g12util.Garbage(rng))
		}
		var e1 error
		if pk, pd := vf.Try(func() { _, e1 = bwebrtc.DecodeWebRtcSignal(append([]byte(nil), raw...), k.Priv) }); pk {
			r.Violation("DecodeWebRtcSignal/panic/arbitrary-bytes", "panicked: "+pd, map[string]any{"payload_hex": vf.Hex(raw), "key": k.String()})
		}
		r.Count("arbitrary_payloads", 1)
		if e1 == nil {
			r.Count("arbitrary_payload_decoded", 1)
		}
		// hostile but authenticated sender: garbage plaintext under the right context and key,
		// followed by what the signal handler does with it (Validate)
		sealed, e2 := peer.EncryptToPubKey(k.Pub, bwebrtc.SignalingCryptContext, append([]byte(nil), raw...))
		if e2 != nil {
			continue
		}
		if pk, pd := vf.Try(func() {
			s, err := bwebrtc.DecodeWebRtcSignal(sealed, k.Priv)
			if err == nil && s != nil {
				r.Count("garbage_plaintext_unmarshalled", 1)
				_ = s.Validate()
			}
		}); pk {
			r.Violation("DecodeWebRtcSignal/panic/garbage-plaintext", "decode+validate panicked: "+pd, map[string]any{"plaintext_hex": vf.Hex(raw), "key": k.String()})
		}
		r.Case("arb|"+string(raw), false)
	}
}

// -------------------------------------------------------------------- roles

func partRoles(r *vf.Run, pool []*keys.Identity) {
	rng := r.Rand("c26/roles")
	check := func(a, b, cls string) {
		var ab, ba bool
		if pk, pd := vf.Try(func() { ab, ba = bwebrtc.VerifIsOfferer(a, b), bwebrtc.VerifIsOfferer(b, a) }); pk {
			r.Violation("isOfferer/panic", "panicked: "+pd, map[string]any{"a": a, "b": b})
			return
		}
		r.Case("role|"+a+"|"+b, a != b)
		r.Count("role_pairs_"+cls, 1)
		wit := map[string]any{"a": a, "b": b, "a_offers_to_b": ab, "b_offers_to_a": ba, "class": cls}
		if a == b {
			if ab || ba {
				r.Violation("isOfferer/self-offerer", "a peer is the offerer towards itself", wit)
			}
			return
		}
		if ab == ba {
			what := "both peers take the offerer role"
			if !ab {
				what = "neither peer takes the offerer role"
			}
			r.Violation("isOfferer/role-clash/"+cls, what, wit)
		}
	}
	r.Begin("offerer roles over all pairs of the identity pool")
	for i := range pool {
		check(pool[i].String(), pool[i].String(), "peer-ids")
		for j := i + 1; j < len(pool); j++ {
			check(pool[i].String(), pool[j].String(), "peer-ids")
		}
	}
	// the role the real session tracker takes (newSessionTracker), both directions
	le := logrus.NewEntry(logrus.New())
	le.Logger.SetOutput(io.Discard)
	nt := r.N(12, 40)
	r.Begin("session tracker roles over pairs of identities")
	for i := 0; i < nt; i++ {
		for j := i + 1; j < nt; j++ {
			a, b := pool[i], pool[j]
			var ab, ba bool
			var e1, e2 error
			if pk, pd := vf.Try(func() {
				ab, e1 = bwebrtc.VerifTrackerRole(context.Background(), le, a.Priv, b.ID)
				ba, e2 = bwebrtc.VerifTrackerRole(context.Background(), le, b.Priv, a.ID)
			}); pk || e1 != nil || e2 != nil {
				r.Violation("newSessionTracker/failed", fmt.Sprint("session tracker could not be built: ", pd, e1, e2), map[string]any{"a": a.String(), "b": b.String()})
				continue
			}
			r.Case("tracker-role|"+a.String()+"|"+b.String(), true)
			r.Count("tracker_role_pairs", 1)
			if ab == ba {
				r.Violation("newSessionTracker/role-clash", "both session trackers of a pair take the same role", map[string]any{"a": a.String(), "b": b.String(), "a_offerer": ab, "b_offerer": ba})
			}
		}
	}
	// arbitrary distinct strings (prefixes, case, unicode, empty)
	fixed := []string{"", "a", "A", "aa", "ab", "a\x00", "\x00", "é", "é", "12D3KooW", "12D3KooWa", "12D3KooWA", "\xff", "\xfe\xff", "z", "Z"}
	for i := range fixed {
		for j := i; j < len(fixed); j++ {
			check(fixed[i], fixed[j], "arbitrary-strings")
		}
	}
	for i := r.N(500, 20000); i > 0; i-- {
		a := g12util.Garbage(rng)
		b := g12util.Garbage(rng)
		if rng.IntN(3) == 0 && len(a) > 0 {
			b = a[:rng.IntN(len(a))] // prefix
		}
		check(a, b, "arbitrary-strings")
	}
}

// --------------------------------------------------------------------- link

type recHandler struct {
	mu    sync.Mutex
	est   []link.Link
	lost  int
	estCh chan struct{}
	// acceptCh is closed when AcceptStream on the first established link
	// returned (the link's connection ended); acceptErr is its error.
	acceptCh  chan struct{}
	acceptErr error
}

func newRecHandler() *recHandler {
	return &recHandler{estCh: make(chan struct{}), acceptCh: make(chan struct{})}
}

func (h *recHandler) HandleLinkEstablished(l link.Link) {
	h.mu.Lock()
	h.est = append(h.est, l)
	first := len(h.est) == 1
	if first {
		close(h.estCh)
	}
	h.mu.Unlock()
	if first {
		// what the transport controller does with a new link: accept streams.
		// Nobody opens one here, so this returns exactly when the connection ends.
		go func() {
			_, _, err := l.AcceptStream()
			h.mu.Lock()
			h.acceptErr = err
			h.mu.Unlock()
			close(h.acceptCh)
		}()
	}
}

func (h *recHandler) acceptError() string {
	h.mu.Lock()
	defer h.mu.Unlock()
	return fmt.Sprint(h.acceptErr)
}

func (h *recHandler) HandleLinkLost(l link.Link) {
	h.mu.Lock()
	h.lost++
	h.mu.Unlock()
}

func (h *recHandler) established() []link.Link {
	h.mu.Lock()
	defer h.mu.Unlock()
	return append([]link.Link(nil), h.est...)
}

type linkRun struct {
	offerer bool
	err     error
	done    chan struct{}
	h       *recHandler
}

const watchdog = 90 * time.Second // expiry => inconclusive, never a verdict

func startLink(ctx context.Context, le *logrus.Entry, local *keys.Identity, remote peer.ID, role int, dc *g12util.MsgEnd) *linkRun {
	lr := &linkRun{done: make(chan struct{}), h: newRecHandler()}
	go func() {
		defer close(lr.done)
		pk, pd := vf.Try(func() {
			lr.offerer, lr.err = bwebrtc.VerifExecuteLink(ctx, le, local.Priv, remote, role, dc, lr.h)
		})
		if pk {
			lr.err = fmt.Errorf("PANIC: %s", pd)
		}
	}()
	return lr
}

// linkCase runs local peer A (expects `signaled`) against a data-channel peer
// that actually holds `actual`'s key.
func linkCase(r *vf.Run, name string, a, signaled, actual *keys.Identity, settle int) (undecided bool) {
	le := logrus.NewEntry(logrus.New())
	le.Logger.SetOutput(io.Discard)
	ctx, cancel := context.WithCancel(context.Background())
	defer cancel()
	honest := actual.ID == signaled.ID
	// the role A's real session tracker takes towards the signaled peer
	aIsOfferer, rerr := bwebrtc.VerifTrackerRole(ctx, le, a.Priv, signaled.ID)
	if rerr != nil {
		r.Inconclusive(name + ": cannot build session tracker: " + rerr.Error())
		return false
	}
	roleB := bwebrtc.VerifRoleAuto
	if !honest {
		// the impostor takes whichever role completes A's handshake attempt
		roleB = bwebrtc.VerifRoleOfferer
		if aIsOfferer {
			roleB = bwebrtc.VerifRoleAnswerer
		}
	}
	if honest {
		// with clashing roles both ends would wait for each other forever: decide that from the roles themselves
		ab, e1 := bwebrtc.VerifTrackerRole(ctx, le, a.Priv, signaled.ID)
		ba, e2 := bwebrtc.VerifTrackerRole(ctx, le, signaled.Priv, a.ID)
		if e1 == nil && e2 == nil && ab == ba {
			r.Case(fmt.Sprintf("link|%s|role-clash", name), true)
			r.Violation("newSessionTracker/role-clash", "both session trackers of a pair take the same role (no link can be negotiated)", map[string]any{"a": a.String(), "b": signaled.String(), "a_offerer": ab, "b_offerer": ba})
			return false
		}
	}
	dcA, dcB := g12util.NewMsgPipe()
	ra := startLink(ctx, le, a, signaled.ID, bwebrtc.VerifRoleAuto, dcA)
	rb := startLink(ctx, le, actual, a.ID, roleB, dcB)
	sig := fmt.Sprintf("link|%s|honest=%v|aOfferer=%v", name, honest, aIsOfferer)
	wit := map[string]any{"case": name, "local": a.String(), "signaled": signaled.String(), "data_channel_peer": actual.String(), "local_is_offerer": aIsOfferer}
	finish := func() bool {
		cancel()
		_ = dcA.Close()
		_ = dcB.Close()
		t := time.NewTimer(watchdog)
		defer t.Stop()
		for _, d := range []chan struct{}{ra.done, rb.done} {
			select {
			case <-d:
			case <-t.C:
				r.Inconclusive(name + ": executeLink did not return after its context was cancelled (watchdog)")
				return false
			}
		}
		wit["msgs_a_to_b"], wit["msgs_b_to_a"] = dcA.Sent.Load(), dcB.Sent.Load()
		r.Count("datachannel_messages", int(dcA.Sent.Load()+dcB.Sent.Load()))
		return true
	}
	flagAccepted := func() bool {
		bad := false
		for _, l := range ra.h.established() {
			if l.GetRemotePeer() != signaled.ID || !honest {
				wit["link_remote_peer"] = l.GetRemotePeer().String()
				r.Violation("executeLink/accepted-wrong-peer", "a link was reported established although the data-channel peer does not hold the signaled peer's key", wit)
				bad = true
			}
		}
		return bad
	}
	t := time.NewTimer(watchdog)
	defer t.Stop()

	if honest {
		// wait for both ends to report the link (or for an end to give up)
		for _, w := range []struct {
			lr  *linkRun
			who string
		}{{ra, "local"}, {rb, "remote"}} {
			select {
			case <-w.lr.h.estCh:
			case <-w.lr.done:
				wit["side"], wit["err"] = w.who, fmt.Sprint(w.lr.err)
				finish()
				r.Case(sig, false)
				r.Violation("executeLink/honest-peer-refused", "executeLink gave up although the data-channel peer holds the signaled key", wit)
				return false
			case <-t.C:
				finish()
				r.Case(sig, false)
				r.Inconclusive(name + ": honest handshake did not complete (watchdog)")
				return false
			}
		}
		la, lb := ra.h.established()[0], rb.h.established()[0]
		wit["local_link_remote"], wit["remote_link_remote"] = la.GetRemotePeer().String(), lb.GetRemotePeer().String()
		if la.GetRemotePeer() != signaled.ID || la.GetLocalPeer() != a.ID || lb.GetRemotePeer() != a.ID || lb.GetLocalPeer() != signaled.ID {
			r.Violation("executeLink/link-identity", "established link does not name the signaled peer as remote", wit)
		}
		if !finish() {
			r.Case(sig, false)
			return false
		}
		// both ends ran the real role decision: exactly one may have been the offerer
		wit["local_offerer"], wit["remote_offerer"] = ra.offerer, rb.offerer
		if ra.offerer == rb.offerer {
			r.Violation("executeLink/role-clash", "both ends of an established session computed the same role", wit)
		}
		r.Count("links_established_honest", 1)
		r.Case(sig, true)
		r.Sample(wit)
		return false
	}

	// impostor
	if aIsOfferer {
		// A listens, the impostor dials. quic reports the handshake complete to
		// the dialer before the listener has checked the client certificate, so
		// the impostor's own link comes up and then ends with the listener's
		// verdict: wait for that (or for A accepting, which is the violation).
		select {
		case <-rb.h.acceptCh:
		case <-rb.done:
		case <-ra.h.estCh:
		case <-t.C:
			finish()
			r.Case(sig, false)
			r.Inconclusive(name + ": impostor dial neither failed nor was torn down (watchdog)")
			return false
		}
		bad := flagAccepted()
		if !finish() {
			r.Case(sig, false)
			return false
		}
		wit["impostor_err"], wit["impostor_link_end"], wit["local_err"] = fmt.Sprint(rb.err), rb.h.acceptError(), fmt.Sprint(ra.err)
		if !bad {
			bad = flagAccepted()
		}
		refused := strings.Contains(rb.h.acceptError(), "CRYPTO_ERROR") || strings.Contains(fmt.Sprint(rb.err), "CRYPTO_ERROR")
		switch {
		case bad:
			r.Case(sig, true)
		case refused:
			r.Count("impostors_refused_by_listener", 1)
			r.Distinct("refusal_errors", "listener:"+rb.h.acceptError())
			r.Case(sig, true)
		default:
			r.Case(sig, false)
			r.Inconclusive(name + ": impostor's connection ended without a handshake verdict: " + rb.h.acceptError() + " / " + fmt.Sprint(rb.err))
		}
		return false
	}

	// A dials, the impostor listens. A's TLS stack rejects the certificate, but
	// the dial only returns once the packet conn's read loop ends (its deadline
	// calls are no-ops). Wait until the pipe traffic has settled, close A's data
	// channel and classify the error executeLink returns: a local handshake
	// error is the refusal; anything else means the channel was closed before the
	// handshake was decided and the scenario is repeated with a longer settle.
	stable, last := 0, [2]int64{-1, -1}
	for stable < settle {
		select {
		case <-ra.done:
			stable = settle
			continue
		case <-ra.h.estCh:
			stable = settle
			continue
		case <-t.C:
			finish()
			r.Case(sig, false)
			r.Inconclusive(name + ": pipe traffic did not settle (watchdog)")
			return false
		default:
		}
		cur := [2]int64{dcA.Sent.Load() + dcA.Received.Load(), dcB.Sent.Load() + dcB.Received.Load()}
		if cur == last && dcA.Sent.Load() >= 2 && dcB.Sent.Load() >= 1 && dcA.Sent.Load() == dcB.Received.Load() && dcB.Sent.Load() == dcA.Received.Load() {
			stable++
		} else {
			stable, last = 0, cur
		}
		time.Sleep(2 * time.Millisecond) // pacing of the poll only
	}
	bad := flagAccepted()
	if bad {
		finish()
		r.Case(sig, true)
		return false
	}
	_ = dcA.Close()
	select {
	case <-ra.done:
	case <-t.C:
		finish()
		r.Case(sig, false)
		r.Inconclusive(name + ": executeLink did not return after its data channel was closed (watchdog)")
		return false
	}
	if !finish() {
		r.Case(sig, false)
		return false
	}
	wit["local_err"], wit["impostor_err"] = fmt.Sprint(ra.err), fmt.Sprint(rb.err)
	if !bad {
		bad = flagAccepted()
	}
	switch {
	case bad:
		r.Case(sig, true)
	case ra.err == nil:
		r.Violation("executeLink/no-error-for-impostor", "dialing executeLink returned nil although the peer presented another key", wit)
		r.Case(sig, true)
	case strings.Contains(ra.err.Error(), "CRYPTO_ERROR"):
		r.Count("impostors_refused_by_dialer", 1)
		r.Distinct("refusal_errors", "dialer:"+ra.err.Error()[:min(len(ra.err.Error()), 60)])
		r.Case(sig, true)
	default:
		// closed before the handshake was decided
		r.Count("undecided_retries", 1)
		return true
	}
	return false
}

func partLinks(r *vf.Run, pool []*keys.Identity, hostile []hostileID) {
	n := r.N(3, 20)
	var wg sync.WaitGroup
	r.Begin("executeLink handshakes (honest and impostor, both role assignments), in parallel")
	sem := make(chan struct{}, 8)
	for i := 0; i < n; i++ {
		a, x, y := pool[3*i], pool[3*i+1], pool[3*i+2]
		cases := []struct {
			name             string
			a, signaled, act *keys.Identity
		}{
			// A<->X and X<->A cover both role assignments for the local side
			{fmt.Sprintf("t%d-honest-AX", i), a, x, x},
			{fmt.Sprintf("t%d-honest-XA", i), x, a, a},
			{fmt.Sprintf("t%d-impostor-AX-Y", i), a, x, y},
			{fmt.Sprintf("t%d-impostor-XA-Y", i), x, a, y},
		}
		// honest handshakes between distinct identities whose ids coincide under a lossy view
		// (longest common tail, longest common head, ...): one pair per triple index
		if hi := hostilePick(hostile, i); hi != nil {
			cases = append(cases, struct {
				name             string
				a, signaled, act *keys.Identity
			}{fmt.Sprintf("t%d-honest-colliding-ids-%s", i, hi.view), hi.a, hi.b, hi.b})
		}
		for _, c := range cases {
			wg.Add(1)
			sem <- struct{}{}
			go func() {
				defer wg.Done()
				defer func() { <-sem }()
				settle := 50
				for try := 0; ; try++ {
					if !linkCase(r, c.name, c.a, c.signaled, c.act, settle) {
						return
					}
					if try == 5 {
						r.Inconclusive(c.name + ": handshake verdict not reached before the data channel was closed (6 attempts)")
						return
					}
					settle *= 3
				}
			}()
		}
	}
	wg.Wait()
}

func TestC26(t *testing.T) {
	r := vf.Start(t, "C26", vf.Exploration)
	defer r.Finish()
	r.SetRule("signals: fixed edge cases (empty body, request-offer 0/max, empty sdp/ice, 40x SDP, NUL/unicode, a real pion offer) + PRNG SDP offers/answers/pranswer/rollback, ICE candidate JSON, request-offers, each encoded for several recipients of a seeded key pool; per payload: decode by recipient, by 2 other keys, decrypt under 7 other contexts, decode of the same plaintext sealed under those contexts, 6 tamperings, and shared-slice histories (ONE buffer holding the payload - exact, with spare capacity, or inside a larger buffer - presented to the decoder 2..7 times: foreign key(s) / other context / recipient in fixed and PRNG orders, always ending with the recipient; every recipient decode must yield the original, every other attempt must fail, whatever was presented before); plus arbitrary/adversarial bytes as payload and as sealed plaintext (then Validate). roles: all pairs of the key pool's peer-id strings + arbitrary string pairs through VerifIsOfferer, and the role taken by the real newSessionTracker for both directions of pairs of identities; hostile identity pairs = distinct real Ed25519 identities whose ids coincide under a lossy view (same last 5..8 / first 12..16 base58 characters, equal case-folded tail/head, same head..tail abbreviation, same trailing/leading 4..6 raw bytes): a hard-coded table of key seeds found by a birthday search over 5*10^7 keys (re-derived and self-tested each run) plus a live birthday search over a VERIF_SEED-derived key stream, each pair judged through the real newSessionTracker in both directions and through isOfferer on the full ids. roles under configuration options: for pairs of identities (pool pairs and hostile colliding-id pairs, both orientations by PRNG) the REAL transport of each side is built with the public NewWebRTC from a harness-made Config, run (Execute, DialPeer) on a real controller bus whose SignalPeer directive the harness resolves, and the role the real sessionTracker takes is read off its first transmitted signal, decoded with the dialed peer's private key (sdp offer = offerer, request_offer = answerer); option sets over all 11 Config fields (disable_listen, verbose, all_peers, signaling_id, quic, web_rtc, block_peers, transport_type, backoff, dialers, transport_peer_id): 'core' pairs = all 2^6 (quick) / 2^8 (thorough) sets of the leading options + default, every single option, every two options, all, all-but-one; 'singles' pairs = default, every single option, all; thorough also one pair with all 2^11 sets; each side's sets are observed once and the verdict is taken over the full cross product (set of A, set of B): the two observed roles must differ for EVERY combination (violation key newSessionTracker/role-clash/config-options). Which of the two offers (harness reference: the id text that sorts first bytewise) is counted, not judged. A tracker that transmits nothing (pion drops the negotiation-needed event when the callback is registered late: liveness) is re-run with a fresh transport; watchdog expiry is inconclusive. links: triples (A,X,Y) of identities; A's real executeLink (real NewWebRTC/newSessionTracker, role decided by the real code) over an in-memory message pipe against a real executeLink holding X's key (honest; both orientations so A is once offerer, once answerer) or Y's key (impostor in the complementary role), plus honest handshakes between hostile (colliding-id) pairs. non-trivial = payload encoded / distinct peers / handshake ran to a decided state; distinct = distinct (signal,recipient), pair, scenario. Oracle: harness knows for whom each payload was encoded and which key the data-channel peer holds: decode(recipient)==original; any other key, other context, foreign-context payload => error; tampered never decodes to a different signal; plaintext not contained in payload; no panic; exactly one offerer per distinct pair, none for a==a; HandleLinkEstablished at A only if the peer holds the signaled key and then with remote==signaled.")
	r.Assume("Impostor decisions are condition based: the dialing side's executeLink returning (handshake failed or its link was torn down) is awaited, then A's handler record is inspected, then again after A's context was cancelled and executeLink returned. Watchdog expiry (90 s) is inconclusive.")
	r.Assume("The impostor is a data-channel peer with its own valid bifrost identity (key Y); it cannot present X's certificate. Signaling-level identity (who the relay says sent a signal) is C19/C20's subject.")
	npool := r.N(64, 640)
	pool := keys.Pool(r.Rand("c26/keys"), npool)
	partSignals(r, pool)
	partRoles(r, pool)
	hostile := partHostileRoles(t, r)
	partOptionRoles(r, pool, hostile)
	partLinks(r, pool, hostile)
}
