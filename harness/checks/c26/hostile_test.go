package c26

// Roles on hostile identity pairs: distinct REAL identities whose ids coincide
// under a lossy view (same last k base58 characters, same first k characters,
// equal case-folded tail/head, same abbreviated "head..tail" form, same
// trailing / leading raw bytes). Any role decision that looks at less than the
// whole id gives both peers of such a pair the same role.
//
// Inputs: (1) the hard-coded table hostilePairs (birthday search over 2^25.6
// keys: up to 8 common trailing and 16 common leading characters), self-tested
// on every run; (2) a live birthday search over a key stream derived from
// VERIF_SEED (shorter collisions in the quick tier, a few million keys in the
// thorough tier). Oracle: the pair is distinct (harness ground truth: the ids
// differ), so exactly one of the two REAL session trackers may be the offerer
// (VerifTrackerRole in both directions), and likewise VerifIsOfferer on the
// full id strings.

import (
	"context"
	"encoding/hex"
	"fmt"
	"io"
	"math"
	"os"
	"path/filepath"
	"runtime"
	"sort"
	"testing"

	bwebrtc "github.com/aperturerobotics/bifrost/transport/webrtc"
	"github.com/sirupsen/logrus"
	"verifharness/g12util"
	"verifharness/keys"
	"verifharness/vf"
)

// hostileID is a resolved hostile pair.
type hostileID struct {
	view   string
	common string
	a, b   *keys.Identity
}

func seedFromHex(s string) ([32]byte, error) {
	var out [32]byte
	b, err := hex.DecodeString(s)
	if err != nil || len(b) != 32 {
		return out, fmt.Errorf("bad seed %q", s)
	}
	copy(out[:], b)
	return out, nil
}

// hostileSelfTest re-derives the identities of the hard-coded table through
// the real key and peer-id code and asserts what the table claims: distinct
// ids that share the named view with exactly the recorded value.
func hostileSelfTest(t testing.TB) []hostileID {
	var out []hostileID
	perView := map[string]int{}
	for i, hp := range hostilePairs {
		sa, e1 := seedFromHex(hp.seedA)
		sb, e2 := seedFromHex(hp.seedB)
		if e1 != nil || e2 != nil {
			t.Fatalf("hostilePairs[%d]: %v %v", i, e1, e2)
		}
		v := g12util.NewIDView(hp.family, hp.k)
		p, err := g12util.MakeGrindPair(v, sa, sb)
		if err != nil {
			t.Fatalf("hostilePairs[%d] (%s) is stale: %v", i, v.Name(), err)
		}
		if p.Common != hp.common {
			t.Fatalf("hostilePairs[%d] (%s) is stale: common view %q, table says %q", i, v.Name(), p.Common, hp.common)
		}
		// the view must really be lossy on this pair, and say what its name says
		switch hp.family {
		case "suffix":
			if len(hp.common) != hp.k || p.IDA[len(p.IDA)-hp.k:] != hp.common || p.IDB[len(p.IDB)-hp.k:] != hp.common {
				t.Fatalf("hostilePairs[%d]: ids do not end in %q", i, hp.common)
			}
		case "prefix":
			if len(hp.common) != hp.k || p.IDA[:hp.k] != hp.common || p.IDB[:hp.k] != hp.common || hp.k <= g12util.ConstPrefixLen {
				t.Fatalf("hostilePairs[%d]: ids do not start with %q", i, hp.common)
			}
		}
		a, _ := g12util.IdentityFromSeed(sa)
		b, _ := g12util.IdentityFromSeed(sb)
		out = append(out, hostileID{view: v.Name(), common: p.Common, a: a, b: b})
		perView[v.Name()]++
	}
	// the classes the table is supposed to cover
	for _, need := range []string{"suffix-6", "suffix-7", "suffix-8", "prefix-14", "prefix-15", "prefix-16", "foldsuffix-9", "ends-12", "bytesuffix-5", "byteprefix-5"} {
		if perView[need] == 0 {
			t.Fatalf("hostilePairs has no %s pair", need)
		}
	}
	return out
}

// liveViews are the views of the live birthday search with n stream keys: for
// each family the parameters at which n keys are expected to give between a
// fraction of a pair and a few hundred pairs.
func liveViews(n int) []g12util.IDView {
	var vs []g12util.IDView
	// effective alphabet size per kept character / byte, and the offset of the
	// constant part, per family
	fam := []struct {
		name   string
		base   float64
		offset float64 // characters that carry no entropy
		lo, hi int
	}{
		{"suffix", 58, 0, 3, 9},
		{"prefix", 58, 8.4, 11, 18},
		{"foldsuffix", 32.3, 0, 4, 11},
		{"foldprefix", 32.3, 8.4, 12, 20},
		{"ends", 58, 4.4, 9, 14}, // first k and last 4 characters
		{"bytesuffix", 256, 0, 2, 7},
		{"byteprefix", 256, 0, 2, 7},
	}
	pow := math.Pow // only used to pick parameters, never in a verdict
	for _, f := range fam {
		for k := f.lo; k <= f.hi; k++ {
			space := pow(f.base, float64(k)-f.offset)
			expect := float64(n) * float64(n) / 2 / space
			if expect < 0.05 {
				break
			}
			v := g12util.NewIDView(f.name, k)
			if expect > 400 {
				// more keys than needed: bound the table so that ~100 pairs are expected
				m := 1
				for float64(m)*float64(m)/2/space < 100 && m < n {
					m *= 2
				}
				v.MaxN = m
				if float64(n)*float64(n)/2/pow(f.base, float64(k+1)-f.offset) > 400 {
					continue // the next parameter is still plentiful: skip this one
				}
			}
			vs = append(vs, v)
		}
	}
	return vs
}

func partHostileRoles(t testing.TB, r *vf.Run) (table []hostileID) {
	le := logrus.NewEntry(logrus.New())
	le.Logger.SetOutput(io.Discard)

	judge := func(src string, h hostileID) {
		a, b := h.a, h.b
		wit := map[string]any{"source": src, "view": h.view, "common": fmt.Sprintf("%q", h.common), "a": a.String(), "b": b.String()}
		if a.ID == b.ID {
			r.Inconclusive("hostile pair with equal ids: " + a.String())
			return
		}
		r.Case("hostile-role|"+h.view+"|"+a.String()+"|"+b.String(), true)
		r.Count("hostile_pairs_"+src, 1)
		r.Count("hostile_pairs_view_"+h.view, 1)
		r.Distinct("hostile_views", h.view)
		// (1) the real session trackers of both peers
		var ab, ba bool
		var e1, e2 error
		if pk, pd := vf.Try(func() {
			ab, e1 = bwebrtc.VerifTrackerRole(context.Background(), le, a.Priv, b.ID)
			ba, e2 = bwebrtc.VerifTrackerRole(context.Background(), le, b.Priv, a.ID)
		}); pk || e1 != nil || e2 != nil {
			r.Violation("newSessionTracker/failed", fmt.Sprint("session tracker could not be built: ", pd, e1, e2), wit)
			return
		}
		wit["a_offerer"], wit["b_offerer"] = ab, ba
		if ab == ba {
			what := "both session trackers of a pair of distinct peers take the offerer role"
			if !ab {
				what = "neither session tracker of a pair of distinct peers takes the offerer role"
			}
			r.Violation("newSessionTracker/role-clash/colliding-ids", what+" (ids coincide under "+h.view+")", wit)
		}
		// (2) the role function on the full id strings
		var sab, sba bool
		if pk, pd := vf.Try(func() {
			sab, sba = bwebrtc.VerifIsOfferer(a.String(), b.String()), bwebrtc.VerifIsOfferer(b.String(), a.String())
		}); pk {
			r.Violation("isOfferer/panic", "panicked: "+pd, wit)
			return
		}
		if sab == sba {
			wit["a_offers_to_b"], wit["b_offers_to_a"] = sab, sba
			r.Violation("isOfferer/role-clash/colliding-ids", "isOfferer gives both peers of a distinct pair the same role (ids coincide under "+h.view+")", wit)
		}
		// (3) both decisions must be the same decision
		if ab != ba && sab != sba && ab != sab {
			r.Count("tracker_role_differs_from_isOfferer_on_full_ids", 1) // not demanded by the property; observed only
		}
	}

	r.Begin("roles on the hard-coded hostile identity pairs (self-test first)")
	table = hostileSelfTest(t)
	for i, h := range table {
		judge("table", h)
		if i < 2 {
			r.Sample(map[string]any{"hostile_pair_view": h.view, "common": h.common, "a": h.a.String(), "b": h.b.String()})
		}
	}

	// live birthday search over a seeded key stream. The search runs in a helper
	// process built without the race detector (key grinding is ~50x slower under
	// it); if no toolchain is available it runs in-process over fewer keys.
	n := r.N(1<<18, 1<<23)
	tag := fmt.Sprintf("c26live %016x", r.Rand("c26/live-grind").Uint64())
	per := r.N(12, 1<<20)
	views := liveViews(n)
	r.Begin(fmt.Sprintf("live birthday search: %d keys of stream %q, %d views", n, tag, len(views)))
	var found map[string][]g12util.GrindPair
	var err error
	if hd, e := filepath.Abs(filepath.Join("..", "..")); e != nil {
		err = e
	} else if _, e := os.Stat(filepath.Join(hd, "g12util", "grindcmd", "main.go")); e != nil {
		err = e
	} else {
		found, err = g12util.GrindExternal(hd, t.TempDir(), tag, n, views, per)
	}
	if err != nil {
		r.Extra("live_grind_fallback", "helper process unavailable ("+err.Error()+"); in-process search over fewer keys")
		n = r.N(1<<13, 1<<16)
		views = liveViews(n)
		found, err = g12util.Grind(tag, n, views, runtime.NumCPU(), per)
	}
	if err != nil {
		r.Inconclusive("live birthday search failed: " + err.Error())
		return table
	}
	r.Count("live_grind_keys", n)
	names := make([]string, 0, len(found))
	for name := range found {
		names = append(names, name)
	}
	sort.Strings(names)
	r.Begin("roles on the pairs found by the live birthday search")
	for _, name := range names {
		for _, p := range found[name] {
			a, e1 := g12util.IdentityFromSeed(p.SeedA)
			b, e2 := g12util.IdentityFromSeed(p.SeedB)
			if e1 != nil || e2 != nil {
				r.Inconclusive(fmt.Sprint("cannot derive live pair: ", e1, e2))
				continue
			}
			judge("live", hostileID{view: p.View, common: p.Common, a: a, b: b})
		}
	}
	return table
}

// hostilePick selects the hostile pair used for the i-th extra honest
// handshake: the first pair of the i-th view in a fixed order of preference.
func hostilePick(table []hostileID, i int) *hostileID {
	pref := []string{"suffix-8", "prefix-16", "foldsuffix-10", "ends-13", "bytesuffix-6", "byteprefix-6", "suffix-7", "prefix-15", "foldprefix-18", "suffix-6"}
	if i >= len(pref) {
		return nil
	}
	for k := range table {
		if table[k].view == pref[i] {
			return &table[k]
		}
	}
	return nil
}
