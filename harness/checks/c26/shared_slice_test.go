// C26, signals, family (5): the same payload SLICE is presented to the decoder
// several times (a relay / signal handler that tries several keys, a payload that
// is re-delivered, a buffer that first went through another context's decrypt).
//
// The other families hand every decode call a private copy of the payload, so a
// decoder that damages its input (or keeps state derived from it) is invisible
// to them. Here ONE buffer per history is shared by all calls of the history.
//
// Oracle (unchanged ground truth: the harness knows for whom the payload was
// encoded and what the signal was): in every history, every decode with the
// recipient's key yields exactly the original signal, every decode with another
// key / decrypt under another context fails - whatever was presented before.
// Only decode RESULTS are judged; whether the buffer's bytes are preserved is
// recorded (count) but not demanded by the property.
package c26

import (
	"bytes"
	"fmt"
	"math/rand/v2"
	"strings"

	"github.com/aperturerobotics/bifrost/peer"
	bwebrtc "github.com/aperturerobotics/bifrost/transport/webrtc"
	"verifharness/keys"
	"verifharness/vf"
)

// history letters:
//
//	F decode with a foreign key            (must fail)
//	G decode with a second foreign key     (must fail)
//	C decrypt with the recipient's key under a non-WebRTC context (must fail)
//	R decode with the recipient's key      (must equal the original)
var fixedSharedHistories = []string{"FR", "RR", "CR", "FFR", "RFR", "FCR", "RRR", "CFRR", "GFCRFR", "RCR"}

func genSharedHistory(rng *rand.Rand) string {
	n := 1 + rng.IntN(5)
	var b strings.Builder
	for i := 0; i < n; i++ {
		b.WriteByte("FFGCRR"[rng.IntN(6)])
	}
	b.WriteByte('R')
	return b.String()
}

// layoutShared returns the payload placed in a fresh backing array in one of
// several layouts (exact; spare capacity behind it; inside a larger message
// buffer) and the name of the layout.
func layoutShared(rng *rand.Rand, payload []byte, which int) ([]byte, string) {
	switch which % 3 {
	case 0:
		return bytes.Clone(payload), "exact"
	case 1:
		extra := 1 + rng.IntN(64)
		buf := make([]byte, len(payload), len(payload)+extra)
		copy(buf, payload)
		tail := buf[len(payload):cap(buf)]
		for i := range tail {
			tail[i] = byte(rng.UintN(256))
		}
		return buf, "spare-capacity"
	default:
		pre, post := 1+rng.IntN(48), 1+rng.IntN(48)
		buf := make([]byte, pre+len(payload)+post)
		for i := range buf {
			buf[i] = byte(rng.UintN(256))
		}
		copy(buf[pre:], payload)
		return buf[pre : pre+len(payload) : pre+len(payload)], "inside-larger-buffer"
	}
}

func opClass(op byte) string {
	switch op {
	case 'F', 'G':
		return "foreign-key-attempt"
	case 'C':
		return "other-context-attempt"
	case 'R':
		return "recipient-decode"
	}
	return "start"
}

func sharedSliceHistories(r *vf.Run, rng *rand.Rand, pool []*keys.Identity, sc sigCase, orig *bwebrtc.WebRtcSignal, payload []byte, k *keys.Identity, si, ki int, baseWit map[string]any) {
	// two foreign identities distinct from the recipient
	var foreign []*keys.Identity
	for j := 1; len(foreign) < 2 && j < len(pool); j++ {
		o := pool[(si+ki+j*5+2)%len(pool)]
		if o.ID != k.ID && (len(foreign) == 0 || foreign[0].ID != o.ID) {
			foreign = append(foreign, o)
		}
	}
	if len(foreign) < 2 {
		return
	}
	var hists []string
	if ki == 0 {
		hists = append(hists, fixedSharedHistories...)
	} else {
		hists = append(hists, fixedSharedHistories[(si+ki)%len(fixedSharedHistories)])
	}
	for i := 0; i < 2; i++ {
		hists = append(hists, genSharedHistory(rng))
	}
	for hi, hist := range hists {
		shared, layout := layoutShared(rng, payload, si+ki+hi)
		oc := otherContexts[(si+hi)%len(otherContexts)]
		wit := map[string]any{}
		for key, v := range baseWit {
			wit[key] = v
		}
		wit["history"], wit["layout"], wit["other_context"] = hist, layout, oc
		wit["foreign_keys"] = []string{foreign[0].String(), foreign[1].String()}
		r.Case(fmt.Sprintf("shared|%s|%s|%s", hist, layout, sc.kind), true)
		r.Distinct("shared_slice_histories", hist)
		r.Count("shared_slice_histories_run", 1)
		prev := byte(0)
		for step := 0; step < len(hist); step++ {
			op := hist[step]
			wit["step"] = step
			switch op {
			case 'F', 'G':
				o := foreign[0]
				if op == 'G' {
					o = foreign[1]
				}
				var d *bwebrtc.WebRtcSignal
				var err error
				if pk, pd := vf.Try(func() { d, err = bwebrtc.DecodeWebRtcSignal(shared, o.Priv) }); pk {
					r.Violation("DecodeWebRtcSignal/panic/shared-slice", "DecodeWebRtcSignal panicked: "+pd, wit)
					break
				}
				r.Count("shared_slice_foreign_key_attempts", 1)
				if err == nil {
					wit["other_key"], wit["decoded_pb_hex"] = o.String(), describe(d)
					r.Violation("DecodeWebRtcSignal/shared-slice/decoded-with-other-key", "a payload presented repeatedly was decoded with a key it was not encoded for", wit)
				}
			case 'C':
				var p2 []byte
				var err error
				if pk, pd := vf.Try(func() { p2, err = peer.DecryptWithPrivKey(k.Priv, oc, shared) }); pk {
					r.Violation("DecryptWithPrivKey/panic/shared-slice", "panicked: "+pd, wit)
					break
				}
				r.Count("shared_slice_other_context_attempts", 1)
				if err == nil {
					wit["plaintext_hex"] = vf.Hex(p2)
					r.Violation("DecodeWebRtcSignal/shared-slice/decrypted-in-other-context", "a signaling payload presented repeatedly was decrypted under a non-WebRTC context", wit)
				}
			case 'R':
				var d *bwebrtc.WebRtcSignal
				var err error
				if pk, pd := vf.Try(func() { d, err = bwebrtc.DecodeWebRtcSignal(shared, k.Priv) }); pk {
					r.Violation("DecodeWebRtcSignal/panic/shared-slice", "DecodeWebRtcSignal panicked: "+pd, wit)
					break
				}
				r.Count("shared_slice_recipient_decodes", 1)
				if prev != 0 {
					r.Count("shared_slice_recipient_decodes_after_"+opClass(prev), 1)
				}
				if err != nil || d == nil {
					wit["err"], wit["buffer_intact"] = fmt.Sprint(err), bytes.Equal(shared, payload)
					r.Violation("DecodeWebRtcSignal/shared-slice/recipient-cannot-decode/after-"+opClass(prev),
						"the recipient could not decode a payload encoded for it after the same buffer had been presented to the decoder before ("+opClass(prev)+")", wit)
				} else if !d.EqualVT(orig) {
					wit["decoded_pb_hex"] = describe(d)
					r.Violation("DecodeWebRtcSignal/shared-slice/roundtrip-differs/after-"+opClass(prev),
						"the recipient decoded a different signal from a buffer that had been presented to the decoder before ("+opClass(prev)+")", wit)
				}
			}
			prev = op
		}
		if !bytes.Equal(shared, payload) {
			r.Count("shared_slice_buffer_changed_by_decoder", 1) // recorded, not judged
		}
	}
}
