package sigcli

import (
	"context"
	"errors"
	"fmt"
	"io"
	"strings"
	"sync"
	"sync/atomic"
	"testing"
	"testing/synctest"
	"time"

	"verifharness/g8sig"
	"verifharness/keys"
	"verifharness/vf"
)

// Part (iii) of C23: stream ENDINGS of every shape, judged under virtual time.
//
// Between a stream failure and the client's retry there is only a timer (the
// client's back-off, a harness-chosen constant of 5 ms), which no goroutine
// dump shows; parts (i) and (ii) therefore WAIT for the client to be attached
// again and cannot tell "retry timer pending" from "will never retry". Here
// every case runs inside a testing/synctest bubble: the clock is virtual, it
// only advances when every goroutine of the case is durably blocked, and
// sleeping c23Horizon of virtual time fires every timer due until then. A
// client that holds a peer reference and is still detached after that - i.e.
// a Send that is still parked - is stuck: nothing in the system is runnable
// and no timer within 400 back-off intervals is pending. No wall-clock time
// enters the verdict.

// c23Horizon is the virtual time granted after every step: 400 x the client's
// constant retry back-off (g8sig.FastBackoff, 5 ms).
const c23Horizon = 2 * time.Second

var errRemote = errors.New("g8sig: remote error: call failed")

// c23Shapes are the ways a Session stream can end, seen from the client.
var c23Shapes = []g8sig.EndShape{
	{Name: "error", RecvErr: g8sig.ErrKilled, SendErr: g8sig.ErrKilled},
	{Name: "error-in-flight-write-fails", RecvErr: g8sig.ErrKilled, SendErr: g8sig.ErrKilled, FailInFlight: true},
	{Name: "remote-error-after-drain", RecvErr: errRemote, Drain: true, SendErr: io.ErrClosedPipe},
	{Name: "eof", RecvErr: io.EOF, Drain: true, SendErr: io.ErrClosedPipe},
	{Name: "eof-in-flight-write-fails", RecvErr: io.EOF, Drain: true, SendErr: io.ErrClosedPipe, FailInFlight: true},
	{Name: "eof-writes-eof", RecvErr: io.EOF, Drain: true, SendErr: io.EOF, FailInFlight: true},
	{Name: "eof-queued-responses-lost", RecvErr: io.EOF, SendErr: io.EOF},
	{Name: "eof-half-close", RecvErr: io.EOF, Drain: true, Swallow: true},
	{Name: "error-half-close", RecvErr: errRemote, Drain: true, Swallow: true},
	{Name: "unexpected-eof", RecvErr: io.ErrUnexpectedEOF, SendErr: io.ErrUnexpectedEOF},
	{Name: "stream-context-cancelled", RecvErr: context.Canceled, SendErr: context.Canceled, CancelCtx: true},
	{Name: "eof-and-stream-context-cancelled", RecvErr: io.EOF, Drain: true, SendErr: context.Canceled, CancelCtx: true},
}

// settle lets the bubble run dry, grants the horizon of virtual time and lets it run dry again.
func c23Settle() {
	synctest.Wait()
	time.Sleep(c23Horizon)
	synctest.Wait()
}

type c23EndCase struct {
	NX, NP  int
	AutoAck bool
	Shape   int
	K       int // crossing index at which the stream ends (beyond the exchange: at a quiescent point, client idle)
}

func (c c23EndCase) sig() string {
	return fmt.Sprintf("endings scripted nx%d np%d autoAck=%v %s@%d", c.NX, c.NP, c.AutoAck, c23Shapes[c.Shape].Name, c.K)
}

func runC23Endings(r *vf.Run, t *testing.T, pool []*keys.Identity) {
	var cases []c23EndCase
	for _, nn := range [][2]int{{1, 0}, {1, 1}, {2, 1}} {
		kmax := 2*(nn[0]+nn[1]) + 2
		for _, aa := range []bool{true, false} {
			for sh := range c23Shapes {
				for k := 0; k <= kmax; k++ {
					cases = append(cases, c23EndCase{NX: nn[0], NP: nn[1], AutoAck: aa, Shape: sh, K: k})
				}
			}
		}
	}
	r.Extra("endings_scripted_cases", len(cases))
	for idx, c := range cases {
		synctest.Test(t, func(t *testing.T) { runC23EndScripted(r, idx, c, pool) })
	}

	var bcases []c23EndBCase
	reps := r.N(1, 6)
	for rep := 0; rep < reps; rep++ {
		for _, nn := range [][2]int{{1, 1}, {2, 1}} {
			kmax := 5*(nn[0]+nn[1]) + 3
			if r.Quick() && nn[0] == 2 {
				continue
			}
			for _, who := range []string{"own", "partner"} {
				for sh := range c23Shapes {
					for k := 0; k <= kmax; k++ {
						bcases = append(bcases, c23EndBCase{NA: nn[0], NB: nn[1], Who: who, Shape: sh, K: k, Rep: rep})
					}
				}
			}
		}
	}
	r.Extra("endings_harnessB_cases", len(bcases))
	for idx, c := range bcases {
		synctest.Test(t, func(t *testing.T) { runC23EndB(r, idx, c, pool) })
	}
}

func runC23EndScripted(r *vf.Run, idx int, c c23EndCase, pool []*keys.Identity) {
	sig := c.sig()
	shape := c23Shapes[c.Shape]
	r.Begin(fmt.Sprintf("C23 endings case %d: %s", idx, sig))
	x, p := pool[idx%len(pool)], pool[(idx+3)%len(pool)]
	ctx, cancel := context.WithCancel(context.Background())
	h := g8sig.NewHonestRelay(x, p, true, c.AutoAck)
	cl, err := g8sig.NewClient(ctx, x, h)
	if err != nil {
		cancel()
		r.Inconclusive("NewClient: " + err.Error())
		return
	}
	ref := cl.AddPeerRef(p.String())
	var clock atomic.Int64
	app := g8sig.NewApp("X", &clock)
	app.RecvLoop(ctx, ref, "P", 0)
	defer func() {
		cancel()
		app.Wait()
		ref.Release()
		synctest.Wait()
	}()

	c23Settle()
	if ok, why := h.LiveOK(); !ok {
		r.Inconclusive(fmt.Sprintf("C23 endings case %d: client not attached at the start: %s", idx, why))
		r.Case(sig, false)
		return
	}
	base := h.State().Crossings

	var mu sync.Mutex
	fired, inWrite := false, false
	var sends []*g8sig.SendOp
	h.SetFault(func(h *g8sig.HonestRelay, k int, desc string) {
		mu.Lock()
		do := !fired && k-base == c.K
		if do {
			fired = true
			inWrite = h.InRequestL()
		}
		mu.Unlock()
		if do {
			h.EndStreamL(shape)
		}
	})
	for i := 0; i < c.NX; i++ {
		op := app.Send(ctx, ref, "P", fmt.Sprintf("c23e-%d-x%d", idx, i))
		mu.Lock()
		sends = append(sends, op)
		mu.Unlock()
	}
	var pids []string
	for i := 0; i < c.NP; i++ {
		id := fmt.Sprintf("c23e-%d-p%d", idx, i)
		pids = append(pids, id)
		h.PartnerSend(id)
	}
	late := false
	for iter := 0; iter < 12; iter++ {
		c23Settle()
		if h.HeldAcks() > 0 {
			h.ReleaseAcks()
			continue
		}
		mu.Lock()
		f := fired
		fired = true
		mu.Unlock()
		if !f {
			// the crossing index lies beyond the exchange: the stream ends now, at a
			// quiescent point, with the client's writer idle
			h.Locked(func() { h.EndStreamL(shape) })
			continue
		}
		if !late {
			// stable suffix: one more Send after the last fault
			late = true
			op := app.Send(ctx, ref, "P", fmt.Sprintf("c23e-%d-late", idx))
			mu.Lock()
			sends = append(sends, op)
			mu.Unlock()
			continue
		}
		break
	}
	h.SetFault(nil)
	st := h.State()
	writer := "writer-idle"
	if inWrite {
		writer = "during-a-write"
	}
	r.Case(sig, true)
	r.Count("endings_scripted_cases", 1)
	r.Count("endings_scripted_"+writer, 1)
	r.Distinct("endings_shape_x_writer_state", shape.Name+"/"+writer)
	r.Distinct("endings_scripted_crossing_logs", strings.Join(st.Log, ";"))

	attached, why := h.LiveOK()
	witness := func() map[string]any {
		gs := g8sig.FilterDump(g8sig.DumpAll(), "ClientPeerRef).Send", "clientPeerTracker).execute")
		if len(gs) > 6 {
			gs = gs[:6]
		}
		return map[string]any{"case": c, "shape": shape.Name, "stream_ended": writer, "relay_log": st.Log, "sends": app.Sends(),
			"client_attached_at_the_end": attached, "not_attached_because": why, "session_calls_made_by_the_client": h.NStreams(),
			"virtual_time_granted_after_every_step": c23Horizon.String(), "client_requests": fmt.Sprint(h.Reqs()),
			"goroutines_matching_Send_or_execute": gs}
	}
	for _, s := range sends {
		so := app.Snapshot(s)
		switch {
		case !so.Done:
			r.Violation("endings/send-parked-after-stream-end/"+shape.Name+"/"+writer,
				fmt.Sprintf("X's Send(%s) is still parked %v of virtual time (400 retry back-offs) after X's Session stream ended (%s, %s) and nothing is runnable: the relay works, the partner is attached, X holds its peer reference; X attached again=%v (%d Session calls in total)", so.ID, c23Horizon, shape.Name, writer, attached, h.NStreams()), witness())
			return
		case !so.OK:
			r.Violation("endings/send-failed/"+shape.Name, fmt.Sprintf("X's Send(%s) returned an error (%s) although its context was never cancelled", so.ID, so.Err), witness())
			return
		}
		r.Count("endings_scripted_sends_completed", 1)
	}
	for _, id := range pids {
		got, _ := app.Received(id)
		if !got || st.AckedByX[id] == 0 {
			r.Violation("endings/partner-message-not-received/"+shape.Name+"/"+writer,
				fmt.Sprintf("partner message %s: handed to X's application=%v acked by X=%d, %v of virtual time after X's stream ended (%s); X attached again=%v", id, got, st.AckedByX[id], c23Horizon, shape.Name, attached), witness())
			return
		}
	}
	if idx%97 == 0 {
		r.Sample(map[string]any{"case": sig, "crossings": st.Crossings, "session_calls": h.NStreams()})
	}
}

// ---------------------------------------------------------------------------
// the same over the real server: two real clients <-> proxy <-> real server

type c23EndBCase struct {
	NA, NB int
	Who    string // own (A's stream towards B) | partner (B's stream towards A)
	Shape  int
	K      int
	Rep    int
}

func (c c23EndBCase) sig() string {
	return fmt.Sprintf("endings harnessB na%d nb%d %s %s@%d rep%d", c.NA, c.NB, c.Who, c23Shapes[c.Shape].Name, c.K, c.Rep)
}

func runC23EndB(r *vf.Run, idx int, c c23EndBCase, pool []*keys.Identity) {
	sig := c.sig()
	shape := c23Shapes[c.Shape]
	r.Begin(fmt.Sprintf("C23 endings harness-B case %d: %s", idx, sig))
	ia, ib := pool[idx%len(pool)], pool[(idx+1)%len(pool)]
	ctx, cancel := context.WithCancel(context.Background())
	hb := g8sig.NewHB()
	ca, err1 := g8sig.NewClient(ctx, ia, hb.ClientFor(ia, "A"))
	cb, err2 := g8sig.NewClient(ctx, ib, hb.ClientFor(ib, "B"))
	if err1 != nil || err2 != nil {
		cancel()
		r.Inconclusive("NewClient failed")
		return
	}
	var clock atomic.Int64
	appA, appB := g8sig.NewApp("A", &clock), g8sig.NewApp("B", &clock)
	refAB := ca.AddPeerRef(ib.String())
	hb.Expect("A", ib.String(), true)
	refBA := cb.AddPeerRef(ia.String())
	hb.Expect("B", ia.String(), true)
	appA.RecvLoop(ctx, refAB, "B", 0)
	appB.RecvLoop(ctx, refBA, "A", 0)
	defer func() {
		cancel()
		hb.Shutdown()
		appA.Wait()
		appB.Wait()
		refAB.Release()
		refBA.Release()
		synctest.Wait()
	}()
	c23Settle()
	if ok, why := hb.LiveOK(); !ok {
		r.Inconclusive(fmt.Sprintf("C23 endings harness-B case %d: clients not attached at the start: %s", idx, why))
		r.Case(sig, false)
		return
	}
	base, _ := hb.Crossings()
	doFault := func() {
		var cn *g8sig.HBConn
		if c.Who == "own" {
			cn = hb.Latest("A", ib.String())
		} else {
			cn = hb.Latest("B", ia.String())
		}
		if cn != nil {
			hb.EndConn(cn, shape)
		}
	}
	type obl struct {
		from, id string
		op       *g8sig.SendOp
		app      *g8sig.App
	}
	var mu sync.Mutex
	var obls []*obl
	fired := false
	hb.SetHook(func(hb *g8sig.HB, k int, cn *g8sig.HBConn, dir, desc string) {
		mu.Lock()
		do := !fired && k-base == c.K
		if do {
			fired = true
		}
		mu.Unlock()
		if do {
			doFault()
		}
	})
	mu.Lock()
	for i := 0; i < c.NA; i++ {
		id := fmt.Sprintf("c23eb-%d-a%d", idx, i)
		obls = append(obls, &obl{"A", id, appA.Send(ctx, refAB, "B", id), appA})
	}
	for i := 0; i < c.NB; i++ {
		id := fmt.Sprintf("c23eb-%d-b%d", idx, i)
		obls = append(obls, &obl{"B", id, appB.Send(ctx, refBA, "A", id), appB})
	}
	mu.Unlock()
	c23Settle()
	mu.Lock()
	lateFault := !fired
	fired = true
	mu.Unlock()
	if lateFault {
		doFault() // both clients idle
		c23Settle()
	}
	hb.SetHook(nil)
	// stable suffix: one more Send per side
	mu.Lock()
	obls = append(obls, &obl{"A", fmt.Sprintf("c23eb-%d-a-late", idx), appA.Send(ctx, refAB, "B", fmt.Sprintf("c23eb-%d-a-late", idx)), appA},
		&obl{"B", fmt.Sprintf("c23eb-%d-b-late", idx), appB.Send(ctx, refBA, "A", fmt.Sprintf("c23eb-%d-b-late", idx)), appB})
	mu.Unlock()
	c23Settle()

	ncross, order := hb.Crossings()
	when := "at-a-crossing"
	if lateFault {
		when = "both-clients-idle"
	}
	r.Case(sig, true)
	r.Count("endings_harnessB_cases", 1)
	r.Count("endings_harnessB_"+when, 1)
	r.Count("endings_harnessB_crossings", ncross)
	r.Distinct("endings_harnessB_crossing_orders", strings.Join(order, ";"))
	attached, why := hb.LiveOK()
	witness := func() map[string]any {
		taps := map[string]any{}
		for _, cn := range hb.Conns() {
			ended, e := cn.Ended()
			taps[fmt.Sprintf("conn%d %s", cn.ID, cn.Owner)] = map[string]any{"to_client": cn.Tap(), "ended": ended, "err": e}
		}
		return map[string]any{"case": c, "shape": shape.Name, "crossing_order": order, "sends_A": appA.Sends(), "sends_B": appB.Sends(),
			"every_expected_stream_live_at_the_end": attached, "not_live_because": why, "taps": taps,
			"virtual_time_granted_after_every_step": c23Horizon.String()}
	}
	mu.Lock()
	defer mu.Unlock()
	for _, o := range obls {
		so := o.app.Snapshot(o.op)
		switch {
		case !so.Done:
			r.Violation("endings-harnessB/send-parked-after-stream-end/"+c.Who+"/"+shape.Name,
				fmt.Sprintf("%s's Send(%s) is still parked %v of virtual time (400 retry back-offs) after %s stream ended (%s, %s) and nothing is runnable; every expected stream live=%v (%s)", o.from, o.id, c23Horizon, map[string]string{"own": "A's", "partner": "B's"}[c.Who], shape.Name, when, attached, why), witness())
			return
		case !so.OK:
			r.Violation("endings-harnessB/send-failed/"+shape.Name, fmt.Sprintf("%s's Send(%s) failed: %s", o.from, o.id, so.Err), witness())
			return
		}
		r.Count("endings_harnessB_sends_completed", 1)
	}
}
