package sigcli

import (
	"context"
	"fmt"
	"strings"
	"sync/atomic"
	"testing"

	signaling_client "github.com/aperturerobotics/bifrost/signaling/rpc/client"
	"verifharness/g8sig"
	"verifharness/keys"
	"verifharness/vf"
)

func TestC21(t *testing.T) {
	r := vf.Start(t, "C21", vf.Exploration)
	defer r.Finish()
	r.SetRule("Part (i) Harness B: 2-3 real clients <-> tap/proxy <-> real server; every client holds 1-3 ClientPeerRefs per remote peer (AddPeerRef called repeatedly for the same peer: one shared session; each Send / Recv names the ref it goes through and runs in its own goroutine); case = PRNG program of <= 8 sends plus receives (application Recv calls are issued explicitly, so receivers can be late; Recv calls with an ALREADY CANCELLED context; cancellation of parked Recv activities, also racing an arriving message), send cancellations, stream kills (re-open), and proxy faults within a stream (drop / duplicate / late duplicate / stall of acks, RecvMsg, SendMsg), with quiescent points in between; half of the programs start from directed templates (late receiver + late duplicate ack with the next send through another ref, cancel then next send, caller gives up while the ack is stalled then next send through another ref, equal per-ref warm-up histories first, kill between receive and ack, dead-context Recv on a pending message, parked Recv cancelled around the release of a stalled RecvMsg, dead-context and normal Recv calls interleaved). One logical clock (atomic counter): Recv operations are intervals [call, ret], SendRet is a point. Oracle: SendRet(id, ok) => a Recv operation of the addressed peer's application returned id and its CALL precedes SendRet; every Recv-returned payload was sent by that session's partner to this peer; a Recv that returned an error handed nothing over, so at the final quiescent point the number of AckMsg(s) a client emitted towards a partner is <= the number of successful Recv returns of a message with seqno s from that partner. A second family of Harness-B programs (90 quick) covers (a) NEW INCARNATIONS of a peer: the old client object stops without the server noticing (its calls stay registered), a fresh client object of the same identity (message seqnos restarting at 1) opens its sessions and usurps them, while the partner holds an unprocessed message of the old incarnation, the new incarnation's first message is slow (stalled RecvMsg) and the partner application calls Recv late; also both peers re-incarnating, a slow ack of the old incarnation's message, 0-1 completed exchanges before; (b) blocked client writers (write gate on the client's stream: Send(m1) transmitted, the caller gives up, the partner's ack arrives, only then the write returns, next Send with a late receiver; receiver's ack write blocked while the sender cancels and re-sends); oracle unchanged. Part (ii) real client against a scripted relay: directed scripts (acks naming a seqno other than the outstanding one - duplicates of earlier acks, +1, +5, 0, huge; clears naming another seqno; ack requested before the application's Recv call; cancel followed by a late ack of the cancelled message; re-open then wrong ack; with 2-3 ClientPeerRefs: cancelled message acked late / duplicate of an earlier ack while the next message sent through another ref is outstanding, concurrent sends through different refs; application Recv with a dead context on a pending message, around a delivery, after a parked Recv was cancelled) with every parameter value enumerated, plus PRNG scripts over the same step alphabet (1-3 refs, dead-context Recv, cancelrecv). BLOCKED WRITER (slow upstream link): a one-shot gate in the fake stream parks the client's session routine inside its write of a SendMsg / ClearMsg / AckMsg (before the relay sees the request, or after the relay handled it but before the write returns) while the application cancels the Send and the relay pushes the ack of that message, in both orders, once or twice, with the next Send issued before or after the write returns (40 enumerated scripts T10a-e over 1-2 refs, 0-1 warm-up exchanges, both gate positions; every other PRNG script contains windows of 1-4 steps with a blocked writer); an ack pushed by number while the named SendMsg is blocked on its way to the relay counts as an ack of that message (the client regards it as transmitted). Oracle after every step at a quiescent point: Send ok => the relay pushed AckMsg(seq of that message) after having seen its SendMsg, and one of these acks was pushed on behalf of THAT message (script step ack(id), or an ack chosen by number which stands for every payload the client sent under that number) - an ack of another message never completes it; every AckMsg the client emits names a delivered message and is preceded by an application Recv that returned it (count of acks(q) <= count of Recv returns of q); every ClearMsg the client emits names a message whose Send was cancelled; a delivered, un-cleared message is returned by a pending Recv (expect steps, only where no re-open intervenes). Non-trivial = at least one Send completed ok, or one wrong ack/clear was delivered while a message was outstanding, or a dead-context Recv found a pending message; distinct = distinct programs/scripts")
	r.Assume("'in the same signaling session' is not enforced beyond the identity of the partner application: a message the partner's application received before a re-open counts as received (DESIGN 8 / report)")
	pool := keys.Pool(r.Rand("c21-keys"), 9)

	scripts := genC21Scripts(r)
	r.Extra("scripted_cases", len(scripts))
	rounds := runBatches(len(scripts), 150, func(idx int, b *g8sig.Batch) {
		runC21Scripted(r, idx, scripts[idx], pool, b)
	})
	r.Count("barrier_rounds_scripted", rounds)

	progs := genC21Programs(r)
	r.Extra("harnessB_cases", len(progs))
	rounds = runBatches(len(progs), 100, func(idx int, b *g8sig.Batch) {
		runC21B(r, idx, progs[idx], pool, b)
	})
	r.Count("barrier_rounds_harnessB", rounds)

	traces := genC21Traces(r)
	r.Extra("server_trace_cases", len(traces))
	rounds = runBatches(len(traces), 150, func(idx int, b *g8sig.Batch) {
		runC21Trace(r, idx, traces[idx], pool, b)
	})
	r.Count("barrier_rounds_server_trace", rounds)
}

// ---------------------------------------------------------------------------
// Part (ii): scripted relay

type c21Step struct {
	Do    string // opened | reopen | closeopen | send | cancel | ack | ackabs | recvmsg | clear | apprecv | apprecvc | cancelrecv | stall | unstall | expect-recv | expect-pending
	ID    string // send / cancel / ack(of) / recvmsg / expect-recv / expect-pending; stall: request kind (send | ack | clear | any)
	After bool   // stall: park the client's writer AFTER the relay got the request (else before)
	Delta int64  // ack: seq(ID)+Delta
	Seq   uint64 // ackabs / clear / recvmsg(q)
	N     int    // apprecv: number of messages; cancelrecv: index of the receive activity
	Ref   int    // send / apprecv / apprecvc: which ClientPeerRef (modulo the script's Refs)
}

func (s c21Step) String() string {
	switch s.Do {
	case "ack":
		return fmt.Sprintf("ack(%s%+d)", s.ID, s.Delta)
	case "ackabs", "clear":
		return fmt.Sprintf("%s(#%d)", s.Do, s.Seq)
	case "recvmsg":
		return fmt.Sprintf("recvmsg(%s,#%d)", s.ID, s.Seq)
	case "apprecv":
		return fmt.Sprintf("apprecv(%d,r%d)", s.N, s.Ref)
	case "apprecvc":
		return fmt.Sprintf("apprecv-ctx-cancelled(r%d)", s.Ref)
	case "cancelrecv":
		return fmt.Sprintf("cancelrecv(#%d)", s.N)
	case "send":
		return fmt.Sprintf("send(%s,r%d)", s.ID, s.Ref)
	case "stall":
		return fmt.Sprintf("stall-write(%s,%s)", s.ID, map[bool]string{false: "before-relay", true: "after-relay"}[s.After])
	case "cancel", "expect-recv", "expect-pending":
		return fmt.Sprintf("%s(%s)", s.Do, s.ID)
	}
	return s.Do
}

type c21Script struct {
	Name  string
	Steps []c21Step
	Refs  int // ClientPeerRefs the application holds to the partner (0 = 1)
}

func genC21Scripts(r *vf.Run) []c21Script {
	var out []c21Script
	add := func(name string, st ...c21Step) { out = append(out, c21Script{Name: name, Steps: st}) }
	addR := func(refs int, name string, st ...c21Step) {
		out = append(out, c21Script{Name: fmt.Sprintf("%s refs=%d", name, refs), Steps: st, Refs: refs})
	}
	op := c21Step{Do: "opened"}
	deltas := []int64{-1, 1, 2, 5, 1 << 40}
	// T1 wrong ack with nPrior completed sends before
	for nPrior := 0; nPrior <= 2; nPrior++ {
		for _, d := range deltas {
			if d == -1 && nPrior == 0 {
				continue
			}
			st := []c21Step{op}
			for i := 0; i < nPrior; i++ {
				id := fmt.Sprintf("p%d", i)
				st = append(st, c21Step{Do: "send", ID: id}, c21Step{Do: "ack", ID: id})
			}
			st = append(st, c21Step{Do: "send", ID: "x"}, c21Step{Do: "ack", ID: "x", Delta: d}, c21Step{Do: "ackabs", Seq: 0}, c21Step{Do: "ack", ID: "x"})
			add(fmt.Sprintf("T1 wrong-ack prior=%d delta=%d", nPrior, d), st...)
		}
	}
	// T2 ack before application Recv
	for nPrior := 0; nPrior <= 1; nPrior++ {
		for _, q := range []uint64{1, 7} {
			st := []c21Step{op}
			if nPrior == 1 {
				st = append(st, c21Step{Do: "recvmsg", ID: "r0", Seq: q}, c21Step{Do: "apprecv", N: 1})
			}
			st = append(st, c21Step{Do: "recvmsg", ID: "r1", Seq: q + 1}, c21Step{Do: "send", ID: "x"}, c21Step{Do: "apprecv", N: 1}, c21Step{Do: "expect-recv", ID: "r1"})
			add(fmt.Sprintf("T2 ack-before-recv prior=%d q=%d", nPrior, q), st...)
		}
	}
	// T3 clear naming another seqno
	for _, d := range []int64{-1, 1, 3} {
		q := uint64(5)
		add(fmt.Sprintf("T3 wrong-clear delta=%d", d), op, c21Step{Do: "recvmsg", ID: "r", Seq: q}, c21Step{Do: "clear", Seq: uint64(int64(q) + d)},
			c21Step{Do: "apprecv", N: 1}, c21Step{Do: "expect-recv", ID: "r"})
	}
	// T4 cancel, then a late ack of the cancelled message while the next is outstanding
	for _, lateFirst := range []bool{false, true} {
		st := []c21Step{op, {Do: "send", ID: "m1"}, {Do: "cancel", ID: "m1"}, {Do: "send", ID: "m2"}}
		if lateFirst {
			st = append(st, c21Step{Do: "ack", ID: "m1"}, c21Step{Do: "ack", ID: "m1"})
		} else {
			st = append(st, c21Step{Do: "ack", ID: "m1"})
		}
		st = append(st, c21Step{Do: "ack", ID: "m2"})
		add(fmt.Sprintf("T4 cancel-then-late-ack twice=%v", lateFirst), st...)
	}
	// T5 stale clear for an earlier, already received message
	add("T5 stale-clear", op, c21Step{Do: "recvmsg", ID: "a", Seq: 3}, c21Step{Do: "apprecv", N: 1}, c21Step{Do: "recvmsg", ID: "b", Seq: 4},
		c21Step{Do: "clear", Seq: 3}, c21Step{Do: "apprecv", N: 1}, c21Step{Do: "expect-recv", ID: "b"})
	// T6 re-open, then wrong ack, then right ack
	for _, ro := range []string{"reopen", "closeopen"} {
		for _, d := range []int64{1, 3} {
			add(fmt.Sprintf("T6 %s wrong-ack delta=%d", ro, d), op, c21Step{Do: "send", ID: "x"}, c21Step{Do: ro}, c21Step{Do: "ack", ID: "x", Delta: d}, c21Step{Do: "ack", ID: "x"})
		}
	}
	// T7 two concurrent sends: ack naming the queued (not yet transmitted) one
	add("T7 ack-for-queued", op, c21Step{Do: "send", ID: "m1"}, c21Step{Do: "send", ID: "m2"}, c21Step{Do: "ackabs", Seq: 2}, c21Step{Do: "ackabs", Seq: 1}, c21Step{Do: "ackabs", Seq: 2})
	// T8 several ClientPeerRefs on one session: the messages of different refs must be told apart
	for refs := 2; refs <= 3; refs++ {
		for warm := 0; warm <= 1; warm++ {
			var pre []c21Step
			pre = append(pre, op)
			for k := 0; k < warm*refs; k++ {
				id := fmt.Sprintf("w%d", k)
				pre = append(pre, c21Step{Do: "send", ID: id, Ref: k}, c21Step{Do: "ack", ID: id})
			}
			cp := func(st ...c21Step) []c21Step { return append(append([]c21Step(nil), pre...), st...) }
			// cancelled message acked late while the next one (other ref) is outstanding
			addR(refs, fmt.Sprintf("T8a cancel-then-late-ack warm=%d", warm), cp(c21Step{Do: "send", ID: "m1", Ref: 0}, c21Step{Do: "cancel", ID: "m1"},
				c21Step{Do: "send", ID: "m2", Ref: 1}, c21Step{Do: "ack", ID: "m1"}, c21Step{Do: "expect-pending", ID: "m2"}, c21Step{Do: "ack", ID: "m2"})...)
			// duplicate of an earlier ack while the next one (other ref) is outstanding
			addR(refs, fmt.Sprintf("T8b duplicate-ack warm=%d", warm), cp(c21Step{Do: "send", ID: "m1", Ref: 0}, c21Step{Do: "ack", ID: "m1"},
				c21Step{Do: "send", ID: "m2", Ref: 1}, c21Step{Do: "ack", ID: "m1"}, c21Step{Do: "expect-pending", ID: "m2"}, c21Step{Do: "ack", ID: "m2"})...)
			// two sends queued through different refs, acks in order
			addR(refs, fmt.Sprintf("T8c concurrent-sends warm=%d", warm), cp(c21Step{Do: "send", ID: "m1", Ref: 0}, c21Step{Do: "send", ID: "m2", Ref: 1},
				c21Step{Do: "send", ID: "m3", Ref: refs - 1}, c21Step{Do: "ack", ID: "m1"}, c21Step{Do: "ack", ID: "m1"}, c21Step{Do: "ack", ID: "m2"}, c21Step{Do: "ack", ID: "m2"}, c21Step{Do: "ack", ID: "m3"})...)
		}
	}
	// T9 application Recv calls whose context is cancelled (before the call / while parked), mixed with normal ones
	for refs := 1; refs <= 2; refs++ {
		for _, q := range []uint64{1, 7} {
			// message pending, Recv with a dead context, then a normal Recv
			addR(refs, fmt.Sprintf("T9a pending-then-cancelled-recv q=%d", q), op, c21Step{Do: "recvmsg", ID: "r1", Seq: q}, c21Step{Do: "apprecvc", Ref: refs - 1},
				c21Step{Do: "apprecv", N: 1}, c21Step{Do: "expect-recv", ID: "r1"})
			// dead-context Recv first (nothing pending), then the message, then another dead one, then a normal one
			addR(refs, fmt.Sprintf("T9b cancelled-recv-around-delivery q=%d", q), op, c21Step{Do: "apprecvc"}, c21Step{Do: "recvmsg", ID: "r1", Seq: q}, c21Step{Do: "apprecvc", Ref: refs - 1},
				c21Step{Do: "apprecvc"}, c21Step{Do: "apprecv", N: 1, Ref: refs - 1}, c21Step{Do: "expect-recv", ID: "r1"})
			// parked Recv cancelled, then delivery, then a dead-context Recv, second message, normal Recv
			addR(refs, fmt.Sprintf("T9c parked-recv-cancelled q=%d", q), op, c21Step{Do: "apprecv", N: 1}, c21Step{Do: "cancelrecv", N: 0}, c21Step{Do: "recvmsg", ID: "r1", Seq: q},
				c21Step{Do: "apprecvc", Ref: refs - 1}, c21Step{Do: "recvmsg", ID: "r2", Seq: q + 1}, c21Step{Do: "apprecv", N: 2}, c21Step{Do: "expect-recv", ID: "r2"})
		}
	}
	// T10 cancel / ack RACES while the client's writer is blocked in a write (slow upstream link):
	// the session routine cannot process the cancel (or anything else) until the write returns
	for refs := 1; refs <= 2; refs++ {
		for warm := 0; warm <= 1; warm++ {
			var pre []c21Step
			pre = append(pre, op)
			for k := 0; k < warm*refs; k++ {
				id := fmt.Sprintf("w%d", k)
				pre = append(pre, c21Step{Do: "send", ID: id, Ref: k}, c21Step{Do: "ack", ID: id})
			}
			cp := func(st ...c21Step) []c21Step { return append(append([]c21Step(nil), pre...), st...) }
			m1seq := uint64(warm*refs + 1) // Send calls so far + 1
			tail := []c21Step{{Do: "unstall"}, {Do: "send", ID: "m2", Ref: refs - 1}, {Do: "expect-pending", ID: "m2"}, {Do: "ack", ID: "m1"}, {Do: "expect-pending", ID: "m2"}, {Do: "ack", ID: "m2"}}
			for _, after := range []bool{true, false} {
				// the ack the relay pushes for m1: by payload once the relay has it, by number while the write is still blocked before the relay
				ack1 := c21Step{Do: "ack", ID: "m1"}
				if !after {
					ack1 = c21Step{Do: "ackabs", Seq: m1seq}
				}
				w := map[bool]string{true: "after-relay", false: "before-relay"}[after]
				// (a) the application gives up first, then the ack arrives, then the write returns
				addR(refs, fmt.Sprintf("T10a blocked-write cancel-then-ack %s warm=%d", w, warm), cp(append([]c21Step{{Do: "stall", ID: "send", After: after}, {Do: "send", ID: "m1"}, {Do: "cancel", ID: "m1"}, ack1}, tail...)...)...)
				// (b) the ack arrives first, then the (now void) cancel
				addR(refs, fmt.Sprintf("T10b blocked-write ack-then-cancel %s warm=%d", w, warm), cp(append([]c21Step{{Do: "stall", ID: "send", After: after}, {Do: "send", ID: "m1"}, ack1, {Do: "cancel", ID: "m1"}}, tail...)...)...)
				// (c) as (a), the ack delivered twice and the next message queued before the write returns
				addR(refs, fmt.Sprintf("T10c blocked-write cancel-ack-ack-send %s warm=%d", w, warm), cp(c21Step{Do: "stall", ID: "send", After: after}, c21Step{Do: "send", ID: "m1"}, c21Step{Do: "cancel", ID: "m1"}, ack1, ack1,
					c21Step{Do: "send", ID: "m2", Ref: refs - 1}, c21Step{Do: "unstall"}, c21Step{Do: "expect-pending", ID: "m2"}, c21Step{Do: "ack", ID: "m2"})...)
				// (d) the blocked write is the ClearMsg of the cancelled message; its late ack and a duplicate arrive around it
				addR(refs, fmt.Sprintf("T10d blocked-clear late-acks %s warm=%d", w, warm), cp(c21Step{Do: "send", ID: "m1"}, c21Step{Do: "stall", ID: "clear", After: after}, c21Step{Do: "cancel", ID: "m1"}, c21Step{Do: "ack", ID: "m1"},
					c21Step{Do: "send", ID: "m2", Ref: refs - 1}, c21Step{Do: "ack", ID: "m1"}, c21Step{Do: "unstall"}, c21Step{Do: "expect-pending", ID: "m2"}, c21Step{Do: "ack", ID: "m2"})...)
				// (e) the blocked write is the AckMsg for a received message: a send is queued, given up and "acked" by number meanwhile
				addR(refs, fmt.Sprintf("T10e blocked-ack queued-send-cancelled %s warm=%d", w, warm), cp(c21Step{Do: "recvmsg", ID: "r1", Seq: 4}, c21Step{Do: "stall", ID: "ack", After: after}, c21Step{Do: "apprecv", N: 1},
					c21Step{Do: "send", ID: "m1"}, c21Step{Do: "cancel", ID: "m1"}, c21Step{Do: "ackabs", Seq: m1seq}, c21Step{Do: "unstall"}, c21Step{Do: "send", ID: "m2", Ref: refs - 1},
					c21Step{Do: "expect-pending", ID: "m2"}, c21Step{Do: "ackabs", Seq: m1seq}, c21Step{Do: "expect-pending", ID: "m2"}, c21Step{Do: "ack", ID: "m2"}, c21Step{Do: "expect-recv", ID: "r1"})...)
			}
		}
	}
	// PRNG scripts over the same alphabet
	rng := r.Rand("c21-scripted")
	srng := r.Rand("c21-scripted-blocked-writes")
	for i, n := 0, r.N(200, 5000); i < n; i++ {
		st := []c21Step{op}
		ns, nr, na := 0, 0, 0
		q := uint64(rng.IntN(3))
		refs := []int{1, 2, 2, 3}[rng.IntN(4)]
		for j, m := 0, 6+rng.IntN(8); j < m; j++ {
			if i%2 == 1 && srng.IntN(4) == 0 {
				// every other script: a window in which the client's writer is blocked in a
				// write while the application and the relay go on (drawn from its own stream)
				kind := []string{"send", "send", "send", "any", "clear", "ack"}[srng.IntN(6)]
				st = append(st, c21Step{Do: "stall", ID: kind, After: srng.IntN(3) != 0})
				if kind == "send" || kind == "any" {
					st = append(st, c21Step{Do: "send", ID: fmt.Sprintf("s%d", ns), Ref: srng.IntN(refs)})
					ns++
				}
				for k, w := 0, 1+srng.IntN(4); k < w; k++ {
					last := fmt.Sprintf("s%d", ns-1)
					switch y := srng.IntN(10); {
					case y < 3 && ns > 0:
						st = append(st, c21Step{Do: "cancel", ID: last})
					case y < 6 && ns > 0:
						st = append(st, c21Step{Do: "ack", ID: last})
					case y == 6:
						st = append(st, c21Step{Do: "ackabs", Seq: uint64(srng.IntN(ns + 2))})
					case y == 7:
						st = append(st, c21Step{Do: "send", ID: fmt.Sprintf("s%d", ns), Ref: srng.IntN(refs)})
						ns++
					case y == 8:
						q++
						st = append(st, c21Step{Do: "recvmsg", ID: fmt.Sprintf("r%d", nr), Seq: q}, c21Step{Do: "apprecv", N: 1, Ref: srng.IntN(refs)})
						nr++
						na++
					default:
						st = append(st, c21Step{Do: []string{"reopen", "closeopen"}[srng.IntN(2)]})
					}
				}
				st = append(st, c21Step{Do: "unstall"})
			}
			switch x := rng.IntN(14); {
			case x < 3:
				st = append(st, c21Step{Do: "send", ID: fmt.Sprintf("s%d", ns), Ref: rng.IntN(refs)})
				ns++
			case x == 12:
				st = append(st, c21Step{Do: "apprecvc", Ref: rng.IntN(refs)})
				na++
			case x == 13 && na > 0:
				st = append(st, c21Step{Do: "cancelrecv", N: rng.IntN(na)})
			case x < 5 && ns > 0:
				st = append(st, c21Step{Do: "ack", ID: fmt.Sprintf("s%d", rng.IntN(ns)), Delta: []int64{0, 0, 0, -1, 1, 2}[rng.IntN(6)]})
			case x == 5 && ns > 0:
				st = append(st, c21Step{Do: "cancel", ID: fmt.Sprintf("s%d", rng.IntN(ns))})
			case x == 6:
				q++
				st = append(st, c21Step{Do: "recvmsg", ID: fmt.Sprintf("r%d", nr), Seq: q})
				nr++
			case x == 7:
				st = append(st, c21Step{Do: "apprecv", N: 1 + rng.IntN(2), Ref: rng.IntN(refs)})
				na++
			case x == 8:
				st = append(st, c21Step{Do: "clear", Seq: q + uint64(rng.IntN(3))})
			case x == 9:
				st = append(st, c21Step{Do: []string{"reopen", "closeopen"}[rng.IntN(2)]})
			case x == 10:
				st = append(st, c21Step{Do: "ackabs", Seq: uint64(rng.IntN(ns + 3))})
			default:
				st = append(st, c21Step{Do: "send", ID: fmt.Sprintf("s%d", ns), Ref: rng.IntN(refs)})
				ns++
			}
		}
		out = append(out, c21Script{Name: fmt.Sprintf("PRNG %d refs=%d", i, refs), Steps: st, Refs: refs})
	}
	return out
}

func runC21Scripted(r *vf.Run, idx int, sc c21Script, pool []*keys.Identity, b *g8sig.Batch) {
	var names []string
	for _, s := range sc.Steps {
		names = append(names, s.String())
	}
	sig := "scripted " + sc.Name + ": " + strings.Join(names, " ")
	r.Begin(fmt.Sprintf("C21 script %d: %s", idx, sig))
	x, p := pool[idx%len(pool)], pool[(idx+4)%len(pool)]
	ctx, cancel := context.WithCancel(context.Background())
	relay := &g8sig.Relay{}
	cl, err := g8sig.NewClient(ctx, x, relay)
	if err != nil {
		cancel()
		r.Inconclusive("NewClient: " + err.Error())
		return
	}
	nrefs := sc.Refs
	if nrefs < 1 {
		nrefs = 1
	}
	refs := make([]*signaling_client.ClientPeerRef, nrefs)
	for k := range refs {
		refs[k] = cl.AddPeerRef(p.String()) // same remote peer: one shared session
	}
	var clock atomic.Int64
	app := g8sig.NewApp("X", &clock)
	defer func() {
		cancel()
		app.Wait()
		for _, rf := range refs {
			rf.Release()
		}
	}()

	epoch := uint64(0)
	nStreams := 0
	sends := map[string]*g8sig.SendOp{}
	cancelled := map[string]bool{}
	validAcks := map[uint64]int{}    // acks pushed for a seq whose SendMsg the relay had seen
	earlyAcks := map[uint64]int{}    // acks pushed by number for a seq the client had NOT yet named to the relay
	ackedFor := map[string]int{}     // payload id -> acks the script pushed ON BEHALF OF that message (the partner "received" it)
	delivered := map[uint64]string{} // q -> payload delivered with RecvMsg
	wrongDelivered := 0              // wrong acks / clears delivered while something was outstanding
	okSends := 0
	blockedEvents := 0 // cancels / acks / sends ... that happened while the client's writer was parked in a write

	seqOf := func(id string) (uint64, bool) {
		for _, rq := range relay.Reqs() {
			if rq.Kind == "send" && rq.Data == id {
				return rq.Seq, true
			}
		}
		return 0, false
	}
	outstanding := func() bool {
		for _, op := range sends {
			if !app.Snapshot(op).Done {
				return true
			}
		}
		return false
	}
	witness := func(step int) map[string]any {
		return map[string]any{"script": sc.Name, "steps": names, "at_step": step, "client_requests": fmt.Sprint(relay.Reqs()),
			"sends": app.Sends(), "recvs": app.Recvs(), "valid_acks_pushed": fmt.Sprint(validAcks), "delivered": fmt.Sprint(delivered)}
	}
	// generic oracle, evaluated at quiescent points
	oracle := func(step int) bool {
		reqs := relay.Reqs()
		okSends = 0
		for id, op := range sends {
			so := app.Snapshot(op)
			if !so.Done || !so.OK {
				continue
			}
			okSends++
			if validAcks[so.Seqno] == 0 && earlyAcks[so.Seqno] > 0 {
				// The scripted relay pushed AckMsg(n) BEFORE the client transmitted message n
				// (e.g. the writer was still parked in the re-transmission of n-1 after a
				// re-open) and the client later gave seqno n to this message: the ack names
				// exactly this message, so "acks only affect the message they name" is not
				// contradicted, and a relay acknowledging something it has not seen is outside
				// the behaviours C21 judges (acks are not authenticated). Counted, not judged.
				r.Count("scripted_send_completed_by_ack_pushed_before_transmission", 1)
				continue
			}
			if validAcks[so.Seqno] == 0 {
				r.Violation("scripted/send-ok-without-matching-ack",
					fmt.Sprintf("Send(%s) (message seqno %d) returned ok although the relay never pushed AckMsg(%d) after seeing that message: an ack naming another seqno completed it [script %s]", id, so.Seqno, so.Seqno, sc.Name), witness(step))
				return false
			}
			if ackedFor[id] == 0 {
				r.Violation("scripted/send-ok-by-ack-of-another-message",
					fmt.Sprintf("Send(%s) (message seqno %d, ref %d) returned ok although every ack the relay pushed was the acknowledgement of ANOTHER message (the partner never received %s): two messages of the session were named by one seqno", id, so.Seqno, so.Ref, id), witness(step))
				return false
			}
		}
		recvRet := map[uint64]int{}
		for _, ro := range app.Recvs() {
			if ro.Done && ro.Err == "" {
				recvRet[ro.Msg.GetSeqno()]++
				if want, ok := delivered[ro.Msg.GetSeqno()]; !ok || want != ro.ID {
					r.Violation("scripted/recv-returned-undelivered", fmt.Sprintf("Recv returned %q (#%d) which the relay never delivered", ro.ID, ro.Msg.GetSeqno()), witness(step))
					return false
				}
			}
		}
		acks := map[uint64]int{}
		for _, rq := range reqs {
			switch rq.Kind {
			case "ack":
				acks[rq.Seq]++
				if _, ok := delivered[rq.Seq]; !ok {
					r.Violation("scripted/client-acked-unknown-seqno", fmt.Sprintf("client emitted AckMsg(%d) but no message with that seqno was delivered", rq.Seq), witness(step))
					return false
				}
				if acks[rq.Seq] > recvRet[rq.Seq] {
					r.Violation("scripted/client-acked-before-application-recv",
						fmt.Sprintf("client emitted AckMsg(%d) %d time(s) but the application's Recv returned that message only %d time(s) (quiescent point)", rq.Seq, acks[rq.Seq], recvRet[rq.Seq]), witness(step))
					return false
				}
			case "clear":
				named := ""
				for id := range sends {
					if s, ok := seqOf(id); ok && s == rq.Seq {
						named = id
					}
				}
				if named == "" || !cancelled[named] {
					r.Violation("scripted/client-cleared-other-message", fmt.Sprintf("client emitted ClearMsg(%d) which does not name a message whose Send was cancelled (names %q)", rq.Seq, named), witness(step))
					return false
				}
			case "send":
				if _, ok := sends[rq.Data]; !ok {
					r.Violation("scripted/client-sent-unknown-payload", fmt.Sprintf("client emitted SendMsg with payload %q nobody submitted", rq.Data), witness(step))
					return false
				}
			}
		}
		return true
	}

	for step := -1; step <= len(sc.Steps); step++ {
		q := b.Quiesce(relay.LiveOK)
		if !q.OK {
			inconclusive(r, fmt.Sprintf("C21 script %d step %d", idx, step), q)
			r.Case(sig, false)
			return
		}
		if !oracle(step) {
			r.Case(sig, true)
			return
		}
		if step < 0 || step == len(sc.Steps) {
			continue
		}
		s := relay.Cur()
		if relay.NStreams() != nStreams {
			if nStreams > 0 {
				// the client tore its stream down (not expected with an honest script): new epoch
				r.Count("scripted_client_stream_restarts", 1)
				epoch += 2
				s.Push(g8sig.Opened(epoch))
			}
			nStreams = relay.NStreams()
		}
		st := sc.Steps[step]
		if s.WritersParked() > 0 {
			switch st.Do {
			case "cancel", "ack", "ackabs", "send", "clear", "recvmsg", "reopen", "closeopen":
				blockedEvents++
				r.Count("scripted_steps_while_writer_blocked:"+st.Do, 1)
			}
		}
		switch st.Do {
		case "opened", "reopen":
			epoch++
			s.Push(g8sig.Opened(epoch))
		case "closeopen":
			s.Push(g8sig.Closed())
			epoch += 2
			s.Push(g8sig.Opened(epoch))
		case "send":
			if _, dup := sends[st.ID]; !dup {
				sends[st.ID] = app.SendRef(ctx, refs[st.Ref%nrefs], st.Ref%nrefs, "P", st.ID)
				if st.Ref%nrefs > 0 {
					r.Count("scripted_sends_via_second_or_third_ref", 1)
				}
			}
		case "cancel":
			if op, ok := sends[st.ID]; ok {
				cancelled[st.ID] = true
				op.Cancel()
			}
		case "ack", "ackabs":
			seq := st.Seq
			if st.Do == "ack" {
				sq, ok := seqOf(st.ID)
				if !ok {
					continue // message not transmitted (yet): nothing to ack
				}
				seq = uint64(int64(sq) + st.Delta)
			}
			// messages the client named by this number: transmitted ones, and the one whose
			// write is blocked on the way to the relay (the client regards it as transmitted;
			// a relay acknowledging it by number is outside the behaviours C21 judges)
			named := append(relay.Reqs(), s.ParkedBefore()...)
			seen := false
			for _, rq := range named {
				if rq.Kind == "send" && rq.Seq == seq {
					seen = true
				}
			}
			if !seen && !outstanding() {
				earlyAcks[seq]++
			}
			if seen {
				validAcks[seq]++
				if st.Do == "ack" && st.Delta == 0 {
					// the script acknowledges THIS message on behalf of the partner
					ackedFor[st.ID]++
				} else {
					// an ack chosen by number: it stands for every message the client named so
					for _, rq := range named {
						if rq.Kind == "send" && rq.Seq == seq {
							ackedFor[rq.Data]++
						}
					}
				}
			} else if outstanding() {
				earlyAcks[seq]++
				wrongDelivered++
				r.Count("scripted_wrong_acks_delivered_while_outstanding", 1)
			}
			s.Push(g8sig.AckMsg(seq))
		case "recvmsg":
			if _, dup := delivered[st.Seq]; dup {
				continue
			}
			delivered[st.Seq] = st.ID
			s.Push(g8sig.RecvMsg(g8sig.Honest(p, st.ID, st.Seq)))
		case "clear":
			if _, named := delivered[st.Seq]; !named {
				wrongDelivered++
				r.Count("scripted_wrong_clears_delivered", 1)
			}
			s.Push(g8sig.ClearMsg(st.Seq))
		case "apprecv":
			app.RecvLoopRef(ctx, refs[st.Ref%nrefs], st.Ref%nrefs, "P", st.N)
		case "apprecvc":
			app.RecvOnce(ctx, refs[st.Ref%nrefs], st.Ref%nrefs, "P", true)
			r.Count("scripted_recv_with_cancelled_ctx", 1)
		case "cancelrecv":
			if app.CancelRecv(st.N) {
				r.Count("scripted_recv_cancelled", 1)
			}
		case "stall":
			s.StallWrite(st.ID, st.After)
			r.Count("scripted_write_gates_armed", 1)
		case "unstall":
			if n := s.ReleaseWrites(); n > 0 {
				r.Count("scripted_blocked_writes_released", n)
			}
		case "expect-pending":
			if op, ok := sends[st.ID]; ok {
				if so := app.Snapshot(op); so.Done && so.OK {
					r.Violation("scripted/send-ok-before-its-ack", fmt.Sprintf("Send(%s) returned ok at a quiescent point at which the relay had not yet acknowledged that message", st.ID), witness(step))
					r.Case(sig, true)
					return
				}
				r.Count("scripted_expected_pending_ok", 1)
			}
		case "expect-recv":
			if got, _ := app.Received(st.ID); !got {
				r.Violation("scripted/delivered-message-lost", fmt.Sprintf("message %q was delivered, never cleared by name and no re-open intervened, the application's Recv is pending, the system is quiescent - but Recv did not return it (a clear / ack naming another message affected it)", st.ID), witness(step))
				r.Case(sig, true)
				return
			}
			r.Count("scripted_expected_recv_ok", 1)
		}
	}
	// open every write gate that is still armed and judge the final quiescent state
	if cur := relay.Cur(); cur != nil {
		cur.ReleaseWrites()
	}
	if q := b.Quiesce(relay.LiveOK); !q.OK {
		inconclusive(r, fmt.Sprintf("C21 script %d end", idx), q)
		r.Case(sig, false)
		return
	}
	if !oracle(len(sc.Steps) + 1) {
		r.Case(sig, true)
		return
	}
	preOnPending := 0 // dead-context Recv calls that found a message (the interesting half of that class)
	for _, ro := range app.Recvs() {
		if ro.Pre && ro.Done {
			if ro.Err == "" {
				preOnPending++
				r.Count("scripted_recv_with_cancelled_ctx_returned_message", 1)
			} else {
				r.Count("scripted_recv_with_cancelled_ctx_returned_error", 1)
			}
		}
	}
	r.Case(sig, okSends > 0 || wrongDelivered > 0 || preOnPending > 0)
	if blockedEvents > 0 {
		r.Count("scripted_cases_with_events_during_a_blocked_write", 1)
	}
	r.Count("scripted_cases", 1)
	r.Count("scripted_sends_ok", okSends)
	r.Distinct("scripted_request_traces", fmt.Sprint(relay.Reqs()))
	if strings.HasPrefix(sc.Name, "T") {
		r.Sample(map[string]any{"script": sig, "client_requests": fmt.Sprint(relay.Reqs())})
	}
}

// ---------------------------------------------------------------------------
// Part (i): Harness B

type c21Op struct {
	Op   string // send | cancel | recv | recvc | cancelrecv | kill | rule | release | wstall | wrelease | reinc | q
	A, B int    // peers (send: A->B; recv / recvc: A receives from B; kill: A's stream towards B; cancelrecv: A's N-th receive activity)
	N    int
	Ref  int // send / recv / recvc: which of A's ClientPeerRefs to B is used (taken modulo the program's Refs)
	Rule g8sig.HBRule
}

func (o c21Op) String() string {
	switch o.Op {
	case "send":
		return fmt.Sprintf("send(%d>%d r%d)", o.A, o.B, o.Ref)
	case "cancel":
		return fmt.Sprintf("cancel(%d)", o.N)
	case "recv":
		return fmt.Sprintf("recv(%d<%d r%d x%d)", o.A, o.B, o.Ref, o.N)
	case "recvc":
		return fmt.Sprintf("recv-ctx-cancelled(%d<%d r%d)", o.A, o.B, o.Ref)
	case "cancelrecv":
		return fmt.Sprintf("cancelrecv(%d #%d)", o.A, o.N)
	case "kill":
		return fmt.Sprintf("kill(%d>%d)", o.A, o.B)
	case "wstall":
		return fmt.Sprintf("stall-write(%d>%d %s %s)", o.A, o.B, o.Rule.Kind, map[int]string{0: "before-proxy", 1: "after-proxy"}[o.N])
	case "wrelease":
		return fmt.Sprintf("release-writes(%d)", o.A)
	case "reinc":
		return fmt.Sprintf("new-incarnation(%d)", o.A)
	case "rule":
		return fmt.Sprintf("rule(%s %s %s #%d %s)", o.Rule.Owner, o.Rule.Dir, o.Rule.Kind, o.Rule.Nth, o.Rule.Action)
	}
	return o.Op
}

type c21Prog struct {
	Peers int
	Refs  int // ClientPeerRefs every client holds per remote peer (AddPeerRef called Refs times: one shared session)
	Ops   []c21Op
}

var peerNames = []string{"A", "B", "C"}

func genC21Programs(r *vf.Run) []c21Prog {
	rng := r.Rand("c21-harnessB")
	n := r.N(260, 8000)
	var out []c21Prog
	q := c21Op{Op: "q"}
	for i := 0; i < n; i++ {
		peers := 2 + rng.IntN(2)
		refs := []int{1, 2, 2, 3}[rng.IntN(4)]
		var ops []c21Op
		if i%2 == 0 {
			// directed prefixes; the k-th send of a prefix goes through ref k (mod refs)
			a := rng.IntN(peers)
			bb := (a + 1 + rng.IntN(peers-1)) % peers
			snd := func(k int) c21Op { return c21Op{Op: "send", A: a, B: bb, Ref: k} }
			rcv := func(n int) c21Op { return c21Op{Op: "recv", A: bb, B: a, N: n, Ref: rng.IntN(refs)} }
			switch rng.IntN(9) {
			case 0: // late duplicate ack while the next message waits for a late receiver
				ops = append(ops, c21Op{Op: "rule", Rule: g8sig.HBRule{Owner: peerNames[a], Dir: "s2c", Kind: "ack", Nth: 0, Action: "dup-late"}},
					rcv(1), snd(0), q, snd(1), q, c21Op{Op: "release"}, q)
			case 1: // cancel then next send, receiver late
				ops = append(ops, snd(0), q, c21Op{Op: "cancel", N: 0}, snd(1), q, rcv(1), q)
			case 2: // kill the receiver's stream between receive and ack
				ops = append(ops, c21Op{Op: "rule", Rule: g8sig.HBRule{Owner: peerNames[bb], Dir: "c2s", Kind: "ack", Nth: 0, Action: "stall"}},
					rcv(2), snd(0), q, c21Op{Op: "kill", A: bb, B: a}, q, c21Op{Op: "release"}, q)
			case 3: // late receiver only
				ops = append(ops, snd(0), c21Op{Op: "send", A: bb, B: a}, q, rcv(1), q)
			case 4: // received and acked, but the ack is slow; the caller gives up; the next message (other ref) goes out before the old ack arrives
				ops = append(ops, c21Op{Op: "rule", Rule: g8sig.HBRule{Owner: peerNames[a], Dir: "s2c", Kind: "ack", Nth: 0, Action: "stall"}},
					rcv(1), snd(0), q, c21Op{Op: "cancel", N: 0}, q, snd(1), q, c21Op{Op: "release"}, q)
			case 5: // k warm-up exchanges through each ref, then case 0 / 4 (equal per-ref histories)
				for k := 0; k < refs; k++ {
					ops = append(ops, rcv(1), snd(k), q)
				}
				ops = append(ops, c21Op{Op: "rule", Rule: g8sig.HBRule{Owner: peerNames[a], Dir: "s2c", Kind: "ack", Nth: 0, Action: []string{"dup-late", "stall"}[rng.IntN(2)]}},
					rcv(1), snd(0), q, c21Op{Op: "cancel", N: refs}, q, snd(1), q, c21Op{Op: "release"}, q)
			case 6: // message pending in the receiver's client, then a Recv whose context is already cancelled
				ops = append(ops, snd(0), q, c21Op{Op: "recvc", A: bb, B: a, Ref: rng.IntN(refs)}, q)
				if rng.IntN(2) == 0 {
					ops = append(ops, rcv(1), q)
				}
			case 7: // Recv parked, its context is cancelled while the message arrives
				ops = append(ops, c21Op{Op: "rule", Rule: g8sig.HBRule{Owner: peerNames[bb], Dir: "s2c", Kind: "recv", Nth: 0, Action: "stall"}},
					rcv(1), snd(0), q)
				if rng.IntN(2) == 0 {
					ops = append(ops, c21Op{Op: "release"}, c21Op{Op: "cancelrecv", A: bb, N: 0}, q)
				} else {
					ops = append(ops, c21Op{Op: "cancelrecv", A: bb, N: 0}, c21Op{Op: "release"}, q)
				}
				if rng.IntN(2) == 0 {
					ops = append(ops, rcv(1), q)
				}
			case 8: // cancelled Recv calls interleaved with normal ones
				ops = append(ops, c21Op{Op: "recvc", A: bb, B: a, Ref: rng.IntN(refs)}, snd(0), q,
					c21Op{Op: "recvc", A: bb, B: a, Ref: rng.IntN(refs)}, q, snd(1), c21Op{Op: "recvc", A: bb, B: a, Ref: rng.IntN(refs)}, rcv(1), q)
			}
		}
		nsend := 0
		for _, o := range ops {
			if o.Op == "send" {
				nsend++
			}
		}
		for j, m := 0, 4+rng.IntN(8); j < m; j++ {
			a := rng.IntN(peers)
			bb := (a + 1 + rng.IntN(peers-1)) % peers
			switch x := rng.IntN(16); {
			case x < 4 && nsend < 8:
				ops = append(ops, c21Op{Op: "send", A: a, B: bb, Ref: rng.IntN(refs)})
				nsend++
			case x < 7:
				ops = append(ops, c21Op{Op: "recv", A: a, B: bb, N: 1 + rng.IntN(2), Ref: rng.IntN(refs)})
			case x == 7 && nsend > 0:
				ops = append(ops, c21Op{Op: "cancel", N: rng.IntN(nsend)})
			case x == 8:
				ops = append(ops, c21Op{Op: "kill", A: a, B: bb})
			case x == 9:
				dir := []string{"c2s", "s2c"}[rng.IntN(2)]
				kind := []string{"ack", "ack", "send", "clear"}[rng.IntN(4)]
				if dir == "s2c" {
					kind = []string{"ack", "ack", "recv", "clear", "opened"}[rng.IntN(5)]
				}
				ops = append(ops, c21Op{Op: "rule", Rule: g8sig.HBRule{Owner: peerNames[a], Dir: dir, Kind: kind, Nth: rng.IntN(2),
					Action: []string{"drop", "dup", "dup-late", "stall"}[rng.IntN(4)]}})
			case x == 10:
				ops = append(ops, c21Op{Op: "release"})
			case x == 14:
				ops = append(ops, c21Op{Op: "recvc", A: a, B: bb, Ref: rng.IntN(refs)})
			case x == 15:
				ops = append(ops, c21Op{Op: "cancelrecv", A: a, N: rng.IntN(3)})
			default:
				ops = append(ops, q)
			}
		}
		ops = append(ops, q, c21Op{Op: "release"}, q)
		out = append(out, c21Prog{Peers: peers, Refs: refs, Ops: ops})
	}
	// Second family (own PRNG stream): blocked client writers and NEW INCARNATIONS of a peer
	// (same identity, fresh client object whose message seqnos restart at 1, while the
	// server still holds the previous incarnation's call).
	xr := r.Rand("c21-harnessB-incarnations-and-blocked-writes")
	for i, n := 0, r.N(90, 3000); i < n; i++ {
		peers := 2 + xr.IntN(2)
		refs := []int{1, 1, 2, 3}[xr.IntN(4)]
		a := xr.IntN(peers)
		bb := (a + 1 + xr.IntN(peers-1)) % peers
		snd := func(k int) c21Op { return c21Op{Op: "send", A: a, B: bb, Ref: k} }
		rcv := func(n int) c21Op { return c21Op{Op: "recv", A: bb, B: a, N: n, Ref: xr.IntN(refs)} }
		stallRecv := c21Op{Op: "rule", Rule: g8sig.HBRule{Owner: peerNames[bb], Dir: "s2c", Kind: "recv", Nth: 0, Action: "stall"}}
		var ops []c21Op
		nsend := 0
		switch i % 6 {
		case 0, 1: // the receiver holds an unprocessed message of the OLD incarnation; the new one's first message is slow; late Recv
			for w, nw := 0, (i/6)%2; w < nw; w++ { // optional completed exchange first (then the seqnos of old and new differ)
				ops = append(ops, rcv(1), snd(nsend), q)
				nsend++
			}
			ops = append(ops, snd(nsend), q)
			nsend++
			if xr.IntN(4) != 0 {
				ops = append(ops, stallRecv)
			}
			ops = append(ops, c21Op{Op: "reinc", A: a}, snd(nsend), q, rcv(1), q, c21Op{Op: "release"}, q, rcv(1), q)
			nsend++
		case 2: // both directions pending, the RECEIVER of the first message re-incarnates too
			ops = append(ops, snd(0), c21Op{Op: "send", A: bb, B: a}, q, stallRecv, c21Op{Op: "reinc", A: a}, q)
			nsend = 2
			if xr.IntN(2) == 0 {
				ops = append(ops, c21Op{Op: "reinc", A: bb}, q)
			}
			ops = append(ops, snd(2), q, rcv(1), c21Op{Op: "recv", A: a, B: bb, N: 1}, q, c21Op{Op: "release"}, q, rcv(1), q)
			nsend++
		case 3: // the old incarnation's message was received but its ack is slow; new incarnation sends under the same number
			ops = append(ops, c21Op{Op: "rule", Rule: g8sig.HBRule{Owner: peerNames[bb], Dir: "c2s", Kind: "ack", Nth: 0, Action: "stall"}},
				rcv(1), snd(0), q, c21Op{Op: "reinc", A: a}, snd(1), q, c21Op{Op: "release"}, q, rcv(1), q)
			nsend = 2
		case 4: // blocked writer: Send(m1) transmitted, the caller gives up, the partner's ack arrives, only then the write returns; next Send with a late receiver
			after := xr.IntN(3) != 0
			ops = append(ops, c21Op{Op: "rule", Rule: g8sig.HBRule{Owner: peerNames[a], Dir: "s2c", Kind: "ack", Nth: 0, Action: "stall"}},
				rcv(1), c21Op{Op: "wstall", A: a, B: bb, N: map[bool]int{false: 0, true: 1}[after], Rule: g8sig.HBRule{Kind: "send"}}, snd(0), q)
			if after {
				ops = append(ops, c21Op{Op: "cancel", N: 0}, q, c21Op{Op: "release"}, q, c21Op{Op: "wrelease", A: a}, q)
			} else {
				// the proxy has not got m1 yet: give up, let the write through, the ack comes back to a cancelled slot
				ops = append(ops, c21Op{Op: "cancel", N: 0}, q, c21Op{Op: "wrelease", A: a}, q, c21Op{Op: "release"}, q)
			}
			ops = append(ops, snd(1), q, rcv(1), q)
			nsend = 2
		case 5: // blocked writer on the RECEIVER's ack / any write, sender cancels and re-sends meanwhile
			ops = append(ops, c21Op{Op: "wstall", A: bb, B: a, N: xr.IntN(2), Rule: g8sig.HBRule{Kind: []string{"ack", "any"}[xr.IntN(2)]}},
				rcv(1), snd(0), q, c21Op{Op: "cancel", N: 0}, snd(1), q, c21Op{Op: "wrelease", A: bb}, q, rcv(1), q)
			nsend = 2
		}
		for j, m := 0, xr.IntN(5); j < m; j++ {
			a := xr.IntN(peers)
			bb := (a + 1 + xr.IntN(peers-1)) % peers
			switch x := xr.IntN(10); {
			case x < 3 && nsend < 8:
				ops = append(ops, c21Op{Op: "send", A: a, B: bb, Ref: xr.IntN(refs)})
				nsend++
			case x < 6:
				ops = append(ops, c21Op{Op: "recv", A: a, B: bb, N: 1, Ref: xr.IntN(refs)})
			case x == 6:
				ops = append(ops, c21Op{Op: "reinc", A: a}, q)
			case x == 7:
				ops = append(ops, c21Op{Op: "wstall", A: a, B: bb, N: xr.IntN(2), Rule: g8sig.HBRule{Kind: []string{"send", "ack", "clear", "any"}[xr.IntN(4)]}})
			case x == 8 && nsend > 0:
				ops = append(ops, c21Op{Op: "cancel", N: xr.IntN(nsend)})
			default:
				ops = append(ops, q)
			}
		}
		ops = append(ops, q, c21Op{Op: "wrelease", A: -1}, c21Op{Op: "release"}, q)
		out = append(out, c21Prog{Peers: peers, Refs: refs, Ops: ops})
	}
	return out
}

func runC21B(r *vf.Run, idx int, pg c21Prog, pool []*keys.Identity, b *g8sig.Batch) {
	var names []string
	for _, o := range pg.Ops {
		names = append(names, o.String())
	}
	sig := fmt.Sprintf("harnessB peers=%d refs=%d: %s", pg.Peers, pg.Refs, strings.Join(names, " "))
	r.Begin(fmt.Sprintf("C21 harness-B program %d: %s", idx, sig))
	ctx, cancel := context.WithCancel(context.Background())
	hb := g8sig.NewHB()
	var clock atomic.Int64
	ids := make([]*keys.Identity, pg.Peers)
	apps := make([]*g8sig.App, pg.Peers)
	clients := make([]*signaling_client.Client, pg.Peers)
	stops := make([]context.CancelFunc, pg.Peers)        // ends the current incarnation's client
	refs := map[[3]int]*signaling_client.ClientPeerRef{} // (owner, remote, k): the k-th reference owner's CURRENT incarnation holds to remote
	var allRefs []*signaling_client.ClientPeerRef
	nameOf := map[string]string{}
	// incarnate builds a fresh client object for peer i (same identity) with its references
	incarnate := func(i int) bool {
		cctx, stop := context.WithCancel(ctx)
		c, err := g8sig.NewClient(cctx, ids[i], hb.ClientFor(ids[i], peerNames[i]))
		if err != nil {
			stop()
			return false
		}
		clients[i], stops[i] = c, stop
		for j := 0; j < pg.Peers; j++ {
			if i != j {
				for k := 0; k < pg.Refs; k++ {
					rf := c.AddPeerRef(ids[j].String())
					refs[[3]int{i, j, k}] = rf
					allRefs = append(allRefs, rf)
				}
				hb.Expect(peerNames[i], ids[j].String(), true)
			}
		}
		return true
	}
	for i := 0; i < pg.Peers; i++ {
		ids[i] = pool[(idx+i)%len(pool)]
		nameOf[ids[i].String()] = peerNames[i]
		apps[i] = g8sig.NewApp(peerNames[i], &clock)
	}
	for i := 0; i < pg.Peers; i++ {
		if !incarnate(i) {
			cancel()
			r.Inconclusive("NewClient failed")
			return
		}
	}
	defer func() {
		cancel()
		hb.ReleaseWrites("")
		hb.Shutdown()
		for _, a := range apps {
			a.Wait()
		}
		for _, rf := range allRefs {
			rf.Release()
		}
	}()
	type sendRec struct {
		from, to int
		id       string
		op       *g8sig.SendOp
	}
	var sends []*sendRec
	sentTo := map[string][2]int{}
	incarnations := 0
	quiesce := func(where string) bool {
		q := b.Quiesce(hb.LiveOK)
		if !q.OK {
			inconclusive(r, fmt.Sprintf("C21 harness-B program %d %s", idx, where), q)
			return false
		}
		return true
	}
	if !quiesce("start") {
		r.Case(sig, false)
		return
	}
	for oi, o := range pg.Ops {
		switch o.Op {
		case "send":
			id := fmt.Sprintf("c21-%d-%s>%s-%d", idx, peerNames[o.A], peerNames[o.B], len(sends))
			sentTo[id] = [2]int{o.A, o.B}
			k := o.Ref % pg.Refs
			sends = append(sends, &sendRec{o.A, o.B, id, apps[o.A].SendRef(ctx, refs[[3]int{o.A, o.B, k}], k, peerNames[o.B], id)})
			r.Count("harnessB_op_send", 1)
			if k > 0 {
				r.Count("harnessB_op_send_via_second_or_third_ref", 1)
			}
		case "cancel":
			if o.N < len(sends) {
				sends[o.N].op.Cancel()
				r.Count("harnessB_op_cancel", 1)
			}
		case "recv":
			k := o.Ref % pg.Refs
			apps[o.A].RecvLoopRef(ctx, refs[[3]int{o.A, o.B, k}], k, peerNames[o.B], o.N)
			r.Count("harnessB_op_recv_calls", o.N)
		case "recvc":
			k := o.Ref % pg.Refs
			apps[o.A].RecvOnce(ctx, refs[[3]int{o.A, o.B, k}], k, peerNames[o.B], true)
			r.Count("harnessB_op_recv_with_cancelled_ctx", 1)
		case "cancelrecv":
			if apps[o.A].CancelRecv(o.N) {
				r.Count("harnessB_op_cancel_recv", 1)
			}
		case "kill":
			if cn := hb.Latest(peerNames[o.A], ids[o.B].String()); cn != nil {
				hb.Kill(cn)
				r.Count("harnessB_op_kill", 1)
			}
		case "rule":
			hb.AddRule(o.Rule)
			r.Count("harnessB_op_rule_"+o.Rule.Action, 1)
		case "release":
			r.Count("harnessB_released_held_messages", hb.ReleaseHeld())
		case "wstall":
			if cn := hb.Latest(peerNames[o.A], ids[o.B].String()); cn != nil {
				cn.C.StallWrite(o.Rule.Kind, o.N == 1)
				r.Count("harnessB_op_write_gate_armed", 1)
			}
		case "wrelease":
			owner := ""
			if o.A >= 0 {
				owner = peerNames[o.A]
			}
			if n := hb.ReleaseWrites(owner); n > 0 {
				r.Count("harnessB_blocked_writes_released", n)
			}
		case "reinc":
			// the process of peer A is replaced: its connections linger at the server
			// (nobody told it), the old client object stops, a fresh client object for
			// the same identity opens its sessions and usurps the registered calls
			hb.ReleaseWrites(peerNames[o.A])
			r.Count("harnessB_calls_left_registered_by_previous_incarnation", hb.Orphan(peerNames[o.A]))
			stops[o.A]()
			if !incarnate(o.A) {
				r.Inconclusive("NewClient failed")
				r.Case(sig, false)
				return
			}
			incarnations++
			r.Count("harnessB_op_new_incarnation", 1)
		case "q":
			if !quiesce(fmt.Sprintf("op %d", oi)) {
				r.Case(sig, false)
				return
			}
		}
	}
	if !quiesce("end") {
		r.Case(sig, false)
		return
	}
	ncross, order := hb.Crossings()
	witness := func() map[string]any {
		w := map[string]any{"program": names, "crossing_order": order}
		for i, a := range apps {
			w["sends_"+peerNames[i]] = a.Sends()
			w["recvs_"+peerNames[i]] = a.Recvs()
		}
		return w
	}
	okCount := 0
	for _, s := range sends {
		so := apps[s.from].Snapshot(s.op)
		if !so.Done || !so.OK {
			if !so.Done {
				r.Count("harnessB_sends_pending_at_end", 1)
			} else {
				r.Count("harnessB_sends_failed_or_cancelled", 1)
			}
			continue
		}
		okCount++
		got, call := apps[s.to].Received(s.id)
		if !got {
			r.Violation("harnessB/send-ok-but-never-received",
				fmt.Sprintf("%s's Send(%s) returned ok (clock %d) but no Recv of %s's application ever returned that message", peerNames[s.from], s.id, so.Ret, peerNames[s.to]), witness())
			r.Case(sig, true)
			return
		}
		if call >= so.Ret {
			r.Violation("harnessB/send-ok-before-recv-called",
				fmt.Sprintf("%s's Send(%s) returned ok at clock %d but the earliest Recv operation of %s that returned it was only called at clock %d", peerNames[s.from], s.id, so.Ret, peerNames[s.to], call), witness())
			r.Case(sig, true)
			return
		}
	}
	for i, a := range apps {
		for _, ro := range a.Recvs() {
			if !ro.Done || ro.Err != "" {
				continue
			}
			ft, ok := sentTo[ro.ID]
			if !ok || ft[1] != i || peerNames[ft[0]] != ro.From {
				r.Violation("harnessB/recv-returned-foreign-message", fmt.Sprintf("%s's Recv on the session with %s returned %q which was not sent on that session", peerNames[i], ro.From, ro.ID), witness())
				r.Case(sig, true)
				return
			}
			r.Count("harnessB_recv_returns", 1)
		}
	}
	// a Recv that returned an error has NOT handed a message to the application:
	// at this quiescent point every AckMsg a client emitted towards a partner must
	// be covered by a SUCCESSFUL Recv return of a message with that seqno from that
	// partner (the client acks only what its application was given)
	okRecv := map[string]int{}
	for _, a := range apps {
		for _, ro := range a.Recvs() {
			switch {
			case ro.Done && ro.Err == "":
				okRecv[fmt.Sprintf("%s<%s#%d", ro.Peer, ro.From, ro.Msg.GetSeqno())]++
			case ro.Done:
				r.Count("harnessB_recv_returned_error", 1)
				if ro.Pre {
					r.Count("harnessB_recv_with_cancelled_ctx_returned_error", 1)
				}
			}
			if ro.Done && ro.Err == "" && ro.Pre {
				r.Count("harnessB_recv_with_cancelled_ctx_returned_message", 1)
			}
		}
	}
	emitted := map[string]int{}
	for _, ak := range hb.ClientAcks() {
		k := fmt.Sprintf("%s<%s#%d", ak.Owner, nameOf[ak.Target], ak.Seq)
		emitted[k]++
		r.Count("harnessB_client_acks_checked", 1)
		if emitted[k] > okRecv[k] {
			r.Violation("harnessB/acked-without-successful-recv",
				fmt.Sprintf("%s's client emitted AckMsg(#%d) towards %s %d time(s), but only %d Recv call(s) of its application returned a message with that seqno from that peer (a Recv that returns an error has handed nothing over)", ak.Owner, ak.Seq, nameOf[ak.Target], emitted[k], okRecv[k]), witness())
			r.Case(sig, true)
			return
		}
	}
	r.Case(sig, okCount > 0)
	r.Count("harnessB_cases", 1)
	if pg.Refs > 1 {
		r.Count("harnessB_cases_with_several_refs_per_peer", 1)
	}
	if incarnations > 0 {
		r.Count("harnessB_cases_with_a_second_incarnation_of_a_peer", 1)
	}
	r.Count("harnessB_sends_ok", okCount)
	r.Count("harnessB_crossings", ncross)
	r.Distinct("harnessB_crossing_orders", strings.Join(order, ";"))
	if idx < 3 {
		r.Sample(map[string]any{"program": sig, "sends_ok": okCount, "crossings": ncross})
	}
}

// ---------------------------------------------------------------------------
// Part (iii): server mailbox trace validation. Two harness-driven raw Session
// calls (P and Q, authenticated, honest signatures, possibly MISBEHAVING in
// what they ack / clear) against the real server; every AckMsg / ClearMsg /
// RecvMsg the server emits must be explained by a reference mailbox.

type c21TStep struct {
	Do    string // send | ack | clear | reattach
	By    int    // 0 = P, 1 = Q
	Seq   int64  // ack/clear: >0 absolute seqno; <=0: offset from the seqno currently "sent" in the relevant mailbox (0 = the right one)
	Stale bool   // use session_seqno-1
}

func (s c21TStep) String() string {
	who := []string{"P", "Q"}[s.By]
	st := ""
	if s.Stale {
		st = ",stale"
	}
	switch s.Do {
	case "send", "reattach":
		return fmt.Sprintf("%s.%s%s", who, s.Do, strings.TrimPrefix(st, ","))
	}
	return fmt.Sprintf("%s.%s(%d%s)", who, s.Do, s.Seq, st)
}

func genC21Traces(r *vf.Run) [][]c21TStep {
	var out [][]c21TStep
	S := func(do string, by int, seq int64) c21TStep { return c21TStep{Do: do, By: by, Seq: seq} }
	// directed
	out = append(out,
		[]c21TStep{S("send", 0, 0), S("ack", 1, -1), S("ack", 1, 1<<30), S("ack", 0, 0), S("ack", 1, 0), S("ack", 1, 0)},                       // wrong acks, ack from the sender itself, right ack, duplicate ack
		[]c21TStep{S("send", 0, 0), S("ack", 1, 0), S("send", 0, 0), S("ack", 1, -1), S("ack", 1, 0)},                                          // ack of an already acked message while the next is outstanding
		[]c21TStep{S("send", 0, 0), S("clear", 0, 5), S("clear", 1, 0), S("clear", 0, 0), S("send", 1, 0), S("ack", 1, 0), S("ack", 0, 0)},     // wrong clear, clear by the receiver, right clear
		[]c21TStep{S("send", 0, 0), S("send", 1, 0), S("ack", 0, 0), S("ack", 1, 0), S("send", 0, 0), S("clear", 0, -1), S("ack", 1, 0)},       // both directions, overlapping seqno spaces
		[]c21TStep{S("send", 0, 0), S("send", 0, 0), S("ack", 1, -1), S("ack", 1, 0)},                                                          // overwritten message acked
		[]c21TStep{S("send", 0, 0), S("reattach", 1, 0), S("ack", 1, 1), S("send", 0, 0), S("ack", 1, 0)},                                      // ack of a message from before the re-open
		[]c21TStep{S("send", 0, 0), {Do: "ack", By: 1, Seq: 0, Stale: true}, S("ack", 1, 0), {Do: "send", By: 0, Stale: true}, S("ack", 1, 2)}, // stale session seqnos
	)
	rng := r.Rand("c21-trace")
	for i, n := 0, r.N(200, 6000); i < n; i++ {
		var st []c21TStep
		for j, m := 0, 6+rng.IntN(8); j < m; j++ {
			by := rng.IntN(2)
			switch x := rng.IntN(12); {
			case x < 4:
				st = append(st, c21TStep{Do: "send", By: by, Stale: rng.IntN(8) == 0})
			case x < 8:
				st = append(st, c21TStep{Do: "ack", By: by, Seq: []int64{0, 0, 0, -1, 1, 2, 1, 1 << 20}[rng.IntN(8)], Stale: rng.IntN(8) == 0})
			case x < 11:
				st = append(st, c21TStep{Do: "clear", By: by, Seq: []int64{0, 0, -1, 1, 3}[rng.IntN(5)], Stale: rng.IntN(8) == 0})
			default:
				st = append(st, c21TStep{Do: "reattach", By: by})
			}
		}
		out = append(out, st)
	}
	return out
}

func runC21Trace(r *vf.Run, idx int, steps []c21TStep, pool []*keys.Identity, b *g8sig.Batch) {
	var names []string
	for _, s := range steps {
		names = append(names, s.String())
	}
	sig := "server-trace: " + strings.Join(names, " ")
	r.Begin(fmt.Sprintf("C21 server trace %d: %s", idx, sig))
	ids := []*keys.Identity{pool[idx%len(pool)], pool[(idx+2)%len(pool)]}
	who := []string{"P", "Q"}
	hb := g8sig.NewHB()
	defer hb.Shutdown()
	quiesce := func(where string) bool {
		q := b.Quiesce(hb.LiveOK)
		if !q.OK {
			inconclusive(r, fmt.Sprintf("C21 server trace %d %s", idx, where), q)
			return false
		}
		return true
	}
	conns := make([]*g8sig.HBConn, 2)
	consumed := []int{0, 0}
	conns[0] = hb.RawSession(ids[0], "P", ids[1].String())
	if !quiesce("attach P") {
		r.Case(sig, false)
		return
	}
	conns[1] = hb.RawSession(ids[1], "Q", ids[0].String())
	if !quiesce("attach Q") {
		r.Case(sig, false)
		return
	}
	epochFromTaps := func() (uint64, bool) {
		var best uint64
		ok := false
		for _, c := range conns {
			var e uint64
			if n, _ := fmt.Sscanf(c.LastAnnouncement(), "opened(%d)", &e); n == 1 {
				if e > best {
					best = e
				}
				ok = true
			}
		}
		return best, ok
	}
	epoch, ok := epochFromTaps()
	if !ok {
		r.Inconclusive(fmt.Sprintf("C21 server trace %d: server announced Opened to neither side after both attached (server-side announcement defect, see C22)", idx))
		r.Case(sig, false)
		return
	}

	// reference mailboxes: sent[d] = seqno delivered to the receiver of direction d (0 = empty); d = sender index
	sent := []uint64{0, 0}
	nextSeq := []uint64{0, 0}
	credits := []map[string]int{{}, {}} // per tap: explained outputs not yet seen
	explained, unconsumedAtEnd := 0, 0
	wrongReqs := 0
	witness := func(step int) map[string]any {
		return map[string]any{"steps": names, "at_step": step, "tap_P": conns[0].Tap(), "tap_Q": conns[1].Tap(), "epoch_used": epoch}
	}
	checkTaps := func(step int) bool {
		for i, c := range conns {
			tap := c.Tap()
			for ; consumed[i] < len(tap); consumed[i]++ {
				it := tap[consumed[i]]
				if strings.HasPrefix(it, "opened") || it == "closed" {
					continue
				}
				if credits[i][it] > 0 {
					credits[i][it]--
					explained++
					continue
				}
				kind := it[:strings.IndexByte(it, '(')]
				r.Violation("server-trace/unexplained-"+kind,
					fmt.Sprintf("the server emitted %s to %s which the reference mailbox does not explain (no message with that seqno was outstanding in that direction / it was already acked or cleared)", it, who[i]), witness(step))
				return false
			}
		}
		return true
	}
	for si, st := range steps {
		x, y := st.By, 1-st.By
		sseq := epoch
		if st.Stale {
			sseq = epoch - 1
			wrongReqs++
		}
		switch st.Do {
		case "send":
			nextSeq[x]++
			data := fmt.Sprintf("c21t-%d-%s-%d", idx, who[x], nextSeq[x])
			m := g8sig.Honest(ids[x], data, nextSeq[x])
			_ = conns[x].C.Send(g8sig.ReqSend(sseq, m))
			if !st.Stale {
				sent[x] = nextSeq[x]
				credits[y][fmt.Sprintf("recv(#%d,%s)", nextSeq[x], data)]++
			}
		case "ack":
			// x acknowledges a message of direction y->x
			seq := uint64(st.Seq)
			if st.Seq <= 0 {
				seq = uint64(int64(sent[y]) + st.Seq)
			}
			_ = conns[x].C.Send(g8sig.ReqAck(sseq, seq))
			if !st.Stale && sent[y] != 0 && seq == sent[y] {
				sent[y] = 0
				credits[y][fmt.Sprintf("ack(#%d)", seq)]++
			} else {
				wrongReqs++
			}
		case "clear":
			// x clears its own message of direction x->y
			seq := uint64(st.Seq)
			if st.Seq <= 0 {
				seq = uint64(int64(sent[x]) + st.Seq)
			}
			_ = conns[x].C.Send(g8sig.ReqClear(sseq, seq))
			if !st.Stale && sent[x] != 0 && seq == sent[x] {
				sent[x] = 0
				credits[y][fmt.Sprintf("clear(#%d)", seq)]++
			} else {
				wrongReqs++
			}
		case "reattach":
			hb.Kill(conns[x])
			if !quiesce(fmt.Sprintf("step %d detach", si)) {
				r.Case(sig, false)
				return
			}
			if !checkTaps(si) {
				r.Case(sig, true)
				return
			}
			conns[x] = hb.RawSession(ids[x], who[x], ids[y].String())
			consumed[x] = 0
			credits[x] = map[string]int{}
			// a re-open empties both mailboxes; deliveries not yet made are void
			sent[0], sent[1] = 0, 0
			for k := range credits[y] {
				if strings.HasPrefix(k, "recv(") {
					delete(credits[y], k)
				}
			}
		}
		if !quiesce(fmt.Sprintf("step %d", si)) {
			r.Case(sig, false)
			return
		}
		if st.Do == "reattach" {
			e, ok := epochFromTaps()
			if !ok || e <= epoch {
				r.Inconclusive(fmt.Sprintf("C21 server trace %d: no Opened with a newer epoch reached either side after a re-attach (server-side announcement defect, see C22)", idx))
				r.Case(sig, false)
				return
			}
			epoch = e
		}
		if !checkTaps(si) {
			r.Case(sig, true)
			return
		}
	}
	for i := range credits {
		for k, n := range credits[i] {
			if n > 0 && !strings.HasPrefix(k, "clear(") {
				unconsumedAtEnd += n
			}
		}
	}
	r.Case(sig, explained > 0 && wrongReqs > 0)
	r.Count("server_trace_cases", 1)
	r.Count("server_trace_outputs_explained", explained)
	r.Count("server_trace_misbehaving_requests", wrongReqs)
	r.Count("server_trace_predicted_outputs_not_seen(liveness, not judged)", unconsumedAtEnd)
	r.Distinct("server_traces", strings.Join(conns[0].Tap(), ",")+"|"+strings.Join(conns[1].Tap(), ","))
	if idx < 2 {
		r.Sample(map[string]any{"trace": sig, "tap_P": conns[0].Tap(), "tap_Q": conns[1].Tap()})
	}
}
