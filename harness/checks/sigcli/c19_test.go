package sigcli

import (
	"context"
	"fmt"
	"math/rand/v2"
	"sync/atomic"
	"testing"

	signaling_rpc "github.com/aperturerobotics/bifrost/signaling/rpc"
	"verifharness/g8sig"
	"verifharness/keys"
	"verifharness/vf"
)

// c19Item is one step of a malicious-relay script.
type c19Item struct {
	Kind string // honest | forge:<kind> | reopen | close-open | noise-ack | noise-clear | unknown-oneof | nil-recv
	Data string
}

func genC19Script(rng *rand.Rand, inst int) []c19Item {
	n := 5 + rng.IntN(6)
	var items []c19Item
	for i := 0; i < n; i++ {
		d := fmt.Sprintf("c19-i%d-s%d", inst, i)
		switch x := rng.IntN(20); {
		case x < 6:
			items = append(items, c19Item{"honest", d})
		case x < 16:
			k := g8sig.ForgeKinds[rng.IntN(len(g8sig.ForgeKinds))]
			items = append(items, c19Item{"forge:" + k, d + "-" + k})
		case x == 16:
			items = append(items, c19Item{"reopen", ""})
		case x == 17:
			items = append(items, c19Item{"close-open", ""})
		case x == 18:
			items = append(items, c19Item{[]string{"noise-ack", "noise-clear"}[rng.IntN(2)], ""})
		default:
			items = append(items, c19Item{[]string{"unknown-oneof", "nil-recv"}[rng.IntN(2)], ""})
		}
	}
	// make sure both classes occur
	items[rng.IntN(len(items))] = c19Item{"honest", fmt.Sprintf("c19-i%d-hx", inst)}
	return items
}

func TestC19(t *testing.T) {
	r := vf.Start(t, "C19", vf.Exploration)
	defer r.Finish()
	r.SetRule("case = one script played by a scripted MALICIOUS relay (harness implementation of SRPCSignalingClient) to a real signaling client B holding a session with A while B's application calls Recv in a loop: Opened(e), then 5-10 PRNG-chosen deliveries mixing honest messages (signed by A under the signaling context, unique payloads) with forged ones (20 classes: bit flips in payload / signature / sender, third key claiming A, A-signed under the pubsub or a near-miss context, authentic message of C, authentic message of B itself, A's signature re-attributed to C, pub_key field of C, empty / nil / truncated signature, hash_type 0 / swapped, appended / empty payload, signature of another payload, nil envelope) plus re-opens, Closed, stray acks / clears, unknown oneof. After every delivery the whole batch is brought to a quiescent state (all goroutines parked, relay stream re-established if the client tore it down). Non-trivial = at least one honest message reached the application AND at least one forged delivery was consumed by the client; distinct = distinct kind sequences. Oracle (harness owns ground truth): every message returned by Recv is, field by field, the signed envelope of an honest delivery of this script; any other returned message is a violation keyed by the forgery class")
	r.Assume("scripted relay passes Go structs (no wire encoding); the adversary is the one listed in the property quantifier, a replay of a message A addressed to a third peer is not exercised (DESIGN C19 notes)")
	rng := r.Rand("c19-scripts")
	n := r.N(240, 8000)
	scripts := make([][]c19Item, n)
	seeds := make([]uint64, n)
	for i := range scripts {
		scripts[i] = genC19Script(rng, i)
		seeds[i] = rng.Uint64()
	}
	idRng := r.Rand("c19-keys")
	pool := keys.Pool(idRng, 12)

	rounds := runBatches(n, 120, func(idx int, b *g8sig.Batch) {
		runC19(r, idx, scripts[idx], seeds[idx], pool, b)
	})
	r.Count("barrier_rounds", rounds)
}

func runC19(r *vf.Run, idx int, script []c19Item, seed uint64, pool []*keys.Identity, b *g8sig.Batch) {
	rng := rand.New(rand.NewPCG(seed, 19))
	a, lb, c := pool[idx%len(pool)], pool[(idx+1)%len(pool)], pool[(idx+2)%len(pool)]
	kinds := make([]string, len(script))
	for i, it := range script {
		kinds[i] = it.Kind
	}
	sig := joinKinds(kinds)
	r.Begin(fmt.Sprintf("C19 script %d: %s", idx, sig))

	ctx, cancel := context.WithCancel(context.Background())
	defer cancel()
	relay := &g8sig.Relay{}
	cl, err := g8sig.NewClient(ctx, lb, relay)
	if err != nil {
		r.Inconclusive("NewClient: " + err.Error())
		return
	}
	ref := cl.AddPeerRef(a.String())
	var clock atomic.Int64
	app := g8sig.NewApp("B", &clock)
	app.RecvLoop(ctx, ref, "A", 0)
	defer func() {
		cancel()
		app.Wait()
		ref.Release()
	}()

	type delivered struct {
		item   int
		honest bool
		msg    *signaling_rpc.SessionMsg
	}
	var pushed []delivered
	epoch := uint64(1)
	nStreams := 0
	honestSeen, forgedConsumed := 0, 0
	checked := 0

	check := func(step int) bool {
		recvs := app.Recvs()
		for ; checked < len(recvs); checked++ {
			op := recvs[checked]
			if !op.Done || op.Err != "" {
				break
			}
			okHonest := false
			from := "unknown"
			for _, d := range pushed {
				if d.msg == op.Msg {
					from = script[d.item].Kind
				}
				if d.honest && g8sig.SameSigned(d.msg, op.Msg) {
					okHonest = true
				}
			}
			if okHonest {
				honestSeen++
				r.Count("honest_handed_to_application", 1)
				continue
			}
			r.Violation("accepted/"+from, fmt.Sprintf("client B handed a message to the application as coming from A that is not an honest delivery (class %s)", from),
				map[string]any{"script": script, "step": step, "returned": op.Msg.String(), "session_peer": a.String(), "local": lb.String(), "third": c.String()})
			return false
		}
		return true
	}

	for step := -1; step < len(script); step++ {
		// bring the batch to a quiescent point with a live stream
		q := b.Quiesce(relay.LiveOK)
		if !q.OK {
			inconclusive(r, fmt.Sprintf("C19 script %d step %d", idx, step), q)
			r.Case(sig, false)
			return
		}
		if !check(step) {
			r.Case(sig, true)
			return
		}
		s := relay.Cur()
		if relay.NStreams() != nStreams {
			// a new Session call: the previous one (if any) was torn down by the client
			if nStreams > 0 {
				r.Count("client_tore_down_stream", 1)
			}
			nStreams = relay.NStreams()
			epoch += 2
			s.Push(g8sig.Opened(epoch))
		}
		if step < 0 {
			continue
		}
		it := script[step]
		seq := uint64(step + 1)
		switch {
		case it.Kind == "honest":
			m := g8sig.Honest(a, it.Data, seq)
			pushed = append(pushed, delivered{step, true, m})
			s.Push(g8sig.RecvMsg(m))
			r.Count("delivered_honest", 1)
		case len(it.Kind) > 6 && it.Kind[:6] == "forge:":
			m := g8sig.Forge(it.Kind[6:], a, lb, c, it.Data, seq, rng)
			pushed = append(pushed, delivered{step, false, m})
			s.Push(g8sig.RecvMsg(m))
			forgedConsumed++
			r.Count("delivered_"+it.Kind, 1)
		case it.Kind == "reopen":
			epoch++
			s.Push(g8sig.Opened(epoch))
			r.Count("delivered_reopen", 1)
		case it.Kind == "close-open":
			s.Push(g8sig.Closed())
			epoch += 2
			s.Push(g8sig.Opened(epoch))
			r.Count("delivered_close_open", 1)
		case it.Kind == "noise-ack":
			s.Push(g8sig.AckMsg(uint64(rng.IntN(4))))
			r.Count("delivered_noise", 1)
		case it.Kind == "noise-clear":
			s.Push(g8sig.ClearMsg(uint64(rng.IntN(int(seq) + 1))))
			r.Count("delivered_noise", 1)
		case it.Kind == "unknown-oneof":
			s.Push(&signaling_rpc.SessionResponse{})
			r.Count("delivered_unknown_oneof", 1)
		case it.Kind == "nil-recv":
			s.Push(&signaling_rpc.SessionResponse{Body: &signaling_rpc.SessionResponse_RecvMsg{}})
			r.Count("delivered_nil_recvmsg", 1)
		}
	}
	q := b.Quiesce(relay.LiveOK)
	if !q.OK {
		inconclusive(r, fmt.Sprintf("C19 script %d final", idx), q)
		r.Case(sig, false)
		return
	}
	ok := check(len(script))
	r.Case(sig, honestSeen > 0 && forgedConsumed > 0)
	if ok {
		r.Distinct("scripts", sig)
		r.Sample(map[string]any{"script": sig, "honest_handed_over": honestSeen, "forged_delivered": forgedConsumed, "session_calls": relay.NStreams()})
	}
}
