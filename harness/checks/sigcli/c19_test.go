package sigcli

import (
	"context"
	"errors"
	"fmt"
	"math/rand/v2"
	"strings"
	"sync/atomic"
	"testing"

	"github.com/aperturerobotics/bifrost/hash"
	signaling_rpc "github.com/aperturerobotics/bifrost/signaling/rpc"
	"verifharness/g8sig"
	"verifharness/keys"
	"verifharness/vf"
)

// c19Item is one step of a malicious-relay script.
type c19Item struct {
	// honest | forge:<kind> | derive:<kind> | replay | replay-newseq | reopen | close-open |
	// kill-stream | noise-ack | noise-clear | clear-last | unknown-oneof | nil-recv
	Kind string
	Data string
	// Back selects the source of a derive / replay item: the Back-th most recent
	// honest original delivered earlier in this script (1 = the latest).
	Back int `json:",omitempty"`
	// Burst: deliver right behind the previous item, without waiting for a
	// quiescent state in between (the application may not have taken it yet).
	Burst bool `json:",omitempty"`
	// Len pads the payload of an honest / forged delivery to this many bytes
	// (0 = the natural length of Data, 11-20 bytes); HT is the hash type A's
	// signer uses for an honest delivery (0 = BLAKE3, the client's own choice).
	Len int `json:",omitempty"`
	HT  int `json:",omitempty"`
	// Blk is the block size with respect to which a derive:tail:<kind> item
	// takes "the last block" of the source payload.
	Blk int `json:",omitempty"`
}

// c19Lens are the payload lengths of honest messages: below, at and above the
// digest lengths (20 bytes SHA1, 32 bytes SHA256 / BLAKE3) and the 64-byte block.
var c19Lens = []int{0, 0, 0, 19, 20, 21, 31, 32, 32, 33, 40, 63, 64, 65, 100, 300}

func c19Shape(rng *rand.Rand, it c19Item) c19Item {
	it.Len = c19Lens[rng.IntN(len(c19Lens))]
	switch rng.IntN(10) {
	case 0:
		it.HT = int(hash.HashType_HashType_SHA256)
	case 1:
		it.HT = int(hash.HashType_HashType_SHA1)
	}
	return it
}

func (it c19Item) label() string {
	l := it.Kind
	if it.Back > 0 {
		l += fmt.Sprintf("@%d", it.Back)
	}
	if it.Burst {
		l += "!"
	}
	if it.Len > 0 {
		l += fmt.Sprintf("/%dB", it.Len)
	}
	if it.HT > 0 {
		l += fmt.Sprintf("/h%d", it.HT)
	}
	if it.Blk > 0 {
		l += fmt.Sprintf("/b%d", it.Blk)
	}
	return l
}

func isTailDerive(k string) bool { return strings.HasPrefix(k, "derive:tail:") }

// genC19LargeScript generates a script of the LARGE-payload family: A's honest
// message has a payload of n bytes (at / around internal block boundaries:
// 1 KiB .. 1 MiB+1) and the relay then delivers variants that keep A's sender
// id and signature and alter the payload only at its END (last byte, first
// byte / a random byte / all of the last partial block with respect to block
// size 64 B .. 128 KiB, last 16 bytes rewritten, last block dropped / zeroed /
// rewritten / taken from the prefix, one byte dropped / appended, extended to
// the next block boundary) or, as the complementary class, in the full blocks
// in front. The variants follow their source immediately (also in one burst),
// after an exact replay, a re-open, a stream reset or a small honest message.
func genC19LargeScript(rng *rand.Rand, inst, n int, huge bool) []c19Item {
	var items []c19Item
	data := func() string { return fmt.Sprintf("c19L-i%d-s%d", inst, len(items)) }
	if rng.IntN(3) == 0 {
		items = append(items, c19Shape(rng, c19Item{Kind: "honest", Data: data()}))
	}
	big := c19Item{Kind: "honest", Data: data(), Len: n}
	switch rng.IntN(5) {
	case 0:
		big.HT = int(hash.HashType_HashType_SHA256)
	case 1:
		big.HT = int(hash.HashType_HashType_SHA1)
	}
	items = append(items, big)
	// block sizes the length is "interesting" for: every listed size below the length
	var blks []int
	for _, b := range g8sig.TailBlocks {
		if b < n {
			blks = append(blks, b)
		}
	}
	if len(blks) == 0 {
		blks = []int{64}
	}
	nd := 3 + rng.IntN(3)
	if huge {
		nd = 2
	}
	back := 1
	for d := 0; d < nd; d++ {
		if !huge {
			switch rng.IntN(10) {
			case 0:
				items = append(items, c19Item{Kind: []string{"replay", "replay-newseq"}[rng.IntN(2)], Back: back})
			case 1:
				items = append(items, c19Item{Kind: []string{"reopen", "close-open", "kill-stream"}[rng.IntN(3)]})
			case 2:
				items = append(items, c19Shape(rng, c19Item{Kind: "honest", Data: data()}))
				back++
			}
		}
		k := g8sig.TailKinds[rng.IntN(len(g8sig.TailKinds))]
		if d == 0 {
			// every script alters at least once strictly inside the last block
			k = g8sig.TailKinds[rng.IntN(4)]
		}
		it := c19Item{Kind: "derive:tail:" + k, Data: data(), Back: back, Blk: blks[rng.IntN(len(blks))]}
		if p := items[len(items)-1].Kind; (p == "honest" || strings.HasPrefix(p, "replay")) && rng.IntN(10) < 2 {
			it.Burst = true
		}
		items = append(items, it)
	}
	return items
}

func isDerive(k string) bool { return strings.HasPrefix(k, "derive:") }

// genC19HistScript generates a script of HISTORY-dependent forgeries: every
// forged delivery is derived from an honest message of A that the client has
// already accepted earlier on the same peer tracker (same signature bytes with
// another payload / hash type / pub_key field / sender, the payload under the
// signature of another accepted message, ...), at distance 0..k from its
// source, with exact replays, other honest messages, re-opens, Closed+Opened
// and stream resets in between.
func genC19HistScript(rng *rand.Rand, inst int) []c19Item {
	n := 6 + rng.IntN(7)
	var items []c19Item
	nHonest := 0
	data := func() string { return fmt.Sprintf("c19h-i%d-s%d", inst, len(items)) }
	back := func() int {
		b := 1
		switch x := rng.IntN(20); {
		case x >= 17:
			b = 3
		case x >= 12:
			b = 2
		}
		if b > nHonest {
			b = nHonest
		}
		return b
	}
	derive := func(b int) c19Item {
		k := g8sig.DeriveKinds[rng.IntN(len(g8sig.DeriveKinds))]
		if rng.IntN(2) == 0 {
			// structural substitution: payload replaced by a value computed from it
			k = g8sig.StructDeriveKinds[rng.IntN(len(g8sig.StructDeriveKinds))]
		}
		it := c19Item{Kind: "derive:" + k, Data: data() + "-fresh", Back: b}
		if len(items) > 0 {
			if p := items[len(items)-1].Kind; (p == "honest" || strings.HasPrefix(p, "replay")) && rng.IntN(10) < 3 {
				it.Burst = true
			}
		}
		return it
	}
	honest := func() c19Item { nHonest++; return c19Shape(rng, c19Item{Kind: "honest", Data: data()}) }
	// the motif every script contains at least once: original accepted, then
	// (after nothing / a re-open / other traffic) a variant of it
	motif := func() {
		items = append(items, honest())
		b := 1
		switch rng.IntN(12) {
		case 0, 1, 2, 3, 4:
		case 5:
			items = append(items, c19Item{Kind: "reopen"})
		case 6:
			items = append(items, c19Item{Kind: "close-open"})
		case 7:
			items = append(items, c19Item{Kind: "kill-stream"})
		case 8:
			items = append(items, c19Item{Kind: []string{"replay", "replay-newseq"}[rng.IntN(2)], Back: 1})
		case 9:
			items = append(items, honest())
			b = 2
		case 10:
			items = append(items, c19Item{Kind: "clear-last"})
		case 11:
			k := g8sig.ForgeKinds[rng.IntN(len(g8sig.ForgeKinds))]
			items = append(items, c19Item{Kind: "forge:" + k, Data: data() + "-" + k})
		}
		items = append(items, derive(b))
	}
	at := rng.IntN(3)
	for len(items) < n {
		if len(items) >= at && at >= 0 {
			motif()
			at = -1
			continue
		}
		if nHonest == 0 {
			if rng.IntN(3) == 0 {
				k := g8sig.ForgeKinds[rng.IntN(len(g8sig.ForgeKinds))]
				items = append(items, c19Item{Kind: "forge:" + k, Data: data() + "-" + k})
			} else {
				items = append(items, honest())
			}
			continue
		}
		switch x := rng.IntN(100); {
		case x < 42:
			items = append(items, derive(back()))
		case x < 60:
			items = append(items, honest())
		case x < 68:
			items = append(items, c19Item{Kind: []string{"replay", "replay-newseq"}[rng.IntN(2)], Back: back()})
		case x < 74:
			k := g8sig.ForgeKinds[rng.IntN(len(g8sig.ForgeKinds))]
			items = append(items, c19Item{Kind: "forge:" + k, Data: data() + "-" + k})
		case x < 80:
			items = append(items, c19Item{Kind: "reopen"})
		case x < 85:
			items = append(items, c19Item{Kind: "close-open"})
		case x < 89:
			items = append(items, c19Item{Kind: "kill-stream"})
		case x < 93:
			items = append(items, c19Item{Kind: []string{"noise-ack", "noise-clear", "clear-last"}[rng.IntN(3)]})
		case x < 96:
			items = append(items, c19Item{Kind: []string{"unknown-oneof", "nil-recv"}[rng.IntN(2)]})
		default:
			motif()
		}
	}
	return items
}

func genC19Script(rng *rand.Rand, inst int) []c19Item {
	n := 5 + rng.IntN(6)
	var items []c19Item
	for i := 0; i < n; i++ {
		d := fmt.Sprintf("c19-i%d-s%d", inst, i)
		switch x := rng.IntN(20); {
		case x < 6:
			items = append(items, c19Shape(rng, c19Item{Kind: "honest", Data: d}))
		case x < 16:
			k := g8sig.ForgeKinds[rng.IntN(len(g8sig.ForgeKinds))]
			if rng.IntN(4) == 0 {
				k = g8sig.StructDeriveKinds[rng.IntN(len(g8sig.StructDeriveKinds))]
			}
			items = append(items, c19Item{Kind: "forge:" + k, Data: d + "-" + k, Len: c19Lens[rng.IntN(len(c19Lens))]})
		case x == 16:
			items = append(items, c19Item{Kind: "reopen"})
		case x == 17:
			items = append(items, c19Item{Kind: "close-open"})
		case x == 18:
			items = append(items, c19Item{Kind: []string{"noise-ack", "noise-clear"}[rng.IntN(2)]})
		default:
			items = append(items, c19Item{Kind: []string{"unknown-oneof", "nil-recv"}[rng.IntN(2)]})
		}
	}
	// make sure both classes occur
	items[rng.IntN(len(items))] = c19Shape(rng, c19Item{Kind: "honest", Data: fmt.Sprintf("c19-i%d-hx", inst)})
	return items
}

func TestC19(t *testing.T) {
	r := vf.Start(t, "C19", vf.Exploration)
	defer r.Finish()
	r.SetRule("case = one script played by a scripted MALICIOUS relay (harness implementation of SRPCSignalingClient) to a real signaling client B holding a session with A while B's application calls Recv in a loop: Opened(e), then 5-10 PRNG-chosen deliveries mixing honest messages (signed by A under the signaling context, unique payloads) with forged ones (20 classes: bit flips in payload / signature / sender, third key claiming A, A-signed under the pubsub or a near-miss context, authentic message of C, authentic message of B itself, A's signature re-attributed to C, pub_key field of C, empty / nil / truncated signature, hash_type 0 / swapped, appended / empty payload, signature of another payload, nil envelope) plus re-opens, Closed, stray acks / clears, unknown oneof. A second family of scripts (6-12+ steps) plays HISTORY-dependent forgeries: each is derived from an honest message of A that the same peer tracker accepted earlier in the script (A's accepted signature bytes + sender with a new / bit-flipped / appended / truncated payload, with another hash type, with a pub_key field of C or A and a new payload, re-attributed to C or B; the payload under the signature of another accepted message and vice versa; the payload re-signed by C or under another context; extended signature), taken from the latest / previous-but-one / third-latest accepted message and delivered immediately after its source (also in one burst without a quiescent point), after exact replays, after other honest or forged messages, after Opened(e+1), Closed+Opened, a stray ClearMsg of the source, or a stream reset by the relay (new Session call on the same tracker); every such script holds at least one original->variant motif. Half of the derived forgeries are STRUCTURAL substitutions (22 kinds): A's sender id and signature bytes are kept and the payload is replaced by a value computed from the accepted payload - its BLAKE3 / SHA256 / SHA1 digest, the digest under the signature's own hash type, the double digest, the documented sign body (context - SIGN - hash type - SIGN - digest), the digest of the sign body, the payload cut / zero-padded to the digest length, to 20 / 32 / 64 bytes or to the block size, payload||digest, digest||payload, digest prefixes, hex / protobuf encodings of the digest, the digest with the hash-type field switched; digests are computed by the harness from the standard library / the blake3 primitive. Honest payloads are padded to lengths below, at and above the digest lengths (natural 11-20, 19, 20, 21, 31, 32, 33, 40, 63, 64, 65, 100, 300 bytes) and one honest message in five is signed by A over SHA256 or SHA1 instead of BLAKE3 (still A's signature under the signaling context), so that every length-dependent path of signer and verifier is entered; the same structural substitutions are also applied to payloads A signed but never delivered (first family). A variant that happens to be field-for-field identical to an honest delivery (e.g. \"other hash type\" of a message that already carries it) is skipped, not judged. Exact replays of accepted messages (also under another outer seqno) count as honest deliveries. A third family of scripts (one per length, plus PRNG ones) works on LARGE payloads: A's honest message carries 1023 B .. 262143 B (one or two per run: 1 MiB-1 / 1 MiB / 1 MiB+1) at, one below and one above the powers of two from 1 KiB to 128 KiB and the multiples of 64 KiB, signed over BLAKE3 / SHA256 / SHA1, and the relay then delivers 2-5 variants that keep A's sender id and signature bytes and alter the payload only at its END - last byte flipped, first / a random byte of the last (partial, else full) block flipped with respect to a block size of 64 B .. 128 KiB, last 16 bytes rewritten, last block zeroed / rewritten / replaced by the prefix / dropped, last byte dropped, one byte appended, payload extended to the next block boundary, last byte of the full blocks flipped - or (complementary class) in the full blocks in front, immediately behind the source (also in one burst), after an exact replay, a re-open / Closed+Opened / stream reset or a small honest message. After every delivery the whole batch is brought to a quiescent state (all goroutines parked, relay stream re-established if the client tore it down). Non-trivial = at least one honest message reached the application AND at least one forged delivery was consumed by the client; distinct = distinct kind sequences. Oracle (harness owns ground truth): every message returned by Recv is, field by field, the signed envelope of an honest delivery of this script; any other returned message is a violation keyed by the forgery class")
	r.Assume("scripted relay passes Go structs (no wire encoding); the adversary is the one listed in the property quantifier, a replay of a message A addressed to a third peer is not exercised (DESIGN C19 notes)")
	rng := r.Rand("c19-scripts")
	n0 := r.N(240, 8000)
	nh := r.N(480, 12000)
	n := n0 + nh
	scripts := make([][]c19Item, n)
	seeds := make([]uint64, n)
	for i := 0; i < n0; i++ {
		scripts[i] = genC19Script(rng, i)
		seeds[i] = rng.Uint64()
	}
	hrng := r.Rand("c19-history-scripts")
	for i := n0; i < n; i++ {
		scripts[i] = genC19HistScript(hrng, i)
		seeds[i] = hrng.Uint64()
	}
	// third family: large payloads at / around block boundaries with alterations at the end
	lrng := r.Rand("c19-large-scripts")
	nl := r.N(len(g8sig.LargeLens)+2+10, len(g8sig.LargeLens)+6+600)
	nHuge := r.N(2, 6)
	for j := 0; j < nl; j++ {
		ln, huge := 0, false
		switch {
		case j < len(g8sig.LargeLens):
			ln = g8sig.LargeLens[j]
		case j < len(g8sig.LargeLens)+nHuge:
			ln, huge = g8sig.HugeLens[(j+int(r.Seed()%3))%len(g8sig.HugeLens)], true
		default:
			ln = g8sig.LargeLens[lrng.IntN(len(g8sig.LargeLens))]
		}
		scripts = append(scripts, genC19LargeScript(lrng, n+j, ln, huge))
		seeds = append(seeds, lrng.Uint64())
	}
	idRng := r.Rand("c19-keys")
	pool := keys.Pool(idRng, 12)

	rounds := runBatches(n, 120, func(idx int, b *g8sig.Batch) {
		runC19(r, idx, scripts[idx], seeds[idx], pool, b)
	})
	// the large scripts run in batches of their own (their deliveries take longer
	// to digest, every barrier round waits for the slowest instance)
	rounds += runBatches(nl, 64, func(j int, b *g8sig.Batch) {
		runC19(r, n+j, scripts[n+j], seeds[n+j], pool, b)
	})
	r.Count("barrier_rounds", rounds)
}

func runC19(r *vf.Run, idx int, script []c19Item, seed uint64, pool []*keys.Identity, b *g8sig.Batch) {
	rng := rand.New(rand.NewPCG(seed, 19))
	a, lb, c := pool[idx%len(pool)], pool[(idx+1)%len(pool)], pool[(idx+2)%len(pool)]
	kinds := make([]string, len(script))
	for i, it := range script {
		kinds[i] = it.label()
	}
	sig := joinKinds(kinds)
	r.Begin(fmt.Sprintf("C19 script %d: %s", idx, sig))

	ctx, cancel := context.WithCancel(context.Background())
	defer cancel()
	relay := &g8sig.Relay{}
	cl, err := g8sig.NewClient(ctx, lb, relay)
	if err != nil {
		r.Inconclusive("NewClient: " + err.Error())
		return
	}
	ref := cl.AddPeerRef(a.String())
	var clock atomic.Int64
	app := g8sig.NewApp("B", &clock)
	app.RecvLoop(ctx, ref, "A", 0)
	defer func() {
		cancel()
		app.Wait()
		ref.Release()
	}()

	type delivered struct {
		item   int
		honest bool
		msg    *signaling_rpc.SessionMsg
	}
	var pushed []delivered
	// honest originals delivered so far (sources of the history-dependent forgeries)
	var originals []*signaling_rpc.SessionMsg
	source := func(back int) (h, h2 *signaling_rpc.SessionMsg) {
		if back < 1 {
			back = 1
		}
		if back > len(originals) {
			back = len(originals)
		}
		i := len(originals) - back
		h, h2 = originals[i], originals[i]
		if i > 0 {
			h2 = originals[i-1]
		} else if i+1 < len(originals) {
			h2 = originals[i+1]
		}
		return
	}
	// isHonest: m carries, field by field, the signed envelope of an honest delivery made so far
	isHonest := func(m *signaling_rpc.SessionMsg) bool {
		for _, d := range pushed {
			if d.honest && g8sig.SameSigned(d.msg, m) {
				return true
			}
		}
		return false
	}
	killed := false
	epoch := uint64(1)
	nStreams := 0
	honestSeen, forgedConsumed, derivedDelivered := 0, 0, 0
	checked := 0

	check := func(step int) bool {
		recvs := app.Recvs()
		for ; checked < len(recvs); checked++ {
			op := recvs[checked]
			if !op.Done || op.Err != "" {
				break
			}
			okHonest := false
			from := "unknown"
			for _, d := range pushed {
				if d.msg == op.Msg {
					from = script[d.item].Kind
				}
				if d.honest && g8sig.SameSigned(d.msg, op.Msg) {
					okHonest = true
				}
			}
			if okHonest {
				honestSeen++
				r.Count("honest_handed_to_application", 1)
				continue
			}
			r.Violation("accepted/"+from, fmt.Sprintf("client B handed a message to the application as coming from A that is not an honest delivery (class %s)", from),
				map[string]any{"script": script, "step": step, "returned": g8sig.ShortMsg(op.Msg), "session_peer": a.String(), "local": lb.String(), "third": c.String()})
			return false
		}
		return true
	}

	for step := -1; step < len(script); step++ {
		if step > 0 && script[step].Burst {
			// delivered right behind the previous item: no quiescent point in between
			r.Count("burst_deliveries", 1)
		} else {
			// bring the batch to a quiescent point with a live stream
			q := b.Quiesce(relay.LiveOK)
			if !q.OK {
				inconclusive(r, fmt.Sprintf("C19 script %d step %d", idx, step), q)
				r.Case(sig, false)
				return
			}
			if !check(step) {
				r.Case(sig, true)
				return
			}
		}
		s := relay.Cur()
		if relay.NStreams() != nStreams {
			// a new Session call: the previous one (if any) was torn down by the client
			// (or reset by the relay)
			if nStreams > 0 && !killed {
				r.Count("client_tore_down_stream", 1)
			}
			killed = false
			nStreams = relay.NStreams()
			epoch += 2
			s.Push(g8sig.Opened(epoch))
		}
		if step < 0 {
			continue
		}
		it := script[step]
		seq := uint64(step + 1)
		switch {
		case it.Kind == "honest":
			ht := hash.HashType_HashType_BLAKE3
			if it.HT > 0 {
				ht = hash.HashType(it.HT)
			}
			pl := g8sig.PadPayload(it.Data, it.Len)
			m := g8sig.HonestHT(a, pl, seq, ht)
			r.Distinct("honest_payload_length_class", g8sig.LenClass(len(pl), ht)+"/"+ht.String())
			r.Count("delivered_honest_"+g8sig.LenClass(len(pl), ht), 1)
			if len(pl) >= 1023 {
				r.Count("delivered_honest_large_payload", 1)
				r.Distinct("large_honest_payload_length_x_hash", fmt.Sprintf("%d/%s", len(pl), ht.String()))
			}
			pushed = append(pushed, delivered{step, true, m})
			originals = append(originals, m)
			s.Push(g8sig.RecvMsg(m))
			r.Count("delivered_honest", 1)
		case isTailDerive(it.Kind) && len(originals) > 0:
			h, _ := source(it.Back)
			if rng.IntN(2) == 0 {
				seq = h.Seqno
			}
			kind := it.Kind[len("derive:tail:"):]
			m := g8sig.TailDerive(kind, it.Blk, h, seq, rng)
			if isHonest(m) {
				r.Count("derived_variant_identical_to_honest_skipped", 1)
				continue
			}
			src := h.GetSignedMsg()
			pushed = append(pushed, delivered{step, false, m})
			s.Push(g8sig.RecvMsg(m))
			forgedConsumed++
			derivedDelivered++
			r.Count("delivered_"+it.Kind, 1)
			r.Count("derived_forgeries_delivered", 1)
			r.Count("tail_forgeries_delivered", 1)
			r.Distinct("tail_kind_x_size_class", fmt.Sprintf("%s/b%d/%s", kind, it.Blk, g8sig.SizeClass(len(src.GetData()), it.Blk)))
			r.Distinct("tail_source_length_x_hash", fmt.Sprintf("%d/%s", len(src.GetData()), src.GetSignature().GetHashType().String()))
		case isDerive(it.Kind) && len(originals) > 0:
			h, h2 := source(it.Back)
			if rng.IntN(2) == 0 {
				seq = h.Seqno
			}
			m := g8sig.Derive(it.Kind[7:], h, h2, a, lb, c, it.Data, seq, rng)
			if isHonest(m) {
				// degenerate variant (e.g. "another hash type" of a message that
				// already carries that type): identical to an honest delivery, not a forgery
				r.Count("derived_variant_identical_to_honest_skipped", 1)
				continue
			}
			if strings.HasPrefix(it.Kind, "derive:st:") {
				src := h.GetSignedMsg()
				r.Count("structural_forgeries_delivered", 1)
				r.Distinct("structural_kind_x_source_length", it.Kind[10:]+"/"+g8sig.LenClass(len(src.GetData()), src.GetSignature().GetHashType())+"/"+src.GetSignature().GetHashType().String())
			}
			pushed = append(pushed, delivered{step, false, m})
			s.Push(g8sig.RecvMsg(m))
			forgedConsumed++
			derivedDelivered++
			r.Count("delivered_"+it.Kind, 1)
			r.Count("derived_forgeries_delivered", 1)
			r.Distinct("derive_kind_x_distance", fmt.Sprintf("%s/back%d/gap%d", it.Kind[7:], it.Back, gapSince(script, step)))
		case strings.HasPrefix(it.Kind, "replay") && len(originals) > 0:
			// an exact copy of an accepted honest message (optionally under another
			// outer seqno, which is not part of the signed envelope): still a
			// message A signed and submitted, so the oracle counts it as honest
			h, _ := source(it.Back)
			m := h.CloneVT()
			if it.Kind == "replay-newseq" {
				m.Seqno = seq
			}
			pushed = append(pushed, delivered{step, true, m})
			s.Push(g8sig.RecvMsg(m))
			r.Count("delivered_"+it.Kind, 1)
		case it.Kind == "kill-stream":
			killed = true
			s.Kill(errors.New("relay: stream reset"))
			r.Count("delivered_kill_stream", 1)
		case it.Kind == "clear-last":
			if len(originals) > 0 {
				s.Push(g8sig.ClearMsg(originals[len(originals)-1].Seqno))
			}
			r.Count("delivered_noise", 1)
		case len(it.Kind) > 6 && it.Kind[:6] == "forge:":
			m := g8sig.Forge(it.Kind[6:], a, lb, c, string(g8sig.PadPayload(it.Data, it.Len)), seq, rng)
			if isHonest(m) {
				r.Count("derived_variant_identical_to_honest_skipped", 1)
				continue
			}
			pushed = append(pushed, delivered{step, false, m})
			s.Push(g8sig.RecvMsg(m))
			forgedConsumed++
			r.Count("delivered_"+it.Kind, 1)
		case it.Kind == "reopen":
			epoch++
			s.Push(g8sig.Opened(epoch))
			r.Count("delivered_reopen", 1)
		case it.Kind == "close-open":
			s.Push(g8sig.Closed())
			epoch += 2
			s.Push(g8sig.Opened(epoch))
			r.Count("delivered_close_open", 1)
		case it.Kind == "noise-ack":
			s.Push(g8sig.AckMsg(uint64(rng.IntN(4))))
			r.Count("delivered_noise", 1)
		case it.Kind == "noise-clear":
			s.Push(g8sig.ClearMsg(uint64(rng.IntN(int(seq) + 1))))
			r.Count("delivered_noise", 1)
		case it.Kind == "unknown-oneof":
			s.Push(&signaling_rpc.SessionResponse{})
			r.Count("delivered_unknown_oneof", 1)
		case it.Kind == "nil-recv":
			s.Push(&signaling_rpc.SessionResponse{Body: &signaling_rpc.SessionResponse_RecvMsg{}})
			r.Count("delivered_nil_recvmsg", 1)
		}
	}
	q := b.Quiesce(relay.LiveOK)
	if !q.OK {
		inconclusive(r, fmt.Sprintf("C19 script %d final", idx), q)
		r.Case(sig, false)
		return
	}
	ok := check(len(script))
	r.Case(sig, honestSeen > 0 && forgedConsumed > 0)
	if ok {
		r.Distinct("scripts", sig)
		if derivedDelivered > 0 {
			r.Count("scripts_with_history_dependent_forgery", 1)
		}
		r.Sample(map[string]any{"script": sig, "honest_handed_over": honestSeen, "forged_delivered": forgedConsumed, "derived_from_accepted": derivedDelivered, "session_calls": relay.NStreams()})
	}
}

// gapSince returns the number of script items between the derive item at step
// and the nearest earlier honest / replay item (0 = immediately after).
func gapSince(script []c19Item, step int) int {
	for i := step - 1; i >= 0; i-- {
		if k := script[i].Kind; k == "honest" || strings.HasPrefix(k, "replay") {
			return step - 1 - i
		}
	}
	return -1
}
