// Package sigcli holds the runtime monitors for the signaling CLIENT and the
// end-to-end client<->server behaviour: C19 (TestC19), C21 (TestC21), C23 (TestC23).
package sigcli

import (
	"fmt"
	"strings"
	"sync"

	"verifharness/g8sig"
	"verifharness/vf"
)

// runBatches runs n instances in lock-step batches of size bs: every instance
// gets its index and the batch barrier; fn must call b.Leave exactly once via
// the provided done func (deferred by the caller below).
func runBatches(n, bs int, fn func(idx int, b *g8sig.Batch)) (rounds int) {
	for lo := 0; lo < n; lo += bs {
		hi := lo + bs
		if hi > n {
			hi = n
		}
		b := g8sig.NewBatch(hi - lo)
		var wg sync.WaitGroup
		done := make(chan struct{})
		for i := lo; i < hi; i++ {
			wg.Add(1)
			go func(i int) {
				defer wg.Done()
				defer b.Leave()
				fn(i, b)
			}(i)
		}
		go func() { wg.Wait(); close(done) }()
		<-done
		rounds += b.Rounds()
	}
	return rounds
}

// inconclusive reports a failed quiescence wait.
func inconclusive(r *vf.Run, where string, q g8sig.QResult) {
	w := q.Why
	if len(w) > 600 {
		w = w[:600]
	}
	r.Inconclusive(fmt.Sprintf("%s: no quiescent state within the watchdog: %s", where, w))
}

func joinKinds(ks []string) string { return strings.Join(ks, ",") }
