package sigcli

import (
	"context"
	"fmt"
	"strings"
	"sync"
	"sync/atomic"
	"testing"
	"time"

	"verifharness/g8sig"
	"verifharness/keys"
	"verifharness/vf"
)

// c23Case is one fault-enumeration case against the scripted honest relay.
type c23Case struct {
	NX          int      // sends issued by X's application (all pending concurrently)
	NP          int      // messages the partner submits
	AttachFirst bool     // partner attached before X's stream
	AutoAck     bool     // partner application receives immediately
	Faults      []c23Flt // in order of their crossing index
}

type c23Flt struct {
	Kind string // noclose+1 | noclose+2 | close-open | close..open | kill-own
	K    int    // crossing index at which it is injected
}

var c23Kinds = []string{"noclose+1", "noclose+2", "close-open", "close..open", "kill-own"}

func (c c23Case) sig() string {
	var fs []string
	for _, f := range c.Faults {
		fs = append(fs, fmt.Sprintf("%s@%d", f.Kind, f.K))
	}
	return fmt.Sprintf("nx%d np%d attachFirst=%v autoAck=%v faults=%s", c.NX, c.NP, c.AttachFirst, c.AutoAck, strings.Join(fs, "+"))
}

// historyClass names the class of re-open history for stable violation keys.
func (c c23Case) historyClass() string {
	seen := map[string]bool{}
	var ks []string
	for _, f := range c.Faults {
		k := f.Kind
		if strings.HasPrefix(k, "noclose") {
			k = "reopen-without-closed"
		}
		if !seen[k] {
			seen[k] = true
			ks = append(ks, k)
		}
	}
	if len(ks) == 0 {
		return "no-fault"
	}
	return strings.Join(ks, "+")
}

func genC23Cases(r *vf.Run) []c23Case {
	var cases []c23Case
	for _, nx := range []int{1, 2} {
		for _, np := range []int{0, 1, 2} {
			kmax := 2*(nx+np) + 2
			for _, af := range []bool{true, false} {
				for _, aa := range []bool{true, false} {
					cases = append(cases, c23Case{NX: nx, NP: np, AttachFirst: af, AutoAck: aa})
					for _, kind := range c23Kinds {
						for k := 0; k <= kmax; k++ {
							cases = append(cases, c23Case{NX: nx, NP: np, AttachFirst: af, AutoAck: aa, Faults: []c23Flt{{kind, k}}})
						}
					}
				}
			}
		}
	}
	// pairs of faults, PRNG-sampled
	rng := r.Rand("c23-pairs")
	for i, n := 0, r.N(160, 6000); i < n; i++ {
		nx, np := 1+rng.IntN(2), rng.IntN(3)
		kmax := 2*(nx+np) + 4
		k1 := rng.IntN(kmax)
		k2 := k1 + 1 + rng.IntN(kmax-k1+2)
		c := c23Case{NX: nx, NP: np, AttachFirst: rng.IntN(2) == 0, AutoAck: rng.IntN(3) != 0,
			Faults: []c23Flt{{c23Kinds[rng.IntN(len(c23Kinds))], k1}, {c23Kinds[rng.IntN(len(c23Kinds))], k2}}}
		if !r.Quick() && rng.IntN(3) == 0 {
			k3 := k2 + 1 + rng.IntN(4)
			c.Faults = append(c.Faults, c23Flt{c23Kinds[rng.IntN(len(c23Kinds))], k3})
		}
		cases = append(cases, c)
	}
	return cases
}

func TestC23(t *testing.T) {
	r := vf.Start(t, "C23", vf.FaultEnumeration)
	defer r.Finish()
	r.SetRule("Part (ii) scripted honest relay: case = (sends by X in {1,2}, partner messages in {0,1,2}, partner attached before/after X, partner acks at once / only when released at a quiescent point, fault program); fault programs = every single fault kind in {re-open without Closed (+1 usurp, +2 detach/attach coalesced), Closed immediately followed by Opened, Closed .. quiescence .. Opened, X's own stream killed (client retry)} at EVERY crossing index k of the exchange (request handled / ack emitted / RecvMsg emitted), plus PRNG-sampled pairs. The relay+partner is a reference model written from the protocol description, played to a REAL client. Part (i) Harness B: two real clients <-> tap/proxy <-> real server, one fault in {kill partner's stream, kill own stream, partner Release+AddPeerRef, usurp by a duplicate raw Session call} at every proxy crossing k. Non-trivial = a fault fired while at least one send obligation was open; distinct = distinct case descriptions (plus crossing orders for Harness B). Oracle (stuck state, no deadline): after the last fault the process is brought to a quiescent state (every goroutine parked in select/chan wait in two consecutive goroutine dumps, event counters stable, every expected stream re-established and drained); in that state every Send issued must have returned ok, the partner must have got every message, and X's application every partner message. A parked Send in a quiescent system is a violation. Part (iii) stream ENDINGS under virtual time (testing/synctest bubble per case: the clock only advances when every goroutine of the case is durably blocked): X's (scripted honest relay) resp. A's own or the partner's (Harness B) Session stream ends in one of 12 shapes - error, error with the in-flight write failing too, remote error after the queued responses were drained, clean io.EOF (later writes fail / fail with EOF / in-flight write fails / queued responses lost / half-close: writes still succeed and go nowhere), error half-close, unexpected EOF, stream context cancelled, EOF plus context cancelled - at EVERY crossing index of the exchange (inside a write of the client) and at a quiescent point with the client's writer idle; then one more Send per side is issued. After every step the bubble runs dry, 2 s of virtual time (400 x the harness-chosen constant 5 ms retry back-off) are granted and it runs dry again; oracle: every Send has returned ok and every partner message was received - a Send still parked then is stuck (nothing runnable, no timer due within 400 back-offs); no wall-clock time enters the verdict")
	r.Assume("fairness of the Go scheduler during the stable suffix; quiescence is inferred from goroutine dumps plus harness counters; the only timers in the system are the client's 5 ms retry back-off, covered by the stream-liveness predicate")

	pool := keys.Pool(r.Rand("c23-keys"), 8)
	cases := genC23Cases(r)
	r.Extra("scripted_cases", len(cases))
	rounds := runBatches(len(cases), 150, func(idx int, b *g8sig.Batch) {
		runC23Scripted(r, idx, cases[idx], pool, b)
	})
	r.Count("barrier_rounds_scripted", rounds)

	runC23HarnessB(r, pool)

	t0 := time.Now()
	runC23Endings(r, t, pool)
	r.Extra("endings_part_wall_ms(informational)", time.Since(t0).Milliseconds())
}

func runC23Scripted(r *vf.Run, idx int, c c23Case, pool []*keys.Identity, b *g8sig.Batch) {
	sig := "scripted " + c.sig()
	r.Begin(fmt.Sprintf("C23 case %d: %s", idx, sig))
	x, p := pool[idx%len(pool)], pool[(idx+3)%len(pool)]
	ctx, cancel := context.WithCancel(context.Background())
	h := g8sig.NewHonestRelay(x, p, c.AttachFirst, c.AutoAck)
	cl, err := g8sig.NewClient(ctx, x, h)
	if err != nil {
		cancel()
		r.Inconclusive("NewClient: " + err.Error())
		return
	}
	ref := cl.AddPeerRef(p.String())
	var clock atomic.Int64
	app := g8sig.NewApp("X", &clock)
	app.RecvLoop(ctx, ref, "P", 0)
	defer func() {
		cancel()
		app.Wait()
		ref.Release()
	}()

	quiesce := func(where string) bool {
		q := b.Quiesce(h.LiveOK)
		if !q.OK {
			inconclusive(r, fmt.Sprintf("C23 case %d (%s) %s", idx, sig, where), q)
			return false
		}
		return true
	}

	// stable start: X's stream registered
	if !quiesce("start") {
		r.Case(sig, false)
		return
	}
	base := h.State().Crossings
	if !c.AttachFirst {
		h.AttachPartner()
	}

	// arm the faults
	fired := make([]bool, len(c.Faults))
	firedOpen := false // a fault fired while an obligation was open
	needAttach := false
	var sends []*g8sig.SendOp
	openObligation := func() bool {
		for _, s := range sends {
			if !app.Snapshot(s).Done {
				return true
			}
		}
		st := h.State()
		return st.PartnerQueue > 0
	}
	var hookMu sync.Mutex
	apply := func(h *g8sig.HonestRelay, kind string) {
		switch kind {
		case "noclose+1":
			h.ReopenNoCloseL(1)
		case "noclose+2":
			h.ReopenNoCloseL(2)
		case "close-open":
			h.CloseThenOpenL()
		case "close..open":
			h.DetachPartnerL()
			hookMu.Lock()
			needAttach = true
			hookMu.Unlock()
		case "kill-own":
			h.KillStreamL()
		}
	}
	// NOTE: the hook runs with the model lock held, inline in the goroutine
	// that causes the crossing; it only touches the model and local flags
	// that the driver reads at quiescent points.
	obligationAtFire := make([]bool, len(c.Faults))
	h.SetFault(func(h *g8sig.HonestRelay, k int, desc string) {
		// may be re-entered: applying a fault can cause further crossings
		var todo []string
		hookMu.Lock()
		for i, f := range c.Faults {
			if !fired[i] && k-base == f.K {
				fired[i] = true
				open := h.PartnerQueueL() > 0
				for _, s := range sends {
					if !app.Snapshot(s).Done {
						open = true
					}
				}
				obligationAtFire[i] = open
				todo = append(todo, f.Kind)
			}
		}
		hookMu.Unlock()
		for _, kind := range todo {
			apply(h, kind)
		}
	})

	for i := 0; i < c.NX; i++ {
		op := app.Send(ctx, ref, "P", fmt.Sprintf("c23-%d-x%d", idx, i))
		hookMu.Lock()
		sends = append(sends, op)
		hookMu.Unlock()
	}
	var pids []string
	for i := 0; i < c.NP; i++ {
		id := fmt.Sprintf("c23-%d-p%d", idx, i)
		pids = append(pids, id)
		h.PartnerSend(id)
	}

	// stable suffix: settle, apply what is driven from quiescent points, repeat
	for iter := 0; iter < 12; iter++ {
		if !quiesce(fmt.Sprintf("settle %d", iter)) {
			r.Case(sig, false)
			return
		}
		progress := false
		hookMu.Lock()
		na := needAttach
		needAttach = false
		hookMu.Unlock()
		if na {
			h.AttachPartner()
			progress = true
		}
		if h.HeldAcks() > 0 {
			h.ReleaseAcks()
			progress = true
		}
		if !progress {
			// faults whose crossing index was never reached fire now, at a quiescent point
			hookMu.Lock()
			var late []int
			for i := range c.Faults {
				if !fired[i] {
					fired[i] = true
					late = append(late, i)
					break
				}
			}
			hookMu.Unlock()
			if len(late) > 0 {
				open := openObligation()
				hookMu.Lock()
				obligationAtFire[late[0]] = open
				hookMu.Unlock()
				h.Locked(func() { apply(h, c.Faults[late[0]].Kind) })
				progress = true
			}
		}
		if !progress {
			break
		}
	}
	h.SetFault(nil)

	// a fault is counted as "fired under an open obligation" when some send was
	// still pending or a partner message outstanding right after it fired; for
	// inline faults this holds by construction unless everything had completed.
	st := h.State()
	for i := range c.Faults {
		if fired[i] && obligationAtFire[i] {
			firedOpen = true
		}
	}
	nontrivial := len(c.Faults) == 0 || firedOpen
	r.Case(sig, nontrivial)
	r.Count("scripted_cases", 1)
	r.Count("scripted_crossings", st.Crossings)
	r.Count("scripted_stale_requests_dropped", st.StaleDropped)
	r.Distinct("scripted_crossing_logs", strings.Join(st.Log, ";"))

	// oracle at the quiescent state
	witness := func() map[string]any {
		gs := g8sig.FilterDump(g8sig.DumpAll(), "ClientPeerRef).Send", "clientPeerTracker).execute")
		if len(gs) > 6 {
			gs = gs[:6]
		}
		return map[string]any{"case": c, "relay_log": st.Log, "sends": app.Sends(), "recvs": len(app.Recvs()),
			"delivered_to_partner": st.DeliveredToP, "acked_by_x": st.AckedByX, "client_requests": fmt.Sprint(h.Reqs()),
			"goroutines_of_the_process_matching_Send_or_execute": gs}
	}
	cls := c.historyClass()
	for _, s := range sends {
		so := app.Snapshot(s)
		switch {
		case !so.Done:
			r.Violation("scripted/send-parked-at-quiescence/"+cls,
				fmt.Sprintf("X's Send(%s) is parked although the system is quiescent, both peers attached (epoch %d) and nothing in flight; history class: %s", so.ID, st.Epoch, cls), witness())
			return
		case !so.OK:
			r.Violation("scripted/send-failed/"+cls, fmt.Sprintf("X's Send(%s) returned an error (%s) although its context was never cancelled", so.ID, so.Err), witness())
			return
		case st.DeliveredToP[so.ID] == 0:
			// belongs to C21, reported here only as context
			r.Count("send_ok_without_delivery(see C21)", 1)
		}
		r.Count("scripted_sends_completed", 1)
	}
	for _, id := range pids {
		got, _ := app.Received(id)
		if !got || st.AckedByX[id] == 0 {
			r.Violation("scripted/partner-message-not-received/"+cls,
				fmt.Sprintf("partner message %s: handed to X's application=%v acked by X=%d at quiescence (X's Recv loop is running); history class: %s", id, got, st.AckedByX[id], cls), witness())
			return
		}
		r.Count("scripted_partner_messages_received", 1)
	}
	if len(st.ProtoErrs) > 0 {
		r.Count("client_protocol_errors_seen_by_model", len(st.ProtoErrs))
	}
	r.Sample(map[string]any{"case": sig, "crossings": st.Crossings, "final_epoch": st.Epoch})
}

// ---------------------------------------------------------------------------
// Part (i): Harness B (real clients <-> proxy <-> real server)

type c23bCase struct {
	NA, NB int
	Kind   string // kill-partner | kill-own | partner-reref | usurp-dup | none
	K      int
	Rep    int
}

var c23bKinds = []string{"kill-partner", "kill-own", "partner-reref", "usurp-dup"}

func (c c23bCase) sig() string {
	return fmt.Sprintf("harnessB na%d nb%d %s@%d rep%d", c.NA, c.NB, c.Kind, c.K, c.Rep)
}

func runC23HarnessB(r *vf.Run, pool []*keys.Identity) {
	var cases []c23bCase
	reps := r.N(1, 12)
	for rep := 0; rep < reps; rep++ {
		for _, nn := range [][2]int{{1, 0}, {1, 1}, {2, 1}} {
			cases = append(cases, c23bCase{NA: nn[0], NB: nn[1], Kind: "none", K: -1, Rep: rep})
			kmax := 5*(nn[0]+nn[1]) + 3
			for _, kind := range c23bKinds {
				for k := 0; k <= kmax; k++ {
					cases = append(cases, c23bCase{NA: nn[0], NB: nn[1], Kind: kind, K: k, Rep: rep})
				}
			}
		}
	}
	r.Extra("harnessB_cases", len(cases))
	rounds := runBatches(len(cases), 100, func(idx int, b *g8sig.Batch) {
		runC23B(r, idx, cases[idx], pool, b)
	})
	r.Count("barrier_rounds_harnessB", rounds)
}

func runC23B(r *vf.Run, idx int, c c23bCase, pool []*keys.Identity, b *g8sig.Batch) {
	sig := c.sig()
	r.Begin(fmt.Sprintf("C23 harness-B case %d: %s", idx, sig))
	ia, ib := pool[idx%len(pool)], pool[(idx+1)%len(pool)]
	ctx, cancel := context.WithCancel(context.Background())
	hb := g8sig.NewHB()
	ca, err1 := g8sig.NewClient(ctx, ia, hb.ClientFor(ia, "A"))
	cb, err2 := g8sig.NewClient(ctx, ib, hb.ClientFor(ib, "B"))
	if err1 != nil || err2 != nil {
		cancel()
		r.Inconclusive("NewClient failed")
		return
	}
	var clock atomic.Int64
	appA, appB := g8sig.NewApp("A", &clock), g8sig.NewApp("B", &clock)
	refAB := ca.AddPeerRef(ib.String())
	hb.Expect("A", ib.String(), true)
	refBA := cb.AddPeerRef(ia.String())
	hb.Expect("B", ia.String(), true)
	bctx, bcancel := context.WithCancel(ctx)
	appA.RecvLoop(ctx, refAB, "B", 0)
	appB.RecvLoop(bctx, refBA, "A", 0)
	var mu sync.Mutex
	refs := []interface{ Release() }{refAB, refBA}
	defer func() {
		cancel()
		bcancel()
		hb.Shutdown()
		appA.Wait()
		appB.Wait()
		mu.Lock()
		for _, x := range refs {
			x.Release()
		}
		mu.Unlock()
	}()
	quiesce := func(where string) bool {
		q := b.Quiesce(hb.LiveOK)
		if !q.OK {
			inconclusive(r, fmt.Sprintf("C23 harness-B case %d (%s) %s", idx, sig, where), q)
			return false
		}
		return true
	}
	if !quiesce("start") {
		r.Case(sig, false)
		return
	}
	base, _ := hb.Crossings()

	// obligations: payload id -> current send op (re-issued ones replace the cancelled op)
	type obl struct {
		from, id string
		op       *g8sig.SendOp
		app      *g8sig.App
	}
	var obls []*obl
	fired, firedOpen := false, false
	doFault := func() {
		switch c.Kind {
		case "kill-partner":
			if cn := hb.Latest("B", ia.String()); cn != nil {
				hb.Kill(cn)
			}
		case "kill-own":
			if cn := hb.Latest("A", ib.String()); cn != nil {
				hb.Kill(cn)
			}
		case "usurp-dup":
			hb.RawSession(ib, "Bdup", ia.String())
		case "partner-reref":
			// B's application drops its reference and takes a new one; pending
			// operations on the old reference are cancelled and re-issued.
			mu.Lock()
			bcancel()
			var redo []*obl
			for _, o := range obls {
				if o.from == "B" && !o.app.Snapshot(o.op).Done {
					o.op.Cancel()
					redo = append(redo, o)
				}
			}
			refBA.Release()
			nref := cb.AddPeerRef(ia.String())
			refs = append(refs, nref)
			nctx, ncancel := context.WithCancel(ctx)
			bcancel = ncancel
			appB.RecvLoop(nctx, nref, "A", 0)
			for _, o := range redo {
				o.op = appB.Send(ctx, nref, "A", o.id)
			}
			mu.Unlock()
		}
	}
	hb.SetHook(func(hb *g8sig.HB, k int, cn *g8sig.HBConn, dir, desc string) {
		if c.Kind == "none" || k-base != c.K {
			return
		}
		mu.Lock()
		if fired {
			mu.Unlock()
			return
		}
		fired = true
		for _, o := range obls {
			if !o.app.Snapshot(o.op).Done {
				firedOpen = true
			}
		}
		mu.Unlock()
		doFault()
	})
	mu.Lock()
	for i := 0; i < c.NA; i++ {
		id := fmt.Sprintf("c23b-%d-a%d", idx, i)
		obls = append(obls, &obl{"A", id, appA.Send(ctx, refAB, "B", id), appA})
	}
	for i := 0; i < c.NB; i++ {
		id := fmt.Sprintf("c23b-%d-b%d", idx, i)
		obls = append(obls, &obl{"B", id, appB.Send(ctx, refBA, "A", id), appB})
	}
	mu.Unlock()

	if !quiesce("after sends") {
		r.Case(sig, false)
		return
	}
	mu.Lock()
	late := !fired && c.Kind != "none"
	if late {
		fired = true
	}
	mu.Unlock()
	if late {
		doFault()
		if !quiesce("after late fault") {
			r.Case(sig, false)
			return
		}
	}
	hb.SetHook(nil)
	ncross, order := hb.Crossings()
	r.Case(sig, c.Kind == "none" || firedOpen)
	r.Count("harnessB_cases", 1)
	r.Count("harnessB_crossings", ncross)
	r.Distinct("harnessB_crossing_orders", strings.Join(order, ";"))
	if firedOpen {
		r.Count("harnessB_fault_fired_with_open_send:"+c.Kind, 1)
	}

	// oracle at the quiescent state
	annA, annB := "", ""
	if cn := hb.Latest("A", ib.String()); cn != nil {
		annA = cn.LastAnnouncement()
	}
	if cn := hb.Latest("B", ia.String()); cn != nil {
		annB = cn.LastAnnouncement()
	}
	diag := func(from string) string {
		mine, other := annA, annB
		if from == "B" {
			mine, other = annB, annA
		}
		switch {
		case !strings.HasPrefix(mine, "opened"):
			return "server-never-announced-open-to-sender"
		case mine != other:
			return "server-announced-different-epochs"
		}
		return "both-told-same-epoch"
	}
	witness := func() map[string]any {
		taps := map[string]any{}
		for _, cn := range hb.Conns() {
			ended, e := cn.Ended()
			taps[fmt.Sprintf("conn%d %s", cn.ID, cn.Owner)] = map[string]any{"to_client": cn.Tap(), "ended": ended, "err": e}
		}
		return map[string]any{"case": c, "crossing_order": order, "sends_A": appA.Sends(), "sends_B": appB.Sends(),
			"last_announcement_to_A": annA, "last_announcement_to_B": annB, "taps": taps}
	}
	mu.Lock()
	defer mu.Unlock()
	for _, o := range obls {
		so := o.app.Snapshot(o.op)
		partner := appB
		if o.from == "B" {
			partner = appA
		}
		got, _ := partner.Received(o.id)
		switch {
		case !so.Done:
			d := diag(o.from)
			r.Violation("harnessB/send-parked-at-quiescence/"+c.Kind+"/"+d,
				fmt.Sprintf("%s's Send(%s) is parked although the system is quiescent after fault %s (both clients hold live registered streams; last announcement to A=%q, to B=%q; diagnosis %s)", o.from, o.id, c.Kind, annA, annB, d), witness())
			return
		case !so.OK:
			r.Violation("harnessB/send-failed/"+c.Kind, fmt.Sprintf("%s's Send(%s) failed: %s", o.from, o.id, so.Err), witness())
			return
		case !got:
			r.Count("send_ok_without_delivery(see C21)", 1)
		}
		r.Count("harnessB_sends_completed", 1)
	}
	r.Sample(map[string]any{"case": sig, "crossings": ncross})
}
