package fsub

// C27: honestly SIGNED inner messages with non-canonical protobuf encodings.
//
// The signed bytes of a publish are a PubMessageInner (data = 1, channel = 2,
// timestamp = 3). A remote peer is free to sign ANY byte string; what the
// message says is what a standard protobuf decode of those bytes says: for a
// scalar field that occurs several times the LAST occurrence wins, embedded
// messages are merged, unknown fields are skipped, field order is free and
// varints (tags, length prefixes) need not be minimal. The harness writes such
// encodings with its own wire writer, so it knows by construction which channel
// / data the signed message carries, and signs them with the key of the claimed
// sender under context+<that channel>. The oracle is unchanged: callbacks and
// forwarded copies only for authentic messages of a subscribed channel that
// equals the signed channel.

import (
	"fmt"
	"math/rand/v2"
	"strings"

	"github.com/aperturerobotics/bifrost/hash"
	"github.com/aperturerobotics/bifrost/peer"
	"github.com/aperturerobotics/bifrost/pubsub/util/pubmessage"
	timestamp "github.com/aperturerobotics/protobuf-go-lite/types/known/timestamppb"

	"verifharness/keys"
)

// c27ncClasses are the non-canonical classes (round-robin over the scripts).
var c27ncClasses = []string{
	"nc-dup-channel-first-subscribed-last-unsubscribed",
	"nc-dup-channel-first-unsubscribed-last-subscribed",
	"nc-dup-channel-both-subscribed",
	"nc-dup-channel-triple",
	"nc-dup-channel-first-empty",
	"nc-dup-channel-last-empty",
	"nc-dup-data",
	"nc-dup-timestamp",
	"nc-unknown-fields",
	"nc-reordered",
	"nc-nonminimal-varints",
	"nc-decoy-channel-inside-bytes",
	"nc-mixed",
	"nc-dup-channel-first-subscribed-last-unsubscribed", // the re-targeting shape twice per cycle
}

// wireItem is one field occurrence written by the harness.
type wireItem struct {
	kind string // "data", "channel", "ts", "unknown"
	val  []byte // payload of a length-delimited field
	num  int    // unknown: field number (>= 4)
	wt   int    // unknown: wire type 0, 1, 2 or 5
	u    uint64 // unknown: varint / fixed value
	// padTag / padLen: extra continuation bytes in the tag / length varint
	padTag, padLen int
}

// appendVarint writes v as a varint with pad superfluous continuation groups
// (pad = 0: the minimal encoding).
func appendVarint(b []byte, v uint64, pad int) []byte {
	// length of the minimal encoding
	l := 1
	for x := v; x >= 0x80; x >>= 7 {
		l++
	}
	if l+pad > 10 { // a varint has at most 10 bytes
		pad = 10 - l
	}
	for v >= 0x80 {
		b = append(b, byte(v)|0x80)
		v >>= 7
	}
	if pad == 0 {
		return append(b, byte(v))
	}
	b = append(b, byte(v)|0x80)
	for ; pad > 1; pad-- {
		b = append(b, 0x80)
	}
	return append(b, 0x00)
}

func encodeItems(items []wireItem) []byte {
	var b []byte
	for _, it := range items {
		num, wt := it.num, it.wt
		switch it.kind {
		case "data":
			num, wt = 1, 2
		case "channel":
			num, wt = 2, 2
		case "ts":
			num, wt = 3, 2
		}
		b = appendVarint(b, uint64(num)<<3|uint64(wt), it.padTag)
		switch wt {
		case 0:
			b = appendVarint(b, it.u, it.padLen)
		case 1:
			for i := 0; i < 8; i++ {
				b = append(b, byte(it.u>>(8*i)))
			}
		case 5:
			for i := 0; i < 4; i++ {
				b = append(b, byte(it.u>>(8*i)))
			}
		default:
			b = appendVarint(b, uint64(len(it.val)), it.padLen)
			b = append(b, it.val...)
		}
	}
	return b
}

// lastOf returns the value of the last occurrence of kind (what a standard
// decode reports for a scalar field).
func lastOf(items []wireItem, kind string) (string, bool) {
	for i := len(items) - 1; i >= 0; i-- {
		if items[i].kind == kind {
			return string(items[i].val), true
		}
	}
	return "", false
}

func (c *crafter) unknownItem() wireItem {
	it := wireItem{kind: "unknown", num: 4 + c.rng.IntN(40)}
	if c.rng.IntN(6) == 0 {
		it.num = 1000 + c.rng.IntN(100000) // multi-byte tag
	}
	switch c.rng.IntN(4) {
	case 0:
		it.wt, it.u = 0, c.rng.Uint64()>>c.rng.UintN(64)
	case 1:
		it.wt, it.u = 1, c.rng.Uint64()
	case 2:
		it.wt, it.u = 5, uint64(c.rng.Uint32())
	default:
		it.wt = 2
		it.val = make([]byte, c.rng.IntN(12))
		for i := range it.val {
			it.val[i] = byte(c.rng.UintN(256))
		}
	}
	return it
}

// otherSubbed returns a subscribed channel different from ch if there is one.
func (c *crafter) otherSubbed(ch string) string {
	for _, o := range c.subbed {
		if o != ch {
			return o
		}
	}
	return ch
}

// makeNC builds one honestly signed message with a non-canonical inner
// encoding. shadow (may be nil) is the ground-truth entry for a data value that
// is present in the signed bytes but overridden by a later occurrence.
func (c *crafter) makeNC(class string) (out *crafted, shadow *crafted) {
	c.n++
	k := c.signers[c.rng.IntN(len(c.signers))]
	ch := c.subbed[c.rng.IntN(len(c.subbed))]
	pay := fmt.Sprintf("%s/m%d/%s", c.tag, c.n, class)
	tsb, err := timestamp.Now().MarshalVT()
	if err != nil {
		panic(err)
	}
	data := wireItem{kind: "data", val: []byte(pay)}
	ts := wireItem{kind: "ts", val: tsb}
	chn := func(v string) wireItem { return wireItem{kind: "channel", val: []byte(v)} }
	// insertKeeping inserts extra items at PRNG positions, keeping the relative order of base
	insert := func(base []wireItem, extra ...wireItem) []wireItem {
		for _, e := range extra {
			at := c.rng.IntN(len(base) + 1)
			base = append(base[:at:at], append([]wireItem{e}, base[at:]...)...)
		}
		return base
	}
	// chans places the channel occurrences (in this order) among data and ts
	chans := func(vs ...string) []wireItem {
		var cs []wireItem
		for _, v := range vs {
			cs = append(cs, chn(v))
		}
		// positions: a PRNG merge of [data, ts] (possibly swapped) with cs
		rest := []wireItem{data, ts}
		if c.rng.IntN(2) == 0 {
			rest = []wireItem{ts, data}
		}
		var items []wireItem
		for len(cs) > 0 || len(rest) > 0 {
			if len(rest) == 0 || len(cs) > 0 && c.rng.IntN(2) == 0 {
				items, cs = append(items, cs[0]), cs[1:]
			} else {
				items, rest = append(items, rest[0]), rest[1:]
			}
		}
		return items
	}
	decoy := func(v string) wireItem {
		inner := encodeItems([]wireItem{chn(v)})
		return wireItem{kind: "unknown", num: 4 + c.rng.IntN(20), wt: 2, val: inner}
	}
	var items []wireItem
	switch class {
	case "nc-dup-channel-first-subscribed-last-unsubscribed":
		items = chans(ch, c.unsub)
	case "nc-dup-channel-first-unsubscribed-last-subscribed":
		items = chans(c.unsub, ch)
	case "nc-dup-channel-both-subscribed":
		items = chans(c.otherSubbed(ch), ch)
	case "nc-dup-channel-triple":
		if c.rng.IntN(2) == 0 {
			items = chans(ch, c.unsub, c.otherSubbed(ch))
		} else {
			items = chans(c.unsub, ch, c.unsub)
		}
	case "nc-dup-channel-first-empty":
		if c.rng.IntN(2) == 0 {
			items = chans("", ch)
		} else {
			items = chans("", c.unsub)
		}
	case "nc-dup-channel-last-empty":
		items = chans(ch, "")
	case "nc-dup-data":
		c.n++
		first := wireItem{kind: "data", val: []byte(fmt.Sprintf("%s/m%d/%s-overridden", c.tag, c.n, class))}
		items = chans(ch)
		// the overridden occurrence goes somewhere before the real one
		for i, it := range items {
			if it.kind == "data" {
				at := c.rng.IntN(i + 1)
				items = append(items[:at:at], append([]wireItem{first}, items[at:]...)...)
				break
			}
		}
		shadow = &crafted{Payload: string(first.val), Class: class + "-overridden-value", Channel: ch, From: k.ID.String()}
	case "nc-dup-timestamp":
		now := timestamp.Now()
		a, _ := (&timestamp.Timestamp{Seconds: now.Seconds}).MarshalVT()
		b, _ := (&timestamp.Timestamp{Nanos: now.Nanos}).MarshalVT()
		items = insert([]wireItem{data, chn(ch)}, wireItem{kind: "ts", val: a})
		items = append(items, wireItem{kind: "ts", val: b})
		if c.rng.IntN(2) == 0 {
			items = append(items, wireItem{kind: "ts", val: tsb})
		}
	case "nc-unknown-fields":
		items = chans(ch)
		for n := 1 + c.rng.IntN(4); n > 0; n-- {
			items = insert(items, c.unknownItem())
		}
	case "nc-reordered":
		items = []wireItem{ts, chn(ch), data}
		if c.rng.IntN(2) == 0 {
			items = []wireItem{chn(ch), ts, data}
		}
	case "nc-nonminimal-varints":
		items = chans(ch)
		for i := range items {
			items[i].padTag = c.rng.IntN(4)
			items[i].padLen = c.rng.IntN(4)
		}
		if items[0].padTag+items[0].padLen == 0 {
			items[0].padTag = 1
		}
	case "nc-decoy-channel-inside-bytes":
		// a field the decoder must skip as a whole contains the encoding of a channel field
		if c.rng.IntN(2) == 0 {
			items = append([]wireItem{decoy(ch)}, chans(c.unsub)...)
		} else {
			items = append([]wireItem{decoy(c.unsub)}, chans(ch)...)
		}
	case "nc-mixed":
		pool := []string{ch, c.unsub, c.otherSubbed(ch), ch, c.unsub}
		var vs []string
		for n := 2 + c.rng.IntN(3); n > 0; n-- {
			vs = append(vs, pool[c.rng.IntN(len(pool))])
		}
		items = chans(vs...)
		for n := c.rng.IntN(3); n > 0; n-- {
			items = insert(items, c.unknownItem())
		}
		if c.rng.IntN(2) == 0 {
			items = insert(items, decoy(pool[c.rng.IntN(len(pool))]))
		}
		for i := range items {
			if c.rng.IntN(3) == 0 {
				items[i].padTag = c.rng.IntN(3)
				items[i].padLen = c.rng.IntN(3)
			}
		}
	default:
		panic("unknown non-canonical class " + class)
	}
	// modifiers on the duplicate-channel shapes: the same history with unknown
	// fields in between / non-minimal varints on the channel occurrences
	if strings.HasPrefix(class, "nc-dup-channel") {
		switch c.rng.IntN(4) {
		case 0:
			items = insert(items, c.unknownItem())
		case 1:
			for i := range items {
				if items[i].kind == "channel" && c.rng.IntN(2) == 0 {
					items[i].padTag, items[i].padLen = c.rng.IntN(3), c.rng.IntN(3)
				}
			}
		}
	}
	raw := encodeItems(items)
	sigCh, _ := lastOf(items, "channel")
	sigData, _ := lastOf(items, "data")
	// self-test of the wire writer against the (trusted) protobuf codec: a
	// standard decode must read what the writer meant
	chk := &pubmessage.PubMessageInner{}
	if err := chk.UnmarshalVT(raw); err != nil || chk.GetChannel() != sigCh || string(chk.GetData()) != sigData {
		panic(fmt.Sprintf("harness wire writer disagrees with a standard decode: class %s err %v channel %q/%q data %q/%q", class, err, chk.GetChannel(), sigCh, chk.GetData(), sigData))
	}
	out = &crafted{Payload: sigData, Class: class, Channel: sigCh, From: k.ID.String()}
	out.msg = signRaw(k, refPubCtx+sigCh, hash.HashType_HashType_SHA256, raw)
	// authentic for the signed channel; a message without a channel is invalid
	out.Honest = sigCh != ""
	if out.Honest {
		c.honest = append(c.honest, out)
	}
	return out, shadow
}

func signRaw(k *keys.Identity, ctx string, ht hash.HashType, raw []byte) *peer.SignedMsg {
	m, err := peer.NewSignedMsg(ctx, k.Priv, ht, raw)
	if err != nil {
		panic(err)
	}
	return m
}

// spliceNC adds the non-canonical entries of a script: 1-3 entries (the class
// idx mod len first), each in a packet of its own or next to an honest message,
// at PRNG positions. It uses its own PRNG stream so that the rest of the script
// list is what it was.
func spliceNC(rng *rand.Rand, s *c27script) {
	n := 1 + rng.IntN(3)
	for k := 0; k < n; k++ {
		class := c27ncClasses[rng.IntN(len(c27ncClasses))]
		if k == 0 {
			class = c27ncClasses[s.Idx%len(c27ncClasses)]
		}
		pk := []string{class}
		switch rng.IntN(4) {
		case 0:
			pk = []string{"honest", class}
		case 1:
			pk = []string{class, "honest"}
		}
		// never after the final "stream stays live" packet
		at := rng.IntN(len(s.Packets))
		s.Packets = append(s.Packets[:at:at], append([][]string{pk}, s.Packets[at:]...)...)
		s.NC++
	}
}
