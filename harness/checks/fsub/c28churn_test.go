package fsub

// C28 configuration kinds "churn" and "lifecycle".
//
// churn: link CHURN with changing link ids on live meshes. The link of an edge
// is torn down (both directions of its stream closed: the sessions on both ends
// end) and re-established, 1-3 times, under a NEW link id (or, sometimes, the
// old one): break-before-make with or without exact quiescence (and publishes
// on the reduced graph) in between, make-before-break (the new link comes up
// next to the old one, then the old one is lost), or either of them from a
// second goroutine while a burst of publishes is in flight. The routers keep
// whatever they remember about the lost links. Finally 30-44 publishes, mostly
// from the ends of the churned edges, must be delivered exactly once everywhere
// (so that a per-message coin - map iteration order - cannot hide a loss).
//
// lifecycle: subscription LIFECYCLES on live meshes: a node (publisher, relay or
// leaf) releases its last subscription to a channel, the mesh becomes exactly
// quiescent (the unsubscribe was announced), and the node subscribes to the SAME
// channel again; 1-3 cycles on 1-2 nodes, also without quiescence in between.
// After every step the neighbour views and exact delivery (with the node
// unsubscribed: nothing through it) are judged.

import (
	"math/rand/v2"
)

func churnGraph(rng *rand.Rand) graph {
	sg := smallGraphs()
	gs := []graph{line(2), line(2), line(3), complete(3), line(4), star(4), ring(4), sg[6], line(3)}
	g := gs[rng.IntN(len(gs))]
	g.edges = append([][2]int(nil), g.edges...)
	relabel(rng, &g)
	return g
}

func genC28Churn(rng *rand.Rand, idx int, yield bool, finalLo int) *c28cfg {
	c := &c28cfg{Idx: idx, Kind: "churn", Yield: yield, Chans: []string{"a"}}
	c.G = churnGraph(rng)
	c.G.name = "churn-" + c.G.name
	subd := make([]bool, c.G.n)
	skip := -1
	if c.G.n >= 3 && rng.IntN(5) == 0 {
		skip = rng.IntN(c.G.n) // one node that does not subscribe (and so does not relay)
	}
	var r0 roundSpec
	for v := 0; v < c.G.n; v++ {
		r0.Events = append(r0.Events, event{Kind: evExec, Node: v})
		if v == skip {
			continue
		}
		subd[v] = true
		r0.Events = append(r0.Events, event{Kind: evSub, Sub: len(c.Subs)})
		c.Subs = append(c.Subs, subSpec{Node: v, Ch: "a", Handlers: 1 + rng.IntN(2)})
	}
	for i := range c.G.edges {
		r0.Events = append(r0.Events, event{Kind: evLink, Edge: i, AFirst: rng.IntN(2) == 0})
	}
	rng.Shuffle(len(r0.Events), func(i, j int) { r0.Events[i], r0.Events[j] = r0.Events[j], r0.Events[i] })
	pubs := func(n int, pref []int) []pubSpec {
		var ps []pubSpec
		for k := 0; k < n; k++ {
			o := rng.IntN(c.G.n)
			if len(pref) > 0 && rng.IntN(4) != 0 {
				o = pref[rng.IntN(len(pref))]
			}
			ps = append(ps, pubSpec{Origin: o, Ch: "a", Direct: !subd[o] || rng.IntN(8) == 0})
		}
		return ps
	}
	r0.Pubs = pubs(1+rng.IntN(3), nil)
	r0.Concurrent = rng.IntN(2) == 0
	c.Rounds = append(c.Rounds, r0)
	var ends []int // ends of the churned edges
	modes := []string{"bbm", "bbm-quiesced", "bbm-pubs", "mbb", "mbb-quiesced", "bbm-same-id", "during-bbm", "during-mbb"}
	for cyc, n := 0, 1+rng.IntN(3); cyc < n; cyc++ {
		ei := rng.IntN(len(c.G.edges))
		if cyc == 0 || rng.IntN(3) != 0 {
			ei = 0 // mostly the same edge again and again
		}
		ed := c.G.edges[ei]
		ends = append(ends, ed[0], ed[1])
		af := rng.IntN(2) == 0
		mode := modes[rng.IntN(len(modes))]
		if cyc == 0 {
			mode = modes[(idx/2)%len(modes)] // every mode shows up regularly as the first one
		}
		few := func() []pubSpec { return pubs(2+rng.IntN(4), []int{ed[0], ed[1]}) }
		switch mode {
		case "bbm":
			c.Rounds = append(c.Rounds, roundSpec{Events: []event{{Kind: evUnlink, Edge: ei}, {Kind: evLink, Edge: ei, AFirst: af}}, Pubs: few()})
		case "bbm-quiesced":
			c.Rounds = append(c.Rounds, roundSpec{Events: []event{{Kind: evUnlink, Edge: ei}, {Kind: evBarrier}, {Kind: evLink, Edge: ei, AFirst: af}}, Pubs: few()})
		case "bbm-pubs": // publishes on the reduced graph in between
			c.Rounds = append(c.Rounds,
				roundSpec{Events: []event{{Kind: evUnlink, Edge: ei}}, Pubs: few()},
				roundSpec{Events: []event{{Kind: evLink, Edge: ei, AFirst: af}}, Pubs: few()})
		case "mbb":
			c.Rounds = append(c.Rounds, roundSpec{Events: []event{{Kind: evLink, Edge: ei, AFirst: af}, {Kind: evCloseOld, Edge: ei}}, Pubs: few()})
		case "mbb-quiesced":
			c.Rounds = append(c.Rounds,
				roundSpec{Events: []event{{Kind: evLink, Edge: ei, AFirst: af}}, Pubs: few()},
				roundSpec{Events: []event{{Kind: evCloseOld, Edge: ei}}, Pubs: few()})
		case "bbm-same-id":
			c.Rounds = append(c.Rounds, roundSpec{Events: []event{{Kind: evUnlink, Edge: ei}, {Kind: evBarrier}, {Kind: evLink, Edge: ei, AFirst: af, SameUUID: true}}, Pubs: few()})
		case "during-bbm":
			c.Rounds = append(c.Rounds, roundSpec{During: []event{{Kind: evUnlink, Edge: ei}, {Kind: evLink, Edge: ei, AFirst: af}},
				Pubs: pubs(12+rng.IntN(13), []int{ed[0], ed[1]}), Concurrent: rng.IntN(2) == 0})
		default: // during-mbb
			c.Rounds = append(c.Rounds, roundSpec{During: []event{{Kind: evLink, Edge: ei, AFirst: af}, {Kind: evCloseOld, Edge: ei}},
				Pubs: pubs(12+rng.IntN(13), []int{ed[0], ed[1]}), Concurrent: rng.IntN(2) == 0})
		}
	}
	// the verdict round: many publishes, mostly out of the ends of the churned edges
	c.Rounds = append(c.Rounds, roundSpec{Pubs: pubs(finalLo+rng.IntN(15), ends), Concurrent: rng.IntN(3) == 0})
	assignKeys(rng, c, []string{"node", "node", "node", "foreign", "mixed"}[rng.IntN(5)])
	return c
}

func genC28Life(rng *rand.Rand, idx int, yield bool) *c28cfg {
	c := &c28cfg{Idx: idx, Kind: "lifecycle", Yield: yield, Chans: []string{"a"}}
	c.G = churnGraph(rng)
	c.G.name = "life-" + c.G.name
	withB := rng.IntN(3) == 0 // the cycling nodes keep another channel alive all the time
	if withB {
		c.Chans = append(c.Chans, "b")
	}
	// live[v] = indexes of v's live subscriptions to "a"
	live := make([][]int, c.G.n)
	liveB := make([]bool, c.G.n)
	var r0 roundSpec
	addSub := func(rs *roundSpec, v int, ch string) {
		rs.Events = append(rs.Events, event{Kind: evSub, Sub: len(c.Subs)})
		if ch == "a" {
			live[v] = append(live[v], len(c.Subs))
		} else {
			liveB[v] = true
		}
		c.Subs = append(c.Subs, subSpec{Node: v, Ch: ch, Handlers: 1 + rng.IntN(2)})
	}
	for v := 0; v < c.G.n; v++ {
		r0.Events = append(r0.Events, event{Kind: evExec, Node: v})
		addSub(&r0, v, "a")
		if rng.IntN(6) == 0 {
			addSub(&r0, v, "a") // two subscriptions: the channel goes when the LAST one is released
		}
		if withB && rng.IntN(2) == 0 {
			addSub(&r0, v, "b")
		}
	}
	for i := range c.G.edges {
		r0.Events = append(r0.Events, event{Kind: evLink, Edge: i, AFirst: rng.IntN(2) == 0})
	}
	rng.Shuffle(len(r0.Events), func(i, j int) { r0.Events[i], r0.Events[j] = r0.Events[j], r0.Events[i] })
	pubs := func(n int) []pubSpec {
		var ps []pubSpec
		for k := 0; k < n; k++ {
			o := rng.IntN(c.G.n)
			ch := "a"
			if withB && rng.IntN(4) == 0 {
				ch = "b"
			}
			has := ch == "a" && len(live[o]) > 0 || ch == "b" && liveB[o]
			ps = append(ps, pubSpec{Origin: o, Ch: ch, Direct: !has || rng.IntN(8) == 0})
		}
		return ps
	}
	r0.Pubs = pubs(1 + rng.IntN(3))
	c.Rounds = append(c.Rounds, r0)
	release := func(rs *roundSpec, v int) {
		for _, si := range live[v] {
			rs.Events = append(rs.Events, event{Kind: evRelease, Sub: si})
		}
		live[v] = nil
	}
	modes := []string{"quiesced-with-publishes", "barrier", "barrier", "fast"}
	nodes := rng.Perm(c.G.n)[:1+rng.IntN(min(2, c.G.n))]
	for cyc, n := 0, 1+rng.IntN(3); cyc < n; cyc++ {
		for _, v := range nodes {
			mode := modes[rng.IntN(len(modes))]
			if cyc == 0 {
				mode = modes[idx%3] // never "fast" first
			}
			switch mode {
			case "quiesced-with-publishes":
				var a, b roundSpec
				release(&a, v)
				a.Pubs = pubs(1 + rng.IntN(3))
				c.Rounds = append(c.Rounds, a)
				addSub(&b, v, "a")
				b.Pubs = pubs(2 + rng.IntN(3))
				c.Rounds = append(c.Rounds, b)
			case "barrier":
				var a roundSpec
				release(&a, v)
				a.Events = append(a.Events, event{Kind: evBarrier})
				addSub(&a, v, "a")
				a.Pubs = pubs(2 + rng.IntN(3))
				c.Rounds = append(c.Rounds, a)
			default: // released and re-subscribed at once
				var a roundSpec
				release(&a, v)
				addSub(&a, v, "a")
				a.Pubs = pubs(2 + rng.IntN(3))
				c.Rounds = append(c.Rounds, a)
			}
		}
	}
	// one publish from every node at the end
	var fin roundSpec
	for v := 0; v < c.G.n; v++ {
		fin.Pubs = append(fin.Pubs, pubSpec{Origin: v, Ch: "a", Direct: len(live[v]) == 0})
	}
	fin.Concurrent = rng.IntN(2) == 0
	c.Rounds = append(c.Rounds, fin)
	assignKeys(rng, c, []string{"node", "node", "node", "foreign", "mixed"}[rng.IntN(5)])
	return c
}
