package fsub

import (
	"context"
	"fmt"
	"math/rand/v2"
	"runtime"
	"strings"
	"sync"
	"sync/atomic"
	"testing"
	"time"

	"github.com/aperturerobotics/bifrost/hash"
	"github.com/aperturerobotics/bifrost/link"
	"github.com/aperturerobotics/bifrost/peer"
	"github.com/aperturerobotics/bifrost/protocol"
	"github.com/aperturerobotics/bifrost/pubsub"
	pubsub_controller "github.com/aperturerobotics/bifrost/pubsub/controller"
	"github.com/aperturerobotics/bifrost/pubsub/floodsub"
	"github.com/aperturerobotics/bifrost/pubsub/util/pubmessage"
	"github.com/aperturerobotics/controllerbus/controller"
	"github.com/blang/semver/v4"
	"github.com/sirupsen/logrus"

	"verifharness/g9mesh"
	"verifharness/keys"
	"verifharness/vf"
)

// ---------- (a) opener rule ----------

const ctrlPkg = "bifrost/pubsub/controller."

type idPair struct {
	Kind string
	X, Y peer.ID
}

func genPairs(rng *rand.Rand, pool []*keys.Identity, n int) []idPair {
	var out []idPair
	rb := func(k int) []byte {
		b := make([]byte, k)
		for i := range b {
			b[i] = byte(rng.UintN(256))
		}
		return b
	}
	for len(out) < n {
		var p idPair
		switch k := len(out) % 8; k {
		case 0, 1, 2, 3:
			a, b := rng.IntN(len(pool)), rng.IntN(len(pool))
			if a == b {
				continue
			}
			p = idPair{"ed25519", pool[a].ID, pool[b].ID}
		case 4: // same bytes up to the last byte
			base := rb(37)
			x, y := append(append([]byte(nil), base...), byte(rng.UintN(256))), append(append([]byte(nil), base...), byte(rng.UintN(256)))
			p = idPair{"shared-prefix", peer.ID(x), peer.ID(y)}
		case 5: // one id is a strict prefix of the other
			base := rb(1 + rng.IntN(38))
			p = idPair{"prefix-extension", peer.ID(base), peer.ID(append(append([]byte(nil), base...), byte(rng.UintN(2))))}
		case 6: // leading zero bytes (b58 '1' runs)
			base := rb(1 + rng.IntN(8))
			z := make([]byte, 1+rng.IntN(3))
			p = idPair{"leading-zeros", peer.ID(append(append([]byte(nil), z...), base...)), peer.ID(append(append([]byte(nil), z[1:]...), base...))}
		default: // a real id against a one-byte mutation of it
			a := pool[rng.IntN(len(pool))].ID
			b := []byte(a)
			b[rng.IntN(len(b))] ^= 1 << rng.UintN(8)
			p = idPair{"one-bit", a, peer.ID(b)}
		}
		if p.X == p.Y || len(p.X) == 0 || len(p.Y) == 0 {
			continue
		}
		if rng.IntN(2) == 0 {
			p.X, p.Y = p.Y, p.X
		}
		out = append(out, p)
	}
	return out
}

type ctrlSide struct {
	c    *pubsub_controller.Controller
	stub *g9mesh.StubPubSub
	di   *g9mesh.FakeDI
}

func newCtrlSide(ctx context.Context, env *g9mesh.Env, le *logrus.Entry, owner int, wg *sync.WaitGroup) (*ctrlSide, error) {
	s := &ctrlSide{stub: &g9mesh.StubPubSub{}}
	s.c = pubsub_controller.NewController(le, nil, controller.NewInfo("verif/pubsub", semver.MustParse("0.0.1"), "verif"), "", floodsub.FloodSubID,
		func(ctx context.Context, le *logrus.Entry, p peer.Peer, h pubsub.PubSubHandler) (pubsub.PubSub, error) {
			return s.stub, nil
		})
	wg.Add(1)
	go func() {
		defer wg.Done()
		env.W.Register(owner)
		_ = s.c.Execute(ctx)
	}()
	// the Execute loop is up (it has published its router) before any link
	// value is delivered: from here on the goroutine is inside Controller.Execute
	// and visible to the goroutine-state conditions
	if _, err := s.c.GetPubSub(ctx); err != nil {
		return nil, err
	}
	s.di = &g9mesh.FakeDI{Ctx: ctx, Dir: link.NewEstablishLinkWithPeer("", "")}
	if _, err := s.c.HandleDirective(ctx, s.di); err != nil {
		return nil, err
	}
	if len(s.di.Handlers()) != 1 {
		return nil, fmt.Errorf("controller did not reference the EstablishLinkWithPeer directive")
	}
	return s, nil
}

// ctrlQuiescent: every goroutine inside the pubsub controller package is the
// Execute loop parked in its select (all incoming links consumed) or the stub
// router; no link tracker is alive.
func ctrlQuiescent(env *g9mesh.Env) (bool, string) {
	loops := 0
	for _, g := range env.W.Fresh().Gs {
		f, ok := g.InnermostWith(ctrlPkg)
		if !ok {
			continue
		}
		if g.Has("g9mesh.(*StubPubSub).Execute") {
			continue
		}
		if strings.HasSuffix(f.Fn, "(*Controller).Execute") && g.State == "select" {
			loops++
			continue
		}
		return false, g.String()
	}
	// both controllers of the batch must have been SEEN parked (a loop that is
	// not in the snapshot at all has not consumed anything)
	if loops < 2 {
		return false, fmt.Sprintf("only %d controller Execute loops in the snapshot", loops)
	}
	return true, ""
}

func runC29a(r *vf.Run, env *g9mesh.Env, pairs []idPair, batch int, jr *journal) {
	le := env.LE
	for lo := 0; lo < len(pairs); lo += batch {
		hi := min(lo+batch, len(pairs))
		jr.begin(-1, fmt.Sprintf("opener rule batch pairs %d..%d", lo, hi))
		ctx, cancel := context.WithCancel(context.Background())
		var wg sync.WaitGroup
		owner := env.NewOwner()
		A, errA := newCtrlSide(ctx, env, le, owner, &wg)
		B, errB := newCtrlSide(ctx, env, le, owner, &wg)
		if errA != nil || errB != nil {
			r.Inconclusive(fmt.Sprintf("controller setup failed: %v %v", errA, errB))
			cancel()
			wg.Wait()
			return
		}
		clk := &g9mesh.Clock{}
		onOpen := func(ctx context.Context, l *g9mesh.FakeLink, pid protocol.ID) (link.MountedStream, error) {
			d := g9mesh.NewDuplex(clk, "ctl", 0, 1)
			return &g9mesh.FakeMStream{Strm: d.EndA(), Proto: pid, Peer: l.Remote, Lnk: l}, nil
		}
		la := make([]*g9mesh.FakeLink, hi-lo)
		lb := make([]*g9mesh.FakeLink, hi-lo)
		for i := range la {
			p := pairs[lo+i]
			la[i] = &g9mesh.FakeLink{UUID: uint64(lo + i + 1), Local: p.X, Remote: p.Y, OnOpen: onOpen}
			lb[i] = &g9mesh.FakeLink{UUID: uint64(lo + i + 1), Local: p.Y, Remote: p.X, OnOpen: onOpen}
		}
		var dw sync.WaitGroup
		dw.Add(2)
		go func() {
			defer dw.Done()
			h := A.di.Handlers()[0]
			for i, l := range la {
				h.HandleValueAdded(A.di, &g9mesh.FakeValue{ID: uint32(i + 1), Val: l})
			}
		}()
		go func() {
			defer dw.Done()
			h := B.di.Handlers()[0]
			for i := len(lb) - 1; i >= 0; i-- {
				h.HandleValueAdded(B.di, &g9mesh.FakeValue{ID: uint32(i + 1), Val: lb[i]})
			}
		}()
		dw.Wait()
		deadline := time.Now().Add(watchdog)
		quiet := false
		var busy string
		for !quiet {
			if quiet, busy = ctrlQuiescent(env); quiet {
				break
			}
			if time.Now().After(deadline) {
				break
			}
			time.Sleep(2 * time.Millisecond)
		}
		if !quiet {
			r.Inconclusive("C29a: controllers not quiescent within watchdog: " + busy)
		} else {
			for i := range la {
				p := pairs[lo+i]
				oa, ob := la[i].Opens.Load(), lb[i].Opens.Load()
				sig := fmt.Sprintf("pair|%s|%x|%x", p.Kind, string(p.X), string(p.Y))
				r.Count("pairs_"+p.Kind, 1)
				r.Count("open_calls", int(oa+ob))
				wit := map[string]any{"kind": p.Kind, "x": p.X.String(), "y": p.Y.String(), "x_hex": fmt.Sprintf("%x", string(p.X)), "y_hex": fmt.Sprintf("%x", string(p.Y)), "opens_by_x_side": oa, "opens_by_y_side": ob}
				switch {
				case oa+ob == 1:
					if oa == 1 {
						r.Count("opened_by_first_side", 1)
					} else {
						r.Count("opened_by_second_side", 1)
					}
					r.Case(sig, true)
				case oa >= 1 && ob >= 1:
					r.Violation("pubsub-controller/both-sides-open/"+p.Kind, fmt.Sprintf("both ends of one link between %s and %s opened the pubsub stream", p.X.String(), p.Y.String()), wit)
					r.Case(sig, false)
				case oa+ob == 0:
					r.Violation("pubsub-controller/no-side-opens/"+p.Kind, fmt.Sprintf("quiescent controllers: neither end of the link between %s and %s opened the pubsub stream", p.X.String(), p.Y.String()), wit)
					r.Case(sig, false)
				default:
					r.Violation("pubsub-controller/opened-twice/"+p.Kind, "one end opened the stream more than once for a single link value", wit)
					r.Case(sig, false)
				}
				if i < 2 && lo == 0 {
					r.Sample(wit)
				}
			}
			na, nb := len(A.stub.Recorded()), len(B.stub.Recorded())
			r.Count("router_streams_added", na+nb)
		}
		cancel()
		wg.Wait()
		jr.end(-1)
	}
}

// ---------- (b), (c) release semantics ----------

type c29op struct {
	Kind string // exec, sub, addh, rmh, rel, peer
	Ch   string
	Sub  int // index into the history's subscriptions (creation order)
	H    int // index into the history's handlers (creation order)
	Feed int // messages written by the neighbours concurrently with the op
	Gap  string
}

func (o c29op) String() string {
	return fmt.Sprintf("%s(%s s%d h%d feed%d)%s", o.Kind, o.Ch, o.Sub, o.H, o.Feed, map[string]string{"none": "", "yield": "~", "quiesce": "|"}[o.Gap])
}

type c29hist struct {
	Idx int
	Ops []c29op
}

func (h *c29hist) desc() string { return fmt.Sprint(h.Ops) }

var c29chans = []string{"c1", "c2", "c3"}

func genC29(rng *rand.Rand, idx int) *c29hist {
	h := &c29hist{Idx: idx}
	type sst struct {
		live bool
		ch   string
	}
	var subs []sst
	type hst struct {
		live bool
		sub  int
	}
	var hs []hst
	execAt := rng.IntN(4)
	n := 8 + rng.IntN(14)
	execd := false
	peers := 0
	burst := idx%5 == 0 // histories made of fast bursts: no gaps at all between most operations
	for i := 0; len(h.Ops) < n; i++ {
		if !execd && len(h.Ops) >= execAt {
			h.Ops = append(h.Ops, c29op{Kind: "exec", Gap: "none"})
			execd = true
			continue
		}
		var op c29op
		var liveSubs, liveH []int
		for k, s := range subs {
			if s.live {
				liveSubs = append(liveSubs, k)
			}
		}
		for k, x := range hs {
			if x.live && subs[x.sub].live {
				liveH = append(liveH, k)
			}
		}
		switch k := rng.IntN(10); {
		case k < 3 || len(liveSubs) == 0 && k < 7:
			op = c29op{Kind: "sub", Ch: c29chans[rng.IntN(len(c29chans))], Sub: len(subs), H: len(hs)}
			subs = append(subs, sst{true, op.Ch})
			hs = append(hs, hst{true, op.Sub})
		case k < 4 && len(liveSubs) > 0:
			op = c29op{Kind: "addh", Sub: liveSubs[rng.IntN(len(liveSubs))], H: len(hs)}
			op.Ch = subs[op.Sub].ch
			hs = append(hs, hst{true, op.Sub})
		case k < 5 && len(liveH) > 0:
			op = c29op{Kind: "rmh", H: liveH[rng.IntN(len(liveH))]}
			op.Sub = hs[op.H].sub
			op.Ch = subs[op.Sub].ch
			hs[op.H].live = false
		case k < 8 && len(liveSubs) > 0:
			op = c29op{Kind: "rel", Sub: liveSubs[rng.IntN(len(liveSubs))]}
			op.Ch = subs[op.Sub].ch
			subs[op.Sub].live = false
		default:
			if peers >= 4 {
				continue
			}
			op = c29op{Kind: "peer"}
			peers++
		}
		if peers > 0 {
			op.Feed = rng.IntN(7)
		}
		switch g := rng.IntN(8); {
		case burst && g < 7, g < 4:
			op.Gap = "none"
		case g < 6:
			op.Gap = "yield"
		default:
			op.Gap = "quiesce"
		}
		if !execd && op.Gap == "quiesce" {
			op.Gap = "none"
		}
		h.Ops = append(h.Ops, op)
	}
	if !execd {
		h.Ops = append(h.Ops, c29op{Kind: "exec", Gap: "none"})
	}
	return h
}

type c29sub struct {
	ch         string
	h          pubsub.Subscription
	releasedAt int64
}

type c29handler struct {
	sub       int
	remove    func()
	removedAt int64
}

func runC29bc(r *vf.Run, env *g9mesh.Env, pool []*keys.Identity, h *c29hist, jr *journal) {
	jr.begin(h.Idx, h.desc())
	defer jr.end(h.Idx)
	rng := rand.New(rand.NewPCG(uint64(h.Idx)+77, r.Seed()))
	perm := rng.Perm(len(pool))
	V, F := pool[perm[0]], pool[perm[1]]
	m, err := g9mesh.NewMesh(env, []*keys.Identity{V})
	if err != nil {
		r.Inconclusive("NewMesh: " + err.Error())
		return
	}
	defer m.Close()
	m.Adopt()
	node := m.Nodes[0]
	var subs []*c29sub
	var hands []*c29handler
	type endpoint struct {
		d   *g9mesh.Duplex
		end *g9mesh.End
	}
	var eps []endpoint
	nfeed := 0
	fed := map[string]int{} // channel -> messages fed
	wit := func(extra map[string]any) map[string]any {
		w := map[string]any{"history": h.desc(), "case": h.Idx}
		for k, v := range extra {
			w[k] = v
		}
		return w
	}
	mkPacket := func(ch string) *floodsub.Packet {
		nfeed++
		pay := fmt.Sprintf("h%d/f%d/%s", h.Idx, nfeed, ch)
		msg, _, err := pubmessage.NewPubMessage(ch, F.Priv, hash.HashType_HashType_SHA256, []byte(pay))
		if err != nil {
			panic(err)
		}
		fed[ch]++
		return &floodsub.Packet{Publish: []*peer.SignedMsg{msg}}
	}
	live := func() map[string]bool {
		l := map[string]bool{}
		for _, s := range subs {
			if s.releasedAt == 0 {
				l[s.ch] = true
			}
		}
		return l
	}
	quiesce := func(stage string) bool {
		ok, busy := m.WaitQuiescent(watchdog)
		r.Count("quiescence_waits", 1)
		if !ok {
			r.Inconclusive(fmt.Sprintf("C29 case %d: no quiescence at %s (%s)", h.Idx, stage, busy))
		}
		return ok
	}
	// (c) at a quiescent point
	checkViews := func(stage string) {
		want := live()
		for i, ep := range eps {
			got := replayView(ep.d.AB.Frames())
			r.Count("neighbour_views_checked", 1)
			r.Distinct("view_states", setStr(want)+"/"+setStr(got))
			for ch := range got {
				if !want[ch] {
					r.Violation("floodsub/peer-not-told-unsubscribe",
						fmt.Sprintf("quiescent node (%s): neighbour %d was told the node wants channel %q and never told otherwise, but the node has no live subscription to it (live=%s)", stage, i, ch, setStr(want)),
						wit(map[string]any{"neighbour": i, "view": setStr(got), "live": setStr(want), "subscription_frames": subFrames(ep.d.AB.Frames())}))
				}
			}
			for ch := range want {
				if !got[ch] {
					r.Violation("floodsub/peer-not-told-subscribe",
						fmt.Sprintf("quiescent node (%s): neighbour %d was never told about live channel %q (view=%s)", stage, i, ch, setStr(got)),
						wit(map[string]any{"neighbour": i, "view": setStr(got), "live": setStr(want), "subscription_frames": subFrames(ep.d.AB.Frames())}))
				}
			}
		}
	}
	execd := false
	for oi, op := range h.Ops {
		// traffic concurrent with the operation
		var wg sync.WaitGroup
		if op.Feed > 0 && len(eps) > 0 {
			type job struct {
				end *g9mesh.End
				pkt *floodsub.Packet
			}
			jobs := make([]job, op.Feed)
			for k := range jobs {
				ch := c29chans[rng.IntN(len(c29chans))]
				if op.Ch != "" && rng.IntN(2) == 0 {
					ch = op.Ch
				}
				jobs[k] = job{eps[rng.IntN(len(eps))].end, mkPacket(ch)}
			}
			nw := 1 + rng.IntN(2)
			for w := 0; w < nw; w++ {
				w := w
				wg.Add(1)
				m.Go(func() {
					defer wg.Done()
					for k := w; k < len(jobs); k += nw {
						_ = jobs[k].end.WritePacket(jobs[k].pkt)
					}
				})
			}
			r.Count("messages_fed", op.Feed)
		}
		switch op.Kind {
		case "exec":
			node.Exec()
			execd = true
		case "sub":
			sh, err := node.FS.AddSubscription(m.Ctx, V.Priv, op.Ch)
			if err != nil {
				r.Inconclusive("AddSubscription: " + err.Error())
				wg.Wait()
				return
			}
			subs = append(subs, &c29sub{ch: op.Ch, h: sh})
			rm := sh.AddHandler(m.Handler(0, op.Sub, op.H, op.Ch))
			hands = append(hands, &c29handler{sub: op.Sub, remove: rm})
		case "addh":
			rm := subs[op.Sub].h.AddHandler(m.Handler(0, op.Sub, op.H, op.Ch))
			hands = append(hands, &c29handler{sub: op.Sub, remove: rm})
		case "rmh":
			hands[op.H].remove()
			hands[op.H].removedAt = m.Clk.Tick()
			r.Count("handler_removals", 1)
		case "rel":
			subs[op.Sub].h.Release()
			subs[op.Sub].releasedAt = m.Clk.Tick()
			r.Count("releases", 1)
		case "peer":
			d, end := m.Attach(0, pool[perm[2+len(eps)]].ID, rng.IntN(2) == 0)
			eps = append(eps, endpoint{d, end})
		}
		wg.Wait()
		switch op.Gap {
		case "yield":
			for k := rng.IntN(40); k > 0; k-- {
				runtime.Gosched()
			}
		case "quiesce":
			if execd {
				if !quiesce(fmt.Sprintf("gap after op %d", oi)) {
					r.Case(h.desc(), false)
					return
				}
				checkViews(fmt.Sprintf("after op %d %s", oi, op))
			}
		}
	}
	if !quiesce("end of history") {
		r.Case(h.desc(), false)
		return
	}
	checkViews("end of history")
	// release everything that is left, then feed every channel once more
	for _, s := range subs {
		if s.releasedAt == 0 {
			s.h.Release()
			s.releasedAt = m.Clk.Tick()
		}
	}
	if !quiesce("after final releases") {
		r.Case(h.desc(), false)
		return
	}
	checkViews("after releasing every subscription")
	for _, ep := range eps {
		for _, ch := range c29chans {
			_ = ep.end.WritePacket(mkPacket(ch))
		}
	}
	if !quiesce("after final feed") {
		r.Case(h.desc(), false)
		return
	}
	// (b) callbacks against the release / removal log
	dl := m.Deliveries()
	for _, d := range dl {
		hd := hands[d.Handler]
		s := subs[hd.sub]
		r.Count("handler_callbacks", 1)
		if !strings.HasSuffix(d.Data, "/"+s.ch) {
			r.Violation("floodsub/handed-wrong-channel", fmt.Sprintf("handler of %q was handed %q", s.ch, d.Data), wit(nil))
		}
		if hd.removedAt != 0 && d.T > hd.removedAt {
			r.Violation("floodsub/callback-after-handler-removed",
				fmt.Sprintf("handler %d (channel %s) was invoked at logical time %d, after its remove function had returned at %d", d.Handler, s.ch, d.T, hd.removedAt), wit(map[string]any{"delivery": d}))
		}
		if s.releasedAt != 0 && d.T > s.releasedAt {
			r.Violation("floodsub/callback-after-release",
				fmt.Sprintf("handler %d of subscription %d (channel %s) was invoked at logical time %d, after Release had returned at %d", d.Handler, hd.sub, s.ch, d.T, s.releasedAt), wit(map[string]any{"delivery": d}))
		}
	}
	r.Distinct("histories", h.desc())
	nontrivial := len(dl) > 0 && len(eps) > 0 && len(subs) > 0
	r.Case(h.desc(), nontrivial)
	if nontrivial {
		r.Count("histories_nontrivial", 1)
	}
	r.Count("histories", 1)
	r.Sample(map[string]any{"case": h.Idx, "history": h.desc(), "callbacks": len(dl), "neighbours": len(eps)})
}

// ---------- (d) scripted overlap of release / removal with a delivery in progress ----------

// c29act is one operation started while a delivery to the round's target
// subscription is blocked inside a handler.
type c29act struct {
	Kind string // "rel" (Release of subscription Sub) or "rmh" (remove func of handler H)
	Sub  int
	H    int
}

func (a c29act) String() string {
	if a.Kind == "rel" {
		return fmt.Sprintf("rel(s%d)", a.Sub)
	}
	return fmt.Sprintf("rmh(s%d h%d)", a.Sub, a.H)
}

type c29ovlRound struct {
	Target int    // subscription whose delivery is blocked
	Source string // "sub-publish", "fs-publish", "feed"
	Acts   []c29act
	Extra  int // further messages for the channel issued while the delivery is blocked
}

func (o c29ovlRound) String() string {
	return fmt.Sprintf("{block s%d via %s; %v; extra%d}", o.Target, o.Source, o.Acts, o.Extra)
}

type c29ovl struct {
	Idx    int
	Chans  []string // channel of every subscription
	NH     []int    // handlers of every subscription (handler ids are global, creation order)
	Peers  int
	Rounds []c29ovlRound
}

func (o *c29ovl) desc() string {
	return fmt.Sprintf("overlap subs=%v handlers=%v peers=%d rounds=%v", o.Chans, o.NH, o.Peers, o.Rounds)
}

func genC29ovl(rng *rand.Rand, idx int) *c29ovl {
	o := &c29ovl{Idx: idx, Peers: rng.IntN(3)}
	ns := 1 + rng.IntN(3)
	type hst struct {
		sub  int
		live bool
	}
	var hs []hst
	subLive := make([]bool, ns)
	for s := 0; s < ns; s++ {
		o.Chans = append(o.Chans, c29chans[rng.IntN(2)])
		nh := 2 + rng.IntN(4)
		if s > 0 && rng.IntN(4) == 0 {
			nh = 1
		}
		o.NH = append(o.NH, nh)
		subLive[s] = true
		for k := 0; k < nh; k++ {
			hs = append(hs, hst{s, true})
		}
	}
	liveOf := func(s int) []int {
		var l []int
		for k, h := range hs {
			if h.sub == s && h.live {
				l = append(l, k)
			}
		}
		return l
	}
	for nr := 1 + rng.IntN(4); nr > 0; nr-- {
		var cand []int
		for s := range subLive {
			if subLive[s] && len(liveOf(s)) > 0 {
				cand = append(cand, s)
			}
		}
		if len(cand) == 0 {
			break
		}
		rd := c29ovlRound{Target: cand[rng.IntN(len(cand))], Extra: rng.IntN(4)}
		switch k := rng.IntN(3); {
		case k == 0 && o.Peers > 0:
			rd.Source = "feed"
		case k == 1:
			rd.Source = "fs-publish"
		default:
			rd.Source = "sub-publish"
		}
		live := liveOf(rd.Target)
		rng.Shuffle(len(live), func(i, j int) { live[i], live[j] = live[j], live[i] })
		switch k := rng.IntN(10); {
		case k < 4 || len(live) < 2: // release during the delivery
			rd.Acts = append(rd.Acts, c29act{Kind: "rel", Sub: rd.Target})
		case k < 7: // remove other handlers during the delivery (at least one stays to be blocked)
			for _, h := range live[:1+rng.IntN(len(live)-1)] {
				rd.Acts = append(rd.Acts, c29act{Kind: "rmh", Sub: rd.Target, H: h})
			}
		default: // both, concurrently
			rd.Acts = append(rd.Acts, c29act{Kind: "rel", Sub: rd.Target}, c29act{Kind: "rmh", Sub: rd.Target, H: live[0]})
		}
		// sometimes also release another subscription (it shares no lock with
		// the blocked delivery unless it is on the same channel's message)
		if rng.IntN(4) == 0 {
			for s := range subLive {
				if subLive[s] && s != rd.Target {
					rd.Acts = append(rd.Acts, c29act{Kind: "rel", Sub: s})
					break
				}
			}
		}
		rng.Shuffle(len(rd.Acts), func(i, j int) { rd.Acts[i], rd.Acts[j] = rd.Acts[j], rd.Acts[i] })
		for _, a := range rd.Acts {
			if a.Kind == "rel" {
				subLive[a.Sub] = false
			} else {
				hs[a.H].live = false
			}
		}
		o.Rounds = append(o.Rounds, rd)
	}
	return o
}

// ovlGate blocks, while armed, the first callback of a handler of the target
// subscription that is not in the pass set, until the harness opens it.
type ovlGate struct {
	mu      sync.Mutex
	armed   bool
	target  int
	pass    map[int]bool
	entered chan struct{}
	open    chan struct{}
	blocked int // handler that is (was) blocked
}

func (g *ovlGate) arm(target int, pass map[int]bool) {
	g.mu.Lock()
	g.armed, g.target, g.pass, g.blocked = true, target, pass, -1
	g.entered, g.open = make(chan struct{}), make(chan struct{})
	g.mu.Unlock()
}

func (g *ovlGate) enter(sub, h int) {
	g.mu.Lock()
	if !g.armed || sub != g.target || g.pass[h] {
		g.mu.Unlock()
		return
	}
	g.armed = false
	g.blocked = h
	open := g.open
	close(g.entered)
	g.mu.Unlock()
	<-open
}

func runC29ovl(r *vf.Run, env *g9mesh.Env, pool []*keys.Identity, o *c29ovl, jr *journal) {
	jr.begin(100000+o.Idx, o.desc())
	defer jr.end(100000 + o.Idx)
	rng := rand.New(rand.NewPCG(uint64(o.Idx)+4177, r.Seed()))
	perm := rng.Perm(len(pool))
	V, F := pool[perm[0]], pool[perm[1]]
	m, err := g9mesh.NewMesh(env, []*keys.Identity{V})
	if err != nil {
		r.Inconclusive("NewMesh: " + err.Error())
		return
	}
	defer m.Close()
	m.Adopt()
	node := m.Nodes[0]
	gate := &ovlGate{}
	var subs []*c29sub
	var hands []*c29handler
	wit := func(extra map[string]any) map[string]any {
		w := map[string]any{"scenario": o.desc(), "case": o.Idx}
		for k, v := range extra {
			w[k] = v
		}
		return w
	}
	fail := func() { r.Case(o.desc(), false) }
	quiesce := func(stage string) bool {
		ok, busy := m.WaitQuiescent(watchdog)
		r.Count("quiescence_waits", 1)
		if !ok {
			r.Inconclusive(fmt.Sprintf("C29 overlap case %d: no quiescence at %s (%s)", o.Idx, stage, busy))
		}
		return ok
	}
	node.Exec()
	for s, ch := range o.Chans {
		sh, err := node.FS.AddSubscription(m.Ctx, V.Priv, ch)
		if err != nil {
			r.Inconclusive("AddSubscription: " + err.Error())
			fail()
			return
		}
		subs = append(subs, &c29sub{ch: ch, h: sh})
		for k := 0; k < o.NH[s]; k++ {
			hid := len(hands)
			base := m.Handler(0, s, hid, ch)
			s := s
			rm := sh.AddHandler(func(msg pubsub.Message) {
				base(msg) // logs the callback (logical time at entry)
				gate.enter(s, hid)
			})
			hands = append(hands, &c29handler{sub: s, remove: rm})
		}
	}
	type endpoint struct {
		d   *g9mesh.Duplex
		end *g9mesh.End
	}
	var eps []endpoint
	for k := 0; k < o.Peers; k++ {
		d, end := m.Attach(0, pool[perm[2+k]].ID, rng.IntN(2) == 0)
		eps = append(eps, endpoint{d, end})
	}
	nmsg := 0
	payload := func(ch string) string {
		nmsg++
		return fmt.Sprintf("o%d/m%d/%s", o.Idx, nmsg, ch)
	}
	mkPacket := func(ch string) *floodsub.Packet {
		msg, _, err := pubmessage.NewPubMessage(ch, F.Priv, hash.HashType_HashType_SHA256, []byte(payload(ch)))
		if err != nil {
			panic(err)
		}
		return &floodsub.Packet{Publish: []*peer.SignedMsg{msg}}
	}
	live := func() map[string]bool {
		l := map[string]bool{}
		for _, s := range subs {
			if s.releasedAt == 0 {
				l[s.ch] = true
			}
		}
		return l
	}
	checkViews := func(stage string) {
		want := live()
		for i, ep := range eps {
			got := replayView(ep.d.AB.Frames())
			r.Count("neighbour_views_checked", 1)
			r.Distinct("view_states", setStr(want)+"/"+setStr(got))
			for ch := range got {
				if !want[ch] {
					r.Violation("floodsub/peer-not-told-unsubscribe",
						fmt.Sprintf("quiescent node (%s): neighbour %d was told the node wants channel %q and never told otherwise, but the node has no live subscription to it (live=%s)", stage, i, ch, setStr(want)),
						wit(map[string]any{"neighbour": i, "view": setStr(got), "live": setStr(want), "subscription_frames": subFrames(ep.d.AB.Frames())}))
				}
			}
			for ch := range want {
				if !got[ch] {
					r.Violation("floodsub/peer-not-told-subscribe",
						fmt.Sprintf("quiescent node (%s): neighbour %d was never told about live channel %q (view=%s)", stage, i, ch, setStr(got)),
						wit(map[string]any{"neighbour": i, "view": setStr(got), "live": setStr(want), "subscription_frames": subFrames(ep.d.AB.Frames())}))
				}
			}
		}
	}
	if !quiesce("setup") {
		fail()
		return
	}
	checkViews("after setup")
	// send issues one message for channel ch from the given source; local
	// publishes run in their own goroutine (they return only after the local
	// hand-over was started, and may wait for the router).
	var sendWG sync.WaitGroup
	send := func(source string, target int, ch string) {
		r.Count("overlap_messages_"+source, 1)
		switch source {
		case "feed":
			_ = eps[rng.IntN(len(eps))].end.WritePacket(mkPacket(ch))
		case "fs-publish":
			pay := payload(ch)
			sendWG.Add(1)
			m.Go(func() {
				defer sendWG.Done()
				_ = node.FS.(g9mesh.Publisher).Publish(m.Ctx, ch, F.Priv, []byte(pay))
			})
		default:
			pay := payload(ch)
			sh := subs[target].h
			sendWG.Add(1)
			m.Go(func() {
				defer sendWG.Done()
				_ = sh.Publish([]byte(pay))
			})
		}
	}
	waitCh := func(c <-chan struct{}) bool {
		select {
		case <-c:
			return true
		case <-time.After(watchdog):
			return false
		}
	}
	established := 0
	for ri, rd := range o.Rounds {
		ch := o.Chans[rd.Target]
		pass := map[int]bool{}
		for _, a := range rd.Acts {
			if a.Kind == "rmh" {
				pass[a.H] = true
			}
		}
		gate.arm(rd.Target, pass)
		send(rd.Source, rd.Target, ch)
		if !waitCh(gate.entered) {
			r.Inconclusive(fmt.Sprintf("C29 overlap case %d round %d: no handler of the target subscription was entered within the watchdog", o.Idx, ri))
			close(gate.open)
			fail()
			return
		}
		// a delivery is now in progress (a callback of the target subscription
		// has started and not returned): start the operations
		type running struct {
			act  c29act
			goid atomic.Int64
			done atomic.Bool
			fin  chan struct{}
		}
		runs := make([]*running, len(rd.Acts))
		for i, a := range rd.Acts {
			rn := &running{act: a, fin: make(chan struct{})}
			runs[i] = rn
			m.Go(func() {
				defer close(rn.fin)
				rn.goid.Store(g9mesh.CurGoid())
				if rn.act.Kind == "rel" {
					subs[rn.act.Sub].h.Release()
					subs[rn.act.Sub].releasedAt = m.Clk.Tick()
				} else {
					hands[rn.act.H].remove()
					hands[rn.act.H].removedAt = m.Clk.Tick()
				}
				rn.done.Store(true)
			})
		}
		// every operation has returned or is parked on a floodsub lock
		deadline := time.Now().Add(watchdog)
		for _, rn := range runs {
			for {
				if rn.done.Load() {
					r.Count("overlap_"+rn.act.Kind+"_returned_during_delivery", 1)
					break
				}
				if id := rn.goid.Load(); id != 0 && m.GoroutineParkedOnMutex(id) {
					r.Count("overlap_"+rn.act.Kind+"_parked_on_floodsub_lock", 1)
					break
				}
				if time.Now().After(deadline) {
					r.Inconclusive(fmt.Sprintf("C29 overlap case %d round %d: %s neither returned nor parked on a lock within the watchdog", o.Idx, ri, rn.act))
					close(gate.open)
					fail()
					return
				}
				time.Sleep(time.Millisecond)
			}
		}
		established++
		for k := 0; k < rd.Extra; k++ {
			src := rd.Source
			if k%2 == 1 && len(eps) > 0 {
				src = "feed"
			}
			if src == "sub-publish" {
				src = "fs-publish" // the target may be released by now: Publish on it is not exercised
			}
			send(src, rd.Target, ch)
		}
		close(gate.open)
		for _, rn := range runs {
			if !waitCh(rn.fin) {
				r.Inconclusive(fmt.Sprintf("C29 overlap case %d round %d: %s did not return after the delivery ended (watchdog)", o.Idx, ri, rn.act))
				fail()
				return
			}
		}
		sent := make(chan struct{})
		go func() { sendWG.Wait(); close(sent) }()
		if !waitCh(sent) {
			r.Inconclusive(fmt.Sprintf("C29 overlap case %d round %d: publish calls did not return (watchdog)", o.Idx, ri))
			fail()
			return
		}
		r.Count("overlap_rounds", 1)
		r.Distinct("overlap_shapes", fmt.Sprintf("%s/%v/h%d", rd.Source, rd.Acts, o.NH[rd.Target]))
		if !quiesce(fmt.Sprintf("after overlap round %d", ri)) {
			fail()
			return
		}
		checkViews(fmt.Sprintf("after overlap round %d %s", ri, rd))
	}
	for _, s := range subs {
		if s.releasedAt == 0 {
			s.h.Release()
			s.releasedAt = m.Clk.Tick()
		}
	}
	if !quiesce("after final releases") {
		fail()
		return
	}
	checkViews("after releasing every subscription")
	for _, ep := range eps {
		for _, ch := range c29chans[:2] {
			_ = ep.end.WritePacket(mkPacket(ch))
		}
	}
	if !quiesce("after final feed") {
		fail()
		return
	}
	dl := m.Deliveries()
	for _, d := range dl {
		hd := hands[d.Handler]
		s := subs[hd.sub]
		r.Count("handler_callbacks", 1)
		if !strings.HasSuffix(d.Data, "/"+s.ch) {
			r.Violation("floodsub/handed-wrong-channel", fmt.Sprintf("handler of %q was handed %q", s.ch, d.Data), wit(nil))
		}
		if hd.removedAt != 0 && d.T > hd.removedAt {
			r.Violation("floodsub/callback-after-handler-removed",
				fmt.Sprintf("handler %d (channel %s) was invoked at logical time %d, after its remove function had returned at %d (removal overlapped a delivery that was blocked in another handler)", d.Handler, s.ch, d.T, hd.removedAt), wit(map[string]any{"delivery": d}))
		}
		if s.releasedAt != 0 && d.T > s.releasedAt {
			r.Violation("floodsub/callback-after-release",
				fmt.Sprintf("handler %d of subscription %d (channel %s) was invoked at logical time %d, after Release had returned at %d (Release overlapped a delivery that was blocked in another handler)", d.Handler, hd.sub, s.ch, d.T, s.releasedAt), wit(map[string]any{"delivery": d}))
		}
	}
	nontrivial := established > 0 && len(dl) > 0
	r.Case(o.desc(), nontrivial)
	r.Count("overlap_scenarios", 1)
	if o.Idx < 2 {
		r.Sample(map[string]any{"case": o.Idx, "scenario": o.desc(), "callbacks": len(dl)})
	}
}

func subFrames(fs []*g9mesh.Frame) []string {
	var out []string
	for _, f := range fs {
		if !f.Parsed || len(f.Pubs) > 0 && len(f.Subs) == 0 {
			continue
		}
		var sb strings.Builder
		fmt.Fprintf(&sb, "t%d:", f.Tx)
		for _, s := range f.Subs {
			if s.Subscribe {
				sb.WriteString("+" + s.Channel)
			} else {
				sb.WriteString("-" + s.Channel)
			}
		}
		out = append(out, sb.String())
	}
	return out
}

func TestC29(t *testing.T) {
	r := vf.Start(t, "C29", vf.Exploration)
	defer r.Finish()
	r.SetRule("(a) opener rule: two real pubsub controllers (stub router, captured EstablishLinkWithPeer reference handler) are handed the two ends of one link as fake mounted links, for pairs of distinct peer ids (real Ed25519 ids; ids sharing all but the last byte; one id a prefix of the other; leading-zero ids; one-bit mutations), delivered concurrently in opposite orders; at controller quiescence (no tracker goroutine alive, Execute loops parked) OpenMountedStream calls over both ends must total exactly 1. (a2) the same over link RE-ESTABLISHMENT histories, batches of 40 pairs stepping through one shape (8 forced shapes round-robin, then PRNG shapes): link value added -> removed -> added again under the SAME link uuid as a new or the same MountedLink object (per pair), 1-3 times, optionally re-reported without removal; OpenMountedStream of a link object can be held at a harness gate, so that the previous establishment's tracker is still blocked in the open when the link is removed and when the next value arrives; steps are separated by rest points decided from goroutine states (both Execute loops parked after the last callback returned, every other controller goroutine parked at the gate) or follow back to back; the gates open at the end or in between; a held open whose context was cancelled fails. Oracle at controller quiescence: on the link object that is established at the end, successful OpenMountedStream calls begun since it was (last) established: one side 1..(times the value was reported), the other side 0. (b)+(c): histories of exec / subscribe / add-handler / remove-handler / release / add-peer-stream on one real FloodSub node, each operation raced with 0-6 authentic publishes written by harness-driven neighbours, gaps none / scheduler yields / exact quiescence (every fifth history is a pure burst); (b) a callback logged at logical time t > removeReturned(handler) or t > releaseReturned(subscription) is a violation (callbacks run under the subscription mutex that remove/release take); (c) at every exact quiescent point each neighbour's replayed view (Subscribe true/false packets on the tap) equals the node's set of channels with a live subscription; finally everything is released, views must be empty and a last feed must reach no handler. (d) scripted overlap: 1-3 subscriptions with 1-5 handlers each, 0-2 neighbours, 1-4 rounds; per round a message (subscription Publish / FloodSub.Publish / neighbour packet) is delivered to a target subscription and the first callback of a handler that is not about to be removed blocks on a harness gate; while it is blocked, Release of the target and / or the remove functions of other handlers of the target (sometimes also Release of another subscription) are started in their own goroutines; once each has returned or is parked in sync.Mutex.Lock below a floodsub frame (goroutine-state inspection) 0-3 further messages are issued and the gate is opened; oracle as in (b), views as in (c). (e) back-pressure at the moment of a subscription change: 1-3 harness-driven neighbours announce channels, the streams towards some of them (always the first, which wants the channel) are stalled (writes block), K publications (K around the per-peer queue size: 30..36 in half of the scenarios, 32..35 forced regularly, else 0..29 or 37..96; via a subscription, FloodSub.Publish or another neighbour's feed) are forwarded into them, then - once the node rests against the stalled streams: router parked on a full send queue, or all calls returned and the node exactly quiescent - 1-3 subscription changes (release of the last / one subscription, new channel, release + re-subscribe ...) are issued in their own goroutine and, once they returned or are parked on a floodsub lock and the node rests again, the streams are un-stalled in PRNG order; oracle (c) at the following exact quiescence, then everything is released and (c) again, (b) throughout. (e2) several changes of ONE channel queued behind a stalled stream write: as (e) with 0-6 publications, then 2-6 changes issued one by one (subscribe X, release the last subscription of X, subscribe X again ..., sometimes another channel in between or two changes back to back), each followed by waiting until the change call returned and the node is exactly quiescent with the session parked in the stalled write (the evaluation pass has queued the announcement behind the blocked packet), then the streams are un-stalled in PRNG order; (c) at the following exact quiescence; non-trivial = at least two changes of one channel were queued while a writer was blocked. (f) stream replacement with the OLD stream stalled: the stream of a neighbour's (peer, link) tuple is stalled, 0-23 publications are forwarded into it (a session stuck in the stream write), the stream is REPLACED by AddPeerStream for the same tuple (1-2 times; the neighbour re-announces or not), exact quiescence (= the replacement session has started while the old one is still stuck), optional changes, then the old streams drain or are closed in PRNG order (old sessions exit late), then publications and 1-3 subscription changes; oracle (c) over the neighbour's CURRENT stream at every exact quiescent point. (g) subscription lifecycles: with 1-3 neighbours connected the node subscribes a channel (1-2 subscriptions), releases the last one, becomes exactly quiescent (unsubscribe announced) or not, and subscribes the SAME channel again, 1-3 cycles, sometimes with another channel subscribed throughout, a neighbour feeding a message after every re-subscription, a late neighbour at the end; (c) at every exact quiescent point. Non-trivial: (a) exactly one open observed; (a2) exactly one side opened on the finally established object; (g) at least one release - quiescence - re-subscribe cycle was judged; (e) a stalled stream had a blocked writer and views were judged; (f) an old session was stuck in its stream write when it was replaced; (b,c) history with at least one neighbour, one subscription and one callback; (d) at least one overlap was established and a callback was logged.")
	r.Assume("exactly one side opens is checked per delivered link value, not one open per link for all time (DESIGN 8)")
	r.Assume("AddHandler on an already released subscription is not exercised")
	env, err := getEnv()
	if err != nil {
		t.Fatalf("env: %v", err)
	}
	setWatchdog(r)
	pool := keys.Pool(r.Rand("c29-keys"), 48)
	jr := newJournal(r)
	// (a)
	pairs := genPairs(r.Rand("c29a"), keys.Pool(r.Rand("c29a-keys"), r.N(96, 600)), r.N(2000, 40000))
	// (informational only: wall time per family, never used in a verdict)
	phase := map[string]string{}
	t0 := time.Now()
	lap := func(name string) { phase[name] = time.Since(t0).Round(100 * time.Millisecond).String(); t0 = time.Now() }
	defer func() { r.Extra("family_wall_time_informational", phase) }()
	runC29a(r, env, pairs, r.N(250, 1000), jr)
	lap("a")
	// (a2) opener rule over re-establishment histories
	pairs2 := genPairs(r.Rand("c29a2"), keys.Pool(r.Rand("c29a2-keys"), r.N(96, 600)), r.N(960, 16000))
	runC29relink(r, env, pairs2, r.N(40, 200), jr)
	lap("a2")
	// (b), (c)
	rng := r.Rand("c29bc")
	n := r.N(200, 2500)
	hs := make([]*c29hist, n)
	for i := range hs {
		hs[i] = genC29(rng, i)
	}
	parallel(n, 16, func(i int) { runC29bc(r, env, pool, hs[i], jr) })
	lap("bc")
	// (d) scripted overlap
	rngO := r.Rand("c29ovl")
	no := r.N(96, 1500)
	ovs := make([]*c29ovl, no)
	for i := range ovs {
		ovs[i] = genC29ovl(rngO, i)
	}
	parallel(no, 16, func(i int) { runC29ovl(r, env, pool, ovs[i], jr) })
	lap("d")
	// (e) back-pressure at the moment of a subscription change
	rngE := r.Rand("c29bp")
	nbp := r.N(64, 900)
	bps := make([]*c29bp, nbp)
	for i := range bps {
		bps[i] = genC29bp(rngE, i)
	}
	parallel(nbp, 16, func(i int) { runC29bp(r, env, pool, bps[i], jr) })
	lap("e")
	// (e2) several changes of one channel queued behind a stalled stream write
	rngQ := r.Rand("c29queue")
	nq := r.N(48, 700)
	qs := make([]*c29q, nq)
	for i := range qs {
		qs[i] = genC29q(rngQ, i)
	}
	parallel(nq, 16, func(i int) { runC29q(r, env, pool, qs[i], jr) })
	lap("e2")
	// (f) stream replacement with the old stream stalled
	rngF := r.Rand("c29rp")
	nrp := r.N(48, 700)
	rps := make([]*c29rp, nrp)
	for i := range rps {
		rps[i] = genC29rp(rngF, i)
	}
	parallel(nrp, 16, func(i int) { runC29rp(r, env, pool, rps[i], jr) })
	lap("f")
	// (g) subscription lifecycles on one channel
	rngG := r.Rand("c29life")
	nlc := r.N(32, 500)
	lcs := make([]*c29life, nlc)
	for i := range lcs {
		lcs[i] = genC29life(rngG, i)
	}
	parallel(nlc, 16, func(i int) { runC29life(r, env, pool, lcs[i], jr) })
	lap("g")
	r.Extra("goroutine_snapshots", env.W.Taken())
}
