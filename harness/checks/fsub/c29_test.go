package fsub

import (
	"context"
	"fmt"
	"math/rand/v2"
	"runtime"
	"strings"
	"sync"
	"testing"
	"time"

	"github.com/aperturerobotics/bifrost/hash"
	"github.com/aperturerobotics/bifrost/link"
	"github.com/aperturerobotics/bifrost/peer"
	"github.com/aperturerobotics/bifrost/protocol"
	"github.com/aperturerobotics/bifrost/pubsub"
	pubsub_controller "github.com/aperturerobotics/bifrost/pubsub/controller"
	"github.com/aperturerobotics/bifrost/pubsub/floodsub"
	"github.com/aperturerobotics/bifrost/pubsub/util/pubmessage"
	"github.com/aperturerobotics/controllerbus/controller"
	"github.com/blang/semver/v4"
	"github.com/sirupsen/logrus"

	"verifharness/g9mesh"
	"verifharness/keys"
	"verifharness/vf"
)

// ---------- (a) opener rule ----------

const ctrlPkg = "bifrost/pubsub/controller."

type idPair struct {
	Kind string
	X, Y peer.ID
}

func genPairs(rng *rand.Rand, pool []*keys.Identity, n int) []idPair {
	var out []idPair
	rb := func(k int) []byte {
		b := make([]byte, k)
		for i := range b {
			b[i] = byte(rng.UintN(256))
		}
		return b
	}
	for len(out) < n {
		var p idPair
		switch k := len(out) % 8; k {
		case 0, 1, 2, 3:
			a, b := rng.IntN(len(pool)), rng.IntN(len(pool))
			if a == b {
				continue
			}
			p = idPair{"ed25519", pool[a].ID, pool[b].ID}
		case 4: // same bytes up to the last byte
			base := rb(37)
			x, y := append(append([]byte(nil), base...), byte(rng.UintN(256))), append(append([]byte(nil), base...), byte(rng.UintN(256)))
			p = idPair{"shared-prefix", peer.ID(x), peer.ID(y)}
		case 5: // one id is a strict prefix of the other
			base := rb(1 + rng.IntN(38))
			p = idPair{"prefix-extension", peer.ID(base), peer.ID(append(append([]byte(nil), base...), byte(rng.UintN(2))))}
		case 6: // leading zero bytes (b58 '1' runs)
			base := rb(1 + rng.IntN(8))
			z := make([]byte, 1+rng.IntN(3))
			p = idPair{"leading-zeros", peer.ID(append(append([]byte(nil), z...), base...)), peer.ID(append(append([]byte(nil), z[1:]...), base...))}
		default: // a real id against a one-byte mutation of it
			a := pool[rng.IntN(len(pool))].ID
			b := []byte(a)
			b[rng.IntN(len(b))] ^= 1 << rng.UintN(8)
			p = idPair{"one-bit", a, peer.ID(b)}
		}
		if p.X == p.Y || len(p.X) == 0 || len(p.Y) == 0 {
			continue
		}
		if rng.IntN(2) == 0 {
			p.X, p.Y = p.Y, p.X
		}
		out = append(out, p)
	}
	return out
}

type ctrlSide struct {
	c    *pubsub_controller.Controller
	stub *g9mesh.StubPubSub
	di   *g9mesh.FakeDI
}

func newCtrlSide(ctx context.Context, env *g9mesh.Env, le *logrus.Entry, owner int, wg *sync.WaitGroup) (*ctrlSide, error) {
	s := &ctrlSide{stub: &g9mesh.StubPubSub{}}
	s.c = pubsub_controller.NewController(le, nil, controller.NewInfo("verif/pubsub", semver.MustParse("0.0.1"), "verif"), "", floodsub.FloodSubID,
		func(ctx context.Context, le *logrus.Entry, p peer.Peer, h pubsub.PubSubHandler) (pubsub.PubSub, error) {
			return s.stub, nil
		})
	wg.Add(1)
	go func() {
		defer wg.Done()
		env.W.Register(owner)
		_ = s.c.Execute(ctx)
	}()
	s.di = &g9mesh.FakeDI{Ctx: ctx, Dir: link.NewEstablishLinkWithPeer("", "")}
	if _, err := s.c.HandleDirective(ctx, s.di); err != nil {
		return nil, err
	}
	if len(s.di.Handlers()) != 1 {
		return nil, fmt.Errorf("controller did not reference the EstablishLinkWithPeer directive")
	}
	return s, nil
}

// ctrlQuiescent: every goroutine inside the pubsub controller package is the
// Execute loop parked in its select (all incoming links consumed) or the stub
// router; no link tracker is alive.
func ctrlQuiescent(env *g9mesh.Env) (bool, string) {
	for _, g := range env.W.Fresh().Gs {
		f, ok := g.InnermostWith(ctrlPkg)
		if !ok {
			continue
		}
		if g.Has("g9mesh.(*StubPubSub).Execute") {
			continue
		}
		if strings.HasSuffix(f.Fn, "(*Controller).Execute") && g.State == "select" {
			continue
		}
		return false, g.String()
	}
	return true, ""
}

func runC29a(r *vf.Run, env *g9mesh.Env, pairs []idPair, batch int, jr *journal) {
	le := env.LE
	for lo := 0; lo < len(pairs); lo += batch {
		hi := min(lo+batch, len(pairs))
		jr.begin(-1, fmt.Sprintf("opener rule batch pairs %d..%d", lo, hi))
		ctx, cancel := context.WithCancel(context.Background())
		var wg sync.WaitGroup
		owner := env.NewOwner()
		A, errA := newCtrlSide(ctx, env, le, owner, &wg)
		B, errB := newCtrlSide(ctx, env, le, owner, &wg)
		if errA != nil || errB != nil {
			r.Inconclusive(fmt.Sprintf("controller setup failed: %v %v", errA, errB))
			cancel()
			wg.Wait()
			return
		}
		clk := &g9mesh.Clock{}
		onOpen := func(ctx context.Context, l *g9mesh.FakeLink, pid protocol.ID) (link.MountedStream, error) {
			d := g9mesh.NewDuplex(clk, "ctl", 0, 1)
			return &g9mesh.FakeMStream{Strm: d.EndA(), Proto: pid, Peer: l.Remote, Lnk: l}, nil
		}
		la := make([]*g9mesh.FakeLink, hi-lo)
		lb := make([]*g9mesh.FakeLink, hi-lo)
		for i := range la {
			p := pairs[lo+i]
			la[i] = &g9mesh.FakeLink{UUID: uint64(lo + i + 1), Local: p.X, Remote: p.Y, OnOpen: onOpen}
			lb[i] = &g9mesh.FakeLink{UUID: uint64(lo + i + 1), Local: p.Y, Remote: p.X, OnOpen: onOpen}
		}
		var dw sync.WaitGroup
		dw.Add(2)
		go func() {
			defer dw.Done()
			h := A.di.Handlers()[0]
			for i, l := range la {
				h.HandleValueAdded(A.di, &g9mesh.FakeValue{ID: uint32(i + 1), Val: l})
			}
		}()
		go func() {
			defer dw.Done()
			h := B.di.Handlers()[0]
			for i := len(lb) - 1; i >= 0; i-- {
				h.HandleValueAdded(B.di, &g9mesh.FakeValue{ID: uint32(i + 1), Val: lb[i]})
			}
		}()
		dw.Wait()
		deadline := time.Now().Add(watchdog)
		quiet := false
		var busy string
		for !quiet {
			if quiet, busy = ctrlQuiescent(env); quiet {
				break
			}
			if time.Now().After(deadline) {
				break
			}
			time.Sleep(2 * time.Millisecond)
		}
		if !quiet {
			r.Inconclusive("C29a: controllers not quiescent within watchdog: " + busy)
		} else {
			for i := range la {
				p := pairs[lo+i]
				oa, ob := la[i].Opens.Load(), lb[i].Opens.Load()
				sig := fmt.Sprintf("pair|%s|%x|%x", p.Kind, string(p.X), string(p.Y))
				r.Count("pairs_"+p.Kind, 1)
				r.Count("open_calls", int(oa+ob))
				wit := map[string]any{"kind": p.Kind, "x": p.X.String(), "y": p.Y.String(), "x_hex": fmt.Sprintf("%x", string(p.X)), "y_hex": fmt.Sprintf("%x", string(p.Y)), "opens_by_x_side": oa, "opens_by_y_side": ob}
				switch {
				case oa+ob == 1:
					if oa == 1 {
						r.Count("opened_by_first_side", 1)
					} else {
						r.Count("opened_by_second_side", 1)
					}
					r.Case(sig, true)
				case oa >= 1 && ob >= 1:
					r.Violation("pubsub-controller/both-sides-open/"+p.Kind, fmt.Sprintf("both ends of one link between %s and %s opened the pubsub stream", p.X.String(), p.Y.String()), wit)
					r.Case(sig, false)
				case oa+ob == 0:
					r.Violation("pubsub-controller/no-side-opens/"+p.Kind, fmt.Sprintf("quiescent controllers: neither end of the link between %s and %s opened the pubsub stream", p.X.String(), p.Y.String()), wit)
					r.Case(sig, false)
				default:
					r.Violation("pubsub-controller/opened-twice/"+p.Kind, "one end opened the stream more than once for a single link value", wit)
					r.Case(sig, false)
				}
				if i < 2 && lo == 0 {
					r.Sample(wit)
				}
			}
			na, nb := len(A.stub.Recorded()), len(B.stub.Recorded())
			r.Count("router_streams_added", na+nb)
		}
		cancel()
		wg.Wait()
		jr.end(-1)
	}
}

// ---------- (b), (c) release semantics ----------

type c29op struct {
	Kind string // exec, sub, addh, rmh, rel, peer
	Ch   string
	Sub  int // index into the history's subscriptions (creation order)
	H    int // index into the history's handlers (creation order)
	Feed int // messages written by the neighbours concurrently with the op
	Gap  string
}

func (o c29op) String() string {
	return fmt.Sprintf("%s(%s s%d h%d feed%d)%s", o.Kind, o.Ch, o.Sub, o.H, o.Feed, map[string]string{"none": "", "yield": "~", "quiesce": "|"}[o.Gap])
}

type c29hist struct {
	Idx int
	Ops []c29op
}

func (h *c29hist) desc() string { return fmt.Sprint(h.Ops) }

var c29chans = []string{"c1", "c2", "c3"}

func genC29(rng *rand.Rand, idx int) *c29hist {
	h := &c29hist{Idx: idx}
	type sst struct {
		live bool
		ch   string
	}
	var subs []sst
	type hst struct {
		live bool
		sub  int
	}
	var hs []hst
	execAt := rng.IntN(4)
	n := 8 + rng.IntN(14)
	execd := false
	peers := 0
	burst := idx%5 == 0 // histories made of fast bursts: no gaps at all between most operations
	for i := 0; len(h.Ops) < n; i++ {
		if !execd && len(h.Ops) >= execAt {
			h.Ops = append(h.Ops, c29op{Kind: "exec", Gap: "none"})
			execd = true
			continue
		}
		var op c29op
		var liveSubs, liveH []int
		for k, s := range subs {
			if s.live {
				liveSubs = append(liveSubs, k)
			}
		}
		for k, x := range hs {
			if x.live && subs[x.sub].live {
				liveH = append(liveH, k)
			}
		}
		switch k := rng.IntN(10); {
		case k < 3 || len(liveSubs) == 0 && k < 7:
			op = c29op{Kind: "sub", Ch: c29chans[rng.IntN(len(c29chans))], Sub: len(subs), H: len(hs)}
			subs = append(subs, sst{true, op.Ch})
			hs = append(hs, hst{true, op.Sub})
		case k < 4 && len(liveSubs) > 0:
			op = c29op{Kind: "addh", Sub: liveSubs[rng.IntN(len(liveSubs))], H: len(hs)}
			op.Ch = subs[op.Sub].ch
			hs = append(hs, hst{true, op.Sub})
		case k < 5 && len(liveH) > 0:
			op = c29op{Kind: "rmh", H: liveH[rng.IntN(len(liveH))]}
			op.Sub = hs[op.H].sub
			op.Ch = subs[op.Sub].ch
			hs[op.H].live = false
		case k < 8 && len(liveSubs) > 0:
			op = c29op{Kind: "rel", Sub: liveSubs[rng.IntN(len(liveSubs))]}
			op.Ch = subs[op.Sub].ch
			subs[op.Sub].live = false
		default:
			if peers >= 4 {
				continue
			}
			op = c29op{Kind: "peer"}
			peers++
		}
		if peers > 0 {
			op.Feed = rng.IntN(7)
		}
		switch g := rng.IntN(8); {
		case burst && g < 7, g < 4:
			op.Gap = "none"
		case g < 6:
			op.Gap = "yield"
		default:
			op.Gap = "quiesce"
		}
		if !execd && op.Gap == "quiesce" {
			op.Gap = "none"
		}
		h.Ops = append(h.Ops, op)
	}
	if !execd {
		h.Ops = append(h.Ops, c29op{Kind: "exec", Gap: "none"})
	}
	return h
}

type c29sub struct {
	ch         string
	h          pubsub.Subscription
	releasedAt int64
}

type c29handler struct {
	sub       int
	remove    func()
	removedAt int64
}

func runC29bc(r *vf.Run, env *g9mesh.Env, pool []*keys.Identity, h *c29hist, jr *journal) {
	jr.begin(h.Idx, h.desc())
	defer jr.end(h.Idx)
	rng := rand.New(rand.NewPCG(uint64(h.Idx)+77, r.Seed()))
	perm := rng.Perm(len(pool))
	V, F := pool[perm[0]], pool[perm[1]]
	m, err := g9mesh.NewMesh(env, []*keys.Identity{V})
	if err != nil {
		r.Inconclusive("NewMesh: " + err.Error())
		return
	}
	defer m.Close()
	m.Adopt()
	node := m.Nodes[0]
	var subs []*c29sub
	var hands []*c29handler
	type endpoint struct {
		d   *g9mesh.Duplex
		end *g9mesh.End
	}
	var eps []endpoint
	nfeed := 0
	fed := map[string]int{} // channel -> messages fed
	wit := func(extra map[string]any) map[string]any {
		w := map[string]any{"history": h.desc(), "case": h.Idx}
		for k, v := range extra {
			w[k] = v
		}
		return w
	}
	mkPacket := func(ch string) *floodsub.Packet {
		nfeed++
		pay := fmt.Sprintf("h%d/f%d/%s", h.Idx, nfeed, ch)
		msg, _, err := pubmessage.NewPubMessage(ch, F.Priv, hash.HashType_HashType_SHA256, []byte(pay))
		if err != nil {
			panic(err)
		}
		fed[ch]++
		return &floodsub.Packet{Publish: []*peer.SignedMsg{msg}}
	}
	live := func() map[string]bool {
		l := map[string]bool{}
		for _, s := range subs {
			if s.releasedAt == 0 {
				l[s.ch] = true
			}
		}
		return l
	}
	quiesce := func(stage string) bool {
		ok, busy := m.WaitQuiescent(watchdog)
		r.Count("quiescence_waits", 1)
		if !ok {
			r.Inconclusive(fmt.Sprintf("C29 case %d: no quiescence at %s (%s)", h.Idx, stage, busy))
		}
		return ok
	}
	// (c) at a quiescent point
	checkViews := func(stage string) {
		want := live()
		for i, ep := range eps {
			got := replayView(ep.d.AB.Frames())
			r.Count("neighbour_views_checked", 1)
			r.Distinct("view_states", setStr(want)+"/"+setStr(got))
			for ch := range got {
				if !want[ch] {
					r.Violation("floodsub/peer-not-told-unsubscribe",
						fmt.Sprintf("quiescent node (%s): neighbour %d was told the node wants channel %q and never told otherwise, but the node has no live subscription to it (live=%s)", stage, i, ch, setStr(want)),
						wit(map[string]any{"neighbour": i, "view": setStr(got), "live": setStr(want), "subscription_frames": subFrames(ep.d.AB.Frames())}))
				}
			}
			for ch := range want {
				if !got[ch] {
					r.Violation("floodsub/peer-not-told-subscribe",
						fmt.Sprintf("quiescent node (%s): neighbour %d was never told about live channel %q (view=%s)", stage, i, ch, setStr(got)),
						wit(map[string]any{"neighbour": i, "view": setStr(got), "live": setStr(want), "subscription_frames": subFrames(ep.d.AB.Frames())}))
				}
			}
		}
	}
	execd := false
	for oi, op := range h.Ops {
		// traffic concurrent with the operation
		var wg sync.WaitGroup
		if op.Feed > 0 && len(eps) > 0 {
			type job struct {
				end *g9mesh.End
				pkt *floodsub.Packet
			}
			jobs := make([]job, op.Feed)
			for k := range jobs {
				ch := c29chans[rng.IntN(len(c29chans))]
				if op.Ch != "" && rng.IntN(2) == 0 {
					ch = op.Ch
				}
				jobs[k] = job{eps[rng.IntN(len(eps))].end, mkPacket(ch)}
			}
			nw := 1 + rng.IntN(2)
			for w := 0; w < nw; w++ {
				w := w
				wg.Add(1)
				m.Go(func() {
					defer wg.Done()
					for k := w; k < len(jobs); k += nw {
						_ = jobs[k].end.WritePacket(jobs[k].pkt)
					}
				})
			}
			r.Count("messages_fed", op.Feed)
		}
		switch op.Kind {
		case "exec":
			node.Exec()
			execd = true
		case "sub":
			sh, err := node.FS.AddSubscription(m.Ctx, V.Priv, op.Ch)
			if err != nil {
				r.Inconclusive("AddSubscription: " + err.Error())
				wg.Wait()
				return
			}
			subs = append(subs, &c29sub{ch: op.Ch, h: sh})
			rm := sh.AddHandler(m.Handler(0, op.Sub, op.H, op.Ch))
			hands = append(hands, &c29handler{sub: op.Sub, remove: rm})
		case "addh":
			rm := subs[op.Sub].h.AddHandler(m.Handler(0, op.Sub, op.H, op.Ch))
			hands = append(hands, &c29handler{sub: op.Sub, remove: rm})
		case "rmh":
			hands[op.H].remove()
			hands[op.H].removedAt = m.Clk.Tick()
			r.Count("handler_removals", 1)
		case "rel":
			subs[op.Sub].h.Release()
			subs[op.Sub].releasedAt = m.Clk.Tick()
			r.Count("releases", 1)
		case "peer":
			d, end := m.Attach(0, pool[perm[2+len(eps)]].ID, rng.IntN(2) == 0)
			eps = append(eps, endpoint{d, end})
		}
		wg.Wait()
		switch op.Gap {
		case "yield":
			for k := rng.IntN(40); k > 0; k-- {
				runtime.Gosched()
			}
		case "quiesce":
			if execd {
				if !quiesce(fmt.Sprintf("gap after op %d", oi)) {
					r.Case(h.desc(), false)
					return
				}
				checkViews(fmt.Sprintf("after op %d %s", oi, op))
			}
		}
	}
	if !quiesce("end of history") {
		r.Case(h.desc(), false)
		return
	}
	checkViews("end of history")
	// release everything that is left, then feed every channel once more
	for _, s := range subs {
		if s.releasedAt == 0 {
			s.h.Release()
			s.releasedAt = m.Clk.Tick()
		}
	}
	if !quiesce("after final releases") {
		r.Case(h.desc(), false)
		return
	}
	checkViews("after releasing every subscription")
	for _, ep := range eps {
		for _, ch := range c29chans {
			_ = ep.end.WritePacket(mkPacket(ch))
		}
	}
	if !quiesce("after final feed") {
		r.Case(h.desc(), false)
		return
	}
	// (b) callbacks against the release / removal log
	dl := m.Deliveries()
	for _, d := range dl {
		hd := hands[d.Handler]
		s := subs[hd.sub]
		r.Count("handler_callbacks", 1)
		if !strings.HasSuffix(d.Data, "/"+s.ch) {
			r.Violation("floodsub/handed-wrong-channel", fmt.Sprintf("handler of %q was handed %q", s.ch, d.Data), wit(nil))
		}
		if hd.removedAt != 0 && d.T > hd.removedAt {
			r.Violation("floodsub/callback-after-handler-removed",
				fmt.Sprintf("handler %d (channel %s) was invoked at logical time %d, after its remove function had returned at %d", d.Handler, s.ch, d.T, hd.removedAt), wit(map[string]any{"delivery": d}))
		}
		if s.releasedAt != 0 && d.T > s.releasedAt {
			r.Violation("floodsub/callback-after-release",
				fmt.Sprintf("handler %d of subscription %d (channel %s) was invoked at logical time %d, after Release had returned at %d", d.Handler, hd.sub, s.ch, d.T, s.releasedAt), wit(map[string]any{"delivery": d}))
		}
	}
	r.Distinct("histories", h.desc())
	nontrivial := len(dl) > 0 && len(eps) > 0 && len(subs) > 0
	r.Case(h.desc(), nontrivial)
	if nontrivial {
		r.Count("histories_nontrivial", 1)
	}
	r.Count("histories", 1)
	r.Sample(map[string]any{"case": h.Idx, "history": h.desc(), "callbacks": len(dl), "neighbours": len(eps)})
}

func subFrames(fs []*g9mesh.Frame) []string {
	var out []string
	for _, f := range fs {
		if !f.Parsed || len(f.Pubs) > 0 && len(f.Subs) == 0 {
			continue
		}
		var sb strings.Builder
		fmt.Fprintf(&sb, "t%d:", f.Tx)
		for _, s := range f.Subs {
			if s.Subscribe {
				sb.WriteString("+" + s.Channel)
			} else {
				sb.WriteString("-" + s.Channel)
			}
		}
		out = append(out, sb.String())
	}
	return out
}

func TestC29(t *testing.T) {
	r := vf.Start(t, "C29", vf.Exploration)
	defer r.Finish()
	r.SetRule("(a) opener rule: two real pubsub controllers (stub router, captured EstablishLinkWithPeer reference handler) are handed the two ends of one link as fake mounted links, for pairs of distinct peer ids (real Ed25519 ids; ids sharing all but the last byte; one id a prefix of the other; leading-zero ids; one-bit mutations), delivered concurrently in opposite orders; at controller quiescence (no tracker goroutine alive, Execute loops parked) OpenMountedStream calls over both ends must total exactly 1. (b)+(c): histories of exec / subscribe / add-handler / remove-handler / release / add-peer-stream on one real FloodSub node, each operation raced with 0-6 authentic publishes written by harness-driven neighbours, gaps none / scheduler yields / exact quiescence (every fifth history is a pure burst); (b) a callback logged at logical time t > removeReturned(handler) or t > releaseReturned(subscription) is a violation (callbacks run under the subscription mutex that remove/release take); (c) at every exact quiescent point each neighbour's replayed view (Subscribe true/false packets on the tap) equals the node's set of channels with a live subscription; finally everything is released, views must be empty and a last feed must reach no handler. Non-trivial: (a) exactly one open observed; (b,c) history with at least one neighbour, one subscription and one callback.")
	r.Assume("exactly one side opens is checked per delivered link value, not one open per link for all time (DESIGN 8)")
	r.Assume("AddHandler on an already released subscription is not exercised")
	env, err := getEnv()
	if err != nil {
		t.Fatalf("env: %v", err)
	}
	setWatchdog(r)
	pool := keys.Pool(r.Rand("c29-keys"), 48)
	jr := newJournal(r)
	// (a)
	pairs := genPairs(r.Rand("c29a"), keys.Pool(r.Rand("c29a-keys"), r.N(96, 600)), r.N(2000, 40000))
	runC29a(r, env, pairs, r.N(250, 1000), jr)
	// (b), (c)
	rng := r.Rand("c29bc")
	n := r.N(200, 2500)
	hs := make([]*c29hist, n)
	for i := range hs {
		hs[i] = genC29(rng, i)
	}
	parallel(n, 16, func(i int) { runC29bc(r, env, pool, hs[i], jr) })
	r.Extra("goroutine_snapshots", env.W.Taken())
}
