package fsub

// C29 families (e) and (f): subscription changes against streams that do not
// drain.
//
// (e) back-pressure at the moment of a subscription change: the streams towards
// some subscribed neighbours are stalled (their writes block), K publications are
// forwarded to them (K around the size of the per-peer send queue: below, exactly
// full, beyond), then the local subscription set changes (release of the last
// subscription, new channel, release + re-subscribe ...) while the queue is in
// that state; only then the streams drain again.
//
// (f) stream replacement with the OLD stream stalled: the stream of an existing
// (peer, link) tuple is replaced (AddPeerStream for the same tuple) while the old
// session is stuck in a stream write, so that the old session outlives the start
// of its replacement; then the old stream drains or is closed (the old session
// exits late), then the subscription set changes and messages are published.
//
// Oracle (unchanged, (c)): at exact quiescence every neighbour's view, replayed
// from the Subscribe true/false packets on its CURRENT stream, equals the node's
// set of channels with a live subscription; plus (b) no callback after Release.
// All waiting is condition based (goroutine states, pipe counters).

import (
	"fmt"
	"math/rand/v2"
	"strings"
	"sync/atomic"
	"time"

	"github.com/aperturerobotics/bifrost/hash"
	"github.com/aperturerobotics/bifrost/peer"
	"github.com/aperturerobotics/bifrost/pubsub"
	"github.com/aperturerobotics/bifrost/pubsub/floodsub"
	"github.com/aperturerobotics/bifrost/pubsub/util/pubmessage"

	"verifharness/g9mesh"
	"verifharness/keys"
	"verifharness/vf"
)

// bgCall is a harness call into floodsub that runs in its own goroutine because
// it may block (full send queue, floodsub mutex held by a blocked router).
type bgCall struct {
	goid atomic.Int64
	fin  chan struct{}
}

func (b *bgCall) done() bool {
	select {
	case <-b.fin:
		return true
	default:
		return false
	}
}

func startCall(m *g9mesh.Mesh, f func()) *bgCall {
	b := &bgCall{fin: make(chan struct{})}
	m.Go(func() {
		defer close(b.fin)
		b.goid.Store(g9mesh.CurGoid())
		f()
	})
	return b
}

// settled: the call has returned or is parked on a floodsub lock.
func (b *bgCall) settled(m *g9mesh.Mesh) bool {
	if b.done() {
		return true
	}
	id := b.goid.Load()
	return id != 0 && m.GoroutineParkedOnMutex(id)
}

// waitRest waits until the node rests against the closed gates: every call of
// must is settled, and either the router is parked on a full per-peer send queue
// ("backpressure") or every call of all has returned and the mesh is exactly
// quiescent ("quiescent"). ok=false: watchdog (inconclusive).
func waitRest(m *g9mesh.Mesh, must, all []*bgCall) (rest string, ok bool) {
	deadline := time.Now().Add(watchdog)
	for {
		set := true
		for _, c := range must {
			if !c.settled(m) {
				set = false
			}
		}
		if set {
			if bp, _ := m.Backpressured(); bp {
				return "backpressure", true
			}
			fin := true
			for _, c := range all {
				if !c.done() {
					fin = false
				}
			}
			if fin {
				if q, _ := m.QuiescentNow(); q {
					return "quiescent", true
				}
			}
		}
		if time.Now().After(deadline) {
			return "", false
		}
		time.Sleep(2 * time.Millisecond)
	}
}

func waitCalls(cs []*bgCall) bool {
	t := time.NewTimer(watchdog)
	defer t.Stop()
	for _, c := range cs {
		select {
		case <-c.fin:
		case <-t.C:
			return false
		}
	}
	return true
}

// ---- shared node-under-test state ----

type gsub struct {
	ch         string
	h          pubsub.Subscription
	releasedAt int64
}

type gneigh struct {
	id  peer.ID
	uu  uint64
	cur *g9mesh.Duplex // current stream
	end *g9mesh.End
	old []*g9mesh.Duplex
}

type gnode struct {
	r      *vf.Run
	m      *g9mesh.Mesh
	V, F   *keys.Identity
	tag    string
	desc   string
	idx    int
	subs   []*gsub
	neigh  []*gneigh
	nmsg   int
	judged int
}

func (g *gnode) wit(extra map[string]any) map[string]any {
	w := map[string]any{"scenario": g.desc, "case": g.idx}
	for k, v := range extra {
		w[k] = v
	}
	return w
}

func (g *gnode) subscribe(ch string) bool {
	sh, err := g.m.Nodes[0].FS.AddSubscription(g.m.Ctx, g.V.Priv, ch)
	if err != nil {
		g.r.Inconclusive("AddSubscription: " + err.Error())
		return false
	}
	id := len(g.subs)
	g.subs = append(g.subs, &gsub{ch: ch, h: sh})
	sh.AddHandler(g.m.Handler(0, id, id, ch))
	return true
}

func (g *gnode) release(i int) {
	s := g.subs[i]
	if s.releasedAt != 0 {
		return
	}
	s.h.Release()
	s.releasedAt = g.m.Clk.Tick()
	g.r.Count("releases", 1)
}

func (g *gnode) liveOn(ch string) []int {
	var l []int
	for i, s := range g.subs {
		if s.ch == ch && s.releasedAt == 0 {
			l = append(l, i)
		}
	}
	return l
}

func (g *gnode) live() map[string]bool {
	l := map[string]bool{}
	for _, s := range g.subs {
		if s.releasedAt == 0 {
			l[s.ch] = true
		}
	}
	return l
}

// change applies one subscription-change operation (called from a bgCall).
func (g *gnode) change(op string) {
	switch op {
	case "rel-A", "rel-B", "rel-C":
		ch := map[string]string{"rel-A": "c1", "rel-B": "c2", "rel-C": "c3"}[op]
		for _, i := range g.liveOn(ch) {
			g.release(i)
		}
	case "rel-A-one":
		if l := g.liveOn("c1"); len(l) > 0 {
			g.release(l[0])
		}
	case "sub-A", "sub-B", "sub-C":
		g.subscribe(map[string]string{"sub-A": "c1", "sub-B": "c2", "sub-C": "c3"}[op])
	}
	g.r.Count("gated_subscription_changes", 1)
}

func (g *gnode) payload(ch string) string {
	g.nmsg++
	return fmt.Sprintf("%s/m%d/%s", g.tag, g.nmsg, ch)
}

func (g *gnode) packet(pay, ch string) *floodsub.Packet {
	msg, _, err := pubmessage.NewPubMessage(ch, g.F.Priv, hash.HashType_HashType_SHA256, []byte(pay))
	if err != nil {
		panic(err)
	}
	return &floodsub.Packet{Publish: []*peer.SignedMsg{msg}}
}

// publisher returns a function issuing the given payloads on ch from source
// (payloads are made up front: single PRNG / counter user).
func (g *gnode) publisher(source string, via int, ch string, pays []string) func() {
	var sub pubsub.Subscription
	if l := g.liveOn(ch); len(l) > 0 {
		sub = g.subs[l[0]].h
	}
	if source == "sub-publish" && sub == nil {
		source = "fs-publish"
	}
	var pkts []*floodsub.Packet
	if source == "feed" {
		for _, p := range pays {
			pkts = append(pkts, g.packet(p, ch))
		}
	}
	node := g.m.Nodes[0]
	return func() {
		for i, p := range pays {
			switch source {
			case "feed":
				_ = g.neigh[via].end.WritePacket(pkts[i])
			case "sub-publish":
				_ = sub.Publish([]byte(p))
			default:
				_ = node.FS.(g9mesh.Publisher).Publish(g.m.Ctx, ch, g.F.Priv, []byte(p))
			}
			g.r.Count("gated_publications_"+source, 1)
		}
	}
}

func (g *gnode) announce(n *gneigh, chans []string, on bool) {
	if len(chans) == 0 {
		return
	}
	pkt := &floodsub.Packet{}
	for _, ch := range chans {
		pkt.Subscriptions = append(pkt.Subscriptions, &floodsub.SubscriptionOpts{ChannelId: ch, Subscribe: on})
	}
	_ = n.end.WritePacket(pkt)
}

func (g *gnode) quiesce(stage string) bool {
	ok, busy := g.m.WaitQuiescent(watchdog)
	g.r.Count("quiescence_waits", 1)
	if !ok {
		g.r.Inconclusive(fmt.Sprintf("C29 gated case %d: no quiescence at %s (%s)", g.idx, stage, busy))
	}
	return ok
}

// checkViews is oracle (c) over every neighbour's CURRENT stream.
func (g *gnode) checkViews(stage string) {
	want := g.live()
	for i, n := range g.neigh {
		fr := n.cur.AB.Frames()
		got := replayView(fr)
		g.r.Count("neighbour_views_checked", 1)
		g.judged++
		g.r.Distinct("view_states", setStr(want)+"/"+setStr(got))
		extra := map[string]any{"neighbour": i, "view": setStr(got), "live": setStr(want), "subscription_frames": subFrames(fr), "streams_of_this_neighbour_so_far": 1 + len(n.old)}
		for ch := range got {
			if !want[ch] {
				g.r.Violation("floodsub/peer-not-told-unsubscribe",
					fmt.Sprintf("quiescent node (%s): neighbour %d was told the node wants channel %q and never told otherwise on its current stream, but the node has no live subscription to it (live=%s)", stage, i, ch, setStr(want)),
					g.wit(extra))
			}
		}
		for ch := range want {
			if !got[ch] {
				g.r.Violation("floodsub/peer-not-told-subscribe",
					fmt.Sprintf("quiescent node (%s): neighbour %d was never told on its current stream about live channel %q (view=%s)", stage, i, ch, setStr(got)),
					g.wit(extra))
			}
		}
	}
}

// checkCallbacks is oracle (b).
func (g *gnode) checkCallbacks() int {
	dl := g.m.Deliveries()
	for _, d := range dl {
		s := g.subs[d.Handler]
		g.r.Count("handler_callbacks", 1)
		if !strings.HasSuffix(d.Data, "/"+s.ch) {
			g.r.Violation("floodsub/handed-wrong-channel", fmt.Sprintf("handler of %q was handed %q", s.ch, d.Data), g.wit(nil))
		}
		if s.releasedAt != 0 && d.T > s.releasedAt {
			g.r.Violation("floodsub/callback-after-release",
				fmt.Sprintf("handler of subscription %d (channel %s) was invoked at logical time %d, after Release had returned at %d", d.Handler, s.ch, d.T, s.releasedAt), g.wit(map[string]any{"delivery": d}))
		}
	}
	return len(dl)
}

// finish releases everything, checks the (then empty) views and that a last feed reaches no handler.
func (g *gnode) finish() bool {
	for i := range g.subs {
		g.release(i)
	}
	if !g.quiesce("after final releases") {
		return false
	}
	g.checkViews("after releasing every subscription")
	for _, n := range g.neigh {
		for _, ch := range c29chans {
			_ = n.end.WritePacket(g.packet(g.payload(ch), ch))
		}
	}
	return g.quiesce("after final feed")
}

// ---------- (e) back-pressure at the moment of a subscription change ----------

type c29bpNeigh struct {
	Announce []string
	Stalled  bool
}

type c29bp struct {
	Idx     int
	NSubA   int
	SubB    bool
	Neigh   []c29bpNeigh
	K       int
	Source  string
	Via     int
	Changes []string
	Order   []int // un-stall order (neighbour indexes)
	QB      bool  // wait for exact quiescence between un-stalls
}

func (c *c29bp) desc() string {
	return fmt.Sprintf("backpressure subsA=%d subB=%v neighbours=%v K=%d source=%s via=%d changes=%v unstall=%v qb=%v", c.NSubA, c.SubB, c.Neigh, c.K, c.Source, c.Via, c.Changes, c.Order, c.QB)
}

func genC29bp(rng *rand.Rand, idx int) *c29bp {
	c := &c29bp{Idx: idx, NSubA: 1 + rng.IntN(2), SubB: rng.IntN(3) == 0}
	nn := 1 + rng.IntN(3)
	for i := 0; i < nn; i++ {
		n := c29bpNeigh{Announce: []string{"c1"}, Stalled: i == 0 || rng.IntN(2) == 0}
		if i > 0 && rng.IntN(4) == 0 {
			n.Announce = nil // a neighbour that wants nothing: its queue stays empty
		}
		if rng.IntN(3) == 0 {
			n.Announce = append(n.Announce, "c2")
		}
		c.Neigh = append(c.Neigh, n)
	}
	// the number of publications forwarded into the stalled streams: around the
	// per-peer queue size (one packet stuck in the write + 32 queued)
	switch k := rng.IntN(10); {
	case k < 5:
		c.K = 30 + rng.IntN(7)
	case k < 7:
		c.K = rng.IntN(30)
	default:
		c.K = 37 + rng.IntN(60)
	}
	if idx%4 == 0 {
		c.K = 32 + (idx/4)%4 // 32..35 show up regularly
	}
	c.Source = []string{"sub-publish", "fs-publish", "feed"}[rng.IntN(3)]
	if c.Source == "feed" {
		if nn < 2 {
			c.Source = "fs-publish"
		} else {
			c.Via = 1 + rng.IntN(nn-1) // never the (always stalled, always subscribed) neighbour 0
		}
	}
	first := "rel-A"
	if rng.IntN(10) >= 7 {
		first = []string{"sub-C", "rel-A-one", "rel-B"}[rng.IntN(3)]
	}
	c.Changes = []string{first}
	for k := rng.IntN(3); k > 0; k-- {
		c.Changes = append(c.Changes, []string{"rel-A", "sub-C", "sub-A", "rel-B", "rel-C", "rel-A-one", "sub-B"}[rng.IntN(7)])
	}
	for i, n := range c.Neigh {
		if n.Stalled {
			c.Order = append(c.Order, i)
		}
	}
	rng.Shuffle(len(c.Order), func(i, j int) { c.Order[i], c.Order[j] = c.Order[j], c.Order[i] })
	c.QB = rng.IntN(3) == 0
	return c
}

func newGnode(r *vf.Run, env *g9mesh.Env, pool []*keys.Identity, rng *rand.Rand, idx int, tag, desc string) (*gnode, []int) {
	perm := rng.Perm(len(pool))
	m, err := g9mesh.NewMesh(env, []*keys.Identity{pool[perm[0]]})
	if err != nil {
		r.Inconclusive("NewMesh: " + err.Error())
		return nil, nil
	}
	m.Adopt()
	return &gnode{r: r, m: m, V: pool[perm[0]], F: pool[perm[1]], tag: tag, desc: desc, idx: idx}, perm[2:]
}

func runC29bp(r *vf.Run, env *g9mesh.Env, pool []*keys.Identity, c *c29bp, jr *journal) {
	jr.begin(200000+c.Idx, c.desc())
	defer jr.end(200000 + c.Idx)
	rng := rand.New(rand.NewPCG(uint64(c.Idx)+90001, r.Seed()))
	g, rest := newGnode(r, env, pool, rng, c.Idx, fmt.Sprintf("bp%d", c.Idx), c.desc())
	if g == nil {
		return
	}
	defer g.m.Close()
	fail := func() { r.Case(c.desc(), false) }
	openAll := func() {
		for _, n := range g.neigh {
			n.cur.AB.StallWrites(false)
		}
	}
	g.m.Nodes[0].Exec()
	for i := 0; i < c.NSubA; i++ {
		if !g.subscribe("c1") {
			fail()
			return
		}
	}
	if c.SubB && !g.subscribe("c2") {
		fail()
		return
	}
	for i, ns := range c.Neigh {
		n := &gneigh{id: pool[rest[i]].ID, uu: g.m.NextUUID()}
		n.cur, n.end = g.m.AttachLink(0, n.id, n.uu, rng.IntN(2) == 0)
		g.neigh = append(g.neigh, n)
		g.announce(n, ns.Announce, true)
	}
	if !g.quiesce("setup") {
		fail()
		return
	}
	g.checkViews("after setup")
	for i, ns := range c.Neigh {
		if ns.Stalled {
			g.neigh[i].cur.AB.StallWrites(true)
			r.Count("gates_closed_stall", 1)
		}
	}
	pays := make([]string, c.K)
	for i := range pays {
		pays[i] = g.payload("c1")
	}
	pubs := startCall(g.m, g.publisher(c.Source, c.Via, "c1", pays))
	rest1, ok := waitRest(g.m, []*bgCall{pubs}, []*bgCall{pubs})
	if !ok {
		r.Inconclusive(fmt.Sprintf("C29 gated case %d: node did not come to rest against the stalled streams after the publications (watchdog)", c.Idx))
		openAll()
		fail()
		return
	}
	blocked := 0
	for i, ns := range c.Neigh {
		if ns.Stalled && g.neigh[i].cur.AB.WritersBlocked() > 0 {
			blocked++
		}
	}
	r.Count("bp_rest_after_publications_"+rest1, 1)
	// the subscription changes, issued while the queues are in that state
	chg := startCall(g.m, func() {
		for _, op := range c.Changes {
			g.change(op)
		}
	})
	rest2, ok := waitRest(g.m, []*bgCall{chg}, []*bgCall{pubs, chg})
	if !ok {
		r.Inconclusive(fmt.Sprintf("C29 gated case %d: node did not come to rest against the stalled streams after the subscription changes (watchdog)", c.Idx))
		openAll()
		fail()
		return
	}
	r.Count("bp_rest_after_changes_"+rest2, 1)
	if chg.done() {
		r.Count("bp_changes_returned_while_stalled", 1)
	} else {
		r.Count("bp_changes_parked_on_floodsub_lock_while_stalled", 1)
	}
	for _, i := range c.Order {
		g.neigh[i].cur.AB.StallWrites(false)
		if c.QB && rest2 == "quiescent" {
			if !g.quiesce("between un-stalls") {
				openAll()
				fail()
				return
			}
		}
	}
	if !waitCalls([]*bgCall{pubs, chg}) {
		r.Inconclusive(fmt.Sprintf("C29 gated case %d: calls did not return after the streams were un-stalled (watchdog)", c.Idx))
		fail()
		return
	}
	if !g.quiesce("after un-stall") {
		fail()
		return
	}
	g.checkViews(fmt.Sprintf("after un-stalling; %d publications and changes %v were issued against stalled streams", c.K, c.Changes))
	if !g.finish() {
		fail()
		return
	}
	ncb := g.checkCallbacks()
	r.Distinct("bp_shapes", fmt.Sprintf("K=%d/%s/%v/%s/%s", c.K, c.Source, c.Changes, rest1, rest2))
	r.Distinct("bp_queue_fill", fmt.Sprint(c.K))
	r.Count("bp_scenarios", 1)
	// non-trivial: a stalled stream really had a writer stuck and views were judged
	_ = ncb
	nontrivial := blocked > 0 && g.judged > 0
	r.Case(c.desc(), nontrivial)
	if c.Idx < 2 {
		r.Sample(map[string]any{"case": c.Idx, "scenario": c.desc(), "rest_after_publications": rest1, "rest_after_changes": rest2, "stalled_streams_with_blocked_writer": blocked})
	}
}

// ---------- (f) stream replacement with the old stream stalled ----------

type c29rp struct {
	Idx      int
	NSubA    int
	SubB     bool
	Second   bool     // a second, ordinary neighbour
	Announce []string // what the replaced neighbour announces on its first stream
	Repl     int      // replacements of the stream of the one tuple
	Stuck    []int    // per replacement: publications forwarded into the stalled old stream before it is replaced (0: old session is idle and exits at once)
	Source   string
	Rean     []bool   // per replacement: the neighbour announces its channels again on the new stream
	Mid      []string // subscription changes while the old streams are still stalled
	End      []string // per replaced stream: "unstall" or "close"
	EndQ     bool     // exact quiescence after each old stream ended
	After    []string // subscription changes after the old sessions have gone
	PubAfter int
}

func (c *c29rp) desc() string {
	return fmt.Sprintf("replace subsA=%d subB=%v second=%v announce=%v repl=%d stuck=%v source=%s reannounce=%v mid=%v end=%v endq=%v after=%v pubafter=%d",
		c.NSubA, c.SubB, c.Second, c.Announce, c.Repl, c.Stuck, c.Source, c.Rean, c.Mid, c.End, c.EndQ, c.After, c.PubAfter)
}

func genC29rp(rng *rand.Rand, idx int) *c29rp {
	c := &c29rp{Idx: idx, NSubA: 1 + rng.IntN(2), SubB: rng.IntN(3) == 0, Second: rng.IntN(3) == 0, Announce: []string{"c1"}}
	if rng.IntN(3) == 0 {
		c.Announce = append(c.Announce, "c2")
	}
	c.Repl = 1
	if rng.IntN(4) == 0 {
		c.Repl = 2
	}
	for i := 0; i < c.Repl; i++ {
		st := 1 + rng.IntN(3)
		switch rng.IntN(8) {
		case 0:
			st = 0
		case 1:
			st = 4 + rng.IntN(20)
		}
		c.Stuck = append(c.Stuck, st)
		c.Rean = append(c.Rean, rng.IntN(2) == 0)
		c.End = append(c.End, []string{"unstall", "close"}[rng.IntN(2)])
	}
	c.Source = []string{"sub-publish", "fs-publish"}[rng.IntN(2)]
	if c.Second && rng.IntN(2) == 0 {
		c.Source = "feed"
	}
	if rng.IntN(4) == 0 {
		c.Mid = []string{[]string{"sub-C", "rel-A-one", "sub-B"}[rng.IntN(3)]}
	}
	c.EndQ = rng.IntN(2) == 0
	first := "rel-A"
	if rng.IntN(10) >= 7 {
		first = []string{"sub-C", "rel-B", "sub-B"}[rng.IntN(3)]
	}
	c.After = []string{first}
	for k := rng.IntN(3); k > 0; k-- {
		c.After = append(c.After, []string{"rel-A", "sub-C", "sub-A", "rel-B", "rel-C", "sub-B"}[rng.IntN(6)])
	}
	c.PubAfter = rng.IntN(4)
	return c
}

func runC29rp(r *vf.Run, env *g9mesh.Env, pool []*keys.Identity, c *c29rp, jr *journal) {
	jr.begin(300000+c.Idx, c.desc())
	defer jr.end(300000 + c.Idx)
	rng := rand.New(rand.NewPCG(uint64(c.Idx)+170003, r.Seed()))
	g, rest := newGnode(r, env, pool, rng, c.Idx, fmt.Sprintf("rp%d", c.Idx), c.desc())
	if g == nil {
		return
	}
	defer g.m.Close()
	fail := func() { r.Case(c.desc(), false) }
	g.m.Nodes[0].Exec()
	for i := 0; i < c.NSubA; i++ {
		if !g.subscribe("c1") {
			fail()
			return
		}
	}
	if c.SubB && !g.subscribe("c2") {
		fail()
		return
	}
	n := &gneigh{id: pool[rest[0]].ID, uu: g.m.NextUUID()}
	n.cur, n.end = g.m.AttachLink(0, n.id, n.uu, rng.IntN(2) == 0)
	g.neigh = append(g.neigh, n)
	g.announce(n, c.Announce, true)
	if c.Second {
		n2 := &gneigh{id: pool[rest[1]].ID, uu: g.m.NextUUID()}
		n2.cur, n2.end = g.m.AttachLink(0, n2.id, n2.uu, rng.IntN(2) == 0)
		g.neigh = append(g.neigh, n2)
		g.announce(n2, []string{"c1", "c3"}, true)
	}
	if !g.quiesce("setup") {
		fail()
		return
	}
	g.checkViews("after setup")
	openOld := func() {
		for _, d := range n.old {
			d.AB.StallWrites(false)
		}
		n.cur.AB.StallWrites(false)
	}
	outlived := 0
	for rep := 0; rep < c.Repl; rep++ {
		old := n.cur
		old.AB.StallWrites(true)
		r.Count("gates_closed_stall", 1)
		if k := c.Stuck[rep]; k > 0 {
			pays := make([]string, k)
			for i := range pays {
				pays[i] = g.payload("c1")
			}
			pubs := startCall(g.m, g.publisher(c.Source, 1, "c1", pays))
			rst, ok := waitRest(g.m, []*bgCall{pubs}, []*bgCall{pubs})
			if !ok || rst != "quiescent" {
				if ok {
					// cannot happen with k <= 24 (< queue size); never replace a stream from
					// this goroutine while the router holds the floodsub lock
					r.Inconclusive(fmt.Sprintf("C29 replace case %d: unexpected back-pressure with %d publications", c.Idx, k))
				} else {
					r.Inconclusive(fmt.Sprintf("C29 replace case %d: node did not come to rest against the stalled old stream (watchdog)", c.Idx))
				}
				openOld()
				fail()
				return
			}
			if old.AB.WritersBlocked() > 0 {
				outlived++
				r.Count("rp_old_session_stuck_in_stream_write_at_replacement", 1)
			}
		}
		// replace the stream of the same (peer, link) tuple
		n.old = append(n.old, old)
		n.cur, n.end = g.m.AttachLink(0, n.id, n.uu, rng.IntN(2) == 0)
		r.Count("stream_replacements", 1)
		if c.Rean[rep] {
			g.announce(n, c.Announce, true)
		}
		// the replacement session has started once the router is idle again
		if !g.quiesce(fmt.Sprintf("after replacement %d", rep)) {
			openOld()
			fail()
			return
		}
		if old.AB.WritersBlocked() > 0 {
			r.Count("rp_old_session_alive_after_replacement_started", 1)
		}
		g.checkViews(fmt.Sprintf("after replacement %d (old stream still stalled)", rep))
	}
	if len(c.Mid) > 0 {
		for _, op := range c.Mid {
			g.change(op)
		}
		if !g.quiesce("after changes with the old streams still stalled") {
			openOld()
			fail()
			return
		}
		g.checkViews(fmt.Sprintf("after changes %v with the old streams still stalled", c.Mid))
	}
	// the old streams end: the old sessions exit late
	order := rng.Perm(len(n.old))
	for _, i := range order {
		if c.End[i] == "close" {
			n.old[i].Close()
		} else {
			n.old[i].AB.StallWrites(false)
		}
		r.Count("rp_old_stream_end_"+c.End[i], 1)
		if c.EndQ {
			if !g.quiesce("after an old stream ended") {
				openOld()
				fail()
				return
			}
		}
	}
	if !g.quiesce("after the old streams ended") {
		openOld()
		fail()
		return
	}
	g.checkViews("after the old streams ended")
	// publications while the neighbour is (still) subscribed, then the changes
	var before []string
	for i := 0; i < c.PubAfter; i++ {
		before = append(before, g.payload("c1"))
	}
	if len(before) > 0 {
		src := c.Source
		g.publisher(src, 1, "c1", before)()
		if !g.quiesce("after publications on the replaced stream") {
			fail()
			return
		}
		// observation only (delivery is C28's clause): copies on the neighbour's current stream
		seen := map[string]int{}
		for _, f := range n.cur.AB.Frames() {
			for _, pi := range f.Pubs {
				seen[pi.Payload]++
			}
		}
		for _, p := range before {
			r.Count(fmt.Sprintf("rp_copies_on_current_stream_%d", min(seen[p], 2)), 1)
		}
	}
	for _, op := range c.After {
		g.change(op)
	}
	if !g.quiesce("after the subscription changes") {
		fail()
		return
	}
	g.checkViews(fmt.Sprintf("after changes %v following %d replacement(s) whose old sessions outlived the start of the new one", c.After, c.Repl))
	if !g.finish() {
		fail()
		return
	}
	ncb := g.checkCallbacks()
	r.Distinct("rp_shapes", fmt.Sprintf("%d/%v/%v/%v/%v/%v", c.Repl, c.Stuck, c.Rean, c.End, c.Mid, c.After))
	r.Count("rp_scenarios", 1)
	_ = ncb
	r.Case(c.desc(), outlived > 0 && g.judged > 0)
	if c.Idx < 2 {
		r.Sample(map[string]any{"case": c.Idx, "scenario": c.desc(), "old_sessions_that_outlived_their_replacement": outlived})
	}
}
