package fsub

// C29 family (g): subscription LIFECYCLES on one channel. The node subscribes,
// releases its last subscription to the channel, comes to exact quiescence (so
// the unsubscribe was announced to the connected neighbours) and subscribes to
// the SAME channel again, 1-3 cycles, also without quiescence in between, with
// 1-3 harness-driven neighbours connected all the time (and sometimes one that
// connects late and gets the initial set). Oracle (c) at every exact quiescent
// point: each neighbour's view, replayed from the Subscribe true/false packets on
// its stream, equals the node's channels with a live subscription; (b) no
// callback after Release; a message fed after each re-subscription must reach
// the new subscription's handler (observed, counted; delivery itself is C28).

import (
	"fmt"
	"math/rand/v2"

	"verifharness/g9mesh"
	"verifharness/keys"
	"verifharness/vf"
)

type c29life struct {
	Idx    int
	Neigh  int
	NSub   []int    // per cycle: subscriptions made on the cycled channel (1-2)
	Gap    []string // per cycle: "quiesce" (release, exact quiescence, subscribe) or "none"
	Chan   string
	Other  string // another channel subscribed throughout ("" = none)
	Late   bool   // a further neighbour connects after the last re-subscription
	FeedIn bool   // a neighbour publishes on the channel after every re-subscription
}

func (c *c29life) desc() string {
	return fmt.Sprintf("lifecycle chan=%s other=%q neighbours=%d subs-per-cycle=%v gaps=%v late-neighbour=%v feed=%v", c.Chan, c.Other, c.Neigh, c.NSub, c.Gap, c.Late, c.FeedIn)
}

func genC29life(rng *rand.Rand, idx int) *c29life {
	c := &c29life{Idx: idx, Neigh: 1 + rng.IntN(3), Chan: c29chans[rng.IntN(2)], Late: rng.IntN(3) == 0, FeedIn: rng.IntN(4) != 0}
	if rng.IntN(3) == 0 {
		c.Other = "c3"
	}
	for n := 2 + rng.IntN(3); n > 0; n-- { // first subscription + 1-3 re-subscriptions
		c.NSub = append(c.NSub, 1+rng.IntN(2))
		g := "quiesce"
		if len(c.Gap) > 0 && rng.IntN(4) == 0 {
			g = "none"
		}
		c.Gap = append(c.Gap, g)
	}
	return c
}

func runC29life(r *vf.Run, env *g9mesh.Env, pool []*keys.Identity, c *c29life, jr *journal) {
	jr.begin(400000+c.Idx, c.desc())
	defer jr.end(400000 + c.Idx)
	rng := rand.New(rand.NewPCG(uint64(c.Idx)+260017, r.Seed()))
	g, rest := newGnode(r, env, pool, rng, c.Idx, fmt.Sprintf("lc%d", c.Idx), c.desc())
	if g == nil {
		return
	}
	defer g.m.Close()
	fail := func() { r.Case(c.desc(), false) }
	g.m.Nodes[0].Exec()
	attach := func(i int) {
		n := &gneigh{id: pool[rest[i]].ID, uu: g.m.NextUUID()}
		n.cur, n.end = g.m.AttachLink(0, n.id, n.uu, rng.IntN(2) == 0)
		g.neigh = append(g.neigh, n)
		g.announce(n, []string{c.Chan}, true)
	}
	for i := 0; i < c.Neigh; i++ {
		attach(i)
	}
	if c.Other != "" && !g.subscribe(c.Other) {
		fail()
		return
	}
	if !g.quiesce("setup") {
		fail()
		return
	}
	g.checkViews("after setup")
	quiescedCycles, fedBack := 0, 0
	for cyc := range c.NSub {
		if cyc > 0 {
			// release the last subscription(s) to the channel
			for _, i := range g.liveOn(c.Chan) {
				g.release(i)
			}
			if c.Gap[cyc] == "quiesce" {
				if !g.quiesce(fmt.Sprintf("after release %d", cyc)) {
					fail()
					return
				}
				g.checkViews(fmt.Sprintf("after releasing the last subscription to %s (cycle %d)", c.Chan, cyc))
				quiescedCycles++
			}
			r.Count("lifecycle_resubscriptions_gap_"+c.Gap[cyc], 1)
		}
		for k := 0; k < c.NSub[cyc]; k++ {
			if !g.subscribe(c.Chan) {
				fail()
				return
			}
		}
		if !g.quiesce(fmt.Sprintf("after subscription %d", cyc)) {
			fail()
			return
		}
		g.checkViews(fmt.Sprintf("after subscribing to %s for the %d. time", c.Chan, cyc+1))
		if c.FeedIn {
			before := len(g.m.Deliveries())
			_ = g.neigh[rng.IntN(len(g.neigh))].end.WritePacket(g.packet(g.payload(c.Chan), c.Chan))
			if !g.quiesce("after feed") {
				fail()
				return
			}
			if len(g.m.Deliveries()) > before {
				fedBack++
			}
		}
	}
	if c.Late {
		attach(c.Neigh)
		if !g.quiesce("late neighbour") {
			fail()
			return
		}
		g.checkViews("after a late neighbour connected")
	}
	if !g.finish() {
		fail()
		return
	}
	g.checkCallbacks()
	r.Count("lifecycle_scenarios", 1)
	r.Count("lifecycle_messages_handed_to_resubscribed_handlers", fedBack)
	r.Distinct("lifecycle_shapes", fmt.Sprintf("%v/%v/%d/%q/%v", c.NSub, c.Gap, c.Neigh, c.Other, c.Late))
	r.Case(c.desc(), quiescedCycles > 0 && g.judged > 0)
	if c.Idx < 2 {
		r.Sample(map[string]any{"case": c.Idx, "scenario": c.desc(), "release_quiesce_resubscribe_cycles": quiescedCycles})
	}
}
