package fsub

import (
	"fmt"
	"math/rand/v2"
	"os"
	"strings"
	"sync"
	"testing"

	"github.com/aperturerobotics/bifrost/crypto"
	"github.com/aperturerobotics/bifrost/hash"
	"github.com/aperturerobotics/bifrost/peer"
	"github.com/aperturerobotics/bifrost/pubsub"
	"github.com/aperturerobotics/bifrost/pubsub/floodsub"
	"github.com/aperturerobotics/bifrost/pubsub/util/pubmessage"
	timestamp "github.com/aperturerobotics/protobuf-go-lite/types/known/timestamppb"

	"verifharness/g9mesh"
	"verifharness/keys"
	"verifharness/vf"
)

// the signing context of pubsub messages, copied from the documentation of
// pubsub/util/pubmessage (context constant followed by the channel id). If
// the copy were wrong no crafted honest message would be delivered and the
// run would fail as trivial.
const refPubCtx = "bifrost/pubsub/pubmessage 2024-06-05T02:38:47.55258Z channel/"

// crafted is the harness' ground truth about one message put on a wire.
type crafted struct {
	Payload string
	Class   string
	// Honest: signed by the claimed sender under refPubCtx+Channel over an
	// inner message naming Channel.
	Honest  bool
	Channel string // channel named by the inner message as sent
	From    string // claimed sender (b58)
	// Shadow: a forged variant that carries the SAME payload as an authentic
	// message (only the claimed sender / the inner channel differ). It is not
	// registered as ground truth of its own: the authentic original stays the
	// truth for that payload and the wrong-sender / wrong-channel clauses judge.
	Shadow bool
	msg    *peer.SignedMsg
}

// histRec is one message already written on the hostile stream, in wire order.
type histRec struct {
	c       *crafted
	claimed *keys.Identity // identity named as sender (nil: not a known identity)
}

// history-dependent classes: what is forged depends on what was presented on
// the same stream before (accepted or rejected).
var c27histOpeners = []string{"honest", "honest", "honest-blake3", "hist-honest-by-attacker", "honest-unsubscribed-channel"}
var c27histMiddles = []string{"hist-rejected-claiming-attacker", "hist-rejected-claiming-attacker", "hist-rejected-claiming-other", "hist-honest-by-attacker"}
var c27histForgeries = []string{
	"hist-forged-as-last-accepted-signed-by-prev-claimed",
	"hist-forged-as-earlier-sender-signed-by-attacker",
	"hist-forged-as-earlier-sender-signed-by-earlier-claimed",
	"hist-reused-signature-changed-data",
	"hist-reused-signature-changed-channel",
	"hist-reused-signature-changed-sender",
	"hist-reused-signature-on-other-message",
	"hist-reused-pubkey-of-prev-claimed",
}

var c27classes = []string{
	"honest", "honest-blake3", "honest-unsubscribed-channel", "honest-replay", "honest-bad-timestamp",
	"tampered-body", "tampered-channel", "foreign-signature", "foreign-signature-with-pubkey",
	"wrong-context-other-channel", "wrong-context-foreign", "wrong-context-no-channel",
	"empty-channel", "bad-from", "empty-from", "signature-bitflip", "signature-truncated", "signature-missing",
	"hashtype-changed", "retargeted-inner-resigned-by-other",
}

type crafter struct {
	rng     *rand.Rand
	n       int
	tag     string
	signers []*keys.Identity // honest publishers whose traffic the hostile peer relays / forges
	evil    *keys.Identity
	subbed  []string // channels V subscribes
	unsub   string   // a channel V does not subscribe (W does)
	honest  []*crafted
	hist    []histRec
	byID    map[string]*keys.Identity
}

func (c *crafter) ident(id string) *keys.Identity {
	if c.byID == nil {
		c.byID = map[string]*keys.Identity{}
		for _, k := range append([]*keys.Identity{c.evil}, c.signers...) {
			c.byID[k.ID.String()] = k
		}
	}
	return c.byID[id]
}

// lastAccepted returns the most recent authentic message of the stream history.
func (c *crafter) lastAccepted() *crafted {
	for i := len(c.hist) - 1; i >= 0; i-- {
		if c.hist[i].c.Honest {
			return c.hist[i].c
		}
	}
	return nil
}

// earlierAccepted returns a PRNG-chosen authentic message of the stream history.
func (c *crafter) earlierAccepted() *crafted {
	var hs []*crafted
	for _, h := range c.hist {
		if h.c.Honest {
			hs = append(hs, h.c)
		}
	}
	if len(hs) == 0 {
		return nil
	}
	return hs[c.rng.IntN(len(hs))]
}

// otherThan returns pref if it is a known identity different from id, else the
// attacker's identity, else some signer different from id.
func (c *crafter) otherThan(id string, pref *keys.Identity) *keys.Identity {
	if pref != nil && pref.ID.String() != id {
		return pref
	}
	if c.evil.ID.String() != id {
		return c.evil
	}
	for _, k := range c.signers {
		if k.ID.String() != id {
			return k
		}
	}
	return c.evil
}

// breakAfterSigning damages an authentic message in a PRNG-chosen way.
func (c *crafter) breakAfterSigning(out *crafted, k *keys.Identity, ch string, ht hash.HashType, in *pubmessage.PubMessageInner) {
	switch c.rng.IntN(4) {
	case 0: // body replaced after signing
		out.msg = signInner(k.Priv, refPubCtx+ch, ht, in)
		c.n++
		out.Payload = fmt.Sprintf("%s/m%d/%s-altered", c.tag, c.n, out.Class)
		reInner(out.msg, func(in *pubmessage.PubMessageInner) { in.Data = []byte(out.Payload) })
	case 1: // signature damaged
		out.msg = signInner(k.Priv, refPubCtx+ch, ht, in)
		sd := append([]byte(nil), out.msg.Signature.SigData...)
		sd[c.rng.IntN(len(sd))] ^= 1 << c.rng.UintN(8)
		out.msg.Signature.SigData = sd
	case 2: // signed under another context
		out.msg = signInner(k.Priv, refPubCtx+c.unsub, ht, in)
	default: // signed for another channel, inner channel rewritten
		in.Channel = c.unsub
		out.msg = signInner(k.Priv, refPubCtx+c.unsub, ht, in)
		reInner(out.msg, func(in *pubmessage.PubMessageInner) { in.Channel = ch })
	}
}

func signInner(priv crypto.PrivKey, ctx string, ht hash.HashType, in *pubmessage.PubMessageInner) *peer.SignedMsg {
	data, err := in.MarshalVT()
	if err != nil {
		panic(err)
	}
	m, err := peer.NewSignedMsg(ctx, priv, ht, data)
	if err != nil {
		panic(err)
	}
	return m
}

func reInner(m *peer.SignedMsg, f func(in *pubmessage.PubMessageInner)) {
	in := &pubmessage.PubMessageInner{}
	if err := in.UnmarshalVT(m.GetData()); err != nil {
		panic(err)
	}
	f(in)
	d, err := in.MarshalVT()
	if err != nil {
		panic(err)
	}
	m.Data = d
}

func (c *crafter) make(class string) *crafted {
	c.n++
	k := c.signers[c.rng.IntN(len(c.signers))]
	ch := c.subbed[c.rng.IntN(len(c.subbed))]
	pay := fmt.Sprintf("%s/m%d/%s", c.tag, c.n, class)
	in := &pubmessage.PubMessageInner{Data: []byte(pay), Channel: ch, Timestamp: timestamp.Now()}
	out := &crafted{Payload: pay, Class: class, Channel: ch, From: k.ID.String()}
	ht := hash.HashType_HashType_SHA256
	switch class {
	case "honest":
		out.msg, out.Honest = signInner(k.Priv, refPubCtx+ch, ht, in), true
	case "honest-blake3":
		out.msg, out.Honest = signInner(k.Priv, refPubCtx+ch, hash.HashType_HashType_BLAKE3, in), true
	case "honest-unsubscribed-channel":
		in.Channel, out.Channel = c.unsub, c.unsub
		out.msg, out.Honest = signInner(k.Priv, refPubCtx+c.unsub, ht, in), true
	case "honest-replay":
		if len(c.honest) == 0 {
			out.msg, out.Honest = signInner(k.Priv, refPubCtx+ch, ht, in), true
			break
		}
		c.n--
		return c.honest[c.rng.IntN(len(c.honest))]
	case "honest-bad-timestamp":
		// authentic, but the timestamp is out of range: delivering or
		// dropping are both compatible with the property
		in.Timestamp = &timestamp.Timestamp{Seconds: 1, Nanos: -5}
		out.msg, out.Honest = signInner(k.Priv, refPubCtx+ch, ht, in), true
	case "tampered-body":
		out.msg = signInner(k.Priv, refPubCtx+ch, ht, in)
		c.n++
		out.Payload = fmt.Sprintf("%s/m%d/%s-altered", c.tag, c.n, class)
		reInner(out.msg, func(in *pubmessage.PubMessageInner) { in.Data = []byte(out.Payload) })
	case "tampered-channel":
		// signed for a channel, the inner channel then rewritten to another
		// subscribed channel
		src := c.unsub
		if len(c.subbed) > 1 && c.rng.IntN(2) == 0 {
			src = c.subbed[(indexOf(c.subbed, ch)+1)%len(c.subbed)]
		}
		in.Channel = src
		out.msg = signInner(k.Priv, refPubCtx+src, ht, in)
		reInner(out.msg, func(in *pubmessage.PubMessageInner) { in.Channel = ch })
	case "foreign-signature", "foreign-signature-with-pubkey":
		out.msg = signInner(c.evil.Priv, refPubCtx+ch, ht, in)
		out.msg.FromPeerId = k.ID.String()
		if class == "foreign-signature-with-pubkey" {
			pk, err := crypto.MarshalPublicKey(c.evil.Pub)
			if err != nil {
				panic(err)
			}
			out.msg.Signature.PubKey = pk
		}
	case "wrong-context-other-channel":
		out.msg = signInner(k.Priv, refPubCtx+c.unsub, ht, in)
	case "wrong-context-foreign":
		out.msg = signInner(k.Priv, "bifrost/signaling 2024 session "+ch, ht, in)
	case "wrong-context-no-channel":
		out.msg = signInner(k.Priv, refPubCtx, ht, in)
	case "empty-channel":
		in.Channel, out.Channel = "", ""
		out.msg = signInner(k.Priv, refPubCtx, ht, in)
	case "bad-from":
		out.msg = signInner(k.Priv, refPubCtx+ch, ht, in)
		out.msg.FromPeerId = "not-a-peer-id"
		out.From = out.msg.FromPeerId
	case "empty-from":
		out.msg = signInner(k.Priv, refPubCtx+ch, ht, in)
		out.msg.FromPeerId = ""
		out.From = ""
	case "signature-bitflip":
		out.msg = signInner(k.Priv, refPubCtx+ch, ht, in)
		sd := append([]byte(nil), out.msg.Signature.SigData...)
		sd[c.rng.IntN(len(sd))] ^= 1 << c.rng.UintN(8)
		out.msg.Signature.SigData = sd
	case "signature-truncated":
		out.msg = signInner(k.Priv, refPubCtx+ch, ht, in)
		out.msg.Signature.SigData = out.msg.Signature.SigData[:c.rng.IntN(len(out.msg.Signature.SigData))]
	case "signature-missing":
		out.msg = signInner(k.Priv, refPubCtx+ch, ht, in)
		out.msg.Signature = nil
	case "hashtype-changed":
		out.msg = signInner(k.Priv, refPubCtx+ch, ht, in)
		out.msg.Signature.HashType = hash.HashType_HashType_BLAKE3
	case "retargeted-inner-resigned-by-other":
		// the attacker re-signs somebody's message with its own key but keeps
		// the victim as the claimed sender
		out.msg = signInner(k.Priv, refPubCtx+ch, ht, in)
		forged := signInner(c.evil.Priv, refPubCtx+ch, ht, in)
		out.msg.Signature = forged.Signature
	// ---- history-dependent classes ----
	case "hist-honest-by-attacker":
		// the attacker's own, authentic message (loads the attacker's key into whatever the receiver keeps per stream)
		out.From = c.evil.ID.String()
		out.msg, out.Honest = signInner(c.evil.Priv, refPubCtx+ch, ht, in), true
	case "hist-rejected-claiming-attacker":
		// names the attacker as sender, signed by the attacker, damaged after signing: must be rejected
		out.From = c.evil.ID.String()
		c.breakAfterSigning(out, c.evil, ch, ht, in)
	case "hist-rejected-claiming-other":
		// the same for a sender other than the one accepted last
		s := k
		if la := c.lastAccepted(); la != nil {
			s = c.otherThan(la.From, k)
		}
		out.From = s.ID.String()
		c.breakAfterSigning(out, s, ch, ht, in)
	case "hist-forged-as-last-accepted-signed-by-prev-claimed":
		// claims the sender of the last ACCEPTED message, signed with the key of the sender
		// named by the message presented immediately before (accepted or rejected)
		claim := k.ID.String()
		if la := c.lastAccepted(); la != nil && c.ident(la.From) != nil {
			claim = la.From
		}
		var pref *keys.Identity
		if len(c.hist) > 0 {
			pref = c.hist[len(c.hist)-1].claimed
		}
		key := c.otherThan(claim, pref)
		out.From = claim
		out.msg = signInner(key.Priv, refPubCtx+ch, ht, in)
		out.msg.FromPeerId = claim
	case "hist-forged-as-earlier-sender-signed-by-attacker":
		claim := k.ID.String()
		if ea := c.earlierAccepted(); ea != nil && c.ident(ea.From) != nil {
			claim = ea.From
		}
		key := c.otherThan(claim, c.evil)
		out.From = claim
		out.msg = signInner(key.Priv, refPubCtx+ch, ht, in)
		out.msg.FromPeerId = claim
	case "hist-forged-as-earlier-sender-signed-by-earlier-claimed":
		claim := k.ID.String()
		if ea := c.earlierAccepted(); ea != nil && c.ident(ea.From) != nil {
			claim = ea.From
		}
		var pref *keys.Identity
		if len(c.hist) > 0 {
			pref = c.hist[c.rng.IntN(len(c.hist))].claimed
		}
		key := c.otherThan(claim, pref)
		out.From = claim
		out.msg = signInner(key.Priv, refPubCtx+ch, ht, in)
		out.msg.FromPeerId = claim
	case "hist-reused-pubkey-of-prev-claimed":
		// claims an earlier accepted sender, signed by the previously named sender, and carries
		// that signer's public key in the signature (a receiver must not prefer it over the sender id)
		claim := k.ID.String()
		if ea := c.earlierAccepted(); ea != nil && c.ident(ea.From) != nil {
			claim = ea.From
		}
		var pref *keys.Identity
		if len(c.hist) > 0 {
			pref = c.hist[len(c.hist)-1].claimed
		}
		key := c.otherThan(claim, pref)
		out.From = claim
		out.msg = signInner(key.Priv, refPubCtx+ch, ht, in)
		out.msg.FromPeerId = claim
		if pk, err := crypto.MarshalPublicKey(key.Pub); err == nil {
			out.msg.Signature.PubKey = pk
		}
	case "hist-reused-signature-changed-data", "hist-reused-signature-changed-channel", "hist-reused-signature-changed-sender", "hist-reused-signature-on-other-message":
		ea := c.earlierAccepted()
		if ea == nil || c.ident(ea.From) == nil {
			// nothing accepted yet on this stream: degrade to a plain forgery
			out.msg = signInner(c.evil.Priv, refPubCtx+ch, ht, in)
			out.msg.FromPeerId = k.ID.String()
			break
		}
		out.msg = ea.msg.CloneVT()
		out.From, out.Channel = ea.From, ea.Channel
		switch class {
		case "hist-reused-signature-changed-data":
			reInner(out.msg, func(in *pubmessage.PubMessageInner) { in.Data = []byte(pay) })
		case "hist-reused-signature-changed-channel":
			// same data, inner channel re-targeted to another channel (subscribed or not)
			to := c.unsub
			for _, o := range c.subbed {
				if o != ea.Channel {
					to = o
				}
			}
			if to == ea.Channel {
				to = c.subbed[0]
			}
			if to == ea.Channel {
				// single subscribed channel and the original was for the unsubscribed one
				reInner(out.msg, func(in *pubmessage.PubMessageInner) { in.Data = []byte(pay) })
				break
			}
			out.Payload, out.Shadow = ea.Payload, true
			reInner(out.msg, func(in *pubmessage.PubMessageInner) { in.Channel = to })
		case "hist-reused-signature-changed-sender":
			// verbatim authentic message re-attributed to another identity
			o := c.otherThan(ea.From, c.signers[c.rng.IntN(len(c.signers))])
			out.Payload, out.Shadow = ea.Payload, true
			out.msg.FromPeerId = o.ID.String()
		default:
			// the accepted signature attached to a different message of the same sender
			s := c.ident(ea.From)
			fresh := signInner(s.Priv, refPubCtx+ch, ht, in)
			fresh.Signature = out.msg.Signature.CloneVT()
			out.msg = fresh
			out.Channel = ch
		}
	default:
		panic("unknown class " + class)
	}
	if out.Honest {
		c.honest = append(c.honest, out)
	}
	return out
}

// record appends a message to the stream history (call in wire order).
func (c *crafter) record(out *crafted) {
	c.hist = append(c.hist, histRec{c: out, claimed: c.ident(out.msg.GetFromPeerId())})
}

func indexOf(s []string, v string) int {
	for i, x := range s {
		if x == v {
			return i
		}
	}
	return 0
}

type c27script struct {
	Idx      int
	VSubs    []string
	Packets  [][]string // classes per hostile packet
	Chunk    int
	Garbage  string // "", "bad-proto", "oversize"
	HostSubs bool   // the hostile peer announces subscriptions
	HonestN  int    // honest API publishes by V and W interleaved
	Chains   int    // number of history-dependent forgery chains spliced into Packets
	NC       int    // number of honestly signed, non-canonically encoded messages spliced into Packets
}

func (s *c27script) desc() string {
	return fmt.Sprintf("vsubs=%v chunk=%d garbage=%q hostsubs=%v honestN=%d chains=%d noncanonical=%d packets=%v", s.VSubs, s.Chunk, s.Garbage, s.HostSubs, s.HonestN, s.Chains, s.NC, s.Packets)
}

func genC27(rng *rand.Rand, idx int) *c27script {
	s := &c27script{Idx: idx}
	switch rng.IntN(3) {
	case 0:
		s.VSubs = []string{"alpha"}
	case 1:
		s.VSubs = []string{"beta"}
	default:
		s.VSubs = []string{"alpha", "beta"}
	}
	np := 4 + rng.IntN(8)
	for p := 0; p < np; p++ {
		var cl []string
		for k := 1 + rng.IntN(3); k > 0; k-- {
			if rng.IntN(3) == 0 {
				cl = append(cl, "honest")
			} else {
				cl = append(cl, c27classes[rng.IntN(len(c27classes))])
			}
		}
		s.Packets = append(s.Packets, cl)
	}
	// every class shows up regularly: force one per script round-robin
	s.Packets = append(s.Packets, []string{c27classes[idx%len(c27classes)], "honest"})
	if idx%2 == 1 {
		// history-dependent forgeries: chains "something accepted -> something presented (accepted or
		// rejected, naming another sender) -> forgery derived from both", spliced into the script as
		// contiguous runs, split over packets in every way
		s.Chains = 2 + rng.IntN(3)
		for c := 0; c < s.Chains; c++ {
			var steps []string
			steps = append(steps, c27histOpeners[rng.IntN(len(c27histOpeners))])
			if rng.IntN(4) == 0 {
				steps = append(steps, c27histOpeners[rng.IntN(len(c27histOpeners))])
			}
			if rng.IntN(6) != 0 {
				steps = append(steps, c27histMiddles[rng.IntN(len(c27histMiddles))])
			}
			if rng.IntN(4) == 0 {
				// a further presented message of any kind between the two
				if rng.IntN(2) == 0 {
					steps = append(steps, c27histMiddles[rng.IntN(len(c27histMiddles))])
				} else {
					steps = append(steps, c27classes[rng.IntN(len(c27classes))])
				}
			}
			forg := c27histForgeries[rng.IntN(len(c27histForgeries))]
			if c == 0 {
				forg = c27histForgeries[(idx/2)%len(c27histForgeries)]
			} else if rng.IntN(3) == 0 {
				forg = c27histForgeries[0]
			}
			steps = append(steps, forg)
			if rng.IntN(3) == 0 {
				// a second forgery on the state the first one left behind
				steps = append(steps, c27histForgeries[rng.IntN(len(c27histForgeries))])
			}
			if rng.IntN(2) == 0 {
				steps = append(steps, "honest")
			}
			var run [][]string
			switch rng.IntN(3) {
			case 0: // one entry per packet
				for _, st := range steps {
					run = append(run, []string{st})
				}
			case 1: // the whole chain in one packet
				run = append(run, steps)
			default: // PRNG cuts
				cur := []string{}
				for _, st := range steps {
					cur = append(cur, st)
					if rng.IntN(2) == 0 {
						run = append(run, cur)
						cur = []string{}
					}
				}
				if len(cur) > 0 {
					run = append(run, cur)
				}
			}
			at := rng.IntN(len(s.Packets) + 1)
			s.Packets = append(s.Packets[:at:at], append(run, s.Packets[at:]...)...)
		}
		// the stream must stay live to the end
		s.Packets = append(s.Packets, []string{"honest"})
	}
	if rng.IntN(3) == 0 {
		s.Chunk = 1 + rng.IntN(9)
	}
	switch rng.IntN(8) {
	case 0:
		s.Garbage = "bad-proto"
	case 1:
		s.Garbage = "oversize"
	}
	s.HostSubs = rng.IntN(2) == 0
	s.HonestN = rng.IntN(5)
	if s.Chains > 0 {
		s.HonestN = 2 + rng.IntN(5) // other streams' traffic interleaved
	}
	return s
}

func runC27(r *vf.Run, env *g9mesh.Env, pool []*keys.Identity, s *c27script, jr *journal) {
	jr.begin(s.Idx, s.desc())
	defer jr.end(s.Idx)
	rng := rand.New(rand.NewPCG(uint64(s.Idx)+1000003, r.Seed()))
	perm := rng.Perm(len(pool))
	V, W, H, X := pool[perm[0]], pool[perm[1]], pool[perm[2]], pool[perm[3]]
	signers := []*keys.Identity{pool[perm[4]], pool[perm[5]], V, W, H}
	m, err := g9mesh.NewMesh(env, []*keys.Identity{V, W})
	if err != nil {
		r.Inconclusive("NewMesh: " + err.Error())
		return
	}
	defer m.Close()
	m.Adopt()
	all := []string{"alpha", "beta", "gamma"}
	truth := map[string]*crafted{}
	var tmu sync.Mutex
	reg := func(c *crafted) { tmu.Lock(); truth[c.Payload] = c; tmu.Unlock() }

	type hinfo struct {
		node int
		ch   string
	}
	handlers := map[int]hinfo{}
	nh := 0
	subsOf := [2]map[string]bool{{}, {}}
	var apiSubs [2]map[string]pubsub.Subscription
	apiSubs[0], apiSubs[1] = map[string]pubsub.Subscription{}, map[string]pubsub.Subscription{}
	addSub := func(node int, ch string, nhand int) bool {
		n := m.Nodes[node]
		h, err := n.FS.AddSubscription(m.Ctx, n.Ident.Priv, ch)
		if err != nil {
			r.Inconclusive("AddSubscription: " + err.Error())
			return false
		}
		for k := 0; k < nhand; k++ {
			nh++
			handlers[nh] = hinfo{node, ch}
			h.AddHandler(m.Handler(node, 0, nh, ch))
		}
		subsOf[node][ch] = true
		apiSubs[node][ch] = h
		return true
	}
	for _, ch := range s.VSubs {
		if !addSub(0, ch, 1+rng.IntN(2)) {
			return
		}
	}
	for _, ch := range all { // W subscribes everything: it would take whatever V wrongly forwards
		if !addSub(1, ch, 1) {
			return
		}
	}
	m.Nodes[0].Exec()
	m.Nodes[1].Exec()
	m.Link(0, 1, m.NextUUID(), rng.IntN(2) == 0)
	hd, hend := m.Attach(0, H.ID, rng.IntN(2) == 0)
	if s.Chunk > 0 {
		hd.BA.SetMaxRead(s.Chunk)
	}
	if ok, busy := m.WaitQuiescent(watchdog); !ok {
		r.Inconclusive(fmt.Sprintf("C27 case %d: no quiescence after setup (%s)", s.Idx, busy))
		r.Case(s.desc(), false)
		return
	}
	unsub := "gamma"
	cr := &crafter{rng: rng, tag: fmt.Sprintf("s%d", s.Idx), signers: signers, evil: X, subbed: s.VSubs, unsub: unsub}

	// all crafting happens up front (single PRNG user); the hostile writer
	// and the honest API publishers then run concurrently
	var wg sync.WaitGroup
	sent := map[string]int{}
	forged, histForged, ncSent, ncDelivered := 0, 0, 0, 0
	var pkts []*floodsub.Packet
	for _, cl := range s.Packets {
		pkt := &floodsub.Packet{}
		for _, class := range cl {
			var c *crafted
			if strings.HasPrefix(class, "nc-") {
				var shadowed *crafted
				if c, shadowed = cr.makeNC(class); shadowed != nil {
					reg(shadowed)
				}
				ncSent++
			} else {
				c = cr.make(class)
			}
			cr.record(c)
			if !c.Shadow {
				reg(c)
			}
			sent[class]++
			if !c.Honest {
				forged++
			}
			if strings.HasPrefix(class, "hist-") && !c.Honest {
				histForged++
			}
			pkt.Publish = append(pkt.Publish, c.msg)
		}
		pkts = append(pkts, pkt)
	}
	wg.Add(1)
	m.Go(func() {
		defer wg.Done()
		if s.HostSubs {
			pkt := &floodsub.Packet{}
			for _, ch := range all {
				pkt.Subscriptions = append(pkt.Subscriptions, &floodsub.SubscriptionOpts{ChannelId: ch, Subscribe: true})
			}
			_ = hend.WritePacket(pkt)
		}
		for _, pkt := range pkts {
			_ = hend.WritePacket(pkt)
		}
		switch s.Garbage {
		case "bad-proto":
			_ = hend.WriteFrame([]byte{0x0a, 0xff, 0xff, 0xff, 0xff, 0x0f, 1, 2, 3})
		case "oversize":
			_, _ = hend.Write([]byte{0xff, 0xff, 0xff, 0x7f})
		}
	})
	for k := 0; k < s.HonestN; k++ {
		node := rng.IntN(2)
		var chs []string
		for ch := range apiSubs[node] {
			chs = append(chs, ch)
		}
		// deterministic choice
		ch := all[0]
		sortStrings(chs)
		if len(chs) > 0 {
			ch = chs[rng.IntN(len(chs))]
		}
		pay := fmt.Sprintf("s%d/api%d/n%d", s.Idx, k, node)
		reg(&crafted{Payload: pay, Class: "honest-api", Honest: true, Channel: ch, From: m.Nodes[node].Ident.ID.String()})
		sub := apiSubs[node][ch]
		wg.Add(1)
		m.Go(func() {
			defer wg.Done()
			if err := sub.Publish([]byte(pay)); err != nil {
				r.Inconclusive("honest publish failed: " + err.Error())
			}
		})
	}
	wg.Wait()
	if ok, busy := m.WaitQuiescent(watchdog); !ok {
		r.Inconclusive(fmt.Sprintf("C27 case %d: no quiescence after script (%s)", s.Idx, busy))
		r.Case(s.desc(), false)
		return
	}

	wit := func(extra map[string]any) map[string]any {
		w := map[string]any{"script": s.desc(), "case": s.Idx, "V": V.ID.String(), "W": W.ID.String(), "hostile_link_peer": H.ID.String(), "attacker_key": X.ID.String()}
		for k, v := range extra {
			w[k] = v
		}
		return w
	}
	// (1) handler callbacks
	honestFromHostileDelivered := 0
	for _, d := range m.Deliveries() {
		r.Count("handler_callbacks", 1)
		c := truth[d.Data]
		hi := handlers[d.Handler]
		switch {
		case c == nil:
			r.Violation("floodsub/handed-unknown-message", fmt.Sprintf("node %d handler of %q was handed data %q that nobody signed", d.Node, hi.ch, d.Data), wit(map[string]any{"delivery": d}))
		case !c.Honest:
			r.Violation("floodsub/handed-forged/"+c.Class, fmt.Sprintf("node %d handler of %q was handed a %s message %q (claimed sender %s)", d.Node, hi.ch, c.Class, d.Data, c.From), wit(map[string]any{"delivery": d}))
		case c.Channel != hi.ch:
			r.Violation("floodsub/handed-wrong-channel", fmt.Sprintf("node %d handler of %q was handed message %q signed for channel %q", d.Node, hi.ch, d.Data, c.Channel), wit(map[string]any{"delivery": d}))
		case c.From != d.From:
			r.Violation("floodsub/handed-wrong-sender", fmt.Sprintf("message %q signed by %s reported as from %s", d.Data, c.From, d.From), wit(map[string]any{"delivery": d}))
		default:
			r.Count("authentic_deliveries", 1)
			if d.Node == 0 && c.Class != "honest-api" {
				honestFromHostileDelivered++
			}
			if d.Node == 0 && strings.HasPrefix(c.Class, "nc-") {
				ncDelivered++
			}
		}
	}
	// (2) what the real nodes put on the wire
	for _, p := range m.Pipes() {
		if p.From < 0 {
			continue
		}
		for _, f := range p.Frames() {
			for _, pi := range f.Pubs {
				r.Count("forwarded_copies_checked", 1)
				c := truth[pi.Payload]
				switch {
				case c == nil:
					r.Violation("floodsub/forwarded-unknown-message", fmt.Sprintf("node %d put data %q on the wire that nobody signed", p.From, pi.Payload), wit(map[string]any{"pipe": p.Name}))
				case !c.Honest:
					r.Violation("floodsub/forwarded-forged/"+c.Class, fmt.Sprintf("node %d forwarded a %s message %q on %s", p.From, c.Class, pi.Payload, p.Name), wit(map[string]any{"pipe": p.Name}))
				case pi.From != c.From:
					r.Violation("floodsub/forwarded-wrong-sender", fmt.Sprintf("node %d forwarded message %q, signed by %s, as sent by %s", p.From, pi.Payload, c.From, pi.From), wit(map[string]any{"pipe": p.Name}))
				case pi.Channel != c.Channel:
					r.Violation("floodsub/forwarded-wrong-channel", fmt.Sprintf("node %d forwarded message %q, signed for channel %q, with inner channel %q", p.From, pi.Payload, c.Channel, pi.Channel), wit(map[string]any{"pipe": p.Name}))
				case !subsOf[p.From][c.Channel]:
					r.Violation("floodsub/forwarded-unsubscribed-channel", fmt.Sprintf("node %d forwarded message %q for channel %q which it does not subscribe", p.From, pi.Payload, c.Channel), wit(map[string]any{"pipe": p.Name}))
				}
			}
		}
	}
	var cls []string
	for c, n := range sent {
		r.Count("sent_"+c, n)
		cls = append(cls, c)
	}
	r.Count("history_dependent_forgeries_sent", histForged)
	r.Count("noncanonical_signed_messages_sent", ncSent)
	r.Count("noncanonical_authentic_callbacks_at_V", ncDelivered)
	if s.Chains > 0 {
		r.Count("scripts_with_history_chains", 1)
	}
	sortStrings(cls)
	processed := hd.BA.Processed()
	r.Count("hostile_frames_processed", processed)
	r.Distinct("class_sets", strings.Join(cls, ","))
	nontrivial := forged > 0 && honestFromHostileDelivered > 0
	r.Case(s.desc(), nontrivial)
	r.Sample(map[string]any{"case": s.Idx, "script": s.desc(), "hostile_frames_processed": processed, "authentic_from_hostile_delivered_at_V": honestFromHostileDelivered})
}

func sortStrings(s []string) {
	for i := 1; i < len(s); i++ {
		for j := i; j > 0 && s[j] < s[j-1]; j-- {
			s[j], s[j-1] = s[j-1], s[j]
		}
	}
}

func TestC27(t *testing.T) {
	r := vf.Start(t, "C27", vf.Exploration)
	defer r.Finish()
	r.SetRule("script = a real FloodSub node V (subscribing alpha, beta or both) with a real honest neighbour W (subscribing alpha, beta, gamma: it would take anything V forwards) and a hostile stream on which the harness writes 5-12 publish packets of 1-3 crafted SignedMsgs (20 classes: honest, honest for a channel V does not subscribe, replay, tampered body, inner channel rewritten, foreign signature with claimed sender, wrong signing contexts, empty channel, bad/empty sender, damaged/missing signature, changed hash type ...; claimed senders include V and W themselves), optional chunked delivery (1-9 bytes per read), optional trailing garbage frame, interleaved with 0-4 honest API publishes by V and W. Every second script additionally carries 2-4 history-dependent forgery chains on the hostile stream (wire order = history): an accepted message (sender A; also the attacker's own authentic message or one for an unsubscribed channel), then optionally a message naming another sender X that is REJECTED (damaged after signing) or accepted, optionally a further message, then a forgery derived from that history: claims the last accepted / an earlier accepted sender but is signed with the key of the sender named immediately before / the attacker / any earlier named sender (with or without that signer's public key attached), or re-uses the signature of an earlier accepted message with changed data, changed inner channel, changed sender, or on another message of the same sender; optionally a second forgery; chains are split over packets in every way (one entry per packet, whole chain in one packet, PRNG cuts) while 2-6 API publishes of V and W flow on the other stream. Every script additionally carries 1-3 honestly SIGNED messages whose signed inner bytes are a non-canonical protobuf encoding written by a harness-side wire writer (14-entry round-robin: channel field twice with first subscribed / last unsubscribed, first unsubscribed / last subscribed, both subscribed, three occurrences, first or last occurrence empty; data field twice; timestamp split over several occurrences; unknown fields of every wire type; fields out of order; non-minimal varints in tags and length prefixes; a skipped bytes field containing the encoding of a channel field; PRNG mixtures), signed by the claimed sender under context+(channel a standard last-wins decode reports); ground truth = what the writer put last (self-tested against the protobuf codec). Non-trivial = at least one forged message was written and at least one authentic message from the hostile stream was handed to a V handler (so the stream was live and the reference signing context is right). Oracle = harness ground truth by construction: every handler callback and every copy V or W put on any wire must be a message that is authentic (signed by the claimed sender under context+channel), for the handler's / a subscribed channel, with the true sender reported (on the wire: claimed sender and inner channel of a forwarded copy equal those of the authentic message with that payload). Evaluated at exact quiescence. Family dyn (64 quick / 800 thorough scripts, c27dyn_test.go): V's subscriptions CHANGE while publishes for those channels arrive on one harness-driven stream H (observer stream N announces every channel): steps subscribe c / release the last subscription(s) of c / publish for c / exact quiescence, on a focus channel and two others; preludes: subscribed and released (or subscribed) before Execute starts, streams attached before or after Execute starts; segments run back to back: publishes around the release of the last subscription with another channel changing in the same evaluation tick, subscribe + release in one tick (never announced), release + re-subscribe (+ release), release with exact quiescence, PRNG walks; after every segment exact quiescence and 2-4 judged publishes. Ground truth = harness bookkeeping: a publish for c is judged iff an exact quiescent point Q (Execute running) precedes it and no change of c lies between Q and the first exact quiescent point after it; if c had no live subscription at Q the message must reach no handler and appear on no stream V writes; publishes inside a change window are not judged either way; non-trivial = at least one judged must-not publish and one judged publish for a live channel that was delivered.")
	r.Assume("an authentic message with an out-of-range timestamp may be delivered or dropped (the property does not speak about timestamps)")
	r.Assume("replays of authentic messages are authentic (de-duplication is C28)")
	env, err := getEnv()
	if err != nil {
		t.Fatalf("env: %v", err)
	}
	setWatchdog(r)
	rng := r.Rand("c27")
	pool := keys.Pool(r.Rand("c27-keys"), 16)
	n := r.N(200, 3000)
	scripts := make([]*c27script, n)
	rngNC := r.Rand("c27-noncanonical")
	for i := range scripts {
		scripts[i] = genC27(rng, i)
		spliceNC(rngNC, scripts[i])
	}
	nDyn := r.N(64, 800)
	rngDyn := r.Rand("c27-dyn")
	dyn := make([]*c27dyn, nDyn)
	for i := range dyn {
		dyn[i] = genC27dyn(rngDyn, i)
	}
	jr := newJournal(r)
	only := os.Getenv("VERIF_C27_ONLY") // debugging aid: "dyn" or "static" (evidence then lacks cases)
	var jobs []func()
	for i := 0; i < n || i < nDyn; i++ {
		if i < nDyn && only != "static" {
			d := dyn[i]
			jobs = append(jobs, func() { runC27dyn(r, env, pool, d, jr) })
		}
		if i < n && only != "dyn" {
			sc := scripts[i]
			jobs = append(jobs, func() { runC27(r, env, pool, sc, jr) })
		}
	}
	parallel(len(jobs), 16, func(i int) { jobs[i]() })
	r.Extra("goroutine_snapshots", env.W.Taken())
}
