package fsub

// C29 family (a2): the opener rule over link RE-ESTABLISHMENT histories.
//
// Two real pubsub controllers (stub router) are given the two ends of a link as
// values of an EstablishLinkWithPeer directive: added -> removed -> added again
// under the SAME link uuid (the same or a new MountedLink object), 1-3 times,
// optionally re-reported without removal. The fake link's OpenMountedStream can
// be held at a harness gate (a transport that is slow to open / to abort an
// open), so that the tracker of the previous establishment is still alive -
// blocked in OpenMountedStream - when the link is removed and when the next link
// value arrives. Every wait is for a goroutine-state condition ("rest": both
// Execute loops parked in their select after the last value callback returned,
// every other controller goroutine parked at the harness gate).
//
// Oracle, at controller quiescence with all gates open: for every link value
// that is established at the end, counting the OpenMountedStream calls on THAT
// link object that began since it was (last) established and that succeeded:
// one side has between 1 and (number of times the value was reported) of them,
// the other side none.

import (
	"context"
	"fmt"
	"math/rand/v2"
	"strings"
	"sync"
	"time"

	"github.com/aperturerobotics/bifrost/link"
	"github.com/aperturerobotics/bifrost/protocol"

	"verifharness/g9mesh"
	"verifharness/vf"
)

type rlStep struct {
	Op    string // "add", "dup", "remove", "open"
	Gated string // add: "yes", "no", "coin" (new link objects only)
	Obj   string // add: "new", "same", "coin"
	Rest  bool   // wait for rest after the step
}

func (s rlStep) String() string {
	x := s.Op
	if s.Op == "add" {
		x += "(" + s.Obj
		if s.Gated != "no" {
			x += ",gated:" + s.Gated
		}
		x += ")"
	}
	if s.Rest {
		x += "|"
	}
	return x
}

type rlShape []rlStep

func (sh rlShape) String() string {
	var p []string
	for _, s := range sh {
		p = append(p, s.String())
	}
	return strings.Join(p, " ")
}

// forced shapes (round-robin over the batches); the PRNG shapes follow.
var rlForced = []rlShape{
	// lost while the tracker is blocked in the open, re-established as a new object
	{{Op: "add", Gated: "yes", Obj: "new", Rest: true}, {Op: "remove"}, {Op: "add", Gated: "no", Obj: "new", Rest: true}, {Op: "open"}},
	// ... as the same object
	{{Op: "add", Gated: "yes", Obj: "new", Rest: true}, {Op: "remove", Rest: true}, {Op: "add", Obj: "same", Rest: true}, {Op: "open"}},
	// twice, the second establishment's open blocked as well
	{{Op: "add", Gated: "yes", Obj: "new", Rest: true}, {Op: "remove"}, {Op: "add", Gated: "yes", Obj: "new", Rest: true}, {Op: "remove"}, {Op: "add", Gated: "coin", Obj: "coin", Rest: true}, {Op: "open"}},
	// removal and re-establishment back to back
	{{Op: "add", Gated: "yes", Obj: "new", Rest: true}, {Op: "remove"}, {Op: "add", Gated: "no", Obj: "coin"}, {Op: "open"}},
	// the old open is aborted before the link comes back
	{{Op: "add", Gated: "yes", Obj: "new", Rest: true}, {Op: "remove"}, {Op: "open", Rest: true}, {Op: "add", Gated: "no", Obj: "coin", Rest: true}},
	// re-reported without removal while the open is blocked
	{{Op: "add", Gated: "yes", Obj: "new", Rest: true}, {Op: "dup", Rest: true}, {Op: "open"}},
	// nothing blocks: trackers are gone when the link comes back
	{{Op: "add", Gated: "no", Obj: "new", Rest: true}, {Op: "remove", Rest: true}, {Op: "add", Gated: "no", Obj: "coin", Rest: true}},
	// lost, re-established (blocked again), re-reported, then everything opens
	{{Op: "add", Gated: "yes", Obj: "new", Rest: true}, {Op: "remove"}, {Op: "add", Gated: "yes", Obj: "new", Rest: true}, {Op: "dup", Rest: true}, {Op: "open"}},
}

func genRlShape(rng *rand.Rand, bi int) rlShape {
	if bi < len(rlForced) || bi%3 == 0 {
		return rlForced[bi%len(rlForced)]
	}
	var sh rlShape
	estab := false
	coin3 := func() string { return []string{"yes", "no", "coin"}[rng.IntN(3)] }
	first := true
	for n := 3 + rng.IntN(5); len(sh) < n; {
		st := rlStep{Rest: rng.IntN(3) != 0}
		switch {
		case !estab:
			st.Op, st.Gated, st.Obj = "add", coin3(), []string{"new", "same", "coin"}[rng.IntN(3)]
			if first {
				st.Gated, st.Obj, st.Rest = "yes", "new", true
				first = false
			}
			estab = true
		case rng.IntN(5) == 0:
			st.Op = "dup"
		case rng.IntN(6) == 0:
			st.Op = "open"
		default:
			st.Op = "remove"
			estab = false
		}
		sh = append(sh, st)
	}
	if !estab {
		sh = append(sh, rlStep{Op: "add", Gated: coin3(), Obj: []string{"new", "same", "coin"}[rng.IntN(3)], Rest: true})
	}
	return sh
}

// rlLink is one link object of one side with its open accounting.
type rlLink struct {
	fl   *g9mesh.FakeLink
	gate *g9mesh.OpenGate // nil: opens are not held

	mu       sync.Mutex
	epoch    int         // establishments of this object so far
	reports  map[int]int // epoch -> times the value was reported (added / re-reported)
	succ     map[int]int // epoch in which the call began -> successful opens
	failed   int
	inflight int
}

func (l *rlLink) onOpen(clk *g9mesh.Clock) func(ctx context.Context, fl *g9mesh.FakeLink, pid protocol.ID) (link.MountedStream, error) {
	return func(ctx context.Context, fl *g9mesh.FakeLink, pid protocol.ID) (link.MountedStream, error) {
		l.mu.Lock()
		ep := l.epoch
		l.inflight++
		l.mu.Unlock()
		if l.gate != nil {
			l.gate.Wait()
		}
		l.mu.Lock()
		defer l.mu.Unlock()
		l.inflight--
		// the transport aborts an open whose context was cancelled
		if err := ctx.Err(); err != nil {
			l.failed++
			return nil, err
		}
		l.succ[ep]++
		d := g9mesh.NewDuplex(clk, "ctl", 0, 1)
		return &g9mesh.FakeMStream{Strm: d.EndA(), Proto: pid, Peer: fl.Remote, Lnk: fl}, nil
	}
}

// rlPair is the state of one pair of peers (one link uuid) in a batch.
type rlPair struct {
	p    idPair
	uuid uint64
	cur  [2]*rlLink // established link object per side (nil: not established)
	last [2]*rlLink
	vid  [2]uint32
	val  [2]*g9mesh.FakeValue
	hist []string
	// blockedAtRemoval: a removal found an open call in progress on the object
	blockedAtRemoval int
	// arrivedWhileOldAlive: a link value arrived while an open call of an earlier establishment was still in progress
	arrivedWhileOldAlive int
}

// ctrlRest: every goroutine inside the pubsub controller package is an Execute
// loop parked in its select, the stub router, or parked at a harness open gate.
func ctrlRest(env *g9mesh.Env) (bool, string) {
	loops := 0
	for _, g := range env.W.Fresh().Gs {
		f, ok := g.InnermostWith(ctrlPkg)
		if !ok {
			continue
		}
		if g.Has("g9mesh.(*StubPubSub).Execute") {
			continue
		}
		if strings.HasSuffix(f.Fn, "(*Controller).Execute") && g.State == "select" {
			loops++
			continue
		}
		if g.State == "chan receive" && g.Has("g9mesh.(*OpenGate).Wait") {
			continue
		}
		return false, g.String()
	}
	if loops < 2 {
		return false, fmt.Sprintf("only %d controller Execute loops in the snapshot", loops)
	}
	return true, ""
}

func waitCtrl(cond func(*g9mesh.Env) (bool, string), env *g9mesh.Env) (bool, string) {
	deadline := time.Now().Add(watchdog)
	for {
		ok, busy := cond(env)
		if ok {
			return true, ""
		}
		if time.Now().After(deadline) {
			return false, busy
		}
		time.Sleep(2 * time.Millisecond)
	}
}

func runC29relink(r *vf.Run, env *g9mesh.Env, pairs []idPair, batch int, jr *journal) {
	rng := r.Rand("c29a2-shapes")
	bi := 0
	for lo := 0; lo < len(pairs); lo, bi = lo+batch, bi+1 {
		hi := min(lo+batch, len(pairs))
		shape := genRlShape(rng, bi)
		jr.begin(-2, fmt.Sprintf("opener rule / re-establishment batch pairs %d..%d shape %s", lo, hi, shape))
		ctx, cancel := context.WithCancel(context.Background())
		var wg sync.WaitGroup
		owner := env.NewOwner()
		A, errA := newCtrlSide(ctx, env, env.LE, owner, &wg)
		B, errB := newCtrlSide(ctx, env, env.LE, owner, &wg)
		if errA != nil || errB != nil {
			r.Inconclusive(fmt.Sprintf("controller setup failed: %v %v", errA, errB))
			cancel()
			wg.Wait()
			return
		}
		sides := [2]*ctrlSide{A, B}
		clk := &g9mesh.Clock{}
		ps := make([]*rlPair, hi-lo)
		for i := range ps {
			ps[i] = &rlPair{p: pairs[lo+i], uuid: uint64(lo + i + 1)}
		}
		var allGates []*g9mesh.OpenGate
		openGates := func() {
			for _, g := range allGates {
				g.Open()
			}
		}
		finish := func() { openGates(); cancel(); wg.Wait(); jr.end(-2) }
		bad := false
		for si, st := range shape {
			// decide per pair what the step does (single PRNG user), then deliver
			// the callbacks to both controllers concurrently, in opposite orders
			type act struct {
				op  string
				lnk [2]*rlLink
			}
			acts := make([]act, len(ps))
			for i, pr := range ps {
				a := act{op: st.Op}
				switch st.Op {
				case "add":
					same := st.Obj == "same" || st.Obj == "coin" && rng.IntN(2) == 0
					if same && pr.last[0] != nil {
						a.lnk = pr.last
						pr.hist = append(pr.hist, "add-same")
					} else {
						gated := st.Gated == "yes" || st.Gated == "coin" && rng.IntN(2) == 0
						var gate *g9mesh.OpenGate
						if gated {
							gate = g9mesh.NewOpenGate()
							allGates = append(allGates, gate)
							pr.hist = append(pr.hist, "add-new-gated")
						} else {
							pr.hist = append(pr.hist, "add-new")
						}
						for s := 0; s < 2; s++ {
							l := &rlLink{gate: gate, reports: map[int]int{}, succ: map[int]int{}}
							loc, rem := pr.p.X, pr.p.Y
							if s == 1 {
								loc, rem = rem, loc
							}
							l.fl = &g9mesh.FakeLink{UUID: pr.uuid, Local: loc, Remote: rem}
							l.fl.OnOpen = l.onOpen(clk)
							a.lnk[s] = l
						}
					}
					for s := 0; s < 2; s++ {
						l := a.lnk[s]
						// an earlier establishment's open still in progress?
						for _, o := range []*rlLink{pr.last[s]} {
							if o != nil {
								o.mu.Lock()
								if o.inflight > 0 && s == 0 {
									pr.arrivedWhileOldAlive++
								}
								o.mu.Unlock()
							}
						}
						l.mu.Lock()
						l.epoch++
						l.reports[l.epoch] = 1
						l.mu.Unlock()
						pr.cur[s], pr.last[s] = l, l
						pr.vid[s]++
						pr.val[s] = &g9mesh.FakeValue{ID: pr.vid[s], Val: l.fl}
					}
				case "dup":
					a.lnk = pr.cur
					pr.hist = append(pr.hist, "re-report")
					for s := 0; s < 2; s++ {
						l := pr.cur[s]
						l.mu.Lock()
						l.reports[l.epoch]++
						l.mu.Unlock()
					}
				case "remove":
					a.lnk = pr.cur
					pr.hist = append(pr.hist, "remove")
					blocked := false
					for s := 0; s < 2; s++ {
						l := pr.cur[s]
						l.mu.Lock()
						if l.inflight > 0 {
							blocked = true
						}
						l.mu.Unlock()
					}
					if blocked {
						pr.blockedAtRemoval++
					}
				}
				acts[i] = a
			}
			if st.Op == "open" {
				openGates()
				r.Count("relink_gate_releases", 1)
			} else {
				var dw sync.WaitGroup
				for s := 0; s < 2; s++ {
					s := s
					dw.Add(1)
					go func() {
						defer dw.Done()
						h := sides[s].di.Handlers()[0]
						for k := range ps {
							i := k
							if s == 1 {
								i = len(ps) - 1 - k
							}
							pr, a := ps[i], acts[i]
							switch a.op {
							case "add":
								h.HandleValueAdded(sides[s].di, pr.val[s])
							case "dup":
								h.HandleValueAdded(sides[s].di, pr.val[s])
							case "remove":
								h.HandleValueRemoved(sides[s].di, pr.val[s])
							}
						}
					}()
				}
				dw.Wait()
				if st.Op == "remove" {
					for _, pr := range ps {
						pr.cur = [2]*rlLink{}
					}
				}
			}
			if st.Rest {
				if ok, busy := waitCtrl(ctrlRest, env); !ok {
					r.Inconclusive(fmt.Sprintf("C29 a2: controllers did not come to rest after step %d (%s) of shape %s: %s", si, st, shape, busy))
					bad = true
					break
				}
				r.Count("relink_rest_points", 1)
			}
		}
		if bad {
			finish()
			continue
		}
		openGates()
		if ok, busy := waitCtrl(ctrlQuiescent, env); !ok {
			r.Inconclusive("C29 a2: controllers not quiescent within watchdog: " + busy)
			finish()
			continue
		}
		r.Distinct("relink_shapes", shape.String())
		for _, pr := range ps {
			hist := strings.Join(pr.hist, ",")
			sig := fmt.Sprintf("relink|%s|%s|%x|%x", hist, pr.p.Kind, string(pr.p.X), string(pr.p.Y))
			r.Count("relink_pairs_"+pr.p.Kind, 1)
			r.Distinct("relink_histories", hist)
			if pr.blockedAtRemoval > 0 {
				r.Count("relink_links_lost_while_open_in_progress", 1)
			}
			if pr.arrivedWhileOldAlive > 0 {
				r.Count("relink_values_arrived_while_previous_open_in_progress", 1)
			}
			if pr.cur[0] == nil {
				r.Count("relink_pairs_not_established_at_end", 1)
				r.Case(sig, false)
				continue
			}
			var succ, reports, calls [2]int
			for s := 0; s < 2; s++ {
				l := pr.cur[s]
				l.mu.Lock()
				succ[s], reports[s] = l.succ[l.epoch], l.reports[l.epoch]
				l.mu.Unlock()
				calls[s] = int(l.fl.Opens.Load())
			}
			r.Count("relink_successful_opens_on_established_links", succ[0]+succ[1])
			wit := map[string]any{"kind": pr.p.Kind, "x": pr.p.X.String(), "y": pr.p.Y.String(), "x_hex": fmt.Sprintf("%x", string(pr.p.X)), "y_hex": fmt.Sprintf("%x", string(pr.p.Y)),
				"history_of_the_link_uuid": hist, "batch_shape": shape.String(), "successful_opens_since_established_by_x_side": succ[0], "by_y_side": succ[1],
				"open_calls_ever_on_the_established_objects": calls, "times_reported_since_established": reports[0],
				"links_lost_while_open_in_progress": pr.blockedAtRemoval, "values_arrived_while_previous_open_in_progress": pr.arrivedWhileOldAlive}
			switch {
			case succ[0] >= 1 && succ[1] >= 1:
				r.Violation("pubsub-controller/both-sides-open-after-reestablishment/"+pr.p.Kind, fmt.Sprintf("both ends of the re-established link between %s and %s opened the pubsub stream", pr.p.X.String(), pr.p.Y.String()), wit)
				r.Case(sig, false)
			case succ[0]+succ[1] == 0:
				r.Violation("pubsub-controller/no-side-opens-after-reestablishment/"+pr.p.Kind,
					fmt.Sprintf("quiescent controllers, all opens released: neither end opened the pubsub stream on the link object that is currently established between %s and %s (history of the link uuid: %s)", pr.p.X.String(), pr.p.Y.String(), hist), wit)
				r.Case(sig, false)
			case succ[0] > reports[0] || succ[1] > reports[1]:
				r.Violation("pubsub-controller/opened-more-often-than-reported/"+pr.p.Kind, "one end opened the stream more often than the link value was reported since it was established", wit)
				r.Case(sig, false)
			default:
				r.Count("relink_exactly_one_side_opened", 1)
				r.Case(sig, true)
			}
			if bi < 2 && pr == ps[0] {
				r.Sample(wit)
			}
		}
		finish()
	}
}
