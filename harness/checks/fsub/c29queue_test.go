package fsub

// C29 family (e2): SEVERAL subscription changes of the same channel queued
// behind a stalled stream write. As in (e) the streams towards some
// harness-driven neighbours are stalled (writes block); 0-6 publications are
// forwarded into them (so a packet is stuck in the write, or the first change
// will be), then 2-6 changes are issued ONE BY ONE - subscribe X, release the
// last subscription of X, subscribe X again ..., sometimes with a change of
// another channel in between or two changes back to back -, each followed by
// waiting until the node rests again (change call returned, node exactly
// quiescent with the session parked in the stalled write: the router's
// evaluation pass has queued the announcement behind the blocked packet). Then
// the streams are un-stalled in PRNG order. Oracle (c) at the following exact
// quiescence: every neighbour's view replayed from the Subscribe true/false
// entries on its stream equals the node's channels with a live subscription.

import (
	"fmt"
	"math/rand/v2"

	"verifharness/g9mesh"
	"verifharness/keys"
	"verifharness/vf"
)

type c29qChange struct {
	Op   string // "sub" / "rel"
	Ch   string
	Wait bool // wait for rest after it (false: the next change follows back to back)
}

func (c c29qChange) String() string {
	s := c.Op + ":" + c.Ch
	if !c.Wait {
		s += "+"
	}
	return s
}

type c29q struct {
	Idx     int
	Neigh   []c29bpNeigh
	SubX    bool // X subscribed (and announced) before the stall
	X       string
	K       int
	Source  string
	Via     int
	Changes []c29qChange
	Order   []int
	QB      bool
}

func (c *c29q) desc() string {
	return fmt.Sprintf("queued-changes X=%s subscribed-first=%v neighbours=%v K=%d source=%s via=%d changes=%v unstall=%v qb=%v", c.X, c.SubX, c.Neigh, c.K, c.Source, c.Via, c.Changes, c.Order, c.QB)
}

func genC29q(rng *rand.Rand, idx int) *c29q {
	c := &c29q{Idx: idx, X: []string{"c2", "c3", "c1"}[rng.IntN(3)], SubX: rng.IntN(2) == 0, K: rng.IntN(7)}
	if c.X == "c1" {
		c.SubX = true // c1 carries the publications
	}
	nn := 1 + rng.IntN(3)
	for i := 0; i < nn; i++ {
		n := c29bpNeigh{Announce: []string{"c1"}, Stalled: i == 0 || rng.IntN(2) == 0}
		if rng.IntN(3) == 0 {
			n.Announce = append(n.Announce, c.X)
		}
		c.Neigh = append(c.Neigh, n)
	}
	c.Source = []string{"sub-publish", "fs-publish", "feed"}[rng.IntN(3)]
	if c.Source == "feed" {
		if nn < 2 {
			c.Source = "fs-publish"
		} else {
			c.Via = 1 + rng.IntN(nn-1)
		}
	}
	live := map[string]bool{"c1": true, c.X: c.SubX || c.X == "c1"}
	other := "c3"
	if c.X == "c3" {
		other = "c2"
	}
	for n := 2 + rng.IntN(5); n > 0; n-- {
		ch := c.X
		if rng.IntN(5) == 0 {
			ch = other
		}
		op := "sub"
		if live[ch] {
			op = "rel"
		}
		live[ch] = !live[ch]
		c.Changes = append(c.Changes, c29qChange{Op: op, Ch: ch, Wait: rng.IntN(5) != 0})
	}
	c.Changes[len(c.Changes)-1].Wait = true
	for i, n := range c.Neigh {
		if n.Stalled {
			c.Order = append(c.Order, i)
		}
	}
	rng.Shuffle(len(c.Order), func(i, j int) { c.Order[i], c.Order[j] = c.Order[j], c.Order[i] })
	c.QB = rng.IntN(3) == 0
	return c
}

func runC29q(r *vf.Run, env *g9mesh.Env, pool []*keys.Identity, c *c29q, jr *journal) {
	jr.begin(600000+c.Idx, c.desc())
	defer jr.end(600000 + c.Idx)
	rng := rand.New(rand.NewPCG(uint64(c.Idx)+310019, r.Seed()))
	g, rest := newGnode(r, env, pool, rng, c.Idx, fmt.Sprintf("bq%d", c.Idx), c.desc())
	if g == nil {
		return
	}
	defer g.m.Close()
	fail := func() { r.Case(c.desc(), false) }
	openAll := func() {
		for _, n := range g.neigh {
			n.cur.AB.StallWrites(false)
		}
	}
	g.m.Nodes[0].Exec()
	if !g.subscribe("c1") {
		fail()
		return
	}
	if c.SubX && c.X != "c1" && !g.subscribe(c.X) {
		fail()
		return
	}
	for i, ns := range c.Neigh {
		n := &gneigh{id: pool[rest[i]].ID, uu: g.m.NextUUID()}
		n.cur, n.end = g.m.AttachLink(0, n.id, n.uu, rng.IntN(2) == 0)
		g.neigh = append(g.neigh, n)
		g.announce(n, ns.Announce, true)
	}
	if !g.quiesce("setup") {
		fail()
		return
	}
	g.checkViews("after setup")
	for i, ns := range c.Neigh {
		if ns.Stalled {
			g.neigh[i].cur.AB.StallWrites(true)
			r.Count("gates_closed_stall", 1)
		}
	}
	pays := make([]string, c.K)
	for i := range pays {
		pays[i] = g.payload("c1")
	}
	calls := []*bgCall{startCall(g.m, g.publisher(c.Source, c.Via, "c1", pays))}
	if rst, ok := waitRest(g.m, calls, calls); !ok || rst != "quiescent" {
		if !ok {
			r.Inconclusive(fmt.Sprintf("C29 queued-changes case %d: node did not come to rest after the publications (watchdog)", c.Idx))
		}
		openAll()
		fail()
		return
	}
	queuedWhileBlocked, sameChannel := 0, map[string]int{}
	for i := 0; i < len(c.Changes); {
		j := i
		for !c.Changes[j].Wait {
			j++
		}
		grp := c.Changes[i : j+1]
		chg := startCall(g.m, func() {
			for _, ch := range grp {
				if ch.Op == "sub" {
					g.subscribe(ch.Ch)
				} else {
					for _, k := range g.liveOn(ch.Ch) {
						g.release(k)
					}
				}
				g.r.Count("queued_subscription_changes", 1)
			}
		})
		calls = append(calls, chg)
		rst, ok := waitRest(g.m, []*bgCall{chg}, calls)
		if !ok {
			r.Inconclusive(fmt.Sprintf("C29 queued-changes case %d: node did not come to rest after change %v (watchdog)", c.Idx, grp))
			openAll()
			fail()
			return
		}
		if rst != "quiescent" {
			break // send queue full: un-stall now (the final views are judged all the same)
		}
		blocked := false
		for k, ns := range c.Neigh {
			if ns.Stalled && g.neigh[k].cur.AB.WritersBlocked() > 0 {
				blocked = true
			}
		}
		if blocked {
			queuedWhileBlocked++
			for _, ch := range grp {
				sameChannel[ch.Ch]++
			}
		}
		i = j + 1
	}
	for _, i := range c.Order {
		g.neigh[i].cur.AB.StallWrites(false)
		if c.QB {
			if q, _ := g.m.QuiescentNow(); q {
				r.Count("queued_changes_quiescent_between_unstalls", 1)
			}
		}
	}
	openAll()
	if !waitCalls(calls) {
		r.Inconclusive(fmt.Sprintf("C29 queued-changes case %d: calls did not return after the streams were un-stalled (watchdog)", c.Idx))
		fail()
		return
	}
	if !g.quiesce("after un-stall") {
		fail()
		return
	}
	g.checkViews(fmt.Sprintf("after un-stalling; changes %v were queued one by one behind a stalled stream write", c.Changes))
	if !g.finish() {
		fail()
		return
	}
	g.checkCallbacks()
	several := 0
	for _, n := range sameChannel {
		if n >= 2 {
			several++
		}
	}
	r.Count("queued_changes_scenarios", 1)
	r.Count("queued_changes_rest_points_with_blocked_writer", queuedWhileBlocked)
	r.Distinct("queued_changes_shapes", fmt.Sprintf("K=%d/%v/%v", c.K, c.Changes, c.SubX))
	r.Case(c.desc(), several > 0 && g.judged > 0)
	if c.Idx < 2 {
		r.Sample(map[string]any{"case": c.Idx, "scenario": c.desc(), "rest_points_with_blocked_writer": queuedWhileBlocked, "channels_with_several_queued_changes": several})
	}
}
