package fsub

import (
	"fmt"
	"math/rand/v2"
	"os"
	"runtime"
	"sort"
	"strings"
	"sync"
	"testing"
	"time"

	"github.com/aperturerobotics/bifrost/crypto"
	"github.com/aperturerobotics/bifrost/pubsub"
	"github.com/aperturerobotics/bifrost/util/verifhook"

	"verifharness/g9mesh"
	"verifharness/keys"
	"verifharness/vf"
)

type subSpec struct {
	Node     int
	Ch       string
	Handlers int
	Round    int
	// Key is the private key the subscription is made with (and publishes
	// with): 0 = the node's own link identity, k >= 1 = the k-th foreign
	// identity of the run (an identity no node of the mesh uses on its links).
	Key int
}

type evKind int

const (
	evExec evKind = iota
	evSub
	evLink
	evBarrier
	// evUnlink tears the current link of an edge down (both directions of its
	// stream are closed: the sessions on both ends end).
	evUnlink
	// evCloseOld closes the superseded links of an edge (see evLink on an edge
	// that is still linked: make-before-break).
	evCloseOld
	// evRelease releases subscription Sub.
	evRelease
	// evGhost (kind "latejoin"): a harness-driven peer with a foreign identity
	// attaches to Node and sends Subscribe=false for Ch, which it never
	// announced on that stream (see c28late_test.go).
	evGhost
)

type event struct {
	Kind   evKind
	Node   int  // evExec
	Sub    int  // evSub: index into cfg.Subs
	Edge   int  // evLink: index into cfg.G.edges
	AFirst bool // evLink
	// SameUUID (evLink on an edge that was linked before): re-establish under
	// the link id the edge had before instead of a fresh one.
	SameUUID bool
	Ch       string // evGhost
	Mode     int    // evGhost
}

func (e event) String() string {
	switch e.Kind {
	case evExec:
		return fmt.Sprintf("exec%d", e.Node)
	case evSub:
		return fmt.Sprintf("sub#%d", e.Sub)
	case evLink:
		if e.SameUUID {
			return fmt.Sprintf("link#%d/%v/same-id", e.Edge, e.AFirst)
		}
		return fmt.Sprintf("link#%d/%v", e.Edge, e.AFirst)
	case evUnlink:
		return fmt.Sprintf("unlink#%d", e.Edge)
	case evCloseOld:
		return fmt.Sprintf("close-old#%d", e.Edge)
	case evRelease:
		return fmt.Sprintf("release#%d", e.Sub)
	case evGhost:
		return fmt.Sprintf("ghost-unsub@%d/%s/m%d", e.Node, e.Ch, e.Mode)
	}
	return "barrier"
}

type pubSpec struct {
	Origin int
	Ch     string
	Direct bool
	// Key is the signing key of a Direct publish (see subSpec.Key).
	Key int
}

// gateSpec closes a gate on one direction of an edge for the publishes of a
// round: "hold" = the reader is handed nothing (a slow link: copies stay in
// flight, the sender is not affected), "stall" = writes block (a transport
// that does not drain: back-pressure builds up in the sending node).
type gateSpec struct {
	Edge int // index into cfg.G.edges
	Dir  int // 0: edges[Edge][0] -> [1], 1: the other direction
	Mode string
}

func (g gateSpec) String() string { return fmt.Sprintf("%s#%d/%d", g.Mode, g.Edge, g.Dir) }

type roundSpec struct {
	Events     []event
	Pubs       []pubSpec
	Concurrent bool
	// Gates are closed before the publishes of the round are issued and opened
	// (in this order) once the mesh has come to rest against them.
	Gates []gateSpec
	// QuiesceBetween: wait for exact quiescence after each opened gate (only
	// possible when no publisher is blocked by back-pressure).
	QuiesceBetween bool
	// OldEnd (kind "relinkstall", round 0): how the stalled old stream of edge 0
	// ends after it has been replaced: "unstall" or "close".
	OldEnd string
	// During (kind "churn"): link events applied from their own goroutine while
	// the publishes of the round are being issued. They leave every edge linked
	// again; the publishes of such a round need not be delivered.
	During []event
}

type c28cfg struct {
	Idx     int
	Kind    string // "mesh", "burst", "relink", "delay", "stall"
	KeyMode string // "node", "foreign", "mixed"
	G       graph
	Chans   []string
	Subs    []subSpec
	Rounds  []roundSpec
	Yield   bool
}

func (c *c28cfg) desc() string {
	var sb strings.Builder
	fmt.Fprintf(&sb, "kind=%s keys=%s graph=%s n=%d edges=%v yield=%v subs=", c.Kind, c.KeyMode, c.G.name, c.G.n, c.G.edges, c.Yield)
	for i, s := range c.Subs {
		fmt.Fprintf(&sb, "[#%d n%d %s h%d r%d k%d]", i, s.Node, s.Ch, s.Handlers, s.Round, s.Key)
	}
	for i, r := range c.Rounds {
		fmt.Fprintf(&sb, " round%d{ev=%v conc=%v", i, r.Events, r.Concurrent)
		if len(r.During) > 0 {
			fmt.Fprintf(&sb, " during=%v", r.During)
		}
		if len(r.Gates) > 0 {
			fmt.Fprintf(&sb, " gates=%v qb=%v", r.Gates, r.QuiesceBetween)
		}
		fmt.Fprintf(&sb, " pubs(%d)=", len(r.Pubs))
		// long bursts: the origins as a run-length list
		if len(r.Pubs) > 12 {
			for k := 0; k < len(r.Pubs); {
				j := k
				for j < len(r.Pubs) && r.Pubs[j] == r.Pubs[k] {
					j++
				}
				fmt.Fprintf(&sb, "%dx(o%d %s d=%v k%d)", j-k, r.Pubs[k].Origin, r.Pubs[k].Ch, r.Pubs[k].Direct, r.Pubs[k].Key)
				k = j
			}
		} else {
			for _, p := range r.Pubs {
				fmt.Fprintf(&sb, "(o%d %s d=%v k%d)", p.Origin, p.Ch, p.Direct, p.Key)
			}
		}
		sb.WriteString("}")
	}
	return sb.String()
}

// assignKeys chooses the key of every subscription and direct publish:
// "node" = the node's link identity everywhere, "foreign" = every
// subscription / direct publish has its own identity that is not the link
// identity of any node, "mixed" = a coin per subscription.
func assignKeys(rng *rand.Rand, c *c28cfg, mode string) {
	c.KeyMode = mode
	next := 0
	pick := func() int {
		if mode == "node" || mode == "mixed" && rng.IntN(2) == 0 {
			return 0
		}
		next++
		return next
	}
	for i := range c.Subs {
		c.Subs[i].Key = pick()
	}
	for ri := range c.Rounds {
		for k := range c.Rounds[ri].Pubs {
			if c.Rounds[ri].Pubs[k].Direct {
				c.Rounds[ri].Pubs[k].Key = pick()
			}
		}
	}
}

func randomConnected(rng *rand.Rand, n int) graph {
	g := graph{name: fmt.Sprintf("rnd%d", n), n: n}
	perm := rng.Perm(n)
	have := map[[2]int]bool{}
	add := func(a, b int) {
		if a > b {
			a, b = b, a
		}
		if a != b && !have[[2]int{a, b}] {
			have[[2]int{a, b}] = true
			g.edges = append(g.edges, [2]int{a, b})
		}
	}
	for i := 1; i < n; i++ {
		add(perm[i], perm[rng.IntN(i)])
	}
	for k := rng.IntN(n + 1); k > 0; k-- {
		add(rng.IntN(n), rng.IntN(n))
	}
	return g
}

func genC28(rng *rand.Rand, idx int, yield bool) *c28cfg {
	c := &c28cfg{Idx: idx, Kind: "mesh", Yield: yield}
	small := smallGraphs()
	switch k := idx % 16; {
	case k < 9:
		c.G = small[k]
	case k == 9:
		c.G = line(5 + rng.IntN(2))
	case k == 10:
		c.G = star(5 + rng.IntN(2))
	case k == 11:
		c.G = ring(5 + rng.IntN(2))
	case k == 12:
		c.G = complete(5 + rng.IntN(2))
	default:
		c.G = randomConnected(rng, 5+rng.IntN(2))
	}
	// relabel nodes so that identity order / initiator roles vary
	perm := rng.Perm(c.G.n)
	for i, e := range c.G.edges {
		a, b := perm[e[0]], perm[e[1]]
		if rng.IntN(2) == 0 {
			a, b = b, a
		}
		c.G.edges[i] = [2]int{a, b}
	}
	c.Chans = []string{"a"}
	if rng.IntN(2) == 0 {
		c.Chans = append(c.Chans, "b")
	}
	two := rng.IntN(3) == 0 // a second round with late subscriptions / links
	for v := 0; v < c.G.n; v++ {
		for _, ch := range c.Chans {
			if rng.IntN(10) < 7 {
				s := subSpec{Node: v, Ch: ch, Handlers: 1 + rng.IntN(2)}
				if two && rng.IntN(5) == 0 {
					s.Round = 1
				}
				c.Subs = append(c.Subs, s)
				if rng.IntN(7) == 0 {
					c.Subs = append(c.Subs, subSpec{Node: v, Ch: ch, Handlers: 1, Round: s.Round})
				}
			}
		}
	}
	nr := 1
	if two {
		nr = 2
	}
	c.Rounds = make([]roundSpec, nr)
	for v := 0; v < c.G.n; v++ {
		c.Rounds[0].Events = append(c.Rounds[0].Events, event{Kind: evExec, Node: v})
	}
	for i, s := range c.Subs {
		c.Rounds[s.Round].Events = append(c.Rounds[s.Round].Events, event{Kind: evSub, Sub: i})
	}
	for i := range c.G.edges {
		rd := 0
		if two && rng.IntN(6) == 0 {
			rd = 1
		}
		c.Rounds[rd].Events = append(c.Rounds[rd].Events, event{Kind: evLink, Edge: i, AFirst: rng.IntN(2) == 0})
	}
	for ri := range c.Rounds {
		ev := c.Rounds[ri].Events
		rng.Shuffle(len(ev), func(i, j int) { ev[i], ev[j] = ev[j], ev[i] })
		// barriers (wait for quiescence mid-way) only once every node executes
		lastExec := -1
		for i, e := range ev {
			if e.Kind == evExec {
				lastExec = i
			}
		}
		for nb := rng.IntN(3); nb > 0 && lastExec+1 < len(ev); nb-- {
			pos := lastExec + 1 + rng.IntN(len(ev)-lastExec-1)
			ev = append(ev[:pos], append([]event{{Kind: evBarrier}}, ev[pos:]...)...)
		}
		c.Rounds[ri].Events = ev
		c.Rounds[ri].Concurrent = rng.IntN(2) == 0
	}
	// publishes: subscribed state per round
	for ri := range c.Rounds {
		np := 1 + rng.IntN(5)
		for k := 0; k < np; k++ {
			p := pubSpec{Origin: rng.IntN(c.G.n), Ch: c.Chans[rng.IntN(len(c.Chans))]}
			has := false
			for _, s := range c.Subs {
				if s.Node == p.Origin && s.Ch == p.Ch && s.Round <= ri {
					has = true
				}
			}
			p.Direct = !has || rng.IntN(5) == 0
			c.Rounds[ri].Pubs = append(c.Rounds[ri].Pubs, p)
		}
	}
	assignKeys(rng, c, []string{"node", "node", "foreign", "mixed"}[rng.IntN(4)])
	return c
}

func genC28Burst(rng *rand.Rand, idx int, yield bool, npub int) *c28cfg {
	c := &c28cfg{Idx: idx, Kind: "burst", Yield: yield, Chans: []string{"a"}}
	gs := []graph{complete(4), complete(5), ring(4), smallGraphs()[7], complete(3), complete(6)}
	c.G = gs[rng.IntN(len(gs))]
	c.Rounds = make([]roundSpec, 1)
	for v := 0; v < c.G.n; v++ {
		c.Subs = append(c.Subs, subSpec{Node: v, Ch: "a", Handlers: 1})
		c.Rounds[0].Events = append(c.Rounds[0].Events, event{Kind: evExec, Node: v}, event{Kind: evSub, Sub: v})
	}
	for i := range c.G.edges {
		c.Rounds[0].Events = append(c.Rounds[0].Events, event{Kind: evLink, Edge: i, AFirst: rng.IntN(2) == 0})
	}
	for k := 0; k < npub; k++ {
		c.Rounds[0].Pubs = append(c.Rounds[0].Pubs, pubSpec{Origin: rng.IntN(c.G.n), Ch: "a"})
	}
	c.Rounds[0].Concurrent = true
	assignKeys(rng, c, []string{"node", "node", "foreign", "mixed"}[rng.IntN(4)])
	return c
}

func genC28Relink(rng *rand.Rand, idx int, yield bool) *c28cfg {
	c := &c28cfg{Idx: idx, Kind: "relink", Yield: yield, Chans: []string{"a"}}
	c.G = []graph{line(2), line(3), complete(3)}[rng.IntN(3)]
	c.Rounds = make([]roundSpec, 2)
	for v := 0; v < c.G.n; v++ {
		c.Subs = append(c.Subs, subSpec{Node: v, Ch: "a", Handlers: 1})
		c.Rounds[0].Events = append(c.Rounds[0].Events, event{Kind: evExec, Node: v}, event{Kind: evSub, Sub: v})
	}
	for i := range c.G.edges {
		c.Rounds[0].Events = append(c.Rounds[0].Events, event{Kind: evLink, Edge: i, AFirst: rng.IntN(2) == 0})
	}
	// round 0: a burst from the nodes of edge 0 while that edge's stream is replaced
	e0 := c.G.edges[0]
	for k := 0; k < 24; k++ {
		c.Rounds[0].Pubs = append(c.Rounds[0].Pubs, pubSpec{Origin: e0[k%2], Ch: "a"})
	}
	c.Rounds[0].Concurrent = true
	for v := 0; v < c.G.n; v++ {
		c.Rounds[1].Pubs = append(c.Rounds[1].Pubs, pubSpec{Origin: v, Ch: "a"})
	}
	assignKeys(rng, c, []string{"node", "node", "foreign", "mixed"}[rng.IntN(4)])
	return c
}

// cyclicGraphs: graphs in which a copy can travel back to the node that
// published it.
func cyclicGraphs(rng *rand.Rand) graph {
	sg := smallGraphs()
	switch rng.IntN(8) {
	case 0:
		return complete(3)
	case 1:
		return ring(4)
	case 2:
		return sg[6] // paw
	case 3:
		return sg[7] // diamond
	case 4:
		return complete(4)
	case 5:
		return ring(5 + rng.IntN(2))
	case 6:
		return complete(5)
	}
	return randomConnected(rng, 4+rng.IntN(3))
}

func relabel(rng *rand.Rand, g *graph) {
	perm := rng.Perm(g.n)
	for i, e := range g.edges {
		a, b := perm[e[0]], perm[e[1]]
		if rng.IntN(2) == 0 {
			a, b = b, a
		}
		g.edges[i] = [2]int{a, b}
	}
}

// outGate returns the gate on the direction from -> (other end) of edge ei.
func outGate(g graph, ei, from int, mode string) gateSpec {
	d := 0
	if g.edges[ei][1] == from {
		d = 1
	}
	return gateSpec{Edge: ei, Dir: d, Mode: mode}
}

func addGate(gs []gateSpec, g gateSpec) []gateSpec {
	for _, h := range gs {
		if h.Edge == g.Edge && h.Dir == g.Dir {
			return gs
		}
	}
	return append(gs, g)
}

// genC28Delay: asymmetric link delays on (mostly) cyclic graphs: some
// directions of some edges deliver nothing until the rest of the mesh has come
// to rest (a slow direct edge against a fast multi-hop path), then they are
// opened one by one. Subscriptions mostly publish with a key that is not the
// node's link identity.
func genC28Delay(rng *rand.Rand, idx int, yield bool) *c28cfg {
	c := &c28cfg{Idx: idx, Kind: "delay", Yield: yield, Chans: []string{"a"}}
	c.G = cyclicGraphs(rng)
	relabel(rng, &c.G)
	c.Rounds = make([]roundSpec, 1)
	rd := &c.Rounds[0]
	subd := make([]bool, c.G.n)
	for v := 0; v < c.G.n; v++ {
		rd.Events = append(rd.Events, event{Kind: evExec, Node: v})
		if rng.IntN(20) < 17 {
			subd[v] = true
			c.Subs = append(c.Subs, subSpec{Node: v, Ch: "a", Handlers: 1 + rng.IntN(2)})
			if rng.IntN(8) == 0 {
				c.Subs = append(c.Subs, subSpec{Node: v, Ch: "a", Handlers: 1})
			}
		}
	}
	for i := range c.Subs {
		rd.Events = append(rd.Events, event{Kind: evSub, Sub: i})
	}
	for i := range c.G.edges {
		rd.Events = append(rd.Events, event{Kind: evLink, Edge: i, AFirst: rng.IntN(2) == 0})
	}
	rng.Shuffle(len(rd.Events), func(i, j int) { rd.Events[i], rd.Events[j] = rd.Events[j], rd.Events[i] })
	rd.Concurrent = rng.IntN(2) == 0
	np := 1 + rng.IntN(4)
	for k := 0; k < np; k++ {
		o := rng.IntN(c.G.n)
		rd.Pubs = append(rd.Pubs, pubSpec{Origin: o, Ch: "a", Direct: !subd[o] || rng.IntN(6) == 0})
	}
	mode := func() string {
		if rng.IntN(4) == 0 {
			return "stall"
		}
		return "hold"
	}
	for _, p := range rd.Pubs {
		for ei, e := range c.G.edges {
			if (e[0] == p.Origin || e[1] == p.Origin) && rng.IntN(2) == 0 {
				rd.Gates = addGate(rd.Gates, outGate(c.G, ei, p.Origin, mode()))
			}
		}
	}
	for ei := range c.G.edges {
		if rng.IntN(7) == 0 {
			rd.Gates = addGate(rd.Gates, gateSpec{Edge: ei, Dir: rng.IntN(2), Mode: mode()})
		}
	}
	if len(rd.Gates) == 0 {
		ei := rng.IntN(len(c.G.edges))
		rd.Gates = append(rd.Gates, gateSpec{Edge: ei, Dir: rng.IntN(2), Mode: mode()})
	}
	rng.Shuffle(len(rd.Gates), func(i, j int) { rd.Gates[i], rd.Gates[j] = rd.Gates[j], rd.Gates[i] })
	rd.QuiesceBetween = rng.IntN(2) == 0
	assignKeys(rng, c, []string{"foreign", "foreign", "foreign", "mixed", "mixed", "node"}[rng.IntN(6)])
	return c
}

// genC28Stall: back-pressure: the streams towards some peers stop draining
// (their writes block) while a burst of lo..hi messages is published, so the
// per-peer send queues of the senders run full; then the streams are released.
func genC28Stall(rng *rand.Rand, idx int, yield bool, lo, hi int) *c28cfg {
	c := &c28cfg{Idx: idx, Kind: "stall", Yield: yield, Chans: []string{"a"}}
	sg := smallGraphs()
	gs := []graph{line(2), line(3), line(4), star(4), ring(4), sg[6], complete(3), star(5), sg[7], line(5)}
	c.G = gs[rng.IntN(len(gs))]
	c.G.edges = append([][2]int(nil), c.G.edges...)
	relabel(rng, &c.G)
	c.Rounds = make([]roundSpec, 1)
	rd := &c.Rounds[0]
	for v := 0; v < c.G.n; v++ {
		c.Subs = append(c.Subs, subSpec{Node: v, Ch: "a", Handlers: 1})
		rd.Events = append(rd.Events, event{Kind: evExec, Node: v}, event{Kind: evSub, Sub: v})
	}
	for i := range c.G.edges {
		rd.Events = append(rd.Events, event{Kind: evLink, Edge: i, AFirst: rng.IntN(2) == 0})
	}
	rng.Shuffle(len(rd.Events), func(i, j int) { rd.Events[i], rd.Events[j] = rd.Events[j], rd.Events[i] })
	np := lo + rng.IntN(hi-lo+1)
	single := rng.IntN(2) == 0
	o := rng.IntN(c.G.n)
	for k := 0; k < np; k++ {
		if !single {
			o = rng.IntN(c.G.n)
		}
		rd.Pubs = append(rd.Pubs, pubSpec{Origin: o, Ch: "a", Direct: rng.IntN(10) == 0})
	}
	rd.Concurrent = rng.IntN(2) == 0
	switch rng.IntN(3) {
	case 0: // one direction of one edge
		ei := rng.IntN(len(c.G.edges))
		rd.Gates = append(rd.Gates, gateSpec{Edge: ei, Dir: rng.IntN(2), Mode: "stall"})
	case 1: // every stream into one victim node
		v := rng.IntN(c.G.n)
		for ei, e := range c.G.edges {
			if e[0] == v {
				rd.Gates = append(rd.Gates, outGate(c.G, ei, e[1], "stall"))
			} else if e[1] == v {
				rd.Gates = append(rd.Gates, outGate(c.G, ei, e[0], "stall"))
			}
		}
	default: // a PRNG subset of all directions
		for ei := range c.G.edges {
			for d := 0; d < 2; d++ {
				if rng.IntN(3) == 0 {
					rd.Gates = append(rd.Gates, gateSpec{Edge: ei, Dir: d, Mode: "stall"})
				}
			}
		}
		if len(rd.Gates) == 0 {
			rd.Gates = append(rd.Gates, gateSpec{Edge: rng.IntN(len(c.G.edges)), Dir: rng.IntN(2), Mode: "stall"})
		}
	}
	if rng.IntN(4) == 0 { // and a slow link somewhere
		rd.Gates = addGate(rd.Gates, gateSpec{Edge: rng.IntN(len(c.G.edges)), Dir: rng.IntN(2), Mode: "hold"})
	}
	rng.Shuffle(len(rd.Gates), func(i, j int) { rd.Gates[i], rd.Gates[j] = rd.Gates[j], rd.Gates[i] })
	assignKeys(rng, c, []string{"node", "node", "foreign", "mixed"}[rng.IntN(4)])
	return c
}

// genC28Multi: multigraphs. Some pairs of nodes are connected by 2-3 parallel
// links (streams with different link ids, as with two transports between the
// same peers), in meshes of >= 3 nodes so that a neighbour forwards messages it
// did not publish over parallel links. The wire rules of checkRound are per
// PEER (tap events carry node indexes), so a copy sent back to the previous hop
// over "the other" link is an echo; delivery must stay exactly-once.
func genC28Multi(rng *rand.Rand, idx int, yield bool) *c28cfg {
	c := &c28cfg{Idx: idx, Kind: "multi", Yield: yield, Chans: []string{"a"}}
	sg := smallGraphs()
	gs := []graph{line(3), complete(3), line(4), star(4), sg[6], ring(4), sg[7], line(5), star(5), ring(5)}
	c.G = gs[rng.IntN(len(gs))]
	c.G.edges = append([][2]int(nil), c.G.edges...)
	relabel(rng, &c.G)
	c.G.name = "multi-" + c.G.name
	base := len(c.G.edges)
	var extra []int // indexes of the added parallel edges
	dupEdge := func(ei int) {
		e := c.G.edges[ei]
		if rng.IntN(2) == 0 {
			e = [2]int{e[1], e[0]} // the other side initiates the second stream
		}
		extra = append(extra, len(c.G.edges))
		c.G.edges = append(c.G.edges, e)
	}
	switch rng.IntN(4) {
	case 0: // every link doubled
		for ei := 0; ei < base; ei++ {
			dupEdge(ei)
		}
	default:
		for k := 1 + rng.IntN(2); k > 0; k-- {
			ei := rng.IntN(base)
			dupEdge(ei)
			if rng.IntN(4) == 0 {
				dupEdge(ei) // three parallel links
			}
		}
	}
	two := rng.IntN(3) == 0 // the parallel links come up late: a second round
	nr := 1
	if two {
		nr = 2
	}
	c.Rounds = make([]roundSpec, nr)
	subd := make([]bool, c.G.n)
	for v := 0; v < c.G.n; v++ {
		c.Rounds[0].Events = append(c.Rounds[0].Events, event{Kind: evExec, Node: v})
		if rng.IntN(10) < 9 {
			subd[v] = true
			c.Subs = append(c.Subs, subSpec{Node: v, Ch: "a", Handlers: 1 + rng.IntN(2)})
		}
	}
	for i := range c.Subs {
		c.Rounds[0].Events = append(c.Rounds[0].Events, event{Kind: evSub, Sub: i})
	}
	isExtra := map[int]bool{}
	for _, ei := range extra {
		isExtra[ei] = true
	}
	for ei := range c.G.edges {
		rd := 0
		if two && isExtra[ei] {
			rd = 1
		}
		c.Rounds[rd].Events = append(c.Rounds[rd].Events, event{Kind: evLink, Edge: ei, AFirst: rng.IntN(2) == 0})
	}
	for ri := range c.Rounds {
		ev := c.Rounds[ri].Events
		rng.Shuffle(len(ev), func(i, j int) { ev[i], ev[j] = ev[j], ev[i] })
		c.Rounds[ri].Concurrent = rng.IntN(2) == 0
		for k := 1 + rng.IntN(5); k > 0; k-- {
			o := rng.IntN(c.G.n)
			c.Rounds[ri].Pubs = append(c.Rounds[ri].Pubs, pubSpec{Origin: o, Ch: "a", Direct: !subd[o] || rng.IntN(6) == 0})
		}
	}
	// sometimes one of the parallel links is slow (its copies are held back
	// until the rest of the mesh is quiescent)
	if rng.IntN(3) == 0 {
		last := &c.Rounds[nr-1]
		for _, ei := range extra {
			if rng.IntN(2) == 0 {
				last.Gates = addGate(last.Gates, gateSpec{Edge: ei, Dir: rng.IntN(2), Mode: "hold"})
			}
		}
		if len(last.Gates) == 0 {
			last.Gates = append(last.Gates, gateSpec{Edge: extra[0], Dir: rng.IntN(2), Mode: "hold"})
		}
		last.QuiesceBetween = rng.IntN(2) == 0
	}
	assignKeys(rng, c, []string{"node", "node", "node", "foreign", "mixed"}[rng.IntN(5)])
	return c
}

// genC28RelinkStall: the stream of edge 0's (peer, link) tuple is replaced on
// both ends while the OLD stream is stalled with a session stuck in a stream
// write (round-0 publishes are forwarded into it), so that the old sessions
// outlive the start of their replacements; then the old stream drains or is
// closed (the old sessions exit late). Round 1: one publish from every node
// must be delivered exactly.
func genC28RelinkStall(rng *rand.Rand, idx int, yield bool) *c28cfg {
	c := &c28cfg{Idx: idx, Kind: "relinkstall", Yield: yield, Chans: []string{"a"}}
	c.G = []graph{line(2), line(3), complete(3), line(4), star(4)}[rng.IntN(5)]
	c.G.edges = append([][2]int(nil), c.G.edges...)
	relabel(rng, &c.G)
	c.Rounds = make([]roundSpec, 2)
	for v := 0; v < c.G.n; v++ {
		c.Subs = append(c.Subs, subSpec{Node: v, Ch: "a", Handlers: 1})
		c.Rounds[0].Events = append(c.Rounds[0].Events, event{Kind: evExec, Node: v}, event{Kind: evSub, Sub: v})
	}
	for i := range c.G.edges {
		c.Rounds[0].Events = append(c.Rounds[0].Events, event{Kind: evLink, Edge: i, AFirst: rng.IntN(2) == 0})
	}
	rd := &c.Rounds[0]
	rng.Shuffle(len(rd.Events), func(i, j int) { rd.Events[i], rd.Events[j] = rd.Events[j], rd.Events[i] })
	// stalled directions of edge 0 and publishes that are forwarded into them
	e0 := c.G.edges[0]
	// (with one direction stalled the peer's old session usually ends at once and closes
	// the stream, which also frees the stuck one: both directions are the common choice)
	switch rng.IntN(5) {
	case 0:
		rd.Gates = []gateSpec{{Edge: 0, Dir: 0, Mode: "stall"}}
	case 1:
		rd.Gates = []gateSpec{{Edge: 0, Dir: 1, Mode: "stall"}}
	default:
		rd.Gates = []gateSpec{{Edge: 0, Dir: 0, Mode: "stall"}, {Edge: 0, Dir: 1, Mode: "stall"}}
	}
	for _, g := range rd.Gates {
		for k := 1 + rng.IntN(3); k > 0; k-- {
			rd.Pubs = append(rd.Pubs, pubSpec{Origin: e0[g.Dir], Ch: "a"})
		}
	}
	if rng.IntN(3) == 0 {
		rd.Pubs = append(rd.Pubs, pubSpec{Origin: rng.IntN(c.G.n), Ch: "a"})
	}
	rd.OldEnd = []string{"unstall", "close"}[rng.IntN(2)]
	for v := 0; v < c.G.n; v++ {
		c.Rounds[1].Pubs = append(c.Rounds[1].Pubs, pubSpec{Origin: v, Ch: "a"})
	}
	c.Rounds[1].Concurrent = rng.IntN(2) == 0
	assignKeys(rng, c, []string{"node", "node", "foreign", "mixed"}[rng.IntN(4)])
	return c
}

type subState struct {
	idx      int // index into cfg.Subs
	spec     subSpec
	h        pubsub.Subscription
	handlers []int
}

type wireEv struct {
	From, To int
	Tx, Rx   int64
	Pipe     string
}

type c28run struct {
	r    *vf.Run
	c    *c28cfg
	m    *g9mesh.Mesh
	subs []*subState // active
	// dup / uuid are keyed by EDGE INDEX (cfg.G.edges may hold parallel edges:
	// several links with different link ids between the same pair of nodes)
	dup  map[int]*g9mesh.Duplex
	uuid map[int]uint64
	// old: superseded links of an edge that are still up (make-before-break)
	old map[int][]*g9mesh.Duplex
	nh  int
	hch map[int]string // handler id -> channel
	hnd map[int]int    // handler id -> node
	// foreign identities: disjoint from the link identities of the mesh
	foreign []*keys.Identity
	nghost  int
}

// ident resolves a key index of a spec (0 = the node's link identity).
func (x *c28run) ident(node, key int) *keys.Identity {
	if key == 0 {
		return x.m.Nodes[node].Ident
	}
	return x.foreign[(key-1)%len(x.foreign)]
}

func (x *c28run) pipe(g gateSpec) *g9mesh.Pipe {
	d := x.dup[g.Edge]
	if g.Dir == 0 {
		return d.AB
	}
	return d.BA
}

func (x *c28run) witness(extra map[string]any) map[string]any {
	w := map[string]any{"config": x.c.desc(), "case": x.c.Idx}
	ids := make([]string, len(x.m.Nodes))
	for i, n := range x.m.Nodes {
		ids[i] = n.Ident.ID.String()
	}
	w["node_ids"] = ids
	for k, v := range extra {
		w[k] = v
	}
	return w
}

func (x *c28run) quiesce(stage string) bool {
	ok, busy := x.m.WaitQuiescent(watchdog)
	x.r.Count("quiescence_waits", 1)
	if !ok {
		x.r.Inconclusive(fmt.Sprintf("C28 case %d: no quiescence at %s within watchdog (busy: %s)", x.c.Idx, stage, busy))
	}
	return ok
}

func (x *c28run) apply(e event) bool {
	switch e.Kind {
	case evExec:
		x.m.Nodes[e.Node].Exec()
	case evSub:
		sp := x.c.Subs[e.Sub]
		n := x.m.Nodes[sp.Node]
		h, err := n.FS.AddSubscription(x.m.Ctx, x.ident(sp.Node, sp.Key).Priv, sp.Ch)
		if err != nil {
			x.r.Inconclusive("AddSubscription failed: " + err.Error())
			return false
		}
		st := &subState{idx: e.Sub, spec: sp, h: h}
		for k := 0; k < sp.Handlers; k++ {
			x.nh++
			id := x.nh
			x.hch[id] = sp.Ch
			x.hnd[id] = sp.Node
			st.handlers = append(st.handlers, id)
			h.AddHandler(x.m.Handler(sp.Node, e.Sub, id, sp.Ch))
		}
		x.subs = append(x.subs, st)
	case evLink:
		ed := x.c.G.edges[e.Edge]
		u, had := x.uuid[e.Edge]
		if had {
			x.r.Count("links_reestablished", 1)
		}
		if !had || !e.SameUUID {
			u = x.m.NextUUID()
			if had {
				x.r.Count("links_reestablished_under_new_link_id", 1)
			}
		}
		if cur := x.dup[e.Edge]; cur != nil && had && !e.SameUUID {
			// the edge is still linked: the new link comes up next to the old one
			x.old[e.Edge] = append(x.old[e.Edge], cur)
			x.r.Count("links_reestablished_before_old_link_lost", 1)
		}
		x.uuid[e.Edge] = u
		x.dup[e.Edge] = x.m.Link(ed[0], ed[1], u, e.AFirst)
		x.r.Count("links_established", 1)
	case evUnlink:
		if d := x.dup[e.Edge]; d != nil {
			d.Close()
			delete(x.dup, e.Edge)
			x.r.Count("links_torn_down", 1)
		}
	case evCloseOld:
		for _, d := range x.old[e.Edge] {
			d.Close()
			x.r.Count("links_torn_down", 1)
		}
		delete(x.old, e.Edge)
	case evRelease:
		for i, st := range x.subs {
			if st.idx == e.Sub {
				st.h.Release()
				x.subs = append(x.subs[:i:i], x.subs[i+1:]...)
				x.r.Count("subscriptions_released", 1)
				break
			}
		}
	case evGhost:
		x.ghost(e)
	case evBarrier:
		return x.quiesce("barrier")
	}
	return true
}

func (x *c28run) subscribed(ch string) []bool {
	s := make([]bool, x.c.G.n)
	for _, st := range x.subs {
		if st.spec.Ch == ch {
			s[st.spec.Node] = true
		}
	}
	return s
}

func (x *c28run) adj() [][]int {
	a := make([][]int, x.c.G.n)
	for ei := range x.dup {
		ed := x.c.G.edges[ei]
		a[ed[0]] = append(a[ed[0]], ed[1])
		a[ed[1]] = append(a[ed[1]], ed[0])
	}
	return a
}

// checkViews: at quiescence every neighbour's replayed view of a node's
// subscriptions equals the node's live channels (precondition of the reach
// model; the mechanism is named in the property's anchors).
func (x *c28run) checkViews() bool {
	ok := true
	for ei, d := range x.dup {
		ed := x.c.G.edges[ei]
		for dir := 0; dir < 2; dir++ {
			u, p := ed[0], d.AB
			if dir == 1 {
				u, p = ed[1], d.BA
			}
			want := map[string]bool{}
			for _, ch := range x.c.Chans {
				if x.subscribed(ch)[u] {
					want[ch] = true
				}
			}
			got := replayView(p.Frames())
			x.r.Count("neighbour_views_checked", 1)
			if !sameSet(want, got) {
				ok = false
				x.r.Violation("floodsub/announce-mismatch",
					fmt.Sprintf("at quiescence node %d's peer on %s believes it subscribes %s but its live channels are %s", u, p.Name, setStr(got), setStr(want)),
					x.witness(map[string]any{"pipe": p.Name}))
			}
		}
	}
	return ok
}

func (x *c28run) wireIndex() map[string][]wireEv {
	idx := map[string][]wireEv{}
	for _, p := range x.m.Pipes() {
		for _, f := range p.Frames() {
			for _, pi := range f.Pubs {
				idx[pi.Payload] = append(idx[pi.Payload], wireEv{From: p.From, To: p.To, Tx: f.Tx, Rx: f.Rx.Load(), Pipe: p.Name})
			}
		}
	}
	return idx
}

type pubRec struct {
	spec    pubSpec
	payload string
	// from is the peer id of the key that signs the message (ground truth).
	from string
	// nodeKey: the signing key is the publishing node's link identity, i.e.
	// the original publisher is a peer the neighbours can recognise.
	nodeKey bool
	via     pubsub.Subscription
	priv    crypto.PrivKey
}

// checkRound judges the publishes of one round at quiescence. exact says
// whether delivery to every reachable subscriber is demanded (it is not for
// publishes raced with a stream replacement).
func (x *c28run) checkRound(pubs []pubRec, exact bool) (nontrivial bool) {
	cnt := map[int]map[string]int{}
	dl := x.m.Deliveries()
	bypay := map[string][]g9mesh.Delivery{}
	for _, d := range dl {
		if cnt[d.Handler] == nil {
			cnt[d.Handler] = map[string]int{}
		}
		cnt[d.Handler][d.Data]++
		bypay[d.Data] = append(bypay[d.Data], d)
	}
	wire := x.wireIndex()
	adj := x.adj()
	allThere := true
	for _, p := range pubs {
		R := refFloodReach(adj, x.subscribed(p.spec.Ch), p.spec.Origin)
		oid := p.from
		// (1) handler callbacks
		for _, d := range bypay[p.payload] {
			if d.Channel != p.spec.Ch {
				x.r.Violation("floodsub/wrong-channel-delivery", fmt.Sprintf("message %q published on %q was handed to a handler of channel %q on node %d", p.payload, p.spec.Ch, d.Channel, d.Node), x.witness(nil))
			}
			if d.From != oid {
				x.r.Violation("floodsub/wrong-from", fmt.Sprintf("message %q published on node %d with the key of %s reported sender %s", p.payload, p.spec.Origin, oid, d.From), x.witness(nil))
			}
		}
		reached := 0
		for _, st := range x.subs {
			if st.spec.Ch != p.spec.Ch {
				continue
			}
			for _, h := range st.handlers {
				c := cnt[h][p.payload]
				x.r.Count("handler_message_pairs_checked", 1)
				switch {
				case R[st.spec.Node] && c == 0:
					allThere = false
					if exact {
						x.r.Violation("floodsub/missing-delivery",
							fmt.Sprintf("quiescent mesh: message %q (origin %d, channel %s) never reached handler %d on reachable subscriber node %d", p.payload, p.spec.Origin, p.spec.Ch, h, st.spec.Node),
							x.witness(map[string]any{"wire": wire[p.payload], "reach": fmt.Sprint(R)}))
					} else {
						x.r.Count("lost_during_stream_replacement", 1)
					}
				case c > 1:
					x.r.Violation("floodsub/dup-delivery",
						fmt.Sprintf("message %q (origin %d, channel %s) was handed %d times to handler %d on node %d", p.payload, p.spec.Origin, p.spec.Ch, c, h, st.spec.Node),
						x.witness(map[string]any{"wire": wire[p.payload], "deliveries": bypay[p.payload]}))
				case !R[st.spec.Node] && c > 0:
					x.r.Violation("floodsub/delivery-outside-overlay",
						fmt.Sprintf("message %q reached node %d which is not reachable through subscribed peers", p.payload, st.spec.Node),
						x.witness(map[string]any{"wire": wire[p.payload]}))
				}
				if R[st.spec.Node] && c == 1 && st.spec.Node != p.spec.Origin {
					reached++
				}
			}
		}
		if reached > 0 {
			nontrivial = true
		}
		x.r.Count("remote_exactly_once_deliveries", reached)
		// (2) wire rules
		evs := wire[p.payload]
		perEdge := map[[2]int]int{}
		for _, e := range evs {
			perEdge[[2]int{e.From, e.To}]++
			x.r.Count("wire_message_copies", 1)
			if e.To == p.spec.Origin && !p.nodeKey {
				// the message is signed by a key that is no peer of the
				// mesh: its "original publisher" is not a peer anybody has a
				// link to, so nothing is demanded about copies that reach
				// the publishing node (which must still de-duplicate them).
				x.r.Count("wire_copies_into_publishing_node_foreign_key", 1)
			}
			if e.To == p.spec.Origin && p.nodeKey {
				x.r.Violation("floodsub/echo-to-origin",
					fmt.Sprintf("node %d sent message %q back to its original publisher %d", e.From, p.payload, e.To),
					x.witness(map[string]any{"wire": evs}))
			}
			if e.From == p.spec.Origin {
				continue
			}
			sourced := false
			for _, in := range evs {
				if in.To == e.From && in.From != e.To && in.Rx != 0 && in.Rx < e.Tx {
					sourced = true
					break
				}
			}
			if !sourced {
				x.r.Violation("floodsub/echo-to-prev-hop",
					fmt.Sprintf("node %d sent message %q to node %d without having received it before from any other peer", e.From, p.payload, e.To),
					x.witness(map[string]any{"wire": evs}))
			}
		}
		for _, k := range perEdge {
			if k > 1 {
				x.r.Count("wire_same_edge_resends", k-1)
			}
		}
	}
	return nontrivial && (allThere || !exact)
}

// publish issues the publishes of a round. With gates: the gates are closed
// first, the publishes run in their own goroutines (they may block under
// back-pressure), the harness waits until the mesh has come to rest against
// the closed gates - either exactly quiescent with every publish call
// returned, or a router parked on a full send queue - and then opens the
// gates. ok=false: a watchdog expired (inconclusive).
func (x *c28run) publish(ri int, rs roundSpec, relinkDuring bool) (recs []pubRec, ok bool) {
	recs = x.mkRecs(ri, rs)
	var wg sync.WaitGroup
	one := func(k int) { x.issue(&recs[k]) }
	if relinkDuring {
		ed := x.c.G.edges[0]
		wg.Add(1)
		x.m.Go(func() {
			defer wg.Done()
			for i := 0; i < 3; i++ {
				runtime.Gosched()
			}
			// replace the stream of the same (peer, link) tuple on both ends
			x.dup[0] = x.m.Link(ed[0], ed[1], x.uuid[0], true)
			x.r.Count("stream_replacements", 1)
		})
	}
	if len(rs.During) > 0 {
		wg.Add(1)
		x.m.Go(func() {
			defer wg.Done()
			for i := 0; i < 3; i++ {
				runtime.Gosched()
			}
			for _, e := range rs.During {
				x.apply(e)
				runtime.Gosched()
			}
			x.r.Count("rounds_with_link_churn_during_publishes", 1)
		})
	}
	return x.publishGated(rs, recs, &wg, one)
}

// mkRecs prepares the ground truth of the publishes of a round.
func (x *c28run) mkRecs(ri int, rs roundSpec) []pubRec {
	recs := make([]pubRec, len(rs.Pubs))
	for k, p := range rs.Pubs {
		rc := pubRec{spec: p, payload: fmt.Sprintf("c%d/r%d/p%d/o%d/%s", x.c.Idx, ri, k, p.Origin, p.Ch)}
		id := x.ident(p.Origin, p.Key)
		if !p.Direct {
			for _, st := range x.subs {
				if st.spec.Node == p.Origin && st.spec.Ch == p.Ch {
					rc.via = st.h
					id = x.ident(st.spec.Node, st.spec.Key)
					break
				}
			}
		}
		rc.priv = id.Priv
		rc.from = id.ID.String()
		rc.nodeKey = id == x.m.Nodes[p.Origin].Ident
		if rc.nodeKey {
			x.r.Count("publishes_signed_with_node_key", 1)
		} else {
			x.r.Count("publishes_signed_with_foreign_key", 1)
		}
		recs[k] = rc
	}
	return recs
}

// issue performs one publish call.
func (x *c28run) issue(rc *pubRec) {
	var err error
	if rc.via != nil {
		err = rc.via.Publish([]byte(rc.payload))
	} else {
		err = x.m.Nodes[rc.spec.Origin].FS.(g9mesh.Publisher).Publish(x.m.Ctx, rc.spec.Ch, rc.priv, []byte(rc.payload))
	}
	if err != nil {
		x.r.Inconclusive("publish failed: " + err.Error())
	}
	x.r.Count("publishes", 1)
}

func (x *c28run) publishGated(rs roundSpec, recs []pubRec, wgp *sync.WaitGroup, one func(k int)) ([]pubRec, bool) {
	wg := wgp
	for _, g := range rs.Gates {
		if g.Mode == "hold" {
			x.pipe(g).HoldReads(true)
		} else {
			x.pipe(g).StallWrites(true)
		}
		x.r.Count("gates_closed_"+g.Mode, 1)
	}
	gated := len(rs.Gates) > 0
	switch {
	case rs.Concurrent:
		for k := range rs.Pubs {
			k := k
			wg.Add(1)
			x.m.Go(func() { defer wg.Done(); one(k) })
		}
	case gated: // in order, but off the harness goroutine: a publish may block
		wg.Add(1)
		x.m.Go(func() {
			defer wg.Done()
			for k := range rs.Pubs {
				one(k)
			}
		})
	default:
		for k := range rs.Pubs {
			one(k)
		}
	}
	if !gated {
		wg.Wait()
		return recs, true
	}
	done := make(chan struct{})
	go func() { wg.Wait(); close(done) }()
	isDone := func() bool {
		select {
		case <-done:
			return true
		default:
			return false
		}
	}
	// wait until the mesh rests against the closed gates
	deadline := time.Now().Add(watchdog)
	rest := ""
	for rest == "" {
		if bp, _ := x.m.Backpressured(); bp {
			rest = "backpressure"
		} else if isDone() {
			if q, _ := x.m.QuiescentNow(); q {
				rest = "quiescent"
			}
		}
		if rest == "" {
			if time.Now().After(deadline) {
				x.r.Inconclusive(fmt.Sprintf("C28 case %d: mesh did not come to rest against the closed gates within the watchdog", x.c.Idx))
				for _, g := range rs.Gates {
					x.pipe(g).HoldReads(false)
					x.pipe(g).StallWrites(false)
				}
				return recs, false
			}
			time.Sleep(2 * time.Millisecond)
		}
	}
	x.r.Count("gated_rounds_rest_"+rest, 1)
	for _, g := range rs.Gates {
		p := x.pipe(g)
		if g.Mode == "hold" {
			x.r.Count("held_copies_in_flight_at_release", p.Pending())
		} else if p.WritersBlocked() > 0 {
			x.r.Count("stalled_streams_with_blocked_writer", 1)
		}
	}
	for _, g := range rs.Gates {
		if g.Mode == "hold" {
			x.pipe(g).HoldReads(false)
		} else {
			x.pipe(g).StallWrites(false)
		}
		if rs.QuiesceBetween && rest == "quiescent" {
			if !x.quiesce("between gate releases") {
				for _, h := range rs.Gates {
					x.pipe(h).HoldReads(false)
					x.pipe(h).StallWrites(false)
				}
				return recs, false
			}
		} else {
			runtime.Gosched()
		}
	}
	select {
	case <-done:
	case <-time.After(watchdog):
		x.r.Inconclusive(fmt.Sprintf("C28 case %d: publish calls did not return after the gates were opened (watchdog)", x.c.Idx))
		return recs, false
	}
	return recs, true
}

// relinkStalled runs round 0 of kind "relinkstall" (see genC28RelinkStall).
// Every wait is for exact quiescence (a session stuck in a stalled Pipe.Write
// counts as idle: only the harness can wake it).
func (x *c28run) relinkStalled(ri int, rs roundSpec) (recs []pubRec, ok bool) {
	recs = x.mkRecs(ri, rs)
	old := x.dup[0]
	openOld := func() { old.AB.StallWrites(false); old.BA.StallWrites(false) }
	for _, g := range rs.Gates {
		x.pipe(g).StallWrites(true)
		x.r.Count("gates_closed_stall", 1)
	}
	// few publishes (far below the per-peer queue size): no call can block
	for k := range recs {
		x.issue(&recs[k])
	}
	if !x.quiesce("publishes into the stalled old stream") {
		openOld()
		return recs, false
	}
	stuck := old.AB.WritersBlocked() + old.BA.WritersBlocked()
	x.r.Count("relinkstall_old_sessions_stuck_in_stream_write", stuck)
	ed := x.c.G.edges[0]
	x.dup[0] = x.m.Link(ed[0], ed[1], x.uuid[0], len(rs.Pubs)%2 == 0)
	x.r.Count("stream_replacements", 1)
	// the replacement sessions have started once the routers are idle again
	if !x.quiesce("replacement of the stalled stream") {
		openOld()
		return recs, false
	}
	if old.AB.WritersBlocked()+old.BA.WritersBlocked() > 0 {
		x.r.Count("relinkstall_old_sessions_alive_after_replacement_started", 1)
	}
	if rs.OldEnd == "close" {
		old.Close()
	} else {
		openOld()
	}
	x.r.Count("relinkstall_old_stream_end_"+rs.OldEnd, 1)
	return recs, true
}

func runC28(r *vf.Run, env *g9mesh.Env, pool []*keys.Identity, c *c28cfg, jr *journal) {
	jr.begin(c.Idx, c.desc())
	defer jr.end(c.Idx)
	rng := rand.New(rand.NewPCG(uint64(c.Idx), r.Seed()))
	ids := make([]*keys.Identity, c.G.n)
	var foreign []*keys.Identity
	for i, k := range rng.Perm(len(pool)) {
		if i < c.G.n {
			ids[i] = pool[k]
		} else {
			foreign = append(foreign, pool[k])
		}
	}
	m, err := g9mesh.NewMesh(env, ids)
	if err != nil {
		r.Inconclusive("NewMesh: " + err.Error())
		return
	}
	defer m.Close()
	m.Adopt()
	x := &c28run{r: r, c: c, m: m, dup: map[int]*g9mesh.Duplex{}, uuid: map[int]uint64{}, old: map[int][]*g9mesh.Duplex{}, hch: map[int]string{}, hnd: map[int]int{}, foreign: foreign}
	nontrivial := false
	for ri, rs := range c.Rounds {
		for _, e := range rs.Events {
			if !x.apply(e) {
				r.Case(c.desc(), false)
				return
			}
		}
		if !x.quiesce(fmt.Sprintf("setup of round %d", ri)) {
			r.Case(c.desc(), false)
			return
		}
		if !x.checkViews() && c.Kind != "churn" && c.Kind != "lifecycle" && c.Kind != "latejoin" {
			// (churn / lifecycle configurations go on: delivery is judged as well)
			r.Case(c.desc(), false)
			return
		}
		relink := (c.Kind == "relink" || c.Kind == "relinkstall") && ri == 0
		var recs []pubRec
		var pok bool
		if c.Kind == "relinkstall" && ri == 0 {
			recs, pok = x.relinkStalled(ri, rs)
		} else {
			recs, pok = x.publish(ri, rs, relink)
		}
		if !pok {
			r.Case(c.desc(), false)
			return
		}
		if !x.quiesce(fmt.Sprintf("publishes of round %d", ri)) {
			r.Case(c.desc(), false)
			return
		}
		if x.checkRound(recs, !relink && len(rs.During) == 0) {
			nontrivial = true
		}
	}
	// interleaving fingerprint: order in which copies crossed the taps
	var order []string
	for _, p := range m.Pipes() {
		for _, f := range p.Frames() {
			for range f.Pubs {
				order = append(order, fmt.Sprintf("%012d:%s", f.Tx, p.Name))
			}
			if len(f.Pubs) > 0 {
				r.Count("wire_publish_frames", 1)
			}
			if len(f.Subs) > 0 {
				r.Count("wire_subscription_frames", 1)
			}
		}
	}
	sort.Strings(order)
	for i := range order {
		order[i] = order[i][13:]
	}
	r.Distinct("wire_orders", c.G.name+strings.Join(order, ","))
	r.Distinct("topologies", fmt.Sprint(c.G.n, c.G.edges))
	if c.Kind == "latejoin" {
		r.Count("latejoin_configurations", 1)
		r.Count("latejoin_unsubscribes_for_never_announced_channel_seen_on_real_links", x.countLateUnsubs())
	}
	r.Count("deliveries_observed", len(m.Deliveries()))
	r.Case(c.desc(), nontrivial)
	r.Sample(map[string]any{"case": c.Idx, "config": c.desc(), "deliveries": len(m.Deliveries())})
}

func TestC28(t *testing.T) {
	r := vf.Start(t, "C28", vf.Exploration)
	defer r.Finish()
	r.SetRule("configuration = (connected graph: all 9 connected graphs on 2-4 nodes, line/star/ring/complete/PRNG graphs on 5-6 nodes; PRNG node relabelling) x (PRNG subscriber subsets on 1-2 channels, 1-2 handlers, sometimes 2 subscriptions per node/channel) x (PRNG order of Execute start / AddSubscription / AddPeerStream events with quiescence barriers; optionally a second round of late subscriptions and links) x (1-5 publishes per round from PRNG origins, via the subscription or FloodSub.Publish, sequential or concurrent); plus burst configurations (dense graphs, 40+ concurrent publishes), stream-replacement configurations (the stream of an existing (peer, link) tuple is replaced during a burst), delay configurations (mostly cyclic graphs; PRNG directions of edges - preferably out of the publishing nodes - hold back their copies (reads held) or stall until the rest of the mesh is exactly quiescent, then are opened one by one) and back-pressure configurations (trees / small cyclic graphs; the streams on one direction of an edge, on all edges into a victim node or on a PRNG set of directions stop draining (writes block) while 40-200 messages are published sequentially or concurrently from one or from PRNG origins; released when a router is parked on a full send queue or everything is exactly quiescent), multigraph configurations (small graphs on 3-5 nodes in which 1-2 PRNG links, or every link, are doubled or tripled: parallel streams with different link ids between the same pair of nodes, either side initiating, established together with or a round after the first link, sometimes one of the parallel links slow (reads held); publishers are PRNG nodes, so neighbours forward third-party messages over parallel links; the wire rules are evaluated per PEER over all of its links) and stalled-replacement configurations (the stream of edge 0's (peer, link) tuple is replaced on both ends while the old stream is stalled with 1-3 publishes stuck in its write, exact quiescence = replacement sessions started, then the old stream drains or is closed so that the old sessions exit late; then one publish from every node must be delivered exactly), link-churn configurations (small graphs on 2-4 nodes; the link of an edge - mostly the same edge again - is torn down (stream closed in both directions, sessions end) and re-established 1-3 times under a NEW link id, sometimes the old one: break-before-make with or without exact quiescence or publishes on the reduced graph in between, make-before-break (new link next to the old one, then the old one is lost), or either of them from a second goroutine while 12-24 publishes are in flight; after every step views and exact delivery of 2-5 publishes are judged and finally 30-44 publishes, mostly from the ends of the churned edges, must each be delivered exactly once) and subscription-lifecycle configurations (1-2 nodes - publishers, relays, leaves - release their last subscription to the channel, the mesh becomes exactly quiescent so that the unsubscribe was announced, publishes are judged with the node unsubscribed, then the node subscribes to the SAME channel again, 1-3 cycles, also with only a barrier or nothing in between; neighbour views and exact delivery judged after every step; sometimes a second channel stays subscribed throughout) and late-joiner configurations (kind latejoin, c28late_test.go: 3-4 nodes; A has exactly one other neighbour C recorded as subscribed, sometimes a further node D behind B, A or C; node B subscribes - announced or not -, releases its last subscription and is linked to A back to back in every order of subscribe / release / link, with or without an exact quiescent point between the steps, so that A receives Subscribe=false from B for a channel B never announced on that stream; the join link is torn down and the step repeated 1-3 times; the same protocol-legal input is also produced deterministically by a harness-driven peer with a foreign identity that attaches to A or a PRNG node and sends Subscribe=false for a channel it never announced, alone, after an empty initial set or after announcing another channel; views and exact delivery of 3-5 publishes judged after every step). Every subscription / direct publish signs with the node's link identity or with a foreign identity (key mode node / foreign / mixed per configuration). Half of the run has a scheduler yield installed at floodsub.seen.gap. Non-trivial = at least one message was observed exactly once at a handler on a node other than its origin and every demanded delivery was present at exact quiescence (pipes empty, readers parked, all floodsub goroutines of the mesh parked at their idle selects). Oracle = refFloodReach reference model: exactly-once per handler on reachable subscribers, zero elsewhere, no copy on an edge into the origin, every forwarded copy preceded (tap clock) by a reception from another peer.")
	r.Assume("reachable = reachable through peers subscribed to the channel (DESIGN 8)")
	r.Assume("the original publisher of a message is the peer whose key signed it (from_peer_id). Subscriptions / publishes use the node's link identity or a foreign key (an identity that is not the link identity of any node of the mesh). With the node key, no copy may appear on any edge into the publishing node. With a foreign key the original publisher is not a peer anybody holds a link to, so copies on edges into the publishing node are only counted; exactly-once hand-over to every local subscription (including those of the publishing node), delivery to every reachable subscriber and the previous-hop rule for every forwarding node are demanded unchanged. Publishing with the link identity of ANOTHER node of the mesh is not exercised")
	r.Assume("closed gates (held reads = a slow link, stalled writes = a stream that does not drain) are opened when the mesh rests against them, decided from goroutine states (exact quiescence with all publish calls returned, or a router parked on a full per-peer send queue), never from elapsed time; once all gates are open and the mesh is exactly quiescent delivery must be exact")
	r.Assume("never sends a message back to the peer it received it from is about PEERS: with parallel links a copy to the previous hop over any of its links is an echo; a neighbour legitimately receives one copy per parallel link (de-duplicated by the receiver)")
	r.Assume("publishes raced with a stream replacement or with the loss / re-establishment of a link need not be delivered (only no duplicate / echo / crash); after re-quiescence delivery is exact again")
	r.Assume("a link whose stream was closed in both directions and whose sessions have ended on both ends is not a link any more: reachability is judged on the links that are up")
	env, err := getEnv()
	if err != nil {
		t.Fatalf("env: %v", err)
	}
	setWatchdog(r)
	rng := r.Rand("c28")
	pool := keys.Pool(r.Rand("c28-keys"), 48)
	nMesh := r.N(112, 1200)
	nBurst := r.N(12, 80)
	nRelink := r.N(12, 60)
	burstPubs := r.N(48, 120)
	nDelay := r.N(40, 600)
	nStall := r.N(16, 160)
	stallHi := r.N(160, 200)
	nMulti := r.N(32, 500)
	nRelinkStall := r.N(16, 200)
	nChurn := r.N(32, 500)
	churnFinal := r.N(30, 40)
	nLife := r.N(32, 500)
	nLate := r.N(32, 500)
	rngLate := r.Rand("c28-latejoin")
	var phases [2][]*c28cfg
	idx := 0
	for ph := 0; ph < 2; ph++ {
		for i := 0; i < nMesh/2; i++ {
			phases[ph] = append(phases[ph], genC28(rng, idx, ph == 1))
			idx++
		}
		for i := 0; i < nBurst/2; i++ {
			phases[ph] = append(phases[ph], genC28Burst(rng, idx, ph == 1, burstPubs))
			idx++
		}
		for i := 0; i < nRelink/2; i++ {
			phases[ph] = append(phases[ph], genC28Relink(rng, idx, ph == 1))
			idx++
		}
		for i := 0; i < nDelay/2; i++ {
			phases[ph] = append(phases[ph], genC28Delay(rng, idx, ph == 1))
			idx++
		}
		for i := 0; i < nStall/2; i++ {
			phases[ph] = append(phases[ph], genC28Stall(rng, idx, ph == 1, 40, stallHi))
			idx++
		}
		for i := 0; i < nMulti/2; i++ {
			phases[ph] = append(phases[ph], genC28Multi(rng, idx, ph == 1))
			idx++
		}
		for i := 0; i < nRelinkStall/2; i++ {
			phases[ph] = append(phases[ph], genC28RelinkStall(rng, idx, ph == 1))
			idx++
		}
		for i := 0; i < nChurn/2; i++ {
			phases[ph] = append(phases[ph], genC28Churn(rng, idx, ph == 1, churnFinal))
			idx++
		}
		for i := 0; i < nLife/2; i++ {
			phases[ph] = append(phases[ph], genC28Life(rng, idx, ph == 1))
			idx++
		}
		for i := 0; i < nLate/2; i++ {
			phases[ph] = append(phases[ph], genC28Late(rngLate, idx, ph == 1))
			idx++
		}
	}
	// debugging aid: VERIF_C28_KINDS=delay,stall restricts the run to some
	// kinds of configurations (the case list itself is not changed).
	if only := os.Getenv("VERIF_C28_KINDS"); only != "" {
		r.Extra("restricted_to_kinds", only)
		for ph := range phases {
			var keep []*c28cfg
			for _, c := range phases[ph] {
				if strings.Contains(","+only+",", ","+c.Kind+",") {
					keep = append(keep, c)
				}
			}
			phases[ph] = keep
		}
	}
	jr := newJournal(r)
	for ph := 0; ph < 2; ph++ {
		if ph == 1 {
			verifhook.SetPoint("floodsub.seen.gap", func() {
				for i := 0; i < 4; i++ {
					runtime.Gosched()
				}
			})
		}
		cs := phases[ph]
		parallel(len(cs), 16, func(i int) { runC28(r, env, pool, cs[i], jr) })
	}
	verifhook.SetPoint("floodsub.seen.gap", nil)
	r.Extra("seen_gap_hook_hits", verifhook.Hits("floodsub.seen.gap"))
	r.Extra("goroutine_snapshots", env.W.Taken())
	r.Extra("execute_idle_line", env.IdleLine)
	cost, bytes := env.W.Cost()
	r.Extra("goroutine_snapshot_cost", fmt.Sprintf("%v for %d bytes", cost, bytes))
}
