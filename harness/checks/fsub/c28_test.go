package fsub

import (
	"fmt"
	"math/rand/v2"
	"runtime"
	"sort"
	"strings"
	"sync"
	"testing"

	"github.com/aperturerobotics/bifrost/pubsub"
	"github.com/aperturerobotics/bifrost/util/verifhook"

	"verifharness/g9mesh"
	"verifharness/keys"
	"verifharness/vf"
)

type subSpec struct {
	Node     int
	Ch       string
	Handlers int
	Round    int
}

type evKind int

const (
	evExec evKind = iota
	evSub
	evLink
	evBarrier
)

type event struct {
	Kind   evKind
	Node   int  // evExec
	Sub    int  // evSub: index into cfg.Subs
	Edge   int  // evLink: index into cfg.G.edges
	AFirst bool // evLink
}

func (e event) String() string {
	switch e.Kind {
	case evExec:
		return fmt.Sprintf("exec%d", e.Node)
	case evSub:
		return fmt.Sprintf("sub#%d", e.Sub)
	case evLink:
		return fmt.Sprintf("link#%d/%v", e.Edge, e.AFirst)
	}
	return "barrier"
}

type pubSpec struct {
	Origin int
	Ch     string
	Direct bool
}

type roundSpec struct {
	Events     []event
	Pubs       []pubSpec
	Concurrent bool
}

type c28cfg struct {
	Idx    int
	Kind   string // "mesh", "burst", "relink"
	G      graph
	Chans  []string
	Subs   []subSpec
	Rounds []roundSpec
	Yield  bool
}

func (c *c28cfg) desc() string {
	var sb strings.Builder
	fmt.Fprintf(&sb, "kind=%s graph=%s n=%d edges=%v yield=%v subs=", c.Kind, c.G.name, c.G.n, c.G.edges, c.Yield)
	for i, s := range c.Subs {
		fmt.Fprintf(&sb, "[#%d n%d %s h%d r%d]", i, s.Node, s.Ch, s.Handlers, s.Round)
	}
	for i, r := range c.Rounds {
		fmt.Fprintf(&sb, " round%d{ev=%v conc=%v pubs=", i, r.Events, r.Concurrent)
		for _, p := range r.Pubs {
			fmt.Fprintf(&sb, "(o%d %s d=%v)", p.Origin, p.Ch, p.Direct)
		}
		sb.WriteString("}")
	}
	return sb.String()
}

func randomConnected(rng *rand.Rand, n int) graph {
	g := graph{name: fmt.Sprintf("rnd%d", n), n: n}
	perm := rng.Perm(n)
	have := map[[2]int]bool{}
	add := func(a, b int) {
		if a > b {
			a, b = b, a
		}
		if a != b && !have[[2]int{a, b}] {
			have[[2]int{a, b}] = true
			g.edges = append(g.edges, [2]int{a, b})
		}
	}
	for i := 1; i < n; i++ {
		add(perm[i], perm[rng.IntN(i)])
	}
	for k := rng.IntN(n + 1); k > 0; k-- {
		add(rng.IntN(n), rng.IntN(n))
	}
	return g
}

func genC28(rng *rand.Rand, idx int, yield bool) *c28cfg {
	c := &c28cfg{Idx: idx, Kind: "mesh", Yield: yield}
	small := smallGraphs()
	switch k := idx % 16; {
	case k < 9:
		c.G = small[k]
	case k == 9:
		c.G = line(5 + rng.IntN(2))
	case k == 10:
		c.G = star(5 + rng.IntN(2))
	case k == 11:
		c.G = ring(5 + rng.IntN(2))
	case k == 12:
		c.G = complete(5 + rng.IntN(2))
	default:
		c.G = randomConnected(rng, 5+rng.IntN(2))
	}
	// relabel nodes so that identity order / initiator roles vary
	perm := rng.Perm(c.G.n)
	for i, e := range c.G.edges {
		a, b := perm[e[0]], perm[e[1]]
		if rng.IntN(2) == 0 {
			a, b = b, a
		}
		c.G.edges[i] = [2]int{a, b}
	}
	c.Chans = []string{"a"}
	if rng.IntN(2) == 0 {
		c.Chans = append(c.Chans, "b")
	}
	two := rng.IntN(3) == 0 // a second round with late subscriptions / links
	for v := 0; v < c.G.n; v++ {
		for _, ch := range c.Chans {
			if rng.IntN(10) < 7 {
				s := subSpec{Node: v, Ch: ch, Handlers: 1 + rng.IntN(2)}
				if two && rng.IntN(5) == 0 {
					s.Round = 1
				}
				c.Subs = append(c.Subs, s)
				if rng.IntN(7) == 0 {
					c.Subs = append(c.Subs, subSpec{Node: v, Ch: ch, Handlers: 1, Round: s.Round})
				}
			}
		}
	}
	nr := 1
	if two {
		nr = 2
	}
	c.Rounds = make([]roundSpec, nr)
	for v := 0; v < c.G.n; v++ {
		c.Rounds[0].Events = append(c.Rounds[0].Events, event{Kind: evExec, Node: v})
	}
	for i, s := range c.Subs {
		c.Rounds[s.Round].Events = append(c.Rounds[s.Round].Events, event{Kind: evSub, Sub: i})
	}
	for i := range c.G.edges {
		rd := 0
		if two && rng.IntN(6) == 0 {
			rd = 1
		}
		c.Rounds[rd].Events = append(c.Rounds[rd].Events, event{Kind: evLink, Edge: i, AFirst: rng.IntN(2) == 0})
	}
	for ri := range c.Rounds {
		ev := c.Rounds[ri].Events
		rng.Shuffle(len(ev), func(i, j int) { ev[i], ev[j] = ev[j], ev[i] })
		// barriers (wait for quiescence mid-way) only once every node executes
		lastExec := -1
		for i, e := range ev {
			if e.Kind == evExec {
				lastExec = i
			}
		}
		for nb := rng.IntN(3); nb > 0 && lastExec+1 < len(ev); nb-- {
			pos := lastExec + 1 + rng.IntN(len(ev)-lastExec-1)
			ev = append(ev[:pos], append([]event{{Kind: evBarrier}}, ev[pos:]...)...)
		}
		c.Rounds[ri].Events = ev
		c.Rounds[ri].Concurrent = rng.IntN(2) == 0
	}
	// publishes: subscribed state per round
	for ri := range c.Rounds {
		np := 1 + rng.IntN(5)
		for k := 0; k < np; k++ {
			p := pubSpec{Origin: rng.IntN(c.G.n), Ch: c.Chans[rng.IntN(len(c.Chans))]}
			has := false
			for _, s := range c.Subs {
				if s.Node == p.Origin && s.Ch == p.Ch && s.Round <= ri {
					has = true
				}
			}
			p.Direct = !has || rng.IntN(5) == 0
			c.Rounds[ri].Pubs = append(c.Rounds[ri].Pubs, p)
		}
	}
	return c
}

func genC28Burst(rng *rand.Rand, idx int, yield bool, npub int) *c28cfg {
	c := &c28cfg{Idx: idx, Kind: "burst", Yield: yield, Chans: []string{"a"}}
	gs := []graph{complete(4), complete(5), ring(4), smallGraphs()[7], complete(3), complete(6)}
	c.G = gs[rng.IntN(len(gs))]
	c.Rounds = make([]roundSpec, 1)
	for v := 0; v < c.G.n; v++ {
		c.Subs = append(c.Subs, subSpec{Node: v, Ch: "a", Handlers: 1})
		c.Rounds[0].Events = append(c.Rounds[0].Events, event{Kind: evExec, Node: v}, event{Kind: evSub, Sub: v})
	}
	for i := range c.G.edges {
		c.Rounds[0].Events = append(c.Rounds[0].Events, event{Kind: evLink, Edge: i, AFirst: rng.IntN(2) == 0})
	}
	for k := 0; k < npub; k++ {
		c.Rounds[0].Pubs = append(c.Rounds[0].Pubs, pubSpec{Origin: rng.IntN(c.G.n), Ch: "a"})
	}
	c.Rounds[0].Concurrent = true
	return c
}

func genC28Relink(rng *rand.Rand, idx int, yield bool) *c28cfg {
	c := &c28cfg{Idx: idx, Kind: "relink", Yield: yield, Chans: []string{"a"}}
	c.G = []graph{line(2), line(3), complete(3)}[rng.IntN(3)]
	c.Rounds = make([]roundSpec, 2)
	for v := 0; v < c.G.n; v++ {
		c.Subs = append(c.Subs, subSpec{Node: v, Ch: "a", Handlers: 1})
		c.Rounds[0].Events = append(c.Rounds[0].Events, event{Kind: evExec, Node: v}, event{Kind: evSub, Sub: v})
	}
	for i := range c.G.edges {
		c.Rounds[0].Events = append(c.Rounds[0].Events, event{Kind: evLink, Edge: i, AFirst: rng.IntN(2) == 0})
	}
	// round 0: a burst from the nodes of edge 0 while that edge's stream is replaced
	e0 := c.G.edges[0]
	for k := 0; k < 24; k++ {
		c.Rounds[0].Pubs = append(c.Rounds[0].Pubs, pubSpec{Origin: e0[k%2], Ch: "a"})
	}
	c.Rounds[0].Concurrent = true
	for v := 0; v < c.G.n; v++ {
		c.Rounds[1].Pubs = append(c.Rounds[1].Pubs, pubSpec{Origin: v, Ch: "a"})
	}
	return c
}

type subState struct {
	spec     subSpec
	h        pubsub.Subscription
	handlers []int
}

type wireEv struct {
	From, To int
	Tx, Rx   int64
	Pipe     string
}

type c28run struct {
	r    *vf.Run
	c    *c28cfg
	m    *g9mesh.Mesh
	subs []*subState // active
	dup  map[[2]int]*g9mesh.Duplex
	uuid map[[2]int]uint64
	nh   int
	hch  map[int]string // handler id -> channel
	hnd  map[int]int    // handler id -> node
}

func (x *c28run) witness(extra map[string]any) map[string]any {
	w := map[string]any{"config": x.c.desc(), "case": x.c.Idx}
	ids := make([]string, len(x.m.Nodes))
	for i, n := range x.m.Nodes {
		ids[i] = n.Ident.ID.String()
	}
	w["node_ids"] = ids
	for k, v := range extra {
		w[k] = v
	}
	return w
}

func (x *c28run) quiesce(stage string) bool {
	ok, busy := x.m.WaitQuiescent(watchdog)
	x.r.Count("quiescence_waits", 1)
	if !ok {
		x.r.Inconclusive(fmt.Sprintf("C28 case %d: no quiescence at %s within watchdog (busy: %s)", x.c.Idx, stage, busy))
	}
	return ok
}

func (x *c28run) apply(e event) bool {
	switch e.Kind {
	case evExec:
		x.m.Nodes[e.Node].Exec()
	case evSub:
		sp := x.c.Subs[e.Sub]
		n := x.m.Nodes[sp.Node]
		h, err := n.FS.AddSubscription(x.m.Ctx, n.Ident.Priv, sp.Ch)
		if err != nil {
			x.r.Inconclusive("AddSubscription failed: " + err.Error())
			return false
		}
		st := &subState{spec: sp, h: h}
		for k := 0; k < sp.Handlers; k++ {
			x.nh++
			id := x.nh
			x.hch[id] = sp.Ch
			x.hnd[id] = sp.Node
			st.handlers = append(st.handlers, id)
			h.AddHandler(x.m.Handler(sp.Node, e.Sub, id, sp.Ch))
		}
		x.subs = append(x.subs, st)
	case evLink:
		ed := x.c.G.edges[e.Edge]
		u := x.m.NextUUID()
		x.uuid[ed] = u
		x.dup[ed] = x.m.Link(ed[0], ed[1], u, e.AFirst)
		x.r.Count("links_established", 1)
	case evBarrier:
		return x.quiesce("barrier")
	}
	return true
}

func (x *c28run) subscribed(ch string) []bool {
	s := make([]bool, x.c.G.n)
	for _, st := range x.subs {
		if st.spec.Ch == ch {
			s[st.spec.Node] = true
		}
	}
	return s
}

func (x *c28run) adj() [][]int {
	a := make([][]int, x.c.G.n)
	for ed := range x.dup {
		a[ed[0]] = append(a[ed[0]], ed[1])
		a[ed[1]] = append(a[ed[1]], ed[0])
	}
	return a
}

// checkViews: at quiescence every neighbour's replayed view of a node's
// subscriptions equals the node's live channels (precondition of the reach
// model; the mechanism is named in the property's anchors).
func (x *c28run) checkViews() bool {
	ok := true
	for ed, d := range x.dup {
		for dir := 0; dir < 2; dir++ {
			u, p := ed[0], d.AB
			if dir == 1 {
				u, p = ed[1], d.BA
			}
			want := map[string]bool{}
			for _, ch := range x.c.Chans {
				if x.subscribed(ch)[u] {
					want[ch] = true
				}
			}
			got := replayView(p.Frames())
			x.r.Count("neighbour_views_checked", 1)
			if !sameSet(want, got) {
				ok = false
				x.r.Violation("floodsub/announce-mismatch",
					fmt.Sprintf("at quiescence node %d's peer on %s believes it subscribes %s but its live channels are %s", u, p.Name, setStr(got), setStr(want)),
					x.witness(map[string]any{"pipe": p.Name}))
			}
		}
	}
	return ok
}

func (x *c28run) wireIndex() map[string][]wireEv {
	idx := map[string][]wireEv{}
	for _, p := range x.m.Pipes() {
		for _, f := range p.Frames() {
			for _, pi := range f.Pubs {
				idx[pi.Payload] = append(idx[pi.Payload], wireEv{From: p.From, To: p.To, Tx: f.Tx, Rx: f.Rx.Load(), Pipe: p.Name})
			}
		}
	}
	return idx
}

type pubRec struct {
	spec    pubSpec
	payload string
}

// checkRound judges the publishes of one round at quiescence. exact says
// whether delivery to every reachable subscriber is demanded (it is not for
// publishes raced with a stream replacement).
func (x *c28run) checkRound(pubs []pubRec, exact bool) (nontrivial bool) {
	cnt := map[int]map[string]int{}
	dl := x.m.Deliveries()
	bypay := map[string][]g9mesh.Delivery{}
	for _, d := range dl {
		if cnt[d.Handler] == nil {
			cnt[d.Handler] = map[string]int{}
		}
		cnt[d.Handler][d.Data]++
		bypay[d.Data] = append(bypay[d.Data], d)
	}
	wire := x.wireIndex()
	adj := x.adj()
	allThere := true
	for _, p := range pubs {
		R := refFloodReach(adj, x.subscribed(p.spec.Ch), p.spec.Origin)
		oid := x.m.Nodes[p.spec.Origin].Ident.ID.String()
		// (1) handler callbacks
		for _, d := range bypay[p.payload] {
			if d.Channel != p.spec.Ch {
				x.r.Violation("floodsub/wrong-channel-delivery", fmt.Sprintf("message %q published on %q was handed to a handler of channel %q on node %d", p.payload, p.spec.Ch, d.Channel, d.Node), x.witness(nil))
			}
			if d.From != oid {
				x.r.Violation("floodsub/wrong-from", fmt.Sprintf("message %q from node %d reported sender %s", p.payload, p.spec.Origin, d.From), x.witness(nil))
			}
		}
		reached := 0
		for _, st := range x.subs {
			if st.spec.Ch != p.spec.Ch {
				continue
			}
			for _, h := range st.handlers {
				c := cnt[h][p.payload]
				x.r.Count("handler_message_pairs_checked", 1)
				switch {
				case R[st.spec.Node] && c == 0:
					allThere = false
					if exact {
						x.r.Violation("floodsub/missing-delivery",
							fmt.Sprintf("quiescent mesh: message %q (origin %d, channel %s) never reached handler %d on reachable subscriber node %d", p.payload, p.spec.Origin, p.spec.Ch, h, st.spec.Node),
							x.witness(map[string]any{"wire": wire[p.payload], "reach": fmt.Sprint(R)}))
					} else {
						x.r.Count("lost_during_stream_replacement", 1)
					}
				case c > 1:
					x.r.Violation("floodsub/dup-delivery",
						fmt.Sprintf("message %q (origin %d, channel %s) was handed %d times to handler %d on node %d", p.payload, p.spec.Origin, p.spec.Ch, c, h, st.spec.Node),
						x.witness(map[string]any{"wire": wire[p.payload], "deliveries": bypay[p.payload]}))
				case !R[st.spec.Node] && c > 0:
					x.r.Violation("floodsub/delivery-outside-overlay",
						fmt.Sprintf("message %q reached node %d which is not reachable through subscribed peers", p.payload, st.spec.Node),
						x.witness(map[string]any{"wire": wire[p.payload]}))
				}
				if R[st.spec.Node] && c == 1 && st.spec.Node != p.spec.Origin {
					reached++
				}
			}
		}
		if reached > 0 {
			nontrivial = true
		}
		x.r.Count("remote_exactly_once_deliveries", reached)
		// (2) wire rules
		evs := wire[p.payload]
		perEdge := map[[2]int]int{}
		for _, e := range evs {
			perEdge[[2]int{e.From, e.To}]++
			x.r.Count("wire_message_copies", 1)
			if e.To == p.spec.Origin {
				x.r.Violation("floodsub/echo-to-origin",
					fmt.Sprintf("node %d sent message %q back to its original publisher %d", e.From, p.payload, e.To),
					x.witness(map[string]any{"wire": evs}))
			}
			if e.From == p.spec.Origin {
				continue
			}
			sourced := false
			for _, in := range evs {
				if in.To == e.From && in.From != e.To && in.Rx != 0 && in.Rx < e.Tx {
					sourced = true
					break
				}
			}
			if !sourced {
				x.r.Violation("floodsub/echo-to-prev-hop",
					fmt.Sprintf("node %d sent message %q to node %d without having received it before from any other peer", e.From, p.payload, e.To),
					x.witness(map[string]any{"wire": evs}))
			}
		}
		for _, k := range perEdge {
			if k > 1 {
				x.r.Count("wire_same_edge_resends", k-1)
			}
		}
	}
	return nontrivial && (allThere || !exact)
}

func (x *c28run) publish(ri int, rs roundSpec, relinkDuring bool) []pubRec {
	recs := make([]pubRec, len(rs.Pubs))
	var wg sync.WaitGroup
	one := func(k int) {
		p := rs.Pubs[k]
		n := x.m.Nodes[p.Origin]
		data := []byte(recs[k].payload)
		var err error
		var via pubsub.Subscription
		if !p.Direct {
			for _, st := range x.subs {
				if st.spec.Node == p.Origin && st.spec.Ch == p.Ch {
					via = st.h
					break
				}
			}
		}
		if via != nil {
			err = via.Publish(data)
		} else {
			err = n.FS.(g9mesh.Publisher).Publish(x.m.Ctx, p.Ch, n.Ident.Priv, data)
		}
		if err != nil {
			x.r.Inconclusive("publish failed: " + err.Error())
		}
		x.r.Count("publishes", 1)
	}
	for k, p := range rs.Pubs {
		recs[k] = pubRec{spec: p, payload: fmt.Sprintf("c%d/r%d/p%d/o%d/%s", x.c.Idx, ri, k, p.Origin, p.Ch)}
	}
	if relinkDuring {
		ed := x.c.G.edges[0]
		wg.Add(1)
		x.m.Go(func() {
			defer wg.Done()
			for i := 0; i < 3; i++ {
				runtime.Gosched()
			}
			// replace the stream of the same (peer, link) tuple on both ends
			x.dup[ed] = x.m.Link(ed[0], ed[1], x.uuid[ed], true)
			x.r.Count("stream_replacements", 1)
		})
	}
	if rs.Concurrent {
		for k := range rs.Pubs {
			k := k
			wg.Add(1)
			x.m.Go(func() { defer wg.Done(); one(k) })
		}
	} else {
		for k := range rs.Pubs {
			one(k)
		}
	}
	wg.Wait()
	return recs
}

func runC28(r *vf.Run, env *g9mesh.Env, pool []*keys.Identity, c *c28cfg, jr *journal) {
	jr.begin(c.Idx, c.desc())
	defer jr.end(c.Idx)
	rng := rand.New(rand.NewPCG(uint64(c.Idx), r.Seed()))
	ids := make([]*keys.Identity, c.G.n)
	for i, k := range rng.Perm(len(pool))[:c.G.n] {
		ids[i] = pool[k]
	}
	m, err := g9mesh.NewMesh(env, ids)
	if err != nil {
		r.Inconclusive("NewMesh: " + err.Error())
		return
	}
	defer m.Close()
	m.Adopt()
	x := &c28run{r: r, c: c, m: m, dup: map[[2]int]*g9mesh.Duplex{}, uuid: map[[2]int]uint64{}, hch: map[int]string{}, hnd: map[int]int{}}
	nontrivial := false
	for ri, rs := range c.Rounds {
		for _, e := range rs.Events {
			if !x.apply(e) {
				r.Case(c.desc(), false)
				return
			}
		}
		if !x.quiesce(fmt.Sprintf("setup of round %d", ri)) {
			r.Case(c.desc(), false)
			return
		}
		if !x.checkViews() {
			r.Case(c.desc(), false)
			return
		}
		relink := c.Kind == "relink" && ri == 0
		recs := x.publish(ri, rs, relink)
		if !x.quiesce(fmt.Sprintf("publishes of round %d", ri)) {
			r.Case(c.desc(), false)
			return
		}
		if x.checkRound(recs, !relink) {
			nontrivial = true
		}
	}
	// interleaving fingerprint: order in which copies crossed the taps
	var order []string
	for _, p := range m.Pipes() {
		for _, f := range p.Frames() {
			for range f.Pubs {
				order = append(order, fmt.Sprintf("%012d:%s", f.Tx, p.Name))
			}
			if len(f.Pubs) > 0 {
				r.Count("wire_publish_frames", 1)
			}
			if len(f.Subs) > 0 {
				r.Count("wire_subscription_frames", 1)
			}
		}
	}
	sort.Strings(order)
	for i := range order {
		order[i] = order[i][13:]
	}
	r.Distinct("wire_orders", c.G.name+strings.Join(order, ","))
	r.Distinct("topologies", fmt.Sprint(c.G.n, c.G.edges))
	r.Count("deliveries_observed", len(m.Deliveries()))
	r.Case(c.desc(), nontrivial)
	r.Sample(map[string]any{"case": c.Idx, "config": c.desc(), "deliveries": len(m.Deliveries())})
}

func TestC28(t *testing.T) {
	r := vf.Start(t, "C28", vf.Exploration)
	defer r.Finish()
	r.SetRule("configuration = (connected graph: all 9 connected graphs on 2-4 nodes, line/star/ring/complete/PRNG graphs on 5-6 nodes; PRNG node relabelling) x (PRNG subscriber subsets on 1-2 channels, 1-2 handlers, sometimes 2 subscriptions per node/channel) x (PRNG order of Execute start / AddSubscription / AddPeerStream events with quiescence barriers; optionally a second round of late subscriptions and links) x (1-5 publishes per round from PRNG origins, via the subscription or FloodSub.Publish, sequential or concurrent); plus burst configurations (dense graphs, 40+ concurrent publishes) and stream-replacement configurations (the stream of an existing (peer, link) tuple is replaced during a burst). Half of the run has a scheduler yield installed at floodsub.seen.gap. Non-trivial = at least one message was observed exactly once at a handler on a node other than its origin and every demanded delivery was present at exact quiescence (pipes empty, readers parked, all floodsub goroutines of the mesh parked at their idle selects). Oracle = refFloodReach reference model: exactly-once per handler on reachable subscribers, zero elsewhere, no copy on an edge into the origin, every forwarded copy preceded (tap clock) by a reception from another peer.")
	r.Assume("reachable = reachable through peers subscribed to the channel (DESIGN 8); node identity key = publishing key, so the original publisher is identifiable by peers")
	r.Assume("publishes raced with a stream replacement need not be delivered (only no duplicate / echo / crash); after re-quiescence delivery is exact again")
	env, err := getEnv()
	if err != nil {
		t.Fatalf("env: %v", err)
	}
	setWatchdog(r)
	rng := r.Rand("c28")
	pool := keys.Pool(r.Rand("c28-keys"), 24)
	nMesh := r.N(112, 1200)
	nBurst := r.N(12, 80)
	nRelink := r.N(12, 60)
	burstPubs := r.N(48, 120)
	var phases [2][]*c28cfg
	idx := 0
	for ph := 0; ph < 2; ph++ {
		for i := 0; i < nMesh/2; i++ {
			phases[ph] = append(phases[ph], genC28(rng, idx, ph == 1))
			idx++
		}
		for i := 0; i < nBurst/2; i++ {
			phases[ph] = append(phases[ph], genC28Burst(rng, idx, ph == 1, burstPubs))
			idx++
		}
		for i := 0; i < nRelink/2; i++ {
			phases[ph] = append(phases[ph], genC28Relink(rng, idx, ph == 1))
			idx++
		}
	}
	jr := newJournal(r)
	for ph := 0; ph < 2; ph++ {
		if ph == 1 {
			verifhook.SetPoint("floodsub.seen.gap", func() {
				for i := 0; i < 4; i++ {
					runtime.Gosched()
				}
			})
		}
		cs := phases[ph]
		parallel(len(cs), 16, func(i int) { runC28(r, env, pool, cs[i], jr) })
	}
	verifhook.SetPoint("floodsub.seen.gap", nil)
	r.Extra("seen_gap_hook_hits", verifhook.Hits("floodsub.seen.gap"))
	r.Extra("goroutine_snapshots", env.W.Taken())
	r.Extra("execute_idle_line", env.IdleLine)
	cost, bytes := env.W.Cost()
	r.Extra("goroutine_snapshot_cost", fmt.Sprintf("%v for %d bytes", cost, bytes))
}
