package fsub

// C27 family "dyn": the node's subscriptions CHANGE while publishes arrive.
//
// A real FloodSub node V, a harness-driven publishing stream H and a
// harness-driven observer N (announces every channel: it would be sent whatever
// V accepts). A script of steps runs on V: subscribe ch, release the last
// subscription(s) of ch, publish for ch on H's stream, exact quiescence; some
// steps (subscribe + release back to back, attaching the streams) run before
// V's Execute loop is started. Steps between two quiescent points run back to
// back, so that publishes fall into the window between the release of the last
// subscription and the router's next evaluation pass, subscriptions are
// released before they were ever announced, and changes of other channels land
// in the same evaluation tick.
//
// Ground truth (harness bookkeeping only): a publish on channel c is JUDGED iff
// an exact quiescent point Q (Execute running) precedes it and no subscription
// change of c lies between Q and the first exact quiescent point AFTER the
// publish (so the node has processed it under the subscription state of Q);
// publishes in a window are not judged either way. A judged publish for a channel that had no live
// subscription at Q must reach no handler and must not appear on any stream V
// writes. (A judged publish for a live channel is expected at the handlers:
// counted, it makes the case non-trivial; its absence is C28's business.)

import (
	"fmt"
	"math/rand/v2"
	"strings"

	"verifharness/g9mesh"
	"verifharness/keys"
	"verifharness/vf"
)

type c27dynStep struct {
	Op string // "sub", "rel", "pub", "q", "exec", "attach"
	Ch string
}

func (s c27dynStep) String() string {
	if s.Ch == "" {
		return s.Op
	}
	return s.Op + ":" + s.Ch
}

type c27dyn struct {
	Idx   int
	Steps []c27dynStep
	Shape string
}

func (c *c27dyn) desc() string {
	var sb strings.Builder
	for i, s := range c.Steps {
		if i > 0 {
			sb.WriteByte(' ')
		}
		sb.WriteString(s.String())
	}
	return fmt.Sprintf("dyn %s: %s", c.Shape, sb.String())
}

func genC27dyn(rng *rand.Rand, idx int) *c27dyn {
	c := &c27dyn{Idx: idx}
	chs := append([]string(nil), c29chans...)
	rng.Shuffle(len(chs), func(i, j int) { chs[i], chs[j] = chs[j], chs[i] })
	X, Y, Z := chs[0], chs[1], chs[2]
	live := map[string]bool{}
	add := func(op, ch string) {
		switch op {
		case "sub":
			live[ch] = true
		case "rel":
			live[ch] = false
		}
		c.Steps = append(c.Steps, c27dynStep{op, ch})
	}
	// prelude: what happens before the Execute loop runs
	pre := idx % 4
	var shape []string
	switch pre {
	case 0: // subscribed and released before Execute starts
		add("sub", X)
		if rng.IntN(2) == 0 {
			add("sub", Y)
		}
		add("rel", X)
		if rng.IntN(2) == 0 {
			add("attach", "")
			add("exec", "")
		} else {
			add("exec", "")
			add("attach", "")
		}
		shape = append(shape, "released-before-exec")
	case 1: // subscribed before Execute starts
		add("sub", X)
		add("attach", "")
		add("exec", "")
		shape = append(shape, "subscribed-before-exec")
	default:
		add("exec", "")
		add("attach", "")
		if rng.IntN(2) == 0 {
			add("sub", X)
		}
		shape = append(shape, "exec-first")
	}
	add("q", "")
	judged := func(n int) {
		for ; n > 0; n-- {
			ch := X
			if rng.IntN(5) == 0 {
				ch = []string{Y, Z}[rng.IntN(2)]
			}
			add("pub", ch)
		}
	}
	judged(1 + rng.IntN(3))
	for seg, nseg := 0, 2+rng.IntN(3); seg < nseg; seg++ {
		kind := rng.IntN(6)
		switch kind {
		case 0: // release the last subscription with publishes around it, another channel changing in the same tick
			if !live[X] {
				add("sub", X)
				add("q", "")
				add("pub", X)
			}
			if rng.IntN(3) != 0 {
				if live[Y] {
					add("rel", Y)
				} else {
					add("sub", Y)
				}
			}
			for n := rng.IntN(3); n > 0; n-- {
				add("pub", X)
			}
			add("rel", X)
			for n := 1 + rng.IntN(4); n > 0; n-- {
				add("pub", X)
			}
			shape = append(shape, "publishes-around-release")
		case 1: // subscribe + release back to back (never announced), optionally behind another change
			if live[X] {
				add("rel", X)
				add("q", "")
			}
			if rng.IntN(3) != 0 {
				if live[Z] {
					add("rel", Z)
				} else {
					add("sub", Z)
				}
			}
			add("sub", X)
			if rng.IntN(3) == 0 {
				add("pub", X)
			}
			add("rel", X)
			if rng.IntN(2) == 0 {
				add("pub", X)
			}
			shape = append(shape, "subscribe-release-in-one-tick")
		case 2: // release + re-subscribe back to back
			if !live[X] {
				add("sub", X)
				if rng.IntN(2) == 0 {
					add("q", "")
				}
			}
			add("rel", X)
			if rng.IntN(2) == 0 {
				add("pub", X)
			}
			add("sub", X)
			if rng.IntN(2) == 0 {
				add("rel", X)
				add("pub", X)
			}
			shape = append(shape, "release-resubscribe")
		case 3: // release with exact quiescence, later publishes
			if !live[X] {
				add("sub", X)
				add("q", "")
			}
			add("rel", X)
			shape = append(shape, "release-quiesce")
		default: // PRNG walk
			for n := 2 + rng.IntN(5); n > 0; n-- {
				ch := []string{X, X, Y, Z}[rng.IntN(4)]
				switch rng.IntN(3) {
				case 0:
					add("pub", ch)
				default:
					if live[ch] {
						add("rel", ch)
					} else {
						add("sub", ch)
					}
				}
			}
			shape = append(shape, "walk")
		}
		add("q", "")
		judged(2 + rng.IntN(3))
		if rng.IntN(4) != 0 {
			add("q", "") // the judged publishes are processed before the next change
			if rng.IntN(4) == 0 {
				judged(1 + rng.IntN(2))
			}
		}
	}
	c.Shape = strings.Join(shape, "+")
	return c
}

type c27dynPub struct {
	pay, ch string
	step    int
	verdict string // "must-not", "expected", "window"
}

func runC27dyn(r *vf.Run, env *g9mesh.Env, pool []*keys.Identity, c *c27dyn, jr *journal) {
	jr.begin(500000+c.Idx, c.desc())
	defer jr.end(500000 + c.Idx)
	rng := rand.New(rand.NewPCG(uint64(c.Idx)+770003, r.Seed()))
	g, rest := newGnode(r, env, pool, rng, c.Idx, fmt.Sprintf("dy%d", c.Idx), c.desc())
	if g == nil {
		return
	}
	defer g.m.Close()
	fail := func() { r.Case(c.desc(), false) }
	quiesce := func(stage string) bool {
		ok, busy := g.m.WaitQuiescent(watchdog)
		if !ok {
			r.Inconclusive(fmt.Sprintf("C27 dyn case %d: no quiescence at %s (%s)", c.Idx, stage, busy))
		}
		return ok
	}
	// harness model of V's subscriptions
	live := map[string]bool{}
	execd := false
	haveQ := false
	liveAtQ := map[string]bool{}
	changedSinceQ := map[string]bool{}
	var pubs, pending []*c27dynPub
	changed := func(ch string) {
		changedSinceQ[ch] = true
		// publishes not yet known to be processed race with this change
		for _, p := range pending {
			if p.ch == ch && p.verdict != "window" {
				p.verdict = "window"
				r.Count("dyn_publishes_demoted_to_window", 1)
			}
		}
	}
	for si, st := range c.Steps {
		switch st.Op {
		case "exec":
			g.m.Nodes[0].Exec()
			execd = true
		case "attach":
			for i := 0; i < 2; i++ {
				n := &gneigh{id: pool[rest[i]].ID, uu: g.m.NextUUID()}
				n.cur, n.end = g.m.AttachLink(0, n.id, n.uu, rng.IntN(2) == 0)
				g.neigh = append(g.neigh, n)
			}
			g.announce(g.neigh[1], c29chans, true) // the observer takes everything
			if rng.IntN(2) == 0 {
				g.announce(g.neigh[0], c29chans[:1+rng.IntN(3)], true)
			}
		case "sub":
			if !g.subscribe(st.Ch) {
				fail()
				return
			}
			if rng.IntN(4) == 0 && !g.subscribe(st.Ch) { // two subscriptions: the LAST release counts
				fail()
				return
			}
			live[st.Ch] = true
			changed(st.Ch)
			r.Count("dyn_subscribes", 1)
		case "rel":
			for _, i := range g.liveOn(st.Ch) {
				g.release(i)
			}
			live[st.Ch] = false
			changed(st.Ch)
			r.Count("dyn_releases_of_last_subscription", 1)
		case "q":
			if !quiesce(fmt.Sprintf("step %d", si)) {
				fail()
				return
			}
			pending = nil
			if execd && len(g.neigh) > 0 {
				haveQ = true
				liveAtQ = map[string]bool{}
				for ch, v := range live {
					liveAtQ[ch] = v
				}
				changedSinceQ = map[string]bool{}
			}
		case "pub":
			if len(g.neigh) == 0 {
				continue
			}
			p := &c27dynPub{pay: g.payload(st.Ch), ch: st.Ch, step: si, verdict: "window"}
			if haveQ && !changedSinceQ[st.Ch] {
				if liveAtQ[st.Ch] {
					p.verdict = "expected"
				} else {
					p.verdict = "must-not"
				}
			}
			pubs = append(pubs, p)
			pending = append(pending, p)
			_ = g.neigh[0].end.WritePacket(g.packet(p.pay, st.Ch))
		}
	}
	if !quiesce("end of script") {
		fail()
		return
	}
	byPay := map[string]*c27dynPub{}
	for _, p := range pubs {
		byPay[p.pay] = p
	}
	wit := func(p *c27dynPub, extra map[string]any) map[string]any {
		w := g.wit(map[string]any{"publish_step": p.step, "channel": p.ch, "payload": p.pay, "V": g.V.ID.String()})
		for k, v := range extra {
			w[k] = v
		}
		return w
	}
	expectedSeen, windowAccepted := 0, 0
	for _, d := range g.m.Deliveries() {
		r.Count("handler_callbacks", 1)
		p := byPay[d.Data]
		s := g.subs[d.Handler]
		switch {
		case p == nil:
			r.Violation("floodsub/handed-unknown-message", fmt.Sprintf("handler of %q was handed data %q that nobody signed", s.ch, d.Data), g.wit(map[string]any{"delivery": d}))
		case p.ch != s.ch:
			r.Violation("floodsub/handed-wrong-channel", fmt.Sprintf("handler of %q was handed message %q signed for channel %q", s.ch, d.Data, p.ch), wit(p, map[string]any{"delivery": d}))
		case p.verdict == "must-not":
			r.Violation("floodsub/handed-unsubscribed-channel",
				fmt.Sprintf("message %q for channel %q was handed to a handler although the node had no subscription to %q at the exact quiescent point before it was sent nor since", d.Data, p.ch, p.ch), wit(p, map[string]any{"delivery": d}))
		case p.verdict == "expected":
			expectedSeen++
			r.Count("authentic_deliveries", 1)
		default:
			windowAccepted++
		}
	}
	for ni, n := range g.neigh {
		for _, f := range n.cur.AB.Frames() {
			for _, pi := range f.Pubs {
				r.Count("forwarded_copies_checked", 1)
				p := byPay[pi.Payload]
				switch {
				case p == nil:
					r.Violation("floodsub/forwarded-unknown-message", fmt.Sprintf("the node put data %q on the wire that nobody signed", pi.Payload), g.wit(nil))
				case pi.Channel != p.ch:
					r.Violation("floodsub/forwarded-wrong-channel", fmt.Sprintf("the node forwarded message %q, signed for channel %q, with inner channel %q", pi.Payload, p.ch, pi.Channel), wit(p, nil))
				case p.verdict == "must-not":
					r.Violation("floodsub/forwarded-unsubscribed-channel",
						fmt.Sprintf("the node forwarded message %q for channel %q to neighbour %d although it had no subscription to %q at the exact quiescent point before the message was sent nor since", pi.Payload, p.ch, ni, p.ch), wit(p, nil))
				case p.verdict == "window":
					r.Count("dyn_window_publishes_forwarded", 1)
				}
			}
		}
	}
	mustNot := 0
	for _, p := range pubs {
		r.Count("dyn_publishes_"+p.verdict, 1)
		if p.verdict == "must-not" {
			mustNot++
		}
	}
	r.Count("dyn_scripts", 1)
	r.Count("dyn_window_publishes_handed_to_handlers", windowAccepted)
	r.Distinct("dyn_shapes", c.Shape)
	r.Case(c.desc(), mustNot > 0 && expectedSeen > 0)
	if c.Idx < 2 {
		r.Sample(map[string]any{"case": c.Idx, "script": c.desc(), "judged_must_not": mustNot, "judged_expected_and_delivered": expectedSeen})
	}
}
