// Package fsub holds the runtime monitors for C27, C28 and C29 (pubsub /
// floodsub). They share "Harness C" (verifharness/g9mesh).
package fsub

import (
	"fmt"
	"sort"
	"strings"
	"sync"
	"time"

	"verifharness/g9mesh"
	"verifharness/vf"
)

// watchdog bounds every wait for a condition; its expiry is only ever
// reported as inconclusive.
var watchdog = 30 * time.Second

func setWatchdog(r *vf.Run) { watchdog = time.Duration(r.N(30, 120)) * time.Second }

var (
	envOnce sync.Once
	envVal  *g9mesh.Env
	envErr  error
)

func getEnv() (*g9mesh.Env, error) {
	envOnce.Do(func() { envVal, envErr = g9mesh.NewEnv() })
	return envVal, envErr
}

// parallel runs f(i) for i in [0,n) on at most w goroutines (one fresh
// goroutine per case so that goroutine attribution never leaks between cases).
func parallel(n, w int, f func(i int)) {
	sem := make(chan struct{}, w)
	var wg sync.WaitGroup
	for i := 0; i < n; i++ {
		sem <- struct{}{}
		wg.Add(1)
		go func(i int) {
			defer func() { <-sem; wg.Done() }()
			f(i)
		}(i)
	}
	wg.Wait()
}

// journal keeps the descriptions of the cases currently in flight so that the
// crash journal (r.Begin) always names all of them.
type journal struct {
	mu  sync.Mutex
	cur map[int]string
	r   *vf.Run
}

func newJournal(r *vf.Run) *journal { return &journal{cur: map[int]string{}, r: r} }

func (j *journal) begin(i int, desc string) {
	j.mu.Lock()
	j.cur[i] = desc
	j.flush()
	j.mu.Unlock()
}

func (j *journal) end(i int) {
	j.mu.Lock()
	delete(j.cur, i)
	j.mu.Unlock()
}

func (j *journal) flush() {
	ks := make([]int, 0, len(j.cur))
	for k := range j.cur {
		ks = append(ks, k)
	}
	sort.Ints(ks)
	var sb strings.Builder
	sb.WriteString("cases in flight when this was written:\n")
	for _, k := range ks {
		fmt.Fprintf(&sb, "case %d: %s\n", k, j.cur[k])
	}
	j.r.Begin(sb.String())
}

// ---- graphs ----

type graph struct {
	name  string
	n     int
	edges [][2]int
}

func (g graph) adj() [][]int {
	a := make([][]int, g.n)
	for _, e := range g.edges {
		a[e[0]] = append(a[e[0]], e[1])
		a[e[1]] = append(a[e[1]], e[0])
	}
	return a
}

func line(n int) graph {
	g := graph{name: fmt.Sprintf("line%d", n), n: n}
	for i := 0; i+1 < n; i++ {
		g.edges = append(g.edges, [2]int{i, i + 1})
	}
	return g
}

func star(n int) graph {
	g := graph{name: fmt.Sprintf("star%d", n), n: n}
	for i := 1; i < n; i++ {
		g.edges = append(g.edges, [2]int{0, i})
	}
	return g
}

func ring(n int) graph {
	g := line(n)
	g.name = fmt.Sprintf("ring%d", n)
	g.edges = append(g.edges, [2]int{n - 1, 0})
	return g
}

func complete(n int) graph {
	g := graph{name: fmt.Sprintf("complete%d", n), n: n}
	for i := 0; i < n; i++ {
		for j := i + 1; j < n; j++ {
			g.edges = append(g.edges, [2]int{i, j})
		}
	}
	return g
}

// smallGraphs: all connected graphs on 2..4 nodes up to isomorphism.
func smallGraphs() []graph {
	return []graph{
		line(2),
		line(3), complete(3),
		line(4), star(4), ring(4),
		{name: "paw4", n: 4, edges: [][2]int{{0, 1}, {1, 2}, {2, 0}, {2, 3}}},
		{name: "diamond4", n: 4, edges: [][2]int{{0, 1}, {1, 2}, {2, 3}, {3, 0}, {0, 2}}},
		complete(4),
	}
}

// refFloodReach is the reference model written from the property text (with
// the documented reading of "reachable"): the subscribers of channel c that
// can be reached from origin o along a path all of whose nodes after o are
// subscribed to c. o itself is included iff it is subscribed.
func refFloodReach(adj [][]int, subscribed []bool, o int) map[int]bool {
	seen := map[int]bool{o: true}
	q := []int{o}
	for len(q) > 0 {
		u := q[0]
		q = q[1:]
		for _, w := range adj[u] {
			if !seen[w] && subscribed[w] {
				seen[w] = true
				q = append(q, w)
			}
		}
	}
	r := map[int]bool{}
	for v := range seen {
		if subscribed[v] {
			r[v] = true
		}
	}
	return r
}

func setStr(m map[string]bool) string {
	ks := make([]string, 0, len(m))
	for k, v := range m {
		if v {
			ks = append(ks, k)
		}
	}
	sort.Strings(ks)
	return "{" + strings.Join(ks, ",") + "}"
}

// replayView replays the Subscribe true/false packets of a tap.
func replayView(frames []*g9mesh.Frame) map[string]bool {
	v := map[string]bool{}
	for _, f := range frames {
		for _, s := range f.Subs {
			if s.Channel == "" {
				continue
			}
			if s.Subscribe {
				v[s.Channel] = true
			} else {
				delete(v, s.Channel)
			}
		}
	}
	return v
}

func sameSet(a, b map[string]bool) bool {
	for k, v := range a {
		if v && !b[k] {
			return false
		}
	}
	for k, v := range b {
		if v && !a[k] {
			return false
		}
	}
	return true
}
