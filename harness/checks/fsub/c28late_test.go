package fsub

// C28 kind "latejoin": LATE JOINERS WITH PENDING SUBSCRIPTION CHANGES.
//
// A node B that has subscribed (and announced, or not yet announced) the
// channel releases its last subscription and gets a link to a new neighbour A
// back to back - every order of subscribe / release / link, with or without an
// exact quiescent point between the steps -, so that A's stream may carry an
// "I no longer want the channel" from B for a channel B never announced on that
// stream. A has exactly one other neighbour C recorded as subscribed (sometimes
// a further node D behind B / A / C). The join link is torn down and the whole
// step repeated 1-3 times. Because the real router's evaluation tick decides
// whether release and link fall into the same evaluation pass, the same
// protocol-legal input is also produced deterministically by a harness-driven
// stream ("ghost": a peer with a foreign identity that subscribes nothing and
// sends Subscribe=false for a channel it never announced, optionally after an
// empty initial set or after announcing another channel) attached to A or to a
// PRNG node. After every step neighbour views and exact delivery of 2-4
// publishes (from A, C, B, D) are judged at exact quiescence.

import (
	"fmt"
	"math/rand/v2"

	"github.com/aperturerobotics/bifrost/pubsub/floodsub"
)

func genC28Late(rng *rand.Rand, idx int, yield bool) *c28cfg {
	c := &c28cfg{Idx: idx, Kind: "latejoin", Yield: yield, Chans: []string{"a"}}
	n := 3 + rng.IntN(2)
	perm := rng.Perm(n)
	A, C, B := perm[0], perm[1], perm[2]
	fl := func(a, b int) [2]int {
		if rng.IntN(2) == 0 {
			return [2]int{b, a}
		}
		return [2]int{a, b}
	}
	c.G = graph{n: n, edges: [][2]int{fl(A, C), fl(B, A)}}
	const join = 1
	dsub := false
	shape := "A-C,B"
	if n == 4 {
		D := perm[3]
		switch rng.IntN(3) {
		case 0:
			c.G.edges = append(c.G.edges, fl(B, D))
			dsub = true
			shape = "A-C,B-D"
		case 1:
			c.G.edges = append(c.G.edges, fl(A, D))
			shape = "A-C,A-d,B"
		default:
			c.G.edges = append(c.G.edges, fl(C, D))
			dsub = true
			shape = "A-C-D,B"
		}
	}
	c.G.name = "late-" + shape
	var liveB []int
	subd := make([]bool, n)
	addSub := func(rs *roundSpec, v int) {
		rs.Events = append(rs.Events, event{Kind: evSub, Sub: len(c.Subs)})
		if v == B {
			liveB = append(liveB, len(c.Subs))
		}
		subd[v] = true
		c.Subs = append(c.Subs, subSpec{Node: v, Ch: "a", Handlers: 1 + rng.IntN(2)})
	}
	var r0 roundSpec
	for v := 0; v < n; v++ {
		r0.Events = append(r0.Events, event{Kind: evExec, Node: v})
	}
	addSub(&r0, C)
	if rng.IntN(2) == 0 {
		addSub(&r0, A)
	}
	if n == 4 && dsub {
		addSub(&r0, perm[3])
	}
	bFirst := rng.IntN(4) != 0 // B subscribed (and announced) from the start
	if bFirst {
		addSub(&r0, B)
		if rng.IntN(5) == 0 {
			addSub(&r0, B)
		}
	}
	for i := range c.G.edges {
		if i != join {
			r0.Events = append(r0.Events, event{Kind: evLink, Edge: i, AFirst: rng.IntN(2) == 0})
		}
	}
	rng.Shuffle(len(r0.Events), func(i, j int) { r0.Events[i], r0.Events[j] = r0.Events[j], r0.Events[i] })
	pubs := func(k int) []pubSpec {
		var ps []pubSpec
		from := []int{A, A, C, B}
		if n == 4 {
			from = append(from, perm[3])
		}
		for ; k > 0; k-- {
			o := from[rng.IntN(len(from))]
			has := subd[o] && (o != B || len(liveB) > 0)
			ps = append(ps, pubSpec{Origin: o, Ch: "a", Direct: !has || rng.IntN(6) == 0})
		}
		return ps
	}
	r0.Pubs = pubs(1 + rng.IntN(2))
	c.Rounds = append(c.Rounds, r0)
	ghostAt := func() int {
		if rng.IntN(4) == 0 {
			return rng.IntN(n)
		}
		return A
	}
	linked := false
	for cyc, cycles := 0, 1+rng.IntN(3); cyc < cycles; cyc++ {
		var rs roundSpec
		if linked {
			rs.Events = append(rs.Events, event{Kind: evUnlink, Edge: join})
			linked = false
			if rng.IntN(2) == 0 {
				rs.Events = append(rs.Events, event{Kind: evBarrier})
			}
		}
		release := func() {
			for _, si := range liveB {
				rs.Events = append(rs.Events, event{Kind: evRelease, Sub: si})
			}
			liveB = nil
		}
		link := func() {
			rs.Events = append(rs.Events, event{Kind: evLink, Edge: join, AFirst: rng.IntN(2) == 0})
			linked = true
		}
		gap := func() {
			if rng.IntN(5) == 0 {
				rs.Events = append(rs.Events, event{Kind: evBarrier})
			}
		}
		order := rng.IntN(4)
		if len(liveB) == 0 {
			if order == 3 || rng.IntN(2) == 0 {
				// subscribe + release (+ link) back to back: the subscription may
				// never have been announced at all
				order = 3
			} else {
				addSub(&rs, B)
				rs.Events = append(rs.Events, event{Kind: evBarrier}) // announced (to whoever is linked)
			}
		} else if order == 3 {
			order = rng.IntN(3)
		}
		switch order {
		case 0, 1: // release the last subscription, then the new link
			release()
			gap()
			link()
		case 2: // the new link, then the release
			link()
			gap()
			release()
		default: // subscribe, release, link (PRNG position of the link)
			at := rng.IntN(3)
			if at == 0 {
				link()
			}
			addSub(&rs, B)
			if at == 1 {
				link()
			}
			gap()
			release()
			if at == 2 {
				link()
			}
		}
		if rng.IntN(3) != 0 {
			// the same input, produced deterministically by a harness-driven stream
			rs.Events = append(rs.Events, event{Kind: evGhost, Node: ghostAt(), Ch: "a", Mode: rng.IntN(3)})
		}
		rs.Pubs = pubs(2 + rng.IntN(3))
		rs.Pubs = append(rs.Pubs, pubSpec{Origin: A, Ch: "a", Direct: !subd[A] || rng.IntN(4) == 0})
		c.Rounds = append(c.Rounds, rs)
	}
	var fin roundSpec
	if rng.IntN(2) == 0 {
		fin.Events = append(fin.Events, event{Kind: evGhost, Node: ghostAt(), Ch: "a", Mode: rng.IntN(3)})
	}
	for v := 0; v < n; v++ {
		fin.Pubs = append(fin.Pubs, pubSpec{Origin: v, Ch: "a", Direct: !subd[v] || v == B && len(liveB) == 0})
	}
	fin.Concurrent = rng.IntN(2) == 0
	c.Rounds = append(c.Rounds, fin)
	assignKeys(rng, c, []string{"node", "node", "node", "foreign", "mixed"}[rng.IntN(5)])
	return c
}

// ghost attaches a harness-driven stream of a peer with a foreign identity to
// node and lets it say "I do not want ch" although it never announced ch on this
// stream (mode 0: nothing else; 1: after an empty initial subscription set; 2:
// after announcing another channel), as a real router does whose last
// subscription was released just before the stream came up.
func (x *c28run) ghost(e event) {
	x.nghost++
	id := x.foreign[len(x.foreign)-1-(x.nghost%4)]
	_, end := x.m.Attach(e.Node, id.ID, x.nghost%2 == 0)
	switch e.Mode {
	case 1:
		_ = end.WritePacket(&floodsub.Packet{})
	case 2:
		_ = end.WritePacket(&floodsub.Packet{Subscriptions: []*floodsub.SubscriptionOpts{{ChannelId: "ghost-" + e.Ch, Subscribe: true}}})
	}
	_ = end.WritePacket(&floodsub.Packet{Subscriptions: []*floodsub.SubscriptionOpts{{ChannelId: e.Ch, Subscribe: false}}})
	x.r.Count("unsolicited_unsubscribes_from_harness_driven_peer", 1)
	x.r.Distinct("unsolicited_unsubscribe_modes", fmt.Sprint(e.Mode))
}

// countLateUnsubs counts, over the real links, the Subscribe=false entries for
// a channel that the sender had not announced on that stream before (evidence
// that the late-joiner interleaving really happened).
func (x *c28run) countLateUnsubs() int {
	n := 0
	for _, p := range x.m.Pipes() {
		if p.From < 0 || p.To < 0 {
			continue
		}
		view := map[string]bool{}
		for _, f := range p.Frames() {
			for _, s := range f.Subs {
				if !s.Subscribe && !view[s.Channel] {
					n++
				}
				view[s.Channel] = s.Subscribe
			}
		}
	}
	return n
}
