// C39: key files yield a usable key or an error.
//
// The real keyfile.OpenOrWritePrivKey is run against an enumerated list of
// file-system states built under t.TempDir(). The oracle is written from the
// property text: the result is never (nil, nil); a missing file yields a key
// that is written (0600) and reloads to the same peer identity; a file that
// holds a key the harness wrote yields exactly that key; every unreadable /
// empty / non-key state yields an error and the path is left as it was.
package c39

import (
	"bytes"
	"encoding/base64"
	"encoding/json"
	"encoding/pem"
	"fmt"
	"os"
	"os/exec"
	"path/filepath"
	"strings"
	"syscall"
	"testing"

	"github.com/aperturerobotics/bifrost/crypto"
	"github.com/aperturerobotics/bifrost/keypem/keyfile"
	"github.com/aperturerobotics/bifrost/peer"
	"verifharness/keys"
	"verifharness/vf"
)

// expectation classes
const (
	expMissing  = "missing"   // no file: new key, written, reloads to same id
	expKey      = "key"       // file holds the harness' key: that key
	expError    = "error"     // must be reported as an error
	expKeyOrErr = "key|error" // lenient: the harness' key or an error (never nil,nil; never another key)
	expAnyOrErr = "any|error" // mutated key material: any non-nil key or an error (never nil,nil)
)

const privType = "LIBP2P PRIVATE KEY"
const pubType = "LIBP2P PUBLIC KEY"

// refPrivPem builds the key file independently of keypem (format from the
// package docs: PEM block "LIBP2P PRIVATE KEY" holding the marshalled key).
func refPrivPem(t testing.TB, k crypto.PrivKey) []byte {
	dat, err := crypto.MarshalPrivateKey(k)
	if err != nil {
		t.Fatal(err)
	}
	return pem.EncodeToMemory(&pem.Block{Type: privType, Bytes: dat})
}

type state struct {
	name  string
	class string // key for violations (input class)
	exp   string
	// setup builds the state in dir and returns the path to load plus the
	// path whose content must be unchanged (may be "" when nothing to compare).
	setup func(dir string) (path string)
}

type snapshot struct {
	Exists  bool   `json:"exists"`
	Kind    string `json:"kind"`
	Mode    string `json:"mode,omitempty"`
	Content string `json:"content,omitempty"`
	raw     []byte
}

func snap(path string) snapshot {
	fi, err := os.Lstat(path)
	if err != nil {
		return snapshot{Kind: "absent:" + errnoName(err)}
	}
	s := snapshot{Exists: true, Mode: fi.Mode().String()}
	switch {
	case fi.Mode()&os.ModeSymlink != 0:
		tgt, _ := os.Readlink(path)
		s.Kind = "symlink->" + filepath.Base(tgt)
		if b, err := os.ReadFile(path); err == nil {
			s.raw = b
			s.Content = vf.Hex(b)
		}
	case fi.IsDir():
		s.Kind = "dir"
		ents, _ := os.ReadDir(path)
		var names []string
		for _, e := range ents {
			names = append(names, e.Name())
		}
		s.Content = strings.Join(names, ",")
		s.raw = []byte(s.Content)
	default:
		s.Kind = "file"
		b, _ := os.ReadFile(path)
		s.raw = b
		s.Content = vf.Hex(b)
	}
	return s
}

func (a snapshot) same(b snapshot) bool {
	return a.Exists == b.Exists && a.Kind == b.Kind && a.Mode == b.Mode && bytes.Equal(a.raw, b.raw)
}

func errnoName(err error) string {
	for _, e := range []struct {
		no   syscall.Errno
		name string
	}{{syscall.ENOENT, "ENOENT"}, {syscall.ENOTDIR, "ENOTDIR"}, {syscall.ELOOP, "ELOOP"}, {syscall.EISDIR, "EISDIR"},
		{syscall.ENAMETOOLONG, "ENAMETOOLONG"}, {syscall.EACCES, "EACCES"}, {syscall.EIO, "EIO"}, {syscall.EPERM, "EPERM"}} {
		if e2, ok := unwrapErrno(err); ok && e2 == e.no {
			return e.name
		}
	}
	if err == nil {
		return "nil"
	}
	return "other"
}

func unwrapErrno(err error) (syscall.Errno, bool) {
	for err != nil {
		if e, ok := err.(syscall.Errno); ok {
			return e, true
		}
		u, ok := err.(interface{ Unwrap() error })
		if !ok {
			return 0, false
		}
		err = u.Unwrap()
	}
	return 0, false
}

// usable: the key signs, its public key verifies the signature, and a peer
// identity can be derived from it.
func usable(k crypto.PrivKey) (peer.ID, string) {
	var id peer.ID
	var why string
	pk, pd := vf.Try(func() {
		msg := []byte("verif c39 usability probe")
		sig, err := k.Sign(msg)
		if err != nil {
			why = "sign: " + err.Error()
			return
		}
		pub := k.GetPublic()
		if pub == nil {
			why = "nil public key"
			return
		}
		ok, err := pub.Verify(msg, sig)
		if err != nil || !ok {
			why = fmt.Sprintf("own signature does not verify (ok=%v err=%v)", ok, err)
			return
		}
		id, err = peer.IDFromPrivateKey(k)
		if err != nil {
			why = "peer id: " + err.Error()
		}
	})
	if pk {
		why = "panic using key: " + pd
	}
	return id, why
}

func load(path string) (k crypto.PrivKey, err error, panicked bool, pd string) {
	panicked, pd = vf.Try(func() { k, err = keyfile.OpenOrWritePrivKey(nil, path) })
	return
}

func isNilKey(k crypto.PrivKey) bool {
	if k == nil {
		return true
	}
	if p, ok := k.(*crypto.Ed25519PrivateKey); ok && p == nil {
		return true
	}
	return false
}

func TestC39(t *testing.T) {
	if p := os.Getenv("VERIF_C39_CHILD"); p != "" {
		childMain(p)
		return
	}
	r := vf.Start(t, "C39", vf.FaultEnumeration)
	defer r.Finish()
	r.SetRule("entry points: keyfile.OpenOrWritePrivKey (every state); the command-line loaders of package cli driven through the real command definitions (EnvelopeArgs.BuildCommands): 'unseal --key <state>' on an envelope the harness sealed to the file key, 'unseal --key good --key <state>' in both orders on an envelope sealed to the good key only, 'seal --key <state>' (all fixed states, every third prefix/flip); the real cmd/bifrost binary built from the tree under test, 'daemon --node-priv <state>', awaited until it exits or logs the peer id it mounted (fixed states + sampled prefixes/flips); ClientArgs.LoadOrGenerateIdentifyKey (recorded, only panics judged: outside the property's anchors). Same oracle for every entry point: a state that holds no key must be reported as an error (command fails / daemon exits non-zero, never a panic, never success as if the key were absent) and leaves the path unchanged; the harness' key file yields exactly that key (unseals the envelope sealed to it / seal output opens with it / daemon mounts that peer id); a missing file yields a key that is written 0600 and reloads (harness' own PEM reader) to the identity that was used. file-system states are enumerated (missing, missing parent, dangling symlink, empty, whitespace, 1 byte, random bytes, PEM of public/unknown type, private PEM with empty/garbage/truncated body, every proper prefix of a valid key file, byte flips of a valid key file, valid, valid via symlink, valid+trailing garbage, leading garbage+valid, CRLF, path below a regular file (ENOTDIR), directory at path (EISDIR), symlink to directory, symlink loop (ELOOP), name too long); thorough adds EACCES/EIO injected by strace into the k-th newfstatat/openat/read/write touching the path. One case = one state x one key; non-trivial = OpenOrWritePrivKey returned (no panic); distinct = distinct state. Oracle (from the property text, independent of keypem): never (nil,nil); missing => usable key k, file now regular 0600, second and third load give the same peer id and leave the bytes unchanged; harness-written key file => exactly that key; unreadable/empty/non-key => error and the path (kind, mode, bytes) unchanged.")
	r.Assume("A key whose file bytes were mutated (byte flip inside the base64 body) may still parse; the property does not say such a key must be rejected, so only (nil,nil) and panics are flagged there; unusable results are counted as accepted_mutant_unusable.")
	r.Assume("When an error is returned a key may be returned as well (the function documents 'may return a private key + an error'); only the error is required.")
	rng := r.Rand("c39")
	nKeys := r.N(2, 6)
	pool := keys.Pool(rng, nKeys)
	base := t.TempDir()
	cliBase := filepath.Join(base, "cli")
	if err := os.Mkdir(cliBase, 0o700); err != nil {
		t.Fatal(err)
	}
	ce := newCliEnv(t, cliBase, keys.New(r.Rand("c39/good-key")), pool)
	// the daemon binary of the tree under test is built while the in-process loaders run
	type built struct {
		bin string
		err error
	}
	daemonBin := make(chan built, 1)
	go func() {
		b, err := buildDaemon(t)
		daemonBin <- built{b, err}
	}()
	var daemonJobs []daemonJob

	randBytes := func(n int) []byte {
		b := make([]byte, n)
		for i := range b {
			b[i] = byte(rng.UintN(256))
		}
		return b
	}

	write := func(p string, b []byte) {
		if err := os.WriteFile(p, b, 0o600); err != nil {
			t.Fatalf("harness: %v", err)
		}
	}

	for ki, id := range pool {
		valid := refPrivPem(t, id.Priv)
		pubDat, _ := crypto.MarshalPublicKey(id.Pub)
		privDat, _ := crypto.MarshalPrivateKey(id.Priv)
		file := func(name, class, exp string, content []byte) state {
			return state{name: name, class: class, exp: exp, setup: func(dir string) string {
				p := filepath.Join(dir, "key.pem")
				write(p, content)
				return p
			}}
		}
		states := []state{
			{name: "missing", class: "missing", exp: expMissing, setup: func(dir string) string { return filepath.Join(dir, "key.pem") }},
			{name: "missing-parent-dir", class: "missing-parent", exp: expError, setup: func(dir string) string { return filepath.Join(dir, "nodir", "key.pem") }},
			{name: "dangling-symlink", class: "dangling-symlink", exp: "missing-via-symlink", setup: func(dir string) string {
				p := filepath.Join(dir, "key.pem")
				if err := os.Symlink(filepath.Join(dir, "target.pem"), p); err != nil {
					t.Fatal(err)
				}
				return p
			}},
			file("empty", "empty", expError, nil),
			file("whitespace", "no-pem-block", expError, []byte(" \n\t\n")),
			file("one-byte", "no-pem-block", expError, []byte{'-'}),
			file("random-64", "no-pem-block", expError, randBytes(64)),
			file("random-4096", "no-pem-block", expError, randBytes(4096)),
			file("text", "no-pem-block", expError, []byte("this is not a key\n")),
			file("raw-marshalled-key-no-pem", "no-pem-block", expError, privDat),
			file("base64-only-no-armor", "no-pem-block", expError, []byte(base64.StdEncoding.EncodeToString(privDat)+"\n")),
			file("pem-begin-only", "no-pem-block", expError, []byte("-----BEGIN "+privType+"-----\n")),
			file("pem-no-end-line", "no-pem-block", expError, valid[:bytes.Index(valid, []byte("-----END"))]),
			file("pem-public-key", "pem-wrong-type", expError, pem.EncodeToMemory(&pem.Block{Type: pubType, Bytes: pubDat})),
			file("pem-unknown-type", "pem-wrong-type", expError, pem.EncodeToMemory(&pem.Block{Type: "CERTIFICATE", Bytes: privDat})),
			file("pem-empty-type", "pem-wrong-type", expError, pem.EncodeToMemory(&pem.Block{Type: "", Bytes: privDat})),
			file("pem-priv-empty-body", "pem-bad-body", expError, pem.EncodeToMemory(&pem.Block{Type: privType, Bytes: nil})),
			file("pem-priv-garbage-body", "pem-bad-body", expError, pem.EncodeToMemory(&pem.Block{Type: privType, Bytes: randBytes(68)})),
			file("pem-priv-half-body", "pem-bad-body", expError, pem.EncodeToMemory(&pem.Block{Type: privType, Bytes: privDat[:len(privDat)/2]})),
			file("pem-priv-holds-public-key", "pem-bad-body", expError, pem.EncodeToMemory(&pem.Block{Type: privType, Bytes: pubDat})),
			file("valid", "valid", expKey, valid),
			file("valid-trailing-garbage", "valid-decorated", expKeyOrErr, append(append([]byte{}, valid...), randBytes(40)...)),
			file("valid-leading-text", "valid-decorated", expKeyOrErr, append([]byte("# my key\n"), valid...)),
			file("valid-crlf", "valid-decorated", expKeyOrErr, bytes.ReplaceAll(valid, []byte("\n"), []byte("\r\n"))),
			file("valid-twice", "valid-decorated", expKeyOrErr, append(append([]byte{}, valid...), valid...)),
			{name: "valid-via-symlink", class: "valid", exp: expKey, setup: func(dir string) string {
				write(filepath.Join(dir, "target.pem"), valid)
				p := filepath.Join(dir, "key.pem")
				if err := os.Symlink(filepath.Join(dir, "target.pem"), p); err != nil {
					t.Fatal(err)
				}
				return p
			}},
			{name: "valid-mode-0400", class: "valid", exp: expKey, setup: func(dir string) string {
				p := filepath.Join(dir, "key.pem")
				write(p, valid)
				_ = os.Chmod(p, 0o400)
				return p
			}},
			{name: "below-regular-file-ENOTDIR", class: "stat-error-ENOTDIR", exp: expError, setup: func(dir string) string {
				write(filepath.Join(dir, "plain"), valid)
				return filepath.Join(dir, "plain", "key.pem")
			}},
			{name: "directory-at-path", class: "directory", exp: expError, setup: func(dir string) string {
				p := filepath.Join(dir, "key.pem")
				if err := os.Mkdir(p, 0o700); err != nil {
					t.Fatal(err)
				}
				return p
			}},
			{name: "nonempty-directory-at-path", class: "directory", exp: expError, setup: func(dir string) string {
				p := filepath.Join(dir, "key.pem")
				if err := os.Mkdir(p, 0o700); err != nil {
					t.Fatal(err)
				}
				write(filepath.Join(p, "key.pem"), valid)
				return p
			}},
			{name: "symlink-to-directory", class: "directory", exp: expError, setup: func(dir string) string {
				_ = os.Mkdir(filepath.Join(dir, "d"), 0o700)
				p := filepath.Join(dir, "key.pem")
				if err := os.Symlink(filepath.Join(dir, "d"), p); err != nil {
					t.Fatal(err)
				}
				return p
			}},
			{name: "symlink-loop-ELOOP", class: "stat-error-ELOOP", exp: expError, setup: func(dir string) string {
				a, b := filepath.Join(dir, "key.pem"), filepath.Join(dir, "b.pem")
				if err := os.Symlink(b, a); err != nil {
					t.Fatal(err)
				}
				if err := os.Symlink(a, b); err != nil {
					t.Fatal(err)
				}
				return a
			}},
			{name: "self-symlink-ELOOP", class: "stat-error-ELOOP", exp: expError, setup: func(dir string) string {
				a := filepath.Join(dir, "key.pem")
				if err := os.Symlink(a, a); err != nil {
					t.Fatal(err)
				}
				return a
			}},
			{name: "name-too-long", class: "stat-error-ENAMETOOLONG", exp: expError, setup: func(dir string) string {
				return filepath.Join(dir, strings.Repeat("k", 300)+".pem")
			}},
			{name: "path-too-long", class: "stat-error-ENAMETOOLONG", exp: expError, setup: func(dir string) string {
				return filepath.Join(dir, strings.Repeat("d/", 2500)+"key.pem")
			}},
			{name: "path-with-NUL", class: "stat-error-EINVAL", exp: expError, setup: func(dir string) string {
				return filepath.Join(dir, "key\x00.pem")
			}},
			{name: "empty-path", class: "stat-error-empty-path", exp: expError, setup: func(dir string) string { return "" }},
		}
		nFixed := len(states)
		// every proper prefix of the valid file (first key: all; others: sampled)
		step := 1
		if ki > 0 {
			step = 7
		}
		for n := 1; n < len(valid); n += step {
			n := n
			exp := expKeyOrErr
			if n < bytes.Index(valid, []byte("-----END"))+len("-----END") {
				exp = expError // the END line has not even begun: certainly not a complete key file
			}
			states = append(states, file(fmt.Sprintf("prefix-%03d", n), "truncated", exp, valid[:n]))
		}
		// byte flips inside the file
		nflip := r.N(40, 400)
		for i := 0; i < nflip; i++ {
			pos := rng.IntN(len(valid))
			bit := byte(1) << rng.UintN(8)
			m := append([]byte{}, valid...)
			m[pos] ^= bit
			states = append(states, file(fmt.Sprintf("flip-%03d-%02x", pos, bit), "byteflip", expAnyOrErr, m))
		}

		for si, st := range states {
			dir := filepath.Join(base, fmt.Sprintf("k%d-s%d", ki, si))
			if err := os.Mkdir(dir, 0o700); err != nil {
				t.Fatal(err)
			}
			runState(r, id, st, dir)
			// the same state through the command-line loaders (all fixed states; prefixes and flips sampled)
			if si < nFixed || si%3 == ki%3 {
				ce.runCli(r, id, st, si < nFixed, si)
			}
			// and through the daemon binary
			if (si < nFixed && (ki == 0 || st.exp != expError || st.class == "empty" || st.class == "no-pem-block")) || (ki == 0 && si%24 == 0) {
				daemonJobs = append(daemonJobs, daemonJob{id, st})
			}
		}
	}

	if b := <-daemonBin; b.err != nil {
		r.Inconclusive("cmd/bifrost could not be built, daemon --node-priv not observed: " + b.err.Error())
	} else {
		ce.runDaemonStates(r, b.bin, daemonJobs)
	}

	if !r.Quick() {
		straceCases(t, r, pool[0], base)
	}
}

func runState(r *vf.Run, id *keys.Identity, st state, dir string) {
	path := st.setup(dir)
	sig := st.name
	r.Begin(fmt.Sprintf("state=%s key=%s path=%q", st.name, id.String(), path))
	before := snap(path)
	k, err, panicked, pd := load(path)
	after := snap(path)
	wit := map[string]any{"state": st.name, "expect": st.exp, "path": path, "before": before, "after": after,
		"key_nil": isNilKey(k), "err": fmt.Sprint(err), "file_key_peer_id": id.String()}
	if panicked {
		r.Violation("OpenOrWritePrivKey/panic/"+st.class, "OpenOrWritePrivKey panicked: "+pd, wit)
		r.Case(sig, false)
		return
	}
	r.Case(sig, true)
	r.Distinct("states", st.name)
	r.Distinct("fs_kinds_before", before.Kind)
	switch {
	case err != nil:
		r.Count("result_error", 1)
		r.Distinct("errnos", errnoName(err))
	case isNilKey(k):
		r.Count("result_nil_nil", 1)
	default:
		r.Count("result_key", 1)
	}
	if st.name == "missing" || st.name == "valid" || st.name == "empty" {
		r.Sample(wit)
	}

	// (1) never (nil, nil)
	if err == nil && isNilKey(k) {
		r.Violation("OpenOrWritePrivKey/nil-nil/"+st.class,
			"OpenOrWritePrivKey returned (nil, nil): neither a key nor an error for state "+st.name, wit)
		return
	}

	switch st.exp {
	case expMissing, "missing-via-symlink":
		if err != nil {
			// A missing file must yield a new key; an error here means the
			// key could not be generated/written, which the state does not justify.
			r.Violation("OpenOrWritePrivKey/missing-not-created/"+st.class, "missing file did not yield a new key: "+err.Error(), wit)
			return
		}
		pid, why := usable(k)
		if why != "" {
			r.Violation("OpenOrWritePrivKey/unusable-key/"+st.class, "generated key is not usable: "+why, wit)
			return
		}
		wit["peer_id"] = pid.String()
		written := path
		if st.exp == "missing-via-symlink" {
			written = filepath.Join(dir, "target.pem")
		}
		fi, serr := os.Stat(written)
		if serr != nil || !fi.Mode().IsRegular() {
			r.Violation("OpenOrWritePrivKey/not-written/"+st.class, "key returned for a missing file but no regular file was written", wit)
			return
		}
		if fi.Mode().Perm() != 0o600 {
			wit["perm"] = fi.Mode().Perm().String()
			r.Violation("OpenOrWritePrivKey/perm/"+st.class, "new key file is not mode 0600", wit)
		}
		content1, _ := os.ReadFile(written)
		for i := 0; i < 2; i++ {
			k2, err2, p2, pd2 := load(path)
			if p2 || err2 != nil || isNilKey(k2) {
				wit["reload_err"] = fmt.Sprint(err2, pd2)
				r.Violation("OpenOrWritePrivKey/reload-failed/"+st.class, "file written for a missing key does not reload", wit)
				return
			}
			pid2, why2 := usable(k2)
			if why2 != "" || pid2 != pid || !k2.Equals(k) {
				wit["reload_peer_id"] = pid2.String()
				r.Violation("OpenOrWritePrivKey/reload-differs/"+st.class, "reloading the written key file gives a different identity", wit)
				return
			}
			content2, _ := os.ReadFile(written)
			if !bytes.Equal(content1, content2) {
				r.Violation("OpenOrWritePrivKey/reload-rewrote/"+st.class, "loading an existing key file changed its bytes", wit)
				return
			}
			r.Count("reloads_same_identity", 1)
		}
		if pid == id.ID {
			r.Violation("OpenOrWritePrivKey/not-fresh/"+st.class, "generated key equals a key that was never at the path", wit)
		}
	case expKey, expKeyOrErr, expAnyOrErr:
		if err != nil {
			if st.exp == expKey {
				r.Violation("OpenOrWritePrivKey/valid-rejected/"+st.class, "a valid key file was not loaded: "+err.Error(), wit)
			}
		} else {
			pid, why := usable(k)
			wit["peer_id"] = pid.String()
			switch {
			case st.exp == expAnyOrErr:
				if why != "" {
					r.Count("accepted_mutant_unusable", 1)
				} else if pid != id.ID {
					r.Count("accepted_mutant_other_identity", 1)
				} else {
					r.Count("accepted_mutant_same_identity", 1)
				}
			case why != "":
				r.Violation("OpenOrWritePrivKey/unusable-key/"+st.class, "loaded key is not usable: "+why, wit)
			case pid != id.ID || !k.Equals(id.Priv):
				r.Violation("OpenOrWritePrivKey/wrong-key/"+st.class, "loaded key is not the key stored in the file", wit)
			default:
				r.Count("loaded_expected_key", 1)
			}
		}
		if !before.same(after) {
			r.Violation("OpenOrWritePrivKey/modified/"+st.class, "loading changed the existing path", wit)
		}
	case expError:
		if err == nil {
			// non-nil key without error for a non-key state
			pid, _ := usable(k)
			wit["peer_id"] = pid.String()
			r.Violation("OpenOrWritePrivKey/no-error/"+st.class, "a key was returned without error for state "+st.name, wit)
		}
		if !before.same(after) {
			r.Violation("OpenOrWritePrivKey/modified/"+st.class, "an unreadable/non-key path was modified (treated as absent)", wit)
		}
	}
}

// ---- thorough tier: error injection with strace around a child process ----

type childOut struct {
	KeyNil bool   `json:"key_nil"`
	Err    string `json:"err"`
	Errno  string `json:"errno"`
	PeerID string `json:"peer_id"`
	Usable string `json:"usable"`
	Panic  string `json:"panic"`
}

func childMain(path string) {
	var o childOut
	k, err, p, pd := load(path)
	o.KeyNil = isNilKey(k)
	if err != nil {
		o.Err = err.Error()
		o.Errno = errnoName(err)
	}
	if p {
		o.Panic = pd
	}
	if !o.KeyNil && !p {
		id, why := usable(k)
		o.PeerID, o.Usable = id.String(), why
	}
	b, _ := json.Marshal(o)
	fmt.Printf("\nC39CHILD %s\n", b)
}

func straceCases(t *testing.T, r *vf.Run, id *keys.Identity, base string) {
	strace, err := exec.LookPath("strace")
	if err != nil {
		r.Extra("strace", "not available; injected EACCES/EIO states skipped")
		return
	}
	self, err := os.Executable()
	if err != nil {
		r.Extra("strace", "os.Executable failed: "+err.Error())
		return
	}
	valid := refPrivPem(t, id.Priv)
	n := 0
	for _, pre := range []string{"missing", "valid"} {
		for _, sc := range []string{"newfstatat", "openat", "read", "write"} {
			for _, errno := range []string{"EACCES", "EIO"} {
				for when := 1; when <= 2; when++ {
					n++
					dir := filepath.Join(base, fmt.Sprintf("strace-%d", n))
					_ = os.Mkdir(dir, 0o700)
					path := filepath.Join(dir, "key.pem")
					if pre == "valid" {
						_ = os.WriteFile(path, valid, 0o600)
					}
					name := fmt.Sprintf("inject-%s-%s-%s-when%d", pre, sc, errno, when)
					r.Begin(name)
					before := snap(path)
					cmd := exec.Command(strace, "-f", "-qq", "-o", filepath.Join(dir, "strace.out"), "-P", path,
						"-e", "trace="+sc, "-e", fmt.Sprintf("inject=%s:error=%s:when=%d", sc, errno, when),
						self, "-test.run=^TestC39$")
					cmd.Env = append(os.Environ(), "VERIF_C39_CHILD="+path)
					out, cerr := cmd.CombinedOutput()
					trace, _ := os.ReadFile(filepath.Join(dir, "strace.out"))
					injected := bytes.Contains(trace, []byte("(INJECTED)"))
					var o childOut
					i := bytes.Index(out, []byte("C39CHILD "))
					if i < 0 {
						if bytes.Contains(out, []byte("PTRACE")) || bytes.Contains(out, []byte("ptrace")) {
							r.Extra("strace", "ptrace not permitted; injected states skipped")
							return
						}
						r.Inconclusive(fmt.Sprintf("%s: child produced no result (%v): %s", name, cerr, vf.Hex(out)))
						continue
					}
					line := out[i+len("C39CHILD "):]
					if j := bytes.IndexByte(line, '\n'); j >= 0 {
						line = line[:j]
					}
					if err := json.Unmarshal(line, &o); err != nil {
						r.Inconclusive(name + ": bad child output")
						continue
					}
					after := snap(path)
					wit := map[string]any{"state": name, "child": o, "strace": string(trace), "before": before, "after": after}
					if !injected {
						// the k-th such syscall on the path never happened: the run is a plain one
						r.Case(name, false)
						r.Count("inject_not_reached", 1)
						continue
					}
					r.Case(name, true)
					r.Distinct("states", name)
					r.Count("inject_reached", 1)
					if o.Panic != "" {
						r.Violation("OpenOrWritePrivKey/panic/injected-"+sc, "panicked under injected "+errno, wit)
						continue
					}
					if o.KeyNil && o.Err == "" {
						r.Violation("OpenOrWritePrivKey/nil-nil/injected-"+sc+"-"+errno,
							"(nil, nil) when "+sc+" on the key path fails with "+errno, wit)
						continue
					}
					// An injected EACCES/EIO on the path makes it unreadable (or
					// unwritable): an error is required. Exception: "read" when=2
					// style injections after the content was fully read are
					// reported by the runtime as an error too, so no exception is needed.
					if o.Err == "" {
						r.Violation("OpenOrWritePrivKey/no-error/injected-"+sc+"-"+errno,
							"no error although "+sc+" on the key path failed with "+errno, wit)
					}
					if pre == "valid" && !before.same(after) {
						r.Violation("OpenOrWritePrivKey/modified/injected-"+sc, "an unreadable key file was modified", wit)
					}
				}
			}
		}
	}
}
