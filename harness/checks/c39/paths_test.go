package c39

// The other key-file loading paths of the repository, judged with the same
// file-state enumeration and the same oracle as keyfile.OpenOrWritePrivKey:
//
//	cli.EnvelopeArgs "unseal" (loadPrivKeys: OpenOrWritePrivKey + PEM fallback)
//	cli.EnvelopeArgs "seal"   (loadPubKeys)
//	cmd/bifrost "daemon --node-priv" (the real binary, built from the tree under test)
//	cli.ClientArgs.LoadOrGenerateIdentifyKey (observed; see judgeIdentifyKey)
//
// The loaders of package cli are unexported; they are driven through the real
// command line (cli.App built from EnvelopeArgs.BuildCommands, flags parsed by
// the real flag definitions) and judged by what a key that is "absent without
// an error" looks like from outside: the command succeeds (or panics) although
// one of its key files holds no key. Ground truth is the harness': it wrote
// the files and it sealed the envelopes (envelope.BuildEnvelope) to keys it owns.

import (
	"bufio"
	"bytes"
	"context"
	"crypto/rand"
	"encoding/pem"
	"errors"
	"fmt"
	"io"
	"os"
	"os/exec"
	"path/filepath"
	"regexp"
	"strings"
	"sync"
	"testing"
	"time"

	bcli "github.com/aperturerobotics/bifrost/cli"
	"github.com/aperturerobotics/bifrost/crypto"
	"github.com/aperturerobotics/bifrost/envelope"
	"github.com/aperturerobotics/bifrost/peer"
	acli "github.com/aperturerobotics/cli"
	"verifharness/g12util"
	"verifharness/keys"
	"verifharness/vf"
)

// judgeIdentifyKey: cli.ClientArgs.LoadOrGenerateIdentifyKey is a key-file
// loader too, but it is outside the files the property is anchored at
// (keyfile.go, keypem.go, cmd_daemon.go, cli/envelope.go) and it parses the file
// with confparse.ParsePrivateKey, whose documented convention is "empty string
// = no key configured". Its results are recorded in the evidence
// (identify_key_*) but only panics are judged unless this is set.
const judgeIdentifyKey = false

// envelopeContext is the documented default of the --context flag.
const envelopeContext = "bifrost/cli envelope v1"

// refParse is the harness' own reading of a key file (format from the keypem
// package docs), used to decide what a file written by the code under test holds.
func refParse(b []byte) (crypto.PrivKey, error) {
	blk, _ := pem.Decode(b)
	if blk == nil {
		return nil, errors.New("no PEM block")
	}
	if blk.Type != privType {
		return nil, errors.New("PEM type " + blk.Type)
	}
	return crypto.UnmarshalPrivateKey(blk.Bytes)
}

func sealTo(t testing.TB, payload []byte, pub crypto.PubKey) []byte {
	env, err := envelope.BuildEnvelope(rand.Reader, envelopeContext, payload, []crypto.PubKey{pub}, &envelope.EnvelopeConfig{
		Threshold:    0,
		GrantConfigs: []*envelope.EnvelopeGrantConfig{{ShareCount: 1, KeypairIndexes: []uint32{0}}},
	})
	if err != nil {
		t.Fatalf("harness: build envelope: %v", err)
	}
	b, err := env.MarshalVT()
	if err != nil {
		t.Fatalf("harness: %v", err)
	}
	return b
}

// unlockWith reports whether envelope bytes unlock to payload with key k.
func unlockWith(envBytes []byte, k crypto.PrivKey, payload []byte) (bool, string) {
	env := &envelope.Envelope{}
	if err := env.UnmarshalVT(envBytes); err != nil {
		return false, "output is not an envelope: " + err.Error()
	}
	var got []byte
	var res *envelope.EnvelopeUnlockResult
	var err error
	if pk, pd := vf.Try(func() { got, res, err = envelope.UnlockEnvelope(envelopeContext, env, []crypto.PrivKey{k}) }); pk {
		return false, "unlock panicked: " + pd
	}
	if err != nil {
		return false, "unlock: " + err.Error()
	}
	if !res.GetSuccess() {
		return false, "not unlocked with this key"
	}
	if !bytes.Equal(got, payload) {
		return false, "unlocked to another payload"
	}
	return true, ""
}

type cliEnv struct {
	t        testing.TB
	base     string
	payload  []byte
	good     *keys.Identity
	goodPem  []byte
	envGood  string             // envelope file sealed to good only
	envByID  map[peer.ID]string // envelope file sealed to the file key's identity only
	payloadF string
	n        int
}

func newCliEnv(t testing.TB, base string, good *keys.Identity, pool []*keys.Identity) *cliEnv {
	e := &cliEnv{t: t, base: base, good: good, goodPem: refPrivPem(t, good.Priv), envByID: map[peer.ID]string{},
		payload: []byte("verif c39 envelope payload \x00\x01 0123456789")}
	must := func(p string, b []byte) string {
		if err := os.WriteFile(p, b, 0o600); err != nil {
			t.Fatalf("harness: %v", err)
		}
		return p
	}
	e.payloadF = must(filepath.Join(base, "payload.bin"), e.payload)
	e.envGood = must(filepath.Join(base, "env-good.bin"), sealTo(t, e.payload, good.Pub))
	for i, id := range pool {
		e.envByID[id.ID] = must(filepath.Join(base, fmt.Sprintf("env-k%d.bin", i)), sealTo(t, e.payload, id.Pub))
	}
	return e
}

type cliOut struct {
	err      error
	panicked bool
	pd       string
	out      []byte // content of the --output file (nil when not written)
}

// runEnvelope runs "bifrost-cli <cmd> --key .. --input in --output out" through
// the real command definitions of cli.EnvelopeArgs.
func runEnvelope(cmd string, keyPaths []string, in, out string) cliOut {
	a := &bcli.EnvelopeArgs{}
	app := &acli.App{
		Name:           "bifrost",
		Commands:       a.BuildCommands(),
		Writer:         io.Discard,
		ErrWriter:      io.Discard,
		ExitErrHandler: func(*acli.Context, error) {},
	}
	args := []string{"bifrost", cmd}
	for _, k := range keyPaths {
		args = append(args, "--key", k)
	}
	args = append(args, "--input", in, "--output", out)
	var o cliOut
	o.panicked, o.pd = vf.Try(func() { o.err = app.Run(args) })
	if b, err := os.ReadFile(out); err == nil {
		o.out = b
	}
	return o
}

func (e *cliEnv) dir(tag string) string {
	e.n++
	d := filepath.Join(e.base, fmt.Sprintf("p%05d-%s", e.n, tag))
	if err := os.Mkdir(d, 0o700); err != nil {
		e.t.Fatalf("harness: %v", err)
	}
	return d
}

// checkWritten judges a file that the code under test created at a path that
// was missing: regular, 0600, and it holds a usable key (harness' own parser).
func checkWritten(r *vf.Run, entry, class string, st state, dir, path string, wit map[string]any) (crypto.PrivKey, bool) {
	written := path
	if st.exp == "missing-via-symlink" {
		written = filepath.Join(dir, "target.pem")
	}
	fi, err := os.Stat(written)
	if err != nil {
		return nil, false // nothing written
	}
	if !fi.Mode().IsRegular() {
		r.Violation(entry+"/not-written/"+class, "something other than a regular file was created for a missing key file", wit)
		return nil, false
	}
	if fi.Mode().Perm() != 0o600 {
		wit["perm"] = fi.Mode().Perm().String()
		r.Violation(entry+"/perm/"+class, "new key file is not mode 0600", wit)
	}
	b, _ := os.ReadFile(written)
	k, perr := refParse(b)
	if perr != nil || isNilKey(k) {
		wit["written_hex"] = vf.Hex(b)
		r.Violation(entry+"/written-not-a-key/"+class, "the file written for a missing key is not a key file: "+fmt.Sprint(perr), wit)
		return nil, false
	}
	if _, why := usable(k); why != "" {
		r.Violation(entry+"/unusable-key/"+class, "the key written for a missing file is not usable: "+why, wit)
		return nil, false
	}
	return k, true
}

// runCli drives the in-process command-line loaders on one state.
// variant selects the order of the key paths in the two-key unseal.
func (e *cliEnv) runCli(r *vf.Run, id *keys.Identity, st state, both bool, variant int) {
	// ---- unseal with the state path as the only key (envelope sealed to the file key's identity)
	{
		dir := e.dir("unseal1")
		path := st.setup(dir)
		out := filepath.Join(dir, "out.bin")
		r.Begin(fmt.Sprintf("unseal --key <%s> key=%s", st.name, id.String()))
		before := snap(path)
		o := runEnvelope("unseal", []string{path}, e.envByID[id.ID], out)
		after := snap(path)
		e.judgeUnseal(r, "RunUnseal", "solo", id, st, dir, path, before, after, o, false)
	}
	// ---- unseal with a good key file next to the state path (envelope sealed to the good key only):
	// a loader that turns a non-key file into "no key" succeeds here
	orders := []int{variant % 2}
	if both {
		orders = []int{0, 1}
	}
	for _, ord := range orders {
		dir := e.dir("unseal2")
		path := st.setup(dir)
		goodPath := filepath.Join(dir, "good.pem")
		if err := os.WriteFile(goodPath, e.goodPem, 0o600); err != nil {
			e.t.Fatalf("harness: %v", err)
		}
		out := filepath.Join(dir, "out.bin")
		kp, how := []string{goodPath, path}, "good-first"
		if ord == 1 {
			kp, how = []string{path, goodPath}, "good-last"
		}
		r.Begin(fmt.Sprintf("unseal --key good --key <%s> (%s) key=%s", st.name, how, id.String()))
		before := snap(path)
		o := runEnvelope("unseal", kp, e.envGood, out)
		after := snap(path)
		e.judgeUnseal(r, "RunUnseal", how, id, st, dir, path, before, after, o, true)
		if b, _ := os.ReadFile(goodPath); !bytes.Equal(b, e.goodPem) {
			r.Violation("RunUnseal/modified/good-key", "a valid key file was rewritten by unseal", map[string]any{"state": st.name})
		}
	}
	// ---- seal to the state path
	{
		dir := e.dir("seal")
		path := st.setup(dir)
		out := filepath.Join(dir, "out.bin")
		r.Begin(fmt.Sprintf("seal --key <%s> key=%s", st.name, id.String()))
		before := snap(path)
		o := runEnvelope("seal", []string{path}, e.payloadF, out)
		after := snap(path)
		e.judgeSeal(r, id, st, dir, path, before, after, o)
	}
	// ---- ClientArgs.LoadOrGenerateIdentifyKey
	{
		dir := e.dir("identify")
		path := st.setup(dir)
		r.Begin(fmt.Sprintf("LoadOrGenerateIdentifyKey <%s> key=%s", st.name, id.String()))
		e.identify(r, id, st, dir, path)
	}
}

func outcome(o cliOut) string {
	switch {
	case o.panicked:
		return "panic"
	case o.err != nil:
		return "error"
	}
	return "ok"
}

func (e *cliEnv) judgeUnseal(r *vf.Run, entry, mode string, id *keys.Identity, st state, dir, path string, before, after snapshot, o cliOut, withGood bool) {
	sig := "unseal-" + mode + "|" + st.name
	wit := map[string]any{"entry": "cli unseal", "key_paths": mode, "state": st.name, "expect": st.exp, "path": path, "before": before, "after": after,
		"result": outcome(o), "err": fmt.Sprint(o.err), "output_written": o.out != nil, "file_key_peer_id": id.String()}
	if o.panicked {
		wit["panic"] = o.pd
		r.Case(sig, false)
		r.Violation(entry+"/panic/"+st.class, "unseal panicked loading key files (state "+st.name+"): a key that is neither usable nor reported as an error reached the envelope code", wit)
		return
	}
	r.Case(sig, true)
	r.Distinct("cli_states", "unseal|"+st.name)
	r.Count("unseal_"+mode+"_"+outcome(o), 1)
	gotPayload := o.out != nil && bytes.Equal(o.out, e.payload)
	if o.err == nil && !gotPayload {
		r.Violation(entry+"/wrong-output/"+st.class, "unseal reported success but did not write the payload", wit)
	}
	switch st.exp {
	case expError:
		if o.err == nil {
			r.Violation(entry+"/no-error/"+st.class, "unseal succeeded although key file "+st.name+" holds no key: the file was treated as an absent key instead of being reported", wit)
		}
		if !before.same(after) {
			r.Violation(entry+"/modified/"+st.class, "an unreadable/non-key path was modified", wit)
		}
	case expKey:
		if o.err != nil {
			r.Violation(entry+"/valid-rejected/"+st.class, "unseal failed although every key file is valid: "+o.err.Error(), wit)
		}
		if !before.same(after) {
			r.Violation(entry+"/modified/"+st.class, "loading changed the existing key file", wit)
		}
	case expKeyOrErr, expAnyOrErr:
		// error or success are both acceptable; with the state path as the only
		// key, success proves that the file's key was loaded (it unlocked the envelope)
		if !before.same(after) {
			r.Violation(entry+"/modified/"+st.class, "loading changed the existing path", wit)
		}
	case expMissing, "missing-via-symlink":
		if !withGood && o.err == nil {
			r.Violation(entry+"/unsealed-without-key/"+st.class, "an envelope was unsealed although the only key file was missing", wit)
		}
		if _, ok := checkWritten(r, entry, st.class, st, dir, path, wit); ok {
			r.Count("unseal_missing_key_written", 1)
		}
	}
}

func (e *cliEnv) judgeSeal(r *vf.Run, id *keys.Identity, st state, dir, path string, before, after snapshot, o cliOut) {
	const entry = "RunSeal"
	sig := "seal|" + st.name
	wit := map[string]any{"entry": "cli seal", "state": st.name, "expect": st.exp, "path": path, "before": before, "after": after,
		"result": outcome(o), "err": fmt.Sprint(o.err), "output_written": o.out != nil, "file_key_peer_id": id.String()}
	if o.panicked {
		wit["panic"] = o.pd
		r.Case(sig, false)
		r.Violation(entry+"/panic/"+st.class, "seal panicked loading key files (state "+st.name+")", wit)
		return
	}
	r.Case(sig, true)
	r.Distinct("cli_states", "seal|"+st.name)
	r.Count("seal_"+outcome(o), 1)
	switch st.exp {
	case expError:
		if o.err == nil {
			r.Violation(entry+"/no-error/"+st.class, "seal succeeded although key file "+st.name+" holds no key", wit)
		}
		if !before.same(after) {
			r.Violation(entry+"/modified/"+st.class, "an unreadable/non-key path was modified", wit)
		}
	case expKey, expKeyOrErr:
		if o.err != nil {
			if st.exp == expKey {
				r.Violation(entry+"/valid-rejected/"+st.class, "seal failed although the key file is valid: "+o.err.Error(), wit)
			}
		} else if ok, why := unlockWith(o.out, id.Priv, e.payload); !ok {
			wit["why"] = why
			r.Violation(entry+"/wrong-key/"+st.class, "the envelope sealed to a valid key file cannot be opened with that file's key: "+why, wit)
		} else {
			r.Count("seal_opened_with_file_key", 1)
		}
		if !before.same(after) {
			r.Violation(entry+"/modified/"+st.class, "loading changed the existing key file", wit)
		}
	case expAnyOrErr:
		if !before.same(after) {
			r.Violation(entry+"/modified/"+st.class, "loading changed the existing path", wit)
		}
	case expMissing, "missing-via-symlink":
		k, ok := checkWritten(r, entry, st.class, st, dir, path, wit)
		if o.err != nil {
			r.Count("seal_missing_refused", 1) // accepted: not demanded that seal creates keys
			return
		}
		if !ok {
			r.Violation(entry+"/not-written/"+st.class, "seal succeeded with a missing key file but wrote no key file: the key it sealed to is lost", wit)
			return
		}
		if ok2, why := unlockWith(o.out, k, e.payload); !ok2 {
			wit["why"] = why
			r.Violation(entry+"/reload-differs/"+st.class, "the key file written for a missing path does not reload to the identity that was used: "+why, wit)
		} else {
			r.Count("seal_missing_written_reloads", 1)
		}
	}
}

func (e *cliEnv) identify(r *vf.Run, id *keys.Identity, st state, dir, path string) {
	const entry = "LoadOrGenerateIdentifyKey"
	a := &bcli.ClientArgs{IdentifyKeyPath: path, IdentifyGenKey: true}
	a.SetContext(context.Background())
	var dat []byte
	var k crypto.PrivKey
	var err error
	before := snap(path)
	pk, pd := vf.Try(func() { dat, k, err = a.LoadOrGenerateIdentifyKey() })
	after := snap(path)
	wit := map[string]any{"entry": entry, "state": st.name, "expect": st.exp, "path": path, "before": before, "after": after,
		"key_nil": isNilKey(k), "err": fmt.Sprint(err), "dat_len": len(dat), "file_key_peer_id": id.String()}
	if pk {
		wit["panic"] = pd
		r.Case("identify|"+st.name, false)
		r.Violation(entry+"/panic/"+st.class, entry+" panicked: "+pd, wit)
		return
	}
	r.Case("identify|"+st.name, judgeIdentifyKey)
	switch {
	case err != nil:
		r.Count("identify_key_error", 1)
	case isNilKey(k):
		r.Count("identify_key_nil_nil", 1)
		r.Distinct("identify_key_nil_nil_states", st.name)
	default:
		r.Count("identify_key_key", 1)
	}
	if !judgeIdentifyKey {
		return
	}
	if err == nil && isNilKey(k) {
		r.Violation(entry+"/nil-nil/"+st.class, entry+" returned a nil key and a nil error for state "+st.name, wit)
		return
	}
	switch st.exp {
	case expError:
		if err == nil {
			r.Violation(entry+"/no-error/"+st.class, "a key was returned without error for state "+st.name, wit)
		}
		if !before.same(after) {
			r.Violation(entry+"/modified/"+st.class, "an unreadable/non-key path was modified", wit)
		}
	case expKey:
		if err != nil {
			r.Violation(entry+"/valid-rejected/"+st.class, "a valid key file was not loaded: "+err.Error(), wit)
		} else if pid, why := usable(k); why != "" || pid != id.ID {
			r.Violation(entry+"/wrong-key/"+st.class, "loaded key is not the key stored in the file", wit)
		}
	case expKeyOrErr:
		if err == nil {
			if pid, why := usable(k); why != "" || pid != id.ID {
				r.Violation(entry+"/wrong-key/"+st.class, "loaded key is not the key stored in the file", wit)
			}
		}
	case expMissing, "missing-via-symlink":
		if err != nil {
			r.Violation(entry+"/missing-not-created/"+st.class, "missing file did not yield a new key: "+err.Error(), wit)
			return
		}
		pid, why := usable(k)
		if why != "" {
			r.Violation(entry+"/unusable-key/"+st.class, "generated key is not usable: "+why, wit)
			return
		}
		if k2, ok := checkWritten(r, entry, st.class, st, dir, path, wit); !ok {
			r.Violation(entry+"/not-written/"+st.class, "key returned for a missing file but no key file was written", wit)
		} else if pid2, _ := usable(k2); pid2 != pid {
			r.Violation(entry+"/reload-differs/"+st.class, "the written key file holds another identity than the key returned", wit)
		}
	}
}

// ------------------------------------------------------------------ daemon

var mountedRe = regexp.MustCompile(`(?:peer mounted.*peer-id=|node controller resolved w/ ID: )([1-9A-HJ-NP-Za-km-z]+)`)

// buildDaemon builds cmd/bifrost of the tree under test (VERIF_REPO, default
// /repo) without the race detector or the verif tag.
func buildDaemon(t testing.TB) (string, error) {
	repo := os.Getenv("VERIF_REPO")
	if repo == "" {
		repo = "/repo"
	}
	bin := filepath.Join(t.TempDir(), "bifrost")
	if err := g12util.GoBuild(repo, bin, "./cmd/bifrost"); err != nil {
		return "", err
	}
	return bin, nil
}

type daemonOut struct {
	mounted  string // peer id the daemon came up with ("" = none)
	exited   bool
	exitErr  string
	panicked bool
	watchdog bool
	log      string
}

// runDaemonBin starts "bifrost daemon --node-priv path" and waits for one of two
// conditions: the process exits, or it logs the peer id it mounted (then it is killed).
func runDaemonBin(bin, dir, path string) daemonOut {
	cmd := exec.Command(bin, "daemon", "--node-priv", path, "--config", "")
	cmd.Dir = dir
	pr, pw, err := os.Pipe()
	if err != nil {
		return daemonOut{watchdog: true, log: err.Error()}
	}
	cmd.Stdout, cmd.Stderr = pw, pw
	cmd.Env = g12util.ToolEnv("GOMAXPROCS=2")
	if err := cmd.Start(); err != nil {
		pw.Close()
		pr.Close()
		return daemonOut{exited: true, exitErr: "start: " + err.Error()}
	}
	pw.Close()
	lines := make(chan string, 64)
	go func() {
		sc := bufio.NewScanner(pr)
		sc.Buffer(make([]byte, 1<<20), 1<<20)
		for sc.Scan() {
			lines <- sc.Text()
		}
		close(lines)
	}()
	var o daemonOut
	var sb strings.Builder
	wd := time.NewTimer(120 * time.Second) // expiry => inconclusive
	defer wd.Stop()
	killed := false
loop:
	for {
		select {
		case ln, ok := <-lines:
			if !ok {
				break loop
			}
			if sb.Len() < 1<<16 {
				sb.WriteString(ln + "\n")
			}
			if strings.HasPrefix(ln, "panic: ") || strings.HasPrefix(ln, "fatal error: ") {
				o.panicked = true
			}
			if m := mountedRe.FindStringSubmatch(ln); m != nil && o.mounted == "" {
				o.mounted = m[1]
				if !killed {
					killed = true
					_ = cmd.Process.Kill()
				}
			}
		case <-wd.C:
			o.watchdog = true
			if !killed {
				killed = true
				_ = cmd.Process.Kill()
			}
		}
	}
	werr := cmd.Wait()
	pr.Close()
	o.log = sb.String()
	if !killed {
		o.exited = true
		o.exitErr = fmt.Sprint(werr)
	}
	return o
}

func (e *cliEnv) runDaemonState(r *vf.Run, bin string, id *keys.Identity, st state, dir string) {
	const entry = "daemon"
	path := st.setup(dir)
	if strings.ContainsRune(path, 0) {
		return // cannot be passed on a command line
	}
	wd := filepath.Join(dir, "cwd")
	_ = os.Mkdir(wd, 0o700)
	before := snap(path)
	o := runDaemonBin(bin, wd, path)
	after := snap(path)
	sig := "daemon|" + st.name
	logTail := o.log
	if len(logTail) > 1500 {
		logTail = logTail[:1500]
	}
	wit := map[string]any{"entry": "bifrost daemon --node-priv", "state": st.name, "expect": st.exp, "path": path, "before": before, "after": after,
		"mounted_peer_id": o.mounted, "exited": o.exited, "exit": o.exitErr, "log_head": logTail, "file_key_peer_id": id.String()}
	if o.watchdog {
		r.Case(sig, false)
		r.Inconclusive("daemon " + st.name + ": neither exited nor reported its peer id (watchdog)")
		return
	}
	if o.panicked {
		r.Case(sig, false)
		r.Violation(entry+"/panic/"+st.class, "the daemon crashed loading its key file (state "+st.name+")", wit)
		return
	}
	r.Case(sig, true)
	r.Distinct("daemon_states", st.name)
	started := o.mounted != ""
	if started {
		r.Count("daemon_started", 1)
	} else {
		r.Count("daemon_exited_with_error", 1)
		if o.exitErr == "<nil>" {
			// exit status 0 without ever mounting a peer: nothing was reported at all
			r.Violation(entry+"/silent-exit/"+st.class, "the daemon exited with status 0 without starting", wit)
		}
	}
	switch st.exp {
	case expError:
		if started {
			r.Violation(entry+"/started-without-key/"+st.class, "the daemon started with identity "+o.mounted+" although its key file ("+st.name+") holds no key: the file was treated as an absent key", wit)
		}
		if !before.same(after) {
			r.Violation(entry+"/modified/"+st.class, "an unreadable/non-key path was modified", wit)
		}
	case expKey, expKeyOrErr:
		if !started {
			if st.exp == expKey {
				r.Violation(entry+"/valid-rejected/"+st.class, "the daemon refused a valid key file", wit)
			}
		} else if o.mounted != id.String() {
			r.Violation(entry+"/wrong-key/"+st.class, "the daemon runs with another identity than the one in its key file", wit)
		} else {
			r.Count("daemon_started_with_file_identity", 1)
		}
		if !before.same(after) {
			r.Violation(entry+"/modified/"+st.class, "loading changed the existing key file", wit)
		}
	case expAnyOrErr:
		if !before.same(after) {
			r.Violation(entry+"/modified/"+st.class, "loading changed the existing path", wit)
		}
	case expMissing, "missing-via-symlink":
		if !started {
			r.Violation(entry+"/missing-not-created/"+st.class, "the daemon did not start with a new key for a missing key file", wit)
			return
		}
		k, ok := checkWritten(r, entry, st.class, st, dir, path, wit)
		if !ok {
			r.Violation(entry+"/not-written/"+st.class, "the daemon started with a new identity but wrote no key file", wit)
			return
		}
		if pid, _ := usable(k); pid.String() != o.mounted {
			wit["written_peer_id"] = pid.String()
			r.Violation(entry+"/reload-differs/"+st.class, "the key file written by the daemon holds another identity than the one it runs with", wit)
		} else {
			r.Count("daemon_missing_written_reloads", 1)
		}
	}
}

// runDaemonStates runs the daemon on the given states, a few processes at a time.
func (e *cliEnv) runDaemonStates(r *vf.Run, bin string, jobs []daemonJob) {
	var wg sync.WaitGroup
	sem := make(chan struct{}, 8)
	r.Begin(fmt.Sprintf("bifrost daemon --node-priv over %d file states (8 processes at a time)", len(jobs)))
	for _, j := range jobs {
		dir := e.dir("daemon")
		wg.Add(1)
		sem <- struct{}{}
		go func() {
			defer wg.Done()
			defer func() { <-sem }()
			e.runDaemonState(r, bin, j.id, j.st, dir)
		}()
	}
	wg.Wait()
}

type daemonJob struct {
	id *keys.Identity
	st state
}
