// C16: envelopes open exactly when enough distinct shares are reachable.
package c16

import (
	"fmt"
	"sync/atomic"
	"testing"

	"github.com/aperturerobotics/bifrost/envelope"
	"verifharness/g3env"
	"verifharness/vf"
)

func TestC16(t *testing.T) {
	r := vf.Start(t, "C16", vf.Exploration)
	defer r.Finish()
	r.SetRule("configurations = the enumeration of all configurations with <= 2 grants in the property's bound (1-3 distinct recipients, share_count 0-2, every subset of the recipients as index list, threshold 0-3, total_shares 0-5: 19152 configurations; thorough tier: all of them, quick tier: all 1-grant ones and every 7th 2-grant one) + a PRNG sample with 1-4 grants, repeated / unordered indexes, the same key listed as several recipients and occasionally an index naming no recipient; each with a PRNG payload (1-64 B) and context. Each is sealed with the real BuildEnvelope; every accepted one is unsealed with the real UnlockEnvelope for EVERY subset of the recipients' private keys (rotating: as is / an unrelated key inserted / reversed with a duplicate) plus the unrelated key alone, alternately on the in-memory envelope and on its MarshalVT/UnmarshalVT copy. One evaluation = one (configuration, key set) unseal (or one rejected configuration, trivial); non-trivial = an unseal of an accepted configuration; distinct = distinct (configuration, key set). Oracle = refEnvelope (harness/g3env/model.go, from doc/ENVELOPE.md + proto comments): success <=> distinct shares in the grants the offered keys can decrypt >= threshold+1; payload equal on success and absent otherwise; shares_available, shares_needed, unlocked_grant_indexes equal to the model's; no error and no panic on an intact envelope")
	r.Assume("shares are dealt to the grants in configuration order, each grant taking share_count (0 => 1) while the total_shares pool lasts (DESIGN.md C16)")
	pool := g3env.NewPool(r)

	rng := r.Rand("c16/sample")
	var cfgs []g3env.Config
	if r.Quick() {
		// quick: every 1-grant configuration, every 7th 2-grant configuration
		// (seed-dependent offset), thorough: all of them
		off := rng.IntN(7)
		for k, c := range g3env.Exhaustive(2) {
			if len(c.Grants) == 1 || k%7 == off {
				cfgs = append(cfgs, c)
			}
		}
		r.Extra("enumerated_part", fmt.Sprintf("all 1-grant configurations and every 7th 2-grant configuration (%d), all key subsets each; the thorough tier runs all 19152", len(cfgs)))
	} else {
		cfgs = g3env.Exhaustive(2)
		r.Extra("enumerated_part", fmt.Sprintf("all %d configurations with <= 2 grants, all key subsets each", len(cfgs)))
	}
	nEx := len(cfgs)
	for i, n := 0, r.N(800, 20000); i < n; i++ {
		cfgs = append(cfgs, g3env.Random(rng))
	}
	r.Extra("sampled_configurations", len(cfgs)-nEx)

	var sampled atomic.Int32
	g3env.Batches(r, len(cfgs), 512, func(i int) string { return cfgs[i].Sig() }, func(i int) {
		c := cfgs[i]
		crng := r.Rand(fmt.Sprintf("c16/case/%d", i))
		ctx := g3env.RandContext(crng)
		payload := g3env.RandBytes(crng, 1+crng.IntN(64))
		ref := g3env.NewRef(c)
		s := g3env.Seal(pool, c, ctx, payload, crng)
		if s.Panic != "" {
			r.Violation("seal/panic", "BuildEnvelope panicked: "+s.Panic, g3env.Witness(s, nil, nil, nil))
			r.Case(c.Sig(), false)
			return
		}
		if s.Err != nil {
			r.Count("seal_rejected", 1)
			if ref.WellFormed && ref.Openable() {
				r.Count("seal_rejected_although_openable", 1)
			}
			r.Case(c.Sig(), false)
			return
		}
		r.Count("seal_accepted", 1)
		r.Distinct("accepted_configurations", c.Sig())
		env := s.Env
		if i%2 == 1 {
			// unseal what a receiver would get off the wire
			b, err := env.MarshalVT()
			dec := &envelope.Envelope{}
			if err == nil {
				err = dec.UnmarshalVT(b)
			}
			if err != nil {
				r.Violation("wire/roundtrip", "a sealed envelope does not survive MarshalVT/UnmarshalVT: "+err.Error(), g3env.Witness(s, nil, nil, nil))
			} else {
				env = dec
				r.Count("unsealed_from_wire_copy", 1)
			}
		}
		dk := g3env.DistinctKeys(c)
		var sets [][]int
		for mask := 0; mask < 1<<len(dk); mask++ {
			var ids []int
			for b := range dk {
				if mask&(1<<b) != 0 {
					ids = append(ids, dk[b])
				}
			}
			switch (i + mask) % 3 {
			case 1:
				p := crng.IntN(len(ids) + 1)
				ids = append(ids[:p:p], append([]int{g3env.Unrelated}, ids[p:]...)...)
			case 2:
				for a, b := 0, len(ids)-1; a < b; a, b = a+1, b-1 {
					ids[a], ids[b] = ids[b], ids[a]
				}
				if len(ids) > 0 {
					ids = append(ids, ids[0])
				}
			}
			sets = append(sets, ids)
		}
		sets = append(sets, []int{g3env.Unrelated}, []int{})
		for _, ids := range sets {
			ex := g3env.Predict(ref, ids)
			o := g3env.Unlock(pool, ctx, env, ids)
			for _, m := range g3env.Compare(s, ex, o) {
				r.Violation(m.Key, m.What, g3env.Witness(s, ids, &ex, &o))
			}
			r.Count("unseal_calls", 1)
			if ex.Open {
				r.Count("unseal_model_open", 1)
			} else {
				r.Count("unseal_model_closed", 1)
			}
			if o.Res.GetSuccess() {
				r.Count("unseal_observed_success", 1)
			}
			r.Distinct("reach_outcomes", fmt.Sprintf("%v/%d/%d", ex.Grants, ex.Available, ex.Needed))
			r.Case(fmt.Sprintf("%s|keys=%v", c.Sig(), ids), true)
			if ex.Open && len(ids) > 1 && sampled.Add(1) <= 3 {
				r.Sample(g3env.Witness(s, ids, &ex, &o))
			}
		}
	})
}
