// C09: the buffered connection (rwc.Conn) never silently loses or reorders
// bytes.
//
// The real rwc.Conn runs on both ends of a chunkPipe. The harness is the
// underlying stream: it knows every byte written, where every underlying read
// (the chunk rxPump queued) ended, and when EOF / an injected error was handed
// to the rx pump. The oracle walks the Conn.Read results with a position in the
// written stream.
package c09

import (
	"bytes"
	"context"
	"errors"
	"fmt"
	"io"
	"math/rand/v2"
	"net"
	"os"
	"sync"
	"testing"
	"time"

	"github.com/aperturerobotics/bifrost/util/rwc"
	"verifharness/g4pipe"
	"verifharness/vf"
)

const watchdog = 60 * time.Second

type strAddr string

func (a strAddr) Network() string { return "verif" }
func (a strAddr) String() string  { return string(a) }

type flowSpec struct {
	writes   [][]byte
	stream   []byte // concatenation of writes
	partial  bool   // underlying writer accepts PRNG-sized parts of each Write
	wfaultAt int    // -1: none; underlying write error after this many bytes
	rfaultAt int    // -1: none; underlying read error once this many bytes were delivered
	ewd      bool   // terminal error handed to the rx pump together with the last bytes
	bufKinds []int  // reader buffer size choices
	dlPoll   bool   // the reader polls: some reads are made with an already expired read deadline
	zero     string // underlying reads that return (0, nil) ("nothing happened"): "" none, or a kind of mkZero
}

type caseSpec struct {
	idx    int
	bufN   int
	chunk  string
	capN   int
	duplex bool
	flows  []*flowSpec
}

func (c *caseSpec) sig() string {
	s := fmt.Sprintf("buf%d|%s|cap%d|dup=%v", c.bufN, c.chunk, c.capN, c.duplex)
	for _, f := range c.flows {
		s += fmt.Sprintf("|n%d", len(f.writes))
		for _, w := range f.writes {
			s += fmt.Sprintf(",%d", len(w))
		}
		s += fmt.Sprintf("|partial=%v|wf%d|rf%d|ewd=%v|bufs%v|dl=%v", f.partial, f.wfaultAt, f.rfaultAt, f.ewd, f.bufKinds, f.dlPoll)
		if f.zero != "" {
			s += "|zero=" + f.zero
		}
	}
	return s
}

func mkChunker(kind string, rng *rand.Rand) g4pipe.Chunker {
	switch kind {
	case "one":
		return g4pipe.OneByte
	case "rand":
		return g4pipe.Random(rng, 0)
	case "rand3":
		return g4pipe.Random(rng, 3)
	case "rand300":
		return g4pipe.Random(rng, 300)
	}
	return g4pipe.All
}

// zeroKinds: where the underlying stream answers a Read with (0, nil) although
// the rx pump passed a non-empty buffer. io.Reader allows it and says the caller
// must treat it as "nothing happened", in particular not as the end of the stream.
var zeroKinds = []string{"first", "start3", "once", "rand", "runs", "before-end", "everywhere"}

// mkZero builds the decision function for Half.ZeroReads. Every kind answers
// false eventually, so a retrying reader always makes progress.
func mkZero(kind string, rng *rand.Rand, streamLen int) func(pos, avail int) bool {
	run := 0       // zero reads still to be answered in the current run
	fired := false // one-shot kinds
	onceAt := 0
	if streamLen > 0 {
		onceAt = rng.IntN(streamLen)
	}
	started := 0
	endZeros := 1 + rng.IntN(3)
	return func(pos, avail int) bool {
		if run > 0 {
			run--
			return true
		}
		switch kind {
		case "first": // the very first read
			if !fired {
				fired = true
				return true
			}
		case "start3": // the first three reads
			if started < 3 {
				started++
				return true
			}
		case "once": // once, somewhere in the middle
			if !fired && pos >= onceAt {
				fired = true
				return true
			}
		case "rand": // every fourth delivery on average is preceded by one
			if avail > 0 && rng.IntN(4) == 0 {
				return true
			}
		case "runs": // runs of 2..6
			if avail > 0 && rng.IntN(8) == 0 {
				run = 1 + rng.IntN(5)
				return true
			}
		case "before-end": // between the last data and the terminal error
			if avail == 0 && endZeros > 0 {
				endZeros--
				return true
			}
		case "everywhere":
			if avail == 0 {
				if endZeros > 0 {
					endZeros--
					return true
				}
			} else if rng.IntN(2) == 0 {
				if rng.IntN(4) == 0 {
					run = rng.IntN(4)
				}
				return true
			}
		}
		return false
	}
}

var bufChoices = []int{0, 1, 7, 100, 2047, 2048, 2049, 4096, 65536}

func genFlow(rng *rand.Rand, c *caseSpec) *flowSpec {
	f := &flowSpec{wfaultAt: -1, rfaultAt: -1}
	budget := 64 << 10
	if c.chunk == "one" || c.chunk == "rand3" {
		budget = 12 << 10
	}
	n := 1 + rng.IntN(40)
	for i := 0; i < n && budget > 0; i++ {
		var sz int
		switch rng.IntN(6) {
		case 0:
			sz = []int{1, 2, 2047, 2048, 2049, 4096, 4097, 10240}[rng.IntN(8)]
		case 1:
			sz = 1 + rng.IntN(16)
		case 2:
			sz = 2000 + rng.IntN(100)
		default:
			sz = 1 + rng.IntN(10240)
		}
		if sz > budget {
			sz = 1 + rng.IntN(64)
		}
		budget -= sz
		w := make([]byte, sz)
		for j := range w {
			w[j] = byte(rng.UintN(256))
		}
		f.writes = append(f.writes, w)
		f.stream = append(f.stream, w...)
	}
	f.partial = rng.IntN(3) == 0
	switch rng.IntN(6) {
	case 0:
		f.rfaultAt = rng.IntN(len(f.stream) + 1)
	case 1:
		f.wfaultAt = rng.IntN(len(f.stream) + 1)
	}
	f.ewd = rng.IntN(3) == 0
	// reader buffer policy: a fixed size or a mix
	switch rng.IntN(4) {
	case 0:
		f.bufKinds = []int{bufChoices[rng.IntN(len(bufChoices))]}
	case 1:
		f.bufKinds = []int{65536}
	case 2:
		f.bufKinds = []int{2048, 2049, 4096, 65536}
	default:
		f.bufKinds = append([]int(nil), bufChoices...)
		f.bufKinds = append(f.bufKinds, 1+rng.IntN(3000), 1+rng.IntN(3000))
	}
	f.dlPoll = rng.IntN(3) == 0
	return f
}

func genCase(r *vf.Run, idx int) *caseSpec {
	rng := rand.New(rand.NewPCG(r.Seed(), uint64(idx)*2+1))
	c := &caseSpec{idx: idx}
	c.bufN = []int{1, 2, 10, 0}[rng.IntN(4)]
	c.chunk = []string{"one", "rand", "rand3", "rand300", "all", "all"}[rng.IntN(6)]
	if rng.IntN(3) == 0 {
		c.capN = []int{1, 7, 64, 2048, 4096}[rng.IntN(5)]
	}
	c.duplex = rng.IntN(3) == 0
	c.flows = []*flowSpec{genFlow(rng, c)}
	if c.duplex {
		c.flows = append(c.flows, genFlow(rng, c))
	}
	// (0, nil) underlying reads: drawn from an independent PRNG stream, so the
	// rest of the case list is the same as without them
	zrng := rand.New(rand.NewPCG(r.Seed(), uint64(idx)*2+1_000_001))
	for _, f := range c.flows {
		if zrng.IntN(5) < 2 {
			f.zero = zeroKinds[zrng.IntN(len(zeroKinds))]
		}
	}
	return c
}

type readRec struct {
	n      int
	err    string
	bufLen int
	pos    int
}

type flowResult struct {
	ok        bool
	timedOut  bool
	reads     int
	shorts    int
	polled    int
	timeouts  int
	bytesOK   int
	discarded int
	recent    []readRec // last few reads for the witness
	viol      []func()
}

// runFlow drives one direction: src writes f.writes, dst reads; dstIn is the
// half the rx pump of dst reads from.
func runFlow(r *vf.Run, c *caseSpec, fi int, f *flowSpec, src, dst *rwc.Conn, srcEnd *g4pipe.End, dstIn *g4pipe.Half, rng *rand.Rand, res *flowResult) {
	wit := func(extra map[string]any) map[string]any {
		m := map[string]any{"case": c.idx, "flow": fi, "sig": c.sig(), "chunking": c.chunk, "recent_reads": fmt.Sprintf("%+v", res.recent),
			"underlying_delivered": dstIn.Delivered(), "underlying_written": dstIn.WrittenLen()}
		for k, v := range extra {
			m[k] = v
		}
		return m
	}
	readerDone := make(chan struct{})
	go func() {
		defer close(readerDone)
		big := make([]byte, 65536)
		pos := 0
		alt := -1 // position before the last short-buffer skip (an implementation that reports a short buffer but keeps the rest is also in order)
		ok := true
		justTimedOut := false
		for {
			bl := f.bufKinds[rng.IntN(len(f.bufKinds))]
			buf := big[:bl]
			polled := f.dlPoll && !justTimedOut && rng.IntN(3) == 0
			justTimedOut = false
			if polled {
				// a fixed instant in the past: the read may time out, or return queued
				// data; a timed-out read must not consume anything
				_ = dst.SetReadDeadline(time.Unix(1, 0))
			}
			n, err := dst.Read(buf)
			if polled {
				_ = dst.SetReadDeadline(time.Time{})
				res.polled++
				if err != nil && errors.Is(err, os.ErrDeadlineExceeded) {
					res.timeouts++
					if n != 0 {
						r.Violation("conn/timeout-with-data", "a Read that reported an exceeded deadline also returned bytes", wit(map[string]any{"n": n}))
						ok = false
						break
					}
					justTimedOut = true // the next read blocks, so polling never spins
					continue            // nothing consumed: the model position stays
				}
			}
			res.reads++
			rec := readRec{n: n, bufLen: bl, pos: pos}
			if err != nil {
				rec.err = err.Error()
			}
			if len(res.recent) >= 8 {
				res.recent = res.recent[1:]
			}
			res.recent = append(res.recent, rec)
			if n < 0 || n > bl {
				r.Violation("conn/bad-count", "Read returned n outside 0..len(b)", wit(nil))
				ok = false
				break
			}
			if n > 0 {
				if alt >= 0 && alt != pos && (pos+n > len(f.stream) || !bytes.Equal(buf[:n], f.stream[pos:pos+n])) &&
					alt+n <= len(f.stream) && bytes.Equal(buf[:n], f.stream[alt:alt+n]) {
					pos = alt
				}
				alt = -1
				if pos+n > len(f.stream) || !bytes.Equal(buf[:n], f.stream[pos:pos+n]) {
					// classify: do the bytes occur later in the stream (a gap = silent loss) or not at all
					key := "conn/corrupted-or-reordered"
					what := "bytes returned by Read are not the next unread bytes written by the peer"
					if j := bytes.Index(f.stream[min(pos, len(f.stream)):], buf[:n]); j > 0 && n >= 4 {
						key = "conn/silent-gap"
						what = fmt.Sprintf("%d bytes were skipped without any read reporting a too-small buffer", j)
					}
					end := min(len(f.stream), pos+min(n, 24))
					r.Violation(key, what, wit(map[string]any{"model_pos": pos, "n": n, "got": vf.Hex(buf[:min(n, 24)]), "want": vf.Hex(f.stream[min(pos, len(f.stream)):end])}))
					ok = false
					break
				}
				pos += n
				res.bytesOK += n
			}
			if err == nil {
				continue
			}
			if err == io.ErrShortBuffer {
				res.shorts++
				// the rest of the underlying chunk is discarded, and the read said so
				if e := dstIn.ChunkEndAfter(pos - n); e >= 0 && e >= pos {
					res.discarded += e - pos
					alt = pos
					pos = e
				}
				continue
			}
			// terminal error: the connection has ended
			uerr, upos := dstIn.Terminal()
			switch {
			case uerr == nil:
				r.Violation("conn/error-while-healthy", "Read returned an error although the underlying stream had not ended: "+err.Error(), wit(nil))
				ok = false
			case pos != upos:
				r.Violation("conn/lost-at-end", fmt.Sprintf("Read reported the end of the connection at stream position %d but %d bytes had been delivered to the connection: queued data was lost", pos, upos), wit(map[string]any{"model_pos": pos}))
				ok = false
			case err != uerr:
				r.Violation("conn/wrong-terminal-error", fmt.Sprintf("ended connection reported %q, the underlying stream ended with %q", err, uerr), wit(nil))
				ok = false
			}
			// a further read must still report the end
			n2, err2 := dst.Read(big[:16])
			if err2 == nil || err2 == io.ErrShortBuffer || n2 != 0 {
				r.Violation("conn/data-after-end", "Read returned data after the connection had reported its end", wit(map[string]any{"n": n2}))
				ok = false
			}
			break
		}
		res.ok = ok
	}()

	// writer
	writerDone := make(chan struct{})
	go func() {
		defer close(writerDone)
		for i, w := range f.writes {
			n, err := src.Write(w)
			if err != nil {
				if f.wfaultAt < 0 {
					r.Inconclusive(fmt.Sprintf("case %d flow %d: write %d failed on a healthy stream: %v", c.idx, fi, i, err))
				}
				return
			}
			if n != len(w) {
				r.Violation("conn/short-write-nil-error", fmt.Sprintf("Write returned n=%d of %d with a nil error", n, len(w)), map[string]any{"case": c.idx, "flow": fi, "sig": c.sig(), "write_index": i})
				return
			}
		}
	}()
	go func() { <-readerDone; srcEnd.Out.SetCap(0) }()
	timer := time.NewTimer(watchdog)
	defer timer.Stop()
	select {
	case <-writerDone:
	case <-timer.C:
		res.timedOut = true
		return
	}
	srcEnd.Out.CloseWrite()
	select {
	case <-readerDone:
	case <-timer.C:
		res.timedOut = true
	}
}

func runCase(r *vf.Run, c *caseSpec) {
	rng := rand.New(rand.NewPCG(r.Seed(), uint64(c.idx)*2+2))
	ctx, cancel := context.WithCancel(context.Background())
	defer cancel()
	ea, eb := g4pipe.New()
	for i, h := range []*g4pipe.Half{ea.Out, eb.Out} { // ea.Out = flow 0 (A->B), eb.Out = flow 1 (B->A)
		h.SetChunker(mkChunker(c.chunk, rand.New(rand.NewPCG(rng.Uint64(), 1))))
		h.KeepLog(false)
		h.LogReads(true)
		if c.capN > 0 {
			h.SetCap(c.capN)
		}
		if i < len(c.flows) {
			f := c.flows[i]
			if f.partial {
				prng := rand.New(rand.NewPCG(rng.Uint64(), 2))
				h.PartialWrites(func(n int) int { return 1 + prng.IntN(n) })
			}
			if f.wfaultAt >= 0 {
				h.FaultWriteAt(f.wfaultAt, g4pipe.ErrFault)
			}
			if f.rfaultAt >= 0 {
				h.FaultReadAt(f.rfaultAt, g4pipe.ErrFault)
			}
			h.ErrWithData(f.ewd)
			if f.zero != "" {
				h.ZeroReads(mkZero(f.zero, rand.New(rand.NewPCG(r.Seed(), uint64(c.idx)*8+uint64(i)+5_000_003)), len(f.stream)))
			}
		}
	}
	var la, lb net.Addr = strAddr("a"), strAddr("b")
	ca := rwc.NewConn(ctx, ea, la, lb, c.bufN)
	cb := rwc.NewConn(ctx, eb, lb, la, c.bufN)
	results := make([]*flowResult, len(c.flows))
	var wg sync.WaitGroup
	for i, f := range c.flows {
		results[i] = &flowResult{}
		wg.Add(1)
		go func(i int, f *flowSpec) {
			defer wg.Done()
			frng := rand.New(rand.NewPCG(r.Seed(), uint64(c.idx)*4+uint64(i)+77))
			if i == 0 {
				runFlow(r, c, i, f, ca, cb, ea, ea.Out, frng, results[i])
			} else {
				runFlow(r, c, i, f, cb, ca, eb, eb.Out, frng, results[i])
			}
		}(i, f)
	}
	wg.Wait()
	cancel()
	_ = ea.Close()
	_ = eb.Close()

	allOK := true
	for i, res := range results {
		h := ea.Out
		if i == 1 {
			h = eb.Out
		}
		if res.timedOut {
			r.Inconclusive(fmt.Sprintf("case %d flow %d: did not finish within the watchdog", c.idx, i))
			allOK = false
			continue
		}
		if !res.ok {
			allOK = false
		}
		nrd, hash := h.ReadStats()
		r.Distinct("underlying_read_schedules", fmt.Sprint(nrd, hash))
		r.Count("underlying_reads", nrd)
		if z := h.ZeroReadCount(); z > 0 {
			r.Count("underlying_reads_returning_0_nil", z)
			r.Count("flows_with_0_nil_underlying_reads/"+c.flows[i].zero, 1)
		}
		r.Count("conn_reads", res.reads)
		r.Count("conn_short_buffer_reads", res.shorts)
		r.Count("conn_reads_with_expired_deadline", res.polled)
		r.Count("conn_reads_timed_out", res.timeouts)
		r.Count("bytes_verified", res.bytesOK)
		r.Count("bytes_discarded_with_short_buffer_report", res.discarded)
		if uerr, _ := h.Terminal(); uerr == io.EOF {
			r.Count("ended_with_eof", 1)
		} else if uerr != nil {
			r.Count("ended_with_injected_error", 1)
		}
	}
	if c.idx < 3 {
		f := c.flows[0]
		var sizes []int
		for _, w := range f.writes {
			sizes = append(sizes, len(w))
		}
		if len(sizes) > 12 {
			sizes = sizes[:12]
		}
		r.Sample(map[string]any{"first_write_sizes": sizes, "stream_len": len(f.stream), "chunking": c.chunk, "reader_buffers": f.bufKinds, "partial_underlying_writes": f.partial,
			"read_fault_at": f.rfaultAt, "write_fault_at": f.wfaultAt, "conn_reads": results[0].reads, "short_buffer_reads": results[0].shorts, "held": allOK})
	}
	r.Case(c.sig(), allOK)
}

func TestCheck(t *testing.T) {
	r := vf.Start(t, "C09", vf.Exploration)
	defer r.Finish()
	r.SetRule("case = (1-40 writes of sizes {1,2,2047,2048,2049,4096,4097,10240} or PRNG 1..10240 through the real Conn.Write, optionally with an underlying writer accepting PRNG-sized parts of each write, optionally both directions at once) x (chunking of the underlying reads seen by the rx pump {1 byte, PRNG, PRNG<=3, PRNG<=300, as much as possible}, bounded or unbounded pipe, queue length {1,2,10,default}) x (reader buffer sizes from {0,1,7,100,2047,2048,2049,4096,65536,PRNG} per read) x (underlying reads answering (0, nil) with a non-empty buffer, which io.Reader allows and which must not be taken for the end: none (3/5 of the flows) | the first read | the first three | once mid-stream | PRNG before a quarter of the deliveries | runs of 2-6 | between the last byte and the terminal error | everywhere) x (end: EOF, injected underlying read error after k bytes, underlying write error after k bytes; terminal error alone or together with the last bytes). " +
		"Oracle: model position in the written stream; every Read's bytes must equal stream[pos:pos+n]; after a read that returned io.ErrShortBuffer the position skips to the end of the underlying chunk (the harness logged every underlying read); a third of the flows poll: some reads are made with an already expired read deadline (a fixed past instant) and may time out, a timed-out read must return 0 bytes and consume nothing; a terminal error is only allowed once the underlying stream handed EOF/E to the rx pump, must come after all delivered bytes were read, and must be that EOF/E. Non-trivial = flow completed and judged; distinct = distinct write-size sequences and parameters.")
	n := r.N(400, 4000)
	var wg sync.WaitGroup
	ch := make(chan *caseSpec)
	for w := 0; w < 12; w++ {
		wg.Add(1)
		go func() {
			defer wg.Done()
			for c := range ch {
				runCase(r, c)
			}
		}()
	}
	for i := 0; i < n; i++ {
		c := genCase(r, i)
		if i%16 == 0 {
			r.Begin(fmt.Sprintf("cases %d..%d; first: %s", i, i+15, c.sig()))
		}
		ch <- c
	}
	close(ch)
	wg.Wait()
}
