package c40

// C40, target "solicit-live": hostile bytes on the LIVE solicitation control
// stream of a real link/solicit controller that has local solicitations
// registered. The harness is the remote peer of a harness link (g10sol.LiveCtl):
// it receives the controller's own exchange, then writes one hostile input on
// the control stream and waits until the controller has consumed it (or closed
// the stream) and every goroutine is parked again.
//
// Oracle: no panic anywhere (a panic on a controller goroutine kills the
// process: every case is journaled before the bytes are written, the runner
// attributes the crash); allocation of the whole reaction (reader, decoder,
// control loop, match evaluation) measured as the process-wide TotalAlloc delta
// with the GC paused <= frame limit + c*len(input) + slack like every other C40
// target. What the controller does with the input otherwise (closes the stream,
// ignores the message, opens streams) is recorded, not judged.

import (
	"bytes"
	"encoding/hex"
	"fmt"
	"runtime"
	"runtime/debug"
	"sort"

	link_solicit_controller "github.com/aperturerobotics/bifrost/link/solicit/controller"
	"github.com/aperturerobotics/bifrost/protocol"
	"verifharness/g10sol"
	"verifharness/keys"
	"verifharness/vf"
)

const solLiveLimit = 256 * 32 * 2 // link/solicit/controller.maxMessageSize

// liveCase is one hostile input for the live control stream. build receives the
// hashes the controller itself advertised (own, sorted, possibly empty).
type liveCase struct {
	class      string
	note       string
	build      func(own [][]byte) []byte
	closeAfter bool   // the harness closes its end after writing (peer goes away mid-frame)
	declared   uint64 // attacker-declared length carried by the input (0: n/a)
}

func liveCases(r *vf.Run) []liveCase {
	rng := r.Rand("c40-solicit-live")
	rb := func(n int) []byte {
		b := make([]byte, n)
		for i := range b {
			b[i] = byte(rng.UintN(256))
		}
		return b
	}
	frame := g10sol.FrameLE32
	exb := g10sol.ExchangeBody
	own0 := func(own [][]byte) []byte {
		if len(own) > 0 {
			return own[0]
		}
		return bytes.Repeat([]byte{0x5a}, 32)
	}
	// a hash of length l related to an advertised hash: its prefix, or the hash
	// followed by more bytes
	related := func(own [][]byte, l int) []byte {
		h := make([]byte, l)
		for i := range h {
			h[i] = byte(i * 7)
		}
		copy(h, own0(own))
		return h
	}
	var cs []liveCase
	add := func(c liveCase) { cs = append(cs, c) }

	// 1. one hash of a length other than 32 (random bytes / related to an own hash),
	// alone, before and after the genuine hashes
	for _, l := range []int{0, 1, 8, 16, 31, 33, 48, 64, 255, 1024, 4096, 16000} {
		l := l
		rnd := rb(l)
		add(liveCase{class: "hash-length", note: fmt.Sprintf("one %d byte hash (random)", l), build: func(own [][]byte) []byte { return frame(exb([][]byte{rnd})) }})
		add(liveCase{class: "hash-length", note: fmt.Sprintf("one %d byte hash (prefix / extension of an advertised hash)", l), build: func(own [][]byte) []byte { return frame(exb([][]byte{related(own, l)})) }})
		if l < 4096 {
			add(liveCase{class: "hash-length", note: fmt.Sprintf("advertised hashes echoed, then a %d byte hash", l), build: func(own [][]byte) []byte {
				return frame(exb(append(append([][]byte(nil), own...), related(own, l))))
			}})
			add(liveCase{class: "hash-length", note: fmt.Sprintf("a %d byte hash, then the advertised hashes echoed", l), build: func(own [][]byte) []byte {
				return frame(exb(append([][]byte{rnd}, own...)))
			}})
		}
	}
	add(liveCase{class: "hash-length", note: "hashes of lengths 0..40, one each", build: func(own [][]byte) []byte {
		var hs [][]byte
		for l := 0; l <= 40; l++ {
			hs = append(hs, related(own, l))
		}
		return frame(exb(hs))
	}})
	// 2. a hash of 1<<16 bytes (the frame exceeds the limit), sent completely
	big := rb(1 << 16)
	add(liveCase{class: "oversized-frame", note: "one 65536 byte hash, frame sent completely", declared: 1<<16 + 4, build: func(own [][]byte) []byte { return frame(exb([][]byte{big})) }})
	// 3. many hashes
	for _, n := range []int{257, 1000, 4000, 8000} {
		n := n
		add(liveCase{class: "many-hashes", note: fmt.Sprintf("%d empty hashes", n), build: func(own [][]byte) []byte { return frame(exb(make([][]byte, n))) }})
	}
	add(liveCase{class: "many-hashes", note: "5000 one-byte hashes", build: func(own [][]byte) []byte {
		hs := make([][]byte, 5000)
		for i := range hs {
			hs[i] = []byte{byte(i)}
		}
		return frame(exb(hs))
	}})
	rand480 := make([][]byte, 480)
	for i := range rand480 {
		rand480[i] = rb(32)
	}
	add(liveCase{class: "many-hashes", note: "480 random 32 byte hashes + the advertised ones, unsorted", build: func(own [][]byte) []byte {
		hs := append(append([][]byte(nil), rand480[:470]...), own...)
		return frame(exb(hs))
	}})
	add(liveCase{class: "many-hashes", note: "470 random 32 byte hashes + the advertised ones, sorted", build: func(own [][]byte) []byte {
		hs := append(append([][]byte(nil), rand480[:470]...), own...)
		sort.Slice(hs, func(i, j int) bool { return bytes.Compare(hs[i], hs[j]) < 0 })
		return frame(exb(hs))
	}})
	add(liveCase{class: "many-hashes", note: "470 random 32 byte hashes + the advertised ones, sorted descending", build: func(own [][]byte) []byte {
		hs := append(append([][]byte(nil), rand480[:470]...), own...)
		sort.Slice(hs, func(i, j int) bool { return bytes.Compare(hs[i], hs[j]) > 0 })
		return frame(exb(hs))
	}})
	add(liveCase{class: "duplicates", note: "an advertised hash 300 times", build: func(own [][]byte) []byte {
		hs := make([][]byte, 300)
		for i := range hs {
			hs[i] = own0(own)
		}
		return frame(exb(hs))
	}})
	add(liveCase{class: "duplicates", note: "every advertised hash twice, 31 byte prefixes in between", build: func(own [][]byte) []byte {
		var hs [][]byte
		for _, h := range own {
			hs = append(hs, h, h[:31], h)
		}
		return frame(exb(hs))
	}})
	// 4. oversized frames sent completely
	for _, l := range []int{solLiveLimit + 1, solLiveLimit + 4, 1 << 16, 1 << 20} {
		l := l
		body := rb(l)
		add(liveCase{class: "oversized-frame", note: fmt.Sprintf("frame of %d bytes (limit %d), sent completely", l, solLiveLimit), declared: uint64(l), build: func(own [][]byte) []byte { return frame(body) }})
	}
	add(liveCase{class: "oversized-frame", note: "valid exchange of limit+2 bytes", declared: solLiveLimit + 2, build: func(own [][]byte) []byte {
		var hs [][]byte
		for i := 0; i < 481; i++ {
			hs = append(hs, rand480[i%480])
		}
		b := exb(hs) // 481*34 = 16354
		b = append(b, exb([][]byte{make([]byte, solLiveLimit+2-len(b)-2)})...)
		return frame(b)
	}})
	add(liveCase{class: "frame-at-limit", note: "frame of exactly the limit: 481 hashes + padding hash", build: func(own [][]byte) []byte {
		var hs [][]byte
		for i := 0; i < 481; i++ {
			hs = append(hs, rand480[i%480])
		}
		b := exb(hs)
		b = append(b, exb([][]byte{make([]byte, solLiveLimit-len(b)-2)})...)
		return frame(b)
	}})
	// 5. hostile declared frame lengths with almost nothing behind them
	for _, L := range hostileLens(solLiveLimit) {
		L := L
		for ti, tail := range [][]byte{nil, {1}, {0x0a, 0x01, 'a'}} {
			tail := tail
			add(liveCase{class: "le32-length-prefix", note: fmt.Sprintf("LE32 prefix %d + %d bytes", uint32(L), len(tail)), declared: uint64(uint32(L)), closeAfter: ti == 1,
				build: func(own [][]byte) []byte { return append(le32(uint32(L)), tail...) }})
		}
		add(liveCase{class: "le32-length-prefix", note: fmt.Sprintf("advertised hashes echoed in a valid frame, then LE32 prefix %d", uint32(L)), declared: uint64(uint32(L)),
			build: func(own [][]byte) []byte { return append(frame(exb(own)), le32(uint32(L))...) }})
	}
	// 6. truncated frames (the peer goes away in the middle)
	add(liveCase{class: "truncated-frame", note: "declares 100 bytes, sends 50, closes", closeAfter: true, build: func(own [][]byte) []byte { return append(le32(100), rb(50)...) }})
	add(liveCase{class: "truncated-frame", note: "declares 100 bytes, sends 50, stays", build: func(own [][]byte) []byte { return append(le32(100), rb(50)...) }})
	add(liveCase{class: "truncated-frame", note: "2 bytes of a length prefix, closes", closeAfter: true, build: func(own [][]byte) []byte { return []byte{0x10, 0x00} }})
	add(liveCase{class: "truncated-frame", note: "valid frame, then a frame missing its last byte, closes", closeAfter: true, build: func(own [][]byte) []byte {
		f := frame(exb([][]byte{related(own, 31)}))
		return append(frame(exb(own)), f[:len(f)-1]...)
	}})
	add(liveCase{class: "truncated-frame", note: "exchange whose last hash is cut short inside the frame", build: func(own [][]byte) []byte {
		b := exb(append(append([][]byte(nil), own...), rb(32)))
		return frame(b[:len(b)-7])
	}})
	add(liveCase{class: "truncated-frame", note: "nothing, closes", closeAfter: true, build: func(own [][]byte) []byte { return nil }})
	// 7. protobuf-level hostility inside a well-framed message
	for _, in := range pbHostile(solLiveLimit, 3) {
		in := in
		add(liveCase{class: "pb-field-length", note: in.note, declared: in.declared, build: func(own [][]byte) []byte { return frame(in.data) }})
	}
	for _, l := range []int{1, 2, 3, 10, 100, 1000, solLiveLimit} {
		body := rb(l)
		add(liveCase{class: "garbage-body", note: fmt.Sprintf("%d random bytes as message body", l), build: func(own [][]byte) []byte { return frame(body) }})
	}
	add(liveCase{class: "garbage-body", note: "unknown fields, wrong wire types for field 1, groups", build: func(own [][]byte) []byte {
		return frame([]byte{0x08, 0x96, 0x01, 0x0d, 1, 2, 3, 4, 0x09, 1, 2, 3, 4, 5, 6, 7, 8, 0x0b, 0x0c, 0x12, 0x03, 'a', 'b', 'c', 0xfa, 0xff, 0xff, 0xff, 0x0f, 0x00})
	}})
	// 8. empty and many frames
	add(liveCase{class: "many-frames", note: "one empty frame", build: func(own [][]byte) []byte { return le32(0) }})
	add(liveCase{class: "many-frames", note: "3000 empty frames", build: func(own [][]byte) []byte { return bytes.Repeat(le32(0), 3000) }})
	add(liveCase{class: "many-frames", note: "400 frames: advertised hashes / 31 byte prefixes / nothing, alternating", build: func(own [][]byte) []byte {
		var out []byte
		for i := 0; i < 400; i++ {
			switch i % 3 {
			case 0:
				out = append(out, frame(exb(own))...)
			case 1:
				out = append(out, frame(exb([][]byte{related(own, 31), related(own, 33)}))...)
			default:
				out = append(out, le32(0)...)
			}
		}
		return out
	}})
	// 9. seeded structured mutants of valid frames (shared mutator of this check)
	seeds := [][]byte{
		frame(exb([][]byte{rand480[0]})),
		frame(exb(rand480[:3])),
		append(frame(exb(rand480[:2])), frame(exb(rand480[2:5]))...),
		frame(exb(rand480[:40])),
		frame(nil),
	}
	for i, n := 0, r.N(48, 600); i < n; i++ {
		si := rng.IntN(len(seeds))
		data := mutate(rng, seeds, si, solLiveLimit)
		add(liveCase{class: "mutant", note: fmt.Sprintf("mutant %d of seed %d", i, si), closeAfter: rng.IntN(4) == 0, build: func(own [][]byte) []byte { return data }})
	}
	return cs
}

// countFrames is the harness' own model of the LE32 framing: the number of
// messages a receiver with the given limit can see in data (complete frames
// within the limit, plus one for a trailing partial / rejected frame).
func countFrames(data []byte, limit int) int {
	n := 0
	for len(data) >= 4 {
		l := int(uint32(data[0]) | uint32(data[1])<<8 | uint32(data[2])<<16 | uint32(data[3])<<24)
		if l < 0 || l > limit || len(data)-4 < l {
			break
		}
		n++
		data = data[4+l:]
	}
	return n + 1
}

func solicitLivePart(r *vf.Run) {
	cases := liveCases(r)
	prng := r.Rand("c40-solicit-live-nodes")
	pool := keys.Pool(prng, 2)
	self := g10sol.CurGoroutineID()
	ignore := g10sol.UnparkedGoroutines()
	buf := make([]byte, 4<<20)
	solSets := [][][2]string{
		{{"dex/sync", "bucket-1"}},
		{{"dex/sync", "bucket-1"}, {"test/echo", ""}, {"pubsub/topic", "t/1"}},
		{{"test/echo", ""}, {"test/echo", "x"}},
	}

	runtime.GC()
	old := debug.SetGCPercent(-1)
	defer debug.SetGCPercent(old)
	var m0, m1 runtime.MemStats
	flagged := map[string]bool{}
	outcome := map[string]int{}
	var maxAlloc uint64
	nRun, nFollowOK, nFollow := 0, 0, 0
	sampled := 0
	for ci, c := range cases {
		for role := 0; role < 2; role++ {
			lower := role == 0
			// every case against a node with local solicitations (1 or 3, alternating);
			// one case in eight also against a node that solicits nothing
			sols := solSets[(ci+role)%len(solSets)]
			if ci%8 == 7 && role == 1 {
				sols = nil
			}
			if c.declared > 100_000_000 && flagged[c.class] {
				r.Count("skipped_escalation_after_flag/solicit-live", 1)
				continue
			}
			roleName := map[bool]string{true: "lower-peer-id(opens-streams)", false: "higher-peer-id"}[lower]
			lc, e := g10sol.StartLiveCtl(lower, pool[0].ID, pool[1].ID, sols)
			if e != "" {
				r.Inconclusive("solicit-live setup: " + e)
				continue
			}
			own, perr := g10sol.ParseExchangeBody(lc.FirstExchange)
			if perr != nil || len(own) != len(sols) {
				r.Inconclusive(fmt.Sprintf("solicit-live: the controller's own exchange has %d hashes for %d solicitations (%v)", len(own), len(sols), perr))
				lc.Stop()
				continue
			}
			data := c.build(own)
			g10sol.Drain(buf, self, ignore)
			r.Begin(fmt.Sprintf("solicit-live case %d (%s: %s) role=%s local-solicitations=%d close-after=%v input(%d bytes)=%x", ci, c.class, c.note, roleName, len(sols), c.closeAfter, len(data), data[:min(len(data), 4096)]))
			runtime.ReadMemStats(&m0)
			if len(data) > 0 {
				_, _ = lc.Ctl.Write(data)
			}
			if c.closeAfter {
				lc.Ctl.Close()
			}
			settled := lc.Settle(buf, self, ignore)
			runtime.ReadMemStats(&m1)
			if !settled {
				r.Inconclusive(fmt.Sprintf("solicit-live case %d (%s): the node did not settle (watchdog)", ci, c.note))
				lc.Stop()
				continue
			}
			nRun++
			closed := lc.NodeCtl.Closes() > 0
			sig := fmt.Sprintf("solicit-live|%s|%d|%d|%x", roleName, len(sols), len(data), fnv(data))
			r.Case(sig, true)
			r.Count("execs/solicit-live", 1)
			r.Count("execs/solicit-live/"+c.class, 1)
			r.Count("solicit_live_cases_"+roleName, 1)
			if closed {
				outcome[c.class+": control stream closed by the controller"]++
			} else {
				outcome[c.class+": control stream left open"]++
			}
			if n := lc.SolicitedOpened(); n > 0 {
				r.Count("solicit_live_solicited_streams_opened_by_controller_in_reaction", n)
			}
			d := m1.TotalAlloc - m0.TotalAlloc
			if d > maxAlloc {
				maxAlloc = d
			}
			// the property bounds the allocation for a SINGLE message: an input that
			// carries k complete frames may cost k times the limit
			nf := countFrames(data, solLiveLimit)
			if b := uint64(nf)*uint64(solLiveLimit) + uint64(defaultCMul)*uint64(len(data)) + slack; d > b {
				flagged[c.class] = true
				r.Violation("solicit-live/alloc/"+c.class, fmt.Sprintf("a %d byte input (%d messages) on the live solicitation control stream made the process allocate %d bytes (bound %d = messages * limit %d + %d*len + %d)", len(data), nf, d, b, solLiveLimit, defaultCMul, slack),
					map[string]any{"target": "solicit-live", "class": c.class, "note": c.note, "role": roleName, "local_solicitations": len(sols), "input": fmt.Sprintf("%x", data[:min(len(data), 2048)]), "input_len": len(data), "allocated": d, "bound": b, "declared_length": c.declared})
			}
			// follow-up (recorded, not judged): is the exchange still served? Echo the
			// advertised hashes; the lower peer id then opens one solicited stream per
			// hash, for the higher one the harness opens them.
			if !closed && !c.closeAfter && len(own) > 0 {
				before := lc.Values.Load()
				nFollow++
				_, _ = lc.Ctl.Write(g10sol.FrameLE32(g10sol.ExchangeBody(own)))
				if !lower {
					for _, h := range own {
						_, _ = lc.Dispatch(protocol.ID(link_solicit_controller.SolicitStreamPrefix + hex.EncodeToString(h)))
					}
				}
				if lc.Settle(buf, self, ignore) && lc.Values.Load() > before {
					nFollowOK++
				}
			}
			if sampled < 3 && (c.class == "hash-length" || c.class == "le32-length-prefix") && ci%5 == 1 {
				sampled++
				r.Sample(map[string]any{"target": "solicit-live", "class": c.class, "note": c.note, "role": roleName, "input": fmt.Sprintf("%x", data[:min(len(data), 64)]), "control_stream_closed_by_controller": closed, "allocated": d})
			}
			lc.Stop()
		}
		if ci%32 == 31 {
			g10sol.Drain(buf, self, ignore)
			debug.SetGCPercent(old)
			runtime.GC()
			debug.SetGCPercent(-1)
		}
	}
	g10sol.Drain(buf, self, ignore)
	r.Extra("solicit_live", map[string]any{"cases": len(cases), "executions": nRun, "max_alloc_one_reaction": maxAlloc, "limit": solLiveLimit, "c": defaultCMul,
		"outcomes": outcome, "follow_up_exchanges_sent_on_streams_left_open": nFollow, "follow_up_exchanges_that_produced_a_value": nFollowOK})
	if nRun == 0 {
		r.Inconclusive("solicit-live: no case was executed")
	}
}
