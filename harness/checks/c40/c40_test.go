// C40: network-facing decoders withstand arbitrary input: value or error, no
// panic, bounded allocation per message.
//
// For every target: valid encodings produced by the matching real encoders are
// the seeds; a seeded structured mutator (bit flips, truncation, splices,
// hostile varint / LE32 length fields) derives inputs; hostile length prefixes
// (limit+1, 16 MiB, 100 MB, 2^31-1, 2^32-1, ...) with almost no data behind
// them are always included. Phase 1 runs everything (parallel) for panics;
// phase 2 re-runs the hostile set and a slice of the mutants one at a time on a
// locked goroutine with the GC paused and compares the TotalAlloc delta of one
// decode with limit + c*len(input) + slack.
package c40

import (
	"context"
	"crypto/aes"
	"crypto/ecdh"
	"crypto/ed25519"
	"encoding/binary"
	"fmt"
	"io"
	"math/rand/v2"
	"runtime"
	"runtime/debug"
	"sort"
	"strings"
	"sync"
	"testing"
	"time"

	"github.com/aperturerobotics/bifrost/crypto"
	"github.com/aperturerobotics/bifrost/envelope"
	"github.com/aperturerobotics/bifrost/hash"
	link_solicit "github.com/aperturerobotics/bifrost/link/solicit"
	"github.com/aperturerobotics/bifrost/peer"
	"github.com/aperturerobotics/bifrost/protocol"
	"github.com/aperturerobotics/bifrost/pubsub/floodsub"
	"github.com/aperturerobotics/bifrost/pubsub/util/pubmessage"
	signaling_rpc "github.com/aperturerobotics/bifrost/signaling/rpc"
	stream_packet "github.com/aperturerobotics/bifrost/stream/packet"
	tc "github.com/aperturerobotics/bifrost/transport/controller"
	"github.com/aperturerobotics/bifrost/transport/webrtc"
	"github.com/aperturerobotics/bifrost/util/extra25519"
	"github.com/aperturerobotics/bifrost/util/rwc"
	protobuf_go_lite "github.com/aperturerobotics/protobuf-go-lite"
	"github.com/cloudflare/circl/group"
	"github.com/zeebo/blake3"
	"golang.org/x/crypto/chacha20poly1305"
	"verifharness/g10sol"
	"verifharness/g3env"
	"verifharness/g4pipe"
	"verifharness/keys"
	"verifharness/vf"
)

const (
	slack       = 256 << 10 // bytes of allocation always tolerated
	defaultCMul = 256       // tolerated allocation per input byte (small protobuf elements cost ~100 B per 2 input bytes)
)

func uvarint(v uint64) []byte {
	var b [binary.MaxVarintLen64]byte
	return append([]byte(nil), b[:binary.PutUvarint(b[:], v)]...)
}

func le32(v uint32) []byte {
	var b [4]byte
	binary.LittleEndian.PutUint32(b[:], v)
	return b[:]
}

// hostileLens are attacker-declared lengths, ascending.
func hostileLens(limit int) []uint64 {
	l := []uint64{uint64(limit) + 1, 16 << 20, 100_000_000, 1 << 30, 1<<31 - 1, 1 << 31, 1<<32 - 1}
	var out []uint64
	for _, v := range l {
		if v > uint64(limit) {
			out = append(out, v)
		}
	}
	return out
}

type input struct {
	data    []byte
	hostile bool
	class   string // hostile input class (part of the violation key)
	note    string
	// declared is the attacker-declared length the input carries (0 = n/a);
	// used to stop escalating once a class is flagged.
	declared uint64
}

type target struct {
	name  string
	limit int // configured per-message size limit (0: none beyond the input itself)
	cmul  int
	// prep builds everything outside the measured window and returns the decode
	// closure; the closure reports whether the decoder accepted the input.
	prep func(in []byte) func() (accepted bool, nilnil bool)
	// ownGoroutine: the decoder runs bifrost code on another goroutine (a panic
	// there cannot be recovered): inputs are journaled one by one and run serially.
	ownGoroutine bool
	inputs       []input
}

func (t *target) bound(n int) uint64 { return uint64(t.limit) + uint64(t.cmul)*uint64(n) + slack }

// ---- mutation

var interesting = []byte{0, 1, 0x7f, 0x80, 0xff, 0x0a, 0x12, 0x1a}

func mutate(rng *rand.Rand, seeds [][]byte, si int, limit int) []byte {
	out := append([]byte(nil), seeds[si]...)
	hl := hostileLens(limit)
	hl = append(hl, 1<<63-1, 1<<64-1, 0)
	nops := 1 + rng.IntN(3)
	for k := 0; k < nops; k++ {
		switch op := rng.IntN(12); op {
		case 0, 1: // bit flip
			if len(out) > 0 {
				i := rng.IntN(len(out))
				out[i] ^= 1 << rng.UintN(8)
			}
		case 2: // interesting byte
			if len(out) > 0 {
				out[rng.IntN(len(out))] = interesting[rng.IntN(len(interesting))]
			}
		case 3: // truncate
			if len(out) > 0 {
				out = out[:rng.IntN(len(out))]
			}
		case 4: // delete range
			if len(out) > 1 {
				i := rng.IntN(len(out))
				j := i + 1 + rng.IntN(min(len(out)-i, 16))
				out = append(out[:i], out[min(j, len(out)):]...)
			}
		case 5: // duplicate range
			if len(out) > 0 && len(out) < 1<<16 {
				i := rng.IntN(len(out))
				j := i + 1 + rng.IntN(min(len(out)-i, 32))
				seg := append([]byte(nil), out[i:min(j, len(out))]...)
				out = append(out[:i], append(seg, out[i:]...)...)
			}
		case 6: // insert random bytes
			i := rng.IntN(len(out) + 1)
			ins := make([]byte, 1+rng.IntN(8))
			for x := range ins {
				ins[x] = byte(rng.UintN(256))
			}
			out = append(out[:i], append(ins, out[i:]...)...)
		case 7, 8: // hostile varint written over a random position (length fields)
			v := uvarint(hl[rng.IntN(len(hl))])
			if len(out) == 0 {
				out = v
				break
			}
			i := rng.IntN(len(out))
			if rng.IntN(2) == 0 { // overwrite
				out = append(out[:i], append(v, out[min(i+1, len(out)):]...)...)
			} else {
				out = append(out[:i], append(v, out[i:]...)...)
			}
		case 9: // hostile LE32
			v := le32(uint32(hl[rng.IntN(len(hl))]))
			if len(out) < 4 {
				out = append(out, v...)
				break
			}
			copy(out[rng.IntN(len(out)-3):], v)
		case 10: // splice with another seed
			o := seeds[rng.IntN(len(seeds))]
			if len(o) > 0 && len(out) > 0 {
				out = append(out[:rng.IntN(len(out))], o[rng.IntN(len(o)):]...)
			}
		case 11: // random tail
			tail := make([]byte, rng.IntN(12))
			for x := range tail {
				tail[x] = byte(rng.UintN(256))
			}
			out = append(out, tail...)
		}
	}
	return out
}

// pbHostile builds protobuf inputs: a length-delimited field whose declared
// length is huge with almost nothing behind it, for field numbers 1..maxField,
// optionally nested inside parent fields.
func pbHostile(limit int, maxField int, parents ...int) []input {
	var out []input
	for f := 1; f <= maxField; f++ {
		for _, L := range hostileLens(limit) {
			b := append(uvarint(uint64(f<<3|2)), uvarint(L)...)
			b = append(b, 0x0a, 0x01)
			// wrap into parents (innermost first); parents declare honest lengths
			for _, p := range parents {
				b = append(append(uvarint(uint64(p<<3|2)), uvarint(uint64(len(b)))...), b...)
			}
			out = append(out, input{data: b, hostile: true, class: "pb-field-length", note: fmt.Sprintf("pb field %d len %d parents %v", f, L, parents), declared: L})
		}
	}
	return out
}

type nopRWC struct{ io.Reader }

func (nopRWC) Write(p []byte) (int, error) { return len(p), nil }
func (nopRWC) Close() error                { return nil }

type rawMsg struct{ data []byte }

func (m *rawMsg) SizeVT() int                                  { return len(m.data) }
func (m *rawMsg) MarshalToSizedBufferVT(b []byte) (int, error) { return copy(b, m.data), nil }
func (m *rawMsg) MarshalVT() ([]byte, error)                   { return m.data, nil }
func (m *rawMsg) UnmarshalVT(b []byte) error                   { m.data = b; return nil }
func (m *rawMsg) Reset()                                       { m.data = nil }

func frameLE(msgs ...[]byte) []byte {
	var out []byte
	for _, m := range msgs {
		out = append(out, le32(uint32(len(m)))...)
		out = append(out, m...)
	}
	return out
}

func leHostile(limit int) []input {
	var out []input
	for _, L := range hostileLens(limit) {
		for _, tail := range [][]byte{nil, {1}, {0x0a, 0x01, 'a'}} {
			out = append(out, input{data: append(le32(uint32(L)), tail...), hostile: true, class: "le32-length-prefix", note: fmt.Sprintf("LE32 prefix %d + %d bytes", uint32(L), len(tail)), declared: uint64(uint32(L))})
		}
		// after one valid frame
		out = append(out, input{data: append(frameLE([]byte{0x0a, 0x01, 'x'}), le32(uint32(L))...), hostile: true, class: "le32-length-prefix", note: fmt.Sprintf("valid frame then LE32 prefix %d", uint32(L)), declared: uint64(uint32(L))})
	}
	return out
}

// sessionTarget: framing reader + message decode through the real Session.
func sessionTarget(name string, limit int, newMsg func() protobuf_go_lite.Message, after func(protobuf_go_lite.Message)) *target {
	return &target{name: name, limit: limit, cmul: defaultCMul, prep: func(in []byte) func() (bool, bool) {
		s := stream_packet.NewSession(nopRWC{&g4pipe.ScriptReader{Data: in}}, uint32(limit))
		return func() (bool, bool) {
			acc := false
			for i := 0; i < 64; i++ {
				m := newMsg()
				if err := s.RecvMsg(m); err != nil {
					break
				}
				acc = true
				if after != nil {
					after(m)
				}
			}
			return acc, false
		}
	}}
}

const sdpOffer = "v=0\r\no=- 4596489990601351948 2 IN IP4 127.0.0.1\r\ns=-\r\nt=0 0\r\na=group:BUNDLE 0\r\na=extmap-allow-mixed\r\na=msid-semantic: WMS\r\nm=application 9 UDP/DTLS/SCTP webrtc-datachannel\r\nc=IN IP4 0.0.0.0\r\na=ice-ufrag:abcd\r\na=ice-pwd:abcdefghijklmnopqrstuvwx\r\na=ice-options:trickle\r\na=fingerprint:sha-256 00:11:22:33:44:55:66:77:88:99:AA:BB:CC:DD:EE:FF:00:11:22:33:44:55:66:77:88:99:AA:BB:CC:DD:EE:FF\r\na=setup:actpass\r\na=mid:0\r\na=sctp-port:5000\r\na=max-message-size:262144\r\n"

// refEncrypt builds a ciphertext in the documented peer encryption format
// (msgNonce[:4] + aes256(msgPubKey) + xchacha20poly1305(compressed)) for an
// arbitrary one-time message key and arbitrary "compressed" bytes. It is what a
// remote peer that only knows the recipient's public key can send.
func refEncrypt(tPub ed25519.PublicKey, context string, msgSeed [32]byte, compressed []byte) ([]byte, error) {
	msgPriv := ed25519.NewKeyFromSeed(msgSeed[:])
	msgPub := msgPriv.Public().(ed25519.PublicKey)
	mk, err := ecdh.X25519().NewPrivateKey(extra25519.PrivateKeyToCurve25519(msgPriv)[:32])
	if err != nil {
		return nil, err
	}
	nh := blake3.NewDeriveKey("bifrost/peer encrypt curve25519 nonce " + context)
	_, _ = nh.Write(msgPub)
	hsh := nh.Sum(nil)
	nonce := hsh[:chacha20poly1305.NonceSizeX]
	xh := hsh[chacha20poly1305.NonceSizeX:]
	for i := range nonce {
		nonce[i] ^= xh[(i+2)%len(xh)]
	}
	tCurve, ok := extra25519.PublicKeyToCurve25519(tPub)
	if !ok {
		return nil, fmt.Errorf("low order target key")
	}
	tk, err := ecdh.X25519().NewPublicKey(tCurve[:])
	if err != nil {
		return nil, err
	}
	sh := blake3.NewDeriveKey("bifrost/peer encrypt curve25519 prefix " + context)
	_, _ = sh.Write(tPub)
	_, _ = sh.Write(nonce[:4])
	aesSeed := sh.Sum(nil)
	prefix := make([]byte, 36, 36+len(compressed)+32)
	copy(prefix[:4], nonce[:4])
	copy(prefix[4:], msgPub)
	blk, err := aes.NewCipher(aesSeed[:32])
	if err != nil {
		return nil, err
	}
	blk.Encrypt(prefix[4:], prefix[4:])
	shared, err := mk.ECDH(tk)
	if err != nil {
		return nil, err
	}
	aead, err := chacha20poly1305.NewX(shared)
	if err != nil {
		return nil, err
	}
	return aead.Seal(prefix, nonce, compressed, msgPub), nil
}

func mustMarshal(m interface{ MarshalVT() ([]byte, error) }) []byte {
	b, err := m.MarshalVT()
	if err != nil {
		panic(err)
	}
	return b
}

func buildTargets(r *vf.Run) []*target {
	rng := r.Rand("c40-seeds")
	pool := keys.Pool(rng, 4)
	rb := func(n int) []byte {
		b := make([]byte, n)
		for i := range b {
			b[i] = byte(rng.UintN(256))
		}
		return b
	}
	var targets []*target
	addSeeds := func(t *target, seeds ...[]byte) [][]byte {
		for i, s := range seeds {
			t.inputs = append(t.inputs, input{data: s, note: fmt.Sprint("seed ", i)})
		}
		return seeds
	}
	nMut := r.N(4000, 60000)
	addMutants := func(t *target, seeds [][]byte, n int) {
		mrng := r.Rand("c40-mut-" + t.name)
		for i := 0; i < n; i++ {
			si := mrng.IntN(len(seeds))
			t.inputs = append(t.inputs, input{data: mutate(mrng, seeds, si, t.limit), note: fmt.Sprintf("mutant %d of seed %d", i, si)})
		}
	}

	// ---- T1 stream establish header reader
	{
		limit := int(tc.VerifStreamEstablishMaxPacketSize())
		t := &target{name: "stream-header", limit: limit, cmul: defaultCMul, prep: func(in []byte) func() (bool, bool) {
			sr := &g4pipe.ScriptReader{Data: in}
			return func() (bool, bool) {
				est, err := tc.VerifReadStreamEstablishHeader(sr)
				return err == nil, err == nil && est == nil
			}
		}}
		var seeds [][]byte
		for _, id := range []string{"a", "bifrost/echo", "bifrost/solicit", string(rb(300)), string(make([]byte, 20000))} {
			h := tc.VerifMarshalStreamEstablishHeader(tc.NewStreamEstablish(protocol.ID(id)))
			seeds = append(seeds, h, append(append([]byte(nil), h...), rb(9)...))
		}
		addSeeds(t, seeds...)
		for _, L := range append(hostileLens(limit), 1<<62, 1<<63, 1<<64-1) {
			for _, tail := range [][]byte{nil, {0x0a}, {0x0a, 0x01, 'a'}, rb(40)} {
				t.inputs = append(t.inputs, input{data: append(uvarint(L), tail...), hostile: true, class: "uvarint-length-prefix", note: fmt.Sprintf("uvarint prefix %d + %d bytes", L, len(tail)), declared: L})
			}
		}
		// hostile inner field length inside an honest frame
		for _, in := range pbHostile(limit, 2) {
			in.data = append(uvarint(uint64(len(in.data))), in.data...)
			t.inputs = append(t.inputs, in)
		}
		addMutants(t, seeds[:8], nMut)
		targets = append(targets, t)
	}

	// ---- T2 PacketConn rx pump
	for _, max := range []int{1500, 65535} {
		max := max
		t := &target{name: fmt.Sprintf("packetconn-%d", max), limit: max, cmul: defaultCMul, ownGoroutine: true, prep: func(in []byte) func() (bool, bool) {
			ea, eb := g4pipe.New()
			ea.Out.Inject(in)
			ea.Out.CloseWrite()
			buf := make([]byte, max)
			return func() (bool, bool) {
				ctx, cancel := context.WithCancel(context.Background())
				defer cancel()
				pc := rwc.NewPacketConn(ctx, eb, addr("b"), addr("a"), uint32(max), 4)
				acc := false
				for i := 0; i < 256; i++ {
					_, _, err := pc.ReadFrom(buf)
					if err != nil && err != io.ErrShortBuffer {
						break
					}
					acc = true
				}
				return acc, false
			}
		}}
		seeds := [][]byte{frameLE(rb(1)), frameLE(rb(12), rb(max)), frameLE(rb(max-1), rb(2), rb(700)), frameLE(rb(100), rb(100), rb(100), rb(100), rb(100))}
		addSeeds(t, seeds...)
		t.inputs = append(t.inputs, leHostile(max)...)
		addMutants(t, seeds, r.N(600, 6000))
		targets = append(targets, t)
	}

	// ---- T3 Session.RecvMsg framing (raw message)
	{
		t := sessionTarget("session-raw-16384", 16384, func() protobuf_go_lite.Message { return &rawMsg{} }, nil)
		seeds := [][]byte{frameLE(rb(1)), frameLE(rb(12), rb(16384)), frameLE(nil, rb(3)), frameLE(rb(16383), rb(2), rb(700))}
		addSeeds(t, seeds...)
		t.inputs = append(t.inputs, leHostile(16384)...)
		addMutants(t, seeds, nMut/2)
		targets = append(targets, t)
	}

	// ---- T4 floodsub: framing reader with floodsub's limit + Packet decode + publish verification
	{
		const fsLimit = 2000000 // floodsub.maxMessageSize
		handle := func(m protobuf_go_lite.Message) {
			pkt := m.(*floodsub.Packet)
			for _, sub := range pkt.GetSubscriptions() {
				_ = sub.GetChannelId()
			}
			for _, pub := range pkt.GetPublish() {
				_, _, _, _ = pubmessage.ExtractAndVerify(pub)
			}
		}
		var msgs [][]byte
		for i, ch := range []string{"c", "channel/with/longer/name", string(rb(64))} {
			sm, _, err := pubmessage.NewPubMessage(ch, pool[i%len(pool)].Priv, hash.HashType_HashType_SHA256, rb(1+i*200))
			if err != nil {
				panic(err)
			}
			sm2, _, _ := pubmessage.NewPubMessage(ch, pool[(i+1)%len(pool)].Priv, hash.HashType_HashType_BLAKE3, rb(3000))
			msgs = append(msgs,
				mustMarshal(&floodsub.Packet{Subscriptions: []*floodsub.SubscriptionOpts{{Subscribe: true, ChannelId: ch}, {ChannelId: "x"}}}),
				mustMarshal(&floodsub.Packet{Publish: []*peer.SignedMsg{sm}}),
				mustMarshal(&floodsub.Packet{Subscriptions: []*floodsub.SubscriptionOpts{{Subscribe: true, ChannelId: ch}}, Publish: []*peer.SignedMsg{sm, sm2}}))
		}
		// message level
		tm := &target{name: "floodsub-packet", limit: 0, cmul: defaultCMul, prep: func(in []byte) func() (bool, bool) {
			return func() (bool, bool) {
				pkt := &floodsub.Packet{}
				if err := pkt.UnmarshalVT(in); err != nil {
					return false, false
				}
				handle(pkt)
				return true, false
			}
		}}
		addSeeds(tm, msgs...)
		tm.inputs = append(tm.inputs, pbHostile(fsLimit, 3)...)
		tm.inputs = append(tm.inputs, pbHostile(fsLimit, 3, 1)...)
		tm.inputs = append(tm.inputs, pbHostile(fsLimit, 3, 2)...)
		tm.inputs = append(tm.inputs, pbHostile(fsLimit, 3, 2, 2)...)
		addMutants(tm, msgs, nMut)
		targets = append(targets, tm)
		// framed
		tf := sessionTarget("floodsub-session", fsLimit, func() protobuf_go_lite.Message { return &floodsub.Packet{} }, handle)
		var fseeds [][]byte
		for i := range msgs {
			fseeds = append(fseeds, frameLE(msgs[i]), frameLE(msgs[i], msgs[(i+1)%len(msgs)]))
		}
		addSeeds(tf, fseeds...)
		tf.inputs = append(tf.inputs, leHostile(fsLimit)...)
		addMutants(tf, fseeds, nMut/2)
		targets = append(targets, tf)
	}

	// ---- T5 solicit exchange
	{
		const solLimit = 256 * 32 * 2 // link/solicit/controller.maxMessageSize
		var msgs [][]byte
		for _, n := range []int{0, 1, 3, 256} {
			ex := &link_solicit.SolicitationExchange{}
			for i := 0; i < n; i++ {
				ex.ProtocolHashes = append(ex.ProtocolHashes, rb(32))
			}
			msgs = append(msgs, mustMarshal(ex))
		}
		msgs = append(msgs, mustMarshal(&link_solicit.SolicitProtocolRequest{ProtocolId: "proto/1", Context: rb(20), PeerId: pool[0].ID.String(), TransportId: 77}))
		// what the receiving control loop does with a decoded exchange: the hash
		// list goes into FindMatchingHashes against the local (sorted, 32-byte) hash
		// set; a remote peer chooses the number, lengths and order of the hashes.
		solSid := link_solicit.ComputeSessionID(pool[0].ID, pool[1].ID)
		solLocal := link_solicit.ComputeProtocolHashes(solSid, []link_solicit.SolicitEntry{{ProtocolID: "proto/1", Context: []byte("a")}, {ProtocolID: "proto/2"}, {ProtocolID: "proto/1", Context: []byte("b")}})
		// valid encodings whose hashes are NOT 32 bytes long / not sorted / repeated
		for _, lens := range [][]int{{0}, {1}, {8}, {31}, {33}, {64}, {32, 31}, {31, 32}, {0, 0, 0}, {32, 33, 32}, {255}, {1000}} {
			var hs [][]byte
			for i, l := range lens {
				h := rb(l)
				if i%2 == 0 { // related to a local hash: its prefix / an extension of it
					copy(h, solLocal[i%len(solLocal)])
				}
				hs = append(hs, h)
			}
			msgs = append(msgs, g10sol.ExchangeBody(hs))
		}
		msgs = append(msgs, g10sol.ExchangeBody([][]byte{solLocal[2], solLocal[0], solLocal[0], solLocal[1][:31]}))
		msgs = append(msgs, g10sol.ExchangeBody(make([][]byte, 5000)))
		tm := &target{name: "solicit-exchange", cmul: defaultCMul, prep: func(in []byte) func() (bool, bool) {
			return func() (bool, bool) {
				ex := &link_solicit.SolicitationExchange{}
				e1 := ex.UnmarshalVT(in)
				if e1 == nil {
					hs := ex.GetProtocolHashes()
					for _, h := range hs {
						_ = len(h)
					}
					_ = link_solicit.FindMatchingHashes(solLocal, hs)
					_ = link_solicit.FindMatchingHashes(hs, solLocal)
					_ = link_solicit.FindMatchingHashes(hs, hs)
					_ = link_solicit.FindMatchingHashes(nil, hs)
					if len(hs) > 256 {
						hs = hs[:256]
					}
					sorted := append([][]byte(nil), hs...)
					link_solicit.SortHashes(sorted)
					_ = link_solicit.FindMatchingHashes(solLocal, sorted)
					// remote bytes as hash inputs (session id / protocol id / context)
					var ents []link_solicit.SolicitEntry
					for i, h := range hs {
						if i < 16 {
							ents = append(ents, link_solicit.SolicitEntry{ProtocolID: protocol.ID(h), Context: h})
						}
					}
					if len(hs) > 0 {
						_ = link_solicit.ComputeProtocolHashes(hs[0], ents)
					}
				}
				rq := &link_solicit.SolicitProtocolRequest{}
				e2 := rq.UnmarshalVT(in)
				if e2 == nil {
					h := link_solicit.ComputeProtocolHash([]byte(rq.GetPeerId()), protocol.ID(rq.GetProtocolId()), rq.GetContext())
					_ = link_solicit.FindMatchingHashes(solLocal, [][]byte{h, rq.GetContext()})
					_ = link_solicit.ComputeSessionID(peer.ID(rq.GetPeerId()), peer.ID(rq.GetContext()))
				}
				return e1 == nil || e2 == nil, false
			}
		}}
		addSeeds(tm, msgs...)
		tm.inputs = append(tm.inputs, pbHostile(solLimit, 4)...)
		addMutants(tm, msgs, nMut)
		targets = append(targets, tm)
		tf := sessionTarget("solicit-session", solLimit, func() protobuf_go_lite.Message { return &link_solicit.SolicitationExchange{} }, nil)
		fseeds := [][]byte{frameLE(msgs[0]), frameLE(msgs[1], msgs[2]), frameLE(msgs[3]), frameLE(msgs[2], msgs[0], msgs[1])}
		addSeeds(tf, fseeds...)
		tf.inputs = append(tf.inputs, leHostile(solLimit)...)
		addMutants(tf, fseeds, nMut/2)
		targets = append(targets, tf)
	}

	// ---- T6 signaling requests / responses
	{
		var msgs [][]byte
		sm, err := signaling_rpc.NewSessionMsg(pool[0].Priv, hash.HashType_HashType_SHA256, rb(200), 3)
		if err != nil {
			panic(err)
		}
		sm2, _ := signaling_rpc.NewSessionMsg(pool[1].Priv, hash.HashType_HashType_BLAKE3, rb(2000), 1<<40)
		msgs = append(msgs,
			mustMarshal(&signaling_rpc.SessionRequest{Body: &signaling_rpc.SessionRequest_Init{Init: &signaling_rpc.SessionInit{PeerId: pool[1].ID.String()}}}),
			mustMarshal(&signaling_rpc.SessionRequest{SessionSeqno: 5, Body: &signaling_rpc.SessionRequest_SendMsg{SendMsg: sm}}),
			mustMarshal(&signaling_rpc.SessionRequest{SessionSeqno: 5, Body: &signaling_rpc.SessionRequest_SendMsg{SendMsg: sm2}}),
			mustMarshal(&signaling_rpc.SessionRequest{SessionSeqno: 1, Body: &signaling_rpc.SessionRequest_ClearMsg{ClearMsg: 9}}),
			mustMarshal(&signaling_rpc.SessionRequest{SessionSeqno: 1, Body: &signaling_rpc.SessionRequest_AckMsg{AckMsg: 1 << 63}}),
			mustMarshal(&signaling_rpc.SessionResponse{Body: &signaling_rpc.SessionResponse_Opened{Opened: 2}}),
			mustMarshal(&signaling_rpc.SessionResponse{Body: &signaling_rpc.SessionResponse_Closed{Closed: true}}),
			mustMarshal(&signaling_rpc.SessionResponse{Body: &signaling_rpc.SessionResponse_RecvMsg{RecvMsg: sm}}),
			mustMarshal(&signaling_rpc.SessionResponse{Body: &signaling_rpc.SessionResponse_ClearMsg{ClearMsg: 4}}),
			mustMarshal(&signaling_rpc.SessionResponse{Body: &signaling_rpc.SessionResponse_AckMsg{AckMsg: 4}}),
			mustMarshal(&signaling_rpc.ListenResponse{Body: &signaling_rpc.ListenResponse_SetPeer{SetPeer: pool[2].ID.String()}}),
		)
		t := &target{name: "signaling-session-msgs", cmul: defaultCMul, prep: func(in []byte) func() (bool, bool) {
			return func() (bool, bool) {
				acc := false
				rq := &signaling_rpc.SessionRequest{}
				if rq.UnmarshalVT(in) == nil && rq.Validate() == nil {
					acc = true
				}
				rs := &signaling_rpc.SessionResponse{}
				if rs.UnmarshalVT(in) == nil && rs.Validate() == nil {
					acc = true
				}
				lr := &signaling_rpc.ListenResponse{}
				if lr.UnmarshalVT(in) == nil {
					_, _ = peer.IDB58Decode(lr.GetSetPeer())
					_, _ = peer.IDB58Decode(lr.GetClearPeer())
				}
				return acc, false
			}
		}}
		addSeeds(t, msgs...)
		t.inputs = append(t.inputs, pbHostile(1<<20, 5)...)
		t.inputs = append(t.inputs, pbHostile(1<<20, 3, 3)...)
		t.inputs = append(t.inputs, pbHostile(1<<20, 3, 1, 3)...)
		t.inputs = append(t.inputs, pbHostile(1<<20, 3, 2, 1, 3)...)
		addMutants(t, msgs, nMut)
		targets = append(targets, t)
	}

	// ---- T7 WebRTC signals (encrypted to the recipient)
	{
		rcpt := pool[3]
		std, err := crypto.PubKeyToStdKey(rcpt.Pub)
		if err != nil {
			panic(err)
		}
		rcptStd := std.(ed25519.PublicKey)
		var plains [][]byte
		plains = append(plains,
			mustMarshal(&webrtc.WebRtcSignal{Body: &webrtc.WebRtcSignal_RequestOffer{RequestOffer: 4}}),
			mustMarshal(&webrtc.WebRtcSignal{Body: &webrtc.WebRtcSignal_Sdp{Sdp: &webrtc.WebRtcSdp{TxSeqno: 2, SdpType: "offer", Sdp: sdpOffer}}}),
			mustMarshal(&webrtc.WebRtcSignal{Body: &webrtc.WebRtcSignal_Sdp{Sdp: &webrtc.WebRtcSdp{TxSeqno: 3, SdpType: "answer", Sdp: sdpOffer}}}),
			mustMarshal(&webrtc.WebRtcSignal{Body: &webrtc.WebRtcSignal_Ice{Ice: &webrtc.WebRtcIce{Candidate: `{"candidate":"candidate:1 1 udp 2122260223 192.168.1.2 56143 typ host","sdpMid":"0","sdpMLineIndex":0,"usernameFragment":"abcd"}`}}}),
		)
		decode := func(ct []byte) (bool, bool) {
			sig, err := webrtc.DecodeWebRtcSignal(ct, rcpt.Priv)
			if err != nil {
				return false, false
			}
			if sig == nil {
				return false, true
			}
			return sig.Validate() == nil, false
		}
		t := &target{name: "webrtc-signal", cmul: defaultCMul, prep: func(in []byte) func() (bool, bool) {
			return func() (bool, bool) { return decode(in) }
		}}
		var cts [][]byte
		for _, p := range plains {
			ct, err := webrtc.EncodeWebRtcSignal(mustUnmarshalSignal(p), rcpt.Pub)
			if err != nil {
				panic(err)
			}
			cts = append(cts, ct)
		}
		addSeeds(t, cts...)
		addMutants(t, cts, nMut/4) // ciphertext-level (mostly stops at the AEAD)
		// plaintext-level: what a peer that knows the recipient's public key can make it decrypt
		mrng := r.Rand("c40-webrtc-plain")
		for i := 0; i < nMut/2; i++ {
			p := mutate(mrng, plains, mrng.IntN(len(plains)), 1<<20)
			ct, err := peer.EncryptToPubKey(rcpt.Pub, webrtc.SignalingCryptContext, p)
			if err != nil {
				continue
			}
			t.inputs = append(t.inputs, input{data: ct, note: fmt.Sprintf("encrypted mutated plaintext %d (%d bytes)", i, len(p))})
		}
		for _, in := range pbHostile(1<<20, 3) {
			ct, err := peer.EncryptToPubKey(rcpt.Pub, webrtc.SignalingCryptContext, in.data)
			if err == nil {
				t.inputs = append(t.inputs, input{data: ct, hostile: true, class: "encrypted-pb-field-length", note: "encrypted " + in.note, declared: in.declared})
			}
		}
		for _, in := range pbHostile(1<<20, 3, 2) {
			ct, err := peer.EncryptToPubKey(rcpt.Pub, webrtc.SignalingCryptContext, in.data)
			if err == nil {
				t.inputs = append(t.inputs, input{data: ct, hostile: true, class: "encrypted-pb-field-length", note: "encrypted " + in.note, declared: in.declared})
			}
		}
		// hostile declared length of the compressed payload inside a well-formed ciphertext
		for _, L := range hostileLens(1 << 20) {
			if L > 1<<32-1 {
				continue
			}
			for k, tail := range [][]byte{nil, {0}, {0x04, 'a'}} {
				var seed [32]byte
				copy(seed[:], rb(32))
				ct, err := refEncrypt(rcptStd, webrtc.SignalingCryptContext, seed, append(uvarint(L), tail...))
				if err != nil {
					panic(err)
				}
				t.inputs = append(t.inputs, input{data: ct, hostile: true, class: "compressed-declared-length", note: fmt.Sprintf("well-formed ciphertext whose compressed payload declares %d decompressed bytes (tail %d)", L, k), declared: L})
			}
		}
		targets = append(targets, t)
	}

	// ---- T8 signed messages
	{
		const ctx = "verif c40 signed msg"
		var msgs [][]byte
		for i, n := range []int{1, 100, 5000} {
			sm, err := peer.NewSignedMsg(ctx, pool[i].Priv, []hash.HashType{hash.HashType_HashType_SHA256, hash.HashType_HashType_BLAKE3, hash.HashType_HashType_SHA1}[i], rb(n))
			if err != nil {
				panic(err)
			}
			msgs = append(msgs, mustMarshal(sm))
		}
		t := &target{name: "signed-msg", cmul: defaultCMul, prep: func(in []byte) func() (bool, bool) {
			return func() (bool, bool) {
				m, err := peer.UnmarshalSignedMsg(in)
				if err != nil {
					return false, false
				}
				if m == nil {
					return false, true
				}
				_, _, err = m.ExtractAndVerify(ctx)
				_ = m.ComputeMessageID()
				return err == nil, false
			}
		}}
		addSeeds(t, msgs...)
		t.inputs = append(t.inputs, pbHostile(1<<20, 3)...)
		t.inputs = append(t.inputs, pbHostile(1<<20, 3, 2)...)
		addMutants(t, msgs, nMut)
		targets = append(targets, t)
	}

	// ---- T9 envelopes
	{
		const ctx = "verif c40 envelope"
		privs := []crypto.PrivKey{pool[0].Priv, pool[1].Priv}
		pubs := []crypto.PubKey{pool[0].Pub, pool[1].Pub, pool[2].Pub}
		var msgs [][]byte
		var envs []*envelope.Envelope
		cfgs := []*envelope.EnvelopeConfig{
			{GrantConfigs: []*envelope.EnvelopeGrantConfig{{KeypairIndexes: []uint32{0}}}},
			{Threshold: 1, GrantConfigs: []*envelope.EnvelopeGrantConfig{{KeypairIndexes: []uint32{0}}, {KeypairIndexes: []uint32{1, 2}}}},
			{Threshold: 2, GrantConfigs: []*envelope.EnvelopeGrantConfig{{ShareCount: 2, KeypairIndexes: []uint32{0, 1}}, {ShareCount: 1, KeypairIndexes: []uint32{2}}, {ShareCount: 1, KeypairIndexes: []uint32{1}}}},
		}
		for i, cfg := range cfgs {
			env, err := envelope.BuildEnvelope(vf.Reader{R: rng}, ctx, rb(10+i*500), pubs, cfg)
			if err != nil {
				panic(err)
			}
			envs = append(envs, env)
			msgs = append(msgs, mustMarshal(env))
		}
		t := &target{name: "envelope", cmul: 2048, prep: func(in []byte) func() (bool, bool) {
			return func() (bool, bool) {
				env := &envelope.Envelope{}
				if err := env.UnmarshalVT(in); err != nil {
					return false, false
				}
				payload, res, err := envelope.UnlockEnvelope(ctx, env, privs)
				return err == nil && (payload != nil || res != nil), err == nil && payload == nil && res == nil
			}
		}}
		addSeeds(t, msgs...)
		// structural mutations on the decoded form
		srng := r.Rand("c40-envelope-struct")
		for i := 0; i < r.N(300, 3000); i++ {
			env := envs[srng.IntN(len(envs))].CloneVT()
			switch srng.IntN(7) {
			case 0:
				env.Threshold = []uint32{1<<32 - 1, 1<<31 - 1, 1 << 31, 3, 1000}[srng.IntN(5)]
			case 1:
				g := env.Grants[srng.IntN(len(env.Grants))]
				g.KeypairIndexes[srng.IntN(len(g.KeypairIndexes))] = []uint32{1<<32 - 1, 1 << 31, 3, 100}[srng.IntN(4)]
			case 2:
				g := env.Grants[srng.IntN(len(env.Grants))]
				g.Ciphertexts = g.Ciphertexts[:srng.IntN(len(g.Ciphertexts))]
			case 3:
				g := env.Grants[srng.IntN(len(env.Grants))]
				c := g.Ciphertexts[srng.IntN(len(g.Ciphertexts))]
				g.Ciphertexts[0] = c[:srng.IntN(len(c))]
			case 4:
				env.Ciphertext = env.Ciphertext[:srng.IntN(len(env.Ciphertext))]
			case 5:
				env.Grants = append(env.Grants, env.Grants...)
				env.Threshold = uint32(srng.IntN(4))
			case 6:
				env.Keypairs = env.Keypairs[:srng.IntN(len(env.Keypairs))]
			}
			t.inputs = append(t.inputs, input{data: mustMarshal(env), note: fmt.Sprint("structural mutant ", i)})
		}
		// a grant ciphertext that is well-formed for recipient 0 but whose compressed
		// payload declares a hostile decompressed length (the envelope author knows
		// the recipients' public keys and the context)
		{
			std0, err := crypto.PubKeyToStdKey(pool[0].Pub)
			if err != nil {
				panic(err)
			}
			for _, L := range hostileLens(1 << 20) {
				if L > 1<<32-1 {
					continue
				}
				env := envs[0].CloneVT()
				// documented grant context: base + "grant_enc " + len:id + " " + len:context + " " + index
				gctx := "envelope 2026-02-08T00:00:00Z envelope crypto ctx v1." + "grant_enc " + fmt.Sprintf("%d:%s %d:%s %d", len(env.GetEnvelopeId()), env.GetEnvelopeId(), len(ctx), ctx, 0)
				var seed [32]byte
				copy(seed[:], rb(32))
				ct, err := refEncrypt(std0.(ed25519.PublicKey), gctx, seed, append(uvarint(L), 0))
				if err != nil {
					panic(err)
				}
				env.Grants[0].Ciphertexts[0] = ct
				t.inputs = append(t.inputs, input{data: mustMarshal(env), hostile: true, class: "compressed-declared-length", note: fmt.Sprintf("envelope whose grant ciphertext declares %d decompressed bytes", L), declared: L})
			}
		}
		t.inputs = append(t.inputs, pbHostile(1<<20, 7)...)
		t.inputs = append(t.inputs, pbHostile(1<<20, 3, 5)...)
		t.inputs = append(t.inputs, pbHostile(1<<20, 3, 6)...)
		addMutants(t, msgs, nMut/2)
		// attacker-made, structurally valid envelopes (g3env/crafted.go): grants that
		// DO decrypt for recipient 0 / 1 and carry crafted share lists (duplicate,
		// equivalent-encoding, zero, oversized ids, thousands of shares, wrong
		// lengths ...) under every threshold, so that the code BEHIND the
		// authenticated decryption (share decoding, de-duplication, interpolation)
		// is reached. Byte-level mutants never get there. (Appended last: phase A measures
		// the first inputs of a target one at a time, these run in phase B.)
		{
			crng := r.Rand("c40-envelope-crafted")
			// sanity (against vacuity): a crafted grant with ordinary shares is decrypted
			{
				in := &envelope.EnvelopeGrantInner{Shares: []*envelope.EnvelopeShare{{Id: g3env.SmallID(7), Value: g3env.SmallID(9)}}}
				env, err := g3env.CraftEnvelope(envs[0], ctx, pubs, 0, [][]byte{mustMarshal(in)}, "only", 5)
				if err != nil {
					panic(err)
				}
				var res *envelope.EnvelopeUnlockResult
				pk, pd := vf.Try(func() { _, res, err = envelope.UnlockEnvelope(ctx, env, privs) })
				if pk || err != nil || len(res.GetUnlockedGrantIndexes()) != 1 || res.GetSharesAvailable() != 1 {
					r.Inconclusive(fmt.Sprintf("envelope target: an attacker-made grant is not decrypted by UnlockEnvelope (panic=%v %s err=%v result=%v): the harness' replica of the grant encryption context is out of date, crafted envelopes would test nothing", pk, pd, err, res))
				}
			}
			// how many of the candidate encodings does circl itself map to one scalar
			{
				gr := group.Ristretto255
				ref := gr.NewScalar()
				same := 0
				if ref.UnmarshalBinary(g3env.SmallID(33)) == nil {
					for _, e := range g3env.EquivalentIDs(33) {
						sc := gr.NewScalar()
						if sc.UnmarshalBinary(e) == nil && sc.IsEqual(ref) {
							same++
						}
					}
				}
				r.Extra("envelope_crafted_encodings_of_one_share_id", same)
			}
			nCraft := r.N(40, 300) // per kind
			thresholds := []uint32{0, 1, 1, 2, 2, 3, 4, 7, 15, 100, 1<<31 - 1, 1<<32 - 1}
			for _, kind := range g3env.CraftKinds {
				big := kind == "many-shares" || strings.HasPrefix(kind, "thousands-")
				n := nCraft
				if big {
					n = nCraft / 5
				}
				for i := 0; i < n; i++ {
					inners, err := g3env.CraftInners(crng, kind, 2)
					if err != nil {
						r.Count("envelope_crafted_not_marshallable", 1)
						continue
					}
					slot := crng.IntN(2)
					if crng.IntN(12) == 0 {
						slot = 2 // encrypted to the recipient whose private key is not offered
					}
					layout := g3env.CraftLayouts[crng.IntN(len(g3env.CraftLayouts))]
					thr := thresholds[crng.IntN(len(thresholds))]
					env, err := g3env.CraftEnvelope(envs[crng.IntN(len(envs))], ctx, pubs, slot, inners, layout, thr)
					if err != nil {
						panic(err)
					}
					t.inputs = append(t.inputs, input{data: mustMarshal(env), note: fmt.Sprintf("attacker-made envelope: shares=%s layout=%s threshold=%d grant encrypted to keypair %d", kind, layout, thr, slot)})
					r.Count("envelope_crafted_inputs", 1)
					r.Distinct("envelope_crafted_kinds", kind+"/"+layout)
				}
			}
		}
		targets = append(targets, t)
	}

	// ---- T10 peer ids
	{
		var seeds [][]byte
		for _, id := range pool {
			seeds = append(seeds, []byte(id.ID), []byte(id.ID.String()))
		}
		t := &target{name: "peer-id", cmul: defaultCMul, prep: func(in []byte) func() (bool, bool) {
			return func() (bool, bool) {
				acc, nn := false, false
				use := func(id peer.ID, err error) {
					if err != nil {
						return
					}
					acc = true
					if id == "" {
						nn = true
					}
					_ = id.Validate()
					_ = id.String()
					if pk, err := id.ExtractPublicKey(); err == nil {
						if pk == nil {
							nn = true
						} else {
							_ = id.MatchesPublicKey(pk)
							_, _ = pk.Verify([]byte("m"), make([]byte, 64))
						}
					}
				}
				use(peer.IDFromBytes(in))
				use(peer.IDB58Decode(string(in)))
				return acc, nn
			}
		}}
		addSeeds(t, seeds...)
		for _, L := range hostileLens(1 << 16) {
			for _, code := range []uint64{0, 0x12, 1<<63 - 1} {
				t.inputs = append(t.inputs, input{data: append(append(uvarint(code), uvarint(L)...), 8, 1, 0x12), hostile: true, class: "multihash-digest-length", note: fmt.Sprintf("multihash code %d digest length %d", code, L), declared: L})
			}
		}
		for _, in := range pbHostile(1<<16, 2) { // identity multihash around a hostile key protobuf
			t.inputs = append(t.inputs, input{data: append(append(uvarint(0), uvarint(uint64(len(in.data)))...), in.data...), hostile: true, class: "multihash-pb-field-length", note: "identity multihash of " + in.note, declared: in.declared})
		}
		addMutants(t, seeds, nMut)
		targets = append(targets, t)
	}

	// ---- T11 keys
	{
		var seeds [][]byte
		for _, id := range pool[:2] {
			pb, err := crypto.MarshalPublicKey(id.Pub)
			if err != nil {
				panic(err)
			}
			sb, err := crypto.MarshalPrivateKey(id.Priv)
			if err != nil {
				panic(err)
			}
			seeds = append(seeds, pb, sb)
			// the 96 byte legacy private key form
			raw, _ := id.Priv.Raw()
			praw, _ := id.Pub.Raw()
			seeds = append(seeds, mustMarshal(&crypto.PrivateKey{KeyType: crypto.KeyType_Ed25519, Data: append(append([]byte(nil), raw...), praw...)}))
		}
		t := &target{name: "keys", cmul: defaultCMul, prep: func(in []byte) func() (bool, bool) {
			return func() (bool, bool) {
				acc, nn := false, false
				if pk, err := crypto.UnmarshalPublicKey(in); err == nil {
					acc = true
					if pk == nil {
						nn = true
					} else {
						_, _ = pk.Verify([]byte("m"), make([]byte, 64))
						_, _ = pk.Raw()
						_, _ = peer.IDFromPublicKey(pk)
					}
				}
				if sk, err := crypto.UnmarshalPrivateKey(in); err == nil {
					acc = true
					if sk == nil {
						nn = true
					} else {
						_, _ = sk.Sign([]byte("m"))
						if p := sk.GetPublic(); p != nil {
							_, _ = p.Raw()
						}
					}
				}
				return acc, nn
			}
		}}
		addSeeds(t, seeds...)
		t.inputs = append(t.inputs, pbHostile(1<<16, 2)...)
		addMutants(t, seeds, nMut)
		targets = append(targets, t)
	}
	return targets
}

type addr string

func (a addr) Network() string { return "verif" }
func (a addr) String() string  { return string(a) }

func mustUnmarshalSignal(b []byte) *webrtc.WebRtcSignal {
	s := &webrtc.WebRtcSignal{}
	if err := s.UnmarshalVT(b); err != nil {
		panic(err)
	}
	return s
}

func fnv(b []byte) uint64 {
	var h uint64 = 1469598103934665603
	for _, x := range b {
		h = (h ^ uint64(x)) * 1099511628211
	}
	return h
}

// knownOnly reports whether the target's allocation violations are confined to
// the hand-crafted compressed-length class (phase B inputs cannot reach it: a
// mutant cannot forge the AEAD), so running phase B stays cheap.
var allocClasses = map[string]map[string]bool{}

func knownOnly(r *vf.Run, tg *target) bool {
	m := allocClasses[tg.name]
	if len(m) == 0 {
		return false
	}
	for c := range m {
		if c != "compressed-declared-length" {
			return false
		}
	}
	return true
}

type stats struct {
	mu       sync.Mutex
	execs    int
	accepted int
	maxAlloc uint64
	measured int
}

func TestCheck(t *testing.T) {
	r := vf.Start(t, "C40", vf.Exploration)
	defer r.Finish()
	r.SetRule("per decoder: seeds = valid encodings from the matching real encoder; inputs = seeds + hostile length prefixes (limit+1, 16 MiB, 100 MB, 2^30, 2^31-1, 2^31, 2^32-1, as uvarint / LE32 / protobuf field length / compressed-payload length, with almost no data behind them) + seeded structured mutants (1-3 of: bit flip, interesting byte, truncate, delete, duplicate, insert, hostile varint, hostile LE32, splice, random tail); for encrypted targets also mutated plaintexts encrypted to the recipient; for envelopes additionally attacker-made, structurally VALID envelopes: grants that decrypt for an offered key (anyone can encrypt to a public key under the public grant context) carrying crafted share lists - exact and equivalent-encoding duplicates of one share id (n, n+L, ignored top bits: 16 encodings of one scalar; first / late / paired / spread over two grants), zero ids and their equivalents, oversized and wrong-length ids and values, all-ones, thousands of duplicate or distinct shares, equal / non-canonical values - x layouts {only, appended, prepended, replacing the first grant} x thresholds {0..7, 15, 100, 2^31-1, 2^32-1}, so that share decoding, de-duplication and interpolation behind the authenticated decryption are reached (the run is inconclusive if a crafted grant with ordinary shares is not decrypted). " +
		"The solicitation exchange target also runs what the receiving control loop does with a decoded exchange (FindMatchingHashes against a local sorted 32-byte hash set in both argument orders, SortHashes, ComputeProtocolHash(es) / ComputeSessionID over the received bytes); its seeds include valid encodings whose hashes have 0/1/8/31/33/64/255/1000 bytes, prefixes / extensions of a local hash, unsorted and repeated hashes, 5000 empty hashes. LIVE target solicit-live (last): a real link/solicit controller on a controller bus with 0, 1 or 3 local solicitations and a harness link whose remote peer is the harness, in both roles (local peer id lower = it opens the control stream; higher = the harness opens it and dispatches it through the bus); after the controller's own exchange was received, ONE hostile input is written on the live control stream: one hash of 0..16000 bytes (random / prefix or extension of an advertised hash; alone, before, after the echoed advertised hashes), a 65536 byte hash, 257..8000 empty / one-byte hashes, 470 random hashes around the advertised ones (unsorted, sorted, descending), duplicates, frames of limit, limit+1, limit+2, limit+4, 2^16, 2^20 bytes sent completely, hostile LE32 lengths with 0-3 bytes behind them (peer stays / closes), truncated frames, protobuf fields with hostile lengths, garbage bodies, 1 / 3000 empty frames, 400 alternating frames, seeded mutants of valid frames; the case is journaled first; the harness waits until the controller consumed the input or closed the stream and all goroutines are parked (allocation-free goroutine-state polling); allocation oracle = process-wide TotalAlloc delta of the whole reaction <= messages-in-input * 16384 + c*len + 256 KiB; what the controller does otherwise (closes the stream / ignores the message / still serves a follow-up exchange) is recorded, not judged. " +
		"Oracle: no panic (recovered in-goroutine; decoders that run code on their own goroutine are journaled per input so the runner attributes a crash); no (nil, nil) result; allocation: TotalAlloc delta of one decode on a locked goroutine with GC paused <= configured limit + c*len(input) + 256 KiB (c=256; envelope 2048). Non-trivial = decoder returned (value or error); distinct = distinct (target, input bytes).")
	tBuild := time.Now()
	targets := buildTargets(r)
	r.Extra("info_build_inputs_s", time.Since(tBuild).Seconds())
	st := map[string]*stats{}
	for _, tg := range targets {
		st[tg.name] = &stats{}
	}

	// record one execution (panic / nil-nil verdicts, accounting)
	record := func(tg *target, i int, pk bool, pd string, acc, nn bool) {
		in := tg.inputs[i]
		s := st[tg.name]
		s.mu.Lock()
		s.execs++
		if acc {
			s.accepted++
		}
		s.mu.Unlock()
		sig := fmt.Sprintf("%s|%d|%x", tg.name, len(in.data), fnv(in.data))
		if pk {
			r.Violation(tg.name+"/panic", "decoder panicked: "+pd, map[string]any{"target": tg.name, "input": fmt.Sprintf("%x", in.data[:min(len(in.data), 4096)]), "input_len": len(in.data), "note": in.note, "index": i})
			r.Case(sig, false)
			return
		}
		if nn {
			r.Violation(tg.name+"/nil-nil", "decoder returned neither a value nor an error", map[string]any{"target": tg.name, "input": fmt.Sprintf("%x", in.data[:min(len(in.data), 4096)]), "note": in.note, "index": i})
		}
		r.Case(sig, true)
	}

	// ---- phase A (first, while nothing else runs): allocation bound, one decode
	// at a time: every hostile-length input (ascending declared length) + seeds +
	// a slice of the mutants.
	tA := time.Now()
	measuredSet := map[*target]map[int]bool{}
	allocFlagged := map[*target]bool{} // targets with an allocation violation are not run unmeasured in phase B (GiB-sized requests in parallel)
	func() {
		runtime.LockOSThread()
		defer runtime.UnlockOSThread()
		runtime.GC()
		old := debug.SetGCPercent(-1)
		defer debug.SetGCPercent(old)
		var m0, m1 runtime.MemStats
		var sinceGC uint64
		nMeasure := r.N(700, 4000)
		for _, tg := range targets {
			var idx []int
			for i, in := range tg.inputs {
				if in.hostile {
					idx = append(idx, i)
				}
			}
			sort.SliceStable(idx, func(a, b int) bool { return tg.inputs[idx[a]].declared < tg.inputs[idx[b]].declared })
			cnt := 0
			for i, in := range tg.inputs {
				if !in.hostile && cnt < nMeasure {
					idx = append(idx, i)
					cnt++
				}
			}
			measuredSet[tg] = map[int]bool{}
			flagged := map[string]bool{} // hostile classes already flagged: do not escalate to GiB-sized requests
			mutantViol := 0
			s := st[tg.name]
			r.Begin(fmt.Sprintf("phase A (measured) target %s: %d inputs", tg.name, len(idx)))
			for _, i := range idx {
				in := tg.inputs[i]
				measuredSet[tg][i] = true
				if in.hostile && flagged[in.class] && in.declared > 100_000_000 {
					r.Count("skipped_escalation_after_flag/"+tg.name, 1)
					continue
				}
				if !in.hostile && mutantViol >= 3 {
					// the target already over-allocates on mutants: more of them only burn memory
					r.Count("skipped_after_mutant_alloc_violations/"+tg.name, 1)
					delete(measuredSet[tg], i)
					continue
				}
				if tg.ownGoroutine {
					r.Begin(fmt.Sprintf("phase A target %s input %d (%s): %x", tg.name, i, in.note, in.data[:min(len(in.data), 4096)]))
				}
				run := tg.prep(in.data)
				var acc, nn bool
				runtime.ReadMemStats(&m0)
				pk, pd := vf.Try(func() { acc, nn = run() })
				runtime.ReadMemStats(&m1)
				record(tg, i, pk, pd, acc, nn)
				if pk {
					continue
				}
				d := m1.TotalAlloc - m0.TotalAlloc
				s.measured++
				if d > s.maxAlloc {
					s.maxAlloc = d
				}
				if b := tg.bound(len(in.data)); d > b {
					cls := "mutant"
					if in.hostile {
						cls = in.class
						flagged[in.class] = true
					} else {
						mutantViol++
					}
					allocFlagged[tg] = true
					if allocClasses[tg.name] == nil {
						allocClasses[tg.name] = map[string]bool{}
					}
					allocClasses[tg.name][cls] = true
					r.Violation(tg.name+"/alloc/"+cls, fmt.Sprintf("one decode of a %d byte input allocated %d bytes (bound %d = limit %d + %d*len + %d)", len(in.data), d, b, tg.limit, tg.cmul, slack),
						map[string]any{"target": tg.name, "input": fmt.Sprintf("%x", in.data[:min(len(in.data), 2048)]), "input_len": len(in.data), "note": in.note, "allocated": d, "bound": b, "declared_length": in.declared, "index": i})
				}
				sinceGC += d
				if sinceGC > 256<<20 {
					debug.SetGCPercent(old)
					runtime.GC()
					debug.SetGCPercent(-1)
					sinceGC = 0
				}
			}
		}
	}()
	r.Extra("info_phaseA_measured_s", time.Since(tA).Seconds())

	// ---- phase B: all remaining inputs, for panics and nil-nil (parallel;
	// own-goroutine targets serial + journaled)
	runOne := func(tg *target, i int) {
		run := tg.prep(tg.inputs[i].data)
		var acc, nn bool
		pk, pd := vf.Try(func() { acc, nn = run() })
		record(tg, i, pk, pd, acc, nn)
	}
	type job struct {
		tg *target
		i  int
	}
	tB := time.Now()
	var wg sync.WaitGroup
	ch := make(chan job, 256)
	for w := 0; w < 14; w++ {
		wg.Add(1)
		go func() {
			defer wg.Done()
			for j := range ch {
				runOne(j.tg, j.i)
			}
		}()
	}
	for _, tg := range targets {
		if tg.ownGoroutine {
			continue
		}
		if allocFlagged[tg] && !knownOnly(r, tg) {
			r.Count("phaseB_skipped_targets_after_alloc_violation", 1)
			continue
		}
		r.Begin(fmt.Sprintf("phase B target %s: %d inputs (deterministic per seed; index = position)", tg.name, len(tg.inputs)))
		for i := range tg.inputs {
			if !measuredSet[tg][i] {
				ch <- job{tg, i}
			}
		}
	}
	close(ch)
	wg.Wait()
	for _, tg := range targets {
		if !tg.ownGoroutine || allocFlagged[tg] {
			continue
		}
		for i := range tg.inputs {
			if measuredSet[tg][i] {
				continue
			}
			r.Begin(fmt.Sprintf("phase B target %s input %d (%s): %x", tg.name, i, tg.inputs[i].note, tg.inputs[i].data[:min(len(tg.inputs[i].data), 4096)]))
			runOne(tg, i)
		}
	}
	r.Extra("info_phaseB_s", time.Since(tB).Seconds())

	// ---- live target: hostile bytes on the live solicitation control stream of a
	// real controller (last: a panic there is process-fatal)
	tL := time.Now()
	solicitLivePart(r)
	r.Extra("info_solicit_live_s", time.Since(tL).Seconds())

	per := map[string]any{}
	for _, tg := range targets {
		s := st[tg.name]
		per[tg.name] = map[string]any{"inputs": len(tg.inputs), "execs": s.execs, "accepted": s.accepted, "alloc_measured": s.measured, "max_alloc_one_decode": s.maxAlloc, "limit": tg.limit, "c": tg.cmul}
		r.Count("execs/"+tg.name, s.execs)
		r.Count("accepted/"+tg.name, s.accepted)
		r.Count("alloc_measured/"+tg.name, s.measured)
		if s.accepted == 0 {
			r.Inconclusive("target " + tg.name + ": no input was accepted by the decoder (seeds broken?)")
		}
	}
	r.Extra("targets", per)
	r.Sample(map[string]any{"target": targets[0].name, "input": fmt.Sprintf("%x", targets[0].inputs[0].data), "note": targets[0].inputs[0].note})
	for _, tg := range targets {
		for _, in := range tg.inputs {
			if in.hostile {
				r.Sample(map[string]any{"target": tg.name, "input": fmt.Sprintf("%x", in.data[:min(len(in.data), 64)]), "note": in.note})
				break
			}
		}
	}
}
