package c40

// Native fuzz targets (extras; TestCheck is the check). Run e.g.
//
//	go test -tags verif -run '^$' -fuzz FuzzStreamHeader -fuzztime 30s ./checks/c40
//
// Each target only asserts "no panic" (the fuzzer reports panics itself).

import (
	"testing"

	"github.com/aperturerobotics/bifrost/crypto"
	"github.com/aperturerobotics/bifrost/envelope"
	"github.com/aperturerobotics/bifrost/peer"
	"github.com/aperturerobotics/bifrost/pubsub/floodsub"
	"github.com/aperturerobotics/bifrost/pubsub/util/pubmessage"
	signaling_rpc "github.com/aperturerobotics/bifrost/signaling/rpc"
	stream_packet "github.com/aperturerobotics/bifrost/stream/packet"
	tc "github.com/aperturerobotics/bifrost/transport/controller"
	"verifharness/g4pipe"
)

func FuzzStreamHeader(f *testing.F) {
	f.Add(tc.VerifMarshalStreamEstablishHeader(tc.NewStreamEstablish("bifrost/echo")))
	f.Add([]byte{0xff, 0xff, 0xff, 0xff, 0x07, 0x0a})
	f.Fuzz(func(t *testing.T, in []byte) {
		_, _ = tc.VerifReadStreamEstablishHeader(&g4pipe.ScriptReader{Data: in, Chunk: g4pipe.OneByte})
		_, _ = tc.VerifReadStreamEstablishHeader(&g4pipe.ScriptReader{Data: in})
	})
}

func FuzzSessionRecv(f *testing.F) {
	f.Add(frameLE([]byte{0x0a, 0x01, 'x'}))
	f.Add([]byte{0xff, 0xff, 0xff, 0x7f, 1})
	f.Fuzz(func(t *testing.T, in []byte) {
		s := stream_packet.NewSession(nopRWC{&g4pipe.ScriptReader{Data: in}}, 16384)
		for i := 0; i < 16; i++ {
			pkt := &floodsub.Packet{}
			if err := s.RecvMsg(pkt); err != nil {
				return
			}
			for _, pub := range pkt.GetPublish() {
				_, _, _, _ = pubmessage.ExtractAndVerify(pub)
			}
		}
	})
}

func FuzzSignedMsg(f *testing.F) {
	f.Add([]byte{0x0a, 0x01, 'x', 0x12, 0x02, 0x10, 0x01, 0x1a, 0x01, 'd'})
	f.Fuzz(func(t *testing.T, in []byte) {
		if m, err := peer.UnmarshalSignedMsg(in); err == nil && m != nil {
			_, _, _ = m.ExtractAndVerify("fuzz")
		}
		rq := &signaling_rpc.SessionRequest{}
		if rq.UnmarshalVT(in) == nil {
			_ = rq.Validate()
		}
		rs := &signaling_rpc.SessionResponse{}
		if rs.UnmarshalVT(in) == nil {
			_ = rs.Validate()
		}
	})
}

func FuzzPeerIDAndKeys(f *testing.F) {
	f.Add([]byte{0x00, 0x24, 0x08, 0x01, 0x12, 0x20})
	f.Fuzz(func(t *testing.T, in []byte) {
		if id, err := peer.IDFromBytes(in); err == nil {
			_, _ = id.ExtractPublicKey()
		}
		if id, err := peer.IDB58Decode(string(in)); err == nil {
			_, _ = id.ExtractPublicKey()
		}
		_, _ = crypto.UnmarshalPublicKey(in)
		_, _ = crypto.UnmarshalPrivateKey(in)
	})
}

func FuzzEnvelope(f *testing.F) {
	f.Add([]byte{0x0a, 0x01, 'e', 0x2a, 0x02, 0x08, 0x00})
	f.Fuzz(func(t *testing.T, in []byte) {
		env := &envelope.Envelope{}
		if env.UnmarshalVT(in) == nil {
			_, _, _ = envelope.UnlockEnvelope("fuzz", env, nil)
		}
	})
}
