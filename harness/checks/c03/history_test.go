package c03

// History-dependent cases: the verdict on a chain / a handshake must not depend
// on what the same process verified earlier. Every forged chain here re-uses,
// byte for byte, public material of an HONEST chain (its key extension, its
// whole certificate) that the verifier is shown before, after and in between;
// and overlapping / consecutive dial requests for one address with different
// required peers must each be judged on their own.

import (
	"context"
	"crypto/x509"
	"crypto/x509/pkix"
	"encoding/asn1"
	"fmt"
	"math/rand/v2"
	"strings"
	"time"

	p2ptls "github.com/aperturerobotics/bifrost/crypto/tls"
	"github.com/aperturerobotics/bifrost/link"
	"github.com/aperturerobotics/bifrost/peer"
	"verifharness/g5net"
	"verifharness/keys"
	"verifharness/vf"
)

// forged chains derived from an honest chain H (identity K) by an impersonator O
var replayVariants = []string{
	"replay-ext-in-own-key-cert",             // byte copy of H's key extension in a self-signed cert with O's own TLS key
	"replay-ext-in-own-key-cert-flag-toggled", // same, critical flag of the extension toggled
	"replay-ext-in-ca-signed-cert",           // byte copy of H's extension, cert issued by another key
	"replay-ext-sig-with-other-embedded-key", // H's binding signature, embedded identity key replaced by O's
	"replay-cert-key-other-binding",          // H's TLS key (same SPKI) but the binding is signed by O while embedding K
	"replay-cert-twice",                      // [H, H]
	"replay-cert-then-own",                   // [H, O's well-formed cert]
	"replay-own-then-cert",                   // [O's well-formed cert, H]
}

// buildReplay derives a forged chain from the honest chain h. imp = index of the impersonator's identity.
func buildReplay(variant string, h *builtChain, pool []*keys.Identity, imp int, ckKind string, rng *rand.Rand) *builtChain {
	O := pool[imp]
	ck := newCertKey(ckKind, rng)
	pub := ck.priv.Public()
	now := time.Now()
	nb, na := now.Add(-time.Hour), now.Add(24*time.Hour)
	b := &builtChain{Spec: chainSpec{Variant: variant, K: h.Spec.K, Other: imp, CertKey: ckKind, Critical: h.Spec.Critical}, Class: mustReject}
	ext := func(v []byte) []pkix.Extension {
		return []pkix.Extension{{Id: keyExtOID, Critical: b.Spec.Critical, Value: v}}
	}
	self := func(exts []pkix.Extension) []byte {
		t := tmpl(rng, "", nb, na, exts)
		return mustCreate(t, t, pub, ck.priv)
	}
	ownValid := func() []byte { return self(ext(refBinding(O, O, bindPrefix, pub))) }
	leaf := ck.priv
	switch variant {
	case "replay-ext-in-own-key-cert":
		b.Raw, b.Why = [][]byte{self(ext(h.extValue))}, "byte copy of the honest peer's key extension inside a self-signed certificate with the impersonator's own TLS key"
	case "replay-ext-in-own-key-cert-flag-toggled":
		b.Spec.Critical = !h.Spec.Critical
		b.Raw, b.Why = [][]byte{self(ext(h.extValue))}, "byte copy of the honest peer's key extension (critical flag toggled) inside a self-signed certificate with the impersonator's own TLS key"
	case "replay-ext-in-ca-signed-cert":
		caKey := newCertKey(ckKind, rng)
		ca := tmpl(rng, "ca", nb, na, nil)
		ca.IsCA, ca.BasicConstraintsValid, ca.KeyUsage = true, true, x509.KeyUsageCertSign
		t := tmpl(rng, "leaf", nb, na, ext(h.extValue))
		b.Raw, b.Why = [][]byte{mustCreate(t, ca, pub, caKey.priv)}, "byte copy of the honest peer's key extension in a certificate issued by another key"
	case "replay-ext-sig-with-other-embedded-key":
		var sk signedKeyRef
		if _, err := asn1.Unmarshal(h.extValue, &sk); err != nil {
			panic(err)
		}
		sk.PubKey = pbPubKey(O)
		v, err := asn1.Marshal(sk)
		if err != nil {
			panic(err)
		}
		b.Raw, b.Why = [][]byte{self(ext(v))}, "the honest peer's binding signature with the embedded identity key replaced by the impersonator's, own TLS key"
	case "replay-cert-key-other-binding":
		if h.certPriv == nil {
			return buildReplay("replay-ext-in-own-key-cert", h, pool, imp, ckKind, rng)
		}
		hp := h.certPriv.Public()
		t := tmpl(rng, "", nb, na, ext(refBinding(O, pool[h.Spec.K], bindPrefix, hp)))
		b.Raw, b.Why = [][]byte{mustCreate(t, t, hp, h.certPriv)}, "certificate over the honest chain's TLS key whose binding embeds K but was signed by the impersonator"
		leaf = h.certPriv
	case "replay-cert-twice":
		b.Raw, b.Why, leaf = [][]byte{h.Raw[0], h.Raw[0]}, "the honest certificate twice", nil
	case "replay-cert-then-own":
		b.Raw, b.Why, leaf = [][]byte{h.Raw[0], ownValid()}, "the honest certificate followed by the impersonator's well-formed certificate", nil
	case "replay-own-then-cert":
		b.Raw, b.Why = [][]byte{ownValid(), h.Raw[0]}, "the impersonator's well-formed certificate followed by the honest certificate"
	default:
		panic("unknown replay variant " + variant)
	}
	if leaf != nil {
		b.TLS = tlsCert(b.Raw, leaf)
	}
	return b
}

// chainHistories: PRNG histories over families {honest chain H, forged chains
// derived from H}; per family the order is forged* H forged+ [H forged*], the
// families of one history are interleaved; the same identity may own several
// families. Every step goes through both entry points under all three
// expected-peer constraints; the oracle is the stateless one of evalChain.
func chainHistories(r *vf.Run, pool []*keys.Identity, verifiers []*p2ptls.Identity, n int) {
	rng := r.Rand("c03-chain-histories")
	certKeys := []string{"p256", "ed25519", "p384"}
	type step struct {
		b   *builtChain
		fam int
		pos string
	}
	for h := 0; h < n; h++ {
		nf := 1 + rng.IntN(3)
		lists := make([][]step, nf)
		for f := 0; f < nf; f++ {
			k := 1 + rng.IntN(3)
			hv := []string{"valid", "valid-pkg-extension", "valid-critical"}[rng.IntN(3)]
			H := build(chainSpec{Variant: hv, K: k, Other: 1 + k%3, CertKey: certKeys[rng.IntN(3)], Critical: hv == "valid-critical"}, pool, rng)
			var made []*builtChain
			forged := func() *builtChain {
				if len(made) > 0 && rng.IntN(3) == 0 {
					return made[rng.IntN(len(made))] // the very same forged chain once more
				}
				imp := 1 + (k+rng.IntN(2))%3
				if imp == k {
					imp = 1 + k%3
				}
				v := replayVariants[rng.IntN(len(replayVariants))]
				if rng.IntN(2) == 0 {
					v = replayVariants[rng.IntN(2)] // weight on the plain lifted extension
				}
				b := buildReplay(v, H, pool, imp, certKeys[rng.IntN(3)], rng)
				made = append(made, b)
				return b
			}
			var l []step
			for i := rng.IntN(3); i > 0; i-- {
				l = append(l, step{forged(), f, "forged-before-honest-verified"})
			}
			l = append(l, step{H, f, "honest-first"})
			for i := 1 + rng.IntN(3); i > 0; i-- {
				l = append(l, step{forged(), f, "forged-after-honest-verified"})
			}
			if rng.IntN(2) == 0 {
				l = append(l, step{H, f, "honest-again"})
				for i := rng.IntN(2); i > 0; i-- {
					l = append(l, step{forged(), f, "forged-after-honest-verified"})
				}
			}
			lists[f] = l
		}
		// random interleaving that keeps each family's own order
		var seq []step
		for {
			var open []int
			for f := range lists {
				if len(lists[f]) > 0 {
					open = append(open, f)
				}
			}
			if len(open) == 0 {
				break
			}
			f := open[rng.IntN(len(open))]
			seq = append(seq, lists[f][0])
			lists[f] = lists[f][1:]
		}
		var order, steps []string
		ver := verifiers[rng.IntN(len(verifiers))]
		for _, st := range seq {
			if rng.IntN(5) == 0 {
				ver = verifiers[rng.IntN(len(verifiers))] // mostly the same verifier identity, sometimes another one of the process
			}
			tag := "F"
			if st.b.Class == mustAccept {
				tag = "H"
			}
			order = append(order, fmt.Sprintf("%s%d", tag, st.fam))
			steps = append(steps, fmt.Sprintf("family %d (identity %d): %s [%s]", st.fam, st.b.Spec.K, st.b.Spec.Variant, st.pos))
			hc := &histCtx{pos: st.pos, steps: steps}
			// no constraint, the right peer, another peer, and two of the other well-formed id shapes
			eks := append([]string(nil), expKinds[:3]...)
			eks = append(eks, expKinds[3+rng.IntN(len(expKinds)-3)], expKinds[3+rng.IntN(len(expKinds)-3)])
			for _, ek := range eks {
				evalChain(r, st.b, pool, ver, ek, hc)
			}
			r.Count("history_steps_"+st.pos, 1)
		}
		r.Distinct("chain_histories", strings.Join(order, " "))
		if h < 2 {
			r.Sample(map[string]any{"chain_history": steps})
		}
	}
}

// ---------------------------------------------------------------- transport histories

// liftedFrom builds the impersonator's chain from the certificate a running
// honest transport presents: its key extension (public: any peer that ever
// talked to it has seen it) is copied byte for byte into a self-signed
// certificate over the impersonator's own TLS key.
func liftedFrom(victim *g5net.Remote, victimIdx, imp int, pool []*keys.Identity, ckKind string, toggle bool, rng *rand.Rand) *builtChain {
	conf, _ := victim.Tpt.GetIdentity().ConfigForPeer("")
	if len(conf.Certificates) == 0 || len(conf.Certificates[0].Certificate) == 0 {
		panic("harness: honest identity without certificate")
	}
	c, err := x509.ParseCertificate(conf.Certificates[0].Certificate[0])
	if err != nil {
		panic(err)
	}
	for _, e := range c.Extensions {
		if e.Id.Equal(keyExtOID) {
			h := &builtChain{Spec: chainSpec{K: victimIdx, Critical: e.Critical}, extValue: e.Value, Raw: [][]byte{c.Raw}}
			v := "replay-ext-in-own-key-cert"
			if toggle {
				v = "replay-ext-in-own-key-cert-flag-toggled"
			}
			return buildReplay(v, h, pool, imp, ckKind, rng)
		}
	}
	panic("harness: honest certificate without key extension")
}

// historyCase: one honest node L; victims X and Y are running honest nodes.
// Per victim V (own order kept, the two victims interleaved by PRNG):
// forged contact(s) before L ever verified V's chain, an honest session L<->V
// (V dials L, or L dials V), forged contacts afterwards (impersonator dials L;
// L dials an address answered by the impersonator, requiring V resp. nobody).
func historyCase(r *vf.Run, pool []*keys.Identity, round int) tcase {
	rng := r.Rand(fmt.Sprintf("c03-history-%d", round))
	type hs struct {
		kind   string // imp-in | imp-out | imp-out-any | honest-in | honest-out
		v      int    // victim identity index (1 = X, 2 = Y)
		ck     string
		toggle bool
	}
	forgedKinds := []string{"imp-in", "imp-out", "imp-out-any"}
	cks := []string{"p256", "ed25519", "p384"}
	lists := map[int][]hs{}
	for _, v := range []int{1, 2} {
		var l []hs
		for i := rng.IntN(2); i > 0; i-- {
			l = append(l, hs{forgedKinds[rng.IntN(3)], v, cks[rng.IntN(3)], rng.IntN(4) == 0})
		}
		l = append(l, hs{[]string{"honest-in", "honest-out"}[rng.IntN(2)], v, "", false})
		after := []string{"imp-in", "imp-out"}
		if rng.IntN(2) == 0 {
			after = append(after, "imp-out-any")
		}
		rng.Shuffle(len(after), func(i, j int) { after[i], after[j] = after[j], after[i] })
		for _, k := range after {
			l = append(l, hs{k, v, cks[rng.IntN(3)], rng.IntN(4) == 0})
		}
		lists[v] = l
	}
	var seq []hs
	for len(lists[1])+len(lists[2]) > 0 {
		v := 1 + rng.IntN(2)
		if len(lists[v]) == 0 {
			v = 3 - v
		}
		seq = append(seq, lists[v][0])
		lists[v] = lists[v][1:]
	}
	var names []string
	for _, s := range seq {
		names = append(names, fmt.Sprintf("%s:%s", s.kind, "?XY"[s.v:s.v+1]))
	}
	return tcase{fmt.Sprintf("history/%s/%d", strings.Join(names, ","), round), func(e *tenv) bool {
		L := e.honest("L-home", pool[0])
		V := map[int]*g5net.Remote{1: e.honest("X-home", pool[1]), 2: e.honest("Y-home", pool[2])}
		vhome := map[int]string{1: "X-home", 2: "Y-home"}
		verified := map[int]bool{}
		ok := true
		for i, s := range seq {
			imp := 3 - s.v // the other victim's identity is the impersonator's own (valid) identity
			when := "before"
			if verified[s.v] {
				when = "after"
			}
			switch s.kind {
			case "honest-in":
				dctx, cancel := context.WithTimeout(e.ctx, watchdog)
				e.logf("step %d: honest %s dials L", i, vhome[s.v])
				lnk, _, err := e.dialFrom(V[s.v], dctx, pool[0].ID, "L-home")
				cancel()
				e.r.Count("handshakes_honest", 1)
				if err != nil {
					e.r.Violation("handshake:honest-pair-failed", "an honest peer could not establish a link with honest L: "+err.Error(), e.witness(nil))
					ok = false
					continue
				}
				if lnk.GetRemotePeer() != pool[0].ID {
					e.r.Violation("link:names-wrong-peer:history", "the honest peer's link to L names "+lnk.GetRemotePeer().String(), e.witness(nil))
				}
				if !waitFor(func() bool { _, ok := linkFrom(L.Rec, vhome[s.v]); return ok }) {
					e.r.Inconclusive(e.name + ": L never reported the link from the honest peer")
					ok = false
					continue
				}
				verified[s.v] = true
			case "honest-out":
				svc := fmt.Sprintf("S%d", i)
				e.n.Serve(svc, V[s.v].EP)
				e.mu.Lock()
				e.truth[svc] = pool[s.v].ID
				e.mu.Unlock()
				dctx, cancel := context.WithTimeout(e.ctx, watchdog)
				e.logf("step %d: L dials honest %s at %s requiring it", i, vhome[s.v], svc)
				lnk, _, err := e.dialFrom(L, dctx, pool[s.v].ID, svc)
				cancel()
				e.r.Count("handshakes_honest", 1)
				if err != nil {
					e.r.Violation("required-peer:DialPeer-refused-the-required-peer", "DialPeer(V) failed although honest V answered: "+err.Error(), e.witness(nil))
					ok = false
					continue
				}
				if lnk.GetRemotePeer() != pool[s.v].ID {
					e.r.Violation("link:names-wrong-peer:history", "L's link to the honest peer names "+lnk.GetRemotePeer().String(), e.witness(nil))
				}
				verified[s.v] = true
			case "imp-in":
				b := liftedFrom(V[s.v], s.v, imp, pool, s.ck, s.toggle, rng)
				e.logf("step %d: impersonator of %s contacts L %s L verified the honest chain", i, vhome[s.v], when)
				if !e.inbound(L, fmt.Sprintf("H%d-home", i), b, pool) {
					ok = false
				}
				e.r.Count("history_forged_handshakes_"+when+"_honest_session", 1)
			case "imp-out", "imp-out-any":
				b := liftedFrom(V[s.v], s.v, imp, pool, s.ck, s.toggle, rng)
				req := pool[s.v].ID
				if s.kind == "imp-out-any" {
					req = ""
				}
				e.logf("step %d: L dials an address answered by an impersonator of %s %s L verified the honest chain", i, vhome[s.v], when)
				if !e.outboundAt(L, b, pool, fmt.Sprintf("A%d", i), fmt.Sprintf("H%d-home", i), req) {
					ok = false
				}
				e.r.Count("history_forged_handshakes_"+when+"_honest_session", 1)
			}
		}
		return ok
	}}
}

// ---------------------------------------------------------------- overlapping dial requests

// dialEnd abstracts the dialing honest node of an overlap case (datagram or stream transport).
type dialEnd struct {
	dial    func(ctx context.Context, p peer.ID, addr string) (link.Link, bool, error)
	hold    func(addr string)
	held    func(addr string) int64
	release func(addr string)
}

func (e *tenv) overlapSetup(tptKind string, who *keys.Identity) *dialEnd {
	const svc = "A"
	if tptKind == "conn" {
		sn := g5net.NewStreamNet()
		le := g5net.QuietLogger()
		L, err1 := g5net.StartStreamDialer(e.ctx, le, sn, "L-home", e.pool[0])
		R, err2 := g5net.StartStreamRemote(e.ctx, le, "R-home", who)
		if err1 != nil || err2 != nil {
			panic(fmt.Sprint(err1, err2))
		}
		e.mu.Lock()
		e.recs["L-home"], e.recs["R-home"] = L.Rec, R.Rec
		e.truth["L-home"], e.truth[svc] = e.pool[0].ID, who.ID
		e.mu.Unlock()
		sn.Serve(svc, R)
		return &dialEnd{dial: e.notedDial("L-home", L.Rec, L.Tpt.DialPeer), hold: sn.Hold, held: sn.Held, release: sn.Release}
	}
	L := e.honest("L-home", e.pool[0])
	R := e.honest("R-home", who)
	e.n.Serve(svc, R.EP)
	e.mu.Lock()
	e.truth[svc] = who.ID
	e.mu.Unlock()
	return &dialEnd{dial: e.notedDial("L-home", L.Rec, L.Tpt.DialPeer), hold: e.n.Hold, held: e.n.Held, release: e.n.Release}
}

// overlapCases: two DialPeer requests for the same address with required peers
// (p1, p2), every ordered pair over {"", X, Y}, the address served by X resp. Y.
// overlap: the first dial is held in flight (its datagrams / its connection
// attempt are kept back by the harness' network) until the second request has
// returned or is parked behind the in-flight dialer (goroutine state), then the
// network is released. sequential: the second request is made after the first
// returned. Oracle per request: success => the link names the identity serving
// the address, and that identity is the one the request required (if any).
func overlapCases(pool []*keys.Identity, round int, tptKinds []string, flavours []string) []tcase {
	var out []tcase
	ids := map[string]peer.ID{"any": "", "X": pool[1].ID, "Y": pool[2].ID}
	for _, tk := range tptKinds {
		for _, fl := range flavours {
			for _, who := range []string{"X", "Y"} {
				for _, p1 := range []string{"any", "X", "Y"} {
					for _, p2 := range []string{"any", "X", "Y"} {
						tk, fl, who, p1, p2 := tk, fl, who, p1, p2
						name := fmt.Sprintf("%s-dials/%s/%s-then-%s/%s-serves/%d", fl, tk, p1, p2, who, round)
						out = append(out, tcase{name, func(e *tenv) bool {
							const svc = "A"
							whoID := pool[1]
							if who == "Y" {
								whoID = pool[2]
							}
							d := e.overlapSetup(tk, whoID)
							type res struct {
								lnk link.Link
								err error
							}
							call := func(req string, p peer.ID) chan res {
								ch := make(chan res, 1)
								g5net.WithReqLabel(e.lctx, req, func(ctx context.Context) {
									go func() {
										dctx, cancel := context.WithTimeout(e.ctx, watchdog)
										defer cancel()
										lnk, _, err := d.dial(dctx, p, svc)
										if dctx.Err() != nil && err != nil {
											err = errWatchdog
										}
										ch <- res{lnk, err}
									}()
								})
								return ch
							}
							judge := func(n int, req string, rs res) {
								e.r.Count("overlap_dial_results", 1)
								if rs.err != nil {
									e.logf("request %d DialPeer(%s, A) failed: %v", n, req, rs.err)
									e.r.Count("overlap_dial_refused", 1)
									return
								}
								if rs.lnk == nil {
									// DialPeer's contract: nil link + nil error = "already linked with the requested peer at this address"
									e.logf("request %d DialPeer(%s, A) reported success without a link (already connected)", n, req)
									e.r.Count("overlap_dial_already_connected", 1)
									if req != "any" && ids[req] != whoID.ID {
										e.r.Violation("required-peer:DialPeer-reports-connected-with-other-peer:"+fl+"-dials",
											fmt.Sprintf("DialPeer required peer %s at A, which is served by (and linked with) %s, and reported success", req, who), e.witness(nil))
									}
									return
								}
								got := rs.lnk.GetRemotePeer()
								e.logf("request %d DialPeer(%s, A) succeeded: link names %s", n, req, got.String())
								e.r.Count("overlap_dial_succeeded", 1)
								switch {
								case got != whoID.ID:
									e.r.Violation("link:names-wrong-peer:"+fl+"-dials", fmt.Sprintf("DialPeer(%s, A) returned a link naming %s but A is served by %s (%s)", req, got.String(), who, whoID.ID.String()), e.witness(nil))
								case req != "any" && ids[req] != got:
									e.r.Violation("required-peer:DialPeer-succeeded-with-other-peer:"+fl+"-dials",
										fmt.Sprintf("DialPeer required peer %s at A, %s answered, and the dial still succeeded (second of two %s requests for the address: first required %q)", req, who, fl, p1), e.witness(nil))
								}
							}
							var c1, c2 chan res
							if fl == "overlapping" {
								d.hold(svc)
								e.logf("network holds traffic to A; request 1: DialPeer(%s, A)", p1)
								c1 = call("1", ids[p1])
								// in flight: traffic towards A is being held (the per-address dialer is registered before it sends anything)
								if !waitFor(func() bool { return d.held(svc) >= 1 }) {
									d.release(svc)
									e.r.Inconclusive(e.name + ": first dial never got in flight")
									return false
								}
								e.logf("request 1 is in flight; request 2: DialPeer(%s, A)", p2)
								c2 = call("2", ids[p2])
								var early *res
								var lastLook time.Time
								if !waitFor(func() bool {
									select {
									case v := <-c2:
										early = &v
										return true
									default:
									}
									// goroutine profiles stop the world: look at most every 30 ms
									if time.Since(lastLook) < 30*time.Millisecond {
										return false
									}
									defer func() { lastLook = time.Now() }()
									return g5net.GoroutineCount(e.name, `"g5req":"2"`, "transport/common/quic.(*Transport).DialPeer", ".Await") >= 1
								}) {
									d.release(svc)
									e.r.Inconclusive(e.name + ": second request neither returned nor parked behind the in-flight dialer")
									return false
								}
								if early != nil {
									e.logf("request 2 returned while request 1 was still in flight")
									e.r.Count("overlap_second_returned_early", 1)
									c2 = make(chan res, 1)
									c2 <- *early
								} else {
									e.logf("request 2 is parked behind the in-flight dialer")
									e.r.Count("overlap_second_parked_behind_inflight_dialer", 1)
								}
								e.logf("network releases traffic to A; %s answers", who)
								d.release(svc)
							} else {
								e.logf("request 1: DialPeer(%s, A)", p1)
								c1 = call("1", ids[p1])
							}
							var r1, r2 res
							if !waitFor(func() bool {
								select {
								case r1 = <-c1:
									return true
								default:
									return false
								}
							}) || r1.err == errWatchdog {
								e.r.Inconclusive(e.name + ": first request did not conclude")
								return false
							}
							judge(1, p1, r1)
							if fl != "overlapping" {
								e.logf("request 2: DialPeer(%s, A)", p2)
								c2 = call("2", ids[p2])
							}
							if !waitFor(func() bool {
								select {
								case r2 = <-c2:
									return true
								default:
									return false
								}
							}) || r2.err == errWatchdog {
								e.r.Inconclusive(e.name + ": second request did not conclude")
								return false
							}
							judge(2, p2, r2)
							return true
						}})
					}
				}
			}
		}
	}
	return out
}

var errWatchdog = fmt.Errorf("harness watchdog")

var _ = vf.Hex
