package c03

// "A handshake is refused when the caller required a specific remote peer and a
// different one answered" is judged at the transport HANDLER of the dialing
// node, not only at DialPeer's return value: every dial request an honest node
// makes is recorded with the handler's logical clock (number of callbacks seen
// so far); when the case is over and the dialing machinery has come to rest
// (goroutine state, no timing) every link that was reported established towards
// an address the node dialed must be permitted by a request made before the
// report - one without a peer constraint or one requiring exactly the peer the
// link names - or by a session the harness itself opened from that address. A
// refused dial leaves no established report behind, and it must not cost the
// node a legitimate link it already had with that address.

import (
	"bytes"
	"context"
	"fmt"
	"strings"
	"sync"
	"time"

	"github.com/aperturerobotics/bifrost/link"
	"github.com/aperturerobotics/bifrost/peer"
	"github.com/aperturerobotics/bifrost/transport/common/pconn"
	transport_quic "github.com/aperturerobotics/bifrost/transport/common/quic"
	"github.com/quic-go/quic-go"
	"verifharness/g5net"
	"verifharness/keys"
)

type dialReq struct {
	home, addr string
	required   peer.ID
	start      int // logical clock of the dialing node's handler when the request was made
	done       bool
	refused    bool
	err        string
}

type dialFn func(ctx context.Context, p peer.ID, addr string) (link.Link, bool, error)

// notedDial wraps a DialPeer so that every request is recorded.
func (e *tenv) notedDial(home string, rec *g5net.Recorder, dial dialFn) dialFn {
	return func(ctx context.Context, p peer.ID, addr string) (link.Link, bool, error) {
		q := &dialReq{home: home, addr: addr, required: p, start: rec.Len()}
		e.mu.Lock()
		e.reqs = append(e.reqs, q)
		e.mu.Unlock()
		lnk, fatal, err := dial(ctx, p, addr)
		e.mu.Lock()
		q.done, q.refused = true, err != nil
		if err != nil {
			q.err = err.Error()
		}
		e.mu.Unlock()
		e.r.Count("dial_requests_recorded", 1)
		return lnk, fatal, err
	}
}

// dialFrom: the honest node N calls DialPeer(req, addr); the request is recorded.
func (e *tenv) dialFrom(N *g5net.Remote, ctx context.Context, req peer.ID, addr string) (link.Link, bool, error) {
	return e.notedDial(N.EP.LocalAddr().String(), N.Rec, N.Tpt.DialPeer)(ctx, req, addr)
}

// noteInbound: the harness opens a session towards the node at home from the address from.
func (e *tenv) noteInbound(home, from string) {
	e.mu.Lock()
	if e.inboundNoted[home] == nil {
		e.inboundNoted[home] = map[string]int{}
	}
	e.inboundNoted[home][from]++
	e.mu.Unlock()
}

// frames of goroutines that are still working on a dial, on reporting its
// result to the handler, or on tearing a link down (closures of
// Recorder.HandleLinkEstablished - the stream pumps - live as long as their
// link and are not meant: "+0x" follows the method name itself only).
var busyFrames = []string{
	"transport/common/quic.(*Dialer).Execute",
	"transport/common/quic.(*Transport).HandleSession",
	"transport/common/quic.(*Transport).handleLinkLost",
	"transport/common/quic.(*Link).Close",
	"HandleLinkEstablished+0x",
	"HandleLinkLost+0x",
}

func (e *tenv) busy() int {
	_, mine := g5net.GoroutinesAll(e.name)
	n := 0
	for _, blk := range mine {
		for _, f := range busyFrames {
			if strings.Contains(blk, f) {
				n++
				break
			}
		}
	}
	return n
}

// settle: on two consecutive looks no goroutine of the case is inside the
// dialer / a handler callback / a link tear-down. The transport hands every
// report to the handler from a goroutine it starts before the dialer returns,
// so once this holds after a dial returned, its reports have been delivered.
func (e *tenv) settle() bool {
	quiet := 0
	var last time.Time
	return waitFor(func() bool {
		if time.Since(last) < 25*time.Millisecond { // goroutine profiles stop the world
			return false
		}
		defer func() { last = time.Now() }()
		if e.busy() == 0 {
			quiet++
		} else {
			quiet = 0
		}
		return quiet >= 2
	})
}

func evList(rec *g5net.Recorder) []string {
	evs, _ := rec.Events()
	out := make([]string, 0, len(evs))
	for i, ev := range evs {
		k := "lost"
		if ev.Established {
			k = "established"
		}
		out = append(out, fmt.Sprintf("clock %d: %s link with %s naming %s", i, k, remoteAddr(ev.Link), ev.Link.GetRemotePeer().String()))
	}
	return out
}

// judgeRefusals: see the comment at the top. Returns false when the machinery did not come to rest.
func (e *tenv) judgeRefusals() bool {
	e.mu.Lock()
	reqs := append([]*dialReq(nil), e.reqs...)
	anyRefused := false
	for _, q := range reqs {
		if q.refused {
			anyRefused = true
		}
	}
	e.mu.Unlock()
	if len(reqs) == 0 {
		return true
	}
	if anyRefused {
		if !e.settle() {
			e.r.Inconclusive(e.name + ": the dialing machinery did not come to rest after a refused dial")
			return false
		}
		e.r.Count("refused_dials_settled_before_judging", 1)
	}
	byHome := map[string][]*dialReq{}
	for _, q := range reqs {
		byHome[q.home] = append(byHome[q.home], q)
	}
	for home, qs := range byHome {
		e.mu.Lock()
		rec := e.recs[home]
		e.mu.Unlock()
		if rec == nil {
			continue
		}
		evs, _ := rec.Events()
		for i, ev := range evs {
			if !ev.Established {
				continue
			}
			ra, got := remoteAddr(ev.Link), ev.Link.GetRemotePeer()
			dialed, permitted := false, false
			var desc []string
			e.mu.Lock()
			for _, q := range qs {
				if q.addr != ra {
					continue
				}
				dialed = true
				desc = append(desc, fmt.Sprintf("clock %d: DialPeer(required %q, %s) -> refused=%v %s", q.start, q.required.String(), q.addr, q.refused, q.err))
				if q.start <= i && (q.required == "" || q.required == got) {
					permitted = true
				}
			}
			if e.inboundNoted[home][ra] > 0 {
				permitted = true
			}
			e.mu.Unlock()
			if !dialed {
				continue
			}
			e.r.Count("established_reports_at_dialed_addresses_judged", 1)
			if permitted {
				continue
			}
			e.r.Violation("required-peer:link-reported-established-although-every-request-required-another-peer:"+e.kind(),
				fmt.Sprintf("the transport at %s reported an established link with %s naming %s to its handler, but every dial request for that address made before the report required a different peer: the session with the peer that was not asked for was not refused before a link was built", home, ra, got.String()),
				e.witness(map[string]any{"dial_requests_for_the_address": desc, "handler_callbacks_at_the_dialing_node": evList(rec), "reported_at_clock": i}))
		}
	}
	return true
}

// cidFilter is a selective hold for the switch: of the datagrams L sends to the
// raw peer H it lets through those that belong to the session H opened (their
// destination connection id is a source connection id H used towards L) and
// keeps everything else - L's own dial - back.
type cidFilter struct {
	lHome, hHome g5net.Addr
	mu           sync.Mutex
	learned      [][]byte
}

func (f *cidFilter) keep(from, to g5net.Addr, d []byte) bool {
	long := len(d) >= 7 && d[0]&0x80 != 0
	if from == f.hHome && to == f.lHome {
		if long {
			dl := int(d[5])
			if 6+dl < len(d) {
				sl := int(d[6+dl])
				if sl > 0 && 7+dl+sl <= len(d) {
					f.mu.Lock()
					f.learned = append(f.learned, append([]byte(nil), d[7+dl:7+dl+sl]...))
					f.mu.Unlock()
				}
			}
		}
		return false
	}
	if from != f.lHome || to != f.hHome {
		return false
	}
	f.mu.Lock()
	defer f.mu.Unlock()
	for _, c := range f.learned {
		if long {
			dl := int(d[5])
			if 6+dl <= len(d) && bytes.Equal(d[6:6+dl], c) {
				return false
			}
		} else if len(d) > 1 && bytes.HasPrefix(d[1:], c) {
			return false
		}
	}
	return true
}

// simultaneousOpenCases: L's DialPeer(req, H) is kept in flight by the network
// while the peer at H (a raw quic endpoint holding Y's key and a well-formed
// certificate; it never closes anything on its own) opens a session to L, which
// L reports as a link with H naming Y. Then the network lets L's dial through
// and Y answers it. req = X: the dial must be refused, L's handler must have
// seen exactly the one link Y opened, and that link must still be L's link for
// the address, never reported lost. req = Y / none: the dial may succeed (the
// newer session replaces the older one; not judged beyond the naming rules).
// The idle time-out of both ends is 10 minutes here, far beyond the harness'
// watchdog: a link cannot go away for lack of traffic while the case runs.
func simultaneousOpenCases(pool []*keys.Identity, round int, mk func(v, ck string) *builtChain) []tcase {
	var out []tcase
	for _, req := range []string{"X", "Y", "any", "X"} {
		req := req
		ck := []string{"p256", "ed25519", "p384"}[(round+len(out))%3]
		b := mk("valid", ck) // identity 2 = Y
		name := fmt.Sprintf("simultaneous-open/%s-required/Y-opens-and-answers/%s/%d.%d", req, ck, round, len(out))
		out = append(out, tcase{name, func(e *tenv) bool {
			const lHome, hHome = "L-home", "H-home"
			Y := pool[b.Spec.K]
			ids := map[string]peer.ID{"any": "", "X": pool[1].ID, "Y": Y.ID}
			long := &transport_quic.Opts{MaxIdleTimeoutDur: "10m"}
			L, err := g5net.StartRemoteWithOpts(e.ctx, g5net.QuietLogger(), e.n, lHome, pool[0], &pconn.Opts{Quic: long})
			if err != nil {
				panic(err)
			}
			e.mu.Lock()
			e.recs[lHome], e.truth[lHome], e.truth[hHome] = L.Rec, pool[0].ID, Y.ID
			e.mu.Unlock()
			ep := e.n.NewEndpoint(hHome)
			qt := &quic.Transport{Conn: ep}
			defer qt.Close()
			qc := transport_quic.BuildQuicConfig(long)
			ln, err := qt.Listen(hostileTLS(b.TLS), qc)
			if err != nil {
				e.r.Inconclusive(e.name + ": raw listen: " + err.Error())
				return false
			}
			defer ln.Close()
			go func() {
				for {
					if _, err := ln.Accept(e.ctx); err != nil {
						return
					}
				}
			}()
			f := &cidFilter{lHome: lHome, hHome: hHome}
			e.n.SetFilter(f.keep)
			defer e.n.Release(hHome)
			defer e.n.SetFilter(nil)
			type res struct {
				lnk link.Link
				err error
			}
			c1 := make(chan res, 1)
			e.logf("the network keeps L's own dial traffic to %s back; L: DialPeer(%s, %s)", hHome, req, hHome)
			go func() {
				dctx, cancel := context.WithTimeout(e.ctx, watchdog)
				defer cancel()
				lnk, _, err := e.dialFrom(L, dctx, ids[req], hHome)
				if dctx.Err() != nil && err != nil {
					err = errWatchdog
				}
				c1 <- res{lnk, err}
			}()
			if !waitFor(func() bool { return e.n.Held(hHome) >= 1 }) {
				e.r.Inconclusive(e.name + ": L's dial never got in flight")
				return false
			}
			e.logf("L's dial is in flight; the peer at %s (key of Y, well-formed certificate) opens a session to L", hHome)
			e.noteInbound(lHome, hHome)
			dctx, cancel := context.WithTimeout(e.ctx, watchdog)
			defer cancel()
			sess, err := qt.Dial(dctx, g5net.Addr(lHome), hostileTLS(b.TLS), qc)
			if err != nil {
				e.r.Inconclusive(e.name + ": the raw peer could not open its session to L: " + err.Error())
				return false
			}
			defer sess.CloseWithError(0, "")
			var in link.Link
			if !waitFor(func() bool {
				evs, _ := L.Rec.Events()
				for _, ev := range evs {
					if ev.Established && remoteAddr(ev.Link) == hHome {
						in = ev.Link
						return true
					}
				}
				select {
				case <-c1: // cannot be: the dial's datagrams are held
					return true
				default:
					return false
				}
			}) || in == nil {
				e.r.Inconclusive(e.name + ": L never reported the link the raw peer opened")
				return false
			}
			e.logf("L reported the link opened by %s (names %s); the network lets L's dial through, Y answers", hHome, in.GetRemotePeer().String())
			e.n.SetFilter(nil)
			e.n.Release(hHome)
			var r1 res
			if !waitFor(func() bool {
				select {
				case r1 = <-c1:
					return true
				default:
					return false
				}
			}) || r1.err == errWatchdog {
				e.r.Inconclusive(e.name + ": L's dial did not conclude")
				return false
			}
			e.r.Count("simultaneous_open_dials_concluded", 1)
			if r1.err == nil {
				var got peer.ID
				if r1.lnk != nil {
					got = r1.lnk.GetRemotePeer()
				}
				e.logf("L's dial succeeded (link names %q)", got.String())
				e.r.Count("simultaneous_open_dials_succeeded", 1)
				if req == "X" {
					e.r.Violation("required-peer:DialPeer-succeeded-with-other-peer:simultaneous-open",
						"DialPeer required peer X, Y answered, and the dial still succeeded", e.witness(nil))
				} else if r1.lnk != nil && got != Y.ID {
					e.r.Violation("link:names-wrong-peer:simultaneous-open", "the dialed link names "+got.String()+" but the key held at the address is Y's", e.witness(nil))
				}
				return true
			}
			e.logf("L's dial failed: %v", r1.err)
			e.r.Count("simultaneous_open_dials_refused", 1)
			if req != "X" {
				return true
			}
			if !e.settle() {
				e.r.Inconclusive(e.name + ": the dialing machinery did not come to rest after the refused dial")
				return false
			}
			evs, _ := L.Rec.Events()
			nEst, lost := 0, false
			for _, ev := range evs {
				if ev.Established && remoteAddr(ev.Link) == hHome {
					nEst++
				}
				if !ev.Established && ev.Link == in {
					lost = true
				}
			}
			cur, have := L.Tpt.LookupLinkWithAddr(hHome)
			w := map[string]any{"handler_callbacks_at_L": evList(L.Rec), "refused_dial_error": r1.err.Error()}
			if nEst != 1 {
				e.r.Violation("required-peer:refused-dial-reported-an-established-link:simultaneous-open",
					fmt.Sprintf("L required peer X at %s, Y answered and DialPeer was refused, but L's handler was told of %d established links with that address (one was opened by Y itself): the refused session was reported as a link", hHome, nEst), e.witness(w))
			}
			if lost || !have || link.Link(cur) != in {
				e.r.Violation("required-peer:refused-dial-cost-the-existing-link:simultaneous-open",
					fmt.Sprintf("L had a legitimate link with %s (opened by Y); a DialPeer(X, %s) that was refused because Y answered took that link away (reported lost: %v, still L's link for the address: %v)", hHome, hHome, lost, have && link.Link(cur) == in), e.witness(w))
			} else {
				e.r.Count("existing_links_intact_after_refused_dial", 1)
			}
			return true
		}})
	}
	return out
}
