// C03: links are authenticated to the peer that holds the key.
//
// Chain level: PubKeyFromCertChain and the VerifyPeerCertificate callback of
// Identity.ConfigForPeer are called with DER chains the harness made itself
// (it knows by construction which are well-formed). Transport level: real
// pconn/quic transports and hostile raw quic-go endpoints with crafted
// tls.Configs talk over the in-memory switch; every link reported to a
// TransportHandler must name the identity really held at the other end.
package c03

import (
	"context"
	"crypto/sha256"
	"crypto/sha512"
	"crypto/tls"
	"crypto/x509"
	"encoding/binary"
	"fmt"
	"net"
	"os"
	"strings"
	"sync"
	"testing"
	"time"

	bcrypto "github.com/aperturerobotics/bifrost/crypto"
	p2ptls "github.com/aperturerobotics/bifrost/crypto/tls"
	"github.com/aperturerobotics/bifrost/link"
	"github.com/aperturerobotics/bifrost/peer"
	transport_quic "github.com/aperturerobotics/bifrost/transport/common/quic"
	"github.com/quic-go/quic-go"
	"verifharness/g5net"
	"verifharness/keys"
	"verifharness/vf"
)

const watchdog = 40 * time.Second

// ---------------------------------------------------------------- chain level

func sameKey(a bcrypto.PubKey, id *keys.Identity) bool {
	return a != nil && a.Equals(id.Pub)
}

// expKinds: the expected-peer constraints a chain is verified under. "any" = none,
// "K" = the id of the key that signed the binding, "other" = the (identity
// multihash) id of another key; the rest are WELL-FORMED peer ids (accepted by
// peer.IDFromBytes / IDB58Decode) that are not the id of K nor of any key the
// code can handle: non-identity multihashes (the legacy sha2-256 "Qm..." form
// of K's key, of another key, of no key at all; other hash codes) and identity
// multihashes embedding a key of an unsupported type / a damaged key. A caller
// that requires such an id R may only ever get a handshake with a remote whose
// id IS R; every bifrost peer id is the identity multihash of a supported key,
// so every handshake must be refused.
var expKinds = []string{"any", "K", "other",
	"sha256-of-K", "sha256-of-other", "sha256-of-K-raw-key", "sha256-of-nothing", "sha256-empty-digest", "sha512-of-K", "blake3-code-of-K",
	"identity-K-keytype-0", "identity-K-keytype-2", "identity-K-keytype-77", "identity-K-key-truncated", "identity-other-keytype-3"}

func multihash(code uint64, digest []byte) peer.ID {
	out := binary.AppendUvarint(nil, code)
	out = binary.AppendUvarint(out, uint64(len(digest)))
	return peer.ID(append(out, digest...))
}

// pbKeyOfType: identity public key message with another key type (0 is the proto default: field omitted).
func pbKeyOfType(id *keys.Identity, typ byte) []byte {
	raw := []byte(stdPub(id))
	var out []byte
	if typ != 0 {
		out = append(out, 0x08, typ)
	}
	out = append(out, 0x12, byte(len(raw)))
	return append(out, raw...)
}

// requiredID builds the expected-peer id of a kind; wellFormed = peer.IDFromBytes accepts it (or it is empty).
func requiredID(kind string, K, O *keys.Identity) (id peer.ID, wellFormed bool) {
	s256 := func(b []byte) []byte { d := sha256.Sum256(b); return d[:] }
	switch kind {
	case "any":
		return "", true
	case "K":
		return K.ID, true
	case "other":
		return O.ID, true
	case "sha256-of-K":
		id = multihash(0x12, s256(pbPubKey(K)))
	case "sha256-of-other":
		id = multihash(0x12, s256(pbPubKey(O)))
	case "sha256-of-K-raw-key":
		id = multihash(0x12, s256([]byte(stdPub(K))))
	case "sha256-of-nothing":
		id = multihash(0x12, s256(append([]byte("c03: a digest of no key: "), pbPubKey(K)...)))
	case "sha256-empty-digest":
		id = multihash(0x12, nil)
	case "sha512-of-K":
		d := sha512.Sum512(pbPubKey(K))
		id = multihash(0x13, d[:])
	case "blake3-code-of-K":
		id = multihash(0x1e, s256(pbPubKey(K)))
	case "identity-K-keytype-0":
		id = multihash(0, pbKeyOfType(K, 0))
	case "identity-K-keytype-2":
		id = multihash(0, pbKeyOfType(K, 2))
	case "identity-K-keytype-77":
		id = multihash(0, pbKeyOfType(K, 77))
	case "identity-other-keytype-3":
		id = multihash(0, pbKeyOfType(O, 3))
	case "identity-K-key-truncated":
		pb := pbPubKey(K)
		id = multihash(0, pb[:len(pb)-1])
	default:
		panic("unknown expected-peer kind " + kind)
	}
	if id == K.ID || id == O.ID {
		panic("harness: required id shape " + kind + " collides with a real id")
	}
	got, err := peer.IDFromBytes([]byte(id))
	return id, err == nil && got == id
}

// histCtx places a chain evaluation inside a history of earlier evaluations in
// the same process (nil = the chain is new to the process and so are all its parts).
type histCtx struct {
	pos   string   // position class of the step in its history
	steps []string // the steps presented so far, this one last
}

func evalChain(r *vf.Run, b *builtChain, pool []*keys.Identity, verifier *p2ptls.Identity, expKind string, hc *histCtx) {
	K := pool[b.Spec.K]
	expected, wellFormed := requiredID(expKind, K, pool[b.Spec.Other])
	if !wellFormed {
		r.Count("required_id_shapes_refused_by_IDFromBytes", 1)
		return
	}
	sig := fmt.Sprintf("%s|%s|crit=%v|pos=%d|exp=%s", b.Spec.Variant, b.Spec.CertKey, b.Spec.Critical, b.Spec.Pos, expKind)
	vkey := b.Spec.Variant
	if hc != nil {
		sig += "|hist=" + hc.pos
		vkey += "@" + hc.pos
	}
	wit := func(extra map[string]any) map[string]any {
		w := b.witness()
		w["expected_peer_constraint"] = expKind
		w["expected_peer_id"] = expected.String()
		w["expected_peer_id_hex"] = fmt.Sprintf("%x", string(expected))
		w["identity_K"] = K.ID.String()
		if hc != nil {
			w["history_position"] = hc.pos
			w["chains_presented_to_the_process_so_far"] = append([]string(nil), hc.steps...)
		}
		for k, v := range extra {
			w[k] = v
		}
		return w
	}

	// path A: PubKeyFromCertChain on the parsed chain (expected-peer does not apply)
	if expKind == "any" {
		parsed := make([]*x509.Certificate, 0, len(b.Raw))
		ok := true
		for _, raw := range b.Raw {
			c, err := x509.ParseCertificate(raw)
			if err != nil {
				ok = false
				break
			}
			parsed = append(parsed, c)
		}
		if ok {
			var key bcrypto.PubKey
			var err error
			panicked, pd := vf.Try(func() { key, err = p2ptls.PubKeyFromCertChain(parsed) })
			r.Count("PubKeyFromCertChain_calls", 1)
			switch {
			case panicked:
				r.Violation("chain:PubKeyFromCertChain:panic:"+vkey, "PubKeyFromCertChain panicked: "+pd, wit(nil))
			case err == nil && b.Class == mustReject:
				r.Violation("chain:PubKeyFromCertChain:accepted-malformed:"+vkey,
					"PubKeyFromCertChain accepted a chain that is not a single self-signed certificate with a valid key binding: "+b.Why, wit(nil))
			case err == nil && !sameKey(key, K):
				r.Violation("chain:PubKeyFromCertChain:wrong-key:"+vkey,
					"PubKeyFromCertChain returned a key other than the one that signed the binding", wit(nil))
			case err != nil && b.Class == mustAccept:
				r.Violation("chain:PubKeyFromCertChain:rejected-wellformed:"+vkey,
					"PubKeyFromCertChain refused a well-formed chain: "+err.Error(), wit(nil))
			}
			if err == nil {
				r.Count("PubKeyFromCertChain_accepted", 1)
			} else {
				r.Count("PubKeyFromCertChain_rejected", 1)
			}
			r.Case("A|"+sig, true)
		}
	}

	// path B: the VerifyPeerCertificate callback with raw DER + key channel
	conf, keyCh := verifier.ConfigForPeer(expected)
	var err error
	panicked, pd := vf.Try(func() { err = conf.VerifyPeerCertificate(b.Raw, nil) })
	var key bcrypto.PubKey
	select {
	case key = <-keyCh:
	default:
	}
	r.Count("VerifyPeerCertificate_calls", 1)
	acceptDemanded := b.Class == mustAccept && (expKind == "any" || expKind == "K")
	rejectDemanded := b.Class == mustReject || (expKind != "any" && expKind != "K")
	switch {
	case panicked:
		r.Violation("chain:VerifyPeerCertificate:panic:"+vkey, "VerifyPeerCertificate panicked: "+pd, wit(nil))
	case err == nil && b.Class == mustReject:
		r.Violation("chain:VerifyPeerCertificate:accepted-malformed:"+vkey,
			"the handshake verifier accepted a chain that is not a single self-signed certificate with a valid key binding: "+b.Why, wit(nil))
	case err == nil && expKind == "other":
		r.Violation("chain:VerifyPeerCertificate:accepted-wrong-peer:"+vkey,
			"the handshake verifier accepted peer K although the caller required a different peer", wit(nil))
	case err == nil && expKind != "any" && expKind != "K":
		r.Violation("chain:VerifyPeerCertificate:accepted-although-required-id-is-not-the-peers:"+expKind+":"+vkey,
			"the handshake verifier accepted peer K although the caller required the well-formed peer id "+expected.String()+" ("+expKind+"), which is not K's id (no key has that id)", wit(nil))
	case err == nil && !sameKey(key, K):
		r.Violation("chain:VerifyPeerCertificate:wrong-key:"+vkey,
			"the handshake verifier accepted but delivered no key / a key other than the one that signed the binding", wit(nil))
	case err != nil && key != nil:
		r.Violation("chain:VerifyPeerCertificate:key-on-error:"+vkey,
			"the handshake verifier refused the chain but still delivered a public key", wit(nil))
	case err != nil && acceptDemanded:
		r.Violation("chain:VerifyPeerCertificate:rejected-wellformed:"+vkey,
			"the handshake verifier refused a well-formed chain of the expected peer: "+err.Error(), wit(nil))
	}
	_ = rejectDemanded
	if err == nil {
		r.Count("VerifyPeerCertificate_accepted", 1)
	} else {
		r.Count("VerifyPeerCertificate_rejected", 1)
	}
	r.Distinct("chain_variants", b.Spec.Variant)
	r.Case("B|"+sig, true)
}

// ------------------------------------------------------------ transport level

func quicConf() *quic.Config {
	return transport_quic.BuildQuicConfig(&transport_quic.Opts{MaxIdleTimeoutDur: "1s"})
}

func hostileTLS(c *tls.Certificate) *tls.Config {
	conf := &tls.Config{
		MinVersion:         tls.VersionTLS13,
		InsecureSkipVerify: true, // the hostile side does not care who it talks to
		ClientAuth:         tls.RequireAnyClientCert,
		NextProtos:         []string{transport_quic.Alpn},
	}
	if c != nil {
		conf.Certificates = []tls.Certificate{*c}
	}
	return conf
}

type tenv struct {
	r    *vf.Run
	ctx  context.Context
	lctx context.Context // ctx carrying the case's pprof label
	n    *g5net.SwitchNet
	pool []*keys.Identity
	name string

	mu    sync.Mutex
	truth map[string]peer.ID // remote address -> identity really held there ("" = nobody may get a link)
	recs  map[string]*g5net.Recorder
	hist  []string
	// reqs: every dial request an honest node made (see refusal_test.go)
	reqs []*dialReq
	// inboundNoted[home][remote addr]: sessions the harness opened TOWARDS the node at home from that address
	inboundNoted map[string]map[string]int
}

func (e *tenv) logf(f string, a ...any) {
	e.mu.Lock()
	e.hist = append(e.hist, fmt.Sprintf(f, a...))
	e.mu.Unlock()
}

func (e *tenv) witness(extra map[string]any) map[string]any {
	e.mu.Lock()
	defer e.mu.Unlock()
	w := map[string]any{"case": e.name, "history": append([]string(nil), e.hist...)}
	t := map[string]string{}
	for a, id := range e.truth {
		t[a] = id.String()
	}
	w["identity_held_at_address"] = t
	for k, v := range extra {
		w[k] = v
	}
	return w
}

func (e *tenv) honest(home string, id *keys.Identity) *g5net.Remote {
	rm, err := g5net.StartRemote(e.ctx, g5net.QuietLogger(), e.n, home, id)
	if err != nil {
		panic(err)
	}
	e.mu.Lock()
	e.recs[home] = rm.Rec
	e.truth[home] = id.ID
	e.mu.Unlock()
	return rm
}

// checkLinks: every link reported to an honest handler names the identity held at its remote address.
func (e *tenv) checkLinks() (n int) {
	e.mu.Lock()
	recs := map[string]*g5net.Recorder{}
	for k, v := range e.recs {
		recs[k] = v
	}
	e.mu.Unlock()
	for home, rec := range recs {
		evs, _ := rec.Events()
		for _, ev := range evs {
			if !ev.Established {
				continue
			}
			n++
			ra := remoteAddr(ev.Link)
			e.mu.Lock()
			want, known := e.truth[ra]
			e.mu.Unlock()
			got := ev.Link.GetRemotePeer()
			e.r.Count("links_reported_to_handlers", 1)
			if !known || want == "" {
				e.r.Violation("link:reported-for-unauthenticated-endpoint:"+e.kind(),
					fmt.Sprintf("transport at %s reported an established link (remote peer %s) with the endpoint at %s, which holds no valid identity", home, got.String(), ra),
					e.witness(map[string]any{"link_remote_addr": ra, "link_remote_peer": got.String()}))
			} else if got != want {
				e.r.Violation("link:names-wrong-peer:"+e.kind(),
					fmt.Sprintf("transport at %s reported a link with %s naming %s, but the key held there is %s", home, ra, got.String(), want.String()),
					e.witness(map[string]any{"link_remote_addr": ra, "link_remote_peer": got.String()}))
			} else {
				e.r.Count("links_naming_the_key_holder", 1)
			}
		}
	}
	return
}

func (e *tenv) kind() string {
	for i := 0; i < len(e.name); i++ {
		if e.name[i] == '/' {
			return e.name[:i]
		}
	}
	return e.name
}

func remoteAddr(l link.Link) string {
	if ra, ok := l.(interface{ RemoteAddr() net.Addr }); ok && ra.RemoteAddr() != nil {
		return ra.RemoteAddr().String()
	}
	return "?"
}

func waitFor(cond func() bool) bool {
	start := time.Now()
	for !cond() {
		if time.Since(start) > watchdog {
			return false
		}
		time.Sleep(2 * time.Millisecond)
	}
	return true
}

func linkFrom(rec *g5net.Recorder, raddr string) (peer.ID, bool) {
	evs, _ := rec.Events()
	for _, ev := range evs {
		if ev.Established && remoteAddr(ev.Link) == raddr {
			return ev.Link.GetRemotePeer(), true
		}
	}
	return "", false
}

// hostile endpoint dials the honest listener L with a crafted certificate chain.
func (e *tenv) inbound(L *g5net.Remote, home string, b *builtChain, pool []*keys.Identity) (complete bool) {
	K := pool[b.Spec.K]
	e.mu.Lock()
	if b.Class == mustAccept {
		e.truth[home] = K.ID
	} else {
		e.truth[home] = ""
	}
	e.mu.Unlock()
	ep := e.n.NewEndpoint(home)
	defer ep.Close()
	dctx, cancel := context.WithTimeout(e.ctx, watchdog)
	defer cancel()
	e.logf("hostile endpoint %s dials honest listener %s presenting: %s", home, L.EP.LocalAddr(), b.Why)
	sess, err := quic.Dial(dctx, ep, L.EP.LocalAddr(), hostileTLS(b.TLS), quicConf())
	if dctx.Err() != nil {
		e.r.Inconclusive(e.name + ": hostile dial did not conclude")
		return false
	}
	e.r.Count("handshakes_hostile_dialer", 1)
	// A TLS 1.3 client finishes before the server has looked at the client's
	// certificate, so a nil error here does not mean the listener accepted. The
	// listener's verdict is: it reports a link (accepted), or the session is
	// torn down without a link ever having been reported (refused).
	accepted := false
	if err == nil {
		defer sess.CloseWithError(0, "")
		if !waitFor(func() bool {
			if _, ok := linkFrom(L.Rec, home); ok {
				accepted = true
				return true
			}
			select {
			case <-sess.Context().Done():
				return true
			default:
				return false
			}
		}) {
			e.r.Inconclusive(e.name + ": listener neither reported a link nor closed the session")
			return false
		}
		if !accepted {
			_, accepted = linkFrom(L.Rec, home)
		}
	}
	if accepted {
		e.logf("listener accepted the session and reported a link")
		if b.Class != mustAccept {
			e.r.Violation("handshake:listener-accepted-malformed:"+b.Spec.Variant,
				"an honest listener completed the handshake and reported a link with a dialer whose chain is not a single self-signed certificate with a valid key binding: "+b.Why,
				e.witness(b.witness()))
		}
		return true
	}
	e.logf("listener refused the session (dial error: %v)", err)
	if b.Class == mustAccept {
		e.r.Violation("handshake:listener-refused-wellformed:"+b.Spec.Variant,
			fmt.Sprintf("an honest listener refused a dialer with a well-formed chain (dial error: %v)", err), e.witness(b.witness()))
	}
	return true
}

// honest L dials address "A" where a hostile raw listener presents a crafted chain.
func (e *tenv) outbound(L *g5net.Remote, b *builtChain, pool []*keys.Identity) (complete bool) {
	claimed := pool[b.Spec.K].ID
	if b.Spec.Variant == "ext-embeds-other-key" {
		claimed = pool[b.Spec.Other].ID
	}
	return e.outboundAt(L, b, pool, "A", "H-home", claimed)
}

// outboundAt: the hostile listener lives at hhome and serves svc; the honest
// dialer requires peer `claimed` ("" = no constraint).
func (e *tenv) outboundAt(L *g5net.Remote, b *builtChain, pool []*keys.Identity, svc, hhome string, claimed peer.ID) (complete bool) {
	K := pool[b.Spec.K]
	e.mu.Lock()
	if b.Class == mustAccept {
		e.truth[svc] = K.ID
	} else {
		e.truth[svc] = ""
	}
	e.mu.Unlock()
	ep := e.n.NewEndpoint(hhome)
	ln, err := quic.Listen(ep, hostileTLS(b.TLS), quicConf())
	if err != nil {
		e.r.Inconclusive(e.name + ": hostile listen: " + err.Error())
		return false
	}
	defer ln.Close()
	go func() {
		for {
			s, err := ln.Accept(e.ctx)
			if err != nil {
				return
			}
			_ = s // keep the session open
		}
	}()
	e.n.Serve(svc, ep)
	e.logf("honest %s dials %s (required peer %q); hostile listener presents: %s", L.EP.LocalAddr(), svc, claimed.String(), b.Why)
	dctx, cancel := context.WithTimeout(e.ctx, watchdog)
	defer cancel()
	lnk, _, err := e.dialFrom(L, dctx, claimed, svc)
	if dctx.Err() != nil {
		e.r.Inconclusive(e.name + ": dial did not conclude")
		return false
	}
	e.r.Count("handshakes_hostile_listener", 1)
	if err == nil {
		e.logf("dial succeeded, link remote peer %s", lnk.GetRemotePeer().String())
		if b.Class != mustAccept {
			e.r.Violation("handshake:dialer-accepted-malformed:"+b.Spec.Variant,
				"an honest dialer completed the handshake with a listener whose chain is not a single self-signed certificate with a valid key binding: "+b.Why,
				e.witness(b.witness()))
			return true
		}
		if lnk.GetRemotePeer() != K.ID {
			e.r.Violation("link:names-wrong-peer:outbound", "dialed link names "+lnk.GetRemotePeer().String()+" but the key held there is "+K.ID.String(), e.witness(b.witness()))
		}
		if !waitFor(func() bool { _, ok := linkFrom(L.Rec, svc); return ok }) {
			e.r.Inconclusive(e.name + ": dialed link never reported to the handler")
			return false
		}
		return true
	}
	e.logf("dial refused: %v", err)
	if b.Class == mustAccept {
		e.r.Violation("handshake:dialer-refused-wellformed:"+b.Spec.Variant,
			"an honest dialer refused a listener with a well-formed chain of the dialed peer: "+err.Error(), e.witness(b.witness()))
	}
	return true
}

type tcase struct {
	name string
	run  func(e *tenv) bool
}

func transportCases(r *vf.Run, pool []*keys.Identity, nVariantRounds int) []tcase {
	rng := r.Rand("c03-transport")
	var out []tcase
	// identities: 0 = L (honest local), 1 = X (honest / victim), 2 = Y (honest other / hostile's own key)
	tvariants := []string{"valid", "valid-critical", "ext-embeds-other-key", "ext-signed-by-other-key", "ext-lifted-from-other-cert",
		"ext-wrong-prefix", "ext-missing", "ext-byte-flipped-content", "signed-by-other-key-same-name", "signed-by-ca", "chain-two-distinct", "chain-two-same", "chain-empty",
		"notself-unknown-alg", "notself-unknown-alg-tbs-resigned", "notself-two-unknown-algs", "notself-unknown-alg-outer-only", "notself-refused-alg", "notself-other-known-alg",
		"selfsig-bit-flipped", "selfsig-empty", "selfsig-of-other-cert"}
	mk := func(v string, certKey string) *builtChain {
		spec := chainSpec{Variant: v, K: 2, Other: 1, CertKey: certKey, Critical: v == "valid-critical"}
		switch v {
		case "ext-lifted-from-other-cert", "ext-signed-by-other-key":
			spec.K, spec.Other = 1, 2 // the victim X is the claimed identity
		case "ext-byte-flipped-content":
			spec.Variant = "ext-byte-flipped"
			spec.Pos = 8 + rng.IntN(32) // inside the embedded key bytes
		}
		if strings.HasPrefix(v, "notself-") || strings.HasPrefix(v, "selfsig-") {
			spec.Pos = rng.IntN(1 << 16) // which algorithm OID / which signature byte
		}
		return build(spec, pool, rng)
	}
	for round := 0; round < nVariantRounds; round++ {
		for _, v := range tvariants {
			ck := []string{"p256", "ed25519", "p384"}[(round+len(v))%3]
			if round == 0 {
				ck = "p256"
			}
			b := mk(v, ck)
			out = append(out, tcase{fmt.Sprintf("inbound/%s/%s/%d", v, ck, round), func(e *tenv) bool {
				L := e.honest("L-home", pool[0])
				return e.inbound(L, "H-home", b, pool)
			}})
			if v == "chain-empty" {
				continue // a TLS 1.3 server cannot present an empty chain
			}
			b2 := mk(v, ck)
			out = append(out, tcase{fmt.Sprintf("outbound/%s/%s/%d", v, ck, round), func(e *tenv) bool {
				L := e.honest("L-home", pool[0])
				return e.outbound(L, b2, pool)
			}})
		}
		out = append(out, requiredPeerCases(pool, round)...)
		out = append(out, mixedCase(r, pool, round, mk))
		for i := 0; i < 3; i++ {
			out = append(out, historyCase(r, pool, round*3+i))
		}
		out = append(out, overlapCases(pool, round, []string{"pconn", "conn"}, []string{"overlapping"})...)
		out = append(out, overlapCases(pool, round, []string{"pconn"}, []string{"sequential"})...)
		out = append(out, simultaneousOpenCases(pool, round, mk)...)
	}
	return out
}

// requiredPeerCases: honest parties only; the caller requires a peer and X or Y
// answers. The required id is X's id ("K": only X may be accepted) or a
// well-formed id of another shape derived from X's resp. Y's key (see expKinds:
// no peer may be accepted, whoever answers).
func requiredPeerCases(pool []*keys.Identity, round int) []tcase {
	var out []tcase
	for _, reqKind := range []string{"K", "sha256-of-K", "sha256-of-other", "sha256-of-nothing", "sha512-of-K", "identity-K-keytype-0", "identity-K-key-truncated"} {
		out = append(out, requiredPeerCasesFor(pool, round, reqKind)...)
	}
	return out
}

func requiredPeerCasesFor(pool []*keys.Identity, round int, reqKind string) []tcase {
	var out []tcase
	req, wellFormed := requiredID(reqKind, pool[1], pool[2])
	if !wellFormed {
		return nil
	}
	sfx, ksfx, reqName := "", "", "X"
	if reqKind != "K" {
		sfx, ksfx, reqName = ":"+reqKind, ":"+reqKind, "the well-formed id "+req.String()+" ("+strings.ReplaceAll(strings.ReplaceAll(reqKind, "K", "X"), "other", "Y")+")"
	}
	for _, who := range []int{1, 2} { // who really answers / dials: X or Y
		who := who
		tag := "X-answers"
		if who == 2 {
			tag = "Y-answers"
		}
		X := pool[1]
		mayAccept := reqKind == "K" && who == 1
		// DialPeer(X, A) on a real pconn transport
		out = append(out, tcase{fmt.Sprintf("required-dialpeer%s/%s/%d", sfx, tag, round), func(e *tenv) bool {
			L := e.honest("L-home", pool[0])
			R := e.honest("R-home", pool[who])
			e.n.Serve("A", R.EP)
			e.mu.Lock()
			e.truth["A"] = pool[who].ID
			e.mu.Unlock()
			e.logf("honest L: DialPeer(%s, A); A served by honest %s", reqName, tag)
			dctx, cancel := context.WithTimeout(e.ctx, watchdog)
			defer cancel()
			lnk, _, err := e.dialFrom(L, dctx, req, "A")
			if dctx.Err() != nil {
				e.r.Inconclusive(e.name + ": dial did not conclude")
				return false
			}
			e.r.Count("handshakes_required_peer", 1)
			if err == nil {
				e.logf("DialPeer succeeded with a link to %s", lnk.GetRemotePeer().String())
				if !mayAccept {
					e.r.Violation("required-peer:DialPeer-succeeded-with-other-peer"+ksfx,
						"DialPeer required peer "+reqName+", a peer with a different id answered, and the dial still succeeded (link names "+lnk.GetRemotePeer().String()+")", e.witness(nil))
				} else if lnk.GetRemotePeer() != X.ID {
					e.r.Violation("link:names-wrong-peer:required-dialpeer", "link names "+lnk.GetRemotePeer().String(), e.witness(nil))
				}
			} else {
				e.logf("DialPeer failed: %v", err)
				if mayAccept {
					e.r.Violation("required-peer:DialPeer-refused-the-required-peer", "DialPeer(X) failed although X answered: "+err.Error(), e.witness(nil))
				}
			}
			return true
		}})
		// DialSession with rpeer = X
		out = append(out, tcase{fmt.Sprintf("required-dialsession%s/%s/%d", sfx, tag, round), func(e *tenv) bool {
			R := e.honest("R-home", pool[who])
			e.n.Serve("A", R.EP)
			ident, err := p2ptls.NewIdentity(pool[0].Priv)
			if err != nil {
				panic(err)
			}
			ep := e.n.NewEndpoint("L-home")
			defer ep.Close()
			e.mu.Lock()
			e.truth["L-home"] = pool[0].ID
			e.mu.Unlock()
			dctx, cancel := context.WithTimeout(e.ctx, watchdog)
			defer cancel()
			e.logf("DialSession(rpeer=%s) to A served by honest %s", reqName, tag)
			sess, key, err := transport_quic.DialSession(dctx, g5net.QuietLogger(), &transport_quic.Opts{MaxIdleTimeoutDur: "1s"}, ep, ident, g5net.Addr("A"), req)
			if dctx.Err() != nil {
				e.r.Inconclusive(e.name + ": dial did not conclude")
				return false
			}
			e.r.Count("handshakes_required_peer", 1)
			if err == nil {
				defer sess.CloseWithError(0, "")
				if !mayAccept {
					e.r.Violation("required-peer:DialSession-succeeded-with-other-peer"+ksfx, "DialSession required "+reqName+" but succeeded against a peer with a different id ("+pool[who].ID.String()+")", e.witness(nil))
				} else if !sameKey(key, X) {
					e.r.Violation("required-peer:DialSession-wrong-key", "DialSession returned a key that is not X's", e.witness(nil))
				}
			} else if mayAccept {
				e.r.Violation("required-peer:DialSession-refused-the-required-peer", "DialSession(X) failed although X answered: "+err.Error(), e.witness(nil))
			}
			return true
		}})
		// listen side: HandleConn(dial=false, peerID=X) and X / Y dials in
		out = append(out, tcase{fmt.Sprintf("required-listen%s/%s/%d", sfx, tag, round), func(e *tenv) bool {
			R := e.honest("R-home", pool[who])
			ep := e.n.NewEndpoint("L-home")
			defer ep.Close()
			rec := g5net.NewRecorder(nil)
			e.mu.Lock()
			e.recs["L-home"] = rec
			e.truth["L-home"] = pool[0].ID
			e.mu.Unlock()
			qt, err := transport_quic.NewTransport(e.ctx, g5net.QuietLogger(), 0, ep.LocalAddr(), pool[0].Priv, rec, &transport_quic.Opts{MaxIdleTimeoutDur: "1s"}, nil)
			if err != nil {
				panic(err)
			}
			type res struct {
				remote peer.ID
				err    error
			}
			lctx, lcancel := context.WithCancel(e.ctx)
			defer lcancel()
			resCh := make(chan res, 1)
			go func() {
				lnk, err := qt.HandleConn(lctx, false, ep, g5net.Addr("R-home"), req)
				if err != nil {
					resCh <- res{err: err}
					return
				}
				resCh <- res{remote: lnk.GetRemotePeer()}
			}()
			e.logf("listener requires %s (ListenSession rpeer); honest %s dials in", reqName, tag)
			dctx, cancel := context.WithTimeout(e.ctx, watchdog)
			defer cancel()
			_, _, derr := e.dialFrom(R, dctx, pool[0].ID, "L-home")
			if dctx.Err() != nil {
				e.r.Inconclusive(e.name + ": dial did not conclude")
				return false
			}
			e.r.Count("handshakes_required_peer", 1)
			e.logf("dialer result: %v", derr)
			if mayAccept {
				if derr != nil {
					e.r.Violation("required-peer:listener-refused-the-required-peer", "listener requiring X refused X: "+derr.Error(), e.witness(nil))
					return true
				}
				var rs res
				if !waitFor(func() bool {
					select {
					case rs = <-resCh:
						return true
					default:
						return false
					}
				}) {
					e.r.Inconclusive(e.name + ": listener never returned the accepted session")
					return false
				}
				if rs.err != nil || rs.remote != X.ID {
					e.r.Violation("link:names-wrong-peer:required-listen", fmt.Sprintf("listener result remote=%s err=%v", rs.remote.String(), rs.err), e.witness(nil))
				}
				return true
			}
			// a peer that must be refused dialed. A TLS 1.3 client finishes before the server checked its
			// certificate, so Y's dial may "succeed" first; the listener's verdict is
			// what counts: it returns a link (accepted) or Y's session dies (refused).
			var rs *res
			lostAtR := func() bool {
				evs, _ := R.Rec.Events()
				for _, ev := range evs {
					if !ev.Established {
						return true
					}
				}
				return false
			}
			if !waitFor(func() bool {
				select {
				case v := <-resCh:
					rs = &v
					return true
				default:
				}
				return derr != nil || lostAtR()
			}) {
				e.r.Inconclusive(e.name + ": neither a listener result nor a refusal was observed")
				return false
			}
			if rs == nil {
				select {
				case v := <-resCh:
					rs = &v
				default:
				}
			}
			if rs != nil && rs.err == nil {
				e.r.Violation("required-peer:listener-accepted-other-peer"+ksfx, "a listener requiring peer "+reqName+" returned a link to "+rs.remote.String(), e.witness(nil))
			}
			return true
		}})
	}
	return out
}

// mixedCase: one honest listener sees forged, honest and hostile-but-valid dialers in sequence.
func mixedCase(r *vf.Run, pool []*keys.Identity, round int, mk func(v, ck string) *builtChain) tcase {
	rng := r.Rand(fmt.Sprintf("c03-mixed-%d", round))
	steps := []string{"ext-lifted-from-other-cert", "honest-X", "valid", "ext-embeds-other-key", "signed-by-ca", "honest-X-again"}
	rng.Shuffle(len(steps), func(i, j int) { steps[i], steps[j] = steps[j], steps[i] })
	// chains are built here, not inside the (parallel) case: mk draws from a shared PRNG
	chains := map[int]*builtChain{}
	for i, s := range steps {
		if s != "honest-X" && s != "honest-X-again" {
			chains[i] = mk(s, "p256")
		}
	}
	return tcase{fmt.Sprintf("mixed/%v/%d", steps, round), func(e *tenv) bool {
		L := e.honest("L-home", pool[0])
		ok := true
		for i, s := range steps {
			switch s {
			case "honest-X", "honest-X-again":
				home := fmt.Sprintf("X%d-home", i)
				X := e.honest(home, pool[1])
				dctx, cancel := context.WithTimeout(e.ctx, watchdog)
				lnk, _, err := e.dialFrom(X, dctx, pool[0].ID, "L-home")
				cancel()
				e.r.Count("handshakes_honest", 1)
				if err != nil {
					e.r.Violation("handshake:honest-pair-failed", "honest X could not establish a link with honest L: "+err.Error(), e.witness(nil))
					continue
				}
				if lnk.GetRemotePeer() != pool[0].ID {
					e.r.Violation("link:names-wrong-peer:mixed", "X's link to L names "+lnk.GetRemotePeer().String(), e.witness(nil))
				}
				if !waitFor(func() bool { _, ok := linkFrom(L.Rec, home); return ok }) {
					e.r.Inconclusive(e.name + ": L never reported the link from honest X")
					ok = false
				}
			default:
				if !e.inbound(L, fmt.Sprintf("H%d-home", i), chains[i], pool) {
					ok = false
				}
			}
		}
		return ok
	}}
}

func runTransportCase(r *vf.Run, pool []*keys.Identity, tc tcase) {
	ctx, cancel := context.WithCancel(context.Background())
	defer cancel()
	e := &tenv{r: r, ctx: ctx, n: g5net.NewSwitchNet(), pool: pool, name: tc.name, truth: map[string]peer.ID{}, recs: map[string]*g5net.Recorder{}, inboundNoted: map[string]map[string]int{}}
	r.Begin("transport case " + tc.name)
	t0 := time.Now()
	defer func() { fmt.Printf("case %-90s %6.2fs\n", tc.name, time.Since(t0).Seconds()) }() // diagnostics only
	var complete bool
	// every goroutine started by the case inherits the label (goroutine-state conditions)
	g5net.WithLabel(ctx, tc.name, func(lctx context.Context) { e.lctx = lctx; complete = tc.run(e) })
	if !e.judgeRefusals() {
		complete = false
	}
	nl := e.checkLinks()
	r.Distinct("transport_case_kinds", e.kind())
	r.Case("T|"+tc.name, complete)
	r.Sample(map[string]any{"transport_case": tc.name, "links_reported": nl, "complete": complete})
}

func TestCheck(t *testing.T) {
	r := vf.Start(t, "C03", vf.Exploration)
	defer r.Finish()
	r0 := ("chain cases = harness-made DER chains: every variant of {valid (own construction / package extension / critical), binding embeds another key, binding signed by another key, binding over another cert key, binding lifted from another certificate, wrong / no prefix, extension missing / other OID / empty / not ASN.1 / truncated at PRNG position / one bit flipped at PRNG position / duplicated, certificate signed by another key (same name / CA), certificate signed by another key whose signatureAlgorithm identifiers were rewritten at the ASN.1 level (both / outer only / inner only / two different ones) to an OID crypto/x509 does not know (9 OIDs incl. a PRNG arc), to an MD2/MD5/SHA-1/DSA algorithm it refuses, or to another algorithm it knows, with the stale signature or with the rewritten TBS signed again by the other key, self-signed certificate whose signature value has one bit flipped at a PRNG position / is empty / truncated / zeroed / taken from another certificate over the same key, expired, not yet valid, chain of 0 / 2 distinct / 2 equal / valid+garbage / garbage} x cert key type {P-256, P-384, Ed25519} x expected-peer constraint {none, K, another peer, and 12 well-formed ids (accepted by peer.IDFromBytes) that are no peer's id: sha2-256 multihash of K's / another key's protobuf, of K's raw key, of no key, empty digest, sha2-512 and another hash code, identity multihash embedding K's key under an unsupported key type (0, 2, 77), another key under type 3, a truncated key}; each is given to PubKeyFromCertChain (when parsable) and to the VerifyPeerCertificate callback of Identity.ConfigForPeer; chain histories = PRNG interleavings of families {honest chain H, forged chains re-using H's key extension / binding signature / TLS key / whole certificate} in the order forged* H forged+ [H forged*] per family, judged step by step by the same stateless oracle. Oracle by construction: accept <=> single self-signed cert with one binding signed by K over prefix||PKIX(cert key) and (no constraint or constraint = ID(K)); a certificate whose signature was not made by its own key over its own TBS is not self-signed whatever its algorithm identifiers say; a constraint that is no key's id refuses everybody; delivered key = K; no key on error. Transport cases = real pconn/quic transports and hostile raw quic-go endpoints (crafted tls.Config with those chains) on an in-memory switch, inbound and outbound, required-peer dial/DialSession/listen with the right and the wrong honest peer answering, the required id being X's id or one of 6 of the well-formed non-peer id shapes (nobody may be accepted), mixed sequences on one listener, PRNG histories in which an impersonator presents a certificate over its own TLS key carrying a byte copy of a running honest victim's key extension before and after the honest node had a session with that victim (inbound, outbound with / without required peer, two victims interleaved), and two DialPeer requests for one address with every ordered pair of required peers over {none, X, Y} while X resp. Y serves it, overlapping (the network holds the first dial in flight until the second request is parked behind it, detected by goroutine state) and sequential, and simultaneous-open cases (the network keeps L's own dial of H in flight - selective hold by QUIC connection id - while the peer at H, a raw endpoint with Y's key, opens a session to L; then L's dial, requiring X / Y / nobody, goes through and Y answers); every dial request of an honest node is recorded with the logical clock of its transport handler (callbacks seen so far) and, once the dialing machinery is at rest (no goroutine of the case inside the dialer, a handler callback or a link tear-down on two consecutive looks), every link REPORTED established to the handler towards a dialed address must be permitted by a request made before the report (no constraint, or requiring exactly the peer the link names) or by a session the harness opened from that address: a refused dial leaves no established report, and in the simultaneous-open cases it leaves the link Y opened in place (exactly one established report for the address, no loss report for it, still the transport's link for the address; idle time-out 10 min there); every link reported to a TransportHandler must name the identity held at its remote address, forged endpoints must get no link. Distinct = distinct (variant, key type, flags, position, constraint, path) resp. transport case.")
	r.SetRule(r0 + " Helper cases: every exported entry point of transport/common/quic taking a required remote peer, called directly over an in-memory stream - {DialSession, DialSessionViaTransport (shared quic.Transport), ListenSession, stream Transport.HandleConn dial, HandleConn listen} x constraint {none, X, Y} x key really held at the other end {X, Y} (the far end uses the plain helpers without constraint) x remote address given to the local side {plain, peer address (peer.NetAddr) naming X / Y / the local peer, none (HandleConn derives it from the required peer)}; oracle: constraint set and another key answers => the call returns an error (a listen call that keeps waiting is cancelled once the far end's session attempt is over; a dial side parked in quic-go's clean-up is hung up by the harness - goroutine state, no timing); success => the key / link / handler report names the identity whose key signed the remote certificate (harness ground truth), whatever the address says.")
	r.Assume("crypto/x509, crypto/tls, crypto/ed25519 and quic-go are trusted; the harness' certificate builder is the ground truth for well-formedness")
	r.Assume("expired / not-yet-valid certificates and bit flips in the DER header of the extension are not judged for acceptance (only: if accepted, the key is K)")

	rng := r.Rand("c03-chains")
	pool := keys.Pool(rng, 4)
	verifier, err := p2ptls.NewIdentity(pool[0].Priv)
	if err != nil {
		t.Fatal(err)
	}

	// sanity of the harness' own encoding of identity keys (not a verdict on the code under test)
	if mb, err := bcrypto.MarshalPublicKey(pool[1].Pub); err != nil || string(mb) != string(pbPubKey(pool[1])) {
		r.Inconclusive("harness: hand-written public key encoding differs from the wire form in use")
		return
	}

	// ---- chain level
	var specs []chainSpec
	certKeys := []string{"p256", "ed25519", "p384"}
	for _, v := range variants {
		for _, ck := range certKeys {
			s := chainSpec{Variant: v, K: 1, Other: 2, CertKey: ck, Critical: v == "valid-critical"}
			switch v {
			case "ext-truncated", "ext-byte-flipped":
				for i := 0; i < 4; i++ {
					s.Pos = rng.IntN(106 * 8)
					specs = append(specs, s)
				}
			default:
				specs = append(specs, s)
			}
		}
	}
	nChain := r.N(400, 20000)
	for len(specs) < nChain {
		v := variants[rng.IntN(len(variants))]
		s := chainSpec{Variant: v, K: 1 + rng.IntN(3), CertKey: certKeys[rng.IntN(3)], Pos: rng.IntN(106 * 8)}
		s.Other = 1 + (s.K+rng.IntN(2))%3
		if s.Other == s.K {
			s.Other = 1 + s.K%3
		}
		s.Critical = v == "valid-critical" || (v != "valid" && v != "valid-pkg-extension" && rng.IntN(4) == 0)
		specs = append(specs, s)
	}
	// flip positions: make sure every byte of the extension is hit at least once in the thorough tier
	if !r.Quick() {
		for i := 0; i < 106; i++ {
			specs = append(specs, chainSpec{Variant: "ext-byte-flipped", K: 1, Other: 2, CertKey: "p256", Pos: i + 106*rng.IntN(8)})
			specs = append(specs, chainSpec{Variant: "ext-truncated", K: 1, Other: 2, CertKey: "p256", Pos: i})
		}
	}
	r.Begin(fmt.Sprintf("%d chain specs", len(specs)))
	tC := time.Now()
	defer func() { _ = tC }()
	// chains are built in order (shared PRNG); the stateless evaluations run on 8 workers
	evalCh := make(chan *builtChain, 64)
	var evalWG sync.WaitGroup
	for w := 0; w < 8; w++ {
		evalWG.Add(1)
		go func() {
			defer evalWG.Done()
			for b := range evalCh {
				for _, ek := range expKinds {
					evalChain(r, b, pool, verifier, ek, nil)
				}
			}
		}()
	}
	for i, s := range specs {
		b := build(s, pool, rng)
		evalCh <- b
		if i < 3 {
			r.Sample(map[string]any{"chain_spec": s, "class": b.Class.String(), "construction": b.Why})
		}
	}
	close(evalCh)
	evalWG.Wait()

	fmt.Printf("section chain-specs %6.2fs\n", time.Since(tC).Seconds()) // diagnostics only
	// ---- chain level, histories: forged chains built from parts of honest chains the process verifies before / after
	verifier2, err := p2ptls.NewIdentity(pool[3].Priv)
	if err != nil {
		t.Fatal(err)
	}
	r.Begin("chain histories")
	tH := time.Now()
	chainHistories(r, pool, []*p2ptls.Identity{verifier, verifier2}, r.N(48, 1500))
	fmt.Printf("section chain-histories %6.2fs\n", time.Since(tH).Seconds()) // diagnostics only

	// ---- transport level
	tcs := transportCases(r, pool, r.N(1, 4))
	// development knob (not used by bin/check): run only the matching transport cases
	if only := os.Getenv("VERIF_C03_ONLY"); only != "" {
		var sel []tcase
		for _, tc := range tcs {
			if strings.Contains(tc.name, only) {
				sel = append(sel, tc)
			}
		}
		tcs = sel
	}
	r.Extra("transport_cases", len(tcs))
	// session helpers driven directly (helpers_test.go)
	hcs := helperCases()
	if only := os.Getenv("VERIF_C03_ONLY"); only != "" {
		var sel []helperCase
		for _, hc := range hcs {
			if strings.Contains(hc.String(), only) {
				sel = append(sel, hc)
			}
		}
		hcs = sel
	}
	r.Extra("helper_cases", len(hcs))
	sem := make(chan struct{}, 12)
	var wg sync.WaitGroup
	for _, hc := range hcs {
		wg.Add(1)
		sem <- struct{}{}
		go func(hc helperCase) {
			defer wg.Done()
			defer func() { <-sem }()
			runHelperCase(r, pool, hc)
		}(hc)
	}
	for _, tc := range tcs {
		wg.Add(1)
		sem <- struct{}{}
		go func(tc tcase) {
			defer wg.Done()
			defer func() { <-sem }()
			runTransportCase(r, pool, tc)
		}(tc)
	}
	wg.Wait()
}
