// C03, session helpers driven directly.
//
// Every exported entry point of transport/common/quic (and the stream transport
// on top of it) that takes a required remote peer is called by the harness over
// an in-memory stream: DialSession, DialSessionViaTransport, ListenSession,
// Transport.HandleConn(dial) and Transport.HandleConn(listen) - with every
// expected-peer constraint {none, X, Y}, with X or Y really holding the key at
// the other end (the far side uses the plain helpers without constraint), and
// with every kind of remote ADDRESS the caller may have been told: a plain
// address, or a peer address (peer.NetAddr) NAMING X, Y or the local peer, or
// no address at all (HandleConn with a required peer). The address is a hint;
// the identity is whoever signed the certificate.
package c03

import (
	"context"
	"errors"
	"fmt"
	"io"
	"net"
	"time"

	bcrypto "github.com/aperturerobotics/bifrost/crypto"
	p2ptls "github.com/aperturerobotics/bifrost/crypto/tls"
	"github.com/aperturerobotics/bifrost/peer"
	"github.com/aperturerobotics/bifrost/transport/common/conn"
	transport_quic "github.com/aperturerobotics/bifrost/transport/common/quic"
	"github.com/aperturerobotics/bifrost/util/rwc"
	"github.com/quic-go/quic-go"
	"verifharness/g5net"
	"verifharness/keys"
	"verifharness/vf"
)

type helperCase struct {
	helper   string // DialSession, DialSessionViaTransport, ListenSession, HandleConn-dial, HandleConn-listen
	required byte   // '_' none, 'X', 'Y'
	answerer byte   // 'X', 'Y'
	addr     string // plain, netaddr-X, netaddr-Y, netaddr-L, nil
}

func (c helperCase) String() string {
	return fmt.Sprintf("helper/%s/required=%c/answered-by=%c/addr=%s", c.helper, c.required, c.answerer, c.addr)
}

const helperMTU = 65000

func helperOpts() *transport_quic.Opts {
	// long idle time-out: sessions end only when somebody ends them
	return &transport_quic.Opts{MaxIdleTimeoutDur: "10m", DisablePathMtuDiscovery: true}
}

func helperCases() []helperCase {
	var out []helperCase
	for _, h := range []string{"DialSession", "DialSessionViaTransport", "ListenSession", "HandleConn-dial", "HandleConn-listen"} {
		for _, req := range []byte{'_', 'X', 'Y'} {
			for _, ans := range []byte{'X', 'Y'} {
				for _, a := range []string{"plain", "netaddr-X", "netaddr-Y", "netaddr-L", "nil"} {
					if a == "nil" && (req == '_' || h[0] != 'H') {
						continue // only HandleConn derives the address from a required peer
					}
					out = append(out, helperCase{h, req, ans, a})
				}
			}
		}
	}
	return out
}

type helperResult struct {
	err  error
	pub  bcrypto.PubKey // DialSession*: the key handed to the caller
	sess *quic.Conn
	lnk  *conn.Link
}

func runHelperCase(r *vf.Run, pool []*keys.Identity, hc helperCase) {
	name := hc.String()
	r.Begin("transport case " + name)
	t0 := time.Now()
	defer func() { fmt.Printf("case %-90s %6.2fs\n", name, time.Since(t0).Seconds()) }() // diagnostics only
	ctx, cancel := context.WithCancel(context.Background())
	defer cancel()
	complete := false
	g5net.WithLabel(ctx, name, func(ctx context.Context) { complete = helperCaseBody(ctx, r, pool, hc, name) })
	r.Distinct("transport_case_kinds", "helper")
	r.Distinct("helper_entry_points", hc.helper)
	r.Case("T|"+name, complete)
	r.Sample(map[string]any{"transport_case": name, "complete": complete})
}

func helperCaseBody(ctx context.Context, r *vf.Run, pool []*keys.Identity, hc helperCase, name string) (complete bool) {
	L, ids := pool[0], map[byte]*keys.Identity{'X': pool[1], 'Y': pool[2], 'L': pool[0]}
	ans := ids[hc.answerer]
	var required peer.ID
	if hc.required != '_' {
		required = ids[hc.required].ID
	}
	var raddr net.Addr
	switch hc.addr {
	case "plain":
		raddr = g5net.Addr("R-home")
	case "nil":
		raddr = nil
	default:
		raddr = peer.NewNetAddr(ids[hc.addr[len(hc.addr)-1]].ID)
	}
	// the address the local side's sessions will report (HandleConn derives it from the required peer)
	effAddr := raddr
	if effAddr == nil {
		effAddr = peer.NewNetAddr(required)
	}
	var hist []string
	logf := func(f string, a ...any) { hist = append(hist, fmt.Sprintf(f, a...)) }
	witness := func() map[string]any {
		return map[string]any{"case": name, "history": hist, "local": L.ID.String(), "X": ids['X'].ID.String(), "Y": ids['Y'].ID.String(),
			"key_held_at_the_other_end": ans.ID.String(), "required_peer": required.String(), "remote_address_given": fmt.Sprint(effAddr)}
	}
	le := g5net.QuietLogger()
	identL, err1 := p2ptls.NewIdentity(L.Priv)
	identA, err2 := p2ptls.NewIdentity(ans.Priv)
	if err1 != nil || err2 != nil {
		r.Inconclusive(fmt.Sprintf("%s: identities: %v %v", name, err1, err2))
		return false
	}
	a, b := g5net.NewPipe()
	defer a.Close()
	defer b.Close()
	laddr := g5net.Addr("L-home")
	localDials := hc.helper == "DialSession" || hc.helper == "DialSessionViaTransport" || hc.helper == "HandleConn-dial"

	// ---- the other end: plain helpers, no constraint, key of the answerer
	type ansRes struct {
		sess *quic.Conn
		err  error
	}
	ansCh := make(chan ansRes, 1)
	pcA := rwc.NewPacketConn(ctx, b, g5net.Addr("R-home"), laddr, helperMTU, 16)
	go func() {
		var s *quic.Conn
		var err error
		if localDials {
			s, err = transport_quic.ListenSession(ctx, le, helperOpts(), pcA, identA, "")
		} else {
			s, _, err = transport_quic.DialSession(ctx, le, helperOpts(), pcA, identA, laddr, "")
		}
		ansCh <- ansRes{s, err}
	}()

	// ---- the local side: the helper under test
	lctx, lcancel := context.WithCancel(ctx)
	defer lcancel()
	rec := g5net.NewRecorder(nil)
	locCh := make(chan helperResult, 1)
	var tpt *conn.Transport
	if hc.helper[0] == 'H' {
		var err error
		tpt, err = conn.NewTransport(ctx, le, L.Priv, rec, &conn.Opts{Quic: helperOpts()}, 0, laddr, nil)
		if err != nil {
			r.Inconclusive(name + ": transport: " + err.Error())
			return false
		}
	}
	logf("%s holds the key at the other end (no constraint there); local side calls %s requiring %q with remote address %v", string(hc.answerer), hc.helper, string(hc.required), effAddr)
	go func() {
		var res helperResult
		switch hc.helper {
		case "DialSession":
			pc := rwc.NewPacketConn(ctx, a, laddr, raddr, helperMTU, 16)
			res.sess, res.pub, res.err = transport_quic.DialSession(lctx, le, helperOpts(), pc, identL, raddr, required)
		case "DialSessionViaTransport":
			pc := rwc.NewPacketConn(ctx, a, laddr, raddr, helperMTU, 16)
			qt := &quic.Transport{Conn: pc}
			res.sess, res.pub, res.err = transport_quic.DialSessionViaTransport(lctx, le, helperOpts(), qt, identL, raddr, required)
		case "ListenSession":
			pc := rwc.NewPacketConn(ctx, a, laddr, raddr, helperMTU, 16)
			res.sess, res.err = transport_quic.ListenSession(lctx, le, helperOpts(), pc, identL, required)
		case "HandleConn-dial":
			res.lnk, res.err = tpt.HandleConn(lctx, true, a, raddr, required)
		case "HandleConn-listen":
			res.lnk, res.err = tpt.HandleConn(lctx, false, a, raddr, required)
		}
		locCh <- res
	}()

	// ---- wait for the local result. Conditions only:
	//  * the local call returned;
	//  * local listen side: the far end's session attempt is over (its dial failed or its session was
	//    ended by the local side's refusal) - then the local call, still waiting for a session it
	//    accepts, is cancelled and its result (an error) taken;
	//  * local dial side: the handshake failed and quic-go's single-use transport waits for its read
	//    loop (goroutine state) - the harness hangs up the stream, as a remote would.
	var res helperResult
	var far *ansRes
	got, hungUp, cancelled := false, false, false
	start, lastLook := time.Now(), time.Now()
	for !got {
		select {
		case res = <-locCh:
			got = true
			continue
		default:
		}
		if far == nil {
			select {
			case ar := <-ansCh:
				far = &ar
			default:
			}
		}
		if !localDials && !cancelled && far != nil && (far.err != nil || far.sess.Context().Err() != nil) {
			logf("the far end's session attempt is over (%v): the local listen call is cancelled", far.err)
			cancelled = true
			lcancel()
		}
		if localDials && !hungUp && time.Since(lastLook) > 100*time.Millisecond {
			lastLook = time.Now()
			if g5net.GoroutineCount(name, "doDial.func1", "quic-go.(*Transport).Close") > 0 {
				logf("the local handshake failed (dial side parked in its clean-up): the harness hangs up the stream")
				hungUp = true
				_ = a.Close()
			}
		}
		if time.Since(start) > watchdog {
			r.Inconclusive(name + ": local call did not return (watchdog)")
			return false
		}
		time.Sleep(2 * time.Millisecond)
	}
	defer func() {
		if res.sess != nil {
			_ = res.sess.CloseWithError(0, "")
		}
		if res.lnk != nil {
			_ = res.lnk.Close()
		}
	}()

	mustRefuse := required != "" && required != ans.ID
	if res.err != nil {
		logf("local call returned error: %v", res.err)
		r.Count("helper_calls_refused", 1)
		if mustRefuse {
			r.Count("helper_wrong_peer_refused", 1)
			return true
		}
		if errors.Is(res.err, context.Canceled) && cancelled {
			// the far end gave up although it was acceptable: nothing to judge
			r.Count("helper_acceptable_peer_not_connected", 1)
			return false
		}
		// refusing an acceptable peer is not what C03 is about: counted, no verdict
		r.Count("helper_acceptable_peer_errors", 1)
		return false
	}
	r.Count("helper_calls_succeeded", 1)
	logf("local call returned success")
	if mustRefuse {
		r.Violation("helper:required-peer-not-enforced:"+hc.helper,
			fmt.Sprintf("%s was called requiring peer %c but %c (another key) answered, and it returned a session / link instead of refusing", hc.helper, hc.required, hc.answerer), witness())
		return true
	}
	// identity handed to the caller = the key that signed the certificate (harness ground truth)
	switch {
	case res.lnk != nil:
		gotID := res.lnk.GetRemotePeer()
		pk, _ := res.lnk.GetRemotePeerPubKey().(bcrypto.PubKey)
		if gotID != ans.ID || !sameKey(pk, ans) {
			w := witness()
			w["link_remote_peer"] = gotID.String()
			r.Violation("helper:link-names-wrong-peer:"+hc.helper+":"+addrClass(hc.addr),
				fmt.Sprintf("%s (remote address %v, required %q) returned a link naming %s, but the certificate was signed by the key of %s", hc.helper, effAddr, string(hc.required), gotID.String(), ans.ID.String()), w)
			return true
		}
		// the report to the handler
		if !waitFor(func() bool { return rec.EstablishedCount() > 0 }) {
			r.Inconclusive(name + ": link never reported to the handler")
			return false
		}
		evs, _ := rec.Events()
		for _, ev := range evs {
			if ev.Established {
				r.Count("links_reported_to_handlers", 1)
				if ev.Link.GetRemotePeer() != ans.ID {
					w := witness()
					w["link_remote_peer"] = ev.Link.GetRemotePeer().String()
					r.Violation("helper:link-names-wrong-peer:"+hc.helper+":"+addrClass(hc.addr),
						fmt.Sprintf("%s reported an established link naming %s, but the certificate was signed by the key of %s", hc.helper, ev.Link.GetRemotePeer().String(), ans.ID.String()), w)
				} else {
					r.Count("links_naming_the_key_holder", 1)
				}
			}
		}
	case res.pub != nil || hc.helper != "ListenSession":
		if !sameKey(res.pub, ans) {
			r.Violation("helper:wrong-key-returned:"+hc.helper,
				fmt.Sprintf("%s returned a public key that is not the key of the peer that signed the certificate (%c)", hc.helper, hc.answerer), witness())
			return true
		}
		r.Count("helper_keys_matching_the_key_holder", 1)
	}
	return true
}

func addrClass(a string) string {
	if len(a) > 8 && a[:8] == "netaddr-" {
		return "peer-address"
	}
	return a
}

var _ = io.EOF
