package c03

import (
	"crypto"
	"crypto/ecdsa"
	"crypto/ed25519"
	"crypto/elliptic"
	crand "crypto/rand"
	"crypto/tls"
	"crypto/x509"
	"crypto/x509/pkix"
	"encoding/asn1"
	"fmt"
	"math/big"
	"math/rand/v2"
	"time"

	p2ptls "github.com/aperturerobotics/bifrost/crypto/tls"
	"verifharness/keys"
	"verifharness/vf"
)

// The harness builds every certificate itself and therefore knows by
// construction whether a chain is well-formed in the sense of the property: a
// single self-signed certificate carrying one key extension whose signature,
// made by identity key K, covers "libp2p-tls-handshake:" || PKIX(cert key).

var keyExtOID = asn1.ObjectIdentifier{1, 3, 6, 1, 4, 1, 53594, 1, 1}

const bindPrefix = "libp2p-tls-handshake:"

type signedKeyRef struct {
	PubKey    []byte
	Signature []byte
}

// class of a chain according to the harness' construction
type class int

const (
	mustAccept class = iota // well-formed: accept (subject to the expected-peer constraint), key = K
	mustReject              // not well-formed: must be refused
	keyOnly                 // acceptance not judged; if accepted the key must be K
)

func (c class) String() string { return [...]string{"must-accept", "must-reject", "key-only"}[c] }

type chainSpec struct {
	Variant  string `json:"variant"`
	K        int    `json:"identity_index"`       // identity whose key signs the binding (where one is made)
	Other    int    `json:"other_identity_index"` // second identity used by forged variants
	CertKey  string `json:"cert_key"`             // p256 | p384 | ed25519
	Critical bool   `json:"critical_extension"`
	Pos      int    `json:"pos"` // byte position for flip / truncation variants
}

type builtChain struct {
	Spec   chainSpec
	Raw    [][]byte
	Class  class
	Why    string
	TLS    *tls.Certificate // leaf + key for handshakes (nil for shapes without a usable key)
	Parsed bool
	// for well-formed chains: the certificate key and the raw value of the key
	// extension (public material an impersonator can copy byte for byte)
	certPriv crypto.Signer
	extValue []byte
}

// identity public key in the protobuf wire form (field 1 varint key type
// Ed25519 = 1, field 2 bytes) -- written by hand from the proto definition.
func pbPubKey(id *keys.Identity) []byte {
	raw := []byte(stdPub(id))
	out := []byte{0x08, 0x01, 0x12, byte(len(raw))}
	return append(out, raw...)
}

func stdPriv(id *keys.Identity) ed25519.PrivateKey {
	raw, err := id.Priv.Raw()
	if err != nil {
		panic(err)
	}
	return ed25519.PrivateKey(raw)
}

func stdPub(id *keys.Identity) ed25519.PublicKey {
	return stdPriv(id).Public().(ed25519.PublicKey)
}

// refBinding builds the key extension value: signer signs prefix||PKIX(certPub), embed is the embedded identity key.
func refBinding(signer, embed *keys.Identity, prefix string, certPub crypto.PublicKey) []byte {
	pk, err := x509.MarshalPKIXPublicKey(certPub)
	if err != nil {
		panic(err)
	}
	sig := ed25519.Sign(stdPriv(signer), append([]byte(prefix), pk...))
	v, err := asn1.Marshal(signedKeyRef{PubKey: pbPubKey(embed), Signature: sig})
	if err != nil {
		panic(err)
	}
	return v
}

type certKey struct {
	priv crypto.Signer
}

func newCertKey(kind string, rng *rand.Rand) certKey {
	switch kind {
	case "ed25519":
		seed := make([]byte, ed25519.SeedSize)
		for i := range seed {
			seed[i] = byte(rng.UintN(256))
		}
		return certKey{ed25519.NewKeyFromSeed(seed)}
	case "p384":
		k, err := ecdsa.GenerateKey(elliptic.P384(), crand.Reader)
		if err != nil {
			panic(err)
		}
		return certKey{k}
	default:
		k, err := ecdsa.GenerateKey(elliptic.P256(), crand.Reader)
		if err != nil {
			panic(err)
		}
		return certKey{k}
	}
}

func tmpl(rng *rand.Rand, cn string, notBefore, notAfter time.Time, exts []pkix.Extension) *x509.Certificate {
	return &x509.Certificate{
		SerialNumber:    big.NewInt(int64(rng.Uint64() >> 2)),
		Subject:         pkix.Name{SerialNumber: fmt.Sprint(rng.Uint64()), CommonName: cn},
		NotBefore:       notBefore,
		NotAfter:        notAfter,
		ExtraExtensions: exts,
	}
}

func mustCreate(t, parent *x509.Certificate, pub crypto.PublicKey, signer crypto.Signer) []byte {
	der, err := x509.CreateCertificate(crand.Reader, t, parent, pub, signer)
	if err != nil {
		panic(fmt.Sprintf("harness: CreateCertificate: %v", err))
	}
	return der
}

var variants = []string{
	"valid", "valid-pkg-extension", "valid-critical",
	"ext-embeds-other-key", "ext-signed-by-other-key", "ext-signature-over-other-cert-key", "ext-lifted-from-other-cert",
	"ext-wrong-prefix", "ext-no-prefix",
	"ext-missing", "ext-other-oid", "ext-empty", "ext-not-asn1", "ext-truncated", "ext-byte-flipped", "ext-duplicated",
	"signed-by-other-key-same-name", "signed-by-ca",
	"expired", "not-yet-valid",
	"chain-empty", "chain-two-distinct", "chain-two-same", "chain-valid-plus-garbage", "chain-garbage",
}

// build constructs the chain for a spec. pool = identity pool.
func build(spec chainSpec, pool []*keys.Identity, rng *rand.Rand) *builtChain {
	K, O := pool[spec.K], pool[spec.Other]
	ck := newCertKey(spec.CertKey, rng)
	pub := ck.priv.Public()
	now := time.Now()
	nb, na := now.Add(-time.Hour), now.Add(24*time.Hour)
	good := refBinding(K, K, bindPrefix, pub)
	ext := func(v []byte) []pkix.Extension {
		return []pkix.Extension{{Id: keyExtOID, Critical: spec.Critical, Value: v}}
	}
	self := func(exts []pkix.Extension) []byte {
		t := tmpl(rng, "", nb, na, exts)
		return mustCreate(t, t, pub, ck.priv)
	}
	b := &builtChain{Spec: spec, Class: mustReject}
	leafKey := ck.priv
	switch spec.Variant {
	case "valid", "valid-critical":
		b.Raw, b.Class, b.Why = [][]byte{self(ext(good))}, mustAccept, "single self-signed cert, binding signed by K over the cert key"
		b.certPriv, b.extValue = ck.priv, good
	case "valid-pkg-extension":
		e, err := p2ptls.GenerateSignedExtension(K.Priv, pub)
		if err != nil {
			panic(err)
		}
		e.Critical = spec.Critical
		b.Raw, b.Class, b.Why = [][]byte{self([]pkix.Extension{e})}, mustAccept, "single self-signed cert with the package's own GenerateSignedExtension"
		b.certPriv, b.extValue = ck.priv, e.Value
	case "ext-embeds-other-key":
		b.Raw, b.Why = [][]byte{self(ext(refBinding(K, O, bindPrefix, pub)))}, "extension embeds the public key of O but is signed by K"
	case "ext-signed-by-other-key":
		b.Raw, b.Why = [][]byte{self(ext(refBinding(O, K, bindPrefix, pub)))}, "extension embeds K but the signature was made by O"
	case "ext-signature-over-other-cert-key":
		other := newCertKey(spec.CertKey, rng)
		b.Raw, b.Why = [][]byte{self(ext(refBinding(K, K, bindPrefix, other.priv.Public())))}, "binding signature by K covers a different certificate key"
	case "ext-lifted-from-other-cert":
		// a genuine certificate of K is made; its extension is copied into an impostor's certificate (own cert key)
		victimKey := newCertKey(spec.CertKey, rng)
		victimExt := refBinding(K, K, bindPrefix, victimKey.priv.Public())
		b.Raw, b.Why = [][]byte{self(ext(victimExt))}, "K's genuine extension copied into a certificate with another key"
	case "ext-wrong-prefix":
		b.Raw, b.Why = [][]byte{self(ext(refBinding(K, K, "libp2p-tls-handshake", pub)))}, "binding signed over a different prefix"
	case "ext-no-prefix":
		b.Raw, b.Why = [][]byte{self(ext(refBinding(K, K, "", pub)))}, "binding signed over the bare cert key"
	case "ext-missing":
		b.Raw, b.Why = [][]byte{self(nil)}, "no key extension"
	case "ext-other-oid":
		b.Raw, b.Why = [][]byte{self([]pkix.Extension{{Id: asn1.ObjectIdentifier{1, 3, 6, 1, 4, 1, 53594, 1, 2}, Value: good}})}, "binding under a different OID"
	case "ext-empty":
		b.Raw, b.Why = [][]byte{self(ext([]byte{}))}, "empty extension value"
	case "ext-not-asn1":
		g := make([]byte, 20+rng.IntN(100))
		for i := range g {
			g[i] = byte(rng.UintN(256))
		}
		g[0] = 0xff // never a SEQUENCE
		b.Raw, b.Why = [][]byte{self(ext(g))}, "extension value is not ASN.1"
	case "ext-truncated":
		n := spec.Pos % len(good)
		b.Raw, b.Why = [][]byte{self(ext(good[:n]))}, fmt.Sprintf("extension value truncated to %d of %d bytes", n, len(good))
	case "ext-byte-flipped":
		v := append([]byte(nil), good...)
		i := spec.Pos % len(v)
		v[i] ^= byte(1 << (spec.Pos / len(v) % 8))
		// DER layout: 30 L | 04 L <36 bytes key> | 04 L <64 bytes sig>
		hdr := map[int]bool{0: true, 1: true, 2: true, 3: true, 4 + len(pbPubKey(K)): true, 5 + len(pbPubKey(K)): true}
		if hdr[i] {
			b.Class = keyOnly
			b.Why = fmt.Sprintf("bit flipped in DER header byte %d of the extension (acceptance not judged, key must stay K)", i)
		} else {
			b.Why = fmt.Sprintf("bit flipped in content byte %d of the extension", i)
		}
		b.Raw = [][]byte{self(ext(v))}
	case "ext-duplicated":
		b.Raw, b.Why = [][]byte{self(append(ext(good), ext(good)...))}, "key extension present twice"
	case "signed-by-other-key-same-name":
		signer := newCertKey(spec.CertKey, rng)
		t := tmpl(rng, "", nb, na, ext(good))
		b.Raw, b.Why = [][]byte{mustCreate(t, t, pub, signer.priv)}, "issuer = subject but the certificate signature was made by a different key (not self-signed)"
	case "signed-by-ca":
		caKey := newCertKey(spec.CertKey, rng)
		ca := tmpl(rng, "ca", nb, na, nil)
		ca.IsCA, ca.BasicConstraintsValid, ca.KeyUsage = true, true, x509.KeyUsageCertSign
		t := tmpl(rng, "leaf", nb, na, ext(good))
		b.Raw, b.Why = [][]byte{mustCreate(t, ca, pub, caKey.priv)}, "certificate issued and signed by another key (not self-signed)"
	case "expired":
		t := tmpl(rng, "", now.Add(-48*time.Hour), now.Add(-24*time.Hour), ext(good))
		b.Raw, b.Class, b.Why = [][]byte{mustCreate(t, t, pub, ck.priv)}, keyOnly, "valid binding, certificate expired (acceptance not judged)"
	case "not-yet-valid":
		t := tmpl(rng, "", now.Add(24*time.Hour), now.Add(48*time.Hour), ext(good))
		b.Raw, b.Class, b.Why = [][]byte{mustCreate(t, t, pub, ck.priv)}, keyOnly, "valid binding, certificate not yet valid (acceptance not judged)"
	case "chain-empty":
		b.Raw, b.Why, leafKey = [][]byte{}, "no certificate", nil
	case "chain-two-distinct":
		k2 := newCertKey(spec.CertKey, rng)
		t2 := tmpl(rng, "", nb, na, []pkix.Extension{{Id: keyExtOID, Value: refBinding(O, O, bindPrefix, k2.priv.Public())}})
		b.Raw, b.Why = [][]byte{self(ext(good)), mustCreate(t2, t2, k2.priv.Public(), k2.priv)}, "two well-formed certificates (K's, then O's)"
	case "chain-two-same":
		c := self(ext(good))
		b.Raw, b.Why = [][]byte{c, c}, "the same well-formed certificate twice"
	case "chain-valid-plus-garbage":
		b.Raw, b.Why = [][]byte{self(ext(good)), []byte("not a certificate")}, "well-formed certificate followed by garbage"
	case "chain-garbage":
		g := make([]byte, 50+rng.IntN(200))
		for i := range g {
			g[i] = byte(rng.UintN(256))
		}
		b.Raw, b.Why, leafKey = [][]byte{g}, "garbage DER", nil
	default:
		panic("unknown variant " + spec.Variant)
	}
	if leafKey != nil && len(b.Raw) > 0 {
		b.TLS = &tls.Certificate{Certificate: b.Raw, PrivateKey: leafKey}
	}
	return b
}

func tlsCert(raw [][]byte, leaf crypto.Signer) *tls.Certificate {
	return &tls.Certificate{Certificate: raw, PrivateKey: leaf}
}

func (b *builtChain) witness() map[string]any {
	raw := make([]string, len(b.Raw))
	for i, r := range b.Raw {
		raw[i] = fmt.Sprintf("%x", r)
	}
	return map[string]any{"spec": b.Spec, "construction": b.Why, "class": b.Class.String(), "chain_der_hex": raw}
}

var _ = vf.Hex
