package c03

import (
	"crypto"
	"crypto/ecdsa"
	"crypto/ed25519"
	"crypto/elliptic"
	crand "crypto/rand"
	"crypto/sha256"
	"crypto/tls"
	"crypto/x509"
	"crypto/x509/pkix"
	"encoding/asn1"
	"fmt"
	"math/big"
	"math/rand/v2"
	"time"

	p2ptls "github.com/aperturerobotics/bifrost/crypto/tls"
	"verifharness/keys"
	"verifharness/vf"
)

// The harness builds every certificate itself and therefore knows by
// construction whether a chain is well-formed in the sense of the property: a
// single self-signed certificate carrying one key extension whose signature,
// made by identity key K, covers "libp2p-tls-handshake:" || PKIX(cert key).

var keyExtOID = asn1.ObjectIdentifier{1, 3, 6, 1, 4, 1, 53594, 1, 1}

const bindPrefix = "libp2p-tls-handshake:"

type signedKeyRef struct {
	PubKey    []byte
	Signature []byte
}

// class of a chain according to the harness' construction
type class int

const (
	mustAccept class = iota // well-formed: accept (subject to the expected-peer constraint), key = K
	mustReject              // not well-formed: must be refused
	keyOnly                 // acceptance not judged; if accepted the key must be K
)

func (c class) String() string { return [...]string{"must-accept", "must-reject", "key-only"}[c] }

type chainSpec struct {
	Variant  string `json:"variant"`
	K        int    `json:"identity_index"`       // identity whose key signs the binding (where one is made)
	Other    int    `json:"other_identity_index"` // second identity used by forged variants
	CertKey  string `json:"cert_key"`             // p256 | p384 | ed25519
	Critical bool   `json:"critical_extension"`
	Pos      int    `json:"pos"` // byte position for flip / truncation variants
}

type builtChain struct {
	Spec   chainSpec
	Raw    [][]byte
	Class  class
	Why    string
	TLS    *tls.Certificate // leaf + key for handshakes (nil for shapes without a usable key)
	Parsed bool
	// for well-formed chains: the certificate key and the raw value of the key
	// extension (public material an impersonator can copy byte for byte)
	certPriv crypto.Signer
	extValue []byte
}

// identity public key in the protobuf wire form (field 1 varint key type
// Ed25519 = 1, field 2 bytes) -- written by hand from the proto definition.
func pbPubKey(id *keys.Identity) []byte {
	raw := []byte(stdPub(id))
	out := []byte{0x08, 0x01, 0x12, byte(len(raw))}
	return append(out, raw...)
}

func stdPriv(id *keys.Identity) ed25519.PrivateKey {
	raw, err := id.Priv.Raw()
	if err != nil {
		panic(err)
	}
	return ed25519.PrivateKey(raw)
}

func stdPub(id *keys.Identity) ed25519.PublicKey {
	return stdPriv(id).Public().(ed25519.PublicKey)
}

// refBinding builds the key extension value: signer signs prefix||PKIX(certPub), embed is the embedded identity key.
func refBinding(signer, embed *keys.Identity, prefix string, certPub crypto.PublicKey) []byte {
	pk, err := x509.MarshalPKIXPublicKey(certPub)
	if err != nil {
		panic(err)
	}
	sig := ed25519.Sign(stdPriv(signer), append([]byte(prefix), pk...))
	v, err := asn1.Marshal(signedKeyRef{PubKey: pbPubKey(embed), Signature: sig})
	if err != nil {
		panic(err)
	}
	return v
}

type certKey struct {
	priv crypto.Signer
}

func newCertKey(kind string, rng *rand.Rand) certKey {
	switch kind {
	case "ed25519":
		seed := make([]byte, ed25519.SeedSize)
		for i := range seed {
			seed[i] = byte(rng.UintN(256))
		}
		return certKey{ed25519.NewKeyFromSeed(seed)}
	case "p384":
		k, err := ecdsa.GenerateKey(elliptic.P384(), crand.Reader)
		if err != nil {
			panic(err)
		}
		return certKey{k}
	default:
		k, err := ecdsa.GenerateKey(elliptic.P256(), crand.Reader)
		if err != nil {
			panic(err)
		}
		return certKey{k}
	}
}

func tmpl(rng *rand.Rand, cn string, notBefore, notAfter time.Time, exts []pkix.Extension) *x509.Certificate {
	return &x509.Certificate{
		SerialNumber:    big.NewInt(int64(rng.Uint64() >> 2)),
		Subject:         pkix.Name{SerialNumber: fmt.Sprint(rng.Uint64()), CommonName: cn},
		NotBefore:       notBefore,
		NotAfter:        notAfter,
		ExtraExtensions: exts,
	}
}

func mustCreate(t, parent *x509.Certificate, pub crypto.PublicKey, signer crypto.Signer) []byte {
	der, err := x509.CreateCertificate(crand.Reader, t, parent, pub, signer)
	if err != nil {
		panic(fmt.Sprintf("harness: CreateCertificate: %v", err))
	}
	return der
}

var variants = []string{
	"valid", "valid-pkg-extension", "valid-critical",
	"ext-embeds-other-key", "ext-signed-by-other-key", "ext-signature-over-other-cert-key", "ext-lifted-from-other-cert",
	"ext-wrong-prefix", "ext-no-prefix",
	"ext-missing", "ext-other-oid", "ext-empty", "ext-not-asn1", "ext-truncated", "ext-byte-flipped", "ext-duplicated",
	"signed-by-other-key-same-name", "signed-by-ca",
	// not self-signed in every flavour the DER allows (the signature algorithm identifiers / the signature value are rewritten at the ASN.1 level)
	"notself-unknown-alg", "notself-unknown-alg-tbs-resigned", "notself-unknown-alg-outer-only", "notself-unknown-alg-inner-only", "notself-two-unknown-algs",
	"notself-refused-alg", "notself-other-known-alg", "notself-other-known-alg-tbs-resigned",
	"selfsig-bit-flipped", "selfsig-empty", "selfsig-truncated", "selfsig-zeroed", "selfsig-of-other-cert",
	"expired", "not-yet-valid",
	"chain-empty", "chain-two-distinct", "chain-two-same", "chain-valid-plus-garbage", "chain-garbage",
}

// build constructs the chain for a spec. pool = identity pool.
func build(spec chainSpec, pool []*keys.Identity, rng *rand.Rand) *builtChain {
	K, O := pool[spec.K], pool[spec.Other]
	ck := newCertKey(spec.CertKey, rng)
	pub := ck.priv.Public()
	now := time.Now()
	nb, na := now.Add(-time.Hour), now.Add(24*time.Hour)
	good := refBinding(K, K, bindPrefix, pub)
	ext := func(v []byte) []pkix.Extension {
		return []pkix.Extension{{Id: keyExtOID, Critical: spec.Critical, Value: v}}
	}
	self := func(exts []pkix.Extension) []byte {
		t := tmpl(rng, "", nb, na, exts)
		return mustCreate(t, t, pub, ck.priv)
	}
	b := &builtChain{Spec: spec, Class: mustReject}
	leafKey := ck.priv
	switch spec.Variant {
	case "valid", "valid-critical":
		b.Raw, b.Class, b.Why = [][]byte{self(ext(good))}, mustAccept, "single self-signed cert, binding signed by K over the cert key"
		b.certPriv, b.extValue = ck.priv, good
	case "valid-pkg-extension":
		e, err := p2ptls.GenerateSignedExtension(K.Priv, pub)
		if err != nil {
			panic(err)
		}
		e.Critical = spec.Critical
		b.Raw, b.Class, b.Why = [][]byte{self([]pkix.Extension{e})}, mustAccept, "single self-signed cert with the package's own GenerateSignedExtension"
		b.certPriv, b.extValue = ck.priv, e.Value
	case "ext-embeds-other-key":
		b.Raw, b.Why = [][]byte{self(ext(refBinding(K, O, bindPrefix, pub)))}, "extension embeds the public key of O but is signed by K"
	case "ext-signed-by-other-key":
		b.Raw, b.Why = [][]byte{self(ext(refBinding(O, K, bindPrefix, pub)))}, "extension embeds K but the signature was made by O"
	case "ext-signature-over-other-cert-key":
		other := newCertKey(spec.CertKey, rng)
		b.Raw, b.Why = [][]byte{self(ext(refBinding(K, K, bindPrefix, other.priv.Public())))}, "binding signature by K covers a different certificate key"
	case "ext-lifted-from-other-cert":
		// a genuine certificate of K is made; its extension is copied into an impostor's certificate (own cert key)
		victimKey := newCertKey(spec.CertKey, rng)
		victimExt := refBinding(K, K, bindPrefix, victimKey.priv.Public())
		b.Raw, b.Why = [][]byte{self(ext(victimExt))}, "K's genuine extension copied into a certificate with another key"
	case "ext-wrong-prefix":
		b.Raw, b.Why = [][]byte{self(ext(refBinding(K, K, "libp2p-tls-handshake", pub)))}, "binding signed over a different prefix"
	case "ext-no-prefix":
		b.Raw, b.Why = [][]byte{self(ext(refBinding(K, K, "", pub)))}, "binding signed over the bare cert key"
	case "ext-missing":
		b.Raw, b.Why = [][]byte{self(nil)}, "no key extension"
	case "ext-other-oid":
		b.Raw, b.Why = [][]byte{self([]pkix.Extension{{Id: asn1.ObjectIdentifier{1, 3, 6, 1, 4, 1, 53594, 1, 2}, Value: good}})}, "binding under a different OID"
	case "ext-empty":
		b.Raw, b.Why = [][]byte{self(ext([]byte{}))}, "empty extension value"
	case "ext-not-asn1":
		g := make([]byte, 20+rng.IntN(100))
		for i := range g {
			g[i] = byte(rng.UintN(256))
		}
		g[0] = 0xff // never a SEQUENCE
		b.Raw, b.Why = [][]byte{self(ext(g))}, "extension value is not ASN.1"
	case "ext-truncated":
		n := spec.Pos % len(good)
		b.Raw, b.Why = [][]byte{self(ext(good[:n]))}, fmt.Sprintf("extension value truncated to %d of %d bytes", n, len(good))
	case "ext-byte-flipped":
		v := append([]byte(nil), good...)
		i := spec.Pos % len(v)
		v[i] ^= byte(1 << (spec.Pos / len(v) % 8))
		// DER layout: 30 L | 04 L <36 bytes key> | 04 L <64 bytes sig>
		hdr := map[int]bool{0: true, 1: true, 2: true, 3: true, 4 + len(pbPubKey(K)): true, 5 + len(pbPubKey(K)): true}
		if hdr[i] {
			b.Class = keyOnly
			b.Why = fmt.Sprintf("bit flipped in DER header byte %d of the extension (acceptance not judged, key must stay K)", i)
		} else {
			b.Why = fmt.Sprintf("bit flipped in content byte %d of the extension", i)
		}
		b.Raw = [][]byte{self(ext(v))}
	case "ext-duplicated":
		b.Raw, b.Why = [][]byte{self(append(ext(good), ext(good)...))}, "key extension present twice"
	case "signed-by-other-key-same-name":
		signer := newCertKey(spec.CertKey, rng)
		t := tmpl(rng, "", nb, na, ext(good))
		b.Raw, b.Why = [][]byte{mustCreate(t, t, pub, signer.priv)}, "issuer = subject but the certificate signature was made by a different key (not self-signed)"
	case "signed-by-ca":
		caKey := newCertKey(spec.CertKey, rng)
		ca := tmpl(rng, "ca", nb, na, nil)
		ca.IsCA, ca.BasicConstraintsValid, ca.KeyUsage = true, true, x509.KeyUsageCertSign
		t := tmpl(rng, "leaf", nb, na, ext(good))
		b.Raw, b.Why = [][]byte{mustCreate(t, ca, pub, caKey.priv)}, "certificate issued and signed by another key (not self-signed)"
	case "notself-unknown-alg", "notself-unknown-alg-tbs-resigned", "notself-unknown-alg-outer-only", "notself-unknown-alg-inner-only", "notself-two-unknown-algs",
		"notself-refused-alg", "notself-other-known-alg", "notself-other-known-alg-tbs-resigned":
		// issuer = subject, valid binding for the TLS key, but the certificate signature was made by an unrelated key;
		// then the signatureAlgorithm identifiers are rewritten
		signer := newCertKey(spec.CertKey, rng)
		t := tmpl(rng, "", nb, na, ext(good))
		base := mustCreate(t, t, pub, signer.priv)
		list, what := unknownAlgOIDs, "an OID crypto/x509 does not know"
		switch spec.Variant {
		case "notself-refused-alg":
			list, what = refusedAlgOIDs, "an MD2/MD5/SHA-1/DSA based algorithm crypto/x509 refuses to verify"
		case "notself-other-known-alg", "notself-other-known-alg-tbs-resigned":
			list, what = otherKnownAlgOIDs, "another algorithm crypto/x509 knows"
		}
		oid := list[spec.Pos%len(list)]
		if oid == nil {
			oid = asn1.ObjectIdentifier{2, 999, 1 + spec.Pos%100000, 1 + spec.Pos%7} // an arc nobody assigned
		}
		inner, outer := algID(oid), algID(oid)
		var resign crypto.Signer
		where := "both signatureAlgorithm identifiers"
		switch spec.Variant {
		case "notself-unknown-alg-outer-only":
			inner, where = nil, "the outer signatureAlgorithm identifier only (the identifiers mismatch)"
		case "notself-unknown-alg-inner-only":
			outer, where = nil, "the signatureAlgorithm identifier inside the TBS only (the identifiers mismatch)"
		case "notself-two-unknown-algs":
			o2 := unknownAlgOIDs[(spec.Pos/len(list))%(len(list)-1)]
			if o2.Equal(oid) {
				o2 = unknownAlgOIDs[(spec.Pos/len(list)+1)%(len(list)-1)]
			}
			outer, where = algID(o2), "both signatureAlgorithm identifiers (two different unknown OIDs, outer "+o2.String()+")"
		case "notself-unknown-alg-tbs-resigned", "notself-other-known-alg-tbs-resigned":
			resign, where = signer.priv, "both signatureAlgorithm identifiers, the rewritten TBS signed again by the unrelated key"
		}
		b.Raw = [][]byte{rewriteCert(base, inner, outer, func(tbs, old []byte) []byte {
			if resign == nil {
				return old
			}
			return signTBS(resign, tbs)
		})}
		b.Why = fmt.Sprintf("issuer = subject and a valid key binding, but the certificate signature was made by an unrelated key (not self-signed); %s rewritten to %s (%s)", where, what, oid.String())
	case "selfsig-bit-flipped", "selfsig-empty", "selfsig-truncated", "selfsig-zeroed", "selfsig-of-other-cert":
		// a genuinely self-signed certificate whose signature value is then damaged / exchanged: no valid self-signature
		base := self(ext(good))
		other := self(ext(good)) // same key, same binding, other serial: its signature does not cover base's TBS
		b.Raw = [][]byte{rewriteCert(base, nil, nil, func(tbs, old []byte) []byte {
			switch spec.Variant {
			case "selfsig-bit-flipped":
				v := append([]byte(nil), old...)
				i := spec.Pos % len(v)
				v[i] ^= byte(1 << (spec.Pos / len(v) % 8))
				b.Why = fmt.Sprintf("self-signed certificate with one bit of the signature value flipped (byte %d of %d)", i, len(v))
				return v
			case "selfsig-empty":
				b.Why = "self-signed certificate whose signature value was replaced by an empty bit string"
				return nil
			case "selfsig-truncated":
				n := spec.Pos % len(old)
				b.Why = fmt.Sprintf("self-signed certificate whose signature value was truncated to %d of %d bytes", n, len(old))
				return old[:n]
			case "selfsig-zeroed":
				b.Why = "self-signed certificate whose signature value was overwritten with zero bytes"
				return make([]byte, len(old))
			default:
				b.Why = "certificate carrying the (valid) self-signature of ANOTHER certificate over the same key"
				return certSignature(other)
			}
		})}
	case "expired":
		t := tmpl(rng, "", now.Add(-48*time.Hour), now.Add(-24*time.Hour), ext(good))
		b.Raw, b.Class, b.Why = [][]byte{mustCreate(t, t, pub, ck.priv)}, keyOnly, "valid binding, certificate expired (acceptance not judged)"
	case "not-yet-valid":
		t := tmpl(rng, "", now.Add(24*time.Hour), now.Add(48*time.Hour), ext(good))
		b.Raw, b.Class, b.Why = [][]byte{mustCreate(t, t, pub, ck.priv)}, keyOnly, "valid binding, certificate not yet valid (acceptance not judged)"
	case "chain-empty":
		b.Raw, b.Why, leafKey = [][]byte{}, "no certificate", nil
	case "chain-two-distinct":
		k2 := newCertKey(spec.CertKey, rng)
		t2 := tmpl(rng, "", nb, na, []pkix.Extension{{Id: keyExtOID, Value: refBinding(O, O, bindPrefix, k2.priv.Public())}})
		b.Raw, b.Why = [][]byte{self(ext(good)), mustCreate(t2, t2, k2.priv.Public(), k2.priv)}, "two well-formed certificates (K's, then O's)"
	case "chain-two-same":
		c := self(ext(good))
		b.Raw, b.Why = [][]byte{c, c}, "the same well-formed certificate twice"
	case "chain-valid-plus-garbage":
		b.Raw, b.Why = [][]byte{self(ext(good)), []byte("not a certificate")}, "well-formed certificate followed by garbage"
	case "chain-garbage":
		g := make([]byte, 50+rng.IntN(200))
		for i := range g {
			g[i] = byte(rng.UintN(256))
		}
		b.Raw, b.Why, leafKey = [][]byte{g}, "garbage DER", nil
	default:
		panic("unknown variant " + spec.Variant)
	}
	if leafKey != nil && len(b.Raw) > 0 {
		b.TLS = &tls.Certificate{Certificate: b.Raw, PrivateKey: leafKey}
	}
	return b
}

// ---- signature algorithm identifiers used by the rewritten certificates

var (
	// not implemented by crypto/x509 (nil = an unassigned arc made from the position)
	unknownAlgOIDs = []asn1.ObjectIdentifier{
		{1, 2, 840, 10045, 4, 3, 9},       // unassigned member of the ecdsa-with-SHA2 arc
		{1, 2, 840, 10045, 4, 3, 1},       // ecdsa-with-SHA224
		{1, 2, 840, 113549, 1, 1, 99},     // unassigned member of the PKCS#1 arc
		{1, 2, 840, 113549, 1, 1, 14},     // sha224WithRSAEncryption
		{1, 3, 101, 113},                  // Ed448
		{1, 2, 156, 10197, 1, 501},        // SM2 with SM3
		{2, 16, 840, 1, 101, 3, 4, 3, 10}, // ecdsa-with-SHA3-256
		{1, 3, 6, 1, 4, 1, 53594, 9, 9},   // private arc
		nil,
	}
	// known to crypto/x509 but refused for verification (or never implemented: DSA)
	refusedAlgOIDs = []asn1.ObjectIdentifier{
		{1, 2, 840, 113549, 1, 1, 2},     // md2WithRSAEncryption
		{1, 2, 840, 113549, 1, 1, 4},     // md5WithRSAEncryption
		{1, 2, 840, 113549, 1, 1, 5},     // sha1WithRSAEncryption
		{1, 3, 14, 3, 2, 29},             // sha1WithRSA (ISO)
		{1, 2, 840, 10045, 4, 1},         // ecdsa-with-SHA1
		{1, 2, 840, 10040, 4, 3},         // dsa-with-sha1
		{2, 16, 840, 1, 101, 3, 4, 3, 2}, // dsa-with-sha256
	}
	// implemented by crypto/x509
	otherKnownAlgOIDs = []asn1.ObjectIdentifier{
		{1, 2, 840, 10045, 4, 3, 2},   // ecdsa-with-SHA256
		{1, 2, 840, 10045, 4, 3, 3},   // ecdsa-with-SHA384
		{1, 2, 840, 10045, 4, 3, 4},   // ecdsa-with-SHA512
		{1, 2, 840, 113549, 1, 1, 11}, // sha256WithRSAEncryption
		{1, 2, 840, 113549, 1, 1, 10}, // RSASSA-PSS (without parameters)
		{1, 3, 101, 112},              // Ed25519
	}
)

// algID marshals an AlgorithmIdentifier (NULL parameters for the RSA PKCS#1 v1.5 family, none otherwise).
func algID(oid asn1.ObjectIdentifier) []byte {
	ai := pkix.AlgorithmIdentifier{Algorithm: oid}
	rsaArc := asn1.ObjectIdentifier{1, 2, 840, 113549, 1, 1}
	if (len(oid) == 7 && oid[:6].Equal(rsaArc) && oid[6] != 10) || oid.Equal(asn1.ObjectIdentifier{1, 3, 14, 3, 2, 29}) {
		ai.Parameters = asn1.NullRawValue
	}
	out, err := asn1.Marshal(ai)
	if err != nil {
		panic(err)
	}
	return out
}

// ---- a minimal DER reader / writer (single-byte tags, definite lengths: all a certificate uses)

type tlv struct {
	tag     byte
	content []byte
	raw     []byte
}

func derSplit(b []byte) []tlv {
	var out []tlv
	for len(b) > 0 {
		if len(b) < 2 {
			panic("harness: short DER")
		}
		n, hdr := int(b[1]), 2
		if b[1]&0x80 != 0 {
			k := int(b[1] & 0x7f)
			if k == 0 || k > 3 || len(b) < 2+k {
				panic("harness: unsupported DER length")
			}
			n = 0
			for _, c := range b[2 : 2+k] {
				n = n<<8 | int(c)
			}
			hdr = 2 + k
		}
		if len(b) < hdr+n {
			panic("harness: truncated DER")
		}
		out = append(out, tlv{tag: b[0], content: b[hdr : hdr+n], raw: b[:hdr+n]})
		b = b[hdr+n:]
	}
	return out
}

func derEnc(tag byte, content []byte) []byte {
	out := []byte{tag}
	switch n := len(content); {
	case n < 0x80:
		out = append(out, byte(n))
	case n < 0x100:
		out = append(out, 0x81, byte(n))
	case n < 0x10000:
		out = append(out, 0x82, byte(n>>8), byte(n))
	default:
		out = append(out, 0x83, byte(n>>16), byte(n>>8), byte(n))
	}
	return append(out, content...)
}

// rewriteCert re-marshals a certificate with the signatureAlgorithm identifier
// inside the TBS (inner) and / or next to the signature (outer) replaced (nil =
// kept) and the signature value replaced by sig(new TBS DER, old signature bytes).
func rewriteCert(der, inner, outer []byte, sig func(tbs, old []byte) []byte) []byte {
	top := derSplit(der)
	if len(top) != 1 || top[0].tag != 0x30 {
		panic("harness: not a certificate")
	}
	kids := derSplit(top[0].content)
	if len(kids) != 3 || kids[0].tag != 0x30 || kids[1].tag != 0x30 || kids[2].tag != 0x03 || len(kids[2].content) < 1 {
		panic("harness: unexpected certificate layout")
	}
	tk := derSplit(kids[0].content)
	idx := 1
	if tk[0].tag == 0xa0 { // explicit version
		idx = 2
	}
	if tk[idx].tag != 0x30 {
		panic("harness: unexpected TBS layout")
	}
	var tbsContent []byte
	for i, k := range tk {
		if i == idx && inner != nil {
			tbsContent = append(tbsContent, inner...)
		} else {
			tbsContent = append(tbsContent, k.raw...)
		}
	}
	tbs := derEnc(0x30, tbsContent)
	alg := kids[1].raw
	if outer != nil {
		alg = outer
	}
	newSig := sig(tbs, kids[2].content[1:])
	body := append(append(append([]byte(nil), tbs...), alg...), derEnc(0x03, append([]byte{0}, newSig...))...)
	return derEnc(0x30, body)
}

// certSignature returns the signature value of a certificate.
func certSignature(der []byte) []byte {
	kids := derSplit(derSplit(der)[0].content)
	return append([]byte(nil), kids[2].content[1:]...)
}

// signTBS signs a TBS with the key's usual algorithm (ECDSA / SHA-256 resp. pure Ed25519).
func signTBS(k crypto.Signer, tbs []byte) []byte {
	var sig []byte
	var err error
	if _, ok := k.(ed25519.PrivateKey); ok {
		sig, err = k.Sign(crand.Reader, tbs, crypto.Hash(0))
	} else {
		d := sha256.Sum256(tbs)
		sig, err = k.Sign(crand.Reader, d[:], crypto.SHA256)
	}
	if err != nil {
		panic(err)
	}
	return sig
}

func tlsCert(raw [][]byte, leaf crypto.Signer) *tls.Certificate {
	return &tls.Certificate{Certificate: raw, PrivateKey: leaf}
}

func (b *builtChain) witness() map[string]any {
	raw := make([]string, len(b.Raw))
	for i, r := range b.Raw {
		raw[i] = fmt.Sprintf("%x", r)
	}
	return map[string]any{"spec": b.Spec, "construction": b.Why, "class": b.Class.String(), "chain_der_hex": raw}
}

var _ = vf.Hex
