// C11, aliasing / history part: an encoding of a key must not depend on what
// a caller did with the bytes an EARLIER encode call returned, and a decoded
// key must not depend on what the caller does with the INPUT bytes afterwards.
//
// For every key object the harness runs a PRNG sequence of encode operations
// on the SAME object; after every call it compares the output with its own
// reference encoding (g1util key protobuf, encoding/pem, own base58, own peer
// id multihash), then scribbles over the returned slice (bit flip, fill,
// zero, reverse, overwrite through append(s[:0], ...), write into the spare
// capacity) and goes on. Key objects of every origin are used (generated,
// decoded from protobuf / PEM / base58, GetPublic of a private key, extracted
// from a peer id, KeyPairFromStdKey): a cache may sit on any of them.
//
// Encoders / decoders that hand out or keep the caller's slice BY DESIGN on
// the unchanged tree (Raw() of a public key, PublicKeyToProto's Data, the
// std-lib conversions, UnmarshalEd25519{Public,Private}Key for the 32 / 64
// byte forms, as in go-libp2p) are not scribbled on: the property text says
// nothing about them, they are listed in the evidence instead.
package c11

import (
	"bytes"
	"crypto/ed25519"
	"encoding/pem"
	"fmt"
	"math/rand/v2"

	"github.com/aperturerobotics/bifrost/crypto"
	"github.com/aperturerobotics/bifrost/keypem"
	"github.com/aperturerobotics/bifrost/peer"
	"github.com/aperturerobotics/bifrost/util/confparse"

	g "verifharness/g1util"
	"verifharness/vf"
)

// aliasObj is one key object under test together with the ground truth.
type aliasObj struct {
	origin string
	k      *g.Key
	priv   crypto.PrivKey // nil for public-only origins
	pub    crypto.PubKey
}

// refEnc: the harness' own encodings of key k.
type refEnc struct {
	pubProto, privProto []byte
	pubPem, privPem     []byte
	pubB58, privB58     string
	id                  string // raw peer id bytes
	idText              string
}

func refEncodings(k *g.Key) *refEnc {
	e := &refEnc{pubProto: g.MarshalKeyProto(g.KeyTypeEd25519, k.Pub), privProto: g.MarshalKeyProto(g.KeyTypeEd25519, k.Std)}
	e.pubPem = pem.EncodeToMemory(&pem.Block{Type: "LIBP2P PUBLIC KEY", Bytes: e.pubProto})
	e.privPem = pem.EncodeToMemory(&pem.Block{Type: "LIBP2P PRIVATE KEY", Bytes: e.privProto})
	e.pubB58, e.privB58 = g.B58Encode(e.pubProto), g.B58Encode(e.privProto)
	e.id = string(g.RefPeerIDBytes(k.Pub))
	e.idText = g.B58Encode([]byte(e.id))
	return e
}

// aliasOp is one encoder: it returns the encoding and (for byte encoders) the
// slice the caller now owns. carries = which key material the encoding holds.
type aliasOp struct {
	name     string
	needPriv bool
	run      func(o *aliasObj) (out []byte, text string, err error)
	// check compares with the reference; returns "" when fine
	check func(e *refEnc, out []byte, text string) string
}

func eqBytes(want []byte) func(out []byte) string {
	return func(out []byte) string {
		if !bytes.Equal(out, want) {
			return fmt.Sprintf("got %x want %x", out, want)
		}
		return ""
	}
}

// pemCarries: the first PEM block (encoding/pem) has the type and carries the bytes.
func pemCarries(out []byte, typ string, want []byte) string {
	blk, _ := pem.Decode(out)
	if blk == nil {
		return fmt.Sprintf("no PEM block in %.120q", out)
	}
	if blk.Type != typ || !bytes.Equal(blk.Bytes, want) {
		return fmt.Sprintf("PEM block type %q carries %x, want type %q carrying %x", blk.Type, blk.Bytes, typ, want)
	}
	return ""
}

func aliasOps() []aliasOp {
	return []aliasOp{
		{"crypto.MarshalPublicKey", false, func(o *aliasObj) ([]byte, string, error) { b, err := crypto.MarshalPublicKey(o.pub); return b, "", err },
			func(e *refEnc, out []byte, _ string) string { return eqBytes(e.pubProto)(out) }},
		{"keypem.MarshalPubKeyPem", false, func(o *aliasObj) ([]byte, string, error) { b, err := keypem.MarshalPubKeyPem(o.pub); return b, "", err },
			func(e *refEnc, out []byte, _ string) string { return pemCarries(out, "LIBP2P PUBLIC KEY", e.pubProto) }},
		{"confparse.MarshalPublicKeyPEM", false, func(o *aliasObj) ([]byte, string, error) {
			b, err := confparse.MarshalPublicKeyPEM(o.pub)
			return b, "", err
		}, func(e *refEnc, out []byte, _ string) string { return pemCarries(out, "LIBP2P PUBLIC KEY", e.pubProto) }},
		{"confparse.MarshalPublicKey", false, func(o *aliasObj) ([]byte, string, error) {
			s, err := confparse.MarshalPublicKey(o.pub)
			return nil, s, err
		}, func(e *refEnc, _ []byte, s string) string {
			if s != e.pubB58 {
				return fmt.Sprintf("got %q want %q", s, e.pubB58)
			}
			return ""
		}},
		{"peer.IDFromPublicKey", false, func(o *aliasObj) ([]byte, string, error) {
			id, err := peer.IDFromPublicKey(o.pub)
			return nil, string(id), err
		}, func(e *refEnc, _ []byte, s string) string {
			if s != e.id {
				return fmt.Sprintf("got id %x want %x", s, e.id)
			}
			return ""
		}},
		{"peer.IDFromPublicKey.String", false, func(o *aliasObj) ([]byte, string, error) {
			id, err := peer.IDFromPublicKey(o.pub)
			return nil, id.String(), err
		}, func(e *refEnc, _ []byte, s string) string {
			if s != e.idText {
				return fmt.Sprintf("got %q want %q", s, e.idText)
			}
			return ""
		}},
		{"crypto.MarshalPrivateKey", true, func(o *aliasObj) ([]byte, string, error) { b, err := crypto.MarshalPrivateKey(o.priv); return b, "", err },
			func(e *refEnc, out []byte, _ string) string { return eqBytes(e.privProto)(out) }},
		{"keypem.MarshalPrivKeyPem", true, func(o *aliasObj) ([]byte, string, error) { b, err := keypem.MarshalPrivKeyPem(o.priv); return b, "", err },
			func(e *refEnc, out []byte, _ string) string { return pemCarries(out, "LIBP2P PRIVATE KEY", e.privProto) }},
		{"confparse.MarshalPrivateKeyPEM", true, func(o *aliasObj) ([]byte, string, error) {
			b, err := confparse.MarshalPrivateKeyPEM(o.priv)
			return b, "", err
		}, func(e *refEnc, out []byte, _ string) string { return pemCarries(out, "LIBP2P PRIVATE KEY", e.privProto) }},
		{"confparse.MarshalPrivateKey", true, func(o *aliasObj) ([]byte, string, error) {
			s, err := confparse.MarshalPrivateKey(o.priv)
			return nil, s, err
		}, func(e *refEnc, _ []byte, s string) string {
			if s != e.privB58 {
				return fmt.Sprintf("got %q want %q", s, e.privB58)
			}
			return ""
		}},
		{"peer.IDFromPrivateKey", true, func(o *aliasObj) ([]byte, string, error) {
			id, err := peer.IDFromPrivateKey(o.priv)
			return nil, string(id), err
		}, func(e *refEnc, _ []byte, s string) string {
			if s != e.id {
				return fmt.Sprintf("got id %x want %x", s, e.id)
			}
			return ""
		}},
		{"Raw(private)", true, func(o *aliasObj) ([]byte, string, error) { b, err := o.priv.Raw(); return b, "", err },
			func(e *refEnc, out []byte, _ string) string { return eqBytes(e.privProto[len(e.privProto)-64:])(out) }},
		{"priv.Sign", true, func(o *aliasObj) ([]byte, string, error) { b, err := o.priv.Sign(probeMsg); return b, "", err },
			nil},
	}
}

// scribble overwrites a slice the harness owns in one of several ways and
// returns the name of the way. The slice header itself is the harness' copy;
// only the backing array is written.
func scribble(rng *rand.Rand, s []byte) string {
	if len(s) == 0 && cap(s) == 0 {
		return "empty"
	}
	mode := rng.IntN(7)
	switch mode {
	case 0: // one bit
		if len(s) > 0 {
			s[rng.IntN(len(s))] ^= 1 << rng.UintN(8)
		}
		return "bit-flip"
	case 1: // last byte (the key material's tail)
		if len(s) > 0 {
			s[len(s)-1] ^= 0x01
		}
		return "last-byte"
	case 2:
		for i := range s {
			s[i] = 0xAA
		}
		return "fill"
	case 3:
		for i := range s {
			s[i] = 0
		}
		return "zero"
	case 4:
		for i, j := 0, len(s)-1; i < j; i, j = i+1, j-1 {
			s[i], s[j] = s[j], s[i]
		}
		if len(s) > 0 {
			s[0] ^= 0x80
		}
		return "reverse"
	case 5: // reuse as a buffer
		t := s[:0]
		for i := 0; i < len(s); i++ {
			t = append(t, byte(rng.UintN(256)))
		}
		return "reuse-as-buffer"
	default: // everything, spare capacity included
		f := s[:cap(s)]
		for i := range f {
			f[i] ^= 0xff
		}
		return "invert-incl-capacity"
	}
}

// aliasObjects builds fresh key objects of key k through every origin. None of
// them is shared with the rest of the check.
func aliasObjects(k0 *g.Key) []*aliasObj {
	k := g.KeyFromSeed(append([]byte(nil), k0.Seed...), k0.Idx)
	e := refEncodings(k)
	var out []*aliasObj
	add := func(origin string, priv crypto.PrivKey, pub crypto.PubKey, err error) {
		if err != nil || pub == nil {
			return // decode failures are judged by the round-trip part
		}
		out = append(out, &aliasObj{origin: origin, k: k, priv: priv, pub: pub})
	}
	add("generated", k.Priv, k.PubK, nil)
	add("generated-public-only", nil, g.KeyFromSeed(append([]byte(nil), k0.Seed...), k0.Idx).PubK, nil)
	{
		p := g.KeyFromSeed(append([]byte(nil), k0.Seed...), k0.Idx).Priv
		add("GetPublic", p, p.GetPublic(), nil)
	}
	{
		u, err := crypto.UnmarshalPublicKey(bytes.Clone(e.pubProto))
		add("UnmarshalPublicKey", nil, u, err)
	}
	{
		p, err := crypto.UnmarshalPrivateKey(bytes.Clone(e.privProto))
		if err == nil && p != nil {
			add("UnmarshalPrivateKey", p, p.GetPublic(), nil)
		}
	}
	{
		p, u, err := keypem.ParseKeyPem(bytes.Clone(e.privPem))
		if p != nil {
			add("ParseKeyPem", p, u, err)
		}
	}
	{
		u, err := keypem.ParsePubKeyPem(bytes.Clone(e.pubPem))
		add("ParsePubKeyPem", nil, u, err)
	}
	{
		u, err := confparse.ParsePublicKey(e.pubB58)
		add("confparse.ParsePublicKey", nil, u, err)
	}
	{
		p, err := confparse.ParsePrivateKey(e.privB58)
		if err == nil && p != nil {
			add("confparse.ParsePrivateKey", p, p.GetPublic(), nil)
		}
	}
	{
		u, err := peer.ID(e.id).ExtractPublicKey()
		add("peer.ID.ExtractPublicKey", nil, u, err)
	}
	{
		std := ed25519.PrivateKey(bytes.Clone(k.Std))
		p, u, err := crypto.KeyPairFromStdKey(std)
		if p != nil {
			add("KeyPairFromStdKey", p, u, err)
		}
	}
	return out
}

// aliasDecoder: decode a harness-owned buffer, scribble over the buffer, the key must be unaffected.
type aliasDecoder struct {
	name string
	in   func(e *refEnc) []byte
	dec  func(b []byte) (crypto.PrivKey, crypto.PubKey, error)
}

func aliasDecoders() []aliasDecoder {
	pp := func(p crypto.PrivKey, err error) (crypto.PrivKey, crypto.PubKey, error) {
		if p == nil {
			return nil, nil, err
		}
		return p, nil, err
	}
	uu := func(u crypto.PubKey, err error) (crypto.PrivKey, crypto.PubKey, error) {
		if u == nil {
			return nil, nil, err
		}
		return nil, u, err
	}
	r96 := func(e *refEnc) []byte {
		raw := e.privProto[len(e.privProto)-64:]
		return append(bytes.Clone(raw), raw[32:]...)
	}
	return []aliasDecoder{
		{"crypto.UnmarshalPublicKey", func(e *refEnc) []byte { return bytes.Clone(e.pubProto) }, func(b []byte) (crypto.PrivKey, crypto.PubKey, error) { return uu(crypto.UnmarshalPublicKey(b)) }},
		{"crypto.UnmarshalPrivateKey", func(e *refEnc) []byte { return bytes.Clone(e.privProto) }, func(b []byte) (crypto.PrivKey, crypto.PubKey, error) { return pp(crypto.UnmarshalPrivateKey(b)) }},
		{"crypto.UnmarshalPrivateKey(96)", func(e *refEnc) []byte { return g.MarshalKeyProto(g.KeyTypeEd25519, r96(e)) }, func(b []byte) (crypto.PrivKey, crypto.PubKey, error) { return pp(crypto.UnmarshalPrivateKey(b)) }},
		{"crypto.UnmarshalEd25519PrivateKey(96)", r96, func(b []byte) (crypto.PrivKey, crypto.PubKey, error) { return pp(crypto.UnmarshalEd25519PrivateKey(b)) }},
		{"keypem.ParseKeyPem(priv)", func(e *refEnc) []byte { return bytes.Clone(e.privPem) }, keypem.ParseKeyPem},
		{"keypem.ParseKeyPem(pub)", func(e *refEnc) []byte { return bytes.Clone(e.pubPem) }, keypem.ParseKeyPem},
		{"keypem.ParsePrivKeyPem", func(e *refEnc) []byte { return bytes.Clone(e.privPem) }, func(b []byte) (crypto.PrivKey, crypto.PubKey, error) { return pp(keypem.ParsePrivKeyPem(b)) }},
		{"keypem.ParsePubKeyPem", func(e *refEnc) []byte { return bytes.Clone(e.pubPem) }, func(b []byte) (crypto.PrivKey, crypto.PubKey, error) { return uu(keypem.ParsePubKeyPem(b)) }},
		{"keypem.ParsePubKeyPem(priv)", func(e *refEnc) []byte { return bytes.Clone(e.privPem) }, func(b []byte) (crypto.PrivKey, crypto.PubKey, error) { return uu(keypem.ParsePubKeyPem(b)) }},
		{"confparse.ParsePrivateKeyPEM", func(e *refEnc) []byte { return bytes.Clone(e.privPem) }, func(b []byte) (crypto.PrivKey, crypto.PubKey, error) { return pp(confparse.ParsePrivateKeyPEM(b)) }},
		{"confparse.ParsePublicKeyPEM", func(e *refEnc) []byte { return bytes.Clone(e.pubPem) }, func(b []byte) (crypto.PrivKey, crypto.PubKey, error) { return uu(confparse.ParsePublicKeyPEM(b)) }},
		{"peer.IDFromBytes+ExtractPublicKey", func(e *refEnc) []byte { return []byte(e.id) }, func(b []byte) (crypto.PrivKey, crypto.PubKey, error) {
			id, err := peer.IDFromBytes(b)
			if err != nil {
				return nil, nil, err
			}
			return uu(id.ExtractPublicKey())
		}},
	}
}

// aliasPhase runs the aliasing / history part. checkPriv / checkPub are the
// round-trip oracles of TestCheck (ground-truth bytes, Equals both ways, peer
// id, std-lib signature).
func aliasPhase(r *vf.Run, pool []*g.Key, workers int,
	checkPriv func(k *g.Key, d crypto.PrivKey, chain string) bool,
	checkPub func(k *g.Key, d crypto.PubKey, chain string) bool,
) {
	ops := aliasOps()
	decs := aliasDecoders()
	r.Assume("aliasing: Raw() of a public key, PublicKeyToProto().Data, PubKeyToStdKey / PrivKeyToStdKey and UnmarshalEd25519{Public,Private}Key on the 32 / 64 byte forms share memory with the key object on the unchanged tree (as in go-libp2p); the property does not speak about them, so the harness never writes to those slices. Every other encoder output (protobuf, PEM, Raw of a private key, signatures) and every other decoder input (protobuf, PEM, 96-byte form, peer id bytes) is overwritten by the harness after the call")
	nseq := r.N(6, 10) // sequences per key object
	r.Begin(fmt.Sprintf("aliasing: %d keys x every key-object origin x %d encode sequences with the returned slices overwritten after each call; %d decoders with the input overwritten after the call", len(pool), nseq, len(decs)))
	g.Parallel(workers, func(w int) {
		for ki := w; ki < len(pool); ki += workers {
			k0 := pool[ki]
			rng := r.Rand(fmt.Sprintf("c11-alias-%d", ki))
			e := refEncodings(k0)
			for _, o := range aliasObjects(k0) {
				r.Distinct("alias_key_object_origins", o.origin)
				objScribbled := 0 // outputs of THIS object overwritten so far (all sequences)
				for s := 0; s < nseq; s++ {
					n := 2 + rng.IntN(7)
					var trace []string
					var scribbled int
					okSeq := true
					for step := 0; step < n && okSeq; step++ {
						op := ops[rng.IntN(len(ops))]
						if op.needPriv && o.priv == nil {
							continue
						}
						var out []byte
						var text string
						var err error
						pn, pd := vf.Try(func() { out, text, err = op.run(o) })
						wit := func() map[string]any {
							return map[string]any{"key_seed": vf.Hex(o.k.Seed), "key_object_origin": o.origin, "operations_so_far(op:scribble)": append([]string(nil), trace...), "failing_op": op.name}
						}
						if pn || err != nil {
							r.Violation("alias/encode-failed/"+op.name, fmt.Sprintf("encoding a valid key failed after earlier outputs were overwritten: panic=%v %s err=%v", pn, pd, err), wit())
							okSeq = false
							break
						}
						r.Count("alias_encode_calls", 1)
						if op.check != nil {
							if diff := op.check(e, out, text); diff != "" {
								key := "alias/encoding-depends-on-earlier-output/" + op.name
								what := "the encoding of a key object changed after the caller overwrote the slice returned by an earlier encode call of the same object: " + diff
								if objScribbled == 0 {
									key = "alias/encoding-differs-from-reference/" + op.name
									what = "the encoding of a key object differs from the reference encoding: " + diff
								}
								r.Violation(key, what, wit())
								okSeq = false
							}
						} else if !ed25519.Verify(ed25519.PublicKey(o.k.Pub), probeMsg, out) { // signature
							r.Violation("alias/signature-invalid/"+op.name, "signature of a key object is not valid for the original public key after earlier outputs were overwritten", wit())
							okSeq = false
						}
						how := "string"
						if out != nil {
							how = scribble(rng, out)
							scribbled++
							objScribbled++
							r.Count("alias_outputs_overwritten", 1)
						}
						trace = append(trace, op.name+":"+how)
					}
					// the key object itself still is the key
					chain := "alias[" + o.origin + "]"
					good := okSeq
					if o.priv != nil && !checkPriv(o.k, o.priv, chain) {
						good = false
					}
					if !checkPub(o.k, o.pub, chain) {
						good = false
					}
					r.Case(fmt.Sprintf("alias|%d|%s|%v", ki, o.origin, trace), good && scribbled > 0)
					r.Distinct("alias_sequences", fmt.Sprint(trace))
				}
			}
			// decoders: the returned key must not depend on the input buffer afterwards
			for _, d := range decs {
				for rep := 0; rep < 2; rep++ {
					in := d.in(e)
					var p crypto.PrivKey
					var u crypto.PubKey
					var err error
					pn, pd := vf.Try(func() { p, u, err = d.dec(in) })
					if pn || err != nil || (p == nil && u == nil) {
						r.Violation("alias/decode-failed/"+d.name, fmt.Sprintf("valid encoding does not decode: panic=%v %s err=%v", pn, pd, err), map[string]any{"key_seed": vf.Hex(k0.Seed)})
						continue
					}
					how := scribble(rng, in)
					r.Count("alias_decoder_inputs_overwritten", 1)
					chain := "alias-input[" + d.name + ":" + how + "]"
					good := true
					if p != nil {
						good = checkPriv(k0, p, chain) && good
						// and it still encodes to the reference
						if b, err := crypto.MarshalPrivateKey(p); err != nil || !bytes.Equal(b, e.privProto) {
							r.Violation("alias/decoded-key-depends-on-input-buffer/"+d.name, "a decoded private key no longer encodes to the original after the caller overwrote the input buffer", map[string]any{"key_seed": vf.Hex(k0.Seed), "scribble": how, "encoded": vf.Hex(b)})
							good = false
						}
					}
					if u != nil {
						good = checkPub(k0, u, chain) && good
						if b, err := crypto.MarshalPublicKey(u); err != nil || !bytes.Equal(b, e.pubProto) {
							r.Violation("alias/decoded-key-depends-on-input-buffer/"+d.name, "a decoded public key no longer encodes to the original after the caller overwrote the input buffer", map[string]any{"key_pub": vf.Hex(k0.Pub), "scribble": how, "encoded": vf.Hex(b)})
							good = false
						}
					}
					r.Case(fmt.Sprintf("alias-input|%d|%s|%s", ki, d.name, how), good)
					r.Distinct("alias_decoders", d.name)
				}
			}
		}
	})
}
