// C32: both ends of a link compute the same solicitation session id, and
// FindMatchingHashes is exactly the (sorted, multiset) intersection and does
// not alias its inputs.
package c32

import (
	"bytes"
	"fmt"
	"sort"
	"strings"
	"testing"

	link_solicit "github.com/aperturerobotics/bifrost/link/solicit"
	"github.com/aperturerobotics/bifrost/peer"
	"verifharness/keys"
	"verifharness/vf"
)

// refIntersect is the reference: for sorted inputs the result holds every hash
// h exactly min(count_l(h), count_r(h)) times, in sorted order. Written from
// the property text; does not call the function under test.
func refIntersect(l, r [][]byte) [][]byte {
	cl := map[string]int{}
	for _, h := range l {
		cl[string(h)]++
	}
	cr := map[string]int{}
	for _, h := range r {
		cr[string(h)]++
	}
	var ks []string
	for k, n := range cl {
		m := cr[k]
		if m < n {
			n = m
		}
		for i := 0; i < n; i++ {
			ks = append(ks, k)
		}
	}
	sort.Strings(ks) // byte-wise, same order as bytes.Compare
	out := make([][]byte, len(ks))
	for i, k := range ks {
		out[i] = []byte(k)
	}
	return out
}

func clone2(x [][]byte) [][]byte {
	out := make([][]byte, len(x))
	for i := range x {
		out[i] = append([]byte(nil), x[i]...)
	}
	return out
}

func eq2(a, b [][]byte) bool {
	if len(a) != len(b) {
		return false
	}
	for i := range a {
		if !bytes.Equal(a[i], b[i]) {
			return false
		}
	}
	return true
}

func hexList(x [][]byte) []string {
	out := make([]string, len(x))
	for i := range x {
		out[i] = vf.Hex(x[i])
	}
	return out
}

func TestCheck(t *testing.T) {
	r := vf.Start(t, "C32", vf.Exploration)
	defer r.Finish()
	r.SetRule("(a) session id: all ordered pairs of a seeded pool of key-derived peer ids (Ed25519): id(a,b) must equal id(b,a), and distinct unordered pairs must give distinct ids (map over everything explored; sampled collision-freeness). (a2) symmetry id(a,b) == id(b,a) and determinism also over all ordered pairs of ARBITRARY peer-id strings (lengths 0..300, multihash-shaped ids of other key lengths, every prefix of an id, extensions, ids sharing a prefix, small-alphabet strings, mixed with key-derived ids); distinctness is not demanded there (arbitrary strings can collide across the concatenation boundary), coincidences are counted only. (b) FindMatchingHashes: PRNG pairs of SORTED lists of 0..40 hashes drawn from a per-case alphabet of <= 12 hashes (forces duplicates and shared elements; alphabets of 32-byte hashes, and of mixed-length hashes incl. prefixes of each other); result must equal the reference multiset intersection (count = min of counts, sorted); after the call every byte of both inputs is overwritten and the result must be unchanged (no aliasing). (c) aliasing / history: PRNG sequences of ComputeSessionID / ComputeProtocolHash / ComputeProtocolHashes / FindMatchingHashes calls over a small universe (9 peer ids, 4 protocol ids, 5 contexts, 6 hashes; the same pair again, the same pair in swapped order, another pair in between); after each call the result is compared with the reference (documented BLAKE3 formulas computed by the harness, reference intersection), then every returned slice is either overwritten (bit flip, wipe, fill, reuse as append buffer, spare capacity) or held with a private copy (held results must not change through later calls), and the slices passed in are overwritten too (result must not follow, inputs must not follow an overwritten result). Non-trivial = session pair with a != b, or list pair with at least one shared element; distinct = distinct inputs")

	// ---- (a) session ids
	rng := r.Rand("c32-session")
	pool := keys.Pool(rng, r.N(40, 400))
	ids := make([]peer.ID, len(pool))
	for i, k := range pool {
		ids[i] = k.ID
	}
	seen := map[string]string{} // session id -> unordered pair
	r.Begin("session ids over the key pool")
	for i := range ids {
		for j := range ids {
			a, b := ids[i], ids[j]
			var s1, s2 []byte
			if pk, pd := vf.Try(func() {
				s1 = link_solicit.ComputeSessionID(a, b)
				s2 = link_solicit.ComputeSessionID(b, a)
			}); pk {
				r.Violation("ComputeSessionID/panic", "panicked: "+pd, map[string]any{"a": a.String(), "b": b.String()})
				continue
			}
			r.Case(fmt.Sprintf("sid|%d|%d", i, j), i != j)
			r.Count("session_ids_computed", 2)
			if !bytes.Equal(s1, s2) {
				r.Violation("ComputeSessionID/asymmetric", "session id depends on which side computes it", map[string]any{"a": a.String(), "b": b.String(), "ab": vf.Hex(s1), "ba": vf.Hex(s2)})
			}
			lo, hi := i, j
			if lo > hi {
				lo, hi = hi, lo
			}
			pair := fmt.Sprintf("%d,%d", lo, hi)
			if prev, ok := seen[string(s1)]; ok && prev != pair {
				r.Violation("ComputeSessionID/collision", "two different peer pairs share a session id", map[string]any{"pair1": prev, "pair2": pair, "sid": vf.Hex(s1)})
			}
			seen[string(s1)] = pair
			if i == 0 && j == 1 {
				r.Sample(map[string]any{"kind": "session", "a": a.String(), "b": b.String(), "sid": vf.Hex(s1)})
			}
		}
	}
	r.Extra("distinct_session_ids", len(seen))
	r.Extra("peer_pool", len(ids))

	// ---- (a2) session ids of arbitrary peer-id strings: symmetry only.
	// peer.ID is a string type; ids of other key types / malformed ids have other
	// lengths than the 38 bytes of an Ed25519-derived id. Whichever side computes
	// the id must get the same bytes for ANY two id strings (mixed lengths, one a
	// prefix of the other, empty, shared long prefixes). Distinctness is NOT
	// demanded here (arbitrary strings can collide across the concatenation
	// boundary: ("ab","c") / ("a","bc")); coincidences are only counted.
	arng := r.Rand("c32-session-arbitrary")
	var arb []peer.ID
	addArb := func(b []byte) { arb = append(arb, peer.ID(string(b))) }
	rb := func(n int) []byte {
		b := make([]byte, n)
		for i := range b {
			b[i] = byte(arng.UintN(256))
		}
		return b
	}
	addArb(nil)
	for _, l := range []int{1, 2, 3, 7, 8, 31, 32, 33, 34, 37, 38, 39, 40, 63, 64, 65, 127, 128, 129, 300} {
		addArb(rb(l))
	}
	// multihash-shaped ids of other lengths: sha2-256 multihash (34 bytes, ids of
	// long keys), identity multihash of a 32 / 36 / 270 byte key encoding
	addArb(append([]byte{0x12, 0x20}, rb(32)...))
	addArb(append([]byte{0x00, 0x20}, rb(32)...))
	addArb(append([]byte{0x00, 0x24}, rb(36)...))
	addArb(append([]byte{0x00, 0x8e, 0x02}, rb(270)...))
	// prefix chains: every prefix of a key-derived id and of a PRNG string;
	// extensions of a key-derived id
	kid := []byte(ids[0])
	for l := 0; l <= len(kid); l += 1 + arng.IntN(6) {
		addArb(kid[:l])
	}
	for k := 1; k <= 3; k++ {
		addArb(append(append([]byte(nil), kid...), rb(k*k)...))
	}
	base := rb(24)
	for l := 1; l <= len(base); l += 1 + arng.IntN(4) {
		addArb(base[:l])
	}
	// small alphabet: many pairs where one id is a prefix of the other, or that
	// share their concatenation
	for _, x := range []string{"a", "b", "ab", "ba", "abc", "aa", "aaa", "aaaa", "\x00", "\x00\x00", "a\x00", "\xff", "\xff\xff", "\xfe\xff"} {
		addArb([]byte(x))
	}
	for k := 0; k < r.N(20, 200); k++ {
		// PRNG: a random-length string, and a sibling sharing a random-length prefix
		x := rb(arng.IntN(80))
		addArb(x)
		cut := 0
		if len(x) > 0 {
			cut = arng.IntN(len(x) + 1)
		}
		addArb(append(append([]byte(nil), x[:cut]...), rb(arng.IntN(40))...))
	}
	// a few key-derived ids take part as well (mixed with the arbitrary ones)
	for i := 0; i < 4 && i < len(ids); i++ {
		arb = append(arb, ids[i])
	}
	{
		uniq := map[peer.ID]struct{}{}
		out := arb[:0]
		for _, x := range arb {
			if _, ok := uniq[x]; !ok {
				uniq[x] = struct{}{}
				out = append(out, x)
			}
		}
		arb = out
	}
	r.Begin(fmt.Sprintf("session ids over %d arbitrary peer-id strings (all ordered pairs)", len(arb)))
	aseen := map[string][2]string{}
	var mixedLen, prefixPairs, arbColl int
	for i := range arb {
		for j := range arb {
			a, b := arb[i], arb[j]
			var s1, s2, s3 []byte
			if pk, pd := vf.Try(func() {
				s1 = link_solicit.ComputeSessionID(a, b)
				s2 = link_solicit.ComputeSessionID(b, a)
				s3 = link_solicit.ComputeSessionID(a, b)
			}); pk {
				r.Violation("ComputeSessionID/panic", "panicked: "+pd, map[string]any{"a_hex": vf.Hex([]byte(a)), "b_hex": vf.Hex([]byte(b))})
				continue
			}
			r.Case(fmt.Sprintf("sid-arb|%x|%x", string(a), string(b)), a != b)
			r.Count("session_ids_computed_arbitrary_ids", 3)
			isPrefix := a != b && (strings.HasPrefix(string(a), string(b)) || strings.HasPrefix(string(b), string(a)))
			if len(a) != len(b) {
				mixedLen++
			}
			if isPrefix {
				prefixPairs++
			}
			w := map[string]any{"a_hex": vf.Hex([]byte(a)), "b_hex": vf.Hex([]byte(b)), "a_len": len(a), "b_len": len(b), "ab": vf.Hex(s1), "ba": vf.Hex(s2)}
			if !bytes.Equal(s1, s2) {
				cls := "equal-length"
				switch {
				case isPrefix:
					cls = "one-id-prefix-of-the-other"
				case len(a) != len(b):
					cls = "different-lengths"
				}
				r.Violation("ComputeSessionID/asymmetric/"+cls, "session id depends on which side computes it (argument order)", w)
			}
			if !bytes.Equal(s1, s3) {
				r.Violation("ComputeSessionID/nondeterministic", "the same call gave two different session ids", w)
			}
			lo, hi := string(a), string(b)
			if lo > hi {
				lo, hi = hi, lo
			}
			if prev, ok := aseen[string(s1)]; ok && prev != [2]string{lo, hi} {
				arbColl++ // not demanded for arbitrary strings (documented), counted only
			}
			aseen[string(s1)] = [2]string{lo, hi}
		}
	}
	r.Count("session_pairs_arbitrary_mixed_length", mixedLen)
	r.Count("session_pairs_arbitrary_one_prefix_of_other", prefixPairs)
	r.Count("session_id_coincidences_arbitrary_ids_not_flagged", arbColl)
	r.Extra("arbitrary_peer_id_strings", len(arb))

	// ---- (b) intersection
	rng = r.Rand("c32-merge")
	n := r.N(6000, 300000)
	var shared, dupCases, emptyCases int
	for i := 0; i < n; i++ {
		// per-case alphabet
		var alpha [][]byte
		na := 1 + rng.IntN(12)
		mode := rng.IntN(4)
		for k := 0; k < na; k++ {
			var h []byte
			switch mode {
			case 0: // mixed lengths, prefixes of each other
				h = bytes.Repeat([]byte{byte(rng.IntN(3))}, 1+rng.IntN(4))
				if rng.IntN(2) == 0 {
					h = append(h, byte(rng.IntN(3)))
				}
			default:
				h = make([]byte, link_solicit.HashSize)
				for x := range h {
					h[x] = byte(rng.UintN(256))
				}
				if mode == 1 && k > 0 { // near-equal hashes: differ in the last byte only
					copy(h, alpha[0])
					h[len(h)-1] = byte(k)
				}
			}
			alpha = append(alpha, h)
		}
		mk := func() [][]byte {
			ln := rng.IntN(41)
			if rng.IntN(12) == 0 {
				ln = 0
			}
			out := make([][]byte, ln)
			for x := range out {
				out[x] = append([]byte(nil), alpha[rng.IntN(len(alpha))]...)
			}
			sort.Slice(out, func(a, b int) bool { return bytes.Compare(out[a], out[b]) < 0 })
			return out
		}
		l, rr := mk(), mk()
		if rng.IntN(10) == 0 {
			rr = clone2(l) // identical lists
		}
		want := refIntersect(l, rr)
		l0, r0 := clone2(l), clone2(rr)
		if i%512 == 0 {
			r.Begin(fmt.Sprintf("merge batch at %d: l=%v r=%v", i, hexList(l), hexList(rr)))
		}
		var got [][]byte
		if pk, pd := vf.Try(func() { got = link_solicit.FindMatchingHashes(l, rr) }); pk {
			r.Violation("FindMatchingHashes/panic", "panicked: "+pd, map[string]any{"l": hexList(l0), "r": hexList(r0)})
			continue
		}
		sig := "m|" + strings.Join(hexList(l0), ",") + "|" + strings.Join(hexList(r0), ",")
		r.Case(sig, len(want) > 0)
		r.Count("merges", 1)
		if len(want) > 0 {
			shared++
		}
		if len(l0) == 0 || len(r0) == 0 {
			emptyCases++
		}
		hasDup := false
		for x := 1; x < len(want); x++ {
			if bytes.Equal(want[x-1], want[x]) {
				hasDup = true
			}
		}
		if hasDup {
			dupCases++
		}
		if !eq2(l, l0) || !eq2(rr, r0) {
			r.Violation("FindMatchingHashes/mutates-input", "inputs were modified by the call", map[string]any{"l": hexList(l0), "r": hexList(r0)})
		}
		if !eq2(got, want) {
			r.Violation("FindMatchingHashes/not-intersection", "result is not the sorted multiset intersection", map[string]any{"l": hexList(l0), "r": hexList(r0), "got": hexList(got), "want": hexList(want)})
		}
		// aliasing: overwrite every input byte, result must not change
		gotBefore := clone2(got)
		for _, x := range l {
			for y := range x {
				x[y] ^= 0xff
			}
		}
		for _, x := range rr {
			for y := range x {
				x[y] ^= 0xff
			}
		}
		for x := range l {
			l[x] = []byte("overwritten")
		}
		for x := range rr {
			rr[x] = []byte("overwritten")
		}
		if !eq2(got, gotBefore) {
			r.Violation("FindMatchingHashes/aliases-input", "result changed when the inputs were modified afterwards", map[string]any{"l": hexList(l0), "r": hexList(r0), "got_after": hexList(got), "got_before": hexList(gotBefore)})
		}
		if i < 3 {
			r.Sample(map[string]any{"kind": "merge", "l": hexList(l0), "r": hexList(r0), "result": hexList(want)})
		}
	}
	r.Count("merge_cases_with_shared_elements", shared)
	r.Count("merge_cases_with_duplicate_matches", dupCases)
	r.Count("merge_cases_with_an_empty_side", emptyCases)

	// ---- (c) aliasing / history (alias_test.go)
	aliasPhase(r, ids)
}
