// C32: both ends of a link compute the same solicitation session id, and
// FindMatchingHashes is exactly the (sorted, multiset) intersection and does
// not alias its inputs.
package c32

import (
	"bytes"
	"fmt"
	"sort"
	"strings"
	"testing"

	link_solicit "github.com/aperturerobotics/bifrost/link/solicit"
	"github.com/aperturerobotics/bifrost/peer"
	"verifharness/keys"
	"verifharness/vf"
)

// refIntersect is the reference: for sorted inputs the result holds every hash
// h exactly min(count_l(h), count_r(h)) times, in sorted order. Written from
// the property text; does not call the function under test.
func refIntersect(l, r [][]byte) [][]byte {
	cl := map[string]int{}
	for _, h := range l {
		cl[string(h)]++
	}
	cr := map[string]int{}
	for _, h := range r {
		cr[string(h)]++
	}
	var ks []string
	for k, n := range cl {
		m := cr[k]
		if m < n {
			n = m
		}
		for i := 0; i < n; i++ {
			ks = append(ks, k)
		}
	}
	sort.Strings(ks) // byte-wise, same order as bytes.Compare
	out := make([][]byte, len(ks))
	for i, k := range ks {
		out[i] = []byte(k)
	}
	return out
}

func clone2(x [][]byte) [][]byte {
	out := make([][]byte, len(x))
	for i := range x {
		out[i] = append([]byte(nil), x[i]...)
	}
	return out
}

func eq2(a, b [][]byte) bool {
	if len(a) != len(b) {
		return false
	}
	for i := range a {
		if !bytes.Equal(a[i], b[i]) {
			return false
		}
	}
	return true
}

func hexList(x [][]byte) []string {
	out := make([]string, len(x))
	for i := range x {
		out[i] = vf.Hex(x[i])
	}
	return out
}

func TestCheck(t *testing.T) {
	r := vf.Start(t, "C32", vf.Exploration)
	defer r.Finish()
	r.SetRule("(a) session id: all ordered pairs of a seeded pool of key-derived peer ids (Ed25519): id(a,b) must equal id(b,a), and distinct unordered pairs must give distinct ids (map over everything explored; sampled collision-freeness). (b) FindMatchingHashes: PRNG pairs of SORTED lists of 0..40 hashes drawn from a per-case alphabet of <= 12 hashes (forces duplicates and shared elements; alphabets of 32-byte hashes, and of mixed-length hashes incl. prefixes of each other); result must equal the reference multiset intersection (count = min of counts, sorted); after the call every byte of both inputs is overwritten and the result must be unchanged (no aliasing). Non-trivial = session pair with a != b, or list pair with at least one shared element; distinct = distinct inputs")

	// ---- (a) session ids
	rng := r.Rand("c32-session")
	pool := keys.Pool(rng, r.N(40, 400))
	ids := make([]peer.ID, len(pool))
	for i, k := range pool {
		ids[i] = k.ID
	}
	seen := map[string]string{} // session id -> unordered pair
	r.Begin("session ids over the key pool")
	for i := range ids {
		for j := range ids {
			a, b := ids[i], ids[j]
			var s1, s2 []byte
			if pk, pd := vf.Try(func() {
				s1 = link_solicit.ComputeSessionID(a, b)
				s2 = link_solicit.ComputeSessionID(b, a)
			}); pk {
				r.Violation("ComputeSessionID/panic", "panicked: "+pd, map[string]any{"a": a.String(), "b": b.String()})
				continue
			}
			r.Case(fmt.Sprintf("sid|%d|%d", i, j), i != j)
			r.Count("session_ids_computed", 2)
			if !bytes.Equal(s1, s2) {
				r.Violation("ComputeSessionID/asymmetric", "session id depends on which side computes it", map[string]any{"a": a.String(), "b": b.String(), "ab": vf.Hex(s1), "ba": vf.Hex(s2)})
			}
			lo, hi := i, j
			if lo > hi {
				lo, hi = hi, lo
			}
			pair := fmt.Sprintf("%d,%d", lo, hi)
			if prev, ok := seen[string(s1)]; ok && prev != pair {
				r.Violation("ComputeSessionID/collision", "two different peer pairs share a session id", map[string]any{"pair1": prev, "pair2": pair, "sid": vf.Hex(s1)})
			}
			seen[string(s1)] = pair
			if i == 0 && j == 1 {
				r.Sample(map[string]any{"kind": "session", "a": a.String(), "b": b.String(), "sid": vf.Hex(s1)})
			}
		}
	}
	r.Extra("distinct_session_ids", len(seen))
	r.Extra("peer_pool", len(ids))

	// ---- (b) intersection
	rng = r.Rand("c32-merge")
	n := r.N(6000, 300000)
	var shared, dupCases, emptyCases int
	for i := 0; i < n; i++ {
		// per-case alphabet
		var alpha [][]byte
		na := 1 + rng.IntN(12)
		mode := rng.IntN(4)
		for k := 0; k < na; k++ {
			var h []byte
			switch mode {
			case 0: // mixed lengths, prefixes of each other
				h = bytes.Repeat([]byte{byte(rng.IntN(3))}, 1+rng.IntN(4))
				if rng.IntN(2) == 0 {
					h = append(h, byte(rng.IntN(3)))
				}
			default:
				h = make([]byte, link_solicit.HashSize)
				for x := range h {
					h[x] = byte(rng.UintN(256))
				}
				if mode == 1 && k > 0 { // near-equal hashes: differ in the last byte only
					copy(h, alpha[0])
					h[len(h)-1] = byte(k)
				}
			}
			alpha = append(alpha, h)
		}
		mk := func() [][]byte {
			ln := rng.IntN(41)
			if rng.IntN(12) == 0 {
				ln = 0
			}
			out := make([][]byte, ln)
			for x := range out {
				out[x] = append([]byte(nil), alpha[rng.IntN(len(alpha))]...)
			}
			sort.Slice(out, func(a, b int) bool { return bytes.Compare(out[a], out[b]) < 0 })
			return out
		}
		l, rr := mk(), mk()
		if rng.IntN(10) == 0 {
			rr = clone2(l) // identical lists
		}
		want := refIntersect(l, rr)
		l0, r0 := clone2(l), clone2(rr)
		if i%512 == 0 {
			r.Begin(fmt.Sprintf("merge batch at %d: l=%v r=%v", i, hexList(l), hexList(rr)))
		}
		var got [][]byte
		if pk, pd := vf.Try(func() { got = link_solicit.FindMatchingHashes(l, rr) }); pk {
			r.Violation("FindMatchingHashes/panic", "panicked: "+pd, map[string]any{"l": hexList(l0), "r": hexList(r0)})
			continue
		}
		sig := "m|" + strings.Join(hexList(l0), ",") + "|" + strings.Join(hexList(r0), ",")
		r.Case(sig, len(want) > 0)
		r.Count("merges", 1)
		if len(want) > 0 {
			shared++
		}
		if len(l0) == 0 || len(r0) == 0 {
			emptyCases++
		}
		hasDup := false
		for x := 1; x < len(want); x++ {
			if bytes.Equal(want[x-1], want[x]) {
				hasDup = true
			}
		}
		if hasDup {
			dupCases++
		}
		if !eq2(l, l0) || !eq2(rr, r0) {
			r.Violation("FindMatchingHashes/mutates-input", "inputs were modified by the call", map[string]any{"l": hexList(l0), "r": hexList(r0)})
		}
		if !eq2(got, want) {
			r.Violation("FindMatchingHashes/not-intersection", "result is not the sorted multiset intersection", map[string]any{"l": hexList(l0), "r": hexList(r0), "got": hexList(got), "want": hexList(want)})
		}
		// aliasing: overwrite every input byte, result must not change
		gotBefore := clone2(got)
		for _, x := range l {
			for y := range x {
				x[y] ^= 0xff
			}
		}
		for _, x := range rr {
			for y := range x {
				x[y] ^= 0xff
			}
		}
		for x := range l {
			l[x] = []byte("overwritten")
		}
		for x := range rr {
			rr[x] = []byte("overwritten")
		}
		if !eq2(got, gotBefore) {
			r.Violation("FindMatchingHashes/aliases-input", "result changed when the inputs were modified afterwards", map[string]any{"l": hexList(l0), "r": hexList(r0), "got_after": hexList(got), "got_before": hexList(gotBefore)})
		}
		if i < 3 {
			r.Sample(map[string]any{"kind": "merge", "l": hexList(l0), "r": hexList(r0), "result": hexList(want)})
		}
	}
	r.Count("merge_cases_with_shared_elements", shared)
	r.Count("merge_cases_with_duplicate_matches", dupCases)
	r.Count("merge_cases_with_an_empty_side", emptyCases)
}
