// C32, aliasing / history part. "The session identifier for a link is the
// same whichever side computes it" and "matched hashes are independent of
// later changes to the inputs" must also hold when the caller WRITES to the
// byte slices a call returned (wipes an id when the link closes, reuses a
// slice as a buffer) or to the slices it passed in, and whatever was computed
// before. The harness therefore runs long PRNG sequences of calls over a small
// universe of peer pairs / protocol entries / hash lists (so that any memo of
// earlier calls is hit: same arguments again, swapped order, with and without
// another pair in between); after every call
//
//   - the result is compared with the reference (documented formula
//     BLAKE3(lower || higher), BLAKE3(sid || len8(id) || id || ctx), reference
//     multiset intersection) computed by the harness on private copies,
//   - then the returned slice(s) are either overwritten (bit flip, fill, zero,
//     reuse as append buffer, spare capacity included) or put on a "held" list
//     together with a private copy: held results must never change through
//     later calls,
//   - slices passed in as arguments are overwritten after the call as well.
package c32

import (
	"bytes"
	"encoding/binary"
	"fmt"
	"math/rand/v2"
	"sort"

	link_solicit "github.com/aperturerobotics/bifrost/link/solicit"
	"github.com/aperturerobotics/bifrost/peer"
	"github.com/aperturerobotics/bifrost/protocol"
	"github.com/zeebo/blake3"

	"verifharness/vf"
)

func refSessionID(a, b peer.ID) []byte {
	lo, hi := string(a), string(b)
	if lo > hi {
		lo, hi = hi, lo
	}
	s := blake3.Sum256([]byte(lo + hi))
	return s[:]
}

func refProtocolHash(sid []byte, id string, ctx []byte) []byte {
	var l [8]byte
	binary.BigEndian.PutUint64(l[:], uint64(len(id)))
	buf := append([]byte(nil), sid...)
	buf = append(buf, l[:]...)
	buf = append(buf, id...)
	buf = append(buf, ctx...)
	s := blake3.Sum256(buf)
	return s[:]
}

// scribble overwrites a harness-owned slice; returns the way it did.
func scribble(rng *rand.Rand, s []byte) string {
	switch rng.IntN(6) {
	case 0:
		if len(s) > 0 {
			s[rng.IntN(len(s))] ^= 1 << rng.UintN(8)
		}
		return "bit-flip"
	case 1:
		for i := range s {
			s[i] = 0
		}
		return "wipe"
	case 2:
		for i := range s {
			s[i] = 0xAA
		}
		return "fill"
	case 3:
		t := s[:0]
		for i := 0; i < len(s); i++ {
			t = append(t, byte(rng.UintN(256)))
		}
		return "reuse-as-buffer"
	case 4:
		if len(s) > 0 {
			s[0]++
			s[len(s)-1]--
		}
		return "first-and-last"
	default:
		f := s[:cap(s)]
		for i := range f {
			f[i] ^= 0xff
		}
		return "invert-incl-capacity"
	}
}

type heldResult struct {
	got  []byte // the slice the call returned (never written by the harness)
	copy []byte
	desc string
	at   int
}

func aliasPhase(r *vf.Run, keyIDs []peer.ID) {
	rng := r.Rand("c32-alias")

	// ---- universe
	var ids []peer.ID
	for i := 0; i < 5 && i < len(keyIDs); i++ {
		ids = append(ids, keyIDs[i])
	}
	ids = append(ids, peer.ID("a"), peer.ID("ab"), peer.ID(""), peer.ID(string(keyIDs[0])+"x"))
	protoIDs := []string{"p", "proto/a", "proto/ab", ""}
	ctxs := [][]byte{nil, {}, []byte("c"), []byte("ctx-1"), bytes.Repeat([]byte{7}, 40)}
	hashAlpha := make([][]byte, 6)
	for i := range hashAlpha {
		hashAlpha[i] = make([]byte, link_solicit.HashSize)
		for x := range hashAlpha[i] {
			hashAlpha[i][x] = byte(rng.UintN(256))
		}
	}

	var held []heldResult
	var trace []string // last operations, for the witness
	note := func(s string) {
		trace = append(trace, s)
		if len(trace) > 10 {
			trace = trace[len(trace)-10:]
		}
	}
	wit := func(extra map[string]any) map[string]any {
		w := map[string]any{"last_operations(oldest first)": append([]string(nil), trace...)}
		for k, v := range extra {
			w[k] = v
		}
		return w
	}
	step := 0
	checkHeld := func() {
		out := held[:0]
		for _, h := range held {
			if !bytes.Equal(h.got, h.copy) {
				r.Violation("alias/earlier-result-changed-by-later-call", fmt.Sprintf("a result returned at step %d (%s) changed while the harness only made further calls", h.at, h.desc), wit(map[string]any{"was": vf.Hex(h.copy), "now": vf.Hex(h.got)}))
				continue
			}
			out = append(out, h)
		}
		held = out
		if len(held) > 64 {
			held = append(held[:0], held[len(held)-32:]...)
		}
	}
	// dispose: after judging a returned slice, overwrite it or hold it
	dispose := func(b []byte, desc string) string {
		if rng.IntN(10) < 7 {
			r.Count("alias_outputs_overwritten", 1)
			return scribble(rng, b)
		}
		held = append(held, heldResult{got: b, copy: bytes.Clone(b), desc: desc, at: step})
		r.Count("alias_outputs_held", 1)
		return "held"
	}

	n := r.N(4000, 150000)
	var lastA, lastB peer.ID
	havePrev := false
	overwrittenPair := map[[2]string]bool{} // unordered pair whose earlier result was overwritten
	r.Begin(fmt.Sprintf("aliasing: %d calls over %d peer ids, %d protocol ids, %d contexts, %d hashes", n, len(ids), len(protoIDs), len(ctxs), len(hashAlpha)))
	for step = 0; step < n; step++ {
		if step%64 == 0 {
			checkHeld()
		}
		switch k := rng.IntN(10); {
		case k < 5: // ---- ComputeSessionID
			var a, b peer.ID
			how := "other-pair"
			switch x := rng.IntN(10); {
			case havePrev && x < 3:
				a, b, how = lastA, lastB, "same-pair"
			case havePrev && x < 6:
				a, b, how = lastB, lastA, "same-pair-swapped"
			default:
				a, b = ids[rng.IntN(len(ids))], ids[rng.IntN(len(ids))]
			}
			lastA, lastB, havePrev = a, b, true
			lo, hi := string(a), string(b)
			if lo > hi {
				lo, hi = hi, lo
			}
			var got []byte
			if pk, pd := vf.Try(func() { got = link_solicit.ComputeSessionID(a, b) }); pk {
				r.Violation("ComputeSessionID/panic", "panicked: "+pd, wit(nil))
				continue
			}
			want := refSessionID(a, b)
			seenOverwritten := overwrittenPair[[2]string{lo, hi}]
			r.Case(fmt.Sprintf("alias-sid|%d", step), seenOverwritten)
			r.Count("alias_session_ids_"+how, 1)
			if !bytes.Equal(got, want) {
				key, what := "ComputeSessionID/not-blake3-of-sorted-pair", "session id is not BLAKE3(lower || higher) as documented"
				if seenOverwritten {
					key, what = "ComputeSessionID/depends-on-earlier-output", "the session id of a pair changed after the caller overwrote the bytes an earlier call for that pair returned (the other end still computes the original id)"
				}
				r.Violation(key, what, wit(map[string]any{"a_hex": vf.Hex([]byte(a)), "b_hex": vf.Hex([]byte(b)), "got": vf.Hex(got), "want": vf.Hex(want), "call": how}))
			}
			d := dispose(got, fmt.Sprintf("ComputeSessionID(%x,%x)", string(a), string(b)))
			if d != "held" {
				overwrittenPair[[2]string{lo, hi}] = true
			}
			note(fmt.Sprintf("%d:ComputeSessionID(%x,%x)[%s]->%s", step, tail(string(a)), tail(string(b)), how, d))

		case k < 7: // ---- ComputeProtocolHash / ComputeProtocolHashes
			a, b := ids[rng.IntN(3)], ids[rng.IntN(3)]
			sid := refSessionID(a, b) // harness-owned input
			sid0 := bytes.Clone(sid)
			if rng.IntN(2) == 0 {
				pid := protoIDs[rng.IntN(len(protoIDs))]
				ctx := bytes.Clone(ctxs[rng.IntN(len(ctxs))])
				ctx0 := bytes.Clone(ctx)
				var got []byte
				if pk, pd := vf.Try(func() { got = link_solicit.ComputeProtocolHash(sid, protocol.ID(pid), ctx) }); pk {
					r.Violation("ComputeProtocolHash/panic", "panicked: "+pd, wit(nil))
					continue
				}
				r.Case(fmt.Sprintf("alias-ph|%d", step), true)
				r.Count("alias_protocol_hashes", 1)
				if !bytes.Equal(sid, sid0) || !bytes.Equal(ctx, ctx0) {
					r.Violation("ComputeProtocolHash/mutates-input", "session id or context argument was modified by the call", wit(nil))
				}
				if want := refProtocolHash(sid0, pid, ctx0); !bytes.Equal(got, want) {
					r.Violation("ComputeProtocolHash/depends-on-history", "protocol hash differs from BLAKE3(session || len8(id) || id || context) after earlier outputs / inputs were overwritten", wit(map[string]any{"session": vf.Hex(sid0), "protocol_id": pid, "context": vf.Hex(ctx0), "got": vf.Hex(got), "want": vf.Hex(want)}))
				}
				// keep the result, overwrite the INPUTS: the result must not follow
				cp := bytes.Clone(got)
				scribble(rng, sid)
				scribble(rng, ctx)
				if !bytes.Equal(got, cp) {
					r.Violation("ComputeProtocolHash/aliases-input", "the returned hash changed when the session id / context arguments were overwritten afterwards", wit(nil))
				}
				note(fmt.Sprintf("%d:ComputeProtocolHash(%q)->%s", step, pid, dispose(got, "ComputeProtocolHash")))
				continue
			}
			ne := rng.IntN(5)
			entries := make([]link_solicit.SolicitEntry, ne)
			var want [][]byte
			for i := range entries {
				pid := protoIDs[rng.IntN(len(protoIDs))]
				ctx := bytes.Clone(ctxs[rng.IntN(len(ctxs))])
				entries[i] = link_solicit.SolicitEntry{ProtocolID: protocol.ID(pid), Context: ctx}
				want = append(want, refProtocolHash(sid0, pid, ctx))
			}
			sort.Slice(want, func(i, j int) bool { return bytes.Compare(want[i], want[j]) < 0 })
			var got [][]byte
			if pk, pd := vf.Try(func() { got = link_solicit.ComputeProtocolHashes(sid, entries) }); pk {
				r.Violation("ComputeProtocolHashes/panic", "panicked: "+pd, wit(nil))
				continue
			}
			r.Case(fmt.Sprintf("alias-phs|%d", step), ne > 0)
			r.Count("alias_protocol_hash_lists", 1)
			if !eq2(got, want) {
				r.Violation("ComputeProtocolHashes/depends-on-history", "sorted protocol hashes differ from the reference after earlier outputs / inputs were overwritten", wit(map[string]any{"got": hexList(got), "want": hexList(want)}))
			}
			cp := clone2(got)
			scribble(rng, sid)
			for i := range entries {
				scribble(rng, entries[i].Context)
			}
			if !eq2(got, cp) {
				r.Violation("ComputeProtocolHashes/aliases-input", "the returned hashes changed when the arguments were overwritten afterwards", wit(nil))
			}
			ds := ""
			for i := range got {
				ds += dispose(got[i], "ComputeProtocolHashes element") + ","
			}
			note(fmt.Sprintf("%d:ComputeProtocolHashes(%d entries)->%s", step, ne, ds))

		default: // ---- FindMatchingHashes
			mk := func() [][]byte {
				out := make([][]byte, rng.IntN(7))
				for x := range out {
					out[x] = bytes.Clone(hashAlpha[rng.IntN(len(hashAlpha))])
				}
				sort.Slice(out, func(a, b int) bool { return bytes.Compare(out[a], out[b]) < 0 })
				return out
			}
			l, rr := mk(), mk()
			if rng.IntN(4) == 0 {
				rr = clone2(l)
			}
			l0, r0 := clone2(l), clone2(rr)
			want := refIntersect(l0, r0)
			var got, got2 [][]byte
			if pk, pd := vf.Try(func() { got = link_solicit.FindMatchingHashes(l, rr) }); pk {
				r.Violation("FindMatchingHashes/panic", "panicked: "+pd, wit(nil))
				continue
			}
			r.Case(fmt.Sprintf("alias-fm|%d", step), len(want) > 0)
			r.Count("alias_merges", 1)
			if !eq2(got, want) {
				r.Violation("FindMatchingHashes/depends-on-history", "result is not the intersection after earlier outputs were overwritten", wit(map[string]any{"l": hexList(l0), "r": hexList(r0), "got": hexList(got), "want": hexList(want)}))
			}
			// overwrite the RESULT: the inputs must not follow (no shared memory either way)
			ds := ""
			for i := range got {
				ds += dispose(got[i], "FindMatchingHashes element") + ","
			}
			if !eq2(l, l0) || !eq2(rr, r0) {
				r.Violation("FindMatchingHashes/result-aliases-input", "the input lists changed when the caller overwrote the returned matches", wit(map[string]any{"l": hexList(l0), "r": hexList(r0), "l_now": hexList(l), "r_now": hexList(rr)}))
			}
			// the same lists again, other argument order
			if pk, _ := vf.Try(func() { got2 = link_solicit.FindMatchingHashes(r0, l0) }); !pk && !eq2(got2, want) {
				r.Violation("FindMatchingHashes/depends-on-history", "the same two lists in the other argument order do not give the intersection after the first result was overwritten", wit(map[string]any{"l": hexList(l0), "r": hexList(r0), "got": hexList(got2), "want": hexList(want)}))
			}
			note(fmt.Sprintf("%d:FindMatchingHashes(%d,%d)->%s", step, len(l0), len(r0), ds))
		}
	}
	checkHeld()
	r.Extra("alias_universe_peer_ids", len(ids))
}

func tail(s string) string {
	if len(s) > 4 {
		return s[len(s)-4:]
	}
	return s
}
