// C14: Ed25519 -> X25519 conversion rejects exactly the small-order points.
//
// Oracle (independent of util/extra25519): field and group arithmetic written
// here with math/big from the curve equation -x^2 + y^2 = 1 + d x^2 y^2 over
// GF(2^255-19), cross-checked against filippo.io/edwards25519 group operations.
// Nothing is copied from the blacklist in lo25519.go: the eight torsion points
// are computed as [L]Q for PRNG points Q.
package c14

import (
	"bytes"
	"crypto/ecdh"
	"crypto/ed25519"
	"crypto/sha512"
	"encoding/hex"
	"encoding/json"
	"fmt"
	"math/big"
	"sort"
	"sync"
	"testing"

	"filippo.io/edwards25519"
	"github.com/aperturerobotics/bifrost/util/extra25519"
	"verifharness/g2util"
	"verifharness/vf"
)

// ---------------------------------------------------------------- big oracle

var (
	fp  = new(big.Int).Sub(new(big.Int).Lsh(big.NewInt(1), 255), big.NewInt(19))
	fd  *big.Int // -121665/121666 mod p
	one = big.NewInt(1)
	// group order L = 2^252 + 27742317777372353535851937790883648493
	ordL, _ = new(big.Int).SetString("7237005577332262213973186563042994240857116359379907606001950938285454250989", 10)
)

func init() {
	inv := new(big.Int).ModInverse(big.NewInt(121666), fp)
	fd = new(big.Int).Mul(big.NewInt(-121665), inv)
	fd.Mod(fd, fp)
}

func leToInt(b []byte) *big.Int {
	r := make([]byte, len(b))
	for i := range b {
		r[len(b)-1-i] = b[i]
	}
	return new(big.Int).SetBytes(r)
}

func intToLE32(v *big.Int) []byte {
	be := v.Bytes()
	out := make([]byte, 32)
	for i := range be {
		out[i] = be[len(be)-1-i]
	}
	return out
}

// verdict is what the arithmetic says about one 32-byte string.
type verdict struct {
	canonical  bool // y < p
	onCurve    bool // y mod p is the y coordinate of a curve point (sign bit ignored)
	negZero    bool // x = 0 with the sign bit set (RFC 8032 rejects; some decoders accept)
	smallOrder bool // onCurve and [8]P = identity (same for both signs of x)
	u          []byte
}

// scratch holds the temporaries of one judge call (one per worker goroutine;
// keeps the allocation rate, which dominates the cost under the race detector, low).
type scratch struct{ n, d, a, b, p, q, t1, t2, t3 big.Int }

func (z *scratch) mul(dst, x, y *big.Int) { dst.Mul(x, y); dst.Mod(dst, fp) }

// judge decides a 32-byte string from the curve equation -x^2 + y^2 = 1 + d x^2 y^2.
//
// With y = N/D: x^2 = (y^2-1)/(d y^2+1) = P/Q where A = N^2, B = D^2, P = A-B,
// Q = dA+B (Q != 0 because -1/d is not a square). The string is the encoding of
// a curve point iff P/Q is a square, i.e. iff P*Q is a square or zero (Jacobi
// symbol >= 0). Doubling needs only x^2 and y^2 (addition law for a = -1 with
// both operands equal): y(2P) = (y^2 + x^2)/(1 - d x^2 y^2) = (AQ + PB)/(BQ - dPA).
// The identity is the only point with y = 1 (y = 1 forces x^2 (d+1) = 0), so
// [8]P = identity iff y after three doublings is 1, for either sign of x.
func judge(z *scratch, s []byte) verdict {
	var v verdict
	var t [32]byte
	copy(t[:], s)
	sign := t[31] >> 7
	t[31] &= 0x7f
	yRaw := leToInt(t[:])
	v.canonical = yRaw.Cmp(fp) < 0
	y := yRaw.Mod(yRaw, fp)
	z.n.Set(y)
	z.d.SetInt64(1)
	for i := 0; i < 3; i++ {
		z.mul(&z.a, &z.n, &z.n)
		z.mul(&z.b, &z.d, &z.d)
		z.p.Sub(&z.a, &z.b)
		z.p.Mod(&z.p, fp)
		z.mul(&z.q, fd, &z.a)
		z.q.Add(&z.q, &z.b)
		z.q.Mod(&z.q, fp)
		if i == 0 {
			z.mul(&z.t1, &z.p, &z.q)
			if big.Jacobi(&z.t1, fp) < 0 {
				return v
			}
			v.onCurve = true
			v.negZero = z.p.Sign() == 0 && sign == 1
		}
		z.mul(&z.t1, &z.a, &z.q)
		z.mul(&z.t2, &z.p, &z.b)
		z.t1.Add(&z.t1, &z.t2)
		z.t1.Mod(&z.t1, fp) // N' = AQ + PB
		z.mul(&z.t2, &z.b, &z.q)
		z.mul(&z.t3, &z.p, &z.a)
		z.mul(&z.t3, &z.t3, fd)
		z.t2.Sub(&z.t2, &z.t3)
		z.t2.Mod(&z.t2, fp) // D' = BQ - dPA
		z.n.Set(&z.t1)
		z.d.Set(&z.t2)
	}
	v.smallOrder = z.n.Cmp(&z.d) == 0
	// Montgomery u = (1+y)/(1-y); y = 1 maps to 0 by convention
	z.t1.Sub(one, y)
	z.t1.Mod(&z.t1, fp)
	if z.t1.Sign() == 0 {
		v.u = make([]byte, 32)
	} else {
		z.t2.Add(one, y)
		z.t1.ModInverse(&z.t1, fp)
		z.mul(&z.t2, &z.t2, &z.t1)
		v.u = intToLE32(&z.t2)
	}
	return v
}

// ---------------------------------------------------------------- the check

// lazyWitness builds the witness only when it is marshalled (i.e. on a violation).
type lazyWitness func() any

func (l lazyWitness) MarshalJSON() ([]byte, error) { return json.Marshal(l()) }

type kase struct {
	class string
	s     []byte
	// what the construction of the case itself guarantees (ground truth by
	// construction, in addition to the arithmetic verdict): "" = nothing,
	// "small" = small-order encoding, "good" = valid point that is not small order
	built string
}

func TestCheck(t *testing.T) {
	r := vf.Start(t, "C14", vf.Exploration)
	defer r.Finish()
	r.SetRule("Inputs (32-byte strings): the 8 torsion points computed as [L]Q for PRNG points Q (nothing copied from the blacklist), each with both sign bits and with the non-canonical y+p where it fits in 255 bits; every string at Hamming distance 1 from each of those small-order strings (256 per string, complete) and every single-byte substitution (32x255 per string; complete in the thorough tier, in the quick tier a PRNG quarter of the values per position and all values of the last byte); y in [0,64) and [p-32, 2^255) with both sign bits (complete); PRNG full-order points Q plus each torsion point T (Q+T: valid, not small order) with both sign bits; PRNG 32-byte strings. " +
		"Oracle: math/big arithmetic on the curve equation written in the harness (on-curve test by the Jacobi symbol of (y^2-1)(d y^2+1); small order by three doublings with the addition law on (x^2, y^2), [8]P = identity iff y becomes 1; Montgomery u=(1+y)/(1-y)), cross-checked per case against filippo.io/edwards25519 (SetBytes, MultByCofactor, BytesMontgomery). Demands: on-curve => IsEdLowOrder == smallOrder; small order => PublicKeyToCurve25519 refuses; not on curve => refuses; canonical on-curve not small order => accepts and returns u; non-canonical on-curve not small order: only 'if accepted then u is right' (whether a non-canonical encoding counts as a curve point is not stated). IsEdLowOrder on strings that are not curve points is not judged (the conversion refuses them either way). " +
		"Shared secret: for PRNG pairs of Ed25519 key pairs, X25519(conv(a.priv),conv(b.pub)) == X25519(conv(b.priv),conv(a.pub)), both equal the oracle's [clamp(sha512(seed_a))]·B_b computed with filippo.io/edwards25519, and conv(pub) == X25519(conv(priv), basepoint). " +
		"A case is non-trivial when both the code and the oracle produced a verdict for the string; distinct = distinct (class, string) / distinct key pairs. LIMIT: this decides the classifier on the structured neighbourhood where a byte compare against seven constants can differ from the arithmetic definition, plus PRNG sampling; it is NOT a proof over all 2^256 strings as the property's quantifier mentions (out of reach for runtime monitoring).")
	r.Assume("filippo.io/edwards25519 and math/big are trusted as the oracle's arithmetic; the two are cross-checked against each other on every case and a disagreement aborts the run as a harness error, not as a verdict.")
	r.Assume("Not a proof over all 2^256 strings: structured neighbourhood of the small-order encodings (complete at Hamming distance 1 and single-byte substitution) plus seeded random sampling.")
	r.Assume("Inputs of length != 32 are outside the property's quantifier ('all 32-byte strings') and are not exercised.")

	rng := r.Rand("c14")

	// ---- torsion subgroup by arithmetic: T = [L]Q = [L-1]Q + Q
	lm1 := new(big.Int).Sub(ordL, one)
	scLm1, err := edwards25519.NewScalar().SetCanonicalBytes(intToLE32(lm1))
	if err != nil {
		t.Fatalf("harness: L-1 not canonical: %v", err)
	}
	randPoint := func() *edwards25519.Point {
		for {
			b := g2util.Bytes(rng, 32)
			if p, err := new(edwards25519.Point).SetBytes(b); err == nil {
				return p
			}
		}
	}
	torsion := map[string]*edwards25519.Point{}
	for i := 0; i < 4000 && len(torsion) < 8; i++ {
		q := randPoint()
		tp := new(edwards25519.Point).ScalarMult(scLm1, q)
		tp.Add(tp, q)
		torsion[string(tp.Bytes())] = tp
	}
	if len(torsion) != 8 {
		t.Fatalf("harness: found %d torsion points, want 8", len(torsion))
	}
	var torsKeys []string
	for k := range torsion {
		torsKeys = append(torsKeys, k)
	}
	sort.Strings(torsKeys)
	ident := edwards25519.NewIdentityPoint()
	orders := map[int]int{}
	for _, k := range torsKeys {
		p := torsion[k]
		o := 1
		for acc := new(edwards25519.Point).Set(p); acc.Equal(ident) != 1; acc.Add(acc, p) {
			o++
			if o > 8 {
				t.Fatalf("harness: torsion point of order > 8")
			}
		}
		orders[o]++
	}
	if orders[1] != 1 || orders[2] != 1 || orders[4] != 2 || orders[8] != 4 {
		t.Fatalf("harness: torsion orders %v, want 1x1 1x2 2x4 4x8", orders)
	}
	r.Extra("torsion_orders", fmt.Sprint(orders))

	var cases []kase
	add := func(class string, s []byte, built string) {
		cases = append(cases, kase{class, g2util.Clone(s), built})
	}
	// small-order strings: canonical encodings, sign flipped, y+p
	smallSet := map[string][]byte{}
	for _, k := range torsKeys {
		enc := []byte(k)
		for _, sb := range []byte{0, 0x80} {
			e := g2util.Clone(enc)
			e[31] = e[31]&0x7f | sb
			smallSet[string(e)] = e
			y := leToInt(append(g2util.Clone(e[:31]), e[31]&0x7f))
			yp := new(big.Int).Add(y, fp)
			if yp.BitLen() <= 255 {
				nc := intToLE32(yp)
				nc[31] |= sb
				smallSet[string(nc)] = nc
			}
		}
	}
	var smallKeys []string
	for k := range smallSet {
		smallKeys = append(smallKeys, k)
	}
	sort.Strings(smallKeys)
	maskedSmall := map[string][]byte{}
	for _, k := range smallKeys {
		add("torsion", smallSet[k], "small")
		m := g2util.Clone(smallSet[k])
		m[31] &= 0x7f
		maskedSmall[string(m)] = m
	}
	r.Extra("small_order_strings", len(smallSet))
	r.Extra("small_order_strings_ignoring_sign", len(maskedSmall))
	var maskedKeys []string
	for k := range maskedSmall {
		maskedKeys = append(maskedKeys, k)
	}
	sort.Strings(maskedKeys)
	for _, k := range maskedKeys {
		base := maskedSmall[k]
		for bit := 0; bit < 256; bit++ {
			m := g2util.Clone(base)
			m[bit/8] ^= 1 << (bit % 8)
			add("hamming1", m, "")
		}
		for pos := 0; pos < 32; pos++ {
			for v := 1; v < 256; v++ {
				// quick tier: a PRNG quarter of the 255 substitution values per
				// position (complete in the thorough tier); byte 31 always complete
				if r.Quick() && pos != 31 && rng.IntN(4) != 0 {
					continue
				}
				m := g2util.Clone(base)
				m[pos] ^= byte(v)
				add("bytesub", m, "") // pos 31 includes the sign-bit variants
			}
		}
	}
	// small y and y around p
	for y := int64(0); y < 64; y++ {
		for _, sb := range []byte{0, 0x80} {
			e := intToLE32(big.NewInt(y))
			e[31] |= sb
			add("small-y", e, "")
		}
	}
	top := new(big.Int).Lsh(one, 255)
	for y := new(big.Int).Sub(fp, big.NewInt(32)); y.Cmp(top) < 0; y = new(big.Int).Add(y, one) {
		for _, sb := range []byte{0, 0x80} {
			e := intToLE32(y)
			e[31] |= sb
			add("near-p", e, "")
		}
	}
	// full-order point plus torsion
	nQT := r.N(300, 4000)
	for i := 0; i < nQT; i++ {
		sc, err := edwards25519.NewScalar().SetUniformBytes(g2util.Bytes(rng, 64))
		if err != nil {
			t.Fatalf("harness: %v", err)
		}
		if sc.Equal(edwards25519.NewScalar()) == 1 {
			continue
		}
		q := new(edwards25519.Point).ScalarBaseMult(sc) // prime order, not identity
		for _, k := range torsKeys {
			p := new(edwards25519.Point).Add(q, torsion[k])
			e := p.Bytes()
			add("Q+T", e, "good")
			e2 := g2util.Clone(e)
			e2[31] ^= 0x80 // -x: the negated point, also valid and not small order
			add("Q+T", e2, "good")
		}
	}
	// random strings: generated per batch from an own PRNG stream (a pure
	// function of seed and batch number), not stored
	const randBatch = 1000
	nR := r.N(40000, 500000)

	scratchPool := sync.Pool{New: func() any { return new(scratch) }}
	var oracleBroken sync.Once
	var oracleMsg string
	r.Begin(fmt.Sprintf("classifier: %d structured + %d PRNG strings", len(cases), nR))
	classify := func(i int, c kase, count func(string)) {
		hx := hex.EncodeToString(c.s)
		z := scratchPool.Get().(*scratch)
		v := judge(z, c.s)
		scratchPool.Put(z)

		// cross-check the two oracles (harness self-check)
		fpnt, ferr := new(edwards25519.Point).SetBytes(c.s)
		fOn := ferr == nil
		if fOn != v.onCurve {
			oracleBroken.Do(func() {
				oracleMsg = fmt.Sprintf("on-curve disagreement for %s: big=%v filippo=%v", hx, v.onCurve, fOn)
			})
			return
		}
		if fOn {
			fSmall := new(edwards25519.Point).MultByCofactor(fpnt).Equal(ident) == 1
			if fSmall != v.smallOrder || !bytes.Equal(fpnt.BytesMontgomery(), v.u) {
				oracleBroken.Do(func() {
					oracleMsg = fmt.Sprintf("small-order/u disagreement for %s: big=%v/%x filippo=%v/%x", hx, v.smallOrder, v.u, fSmall, fpnt.BytesMontgomery())
				})
				return
			}
		}
		if c.built == "small" && !(v.onCurve && v.smallOrder) || c.built == "good" && !(v.onCurve && !v.smallOrder) {
			oracleBroken.Do(func() {
				oracleMsg = fmt.Sprintf("construction disagrees with arithmetic for %s (%s): %+v", hx, c.class, v)
			})
			return
		}

		var low, ok bool
		var u []byte
		in1, in2 := g2util.Clone(c.s), g2util.Clone(c.s)
		pk1, pd1 := vf.Try(func() { low = extra25519.IsEdLowOrder(in1) })
		pk2, pd2 := vf.Try(func() { u, ok = extra25519.PublicKeyToCurve25519(ed25519.PublicKey(in2)) })
		w := lazyWitness(func() any {
			return map[string]any{"input": hx, "class": c.class, "oracle_on_curve": v.onCurve, "oracle_small_order": v.smallOrder, "oracle_canonical": v.canonical, "oracle_u": hex.EncodeToString(v.u),
				"IsEdLowOrder": low, "PublicKeyToCurve25519_ok": ok, "PublicKeyToCurve25519_u": hex.EncodeToString(u)}
		})
		if pk1 {
			r.Violation("IsEdLowOrder/panic", "IsEdLowOrder panicked on a 32-byte string: "+pd1, w)
		}
		if pk2 {
			r.Violation("PublicKeyToCurve25519/panic", "PublicKeyToCurve25519 panicked on a 32-byte string: "+pd2, w)
		}
		r.Case(c.class+"|"+hx, !pk1 && !pk2)
		if pk1 || pk2 {
			return
		}
		if !bytes.Equal(in1, c.s) || !bytes.Equal(in2, c.s) {
			count("input_modified_by_callee")
		}
		cls := "offcurve"
		switch {
		case v.onCurve && v.smallOrder:
			cls = "small"
		case v.onCurve && v.canonical:
			cls = "valid-canonical"
		case v.onCurve:
			cls = "valid-noncanonical"
		}
		count("strings_" + cls)
		count("class_" + c.class)
		if i%9973 == 0 || (c.class == "torsion" && i < 2) {
			r.Sample(map[string]any{"class": c.class, "input": hx, "oracle": cls, "IsEdLowOrder": low, "converted": ok})
		}
		if v.onCurve && low != v.smallOrder {
			if v.smallOrder {
				r.Violation("IsEdLowOrder/missed-small-order/"+c.class, "small-order point not classified as low order", w)
			} else {
				r.Violation("IsEdLowOrder/false-positive/"+c.class, "a point that is not small order is classified as low order", w)
			}
		}
		switch cls {
		case "small":
			if ok {
				r.Violation("PublicKeyToCurve25519/accepts-small-order/"+c.class, "small-order point converted", w)
			}
		case "offcurve":
			if ok {
				r.Violation("PublicKeyToCurve25519/accepts-non-point/"+c.class, "byte string that is not a curve point converted", w)
			}
		case "valid-canonical":
			if !ok {
				r.Violation("PublicKeyToCurve25519/refuses-valid/"+c.class, "valid point that is not small order refused", w)
			} else if !bytes.Equal(u, v.u) {
				r.Violation("PublicKeyToCurve25519/wrong-u/"+c.class, "converted u coordinate differs from (1+y)/(1-y)", w)
			}
		case "valid-noncanonical":
			if ok {
				count("noncanonical_accepted")
				if !bytes.Equal(u, v.u) {
					r.Violation("PublicKeyToCurve25519/wrong-u/"+c.class, "converted u coordinate differs from (1+y)/(1-y)", w)
				}
			} else {
				count("noncanonical_refused")
			}
		}
		if !ok && u != nil {
			count("refused_with_non_nil_result")
		}
	}
	g2util.ParForBatch(len(cases), 512, func(lo, hi int) {
		local := map[string]int{}
		for i := lo; i < hi; i++ {
			classify(i, cases[i], func(k string) { local[k]++ })
		}
		for k, n := range local {
			r.Count(k, n)
		}
	})
	g2util.ParFor(nR/randBatch, func(b int) {
		local := map[string]int{}
		brng := r.Rand(fmt.Sprintf("c14-random-%d", b))
		for k := 0; k < randBatch; k++ {
			i := len(cases) + b*randBatch + k
			classify(i, kase{"random", g2util.Bytes(brng, 32), ""}, func(k string) { local[k]++ })
		}
		for k, n := range local {
			r.Count(k, n)
		}
	})
	if oracleMsg != "" {
		t.Fatalf("harness: oracle self-check failed: %s", oracleMsg)
	}

	// ---------------- shared secret symmetry
	type kp struct {
		seed []byte
		priv ed25519.PrivateKey
		pub  ed25519.PublicKey
	}
	nK := r.N(5000, 40000)
	kps := make([]kp, nK+1)
	for i := range kps {
		seed := g2util.Bytes(rng, 32)
		priv := ed25519.NewKeyFromSeed(seed)
		kps[i] = kp{seed, priv, priv.Public().(ed25519.PublicKey)}
	}
	x := ecdh.X25519()
	basepoint := make([]byte, 32)
	basepoint[0] = 9
	r.Begin(fmt.Sprintf("shared secret symmetry: %d pairs", nK))
	// X25519 with the basepoint through the public API: use the private key's PublicKey()
	g2util.ParFor(nK, func(i int) {
		a, b := kps[i], kps[i+1]
		sig := fmt.Sprintf("pair|%x|%x", a.pub, b.pub)
		w := map[string]any{"a_seed": hex.EncodeToString(a.seed), "b_seed": hex.EncodeToString(b.seed), "a_pub": hex.EncodeToString(a.pub), "b_pub": hex.EncodeToString(b.pub)}
		var aX, bX, aPubX, bPubX []byte
		var okA, okB bool
		pk, pd := vf.Try(func() {
			aX = extra25519.PrivateKeyToCurve25519(g2util.Clone(a.priv))
			bX = extra25519.PrivateKeyToCurve25519(g2util.Clone(b.priv))
			aPubX, okA = extra25519.PublicKeyToCurve25519(g2util.Clone(a.pub))
			bPubX, okB = extra25519.PublicKeyToCurve25519(g2util.Clone(b.pub))
		})
		if pk {
			r.Violation("conversion/panic/honest-key", "conversion of an honest key pair panicked: "+pd, w)
			r.Case(sig, false)
			return
		}
		if !okA || !okB {
			r.Violation("PublicKeyToCurve25519/refuses-valid/honest-key", "public key of an honestly generated key pair refused", w)
			r.Case(sig, false)
			return
		}
		if len(aX) < 32 || len(bX) < 32 {
			r.Violation("PrivateKeyToCurve25519/short", "converted private key shorter than 32 bytes", w)
			r.Case(sig, false)
			return
		}
		ka, e1 := x.NewPrivateKey(aX[:32])
		kb, e2 := x.NewPrivateKey(bX[:32])
		pa, e3 := x.NewPublicKey(aPubX)
		pb, e4 := x.NewPublicKey(bPubX)
		if e1 != nil || e2 != nil || e3 != nil || e4 != nil {
			r.Violation("conversion/unusable", fmt.Sprintf("converted keys not accepted by X25519: %v %v %v %v", e1, e2, e3, e4), w)
			r.Case(sig, false)
			return
		}
		sAB, e5 := ka.ECDH(pb)
		sBA, e6 := kb.ECDH(pa)
		r.Case(sig, true)
		r.Count("key_pairs", 1)
		if e5 != nil || e6 != nil {
			r.Violation("sharedsecret/error", fmt.Sprintf("X25519 failed on converted honest keys: %v %v", e5, e6), w)
			return
		}
		w["secret_ab"], w["secret_ba"] = hex.EncodeToString(sAB), hex.EncodeToString(sBA)
		if !bytes.Equal(sAB, sBA) {
			r.Violation("sharedsecret/asymmetric", "X25519(conv(a.priv),conv(b.pub)) != X25519(conv(b.priv),conv(a.pub))", w)
			return
		}
		// the documented relation that makes the symmetry hold
		if !bytes.Equal(ka.PublicKey().Bytes(), aPubX) {
			w["x25519_pub_from_priv"] = hex.EncodeToString(ka.PublicKey().Bytes())
			w["converted_pub"] = hex.EncodeToString(aPubX)
			r.Violation("conversion/pub-priv-mismatch", "X25519 public key of the converted private key != converted public key", w)
		}
		// independent value: [clamp(sha512(seed_a)[:32])] * B_b, Montgomery u
		h := sha512.Sum512(a.seed)
		sc, err := edwards25519.NewScalar().SetBytesWithClamping(h[:32])
		pB, err2 := new(edwards25519.Point).SetBytes(b.pub)
		if err != nil || err2 != nil {
			r.Inconclusive("oracle could not decode an honest key")
			return
		}
		want := new(edwards25519.Point).ScalarMult(sc, pB).BytesMontgomery()
		if !bytes.Equal(want, sAB) {
			w["oracle_secret"] = hex.EncodeToString(want)
			r.Violation("sharedsecret/wrong-value", "shared secret differs from [a]B computed by group arithmetic", w)
		}
		if i < 1 {
			r.Sample(map[string]any{"class": "key-pair", "a_pub": hex.EncodeToString(a.pub), "b_pub": hex.EncodeToString(b.pub), "shared": hex.EncodeToString(sAB)})
		}
	})
	r.Extra("classifier_strings", len(cases)+nR/randBatch*randBatch)
	r.Extra("key_pairs", nK)
}
