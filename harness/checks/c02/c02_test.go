// C02: detached signatures bind key, context, hash type and data.
//
// Ground truth by construction: the harness knows under which (key, context,
// hash type, data) every signature was created and under which tuple it is
// presented. Second opinion: the documented sign body
//
//	ctx || " - SIGN - " || itoa(type) || " - SIGN - " || H(data)
//
// recomputed with independent hash implementations and verified / signed with
// crypto/ed25519 directly (g1util). A verdict needs both to agree.
package c02

import (
	"bytes"
	"fmt"
	"math"
	"math/rand/v2"
	"strings"
	"testing"

	"github.com/aperturerobotics/bifrost/crypto"
	"github.com/aperturerobotics/bifrost/hash"
	"github.com/aperturerobotics/bifrost/peer"

	g "verifharness/g1util"
	"verifharness/vf"
)

var ctxs = []string{
	"", "a", "b", "ab", "a ", " a", g.Sep, "a" + g.Sep + "1", "a" + g.Sep, "a" + g.Sep + "1" + g.Sep, "a" + g.Sep + "2",
	" - SIGN - 1", "1", "example.com 2019-12-25 16:18:03 session tokens v1", "example.com 2019-12-25 16:18:03 session tokens v2",
	"ключ-日本語", "a\x00b", "a\x00", "\x00", strings.Repeat("c", 2000),
}

var badTypes = []int32{0, 4, 5, 6, 7, 8, 16, 100, -1, -2, math.MaxInt32, math.MinInt32}

type tuple struct {
	k    *g.Key
	ctx  string
	ht   int32
	data []byte
}

func (t tuple) sig() string {
	return fmt.Sprintf("k%d|%q|h%d|%d:%s", t.k.Idx, short(t.ctx), t.ht, len(t.data), vf.Hex(firstN(t.data, 12)))
}

func short(s string) string {
	if len(s) > 40 {
		return s[:40] + fmt.Sprintf("...(%d)", len(s))
	}
	return s
}

func firstN(b []byte, n int) []byte {
	if len(b) > n {
		return b[:n]
	}
	return b
}

func TestCheck(t *testing.T) {
	r := vf.Start(t, "C02", vf.Exploration)
	defer r.Finish()
	r.SetRule("creation tuples (key, context, hash type, data) from a seeded pool x contexts (empty, unicode, NUL, pairs that differ only by moving bytes across the ' - SIGN - ' separator) x 3 hash types x data (empty..8 KiB); each signature is presented under the same tuple and under tuples that differ in exactly one component (other key, other context, hash_type field set to every other value incl. 0 and out-of-enum, other data incl. the digest itself / one flipped bit / prefix / extension) and in several; arbitrary signature byte strings (0,1,63,64,65 bytes, every single byte flipped); hostile signatures made by the reference signer for unsupported hash types; Signature objects with unsupported types / empty sig / unparsable or foreign embedded keys through Validate, one defect at a time AND as the full cross product {supported 1..3, 0, out-of-enum values} x {valid, empty, nil, arbitrary non-empty sig_data} x {no key, signer's key, another valid key, every malformed key encoding}: each rejection clause must fire whatever the other two fields look like. Oracle: VerifyWithPublic == (true,nil) <=> presented tuple == creation tuple, cross-checked by an independent verification of the documented sign body with crypto/ed25519 (a verdict needs both opinions); NewSignature output must be byte-identical to the reference signer's (Ed25519 is deterministic); nothing verifies with hash type 0 / out-of-enum or empty sig_data; Validate rejects out-of-enum hash types, empty sig_data and embedded keys the reference key decoder calls invalid. Non-trivial = the creation succeeded and the same-tuple presentation verified; distinct = distinct (creation tuple, presented tuple / object)")
	r.Assume("crypto/ed25519 is the trusted primitive; Validate() accepting hash_type 0 is deliberately not flagged (DESIGN 8): only 'nothing verifies with type 0' is demanded")
	rng := r.Rand("c02")
	pool := g.KeyPool(rng, r.N(10, 64))

	datas := [][]byte{nil, {}, {0}, {1}, []byte("a"), []byte("ab"), []byte("hello world"), bytes.Repeat([]byte{0}, 32), bytes.Repeat([]byte{0xff}, 64), g.RandBytes(rng, 31), g.RandBytes(rng, 32), g.RandBytes(rng, 33), g.RandBytes(rng, 1000), g.RandBytes(rng, 8192)}

	var tuples []tuple
	// structured: every context with every hash type, rotating keys/data
	n := 0
	for _, c := range ctxs {
		for ht := int32(1); ht <= 3; ht++ {
			tuples = append(tuples, tuple{pool[n%len(pool)], c, ht, datas[n%len(datas)]})
			n++
		}
	}
	// every data with every hash type
	for _, d := range datas {
		for ht := int32(1); ht <= 3; ht++ {
			tuples = append(tuples, tuple{pool[n%len(pool)], ctxs[n%len(ctxs)], ht, d})
			n++
		}
	}
	total := r.N(260, 6000)
	for len(tuples) < total {
		tp := tuple{k: pool[rng.IntN(len(pool))], ht: int32(1 + rng.IntN(3))}
		if rng.IntN(2) == 0 {
			tp.ctx = ctxs[rng.IntN(len(ctxs))]
		} else {
			tp.ctx = string(g.RandBytes(rng, rng.IntN(40)))
		}
		if rng.IntN(3) == 0 {
			tp.data = datas[rng.IntN(len(datas))]
		} else {
			tp.data = g.RandBytes(rng, rng.IntN(200))
		}
		tuples = append(tuples, tp)
	}

	// verify presents sig under (pub, ctx, data); accepted = (true, nil).
	type outcome struct {
		ok       bool
		err      error
		panicked bool
		pd       string
	}
	verify := func(s *peer.Signature, pub crypto.PubKey, ctx string, data []byte) outcome {
		var o outcome
		o.panicked, o.pd = vf.Try(func() { o.ok, o.err = s.VerifyWithPublic(ctx, pub, data) })
		return o
	}

	// check one presentation. same = presented tuple equals the creation tuple.
	presentTuple := func(created tuple, parentOK bool, s *peer.Signature, pk *g.Key, ctx string, data []byte, same bool, class, detail string) {
		o := verify(s, pk.PubK, ctx, data)
		csig := fmt.Sprintf("%s => %s|k%d|%q|h%d|%d:%s|%s", created.sig(), class, pk.Idx, short(ctx), int32(s.GetHashType()), len(data), vf.Hex(firstN(data, 12)), detail)
		w := func() map[string]any {
			return map[string]any{"created": created.sig(), "class": class, "detail": detail,
				"present_key": pk.Idx, "present_ctx": ctx, "present_hash_type": int32(s.GetHashType()), "present_data": vf.Hex(data),
				"sig": vf.Hex(s.GetSigData()), "created_ctx": created.ctx, "created_data": vf.Hex(created.data), "err": fmt.Sprint(o.err)}
		}
		r.Case(csig, parentOK)
		r.Count("verify_calls", 1)
		r.Count("verify_"+strings.SplitN(class, "/", 2)[0], 1)
		if o.panicked {
			r.Violation("VerifyWithPublic/panic/"+class, "panicked: "+o.pd, w())
			return
		}
		accepted := o.ok && o.err == nil
		ref := g.RefVerify(pk.Pub, ctx, int32(s.GetHashType()), data, s.GetSigData())
		switch {
		case same && !accepted:
			if ref {
				r.Violation("VerifyWithPublic/rejects-honest/"+class, "signature presented under its creation tuple does not verify", w())
			} else {
				r.Inconclusive("reference and construction disagree (same tuple, reference says invalid): " + csig)
			}
		case !same && accepted:
			if !ref {
				r.Violation("VerifyWithPublic/accepts-mismatch/"+class, "signature verified under a tuple that differs from its creation tuple", w())
			} else {
				// would need a hash collision or an equal tuple generated twice: counted
				r.Count("accepted_mismatch_label_but_reference_valid", 1)
			}
		case same:
			r.Count("accepted_same_tuple", 1)
		default:
			r.Count("rejected_mismatch", 1)
			if o.ok {
				r.Count("ok_true_with_error", 1)
			}
		}
		if int32(s.GetHashType()) == 0 || !g.SupportedHash(int32(s.GetHashType())) || len(s.GetSigData()) == 0 {
			if o.ok {
				r.Violation("VerifyWithPublic/ok-with-unsupported-type-or-empty-sig/"+class, "ok=true for an unsupported hash type or empty sig_data", w())
			}
		}
	}

	workers := 12
	rngs := make([]*rand.Rand, len(tuples))
	for i := range rngs {
		rngs[i] = r.Rand(fmt.Sprintf("c02-tuple-%d", i))
	}
	r.Begin(fmt.Sprintf("%d creation tuples", len(tuples)))
	g.Parallel(workers, func(w int) {
		for ti := w; ti < len(tuples); ti += workers {
			tp := tuples[ti]
			rng := rngs[ti]
			incl := ti%2 == 1
			var s *peer.Signature
			var err error
			if pn, pd := vf.Try(func() { s, err = peer.NewSignature(tp.ctx, tp.k.Priv, hash.HashType(tp.ht), tp.data, incl) }); pn || err != nil || s == nil {
				r.Violation("NewSignature/failed", fmt.Sprintf("cannot sign with a supported hash type: panic=%v %s err=%v", pn, pd, err), tp.sig())
				r.Case(tp.sig(), false)
				continue
			}
			r.Count("signatures_created", 1)
			// (A) creation: byte-identical to the reference signer; fields as requested
			want, _ := g.RefSign(tp.k.Std, tp.ctx, tp.ht, tp.data)
			if !bytes.Equal(s.GetSigData(), want) || int32(s.GetHashType()) != tp.ht {
				r.Violation("NewSignature/not-documented-sign-body", "signature differs from Ed25519(documented sign body) or hash_type field wrong", map[string]any{"tuple": tp.sig(), "got": vf.Hex(s.GetSigData()), "want": vf.Hex(want), "hash_type": int32(s.GetHashType())})
			}
			if incl {
				if pub, st := g.ParseEd25519PubProto(s.GetPubKey()); st != g.Valid || !bytes.Equal(pub, tp.k.Pub) {
					r.Violation("NewSignature/embedded-key-wrong", "inclPubKey: embedded key is not the signer's marshalled public key", map[string]any{"tuple": tp.sig(), "pub_key": vf.Hex(s.GetPubKey())})
				}
				pk, perr := s.ParsePubKey()
				if perr != nil || pk == nil || !pk.Equals(tp.k.PubK) {
					r.Violation("Signature.ParsePubKey/wrong", "embedded key does not parse back to the signer's key", tp.sig())
				}
			} else if len(s.GetPubKey()) != 0 {
				r.Violation("NewSignature/embedded-key-unrequested", "pub_key set although inclPubKey=false", tp.sig())
			}
			if verr := s.Validate(); verr != nil {
				r.Violation("Signature.Validate/rejects-honest", "Validate rejects a freshly created signature: "+verr.Error(), tp.sig())
			}
			// pre-hashed entry point must give the same signature
			if d, ok := g.Sum(tp.ht, tp.data); ok {
				s2, err2 := peer.NewSignatureWithHashedData(tp.ctx, tp.k.Priv, hash.HashType(tp.ht), d, false)
				if err2 != nil || !bytes.Equal(s2.GetSigData(), want) {
					r.Violation("NewSignatureWithHashedData/differs", "pre-hashed entry point gives a different signature", tp.sig())
				}
			}
			if ti < 3 {
				r.Sample(map[string]any{"ctx": tp.ctx, "hash_type": tp.ht, "data": vf.Hex(tp.data), "sig": vf.Hex(s.GetSigData()), "signer": g.B58Encode(g.RefPeerIDBytes(tp.k.Pub))})
			}

			// (B) same tuple
			o := verify(s, tp.k.PubK, tp.ctx, tp.data)
			parentOK := !o.panicked && o.ok && o.err == nil
			presentTuple(tp, true, s, tp.k, tp.ctx, tp.data, true, "same", "")
			// freshly unmarshalled public key object and wire round trip of the signature
			if wb, err := s.MarshalVT(); err == nil {
				s3 := &peer.Signature{}
				if err := s3.UnmarshalVT(wb); err == nil {
					presentTuple(tp, true, s3, tp.k, tp.ctx, tp.data, true, "same/wire", "")
				}
			}

			// other keys
			for j := 0; j < 3; j++ {
				k2 := pool[(tp.k.Idx+1+rng.IntN(len(pool)-1))%len(pool)]
				presentTuple(tp, parentOK, s, k2, tp.ctx, tp.data, false, "key/other", "")
			}
			// other contexts
			seen := map[string]bool{tp.ctx: true}
			pc := func(class, c string) {
				if seen[c] {
					return
				}
				seen[c] = true
				presentTuple(tp, parentOK, s, tp.k, c, tp.data, false, "ctx/"+class, "")
			}
			for _, c := range ctxs {
				pc("other", c)
			}
			pc("append-x", tp.ctx+"x")
			pc("append-nul", tp.ctx+"\x00")
			pc("sep-shift-type", tp.ctx+g.Sep+fmt.Sprint(tp.ht))
			pc("sep-suffix", tp.ctx+g.Sep)
			if len(tp.ctx) > 0 {
				pc("truncate1", tp.ctx[:len(tp.ctx)-1])
				pc("empty", "")
			}
			if i := strings.Index(tp.ctx, g.Sep); i >= 0 {
				pc("sep-prefix-part", tp.ctx[:i])
			}
			pc("upper", strings.ToUpper(tp.ctx))
			// hash_type field set to every other value
			for _, v := range append([]int32{1, 2, 3}, badTypes...) {
				if v == tp.ht {
					continue
				}
				s4 := s.CloneVT()
				s4.HashType = hash.HashType(v)
				presentTuple(tp, parentOK, s4, tp.k, tp.ctx, tp.data, false, "type/set", fmt.Sprint(v))
			}
			// other data
			pd := func(class string, d []byte) {
				if bytes.Equal(d, tp.data) {
					return
				}
				presentTuple(tp, parentOK, s, tp.k, tp.ctx, d, false, "data/"+class, "")
			}
			if len(tp.data) > 0 {
				fl := append([]byte(nil), tp.data...)
				fl[rng.IntN(len(fl))] ^= 1 << rng.UintN(8)
				pd("flipbit", fl)
				pd("truncate1", tp.data[:len(tp.data)-1])
				pd("empty", nil)
			}
			pd("append0", append(append([]byte(nil), tp.data...), 0))
			pd("prepend0", append([]byte{0}, tp.data...))
			pd("random", g.RandBytes(rng, len(tp.data)+rng.IntN(3)))
			if d, ok := g.Sum(tp.ht, tp.data); ok {
				pd("digest-as-data", d)
			}
			// two and more components at once
			for j := 0; j < 4; j++ {
				k2 := pool[rng.IntN(len(pool))]
				c2 := ctxs[rng.IntN(len(ctxs))]
				d2 := datas[rng.IntN(len(datas))]
				s5 := s.CloneVT()
				if rng.IntN(2) == 0 {
					s5.HashType = hash.HashType(1 + rng.IntN(3))
				}
				same := k2 == tp.k && c2 == tp.ctx && bytes.Equal(d2, tp.data) && int32(s5.HashType) == tp.ht
				presentTuple(tp, parentOK, s5, k2, c2, d2, same, "multi", fmt.Sprint(j))
			}
			// signature for another component, presented here
			if ti%4 == 0 {
				k2 := pool[(tp.k.Idx+1)%len(pool)]
				for _, alt := range []struct {
					class string
					t     tuple
				}{
					{"sig/by-other-key", tuple{k2, tp.ctx, tp.ht, tp.data}},
					{"sig/over-other-ctx", tuple{tp.k, tp.ctx + "/v2", tp.ht, tp.data}},
					{"sig/over-other-type", tuple{tp.k, tp.ctx, tp.ht%3 + 1, tp.data}},
					{"sig/over-other-data", tuple{tp.k, tp.ctx, tp.ht, append([]byte("x"), tp.data...)}},
				} {
					if sb, ok := g.RefSign(alt.t.k.Std, alt.t.ctx, alt.t.ht, alt.t.data); ok {
						s6 := &peer.Signature{HashType: hash.HashType(tp.ht), SigData: sb}
						presentTuple(alt.t, parentOK, s6, tp.k, tp.ctx, tp.data, false, alt.class, "")
					}
				}
				// signatures over plausible but undocumented bodies
				d, _ := g.Sum(tp.ht, tp.data)
				for name, body := range map[string][]byte{
					"raw-data":         tp.data,
					"digest-only":      d,
					"ctx-data":         append([]byte(tp.ctx), tp.data...),
					"no-type":          bytes.Join([][]byte{[]byte(tp.ctx), d}, []byte(g.Sep)),
					"type-name":        bytes.Join([][]byte{[]byte(tp.ctx), []byte(hash.HashType(tp.ht).String()), d}, []byte(g.Sep)),
					"no-ctx":           g.SignBodyHashed("", tp.ht, d),
					"unhashed":         g.SignBodyHashed(tp.ctx, tp.ht, tp.data),
					"hex-digest":       g.SignBodyHashed(tp.ctx, tp.ht, []byte(fmt.Sprintf("%x", d))),
					"other-sep":        bytes.Join([][]byte{[]byte(tp.ctx), []byte(fmt.Sprint(tp.ht)), d}, []byte(" - ")),
					"ctx-trailing-sep": g.SignBodyHashed(tp.ctx+g.Sep, tp.ht, d),
				} {
					if name == "no-ctx" && tp.ctx == "" {
						continue
					}
					if bytes.Equal(body, g.SignBodyHashed(tp.ctx, tp.ht, d)) {
						continue
					}
					sb, _ := tp.k.Priv.Sign(body)
					s7 := &peer.Signature{HashType: hash.HashType(tp.ht), SigData: sb}
					presentTuple(tp, parentOK, s7, tp.k, tp.ctx, tp.data, false, "sig/over-undocumented-body", name)
				}
			}
			// arbitrary signature byte strings
			if ti%4 == 1 {
				sd := s.GetSigData()
				arb := map[string][]byte{
					"nil": nil, "empty": {}, "1": {1}, "63": sd[:63], "65": append(append([]byte(nil), sd...), 0), "64-zero": make([]byte, 64),
					"64-random": g.RandBytes(rng, 64), "32": sd[:32], "128": append(append([]byte(nil), sd...), sd...), "63-random": g.RandBytes(rng, 63), "65-random": g.RandBytes(rng, 65),
					"swap-halves": append(append([]byte(nil), sd[32:]...), sd[:32]...),
				}
				for name, b := range arb {
					s8 := &peer.Signature{HashType: hash.HashType(tp.ht), SigData: b}
					presentTuple(tp, parentOK, s8, tp.k, tp.ctx, tp.data, false, "sigbytes/"+name, "")
				}
				for i := 0; i < 64; i++ {
					b := append([]byte(nil), sd...)
					b[i] ^= 1 << rng.UintN(8)
					s8 := &peer.Signature{HashType: hash.HashType(tp.ht), SigData: b}
					presentTuple(tp, parentOK, s8, tp.k, tp.ctx, tp.data, false, "sigbytes/flip", fmt.Sprint(i))
				}
			}
			// (C) unsupported hash types: creation and hostile signatures
			if ti%4 == 2 {
				for _, bt := range badTypes {
					var sb *peer.Signature
					var cerr error
					if pn, pd := vf.Try(func() { sb, cerr = peer.NewSignature(tp.ctx, tp.k.Priv, hash.HashType(bt), tp.data, false) }); pn {
						r.Violation("NewSignature/panic/unsupported-type", "panicked: "+pd, map[string]any{"tuple": tp.sig(), "type": bt})
						continue
					}
					if cerr == nil && sb != nil {
						r.Count("created_with_unsupported_type", 1)
						presentTuple(tp, parentOK, sb, tp.k, tp.ctx, tp.data, false, "type/created-unsupported", fmt.Sprint(bt))
					} else {
						r.Count("creation_refused_unsupported_type", 1)
					}
					// what a signer could produce if it simply wrote the type into the body
					for hn, digest := range map[string][]byte{"empty": nil, "raw": tp.data, "sha256": sum(g.HashSHA256, tp.data), "sha1": sum(g.HashSHA1, tp.data), "blake3": sum(g.HashBLAKE3, tp.data)} {
						sd, _ := tp.k.Priv.Sign(g.SignBodyHashed(tp.ctx, bt, digest))
						s9 := &peer.Signature{HashType: hash.HashType(bt), SigData: sd}
						presentTuple(tp, parentOK, s9, tp.k, tp.ctx, tp.data, false, "type/hostile-unsupported", fmt.Sprintf("%d/%s", bt, hn))
					}
					// pre-hashed entry point with an unsupported type
					var sh *peer.Signature
					var herr error
					if pn, pd := vf.Try(func() {
						sh, herr = peer.NewSignatureWithHashedData(tp.ctx, tp.k.Priv, hash.HashType(bt), sum(g.HashSHA256, tp.data), false)
					}); pn {
						r.Violation("NewSignatureWithHashedData/panic/unsupported-type", "panicked: "+pd, map[string]any{"tuple": tp.sig(), "type": bt})
					} else if herr == nil && sh != nil {
						r.Count("created_prehashed_with_unsupported_type", 1)
						presentTuple(tp, parentOK, sh, tp.k, tp.ctx, tp.data, false, "type/created-prehashed-unsupported", fmt.Sprint(bt))
					}
				}
			}
			// (D) Validate on signature objects
			if ti%4 == 3 {
				keyProto := g.MarshalKeyProto(g.KeyTypeEd25519, tp.k.Pub)
				type vobj struct {
					name       string
					s          *peer.Signature
					mustReject bool
				}
				objs := []vobj{
					{"nil-object", nil, true},
					{"zero-object", &peer.Signature{}, true},
					{"empty-sig", &peer.Signature{HashType: hash.HashType(tp.ht), SigData: []byte{}}, true},
					{"nil-sig", &peer.Signature{HashType: hash.HashType(tp.ht)}, true},
					{"nil-sig-with-key", &peer.Signature{HashType: hash.HashType(tp.ht), PubKey: keyProto}, true},
					{"good-with-key", &peer.Signature{HashType: hash.HashType(tp.ht), SigData: s.GetSigData(), PubKey: keyProto}, false},
					{"type0", &peer.Signature{HashType: 0, SigData: s.GetSigData()}, false}, // deliberately not demanded
				}
				for _, bt := range badTypes {
					if bt == 0 {
						continue
					}
					objs = append(objs, vobj{fmt.Sprintf("bad-type-%d", bt), &peer.Signature{HashType: hash.HashType(bt), SigData: s.GetSigData()}, true})
				}
				badKeys := map[string][]byte{
					"garbage": {0xff, 0xff, 0xff}, "truncated": keyProto[:len(keyProto)-1], "rsa-type": g.MarshalKeyProto(0, tp.k.Pub), "type-2": g.MarshalKeyProto(2, tp.k.Pub),
					"31-bytes": g.MarshalKeyProto(1, tp.k.Pub[:31]), "33-bytes": g.MarshalKeyProto(1, append(append([]byte(nil), tp.k.Pub...), 0)), "raw-pub": tp.k.Pub,
					"empty-data": g.MarshalKeyProto(1, nil), "only-type": {0x08, 0x01}, "one-zero": {0x00}, "len-overrun": append([]byte{0x08, 0x01, 0x12, 0x40}, tp.k.Pub...),
				}
				for i := 0; i < 12; i++ {
					badKeys[fmt.Sprintf("mutated-%d", i)] = g.Mutate(rng, keyProto, s.GetSigData())
				}
				for name, kb := range badKeys {
					_, st := g.ParseEd25519PubProto(kb)
					if len(kb) == 0 {
						continue
					}
					objs = append(objs, vobj{"key-" + name, &peer.Signature{HashType: hash.HashType(tp.ht), SigData: s.GetSigData(), PubKey: kb}, st == g.Invalid})
				}
				for _, ob := range objs {
					var verr error
					pn, pd := vf.Try(func() { verr = ob.s.Validate() })
					osig := fmt.Sprintf("validate|%s|%s|%x", tp.sig(), ob.name, ob.s.GetPubKey())
					r.Case(osig, true)
					r.Count("validate_calls", 1)
					class := ob.name
					if strings.HasPrefix(class, "key-mutated") {
						class = "key-mutated"
					}
					if pn {
						r.Violation("Signature.Validate/panic/"+class, "panicked: "+pd, map[string]any{"object": ob.name, "pub_key": vf.Hex(ob.s.GetPubKey())})
						continue
					}
					if ob.mustReject && verr == nil {
						r.Violation("Signature.Validate/accepts/"+class, "Validate accepted a signature object with an out-of-enum hash type, empty sig_data or unparsable embedded public key", map[string]any{"object": ob.name, "hash_type": int32(ob.s.GetHashType()), "sig_len": len(ob.s.GetSigData()), "pub_key": vf.Hex(ob.s.GetPubKey())})
					}
					if verr != nil {
						r.Count("validate_rejected", 1)
					} else {
						r.Count("validate_accepted", 1)
					}
					if ob.name == "good-with-key" && verr != nil {
						r.Violation("Signature.Validate/rejects-honest", "rejects a good signature with the signer's embedded key: "+verr.Error(), tp.sig())
					}
					// whatever Validate says, verification under the creation tuple must follow the tuple rule
					if ob.s != nil && ob.name != "good-with-key" {
						same := int32(ob.s.GetHashType()) == tp.ht && bytes.Equal(ob.s.GetSigData(), s.GetSigData())
						presentTuple(tp, parentOK, ob.s, tp.k, tp.ctx, tp.data, same, "object/"+class, ob.name)
					} else if ob.s == nil {
						o := verify(nil, tp.k.PubK, tp.ctx, tp.data)
						if o.panicked {
							r.Violation("VerifyWithPublic/panic/nil-object", "panicked: "+o.pd, tp.sig())
						} else if o.ok {
							r.Violation("VerifyWithPublic/ok-with-unsupported-type-or-empty-sig/nil-object", "nil signature object verified", tp.sig())
						}
					}
				}
				// (D2) full cross product of the three Validate clauses: every hash type
				// shape x every sig_data shape x every embedded-key shape. A rejection
				// clause must fire whatever the other two fields look like (a defect in
				// one field must not be masked by a well-formed or malformed other field).
				if ti%8 != 3 {
					continue
				}
				other := pool[(tp.k.Idx+1)%len(pool)]
				type fshape struct {
					class string
					bad   bool // the property's rejection clause applies to this field value
				}
				type tshape struct {
					fshape
					v int32
				}
				type bshape struct {
					fshape
					name string
					b    []byte
				}
				var tshapes []tshape
				for _, v := range []int32{1, 2, 3} {
					tshapes = append(tshapes, tshape{fshape{"supported", false}, v})
				}
				tshapes = append(tshapes, tshape{fshape{"zero", false}, 0}) // type 0: not demanded (DESIGN 8)
				for _, bt := range append(append([]int32(nil), badTypes...), 99, 1<<20, 9, 32, 255, 256, -100) {
					if bt != 0 {
						tshapes = append(tshapes, tshape{fshape{"out-of-enum", true}, bt})
					}
				}
				sshapes := []bshape{
					{fshape{"valid", false}, "valid", s.GetSigData()},
					{fshape{"empty", true}, "empty", []byte{}},
					{fshape{"empty", true}, "nil", nil},
					{fshape{"non-empty-arbitrary", false}, "1-byte", []byte{0}},
					{fshape{"non-empty-arbitrary", false}, "64-random", g.RandBytes(rng, 64)},
				}
				kshapes := []bshape{
					{fshape{"no-key", false}, "none", nil},
					{fshape{"own-key", false}, "own", keyProto},
					{fshape{"other-key", false}, "other", g.MarshalKeyProto(g.KeyTypeEd25519, other.Pub)},
				}
				for name, kb := range badKeys {
					if len(kb) == 0 {
						continue
					}
					_, st := g.ParseEd25519PubProto(kb)
					cl := "key-" + name
					if strings.HasPrefix(name, "mutated") {
						cl = "key-mutated"
					}
					switch st {
					case g.Invalid:
						kshapes = append(kshapes, bshape{fshape{"unparsable/" + cl, true}, name, kb})
					case g.Valid:
						kshapes = append(kshapes, bshape{fshape{"parsable/" + cl, false}, name, kb})
					default:
						kshapes = append(kshapes, bshape{fshape{"undecided/" + cl, false}, name, kb})
					}
				}
				for _, ts := range tshapes {
					for _, ss := range sshapes {
						for _, ks := range kshapes {
							ob := &peer.Signature{HashType: hash.HashType(ts.v), SigData: ss.b, PubKey: ks.b}
							var verr error
							pn, pd := vf.Try(func() { verr = ob.Validate() })
							combo := fmt.Sprintf("type=%s+sig=%s+key=%s", ts.class, ss.class, ks.class)
							r.Case(fmt.Sprintf("validate-x|%s|h%d|%s|%x", tp.sig(), ts.v, ss.name, ks.b), true)
							r.Count("validate_cross_calls", 1)
							r.Distinct("validate_cross_combos", fmt.Sprintf("type=%s+sig=%s+key=%s", ts.class, ss.class, strings.SplitN(ks.class, "/", 2)[0]))
							w := func() map[string]any {
								return map[string]any{"combo": combo, "hash_type": ts.v, "sig_shape": ss.name, "sig_data": vf.Hex(ss.b), "key_shape": ks.name, "pub_key": vf.Hex(ks.b), "err": fmt.Sprint(verr)}
							}
							if pn {
								r.Violation("Signature.Validate/panic/cross/"+combo, "panicked: "+pd, w())
								continue
							}
							mustReject := ts.bad || ss.bad || ks.bad
							if mustReject {
								r.Count("validate_cross_must_reject", 1)
							}
							if mustReject && verr == nil {
								var why []string
								if ts.bad {
									why = append(why, "an out-of-enum hash type")
								}
								if ss.bad {
									why = append(why, "empty sig_data")
								}
								if ks.bad {
									why = append(why, "an unparsable embedded public key")
								}
								r.Violation("Signature.Validate/accepts/cross/"+combo, "Validate accepted a signature object with "+strings.Join(why, " and "), w())
							}
							if verr != nil {
								r.Count("validate_cross_rejected", 1)
							} else {
								r.Count("validate_cross_accepted", 1)
							}
							// honest shape: supported type, the real signature, no key or the signer's key
							if !mustReject && ts.class == "supported" && ss.name == "valid" && (ks.name == "none" || ks.name == "own") && verr != nil {
								r.Violation("Signature.Validate/rejects-honest/cross/"+combo, "rejects a well-formed signature object: "+verr.Error(), w())
							}
							// whatever Validate says, nothing may verify with an unsupported type or empty sig
							if ts.bad || ss.bad || ts.v == 0 {
								if o := verify(ob, tp.k.PubK, tp.ctx, tp.data); o.panicked {
									r.Violation("VerifyWithPublic/panic/cross/"+combo, "panicked: "+o.pd, w())
								} else if o.ok {
									r.Violation("VerifyWithPublic/ok-with-unsupported-type-or-empty-sig/cross/"+combo, "ok=true for an unsupported hash type or empty sig_data", w())
								}
							}
						}
					}
				}
			}
		}
	})
}

func sum(t int32, d []byte) []byte {
	b, _ := g.Sum(t, d)
	return b
}
