// C01: signed messages are accepted only when the signature is authentic.
//
// The harness builds every message itself and therefore knows by construction
// whether it is honest. A second, independent opinion comes from the reference
// verifier in g1util (own base58 / multihash / key-protobuf decoders, the
// documented sign body, crypto/ed25519 and independent hash implementations).
// A violation is raised only when the real verifier accepts a message that is
// dishonest by construction AND unauthentic by the reference (or rejects an
// honest one, returns a wrong identity, or panics).
package c01

import (
	"bytes"
	"fmt"
	"math"
	"math/big"
	"math/rand/v2"
	"strings"
	"testing"
	"time"

	"github.com/aperturerobotics/bifrost/crypto"
	"github.com/aperturerobotics/bifrost/hash"
	"github.com/aperturerobotics/bifrost/peer"
	"github.com/aperturerobotics/bifrost/pubsub/util/pubmessage"
	signaling_rpc "github.com/aperturerobotics/bifrost/signaling/rpc"
	timestamp "github.com/aperturerobotics/protobuf-go-lite/types/known/timestamppb"

	g "verifharness/g1util"
	"verifharness/vf"
)

// documented, wire-relevant context constants of the two wrappers
const (
	sessionCtx = "bifrost/signaling/rpc session msg 2024-06-05T02:45:07.208906Z"
	pubCtx     = "bifrost/pubsub/pubmessage 2024-06-05T02:38:47.55258Z channel/"
)

var ctxs = []string{
	"", "a", "b", "ab", g.Sep, "a" + g.Sep + "1", "a" + g.Sep + "1" + g.Sep, "x" + g.Sep + "3" + g.Sep + "yyyy",
	"example.com 2019-12-25 16:18:03 session tokens v1", "ключ-日本語", "a\x00b", "\x00",
	strings.Repeat("c", 3000), sessionCtx, pubCtx + "chan",
}

// pres is one presentation of a message to a verifier.
type pres struct {
	m       *peer.SignedMsg
	vctx    string
	class   string // tamper class (stable, part of violation keys)
	detail  string // distinguishes cases inside a class
	honest  bool   // by construction
	neutral bool   // by construction still authentic, but acceptance is not demanded
}

type parent struct {
	idx   int
	key   *g.Key
	key2  *g.Key
	ctx   string
	ht    int32
	body  []byte
	m     *peer.SignedMsg
	ok    bool   // the untampered message verified
	label string // replaces the body part of sig() when the body is not deterministic
}

func (p *parent) sig() string {
	if p.label != "" {
		return fmt.Sprintf("k%d|%q|h%d|%s", p.key.Idx, short(p.ctx), p.ht, p.label)
	}
	return fmt.Sprintf("k%d|%q|h%d|%d:%s", p.key.Idx, short(p.ctx), p.ht, len(p.body), vf.Hex(firstN(p.body, 8)))
}

func short(s string) string {
	if len(s) > 40 {
		return s[:40] + fmt.Sprintf("...(%d)", len(s))
	}
	return s
}

func firstN(b []byte, n int) []byte {
	if len(b) > n {
		return b[:n]
	}
	return b
}

type tamper struct {
	class  string
	detail string
	field  string // body | sig | from | ctx | ht | sigobj
	kind   int    // 0 dishonest, 1 neutral (still authentic by construction)
	apply  func(q *pres)
}

func idString(pub []byte) string { return g.B58Encode(g.RefPeerIDBytes(pub)) }

// order of the Ed25519 base point group, little endian addition helper
var groupL, _ = new(big.Int).SetString("7237005577332262213973186563042994240857116359379907606001950938285454250989", 10)

func addL(s []byte) []byte {
	be := make([]byte, len(s))
	for i := range s {
		be[len(s)-1-i] = s[i]
	}
	n := new(big.Int).SetBytes(be)
	n.Add(n, groupL)
	nb := n.Bytes()
	if len(nb) > 32 {
		return nil
	}
	out := make([]byte, 32)
	for i := range nb {
		out[i] = nb[len(nb)-1-i]
	}
	return out
}

// buildTampers returns the full single-field tamper set for p.
func buildTampers(p *parent, rng *rand.Rand) []tamper {
	var ts []tamper
	add := func(field, class, detail string, kind int, f func(q *pres)) {
		ts = append(ts, tamper{class: field + "/" + class, detail: detail, field: field, kind: kind, apply: f})
	}
	body := p.body
	// ---- body ----
	var pos []int
	if len(body) <= 48 {
		for i := range body {
			pos = append(pos, i)
		}
	} else {
		pos = []int{0, 1, len(body) / 2, len(body) - 2, len(body) - 1}
		for i := 0; i < 6; i++ {
			pos = append(pos, rng.IntN(len(body)))
		}
	}
	for _, i := range pos {
		bit := byte(1) << rng.UintN(8)
		add("body", "flipbit", fmt.Sprintf("%d^%02x", i, bit), 0, func(q *pres) {
			b := append([]byte(nil), q.m.Data...)
			if i < len(b) {
				b[i] ^= bit
			} else {
				b = append(b, bit)
			}
			q.m.Data = b
		})
	}
	if len(body) > 1 {
		add("body", "truncate1", "", 0, func(q *pres) { q.m.Data = append([]byte(nil), q.m.Data[:len(q.m.Data)-1]...) })
		add("body", "dropfirst", "", 0, func(q *pres) { q.m.Data = append([]byte(nil), q.m.Data[1:]...) })
	}
	add("body", "append0", "", 0, func(q *pres) { q.m.Data = append(append([]byte(nil), q.m.Data...), 0) })
	add("body", "prepend0", "", 0, func(q *pres) { q.m.Data = append([]byte{0}, q.m.Data...) })
	add("body", "empty", "", 0, func(q *pres) { q.m.Data = nil })
	add("body", "doubled", "", 0, func(q *pres) { q.m.Data = append(append([]byte(nil), q.m.Data...), q.m.Data...) })
	other := g.RandBytes(rng, len(body))
	if bytes.Equal(other, body) {
		other[0] ^= 1
	}
	add("body", "other", "", 0, func(q *pres) { q.m.Data = other })
	if d, ok := g.Sum(p.ht, body); ok {
		// the digest presented as the body
		add("body", "digest-as-body", "", 0, func(q *pres) { q.m.Data = d })
	}

	// ---- signature bytes ----
	setSig := func(q *pres, s []byte) {
		if q.m.Signature == nil {
			q.m.Signature = &peer.Signature{HashType: hash.HashType(p.ht)}
		}
		q.m.Signature.SigData = s
	}
	for i := 0; i < 64; i++ {
		bit := byte(1) << rng.UintN(8)
		add("sig", "flipbit", fmt.Sprintf("%d^%02x", i, bit), 0, func(q *pres) {
			s := append([]byte(nil), q.m.GetSignature().GetSigData()...)
			if i < len(s) {
				s[i] ^= bit
			}
			setSig(q, s)
		})
	}
	for _, i := range []int{0, 31, 32, 63} {
		for b := 0; b < 8; b++ {
			add("sig", "flipbit", fmt.Sprintf("%d^%02x", i, 1<<b), 0, func(q *pres) {
				s := append([]byte(nil), q.m.GetSignature().GetSigData()...)
				if i < len(s) {
					s[i] ^= 1 << b
				}
				setSig(q, s)
			})
		}
	}
	add("sig", "truncate63", "", 0, func(q *pres) {
		s := q.m.GetSignature().GetSigData()
		setSig(q, append([]byte(nil), s[:max(len(s)-1, 0)]...))
	})
	add("sig", "extend65", "", 0, func(q *pres) { setSig(q, append(append([]byte(nil), q.m.GetSignature().GetSigData()...), 0)) })
	add("sig", "prefix32", "", 0, func(q *pres) {
		s := q.m.GetSignature().GetSigData()
		setSig(q, append([]byte(nil), s[:min(32, len(s))]...))
	})
	add("sig", "empty", "", 0, func(q *pres) { setSig(q, []byte{}) })
	add("sig", "nil", "", 0, func(q *pres) { setSig(q, nil) })
	add("sig", "zeros", "", 0, func(q *pres) { setSig(q, make([]byte, 64)) })
	add("sig", "random64", "", 0, func(q *pres) { setSig(q, g.RandBytes(rng, 64)) })
	add("sig", "swap-halves", "", 0, func(q *pres) {
		s := q.m.GetSignature().GetSigData()
		if len(s) != 64 {
			return
		}
		setSig(q, append(append([]byte(nil), s[32:]...), s[:32]...))
	})
	add("sig", "S-plus-L", "", 0, func(q *pres) {
		s := append([]byte(nil), q.m.GetSignature().GetSigData()...)
		if len(s) != 64 {
			return
		}
		if s2 := addL(s[32:]); s2 != nil {
			copy(s[32:], s2)
		} else {
			s[63] ^= 0x80
		}
		setSig(q, s)
	})
	if s, ok := g.RefSign(p.key2.Std, p.ctx, p.ht, body); ok {
		add("sig", "by-other-key", "", 0, func(q *pres) { setSig(q, s) })
	}
	octx := p.ctx + "/other"
	if s, ok := g.RefSign(p.key.Std, octx, p.ht, body); ok {
		add("sig", "over-other-ctx", "", 0, func(q *pres) { setSig(q, s) })
	}
	if s, ok := g.RefSign(p.key.Std, p.ctx, p.ht, other); ok {
		add("sig", "over-other-body", "", 0, func(q *pres) { setSig(q, s) })
	}
	if s, ok := g.RefSign(p.key.Std, p.ctx, p.ht%3+1, body); ok {
		add("sig", "over-other-hashtype", "", 0, func(q *pres) { setSig(q, s) })
	}
	{
		// signature over the body directly (no context, no hash), and over ctx||body
		s := append([]byte(nil), edSign(p.key, body)...)
		add("sig", "over-raw-body", "", 0, func(q *pres) { setSig(q, s) })
		s2 := append([]byte(nil), edSign(p.key, append([]byte(p.ctx), body...))...)
		add("sig", "over-ctx-body-nohash", "", 0, func(q *pres) { setSig(q, s2) })
		if d, ok := g.Sum(p.ht, body); ok {
			s3 := append([]byte(nil), edSign(p.key, d)...)
			add("sig", "over-digest-only", "", 0, func(q *pres) { setSig(q, s3) })
			// context omitted, hash type kept
			s4 := append([]byte(nil), edSign(p.key, g.SignBodyHashed("", p.ht, d))...)
			if p.ctx != "" {
				add("sig", "over-empty-ctx", "", 0, func(q *pres) { setSig(q, s4) })
			}
		}
	}

	// ---- claimed sender ----
	from := p.m.FromPeerId
	alpha := g.B58Alphabet()
	for i := 0; i < len(from); i++ {
		c := alpha[rng.IntN(len(alpha))]
		for c == from[i] {
			c = alpha[rng.IntN(len(alpha))]
		}
		add("from", "b58sub", fmt.Sprintf("%d=%c", i, c), 0, func(q *pres) {
			q.m.FromPeerId = from[:i] + string(c) + from[i+1:]
		})
	}
	bad := []string{"0", "O", "I", "l", " ", "\n", "\x00", "é", "\xff", "+", "/", "="}
	for j := 0; j < 10; j++ {
		i := rng.IntN(len(from))
		c := bad[rng.IntN(len(bad))]
		add("from", "nonb58", fmt.Sprintf("%d=%q", i, c), 0, func(q *pres) {
			q.m.FromPeerId = from[:i] + c + from[i+1:]
		})
	}
	setFrom := func(class, s string, kind int) {
		add("from", class, "", kind, func(q *pres) { q.m.FromPeerId = s })
	}
	setFrom("truncate-last", from[:len(from)-1], 0)
	setFrom("drop-first", from[1:], 0)
	setFrom("append-1", from+"1", 0)
	setFrom("prepend-1", "1"+from, 0)
	setFrom("append-z", from+"z", 0)
	setFrom("empty", "", 0)
	setFrom("space-prefix", " "+from, 0)
	setFrom("space-suffix", from+" ", 0)
	setFrom("newline-suffix", from+"\n", 0)
	setFrom("other-key", idString(p.key2.Pub), 0)
	keyProto := g.MarshalKeyProto(g.KeyTypeEd25519, p.key.Pub)
	if d, ok := g.Sum(g.HashSHA256, keyProto); ok {
		setFrom("sha256-multihash", g.B58Encode(g.Multihash(0x12, d)), 0)
	}
	setFrom("nonidentity-code-keyproto", g.B58Encode(g.Multihash(0x12, keyProto)), 0)
	setFrom("nonidentity-code-1", g.B58Encode(g.Multihash(0x01, keyProto)), 0)
	setFrom("keytype-rsa", g.B58Encode(g.Multihash(0, g.MarshalKeyProto(0, p.key.Pub))), 0)
	setFrom("keytype-2", g.B58Encode(g.Multihash(0, g.MarshalKeyProto(2, p.key.Pub))), 0)
	setFrom("key-31-bytes", g.B58Encode(g.Multihash(0, g.MarshalKeyProto(1, p.key.Pub[:31]))), 0)
	setFrom("key-33-bytes", g.B58Encode(g.Multihash(0, g.MarshalKeyProto(1, append(append([]byte(nil), p.key.Pub...), 0)))), 0)
	setFrom("raw-pub", g.B58Encode(p.key.Pub), 0)
	setFrom("keyproto-only", g.B58Encode(keyProto), 0)
	setFrom("len-plus-1", g.B58Encode(append([]byte{0, byte(len(keyProto) + 1)}, keyProto...)), 0)
	setFrom("len-minus-1", g.B58Encode(append([]byte{0, byte(len(keyProto) - 1)}, keyProto...)), 0)
	setFrom("trailing-byte", g.B58Encode(append(g.RefPeerIDBytes(p.key.Pub), 0)), 0)
	// aliases: other encodings that embed the SAME key. The signature is by the
	// key embedded in the claimed sender, so these stay authentic; no verdict is
	// attached to accept/reject, they are only counted.
	setFrom("alias-nonminimal-code", g.B58Encode(append([]byte{0x80, 0x00, byte(len(keyProto))}, keyProto...)), 1)
	setFrom("alias-nonminimal-len", g.B58Encode(append([]byte{0x00, byte(len(keyProto)) | 0x80, 0x00}, keyProto...)), 1)
	reordered := append(append([]byte{0x12, 0x20}, p.key.Pub...), 0x08, 0x01)
	setFrom("alias-fields-reordered", g.B58Encode(g.Multihash(0, reordered)), 1)
	unk := append(append([]byte(nil), keyProto...), 0x18, 0x05)
	setFrom("alias-unknown-field", g.B58Encode(g.Multihash(0, unk)), 1)
	dup := append([]byte{0x08, 0x00}, keyProto...)
	setFrom("alias-duplicate-type", g.B58Encode(g.Multihash(0, dup)), 1)

	// ---- verifier context ----
	seen := map[string]bool{p.ctx: true}
	addCtx := func(class, c string) {
		if seen[c] {
			return
		}
		seen[c] = true
		add("ctx", class, fmt.Sprintf("%q", short(c)), 0, func(q *pres) { q.vctx = c })
	}
	for _, c := range ctxs {
		addCtx("other", c)
	}
	addCtx("append-x", p.ctx+"x")
	addCtx("append-space", p.ctx+" ")
	addCtx("append-nul", p.ctx+"\x00")
	addCtx("prepend-x", "x"+p.ctx)
	if len(p.ctx) > 0 {
		addCtx("truncate1", p.ctx[:len(p.ctx)-1])
		addCtx("dropfirst", p.ctx[1:])
		addCtx("empty", "")
	}
	addCtx("upper", strings.ToUpper(p.ctx))
	addCtx("sep-shift-ht", p.ctx+g.Sep+fmt.Sprint(p.ht))
	addCtx("sep-suffix", p.ctx+g.Sep)
	if i := strings.Index(p.ctx, g.Sep); i >= 0 {
		addCtx("sep-prefix-part", p.ctx[:i])
	}
	if i := strings.LastIndex(p.ctx, g.Sep); i >= 0 {
		addCtx("sep-last-prefix-part", p.ctx[:i])
	}

	// ---- hash type ----
	for _, v := range []int32{0, 1, 2, 3, 4, 5, 7, -1, 100, math.MaxInt32, math.MinInt32} {
		if v == p.ht {
			continue
		}
		add("ht", fmt.Sprintf("set-%d", v), "", 0, func(q *pres) {
			if q.m.Signature == nil {
				q.m.Signature = &peer.Signature{}
			}
			q.m.Signature.HashType = hash.HashType(v)
		})
	}

	// ---- signature object ----
	add("sigobj", "dropped", "", 0, func(q *pres) { q.m.Signature = nil })
	add("sigobj", "emptied", "", 0, func(q *pres) { q.m.Signature = &peer.Signature{} })
	add("sigobj", "only-hashtype", "", 0, func(q *pres) { q.m.Signature = &peer.Signature{HashType: hash.HashType(p.ht)} })
	add("sigobj", "pubkey-correct", "", 1, func(q *pres) {
		if q.m.Signature != nil {
			q.m.Signature.PubKey = keyProto
		}
	})
	add("sigobj", "pubkey-of-other", "", 1, func(q *pres) {
		if q.m.Signature != nil {
			q.m.Signature.PubKey = g.MarshalKeyProto(1, p.key2.Pub)
		}
	})
	add("sigobj", "pubkey-garbage", "", 1, func(q *pres) {
		if q.m.Signature != nil {
			q.m.Signature.PubKey = []byte{0xff, 0x01, 0x02}
		}
	})
	// replaced by a complete, internally consistent signature object of another signer
	if s, ok := g.RefSign(p.key2.Std, p.ctx, p.ht, body); ok {
		add("sigobj", "replaced-by-other-signer-with-pubkey", "", 0, func(q *pres) {
			q.m.Signature = &peer.Signature{HashType: hash.HashType(p.ht), SigData: s, PubKey: g.MarshalKeyProto(1, p.key2.Pub)}
		})
	}
	return ts
}

func edSign(k *g.Key, msg []byte) []byte {
	s, err := k.Priv.Sign(msg)
	if err != nil {
		panic(err)
	}
	return s
}

// verifier abstracts the three observation points.
type verifier struct {
	name string
	// run presents m (already cloned) under ctx; returns accepted, the returned
	// key / id, and whether ctx was honoured (wrappers use a fixed context).
	run func(m *peer.SignedMsg, ctx string) (pk crypto.PubKey, id peer.ID, err error)
	// ctxOf returns the context the verifier actually uses for m (reference side).
	ctxOf func(m *peer.SignedMsg, ctx string) (string, bool)
}

func TestCheck(t *testing.T) {
	r := vf.Start(t, "C01", vf.Exploration)
	defer r.Finish()
	r.SetRule("parents = honest messages over (key) x (body 1 B..64 KiB; plus LARGE bodies of 1023 B..150000 B at / one below / one above the powers of two from 1 KiB and the multiples of 64 KiB, and 1 MiB+1, presented honestly (package constructor and reference signer) and with sender and signature kept while only the END of the body is altered: last byte / first or a random byte of the last partial block for block sizes 64 B..128 KiB flipped, last 16 bytes rewritten, last block zeroed / rewritten / dropped / taken from the prefix, one byte dropped / appended, extended to the block boundary, or - complementary - a byte in the full blocks in front) x (context incl. empty, embedded ' - SIGN - ', unicode, NUL, 3 KB) x (3 hash types), built with peer.NewSignedMsg and also by the harness' own reference signer; for each parent the full single-field tamper set (body bytes, every signature byte, every peer-id character kept base58 / made non-base58, structured sender substitutions, verifier contexts, every other hash_type value, signature object dropped/emptied/replaced) plus PRNG multi-field combinations, each presented in memory and after a wire round trip, to SignedMsg.ExtractAndVerify, signaling_rpc.SessionMsg.ExtractAndVerify/Validate and pubmessage.ExtractAndVerify; plus seeded byte mutations of valid wire encodings and random bytes through UnmarshalSignedMsg. Oracle: accept <=> honest by construction; a violation needs real-accepts AND dishonest-by-construction AND unauthentic by the independent reference verifier (own base58/multihash/key-proto decoders, documented sign body, crypto/ed25519, independent hashes); accepted => returned key and ID are the signer's; honest rejected = violation; any panic = violation. A tamper case is non-trivial when its untampered parent verified; a wire case when it decoded and its sender embeds a key; distinct = distinct (parent, verifier, path, tamper)")
	r.Assume("crypto/ed25519 of the Go standard library is the trusted signature primitive (also used by the reference); weak (small-order) public keys are outside the explored space")
	r.Assume("sender IDs that embed the SAME key in a non-canonical encoding (non-minimal varint, reordered/unknown protobuf fields) are not a change of claimed sender: counted, never judged")
	r.Assume("the vtprotobuf-generated decoders of SignedMsg / PubMessageInner are trusted to return the fields that are on the wire")

	rng := r.Rand("c01")
	pool := g.KeyPool(rng, r.N(8, 48))

	// ---------- parents ----------
	sizes := []int{1, 2, 5, 31, 32, 33, 64, 200, 1000, 4096}
	var parents []*parent
	mk := func(k, k2 *g.Key, ctx string, ht int32, body []byte) {
		parents = append(parents, &parent{idx: len(parents), key: k, key2: k2, ctx: ctx, ht: ht, body: body})
	}
	pick2 := func(i int) (*g.Key, *g.Key) { return pool[i%len(pool)], pool[(i+1+i/len(pool))%len(pool)] }
	n := 0
	for ht := int32(1); ht <= 3; ht++ {
		for _, c := range ctxs {
			k, k2 := pick2(n)
			if k == k2 {
				k2 = pool[(k.Idx+1)%len(pool)]
			}
			mk(k, k2, c, ht, g.RandBytes(rng, sizes[n%len(sizes)]))
			n++
		}
	}
	for ht := int32(1); ht <= 3; ht++ { // big bodies (one per run in the quick tier: 64 KiB copies are slow under the race detector)
		if r.Quick() && ht != int32(1+r.Seed()%3) {
			continue
		}
		k, k2 := pick2(n)
		if k == k2 {
			k2 = pool[(k.Idx+1)%len(pool)]
		}
		mk(k, k2, ctxs[n%len(ctxs)], ht, g.RandBytes(rng, 65536))
		n++
	}
	total := r.N(54, 500)
	for len(parents) < total {
		k := pool[rng.IntN(len(pool))]
		k2 := pool[rng.IntN(len(pool))]
		if k == k2 {
			k2 = pool[(k.Idx+1)%len(pool)]
		}
		var c string
		if rng.IntN(2) == 0 {
			c = ctxs[rng.IntN(len(ctxs))]
		} else {
			c = string(g.RandBytes(rng, rng.IntN(40)))
		}
		sz := sizes[rng.IntN(len(sizes))]
		if rng.IntN(3) == 0 {
			sz = 1 + rng.IntN(300)
		}
		mk(k, k2, c, int32(1+rng.IntN(3)), g.RandBytes(rng, sz))
	}

	verifiers := map[string]*verifier{
		"SignedMsg": {
			name:  "SignedMsg",
			run:   func(m *peer.SignedMsg, ctx string) (crypto.PubKey, peer.ID, error) { return m.ExtractAndVerify(ctx) },
			ctxOf: func(m *peer.SignedMsg, ctx string) (string, bool) { return ctx, true },
		},
	}

	// judge evaluates one presentation on one verifier and path.
	judge := func(p *parent, v *verifier, q pres, path string, m *peer.SignedMsg, parentOK bool) {
		var pk crypto.PubKey
		var id peer.ID
		var err error
		panicked, pd := vf.Try(func() { pk, id, err = v.run(m, q.vctx) })
		sig := fmt.Sprintf("%s|%s|%s|%s|%s", p.sig(), v.name, path, q.class, q.detail)
		witness := func() map[string]any {
			return map[string]any{
				"verifier": v.name, "path": path, "class": q.class, "detail": q.detail,
				"parent": p.sig(), "signer": idString(p.key.Pub), "verify_ctx": q.vctx, "sign_ctx": p.ctx,
				"from_peer_id": m.GetFromPeerId(), "hash_type": int32(m.GetSignature().GetHashType()),
				"sig": vf.Hex(m.GetSignature().GetSigData()), "body": vf.Hex(m.GetData()), "body_len": len(m.GetData()),
			}
		}
		if panicked {
			r.Violation(v.name+"/panic/"+q.class, "verification panicked: "+pd, witness())
			r.Case(sig, false)
			return
		}
		accepted := err == nil
		r.Case(sig, parentOK)
		r.Count("verdicts_"+v.name+"_"+path, 1)
		switch {
		case q.honest:
			r.Count("honest_presented", 1)
			if !accepted {
				r.Violation(v.name+"/honest-rejected/"+q.class, "honest message rejected: "+err.Error(), witness())
				return
			}
			r.Count("honest_accepted", 1)
		default:
			if q.neutral {
				r.Count("neutral_presented", 1)
			} else {
				r.Count("tampered_presented", 1)
				r.Count("tampered_"+strings.SplitN(q.class, "/", 2)[0], 1)
			}
			if !accepted {
				if !q.neutral {
					r.Count("tampered_rejected", 1)
					r.Distinct("reject_errors", err.Error())
				} else {
					r.Count("neutral_rejected", 1)
				}
				return
			}
		}
		// accepted: reference opinion on exactly what the verifier saw
		vctx, known := v.ctxOf(m, q.vctx)
		if !known {
			r.Count("accepted_ctx_unknown", 1)
			return
		}
		auth, rpub, st := g.RefAuthentic(m.GetFromPeerId(), vctx, int32(m.GetSignature().GetHashType()), m.GetData(), m.GetSignature().GetSigData())
		if st == g.Ambiguous {
			r.Count("accepted_reference_ambiguous", 1)
			return
		}
		if !auth {
			if q.honest {
				// the code's own constructor and verifier agree with each other but not
				// with the documented format: C02's oracle, not a forgery. No verdict here.
				r.Inconclusive("reference verifier disagrees on an honest message: " + sig)
				return
			}
			r.Violation(v.name+"/accepted-unauthentic/"+q.class, "a message that is not authentic was accepted (err == nil)", witness())
			return
		}
		if !q.honest && !q.neutral {
			// dishonest by construction but the reference calls it authentic: an alias
			// or a composite that cancelled out. Counted, never judged.
			r.Count("accepted_authentic_despite_tamper_label", 1)
		} else if q.neutral {
			r.Count("neutral_accepted", 1)
		}
		// identity returned on accept must be the embedded signer
		var raw []byte
		if pk != nil {
			raw, _ = pk.Raw()
		}
		idb, _ := g.B58Decode(strings.TrimSpace(m.GetFromPeerId()))
		if pk == nil || !bytes.Equal(raw, rpub) || !bytes.Equal([]byte(id), idb) {
			w := witness()
			w["returned_pub"] = vf.Hex(raw)
			w["returned_id"] = vf.Hex([]byte(id))
			r.Violation(v.name+"/accept-wrong-identity/"+q.class, "accepted, but the returned public key / peer ID are not those embedded in the claimed sender", w)
		}
	}

	present := func(p *parent, v *verifier, q pres, parentOK bool) {
		// in memory
		judge(p, v, q, "mem", q.m.CloneVT(), parentOK)
		// after a wire round trip
		w, err := q.m.MarshalVT()
		if err != nil {
			r.Count("marshal_failed", 1)
			return
		}
		var m2 *peer.SignedMsg
		var derr error
		if pn, pd := vf.Try(func() { m2, derr = peer.UnmarshalSignedMsg(w) }); pn {
			r.Violation("UnmarshalSignedMsg/panic", "decoder panicked: "+pd, map[string]any{"wire": vf.Hex(w)})
			return
		}
		if derr != nil {
			r.Count("wire_roundtrip_decode_errors", 1)
			if q.honest {
				r.Violation("UnmarshalSignedMsg/honest-undecodable", "wire form of an honest message does not decode: "+derr.Error(), map[string]any{"parent": p.sig()})
			}
			return
		}
		judge(p, v, q, "wire", m2, parentOK)
	}

	var corpus [][]byte // wire encodings for the mutation part
	var corpusCtx []string

	runParent := func(p *parent, rng *rand.Rand) {
		v := verifiers["SignedMsg"]
		var m *peer.SignedMsg
		var err error
		if pn, pd := vf.Try(func() { m, err = peer.NewSignedMsg(p.ctx, p.key.Priv, hash.HashType(p.ht), p.body) }); pn || err != nil {
			r.Violation("NewSignedMsg/failed", fmt.Sprintf("cannot build an honest message: panic=%v %s err=%v", pn, pd, err), p.sig())
			return
		}
		p.m = m
		// the honest message, and a harness-built twin
		p.ok = func() bool { _, _, e := m.CloneVT().ExtractAndVerify(p.ctx); return e == nil }()
		present(p, v, pres{m: m, vctx: p.ctx, class: "honest/NewSignedMsg", honest: true}, true)
		if s, ok := g.RefSign(p.key.Std, p.ctx, p.ht, p.body); ok {
			twin := &peer.SignedMsg{FromPeerId: idString(p.key.Pub), Data: p.body, Signature: &peer.Signature{HashType: hash.HashType(p.ht), SigData: s}}
			present(p, v, pres{m: twin, vctx: p.ctx, class: "honest/reference-signer", honest: true}, true)
		}
		ts := buildTampers(p, rng)
		if len(p.body) > 8192 {
			// large bodies: every body / context / hash-type / signature-object tamper,
			// every 8th of the (body-size independent) signature-byte and sender tampers
			var keep []tamper
			for i, tm := range ts {
				if (tm.field != "sig" && tm.field != "from") || i%8 == 0 || !strings.Contains(tm.class, "flipbit") && !strings.Contains(tm.class, "b58sub") && !strings.Contains(tm.class, "nonb58") {
					keep = append(keep, tm)
				}
			}
			ts = keep
		}
		for _, tm := range ts {
			q := pres{m: m.CloneVT(), vctx: p.ctx, class: tm.class, detail: tm.detail, neutral: tm.kind == 1}
			tm.apply(&q)
			present(p, v, q, p.ok)
		}
		// multi-field combinations
		byField := map[string][]tamper{}
		var fields []string
		for _, tm := range ts {
			if tm.kind != 0 || strings.HasPrefix(tm.class, "sig/over-") || tm.class == "sig/by-other-key" {
				continue
			}
			if _, ok := byField[tm.field]; !ok {
				fields = append(fields, tm.field)
			}
			byField[tm.field] = append(byField[tm.field], tm)
		}
		nmulti := 40
		if len(p.body) > 8192 {
			nmulti = 10
		}
		for i := 0; i < nmulti; i++ {
			k := 2 + rng.IntN(2)
			perm := rng.Perm(len(fields))[:k]
			q := pres{m: m.CloneVT(), vctx: p.ctx, class: "multi"}
			var names []string
			for _, fi := range perm {
				l := byField[fields[fi]]
				tm := l[rng.IntN(len(l))]
				tm.apply(&q)
				names = append(names, tm.class+":"+tm.detail)
			}
			q.detail = strings.Join(names, "+")
			present(p, v, q, p.ok)
		}
	}

	workers := 12
	perParentSeeds := make([]*rand.Rand, len(parents))
	for i := range parents {
		perParentSeeds[i] = r.Rand(fmt.Sprintf("c01-parent-%d", i))
	}
	r.Begin(fmt.Sprintf("tamper sets over %d parents", len(parents)))
	g.Parallel(workers, func(w int) {
		for i := w; i < len(parents); i += workers {
			runParent(parents[i], perParentSeeds[i])
		}
	})
	// ---------- large bodies: tampering confined to the END of the body ----------
	// Bodies at, one below and one above internal block boundaries (powers of two
	// from 1 KiB, multiples of 64 KiB, 1 MiB+-1): the honest message (package
	// constructor and harness reference signer) must verify, and every variant that
	// keeps sender and signature but alters only the last byte / the first byte of
	// the last partial block / the last block (or, complementary, the full blocks
	// in front) must be rejected.
	{
		type lcase struct {
			p    *parent
			blks []int
			few  bool
			rng  *rand.Rand
		}
		var lcs []lcase
		t0 := time.Now() // reported in the evidence only
		defer func() { r.Extra("large_body_part_wall_s", time.Since(t0).Seconds()) }()
		addL := func(size int, ht int32, few bool) {
			i := len(lcs)
			k, k2 := pick2(i + 3)
			if k == k2 {
				k2 = pool[(k.Idx+1)%len(pool)]
			}
			lr := r.Rand(fmt.Sprintf("c01-large-%d", i))
			p := &parent{idx: 400000 + i, key: k, key2: k2, ctx: []string{"large", sessionCtx, "", pubCtx + "chan"}[i%4], ht: ht, body: g.FastBytes(lr, size)}
			var blks []int
			for _, b := range []int{65536, 1024, 64, 4096, 16384, 32768, 131072} {
				if b < size {
					blks = append(blks, b)
				}
			}
			if few || r.Quick() {
				blks = blks[:1]
			} else if len(blks) > 2 {
				// the 64 KiB block (or the largest below the size) plus one other, by PRNG
				blks = []int{blks[0], blks[1+lr.IntN(len(blks)-1)]}
			}
			lcs = append(lcs, lcase{p: p, blks: blks, few: few, rng: lr})
		}
		seed := int(r.Seed() % 3)
		for i, sz := range append(append([]int(nil), g.MidBodySizes...), g.LargeBodySizes...) {
			if r.Quick() {
				// quick: the core tamper set for the bodies above 64 KiB (cost)
				addL(sz, int32(1+(i+seed)%3), sz > 65000 && sz != 65537 && sz != 150000)
				if sz == 65537 || sz == 131073 {
					addL(sz, int32(1+(i+seed+1)%3), true)
					addL(sz, int32(1+(i+seed+2)%3), true)
				}
			} else {
				for ht := int32(1); ht <= 3; ht++ {
					addL(sz, ht, false)
				}
			}
		}
		for i, sz := range g.HugeBodySizes[:r.N(1, len(g.HugeBodySizes))] {
			if r.Quick() {
				addL(sz, int32(1+(i+seed)%3), true)
			} else {
				for ht := int32(1); ht <= 3; ht++ {
					addL(sz, ht, true)
				}
			}
		}
		r.Begin(fmt.Sprintf("large bodies with tampered tails: %d parents", len(lcs)))
		v := verifiers["SignedMsg"]
		g.Parallel(workers, func(w int) {
			for i := len(lcs) - 1 - w; i >= 0; i -= workers {
				lc := lcs[i]
				p := lc.p
				var m *peer.SignedMsg
				var err error
				if pn, pd := vf.Try(func() { m, err = peer.NewSignedMsg(p.ctx, p.key.Priv, hash.HashType(p.ht), p.body) }); pn || err != nil {
					r.Violation("NewSignedMsg/failed", fmt.Sprintf("cannot build an honest message: panic=%v %s err=%v", pn, pd, err), p.sig())
					continue
				}
				p.m = m
				hq := pres{m: m, vctx: p.ctx, class: "honest/NewSignedMsg/large-body", honest: true}
				if len(p.body) <= 150000 {
					present(p, v, hq, true)
				} else if !r.Quick() {
					judge(p, v, hq, "mem", m.CloneVT(), true)
				}
				if s, ok := g.RefSign(p.key.Std, p.ctx, p.ht, p.body); ok {
					twin := &peer.SignedMsg{FromPeerId: idString(p.key.Pub), Data: p.body, Signature: &peer.Signature{HashType: hash.HashType(p.ht), SigData: s}}
					judge(p, v, pres{m: twin, vctx: p.ctx, class: "honest/reference-signer/large-body", honest: true}, "mem", twin.CloneVT(), true)
					p.ok = true
				}
				r.Count("large_body_parents", 1)
				r.Distinct("large_body_length_x_hash", fmt.Sprintf("%d/h%d", len(p.body), p.ht))
				for bi, blk := range lc.blks {
					for ti, tc := range g.TailCases(p.body, blk, lc.rng, lc.few) {
						if bi > 0 && tc.Full {
							continue
						}
						class := "body/tail-" + tc.Name
						if tc.Full {
							class = "body/large-" + tc.Name
						}
						q := pres{m: &peer.SignedMsg{FromPeerId: m.FromPeerId, Data: tc.Data, Signature: m.Signature.CloneVT()}, vctx: p.ctx, class: class, detail: fmt.Sprintf("blk%d", blk)}
						if ti == 0 && bi == 0 && len(p.body) <= 150000 {
							present(p, v, q, true)
						} else {
							judge(p, v, q, "mem", q.m, true)
						}
						r.Count("large_body_tail_tampers", 1)
						r.Distinct("large_body_tamper_x_size_class", fmt.Sprintf("%s/blk%d/rem%d", tc.Name, blk, min(len(p.body)%blk, 2)))
					}
				}
			}
		})
	}

	okParents := 0
	for _, p := range parents {
		if p.ok {
			okParents++
		}
		if p.m != nil && len(p.body) <= 4096 {
			if w, err := p.m.MarshalVT(); err == nil {
				corpus = append(corpus, w)
				corpusCtx = append(corpusCtx, p.ctx)
			}
		}
	}
	r.Extra("parents", len(parents))
	r.Extra("parents_verified", okParents)
	if len(parents) > 0 && parents[0].m != nil {
		p := parents[0]
		r.Sample(map[string]any{"kind": "parent", "ctx": p.ctx, "hash_type": p.ht, "from": p.m.FromPeerId, "body": vf.Hex(p.body), "sig": vf.Hex(p.m.GetSignature().GetSigData())})
	}

	// ---------- wrappers: signaling SessionMsg and pubmessage ----------
	sessionV := &verifier{
		name: "SessionMsg.ExtractAndVerify",
		run: func(m *peer.SignedMsg, _ string) (crypto.PubKey, peer.ID, error) {
			return (&signaling_rpc.SessionMsg{SignedMsg: m, Seqno: 7}).ExtractAndVerify()
		},
		ctxOf: func(*peer.SignedMsg, string) (string, bool) { return sessionCtx, true },
	}
	sessionValidate := &verifier{
		name: "SessionMsg.Validate",
		run: func(m *peer.SignedMsg, _ string) (crypto.PubKey, peer.ID, error) {
			sm := &signaling_rpc.SessionMsg{SignedMsg: m, Seqno: 9}
			b, err := sm.MarshalVT()
			if err != nil {
				return nil, "", err
			}
			sm2 := &signaling_rpc.SessionMsg{}
			if err := sm2.UnmarshalVT(b); err != nil {
				return nil, "", err
			}
			if err := sm2.Validate(); err != nil {
				return nil, "", err
			}
			// Validate returns no identity; fetch it the way callers do.
			return sm2.ExtractAndVerify()
		},
		ctxOf: func(*peer.SignedMsg, string) (string, bool) { return sessionCtx, true },
	}
	pubV := &verifier{
		name: "pubmessage.ExtractAndVerify",
		run: func(m *peer.SignedMsg, _ string) (crypto.PubKey, peer.ID, error) {
			inner, pk, id, err := pubmessage.ExtractAndVerify(m)
			if err == nil {
				// the returned inner message must be the decoded body
				chk := &pubmessage.PubMessageInner{}
				if e := chk.UnmarshalVT(m.GetData()); e != nil || inner == nil || !chk.EqualVT(inner) {
					r.Violation("pubmessage.ExtractAndVerify/inner-mismatch", "returned inner message is not the signed body", map[string]any{"body": vf.Hex(m.GetData())})
				}
			}
			return pk, id, err
		},
		ctxOf: func(m *peer.SignedMsg, _ string) (string, bool) {
			in := &pubmessage.PubMessageInner{}
			if err := in.UnmarshalVT(m.GetData()); err != nil {
				return "", false
			}
			return pubCtx + in.GetChannel(), true
		},
	}

	channels := []string{"c", "chan", "chan2", "a/b", "ключ", "x" + g.Sep + "1", strings.Repeat("z", 300)}
	nw := r.N(12, 60)
	type wcase struct {
		p   *parent
		v   []*verifier
		rng *rand.Rand
		// extra, wrapper-specific dishonest presentations
		extra []pres
	}
	var wcases []wcase
	var newPub []*parent
	for i := 0; i < nw; i++ {
		k := pool[rng.IntN(len(pool))]
		k2 := pool[(k.Idx+1+rng.IntN(len(pool)-1))%len(pool)]
		ht := int32(1 + rng.IntN(3))
		body := g.RandBytes(rng, sizes[rng.IntN(7)])
		// signaling
		ps := &parent{idx: 100000 + i, key: k, key2: k2, ctx: sessionCtx, ht: ht, body: body}
		sm, err := signaling_rpc.NewSessionMsg(k.Priv, hash.HashType(ht), body, uint64(i))
		if err != nil {
			r.Violation("NewSessionMsg/failed", err.Error(), ps.sig())
			continue
		}
		ps.m = sm.GetSignedMsg()
		var extra []pres
		for _, oc := range []string{"", pubCtx + "chan", sessionCtx + "x", sessionCtx[:len(sessionCtx)-1], "bifrost/signaling/rpc session msg"} {
			if m2, err := peer.NewSignedMsg(oc, k.Priv, hash.HashType(ht), body); err == nil {
				extra = append(extra, pres{m: m2, class: "cross-context", detail: fmt.Sprintf("%q", short(oc))})
			}
		}
		wcases = append(wcases, wcase{p: ps, v: []*verifier{sessionV, sessionValidate}, rng: r.Rand(fmt.Sprintf("c01-sess-%d", i)), extra: extra})

		// pubmessage
		ch := channels[rng.IntN(len(channels))]
		inner := &pubmessage.PubMessageInner{Data: body, Channel: ch, Timestamp: &timestamp.Timestamp{Seconds: 1700000000 + int64(i), Nanos: 5}}
		ib, err := inner.MarshalVT()
		if err != nil {
			t.Fatalf("marshal inner: %v", err)
		}
		pp := &parent{idx: 200000 + i, key: k, key2: k2, ctx: pubCtx + ch, ht: ht, body: ib}
		if i%3 == 0 {
			// the package's own constructor (timestamp = now: the body is not deterministic,
			// so only the honest presentation is judged and no tamper set is derived from it)
			m3, _, err := pubmessage.NewPubMessage(ch, k.Priv, hash.HashType(ht), body)
			if err != nil {
				r.Violation("NewPubMessage/failed", err.Error(), pp.sig())
				continue
			}
			p3 := &parent{idx: 300000 + i, key: k, key2: k2, ctx: pubCtx + ch, ht: ht, body: m3.GetData(), label: fmt.Sprintf("NewPubMessage#%d", i)}
			p3.m = m3
			newPub = append(newPub, p3)
		}
		pm, err := peer.NewSignedMsg(pubCtx+ch, k.Priv, hash.HashType(ht), pp.body)
		if err != nil {
			r.Violation("NewSignedMsg/failed", err.Error(), pp.sig())
			continue
		}
		pp.m = pm
		var pextra []pres
		for _, och := range []string{ch + "x", "other", ch[:len(ch)-1] + "~"} {
			// body re-marshalled with another channel, signature unchanged
			in2 := inner.CloneVT()
			_ = in2.UnmarshalVT(pp.body)
			in2.Channel = och
			b2, _ := in2.MarshalVT()
			m2 := pm.CloneVT()
			m2.Data = b2
			pextra = append(pextra, pres{m: m2, class: "channel-swapped-in-body", detail: och})
			// signed for channel och, body says ch
			if m3, err := peer.NewSignedMsg(pubCtx+och, k.Priv, hash.HashType(ht), pp.body); err == nil {
				pextra = append(pextra, pres{m: m3, class: "signed-for-other-channel", detail: och})
			}
		}
		if m4, err := peer.NewSignedMsg(sessionCtx, k.Priv, hash.HashType(ht), pp.body); err == nil {
			pextra = append(pextra, pres{m: m4, class: "cross-context", detail: "session"})
		}
		if m5, err := peer.NewSignedMsg(pubCtx, k.Priv, hash.HashType(ht), pp.body); err == nil {
			pextra = append(pextra, pres{m: m5, class: "cross-context", detail: "no-channel"})
		}
		wcases = append(wcases, wcase{p: pp, v: []*verifier{pubV}, rng: r.Rand(fmt.Sprintf("c01-pub-%d", i)), extra: pextra})
	}
	r.Begin(fmt.Sprintf("wrapper tamper sets over %d parents", len(wcases)))
	g.Parallel(workers, func(w int) {
		for i := w; i < len(wcases); i += workers {
			wc := wcases[i]
			p := wc.p
			ts := buildTampers(p, wc.rng)
			for _, v := range wc.v {
				_, _, e := v.run(p.m.CloneVT(), "")
				ok := e == nil
				if v == wc.v[0] {
					p.ok = ok
				}
				present(p, v, pres{m: p.m, vctx: p.ctx, class: "honest/constructor", honest: true}, true)
				for _, tm := range ts {
					if tm.field == "ctx" {
						continue // these verifiers take no context argument
					}
					q := pres{m: p.m.CloneVT(), vctx: p.ctx, class: tm.class, detail: tm.detail, neutral: tm.kind == 1}
					tm.apply(&q)
					present(p, v, q, ok)
				}
				for _, q := range wc.extra {
					q.vctx = p.ctx
					present(p, v, q, ok)
				}
			}
		}
	})
	for _, p3 := range newPub {
		present(p3, pubV, pres{m: p3.m, vctx: p3.ctx, class: "honest/NewPubMessage", honest: true}, true)
	}
	for _, wc := range wcases {
		if wc.p.m != nil {
			if w, err := wc.p.m.MarshalVT(); err == nil {
				corpus = append(corpus, w)
				corpusCtx = append(corpusCtx, wc.p.ctx)
			}
		}
	}

	// ---------- arbitrary / mutated wire bytes ----------
	nm := r.N(36000, 500000)
	per := nm / workers
	r.Extra("wire_corpus", len(corpus))
	r.Begin(fmt.Sprintf("wire mutation: %d workers x %d cases, streams c01-wire-<w>", workers, per))
	g.Parallel(workers, func(w int) {
		rng := r.Rand(fmt.Sprintf("c01-wire-%d", w))
		for i := 0; i < per; i++ {
			var wire []byte
			var ctx string
			switch {
			case i%16 == 15:
				wire = g.RandBytes(rng, rng.IntN(120))
				ctx = ctxs[rng.IntN(len(ctxs))]
			default:
				j := rng.IntN(len(corpus))
				wire = g.Mutate(rng, corpus[j], corpus[rng.IntN(len(corpus))])
				ctx = corpusCtx[j]
			}
			var m *peer.SignedMsg
			var derr error
			if pn, pd := vf.Try(func() { m, derr = peer.UnmarshalSignedMsg(wire) }); pn {
				r.Violation("UnmarshalSignedMsg/panic", "decoder panicked: "+pd, map[string]any{"wire": vf.Hex(wire), "wire_full": fmt.Sprintf("%x", wire)})
				r.Case("wire|"+string(wire), false)
				continue
			}
			if derr != nil {
				r.Count("wire_decode_errors", 1)
				r.Case("wire|"+string(wire), false)
				continue
			}
			_, st := g.PubFromIDString(m.GetFromPeerId())
			r.Case("wire|"+string(wire), st == g.Valid)
			if st == g.Valid {
				r.Count("wire_decoded_with_key_sender", 1)
			} else {
				r.Count("wire_decoded_other_sender", 1)
			}
			for _, v := range []*verifier{verifiers["SignedMsg"], sessionV, pubV} {
				var pk crypto.PubKey
				var id peer.ID
				var err error
				mm := m.CloneVT()
				if pn, pd := vf.Try(func() { pk, id, err = v.run(mm, ctx) }); pn {
					r.Violation(v.name+"/panic/wire", "verification panicked on decoded wire bytes: "+pd, map[string]any{"wire_full": fmt.Sprintf("%x", wire), "ctx": ctx})
					continue
				}
				if err != nil {
					r.Count("wire_rejected", 1)
					continue
				}
				vctx, known := v.ctxOf(m, ctx)
				if !known {
					continue
				}
				auth, rpub, rst := g.RefAuthentic(m.GetFromPeerId(), vctx, int32(m.GetSignature().GetHashType()), m.GetData(), m.GetSignature().GetSigData())
				if rst == g.Ambiguous {
					r.Count("wire_accepted_reference_ambiguous", 1)
					continue
				}
				if !auth {
					r.Violation(v.name+"/accepted-unauthentic/wire", "mutated wire bytes decoded to a message that is not authentic, and it was accepted", map[string]any{"wire_full": fmt.Sprintf("%x", wire), "ctx": vctx, "from": m.GetFromPeerId()})
					continue
				}
				r.Count("wire_accepted_authentic", 1)
				var raw []byte
				if pk != nil {
					raw, _ = pk.Raw()
				}
				idb, _ := g.B58Decode(strings.TrimSpace(m.GetFromPeerId()))
				if !bytes.Equal(raw, rpub) || !bytes.Equal([]byte(id), idb) {
					r.Violation(v.name+"/accept-wrong-identity/wire", "accepted, but returned identity is not the one embedded in the claimed sender", map[string]any{"wire_full": fmt.Sprintf("%x", wire)})
				}
			}
		}
	})
}

// FuzzSignedMsgWire is an optional native fuzz target with the same oracle as
// the wire part of TestCheck (TestCheck does not depend on it).
func FuzzSignedMsgWire(f *testing.F) {
	rng := rand.New(rand.NewPCG(1, 2))
	k := g.NewKey(rng, 0)
	for ht := 1; ht <= 3; ht++ {
		m, err := peer.NewSignedMsg("ctx", k.Priv, hash.HashType(ht), []byte("body"))
		if err != nil {
			f.Fatal(err)
		}
		b, _ := m.MarshalVT()
		f.Add(b, "ctx")
	}
	f.Fuzz(func(t *testing.T, wire []byte, ctx string) {
		m, err := peer.UnmarshalSignedMsg(wire)
		if err != nil {
			return
		}
		_, _, err = m.ExtractAndVerify(ctx)
		if err != nil {
			return
		}
		auth, _, st := g.RefAuthentic(m.GetFromPeerId(), ctx, int32(m.GetSignature().GetHashType()), m.GetData(), m.GetSignature().GetSigData())
		if st != g.Ambiguous && !auth {
			t.Fatalf("accepted unauthentic message %x ctx %q", wire, ctx)
		}
	})
}
