package g6link

import (
	"context"
	"errors"
	"fmt"
	"io"
	"runtime"
	"sort"
	"sync"
	"sync/atomic"

	"github.com/aperturerobotics/bifrost/crypto"
	"github.com/aperturerobotics/bifrost/link"
	"github.com/aperturerobotics/bifrost/peer"
	peer_controller "github.com/aperturerobotics/bifrost/peer/controller"
	"github.com/aperturerobotics/bifrost/protocol"
	"github.com/aperturerobotics/bifrost/stream"
	"github.com/aperturerobotics/bifrost/transport"
	transport_controller "github.com/aperturerobotics/bifrost/transport/controller"
	"github.com/aperturerobotics/bifrost/util/verifhook"
	"github.com/aperturerobotics/controllerbus/bus"
	"github.com/aperturerobotics/controllerbus/controller"
	cbc "github.com/aperturerobotics/controllerbus/core"
	"github.com/aperturerobotics/controllerbus/directive"
	protobuf_go_lite "github.com/aperturerobotics/protobuf-go-lite"
	"github.com/blang/semver/v4"
	"github.com/sirupsen/logrus"

	"verifharness/keys"
)

// Kinds of hook events.
const (
	KindEst  = "est"
	KindLost = "lost"
)

// Event is one tc.established / tc.lost hook event: emitted as the last
// action of the locked callback, so the order of events of a node is the
// linearisation order of the table updates, and Snap is the table right
// after the update (copied under the same lock).
type Event struct {
	Seq  int // 1-based index in the node's log
	Kind string
	Link *Link
	// Foreign is set if the link was not a harness fake (never expected).
	Foreign bool
	Snap    *transport_controller.VerifLinkSnapshot
}

// Down reports whether the controller was not running (had no peer id: still
// starting up or already shut down) when the event was applied.
func (e Event) Down() bool { return e.Snap != nil && e.Snap.PeerID == "" }

var nodeByCtrl sync.Map // *transport_controller.Controller -> *Node

func init() {
	mk := func(kind string) func(args ...any) {
		return func(args ...any) {
			if len(args) < 2 {
				return
			}
			c, _ := args[0].(*transport_controller.Controller)
			if c == nil {
				return
			}
			v, ok := nodeByCtrl.Load(c)
			if !ok {
				return
			}
			n := v.(*Node)
			fl, _ := args[1].(*Link)
			// we are inside the controller's locked callback
			snap := c.VerifSnapshotLinksLocked()
			n.mu.Lock()
			n.events = append(n.events, Event{Seq: len(n.events) + 1, Kind: kind, Link: fl, Foreign: fl == nil, Snap: snap})
			n.mu.Unlock()
			n.applied.Add(1)
		}
	}
	verifhook.SetEvent("tc.established", mk(KindEst))
	verifhook.SetEvent("tc.lost", mk(KindLost))
}

// World is one controller bus with one real transport controller per local
// identity.
type World struct {
	Ctx    context.Context
	Cancel context.CancelFunc
	Bus    bus.Bus
	Nodes  []*Node
	Le     *logrus.Entry
	rels   []func()
	// ValueHook, if set before the first Watch is created, is called from every
	// value callback of every Watch with the event being recorded (it may fill Aux).
	ValueHook func(e *ValEvent)
}

// Node is one local identity: peer controller + real transport controller
// whose constructor returned a fake transport and captured the real handler.
type Node struct {
	W       *World
	Ident   *keys.Identity
	Ctrl    *transport_controller.Controller
	Handler transport.TransportHandler
	Tpt     *Transport

	mu        sync.Mutex
	events    []Event
	applied   atomic.Int64
	submitted atomic.Int64
}

var tptSerial atomic.Uint64

// WorldOpts are optional callbacks into the construction of a World.
type WorldOpts struct {
	// PreStart is called once the bus, the peer controllers and every Node
	// (identity, fake transport; w.Nodes is complete) exist, and before any
	// transport controller is added to the bus: fake links can be built
	// (Node.NewLink) and directives added (World.NewWatch) that exist before
	// the controllers start.
	PreStart func(w *World)
	// InCtor is called from inside the constructor callback the real
	// transport controller of node n invokes from its Execute (first
	// invocation only), after the real handler was stored in n.Handler and
	// before the constructor returns: the controller is still starting up
	// (it has neither its transport nor its peer id yet). Handler calls may
	// block until the controller is up, so InCtor must deliver them from
	// separate goroutines (Node.EstAsync / Node.LostAsync) and return.
	InCtor func(n *Node)
}

// NewWorld builds a bus with one transport controller per identity and waits
// until every controller has its transport.
func NewWorld(parent context.Context, locals []*keys.Identity) (*World, error) {
	return NewWorldOpts(parent, locals, nil)
}

// NewWorldOpts is NewWorld with callbacks (see WorldOpts).
func NewWorldOpts(parent context.Context, locals []*keys.Identity, opts *WorldOpts) (*World, error) {
	if opts == nil {
		opts = &WorldOpts{}
	}
	ctx, cancel := context.WithCancel(parent)
	lg := logrus.New()
	lg.SetOutput(io.Discard)
	lg.SetLevel(logrus.PanicLevel)
	le := logrus.NewEntry(lg)
	b, _, err := cbc.NewCoreBus(ctx, le)
	if err != nil {
		cancel()
		return nil, err
	}
	w := &World{Ctx: ctx, Cancel: cancel, Bus: b, Le: le}
	for _, id := range locals {
		rel, err := b.AddController(ctx, peer_controller.NewController(le, id.Peer), nil)
		if err != nil {
			w.Close()
			return nil, err
		}
		w.rels = append(w.rels, rel)
	}
	for _, id := range locals {
		w.Nodes = append(w.Nodes, &Node{W: w, Ident: id, Tpt: &Transport{UUID: tptSerial.Add(1) + 500, PeerID: id.ID}})
	}
	if opts.PreStart != nil {
		opts.PreStart(w)
	}
	for _, n := range w.Nodes {
		n := n
		var first sync.Once
		ctor := func(ctx context.Context, le *logrus.Entry, pkey crypto.PrivKey, handler transport.TransportHandler) (transport.Transport, error) {
			first.Do(func() {
				// written once, before the goroutines InCtor starts and before
				// the controller publishes its transport (GetTransport below)
				n.Handler = handler
				if opts.InCtor != nil {
					opts.InCtor(n)
				}
			})
			return n.Tpt, nil
		}
		n.Ctrl = transport_controller.NewController(le, b, controller.NewInfo("verif/g6/fake-transport", semver.MustParse("0.0.1"), "fake transport"), n.Ident.ID, false, ctor)
		nodeByCtrl.Store(n.Ctrl, n)
		rel, err := b.AddController(ctx, n.Ctrl, nil)
		if err != nil {
			w.Close()
			return nil, err
		}
		w.rels = append(w.rels, rel)
		if _, err := n.Ctrl.GetTransport(ctx); err != nil {
			w.Close()
			return nil, err
		}
		if n.Handler == nil {
			w.Close()
			return nil, errors.New("constructor was not called")
		}
	}
	return w, nil
}

// Close tears the world down.
func (w *World) Close() {
	w.Cancel()
	for _, r := range w.rels {
		r()
	}
	for _, n := range w.Nodes {
		if n.Ctrl != nil {
			nodeByCtrl.Delete(n.Ctrl)
		}
	}
}

// Local returns the node's peer id.
func (n *Node) Local() peer.ID { return n.Ident.ID }

// Est delivers HandleLinkEstablished(l) to the real handler.
func (n *Node) Est(l *Link) { n.submitted.Add(1); n.Handler.HandleLinkEstablished(l) }

// Lost delivers HandleLinkLost(l) to the real handler.
func (n *Node) Lost(l *Link) { n.submitted.Add(1); n.Handler.HandleLinkLost(l) }

// EstAsync delivers HandleLinkEstablished(l) from a new goroutine (the call is
// counted as submitted before the goroutine starts); yields = number of
// runtime.Gosched calls the goroutine makes first. done, if not nil, is
// signalled when the call returned.
func (n *Node) EstAsync(l *Link, yields int, done *sync.WaitGroup) {
	n.submitted.Add(1)
	n.async(func() { n.Handler.HandleLinkEstablished(l) }, yields, done)
}

// LostAsync is EstAsync for HandleLinkLost.
func (n *Node) LostAsync(l *Link, yields int, done *sync.WaitGroup) {
	n.submitted.Add(1)
	n.async(func() { n.Handler.HandleLinkLost(l) }, yields, done)
}

func (n *Node) async(f func(), yields int, done *sync.WaitGroup) {
	if done != nil {
		done.Add(1)
	}
	go func() {
		if done != nil {
			defer done.Done()
		}
		for i := 0; i < yields; i++ {
			runtime.Gosched()
		}
		f()
	}()
}

// Seq returns the number of hook events applied so far.
func (n *Node) Seq() int { return int(n.applied.Load()) }

// Submitted returns the number of handler calls made so far.
func (n *Node) Submitted() int { return int(n.submitted.Load()) }

// AllApplied reports whether every submitted handler call reached its hook.
func (n *Node) AllApplied() bool { return n.applied.Load() >= n.submitted.Load() }

// Events returns a copy of the log from index from (0-based).
func (n *Node) Events(from int) []Event {
	n.mu.Lock()
	defer n.mu.Unlock()
	if from > len(n.events) {
		from = len(n.events)
	}
	return append([]Event(nil), n.events[from:]...)
}

// NewLink builds a fake link of this node (local peer = the node's identity,
// transport uuid = the node's transport).
func (n *Node) NewLink(name string, uuid uint64, remote peer.ID) *Link {
	return NewLink(name, uuid, n.Tpt.UUID, n.Ident.ID, remote)
}

// PeerLinks calls the real GetPeerLinks and returns the fake links, sorted by
// serial; foreign counts links that are not harness fakes.
func (n *Node) PeerLinks(p peer.ID) (out []*Link, foreign int) {
	for _, l := range n.Ctrl.GetPeerLinks(p) {
		if fl, ok := l.(*Link); ok && fl != nil {
			out = append(out, fl)
		} else {
			foreign++
		}
	}
	SortLinks(out)
	return
}

// SortLinks sorts by serial.
func SortLinks(ls []*Link) {
	sort.Slice(ls, func(i, j int) bool { return ls[i].Serial < ls[j].Serial })
}

// Names renders a set of links.
func Names(ls []*Link) string {
	s := "{"
	for i, l := range ls {
		if i > 0 {
			s += ","
		}
		s += l.Name
	}
	return s + "}"
}

// ---------------------------------------------------------------------------

// ValEvent is one value-added / value-removed callback seen by a Watch.
type ValEvent struct {
	Added  bool
	ValID  uint32
	Link   *Link // nil if the value could not be mapped to a fake link
	ML     link.MountedLink
	Remote peer.ID
	Local  peer.ID
	UUID   uint64
	// SeqAt[i] = number of hook events applied at node i when the callback ran.
	SeqAt []int
	// Aux is filled by World.ValueHook (nil otherwise).
	Aux any
}

// Watch is a reference to an EstablishLinkWithPeer(S, D) directive with a
// recording handler.
type Watch struct {
	W    *World
	Src  peer.ID
	Dst  peer.ID
	ref  directive.Reference
	mu   sync.Mutex
	cur  map[uint32]*ValEvent
	log  []ValEvent
	disp bool
	n    atomic.Int64
	gate *Gate // armed gate (nil if none), guarded by mu

	released atomic.Bool
	relOnce  sync.Once
}

// Gate holds one value callback of a Watch: the goroutine delivering the
// callback (normally the resolver that is emitting the value, inside its
// SetValues / AddValue call, with no lock of the system under test held) is
// parked in the harness until the gate is opened. The callback is recorded
// (log, current values, callback counter) before it parks, so a parked
// callback is not "progress" and the parked goroutine (state "chan receive")
// counts as parked for the stuck-state detector. Opening is decided by the
// harness from conditions (Settle), never from durations.
type Gate struct {
	wa        *Watch
	addedOnly bool
	entered   chan struct{}
	open      chan struct{}
	once      sync.Once
	ev        ValEvent
}

// Arm makes the next callback of the watch (the next value-added callback if
// addedOnly) park at the returned gate. At most one gate is armed per watch:
// arming again replaces a gate that was not entered yet (it is opened).
func (wa *Watch) Arm(addedOnly bool) *Gate {
	g := &Gate{wa: wa, addedOnly: addedOnly, entered: make(chan struct{}), open: make(chan struct{})}
	wa.mu.Lock()
	old := wa.gate
	wa.gate = g
	wa.mu.Unlock()
	if old != nil {
		old.Open()
	}
	return g
}

// Entered reports whether a callback is (or was) parked at the gate.
func (g *Gate) Entered() bool {
	select {
	case <-g.entered:
		return true
	default:
		return false
	}
}

// Event returns the callback parked at the gate (valid once Entered).
func (g *Gate) Event() ValEvent { return g.ev }

// Open lets the parked callback return; a gate that was not entered yet is
// disarmed. Idempotent.
func (g *Gate) Open() {
	g.wa.mu.Lock()
	if g.wa.gate == g {
		g.wa.gate = nil
	}
	g.wa.mu.Unlock()
	g.once.Do(func() { close(g.open) })
}

// pass is called at the end of every callback of the watch.
func (wa *Watch) pass(e *ValEvent) {
	wa.mu.Lock()
	g := wa.gate
	if g != nil && (e.Added || !g.addedOnly) {
		wa.gate = nil
	} else {
		g = nil
	}
	wa.mu.Unlock()
	if g == nil {
		return
	}
	g.ev = *e
	close(g.entered)
	<-g.open
}

// NewWatch adds the directive.
func (w *World) NewWatch(src, dst peer.ID) (*Watch, error) {
	wa := w.PrepareWatch(src, dst)
	if err := wa.Add(); err != nil {
		return nil, err
	}
	return wa, nil
}

// PrepareWatch builds a Watch whose directive is not added yet (Watch.Add): a
// gate can be armed on it before its first callback can happen. Add may
// deliver the values an equivalent directive already has on the calling
// goroutine, so an armed watch must be added from a goroutine of its own.
func (w *World) PrepareWatch(src, dst peer.ID) *Watch {
	return &Watch{W: w, Src: src, Dst: dst, cur: map[uint32]*ValEvent{}}
}

// Add adds the directive of a prepared watch (once).
func (wa *Watch) Add() error {
	w, src, dst := wa.W, wa.Src, wa.Dst
	mk := func(added bool, av directive.AttachedValue) ValEvent {
		e := ValEvent{Added: added, ValID: av.GetValueID()}
		if ml, ok := av.GetValue().(link.MountedLink); ok && ml != nil {
			e.Link = LookupSerial(ml.GetRemoteTransportUUID())
			e.ML = ml
			e.Remote, e.Local, e.UUID = ml.GetRemotePeer(), ml.GetLocalPeer(), ml.GetLinkUUID()
		}
		for _, n := range w.Nodes {
			e.SeqAt = append(e.SeqAt, n.Seq())
		}
		if w.ValueHook != nil {
			w.ValueHook(&e)
		}
		return e
	}
	h := directive.NewCallbackHandler(func(av directive.AttachedValue) {
		e := mk(true, av)
		wa.mu.Lock()
		wa.cur[e.ValID] = &e
		wa.log = append(wa.log, e)
		wa.mu.Unlock()
		wa.n.Add(1)
		wa.pass(&e)
	}, func(av directive.AttachedValue) {
		e := mk(false, av)
		wa.mu.Lock()
		delete(wa.cur, e.ValID)
		wa.log = append(wa.log, e)
		wa.mu.Unlock()
		wa.n.Add(1)
		wa.pass(&e)
	}, func() {
		wa.mu.Lock()
		wa.disp = true
		wa.mu.Unlock()
	})
	_, ref, err := w.Bus.AddDirective(link.NewEstablishLinkWithPeer(src, dst), h)
	if err != nil {
		return err
	}
	wa.mu.Lock()
	wa.ref = ref
	wa.mu.Unlock()
	if wa.released.Load() {
		wa.relOnce.Do(ref.Release)
	}
	return nil
}

// Release drops the reference.
// (a watch whose Add has not returned yet is released as soon as it has).
func (wa *Watch) Release() {
	wa.released.Store(true)
	wa.mu.Lock()
	ref := wa.ref
	wa.mu.Unlock()
	if ref != nil {
		wa.relOnce.Do(ref.Release)
	}
}

// Released reports whether Release was called.
func (wa *Watch) Released() bool { return wa.released.Load() }

// Current returns the links of the values currently attached (sorted), and
// the number of values that are not fake links.
func (wa *Watch) Current() (out []*Link, unknown int) {
	wa.mu.Lock()
	for _, e := range wa.cur {
		if e.Link != nil {
			out = append(out, e.Link)
		} else {
			unknown++
		}
	}
	wa.mu.Unlock()
	SortLinks(out)
	return
}

// CurrentValues returns the value-added records of the values currently attached.
func (wa *Watch) CurrentValues() []ValEvent {
	wa.mu.Lock()
	defer wa.mu.Unlock()
	out := make([]ValEvent, 0, len(wa.cur))
	for _, e := range wa.cur {
		out = append(out, *e)
	}
	sort.Slice(out, func(i, j int) bool { return out[i].ValID < out[j].ValID })
	return out
}

// Log returns a copy of the callbacks seen so far.
func (wa *Watch) Log() []ValEvent {
	wa.mu.Lock()
	defer wa.mu.Unlock()
	return append([]ValEvent(nil), wa.log...)
}

// Callbacks returns the number of callbacks seen (progress counter).
func (wa *Watch) Callbacks() int64 { return wa.n.Load() }

func (wa *Watch) String() string { return fmt.Sprintf("watch(%s->%s)", short(wa.Src), short(wa.Dst)) }

// ---------------------------------------------------------------------------

// Delivered is one stream handed to the catch-all HandleMountedStream handler.
type Delivered struct {
	DirProto  protocol.ID
	DirLocal  peer.ID
	DirRemote peer.ID
	Proto     protocol.ID
	PeerID    peer.ID
	LinkLocal peer.ID
	LinkRem   peer.ID
	Link      *Link
}

// StreamCatcher is a controller resolving every HandleMountedStream directive
// with a recording handler.
type StreamCatcher struct {
	mu  sync.Mutex
	got []Delivered
	n   atomic.Int64
}

type catcherHandler struct {
	sc  *StreamCatcher
	dir link.HandleMountedStream
}

func (h *catcherHandler) HandleMountedStream(ctx context.Context, ms link.MountedStream) error {
	d := Delivered{
		DirProto: h.dir.HandleMountedStreamProtocolID(), DirLocal: h.dir.HandleMountedStreamLocalPeerID(), DirRemote: h.dir.HandleMountedStreamRemotePeerID(),
		Proto: ms.GetProtocolID(), PeerID: ms.GetPeerID(),
	}
	if ml := ms.GetLink(); ml != nil {
		d.LinkLocal, d.LinkRem = ml.GetLocalPeer(), ml.GetRemotePeer()
		d.Link = LookupSerial(ml.GetRemoteTransportUUID())
	}
	h.sc.mu.Lock()
	h.sc.got = append(h.sc.got, d)
	h.sc.mu.Unlock()
	h.sc.n.Add(1)
	return nil
}

// GetControllerInfo implements controller.Controller.
func (s *StreamCatcher) GetControllerInfo() *controller.Info {
	return controller.NewInfo("verif/g6/stream-catcher", semver.MustParse("0.0.1"), "records mounted streams")
}

// Execute implements controller.Controller.
func (s *StreamCatcher) Execute(ctx context.Context) error { return nil }

// Close implements controller.Controller.
func (s *StreamCatcher) Close() error { return nil }

// HandleDirective implements controller.Controller.
func (s *StreamCatcher) HandleDirective(ctx context.Context, di directive.Instance) ([]directive.Resolver, error) {
	if d, ok := di.GetDirective().(link.HandleMountedStream); ok {
		var h link.MountedStreamHandler = &catcherHandler{sc: s, dir: d}
		return directive.Resolvers(directive.NewValueResolver([]link.MountedStreamHandler{h})), nil
	}
	return nil, nil
}

// Delivered returns a copy of the streams delivered so far.
func (s *StreamCatcher) Delivered() []Delivered {
	s.mu.Lock()
	defer s.mu.Unlock()
	return append([]Delivered(nil), s.got...)
}

// Count returns the number of streams delivered so far.
func (s *StreamCatcher) Count() int64 { return s.n.Load() }

// AddStreamCatcher adds the catch-all handler controller to the bus.
func (w *World) AddStreamCatcher() (*StreamCatcher, error) {
	sc := &StreamCatcher{}
	rel, err := w.Bus.AddController(w.Ctx, sc, nil)
	if err != nil {
		return nil, err
	}
	w.rels = append(w.rels, rel)
	return sc, nil
}

// IncomingStream builds a stream carrying a complete stream-establish header
// for the protocol id, ready to be injected into a fake link; the far end is
// returned for the harness.
func IncomingStream(pid protocol.ID) (stream.Stream, *Pipe) {
	a, b := NewPipe()
	msg := transport_controller.NewStreamEstablish(pid)
	body, _ := msg.MarshalVT()
	hdr := protobuf_go_lite.AppendVarint(nil, uint64(len(body)))
	hdr = append(hdr, body...)
	_, _ = b.Write(hdr)
	return a, b
}
