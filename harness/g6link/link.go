// Package g6link holds the shared harness of checks C04 and C06: fake links,
// streams and transports, a world of real transport controllers on a real
// controller bus, the hook-event log, the reference link table and a
// condition-based settle / stuck-state detector.
package g6link

import (
	"context"
	"fmt"
	"io"
	"sync"
	"sync/atomic"
	"time"

	"github.com/aperturerobotics/bifrost/link"
	"github.com/aperturerobotics/bifrost/peer"
	"github.com/aperturerobotics/bifrost/stream"
)

// serial numbers of fake links are process-unique; a fake link reports its
// serial as GetRemoteTransportUUID, which the controller's mounted link passes
// through, so values on the bus can be mapped back to the fake link by
// identity even when uuids are deliberately shared.
var (
	linkSerial atomic.Uint64
	linkBySer  sync.Map // uint64 -> *Link
)

// Link is a fake link.Link scripted by the harness. It never reports its own
// loss: the history is the harness's to script.
type Link struct {
	Serial  uint64
	Name    string // name within the case (l1, l2, ...)
	UUID    uint64
	TptUUID uint64
	Local   peer.ID
	Remote  peer.ID

	closes   atomic.Int64
	closeOne sync.Once
	closed   chan struct{}
	accept   chan stream.Stream
	opens    atomic.Int64

	// curUUID, when non-zero, is what GetUUID reports instead of UUID (the
	// uuid the link was built with, which stays the link's key in the
	// reference table): a link whose reported uuid changes while established.
	curUUID atomic.Uint64

	mu     sync.Mutex
	opened []*Pipe // far ends of streams opened on this link by the code under test
}

// NewLink builds a fake link.
func NewLink(name string, uuid, tptUUID uint64, local, remote peer.ID) *Link {
	l := &Link{
		Serial: linkSerial.Add(1) + 1000, Name: name, UUID: uuid, TptUUID: tptUUID, Local: local, Remote: remote,
		closed: make(chan struct{}), accept: make(chan stream.Stream, 16),
	}
	linkBySer.Store(l.Serial, l)
	return l
}

// Forget drops the link from the serial registry (call when a case is over).
func (l *Link) Forget() { linkBySer.Delete(l.Serial) }

// LookupSerial maps a serial back to the fake link.
func LookupSerial(s uint64) *Link {
	if v, ok := linkBySer.Load(s); ok {
		return v.(*Link)
	}
	return nil
}

func (l *Link) String() string {
	return fmt.Sprintf("%s(#%d uuid=%d %s->%s)", l.Name, l.Serial, l.UUID, short(l.Local), short(l.Remote))
}

func short(p peer.ID) string {
	s := p.String()
	if len(s) > 6 {
		return s[len(s)-6:]
	}
	return s
}

// Short is a short printable form of a peer id.
func Short(p peer.ID) string { return short(p) }

// GetUUID implements link.Link.
func (l *Link) GetUUID() uint64 {
	if u := l.curUUID.Load(); u != 0 {
		return u
	}
	return l.UUID
}

// SetReportedUUID makes GetUUID report u from now on (0 = the original uuid
// again). The field UUID (the uuid the link had when it was built and
// established) is not touched.
func (l *Link) SetReportedUUID(u uint64) { l.curUUID.Store(u) }

// ReportedUUID is what GetUUID returns now.
func (l *Link) ReportedUUID() uint64 { return l.GetUUID() }

// GetTransportUUID implements link.Link.
func (l *Link) GetTransportUUID() uint64 { return l.TptUUID }

// GetRemoteTransportUUID implements link.Link (carries the serial).
func (l *Link) GetRemoteTransportUUID() uint64 { return l.Serial }

// GetRemotePeer implements link.Link.
func (l *Link) GetRemotePeer() peer.ID { return l.Remote }

// GetLocalPeer implements link.Link.
func (l *Link) GetLocalPeer() peer.ID { return l.Local }

// OpenStream implements link.Link: returns one end of an in-memory pipe and
// keeps the far end for the harness.
func (l *Link) OpenStream(opts stream.OpenOpts) (stream.Stream, error) {
	select {
	case <-l.closed:
		return nil, io.ErrClosedPipe
	default:
	}
	a, b := NewPipe()
	l.opens.Add(1)
	l.mu.Lock()
	l.opened = append(l.opened, b)
	l.mu.Unlock()
	return a, nil
}

// Opened returns the far ends of the streams opened on the link so far.
func (l *Link) Opened() []*Pipe {
	l.mu.Lock()
	defer l.mu.Unlock()
	return append([]*Pipe(nil), l.opened...)
}

// AcceptStream implements link.Link: blocks until the harness injects a
// stream or the link is closed.
func (l *Link) AcceptStream() (stream.Stream, stream.OpenOpts, error) {
	select {
	case s := <-l.accept:
		return s, stream.OpenOpts{}, nil
	case <-l.closed:
		return nil, stream.OpenOpts{}, context.Canceled
	}
}

// Inject hands an incoming stream to whoever accepts on the link. Returns
// false if the link is closed or its queue is full.
func (l *Link) Inject(s stream.Stream) bool {
	select {
	case <-l.closed:
		return false
	default:
	}
	select {
	case l.accept <- s:
		return true
	default:
		return false
	}
}

// Close implements link.Link.
func (l *Link) Close() error {
	l.closes.Add(1)
	l.closeOne.Do(func() { close(l.closed) })
	return nil
}

// Closes returns how often Close was called.
func (l *Link) Closes() int64 { return l.closes.Load() }

var _ link.Link = (*Link)(nil)

// Pipe is one end of a buffered in-memory duplex stream. Deadlines are
// accepted and ignored (the harness always writes complete headers).
type Pipe struct {
	rd, wr *pipeBuf
}

type pipeBuf struct {
	mu     sync.Mutex
	cond   *sync.Cond
	buf    []byte
	closed bool
}

func newPipeBuf() *pipeBuf {
	b := &pipeBuf{}
	b.cond = sync.NewCond(&b.mu)
	return b
}

// NewPipe returns the two ends of a pipe.
func NewPipe() (*Pipe, *Pipe) {
	x, y := newPipeBuf(), newPipeBuf()
	return &Pipe{rd: x, wr: y}, &Pipe{rd: y, wr: x}
}

// Read implements stream.Stream.
func (p *Pipe) Read(b []byte) (int, error) {
	p.rd.mu.Lock()
	defer p.rd.mu.Unlock()
	for len(p.rd.buf) == 0 {
		if p.rd.closed {
			return 0, io.EOF
		}
		p.rd.cond.Wait()
	}
	n := copy(b, p.rd.buf)
	p.rd.buf = p.rd.buf[n:]
	return n, nil
}

// Write implements stream.Stream.
func (p *Pipe) Write(b []byte) (int, error) {
	p.wr.mu.Lock()
	defer p.wr.mu.Unlock()
	if p.wr.closed {
		return 0, io.ErrClosedPipe
	}
	p.wr.buf = append(p.wr.buf, b...)
	p.wr.cond.Broadcast()
	return len(b), nil
}

// Buffered returns a copy of the bytes waiting to be read on this end.
func (p *Pipe) Buffered() []byte {
	p.rd.mu.Lock()
	defer p.rd.mu.Unlock()
	return append([]byte(nil), p.rd.buf...)
}

// Close implements stream.Stream (closes both directions).
func (p *Pipe) Close() error {
	for _, b := range []*pipeBuf{p.rd, p.wr} {
		b.mu.Lock()
		b.closed = true
		b.cond.Broadcast()
		b.mu.Unlock()
	}
	return nil
}

// SetReadDeadline implements stream.Stream.
func (p *Pipe) SetReadDeadline(t time.Time) error { return nil }

// SetWriteDeadline implements stream.Stream.
func (p *Pipe) SetWriteDeadline(t time.Time) error { return nil }

// SetDeadline implements stream.Stream.
func (p *Pipe) SetDeadline(t time.Time) error { return nil }

var _ stream.Stream = (*Pipe)(nil)

// Transport is the fake transport returned by the controller's constructor.
type Transport struct {
	UUID   uint64
	PeerID peer.ID
}

// Execute implements transport.Transport.
func (t *Transport) Execute(ctx context.Context) error {
	<-ctx.Done()
	return nil
}

// GetUUID implements transport.Transport.
func (t *Transport) GetUUID() uint64 { return t.UUID }

// GetPeerID implements transport.Transport.
func (t *Transport) GetPeerID() peer.ID { return t.PeerID }

// Close implements transport.Transport.
func (t *Transport) Close() error { return nil }
