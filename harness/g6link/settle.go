package g6link

import (
	"regexp"
	"runtime"
	"strings"
	"sync"
	"time"
)

// Result of Settle.
type Result int

const (
	// Reached: the condition became true.
	Reached Result = iota
	// Stuck: the condition is false in a state in which nothing that could
	// make it true is running any more (see Settle).
	Stuck
	// Undecided: the watchdog expired while the system was still active.
	Undecided
)

// world lock: cases run under the read lock; the stuck-state detector takes
// the write lock so that no other case is executing while it looks at the
// goroutines of the process.
var worldMu sync.RWMutex

// RunCase runs f as one case (allows the stuck-state detector of another case
// to wait for it).
func RunCase(f func()) {
	worldMu.RLock()
	defer worldMu.RUnlock()
	f()
}

// Watchdog bounds the slow path of Settle; its expiry is never a verdict
// (Undecided).
var Watchdog = 40 * time.Second

// Settle waits for cond, which must be called from inside RunCase. No
// duration decides the verdict: Reached is returned as soon as cond holds;
// Stuck only if, with every other case paused, three consecutive goroutine
// dumps show every goroutine that runs code of the system under test
// (aperturerobotics/* frames) parked in a channel operation / select /
// Cond.Wait / WaitGroup.Wait, none running, runnable, sleeping or waiting for a
// mutex, the progress counter unchanged and cond still false: then nothing is
// left that could make cond true. dump is the last goroutine dump.
func Settle(cond func() bool, progress func() int64) (res Result, dump string) {
	for i := 0; i < 400; i++ {
		if cond() {
			return Reached, ""
		}
		if i < 100 {
			runtime.Gosched()
		} else {
			time.Sleep(200 * time.Microsecond)
		}
	}
	// slow path: pause the other cases
	worldMu.RUnlock()
	worldMu.Lock()
	defer func() {
		worldMu.Unlock()
		worldMu.RLock()
	}()
	deadline := time.Now().Add(Watchdog)
	calm := 0
	last := int64(-1)
	for {
		if cond() {
			return Reached, ""
		}
		p := int64(0)
		if progress != nil {
			p = progress()
		}
		d, parked := sutParked()
		dump = d
		if parked && p == last {
			calm++
		} else {
			calm = 0
		}
		last = p
		if calm >= 3 {
			if cond() {
				return Reached, ""
			}
			return Stuck, dump
		}
		if time.Now().After(deadline) {
			return Undecided, dump
		}
		runtime.Gosched()
		time.Sleep(2 * time.Millisecond)
	}
}

var gHeader = regexp.MustCompile(`^goroutine \d+ (?:gp=\S+ m=\S+ (?:mp=\S+ )?)?\[([^\]]*)\]`)

var parkedStates = map[string]bool{
	"chan receive": true, "chan send": true, "select": true, "sync.Cond.Wait": true,
	"sync.WaitGroup.Wait": true, "IO wait": true, "chan receive (nil chan)": true,
	"chan send (nil chan)": true, "select (no cases)": true,
}

// sutParked dumps all goroutines and reports whether every goroutine with a
// frame of the system under test is parked.
func sutParked() (string, bool) {
	buf := make([]byte, 1<<20)
	for {
		n := runtime.Stack(buf, true)
		if n < len(buf) {
			buf = buf[:n]
			break
		}
		buf = make([]byte, 2*len(buf))
	}
	dump := string(buf)
	all := true
	for _, g := range strings.Split(dump, "\n\n") {
		if !strings.Contains(g, "github.com/aperturerobotics/") {
			continue
		}
		m := gHeader.FindStringSubmatch(g)
		if m == nil {
			all = false
			continue
		}
		st := m[1]
		if i := strings.IndexByte(st, ','); i >= 0 {
			st = st[:i]
		}
		st = strings.TrimSpace(st)
		if !parkedStates[st] {
			all = false
		}
	}
	return dump, all
}

// TrimDump shortens a goroutine dump for a witness file: keeps only goroutines
// of the system under test.
func TrimDump(dump string) []string {
	var out []string
	for _, g := range strings.Split(dump, "\n\n") {
		if strings.Contains(g, "github.com/aperturerobotics/") {
			if len(g) > 1500 {
				g = g[:1500] + "..."
			}
			out = append(out, g)
			if len(out) >= 40 {
				break
			}
		}
	}
	return out
}
