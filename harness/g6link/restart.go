package g6link

// Restartable worlds: real transport controllers whose Execute ends (the fake
// transport fails, the execution context is cancelled, the constructor
// fails) and is run again on the SAME Controller instance, the way the
// controllerbus loader does it (bus.ExecuteController in a loop; optionally
// through the real loader with a zero backoff), with an identity that may
// change in between (controller configured with an empty peer id + peer
// controllers the harness swaps on the bus).
//
// Everything here is additive: the World / Node / Watch machinery is reused
// (a restartable node embeds a Node so that the tc.established / tc.lost hook
// log works unchanged).

import (
	"context"
	"errors"
	"io"
	"runtime"
	"sync"
	"sync/atomic"
	"time"

	"github.com/aperturerobotics/bifrost/crypto"
	"github.com/aperturerobotics/bifrost/peer"
	peer_controller "github.com/aperturerobotics/bifrost/peer/controller"
	"github.com/aperturerobotics/bifrost/transport"
	transport_controller "github.com/aperturerobotics/bifrost/transport/controller"
	"github.com/aperturerobotics/controllerbus/config"
	"github.com/aperturerobotics/controllerbus/controller"
	"github.com/aperturerobotics/controllerbus/controller/loader"
	cbc "github.com/aperturerobotics/controllerbus/core"
	"github.com/aperturerobotics/controllerbus/directive"
	backoff "github.com/aperturerobotics/util/backoff/cbackoff"
	"github.com/blang/semver/v4"
	"github.com/sirupsen/logrus"

	"verifharness/keys"
)

// FailTransport is a fake transport whose Execute returns when the harness
// tells it to (or when its context ends).
type FailTransport struct {
	UUID   uint64
	PeerID peer.ID
	fail   chan error
}

// Execute implements transport.Transport.
func (t *FailTransport) Execute(ctx context.Context) error {
	select {
	case <-ctx.Done():
		return nil
	case err := <-t.fail:
		return err
	}
}

// GetUUID implements transport.Transport.
func (t *FailTransport) GetUUID() uint64 { return t.UUID }

// GetPeerID implements transport.Transport.
func (t *FailTransport) GetPeerID() peer.ID { return t.PeerID }

// Close implements transport.Transport.
func (t *FailTransport) Close() error { return nil }

// Incarnation is one call of the transport constructor by the controller's
// Execute, i.e. one execution of the controller that got as far as building
// its transport.
type Incarnation struct {
	Node *RNode
	// K is the index of the constructor call (0-based). Every execution with a
	// smaller index has returned (and its handler registration was removed from
	// the bus) before this constructor was called.
	K int
	// ID is the identity of the execution: derived by the harness from the
	// private key the controller handed to the constructor.
	ID      peer.ID
	Tpt     *FailTransport
	Handler transport.TransportHandler
	// CtorFailed: the constructor returned an error (the execution ended there).
	CtorFailed bool

	cancel  context.CancelFunc // cancels the execution context (own-loop mode only)
	retired atomic.Bool        // no more handler calls are made through this incarnation
	up      atomic.Bool        // WaitUp saw the controller publish this incarnation's transport
	exitReq atomic.Bool        // the harness asked this execution to end
}

// Stable reports whether the execution is up and the harness has not asked it
// to end: while the same incarnation is Stable before and after a harness
// action, that action did not overlap the controller's exit or its removal
// from the bus.
func (inc *Incarnation) Stable() bool {
	return inc != nil && inc.up.Load() && !inc.exitReq.Load() && !inc.retired.Load()
}

// RNode is a transport controller that is executed again and again.
type RNode struct {
	*Node // hook event log, counters (Ident and Tpt are nil)
	RW    *RWorld
	Idx   int
	// Cfg is the peer id the controller was configured with ("" = use the peer found on the bus).
	Cfg peer.ID
	// ViaLoader: executed by the real controllerbus loader (ExecController
	// directive, zero backoff) instead of the harness loop.
	ViaLoader bool

	// handler calls hold gate for reading; the constructor of the next
	// incarnation takes it for writing until every call made so far has reached
	// its hook, so that no call of an earlier incarnation is applied while a
	// later one is running.
	gate sync.RWMutex

	mu         sync.Mutex
	incs       []*Incarnation
	cur        *Incarnation // latest incarnation whose constructor succeeded and that was not retired
	ctorFails  int          // upcoming constructor calls that fail
	changed    chan struct{}
	nextCancel context.CancelFunc
	cancels    []context.CancelFunc

	exits    atomic.Int64 // executions with constructor index < exits are known to be over
	broken   atomic.Value // string
	loopDone chan struct{}
	ldrRef   directive.Reference
}

// RWorld is a World whose nodes are restartable and whose local peers (peer
// controllers on the bus) can be added and removed.
type RWorld struct {
	*World
	RNodes []*RNode

	pmu   sync.Mutex
	peers map[peer.ID]func()
}

// NewRWorld builds an empty restartable world (a core bus: it has the loader).
func NewRWorld(parent context.Context) (*RWorld, error) {
	ctx, cancel := context.WithCancel(parent)
	lg := logrus.New()
	lg.SetOutput(io.Discard)
	lg.SetLevel(logrus.PanicLevel)
	le := logrus.NewEntry(lg)
	b, _, err := cbc.NewCoreBus(ctx, le)
	if err != nil {
		cancel()
		return nil, err
	}
	return &RWorld{World: &World{Ctx: ctx, Cancel: cancel, Bus: b, Le: le}, peers: map[peer.ID]func(){}}, nil
}

// AddPeer runs a peer controller for the identity on the bus (no-op if there is one).
func (w *RWorld) AddPeer(id *keys.Identity) error {
	w.pmu.Lock()
	defer w.pmu.Unlock()
	if _, ok := w.peers[id.ID]; ok {
		return nil
	}
	rel, err := w.Bus.AddController(w.Ctx, peer_controller.NewController(w.Le, id.Peer), nil)
	if err != nil {
		return err
	}
	w.peers[id.ID] = rel
	return nil
}

// RemovePeer removes the peer controller of the identity from the bus.
func (w *RWorld) RemovePeer(id peer.ID) bool {
	w.pmu.Lock()
	defer w.pmu.Unlock()
	rel, ok := w.peers[id]
	if ok {
		delete(w.peers, id)
		rel()
	}
	return ok
}

// HasPeer reports whether the harness currently runs a peer controller for id.
func (w *RWorld) HasPeer(id peer.ID) bool {
	w.pmu.Lock()
	defer w.pmu.Unlock()
	_, ok := w.peers[id]
	return ok
}

// AddRNode creates (but does not start) a restartable node. All nodes must be
// added before the first Watch is created.
func (w *RWorld) AddRNode(cfg peer.ID, viaLoader bool) *RNode {
	n := &RNode{RW: w, Idx: len(w.RNodes), Cfg: cfg, ViaLoader: viaLoader, changed: make(chan struct{}), loopDone: make(chan struct{})}
	n.Node = &Node{W: w.World}
	n.Ctrl = transport_controller.NewController(w.Le, w.Bus, controller.NewInfo("verif/g6/restartable-transport", semver.MustParse("0.0.1"), "fake transport that can fail"), cfg, false, n.ctor)
	nodeByCtrl.Store(n.Ctrl, n.Node)
	w.RNodes = append(w.RNodes, n)
	w.Nodes = append(w.Nodes, n.Node)
	return n
}

func (n *RNode) signalLocked() {
	close(n.changed)
	n.changed = make(chan struct{})
}

func (n *RNode) noteExit(k int) {
	for {
		old := n.exits.Load()
		if int64(k) <= old || n.exits.CompareAndSwap(old, int64(k)) {
			return
		}
	}
}

// ctor is the transport constructor the controller calls from Execute.
func (n *RNode) ctor(ctx context.Context, le *logrus.Entry, pkey crypto.PrivKey, handler transport.TransportHandler) (transport.Transport, error) {
	id, err := peer.IDFromPrivateKey(pkey)
	if err != nil {
		return nil, err
	}
	// Every earlier execution has returned. Retire the earlier incarnations:
	// wait for the handler calls in flight, then for the ones that were
	// deferred to a goroutine of their own (HoldLockMaybeAsync).
	n.gate.Lock()
	n.mu.Lock()
	k := len(n.incs)
	for _, o := range n.incs {
		o.retired.Store(true)
	}
	n.cur = nil
	n.mu.Unlock()
	deadline := time.Now().Add(Watchdog)
	for i := 0; !n.AllApplied(); i++ {
		if ctx.Err() != nil || time.Now().After(deadline) {
			// never a verdict: the case is reported inconclusive by the caller
			n.broken.Store("handler calls of an earlier execution never reached their hooks")
			n.gate.Unlock()
			<-ctx.Done()
			return nil, context.Canceled
		}
		if i < 50 {
			yield()
		} else {
			time.Sleep(100 * time.Microsecond)
		}
	}
	n.noteExit(k)
	inc := &Incarnation{Node: n, K: k, ID: id, Handler: handler, Tpt: &FailTransport{UUID: tptSerial.Add(1) + 500, PeerID: id, fail: make(chan error, 1)}}
	n.mu.Lock()
	inc.cancel = n.nextCancel
	if n.ctorFails > 0 {
		n.ctorFails--
		inc.CtorFailed = true
		inc.retired.Store(true)
	} else {
		n.cur = inc
	}
	n.incs = append(n.incs, inc)
	n.signalLocked()
	n.mu.Unlock()
	n.gate.Unlock()
	if inc.CtorFailed {
		return nil, errors.New("verif: the transport could not be constructed")
	}
	return inc.Tpt, nil
}

// Start begins executing the controller (harness loop or loader).
func (n *RNode) Start() error {
	if n.ViaLoader {
		f := &rFactory{n: n}
		cfg := &rConfig{Config: &peer_controller.Config{}, n: n}
		dir := loader.NewExecControllerWithOpts(f, cfg, func() backoff.BackOff { return &backoff.ZeroBackOff{} }, directive.ValueOptions{})
		_, ref, err := n.RW.Bus.AddDirective(dir, nil)
		if err != nil {
			close(n.loopDone)
			return err
		}
		n.mu.Lock()
		n.ldrRef = ref
		n.mu.Unlock()
		close(n.loopDone)
		return nil
	}
	go n.loop()
	return nil
}

// loop is what the loader's resolver does, without a backoff: execute the same
// instance again whenever Execute returned.
func (n *RNode) loop() {
	defer close(n.loopDone)
	w := n.RW
	for w.Ctx.Err() == nil && n.Broken() == "" {
		ctx, cancel := context.WithCancel(w.Ctx)
		n.mu.Lock()
		before := len(n.incs)
		n.nextCancel = cancel
		n.cancels = append(n.cancels, cancel)
		n.mu.Unlock()
		_ = w.Bus.ExecuteController(ctx, n.Ctrl)
		// (ctx is not cancelled here: handler calls of the execution that just
		// ended may still be on their way, and a handler call under a cancelled
		// context may or may not be applied)
		n.mu.Lock()
		after := len(n.incs)
		n.mu.Unlock()
		if after > before {
			// ExecuteController returned: Execute is over and the bus has removed the controller's handler
			n.noteExit(after)
		} else {
			yield()
		}
	}
}

// Broken returns a description if the node's bookkeeping failed (the case is inconclusive).
func (n *RNode) Broken() string {
	s, _ := n.broken.Load().(string)
	return s
}

// Cur returns the latest live incarnation (nil while between two executions).
func (n *RNode) Cur() *Incarnation {
	n.mu.Lock()
	defer n.mu.Unlock()
	return n.cur
}

// Exits returns m such that every execution with constructor index < m is
// over and its handler registration was removed from the bus. Read BEFORE
// adding a directive, it bounds from below the incarnation of every link the
// directive may be given from this node.
func (n *RNode) Exits() int { return int(n.exits.Load()) }

// Incarnations returns all constructor calls so far.
func (n *RNode) Incarnations() []*Incarnation {
	n.mu.Lock()
	defer n.mu.Unlock()
	return append([]*Incarnation(nil), n.incs...)
}

// FailNextCtor makes the next k constructor calls fail.
func (n *RNode) FailNextCtor(k int) {
	n.mu.Lock()
	n.ctorFails += k
	n.mu.Unlock()
}

// NewLink builds a fake link of an incarnation (local peer = its identity).
func (inc *Incarnation) NewLink(name string, uuid uint64, remote peer.ID) *Link {
	return NewLink(name, uuid, inc.Tpt.UUID, inc.ID, remote)
}

// Est delivers HandleLinkEstablished(l) through the incarnation's handler;
// false if the incarnation was retired (nothing was delivered).
func (inc *Incarnation) Est(l *Link) bool {
	n := inc.Node
	n.gate.RLock()
	defer n.gate.RUnlock()
	if inc.retired.Load() {
		return false
	}
	n.submitted.Add(1)
	inc.Handler.HandleLinkEstablished(l)
	return true
}

// Lost delivers HandleLinkLost(l) through the incarnation's handler.
func (inc *Incarnation) Lost(l *Link) bool {
	n := inc.Node
	n.gate.RLock()
	defer n.gate.RUnlock()
	if inc.retired.Load() {
		return false
	}
	n.submitted.Add(1)
	inc.Handler.HandleLinkLost(l)
	return true
}

// Fail makes the transport's Execute return err: the controller's Execute
// returns it and the controller is executed again. Handler calls racing with
// the exit are allowed (they are applied before the next constructor returns).
func (inc *Incarnation) Fail(err error) {
	inc.exitReq.Store(true)
	select {
	case inc.Tpt.fail <- err:
	default:
	}
}

// CancelExec ends the execution by cancelling its context (own-loop mode;
// falls back to Fail under the loader). The incarnation is retired first: a
// handler call made under a cancelled context may or may not be applied.
func (inc *Incarnation) CancelExec() {
	n := inc.Node
	inc.exitReq.Store(true)
	if inc.cancel == nil || n.ViaLoader {
		inc.Fail(errors.New("verif: transport failed"))
		return
	}
	n.gate.Lock()
	inc.retired.Store(true)
	n.mu.Lock()
	if n.cur == inc {
		n.cur = nil
	}
	n.mu.Unlock()
	n.gate.Unlock()
	inc.cancel()
}

// WaitUp waits until an incarnation with K >= minK is the current one and the
// controller has published its transport. An error is never a verdict.
func (n *RNode) WaitUp(ctx context.Context, minK int) (*Incarnation, error) {
	for {
		n.mu.Lock()
		inc, ch := n.cur, n.changed
		n.mu.Unlock()
		if b := n.Broken(); b != "" {
			return nil, errors.New(b)
		}
		if inc != nil && inc.K >= minK {
			tpt, err := n.Ctrl.GetTransport(ctx)
			if err != nil {
				return nil, err
			}
			if tpt == transport.Transport(inc.Tpt) {
				inc.up.Store(true)
				return inc, nil
			}
			// a later execution is on its way (or this one ended already)
			yield()
			n.mu.Lock()
			same := n.cur == inc
			n.mu.Unlock()
			if !same {
				continue
			}
			select {
			case <-ctx.Done():
				return nil, ctx.Err()
			case <-time.After(200 * time.Microsecond):
			}
			continue
		}
		select {
		case <-ctx.Done():
			return nil, ctx.Err()
		case <-ch:
		case <-time.After(5 * time.Millisecond):
			// (re-check Broken)
		}
	}
}

// Close tears the world down and waits for the execution loops.
func (w *RWorld) Close() {
	w.Cancel()
	for _, n := range w.RNodes {
		n.mu.Lock()
		ref, cancels := n.ldrRef, n.cancels
		n.mu.Unlock()
		if ref != nil {
			ref.Release()
		}
		for _, c := range cancels {
			c()
		}
	}
	for _, n := range w.RNodes {
		select {
		case <-n.loopDone:
		case <-time.After(Watchdog):
		}
	}
	w.pmu.Lock()
	for id, rel := range w.peers {
		rel()
		delete(w.peers, id)
	}
	w.pmu.Unlock()
	w.World.Close()
}

func yield() { runtime.Gosched() }

// ---------------------------------------------------------------------------
// loader plumbing: a factory that "constructs" the node's one Controller.

type rFactory struct{ n *RNode }

func (f *rFactory) GetConfigID() string { return "verif/g6/restartable-transport" }
func (f *rFactory) ConstructConfig() config.Config {
	return &rConfig{Config: &peer_controller.Config{}, n: f.n}
}
func (f *rFactory) GetVersion() semver.Version { return semver.MustParse("0.0.1") }
func (f *rFactory) Construct(ctx context.Context, c config.Config, opts controller.ConstructOpts) (controller.Controller, error) {
	return f.n.Ctrl, nil
}

// rConfig borrows the protobuf / json plumbing of an (empty) peer controller config.
type rConfig struct {
	*peer_controller.Config
	n *RNode
}

func (c *rConfig) Validate() error     { return nil }
func (c *rConfig) GetConfigID() string { return "verif/g6/restartable-transport" }
func (c *rConfig) EqualsConfig(o config.Config) bool {
	oc, ok := o.(*rConfig)
	return ok && oc.n == c.n
}

// ---------------------------------------------------------------------------
// ParkHandler: a directive handler of the harness that holds ONE AddDirective
// call of an EstablishLinkWithPeer(src, dst) request between "the handlers on
// the bus were asked for resolvers" and "the resolvers are attached". The bus
// calls the handlers in the order they were added with its mutex released, so
// a handler added after the transport controller's (which is re-added by every
// execution) is asked after it: while the call is parked the harness lets the
// controller's execution end (its handler is removed from the bus) and a new
// one begin, then opens the gate: the bus attaches the resolver the ENDED
// execution's handler returned, which no handler removal will ever remove.
// This is the AddDirective / controller-exit overlap of the restart cases made
// a condition instead of a coincidence (a slow sibling handler is an ordinary
// schedule).
type ParkHandler struct {
	src, dst peer.ID
	armed    atomic.Bool
	entered  chan struct{}
	open     chan struct{}
	openOnce sync.Once
	rel      func()
}

// HandleDirective implements directive.Handler.
func (p *ParkHandler) HandleDirective(ctx context.Context, di directive.Instance) ([]directive.Resolver, error) {
	d, ok := di.GetDirective().(interface {
		EstablishLinkSourcePeerId() peer.ID
		EstablishLinkTargetPeerId() peer.ID
	})
	if !ok || d.EstablishLinkSourcePeerId() != p.src || d.EstablishLinkTargetPeerId() != p.dst {
		return nil, nil
	}
	if !p.armed.CompareAndSwap(true, false) {
		return nil, nil
	}
	close(p.entered)
	<-p.open
	return nil, nil
}

// AddParkHandler adds an (unarmed) park handler for requests (src -> dst) to the bus.
func (w *World) AddParkHandler(src, dst peer.ID) (*ParkHandler, error) {
	p := &ParkHandler{src: src, dst: dst, entered: make(chan struct{}), open: make(chan struct{})}
	rel, err := w.Bus.AddHandler(p)
	if err != nil {
		return nil, err
	}
	p.rel = rel
	return p, nil
}

// Arm makes the next matching HandleDirective call park.
func (p *ParkHandler) Arm() { p.armed.Store(true) }

// Entered is closed when a call is parked.
func (p *ParkHandler) Entered() <-chan struct{} { return p.entered }

// Open lets the parked call (or any later one) go on.
func (p *ParkHandler) Open() { p.openOnce.Do(func() { close(p.open) }) }

// Remove opens the gate and removes the handler from the bus.
func (p *ParkHandler) Remove() {
	p.Open()
	if p.rel != nil {
		p.rel()
	}
}
