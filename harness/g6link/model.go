package g6link

import (
	"fmt"
	"sort"

	"github.com/aperturerobotics/bifrost/peer"
	transport_controller "github.com/aperturerobotics/bifrost/transport/controller"
)

// RefTable is the reference link table of one local identity, written from
// the property text (C06, and the self-link clause of C04); it never calls
// the code under test.
//
//	Est(l):  remote == local            -> l must be closed, table unchanged
//	         l already in the table     -> duplicate report, unchanged
//	         another link o has l.uuid  -> o is replaced: removed, must be closed; l inserted
//	         otherwise                  -> l inserted
//	Lost(l): l in the table (identity)  -> removed, must be closed
//	         otherwise                  -> unchanged (in particular a newer link
//	                                       holding the same uuid stays)
type RefTable struct {
	Local peer.ID
	cur   map[uint64]*Link
	// MustClose: links that the model removed (lost / replaced) or rejected
	// (self link): Close must be called on them at least once.
	MustClose map[*Link]string
	// Changes counts events that changed the table.
	Changes int
	// Replacements counts inserts that replaced another link.
	Replacements int
	// StaleLosses counts Lost(l) for an l that is not in the table while
	// another link holds its uuid.
	StaleLosses int
	// RefusedDown counts Est events applied while the controller was not running.
	RefusedDown int
	refusedDown map[*Link]bool
	// history of table states: states[k] = table after k events
	states [][]*Link
}

// NewRefTable returns an empty table.
func NewRefTable(local peer.ID) *RefTable {
	t := &RefTable{Local: local, cur: map[uint64]*Link{}, MustClose: map[*Link]string{}}
	t.states = append(t.states, nil)
	return t
}

// ApplyEvent replays one hook event, taking the life cycle of the controller
// into account: a link reported established while the controller is not
// running (the transport reported it during start-up and the call was applied
// before the controller was up, or after it shut down) is refused: it must be
// closed and the table stays unchanged. Whether the controller was running is
// an observation about the environment of the call (the controller's peer id
// in the lock-consistent snapshot), not a judgement of the table.
func (t *RefTable) ApplyEvent(ev Event) {
	if ev.Kind == KindEst && ev.Down() {
		if ev.Link.Remote == t.Local {
			t.MustClose[ev.Link] = "self link (remote peer is the local peer), reported while the controller was not running"
		} else {
			t.MustClose[ev.Link] = "reported established while the controller was not running"
		}
		t.RefusedDown++
		if t.refusedDown == nil {
			t.refusedDown = map[*Link]bool{}
		}
		t.refusedDown[ev.Link] = true
		t.states = append(t.states, t.Links())
		return
	}
	t.Apply(ev.Kind, ev.Link)
}

// WasRefusedDown reports whether some Est(l) was applied while the controller
// was not running. The reference table refuses such a link; a check whose
// property does not speak about the start-up phase should not rely on that.
func (t *RefTable) WasRefusedDown(l *Link) bool { return t.refusedDown[l] }

// Apply replays one event.
func (t *RefTable) Apply(kind string, l *Link) {
	switch kind {
	case KindEst:
		switch o := t.cur[l.UUID]; {
		case l.Remote == t.Local:
			t.MustClose[l] = "self link (remote peer is the local peer)"
		case o == l:
		case o != nil:
			t.MustClose[o] = "replaced by a newer link with the same uuid"
			t.cur[l.UUID] = l
			t.Changes++
			t.Replacements++
		default:
			t.cur[l.UUID] = l
			t.Changes++
		}
	case KindLost:
		if o := t.cur[l.UUID]; o == l {
			delete(t.cur, l.UUID)
			t.MustClose[l] = "lost"
			t.Changes++
		} else if o != nil {
			t.StaleLosses++
		}
	}
	t.states = append(t.states, t.Links())
}

// Links returns the links in the table, sorted by serial.
func (t *RefTable) Links() []*Link {
	out := make([]*Link, 0, len(t.cur))
	for _, l := range t.cur {
		out = append(out, l)
	}
	SortLinks(out)
	return out
}

// PeerLinks returns the links whose remote peer is p.
func (t *RefTable) PeerLinks(p peer.ID) []*Link { return filterPeer(t.Links(), p) }

func filterPeer(ls []*Link, p peer.ID) []*Link {
	var out []*Link
	for _, l := range ls {
		if l.Remote == p {
			out = append(out, l)
		}
	}
	return out
}

// NumStates returns the number of recorded states (events applied + 1).
func (t *RefTable) NumStates() int { return len(t.states) }

// PeerLinksAt returns the peer's links in the state after k events.
func (t *RefTable) PeerLinksAt(k int, p peer.ID) []*Link { return filterPeer(t.states[k], p) }

// Has reports whether l is in the table.
func (t *RefTable) Has(l *Link) bool { return t.cur[l.UUID] == l }

// EverPresentUpTo reports whether l was in the table in some state 0..k.
func (t *RefTable) EverPresentUpTo(k int, l *Link) bool {
	if k >= len(t.states) {
		k = len(t.states) - 1
	}
	for i := 0; i <= k; i++ {
		for _, x := range t.states[i] {
			if x == l {
				return true
			}
		}
	}
	return false
}

// SameSet compares two serial-sorted link slices by identity.
func SameSet(a, b []*Link) bool {
	if len(a) != len(b) {
		return false
	}
	for i := range a {
		if a[i] != b[i] {
			return false
		}
	}
	return true
}

// Mismatch describes a difference between a snapshot and the model.
type Mismatch struct {
	// Class is a stable short identifier of the kind of difference.
	Class string
	Text  string
}

// CompareSnapshot checks a snapshot of Controller.links / linksByPeerID taken
// right after ev against the model (already advanced past ev). Both maps must
// hold exactly the model's links: links keyed by the link's uuid, and
// linksByPeerID exactly the partition of links by remote peer, holding the
// same entry objects, without nil or duplicate entries.
func CompareSnapshot(t *RefTable, ev Event, s *transport_controller.VerifLinkSnapshot) *Mismatch {
	want := t.Links()
	var got []*Link
	seen := map[*Link]int{}
	elOf := map[*Link]any{}
	for _, e := range s.Links {
		if e.Link == nil || e.EL == nil {
			return &Mismatch{"links-nil-entry", fmt.Sprintf("links[%d] holds a nil entry", e.UUID)}
		}
		fl, ok := e.Link.(*Link)
		if !ok {
			return &Mismatch{"links-foreign-entry", fmt.Sprintf("links[%d] holds a link the harness never delivered", e.UUID)}
		}
		if fl.UUID != e.UUID {
			return &Mismatch{"links-wrong-key", fmt.Sprintf("links[%d] holds %s", e.UUID, fl)}
		}
		seen[fl]++
		elOf[fl] = e.EL
		got = append(got, fl)
	}
	SortLinks(got)
	for l, c := range seen {
		if c > 1 {
			return &Mismatch{"links-duplicate", fmt.Sprintf("%s is in links %d times", l, c)}
		}
	}
	if !SameSet(got, want) {
		return &Mismatch{classify(ev, got, want), fmt.Sprintf("after %s(%s): links = %s, reference table = %s", ev.Kind, ev.Link.Name, Names(got), Names(want))}
	}
	var byPeer []*Link
	seenBP := map[*Link]int{}
	for _, e := range s.LinksByPeerID {
		if e.Link == nil || e.EL == nil {
			return &Mismatch{"bypeer-nil-entry", fmt.Sprintf("linksByPeerID[%s] holds a nil entry", short(e.PeerID))}
		}
		fl, ok := e.Link.(*Link)
		if !ok {
			return &Mismatch{"bypeer-foreign-entry", "linksByPeerID holds a link the harness never delivered"}
		}
		if fl.Remote != e.PeerID {
			return &Mismatch{"bypeer-wrong-key", fmt.Sprintf("linksByPeerID[%s] holds %s", short(e.PeerID), fl)}
		}
		seenBP[fl]++
		if seenBP[fl] > 1 {
			return &Mismatch{"bypeer-duplicate", fmt.Sprintf("%s is in linksByPeerID more than once after %s(%s)", fl, ev.Kind, ev.Link.Name)}
		}
		if el, ok := elOf[fl]; ok && el != e.EL {
			return &Mismatch{"bypeer-stale-entry", fmt.Sprintf("linksByPeerID holds another entry object for %s than links after %s(%s)", fl, ev.Kind, ev.Link.Name)}
		}
		byPeer = append(byPeer, fl)
	}
	SortLinks(byPeer)
	if !SameSet(byPeer, want) {
		return &Mismatch{"bypeer-" + classify(ev, byPeer, want), fmt.Sprintf("after %s(%s): linksByPeerID = %s, links = %s, reference table = %s", ev.Kind, ev.Link.Name, Names(byPeer), Names(got), Names(want))}
	}
	return nil
}

// classify names the difference so that different defects get different keys.
func classify(ev Event, got, want []*Link) string {
	in := func(ls []*Link, l *Link) bool {
		for _, x := range ls {
			if x == l {
				return true
			}
		}
		return false
	}
	var missing, extra []*Link
	for _, l := range want {
		if !in(got, l) {
			missing = append(missing, l)
		}
	}
	for _, l := range got {
		if !in(want, l) {
			extra = append(extra, l)
		}
	}
	var parts []string
	for _, m := range missing {
		switch {
		case ev.Kind == KindLost && m != ev.Link && m.UUID == ev.Link.UUID:
			parts = append(parts, "lost-removed-other-link-with-same-uuid")
		case m == ev.Link:
			parts = append(parts, ev.Kind+"-link-missing")
		default:
			parts = append(parts, ev.Kind+"-removed-unrelated-link")
		}
	}
	for _, x := range extra {
		switch {
		case x == ev.Link && ev.Kind == KindLost:
			parts = append(parts, "lost-link-still-present")
		case x == ev.Link:
			parts = append(parts, "est-link-unexpectedly-present")
		case ev.Kind == KindEst && x.UUID == ev.Link.UUID:
			parts = append(parts, "est-replaced-link-still-present")
		default:
			parts = append(parts, ev.Kind+"-stale-link-present")
		}
	}
	sort.Strings(parts)
	out := ""
	for i, p := range parts {
		if i > 0 && parts[i-1] == p {
			continue
		}
		if out != "" {
			out += "+"
		}
		out += p
	}
	if out == "" {
		out = "order"
	}
	return out
}
