package g6link

import (
	"context"
	"errors"
	"fmt"
	"sync"
	"time"

	"github.com/aperturerobotics/bifrost/link"
	"github.com/aperturerobotics/bifrost/peer"
	peer_controller "github.com/aperturerobotics/bifrost/peer/controller"
	transport_quic "github.com/aperturerobotics/bifrost/transport/common/quic"
	transport_controller "github.com/aperturerobotics/bifrost/transport/controller"
	"github.com/aperturerobotics/bifrost/util/verifhook"

	"io"

	"github.com/aperturerobotics/bifrost/crypto"
	"github.com/aperturerobotics/bifrost/transport"
	"github.com/aperturerobotics/bifrost/transport/common/dialer"
	"github.com/aperturerobotics/bifrost/transport/common/pconn"
	"github.com/aperturerobotics/controllerbus/controller"
	"github.com/blang/semver/v4"
	"github.com/sirupsen/logrus"

	"verifharness/keys"
)

func quietLogger() *logrus.Entry {
	l := logrus.New()
	l.SetOutput(io.Discard)
	l.SetLevel(logrus.PanicLevel)
	return logrus.NewEntry(l)
}

// quicOpts: 1 s idle timeout so that an abandoned session disappears quickly.
func quicOpts() *pconn.Opts {
	return &pconn.Opts{Quic: &transport_quic.Opts{MaxIdleTimeoutDur: "1s"}}
}

// callRecorder sits between a transport and its handler and counts the calls
// the transport makes (appended before the call is forwarded).
type callRecorder struct {
	mu    sync.Mutex
	inner transport.TransportHandler
	est   int
	lost  int
	// links: the quic links reported established, in the order of the calls
	links []*transport_quic.Link
	// pump: without a controller nobody accepts streams and notices that
	// the session died; the recorder then runs the accept loop itself and
	// closes a dead link like the controller would.
	pump bool
}

func (r *callRecorder) HandleLinkEstablished(lnk link.Link) {
	r.mu.Lock()
	r.est++
	ql, _ := lnk.(*transport_quic.Link)
	r.links = append(r.links, ql)
	in, pump := r.inner, r.pump
	r.mu.Unlock()
	if in != nil {
		in.HandleLinkEstablished(lnk)
	} else if pump {
		go func() {
			for {
				strm, _, err := lnk.AcceptStream()
				if err != nil {
					_ = lnk.Close()
					return
				}
				if strm != nil {
					_ = strm.Close()
				}
			}
		}()
	}
}

func (r *callRecorder) HandleLinkLost(lnk link.Link) {
	r.mu.Lock()
	r.lost++
	in := r.inner
	r.mu.Unlock()
	if in != nil {
		in.HandleLinkLost(lnk)
	}
}

func (r *callRecorder) counts() (est, total int) {
	r.mu.Lock()
	defer r.mu.Unlock()
	return r.est, r.est + r.lost
}

// switchTpt adds MatchTransportType so that the pconn transport can be the
// transport of a transport controller.
type switchTpt struct {
	*pconn.Transport
}

func (s *switchTpt) MatchTransportType(t string) bool { return t == "switch" }

var _ dialer.TransportDialer = (*switchTpt)(nil)

// quic.linklost.done events: the quic transport finished processing the loss
// of a link; current says whether the link was still the current one for its
// remote address at that time.
type lostDone struct {
	current bool
}

var (
	lostDoneMu sync.Mutex
	lostDoneBy = map[*transport_quic.Link]lostDone{}
)

func init() {
	verifhook.SetEvent("quic.linklost.done", func(args ...any) {
		if len(args) < 3 {
			return
		}
		l, _ := args[1].(*transport_quic.Link)
		cur, _ := args[2].(bool)
		if l == nil {
			return
		}
		lostDoneMu.Lock()
		lostDoneBy[l] = lostDone{current: cur}
		lostDoneMu.Unlock()
	})
}

// LossProcessed reports whether the quic transport finished processing the
// loss of l (its handler, if it is told at all, has been told by then), and
// whether l was still the current link for its address.
func LossProcessed(l *transport_quic.Link) (done, current bool) {
	lostDoneMu.Lock()
	d, ok := lostDoneBy[l]
	lostDoneMu.Unlock()
	return ok, d.current
}

// Adopt registers a controller built elsewhere so that its tc.* hook events
// are counted (Node.Seq).
func Adopt(c *transport_controller.Controller) *Node {
	n := &Node{Ctrl: c}
	nodeByCtrl.Store(c, n)
	return n
}

// Drop unregisters an adopted controller.
func (n *Node) Drop() { nodeByCtrl.Delete(n.Ctrl) }

// QuicCase is one local real transport controller with a real pconn (quic)
// transport on an in-memory datagram switch, plus remote real
// transports created by the script.
type QuicCase struct {
	Ctx    context.Context
	Cancel context.CancelFunc
	Net    *SwitchNet
	Local  *keys.Identity
	World  *World // bus + peer controller of the local identity (no fake transport controller)
	Ctrl   *transport_controller.Controller
	EP     *Endpoint
	Rec    *callRecorder
	Node   *Node
	QT     *transport_quic.Transport

	mu       sync.Mutex
	connects int
	remotes  []*QuicRemote
	keeps    []*Watch
}

// QuicRemote is one remote transport instance.
type QuicRemote struct {
	// Index: the instance is the Index-th (0-based) successful Connect of the
	// case; QuicCase.LocalLink(Index) is the local end of its session.
	Index  int
	Name   string
	ID     *keys.Identity
	EP     *Endpoint
	Tpt    *pconn.Transport
	Link   link.Link // the remote side's link to L
	cancel context.CancelFunc
}

// NewQuicCase builds the local side, listening on home address "L".
func NewQuicCase(local *keys.Identity) (*QuicCase, error) {
	ctx, cancel := context.WithCancel(context.Background())
	q := &QuicCase{Ctx: ctx, Cancel: cancel, Net: NewSwitchNet(), Local: local, Rec: &callRecorder{}}
	w, err := NewWorld(ctx, nil)
	if err != nil {
		cancel()
		return nil, err
	}
	q.World = w
	rel, err := w.Bus.AddController(ctx, peer_controller.NewController(w.Le, local.Peer), nil)
	if err != nil {
		q.Close()
		return nil, err
	}
	w.rels = append(w.rels, rel)
	q.EP = q.Net.NewEndpoint("L")
	built := make(chan *pconn.Transport, 1)
	ctor := func(cctx context.Context, cle *logrus.Entry, pkey crypto.PrivKey, handler transport.TransportHandler) (transport.Transport, error) {
		q.Rec.mu.Lock()
		q.Rec.inner = handler
		q.Rec.mu.Unlock()
		pt, err := pconn.NewTransport(cctx, cle, pkey, q.Rec, quicOpts(), 0, q.EP, ParseAddr, nil)
		if err != nil {
			return nil, err
		}
		select {
		case built <- pt:
		default:
		}
		return &switchTpt{Transport: pt}, nil
	}
	q.Ctrl = transport_controller.NewController(w.Le, w.Bus, controller.NewInfo("verif/g6/switch", semver.MustParse("0.0.1"), "switch transport"), local.ID, false, ctor)
	q.Node = Adopt(q.Ctrl)
	rel, err = w.Bus.AddController(ctx, q.Ctrl, nil)
	if err != nil {
		q.Close()
		return nil, err
	}
	w.rels = append(w.rels, rel)
	if _, err := q.Ctrl.GetTransport(ctx); err != nil {
		q.Close()
		return nil, err
	}
	select {
	case pt := <-built:
		q.QT = pt.Transport
	default:
		q.Close()
		return nil, errors.New("constructor was not called")
	}
	return q, nil
}

// Close tears everything down.
func (q *QuicCase) Close() {
	q.mu.Lock()
	rs := q.remotes
	ks := q.keeps
	q.keeps = nil
	q.mu.Unlock()
	for _, k := range ks {
		k.Release()
	}
	for _, r := range rs {
		r.cancel()
		_ = r.EP.Close()
	}
	q.Cancel()
	if q.World != nil {
		q.World.Close()
	}
	if q.EP != nil {
		_ = q.EP.Close()
	}
	if q.Node != nil {
		q.Node.Drop()
	}
}

// Connect starts a new remote transport for the identity on a new endpoint
// whose home address is home (taking that address over from any earlier
// endpoint) and dials L. Returns once the remote side has its link.
//
// Connects of one case must not overlap. Before dialing, Connect waits until
// the local transport has reported one link per earlier Connect, so that the
// order of the local HandleLinkEstablished calls is the order of the Connects
// (LocalLink relies on it).
func (q *QuicCase) Connect(name string, id *keys.Identity, home string) (*QuicRemote, error) {
	deadline := time.Now().Add(Watchdog)
	for {
		est, _ := q.Rec.counts()
		if est >= q.Connects() {
			break
		}
		if time.Now().After(deadline) {
			return nil, errors.New("the local transport never reported the link of an earlier connect")
		}
		time.Sleep(200 * time.Microsecond)
	}
	rctx, cancel := context.WithCancel(q.Ctx)
	ep := q.Net.NewEndpoint(home)
	rec := &callRecorder{pump: true}
	tpt, err := pconn.NewTransport(rctx, quietLogger(), id.Priv, rec, quicOpts(), 0, ep, ParseAddr, nil)
	if err != nil {
		cancel()
		return nil, err
	}
	go func() { _ = tpt.Execute(rctx) }()
	dctx, dcancel := context.WithTimeout(rctx, 20*time.Second)
	defer dcancel()
	lnk, _, err := tpt.DialPeer(dctx, q.Local.ID, "L")
	if err != nil {
		cancel()
		_ = ep.Close()
		return nil, err
	}
	qr := &QuicRemote{Name: name, ID: id, EP: ep, Tpt: tpt, Link: lnk, cancel: cancel}
	q.mu.Lock()
	qr.Index = q.connects
	q.connects++
	q.remotes = append(q.remotes, qr)
	q.mu.Unlock()
	return qr, nil
}

// LocalLink returns the local end of the session of the idx-th successful
// Connect (the idx-th link the local quic transport reported established), or
// nil while the transport has not reported it yet.
func (q *QuicCase) LocalLink(idx int) *transport_quic.Link {
	q.Rec.mu.Lock()
	defer q.Rec.mu.Unlock()
	if idx < 0 || idx >= len(q.Rec.links) {
		return nil
	}
	return q.Rec.links[idx]
}

// LocalLinks returns every link the local quic transport reported established
// so far, in the order of the reports.
func (q *QuicCase) LocalLinks() []*transport_quic.Link {
	q.Rec.mu.Lock()
	defer q.Rec.mu.Unlock()
	return append([]*transport_quic.Link(nil), q.Rec.links...)
}

// AllTold reports whether the local transport reported one link per
// successful Connect.
func (q *QuicCase) AllTold() bool {
	est, _ := q.Rec.counts()
	return est >= q.Connects()
}

// Keep holds a reference to EstablishLinkWithPeer(local, p) for the rest of the
// case, like an application that wants links with p: without any reference the
// controller closes every link with p as soon as one of them is lost (the
// shared directive is disposed), so a replacement link never outlives the link
// it replaced.
func (q *QuicCase) Keep(p peer.ID) error {
	wa, err := q.World.NewWatch(q.Local.ID, p)
	if err != nil {
		return err
	}
	q.mu.Lock()
	q.keeps = append(q.keeps, wa)
	q.mu.Unlock()
	return nil
}

// CloseLink closes the remote side's link (orderly close).
func (r *QuicRemote) CloseLink() {
	if r.Link != nil {
		_ = r.Link.Close()
	}
}

// RemoteSideAlive reports whether the remote end still considers its session
// with L alive.
func (r *QuicRemote) RemoteSideAlive() bool {
	ql, ok := r.Link.(*transport_quic.Link)
	return ok && ql.GetContext().Err() == nil
}

// Kill lets the remote instance vanish without saying goodbye.
func (r *QuicRemote) Kill() {
	_ = r.EP.Close()
	r.cancel()
}

// Connects returns the number of successful Connect calls.
func (q *QuicCase) Connects() int { q.mu.Lock(); defer q.mu.Unlock(); return q.connects }

// Reported is what the controller reports for one peer.
type Reported struct {
	Alive  []*transport_quic.Link
	Closed []*transport_quic.Link
	Other  int
}

// Report calls the real GetPeerLinks.
func (q *QuicCase) Report(p peer.ID) Reported {
	var r Reported
	for _, l := range q.Ctrl.GetPeerLinks(p) {
		ql, ok := l.(*transport_quic.Link)
		if !ok {
			r.Other++
			continue
		}
		if ql.GetContext().Err() != nil {
			r.Closed = append(r.Closed, ql)
		} else {
			r.Alive = append(r.Alive, ql)
		}
	}
	return r
}

// AllToldAndApplied reports whether the transport delivered one
// HandleLinkEstablished per session the script created and the controller has
// applied every handler call the transport made so far.
func (q *QuicCase) AllToldAndApplied() bool {
	est, total := q.Rec.counts()
	return est >= q.Connects() && q.Node.Seq() >= total
}

// DescribeLink renders a quic link.
func DescribeLink(l *transport_quic.Link) string {
	st := "alive"
	if l.GetContext().Err() != nil {
		st = "closed"
	}
	return fmt.Sprintf("link(uuid=%d remote=%s addr=%s %s)", l.GetUUID(), short(l.GetRemotePeer()), l.RemoteAddr(), st)
}
