package g9mesh

import (
	"context"
	"errors"
	"sync"

	"github.com/aperturerobotics/bifrost/crypto"
	"github.com/aperturerobotics/bifrost/link"
	"github.com/aperturerobotics/bifrost/pubsub"
	"github.com/aperturerobotics/controllerbus/directive"
)

// StubPubSub is a pubsub.PubSub that only records AddPeerStream calls.
type StubPubSub struct {
	mu      sync.Mutex
	Streams []StubStream
}

// StubStream is one recorded AddPeerStream call.
type StubStream struct {
	Tpl       pubsub.PeerLinkTuple
	Initiator bool
}

// Execute blocks until the context ends.
func (s *StubPubSub) Execute(ctx context.Context) error {
	<-ctx.Done()
	return ctx.Err()
}

// AddPeerStream records the call.
func (s *StubPubSub) AddPeerStream(tpl pubsub.PeerLinkTuple, initiator bool, _ link.MountedStream) {
	s.mu.Lock()
	s.Streams = append(s.Streams, StubStream{Tpl: tpl, Initiator: initiator})
	s.mu.Unlock()
}

// AddSubscription is not supported.
func (s *StubPubSub) AddSubscription(context.Context, crypto.PrivKey, string) (pubsub.Subscription, error) {
	return nil, errors.New("stub")
}

// Close does nothing.
func (s *StubPubSub) Close() {}

// Recorded returns the recorded AddPeerStream calls.
func (s *StubPubSub) Recorded() []StubStream {
	s.mu.Lock()
	defer s.mu.Unlock()
	return append([]StubStream(nil), s.Streams...)
}

var _ pubsub.PubSub = (*StubPubSub)(nil)

// FakeDI is a directive.Instance whose reference handlers are captured so
// that the harness can deliver value-added / value-removed callbacks.
type FakeDI struct {
	Ctx context.Context
	Dir directive.Directive

	mu       sync.Mutex
	handlers []directive.ReferenceHandler
	released int
}

type fakeRef struct{ di *FakeDI }

func (r *fakeRef) Release() { r.di.mu.Lock(); r.di.released++; r.di.mu.Unlock() }

func (d *FakeDI) GetContext() context.Context       { return d.Ctx }
func (d *FakeDI) GetDirective() directive.Directive { return d.Dir }
func (d *FakeDI) GetDirectiveIdent() string         { return "fake" }
func (d *FakeDI) GetResolverErrors() []error        { return nil }

// AddReference captures the handler.
func (d *FakeDI) AddReference(cb directive.ReferenceHandler, weak bool) directive.Reference {
	d.mu.Lock()
	d.handlers = append(d.handlers, cb)
	d.mu.Unlock()
	return &fakeRef{di: d}
}
func (d *FakeDI) AddDisposeCallback(cb func()) func()                { return func() {} }
func (d *FakeDI) AddIdleCallback(cb directive.IdleCallback) func()   { return func() {} }
func (d *FakeDI) AddStateCallback(cb directive.StateCallback) func() { return func() {} }
func (d *FakeDI) CloseIfUnreferenced(inclWeakRefs bool) bool         { return false }
func (d *FakeDI) Close()                                             {}

// Handlers returns the captured reference handlers.
func (d *FakeDI) Handlers() []directive.ReferenceHandler {
	d.mu.Lock()
	defer d.mu.Unlock()
	return append([]directive.ReferenceHandler(nil), d.handlers...)
}

var _ directive.Instance = (*FakeDI)(nil)

// FakeValue is a directive.AttachedValue.
type FakeValue struct {
	ID  uint32
	Val directive.Value
}

func (v *FakeValue) GetValueID() uint32        { return v.ID }
func (v *FakeValue) GetValue() directive.Value { return v.Val }
