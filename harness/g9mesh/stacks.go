package g9mesh

import (
	"runtime"
	"strconv"
	"strings"
	"sync"
	"sync/atomic"
	"time"
)

// SFrame is one stack frame.
type SFrame struct {
	Fn   string
	File string
	Line int
}

// G is one goroutine of a snapshot.
type G struct {
	ID     int64
	State  string // "select", "chan receive", "runnable", "running", "sync.Cond.Wait", ...
	Frames []SFrame
	// CreatedBy is the function that started the goroutine, Parent its id (0 if unknown).
	CreatedBy string
	Parent    int64
	Owner     int // attribution (0 = unattributed)
}

// Snapshot is one parsed runtime.Stack(all) dump, restricted to the goroutines
// whose stack mentions one of the watched substrings.
type Snapshot struct {
	Gen int64
	Gs  []*G
}

// Watcher takes goroutine snapshots (shared between concurrently running
// configurations) and attributes goroutines to owners through their creation
// ancestry ("created by ... in goroutine N").
type Watcher struct {
	watch []string

	calls atomic.Int64

	mu     sync.Mutex
	last   *Snapshot
	lastAt int64
	owner  map[int64]int // goroutine id -> owner
	buf    []byte
	taken  int64
	nanos  int64
	bytes  int64
}

// NewWatcher builds a watcher for goroutines whose stacks contain any of the
// given substrings.
func NewWatcher(watch ...string) *Watcher {
	return &Watcher{watch: watch, owner: map[int64]int{}, buf: make([]byte, 1<<20)}
}

// CurGoid returns the id of the calling goroutine.
func CurGoid() int64 {
	var b [64]byte
	n := runtime.Stack(b[:], false)
	s := strings.TrimPrefix(string(b[:n]), "goroutine ")
	if i := strings.IndexByte(s, ' '); i > 0 {
		id, _ := strconv.ParseInt(s[:i], 10, 64)
		return id
	}
	return 0
}

// Register attributes the calling goroutine (and thereby every goroutine it
// or its descendants create) to owner.
func (w *Watcher) Register(owner int) {
	id := CurGoid()
	w.mu.Lock()
	w.owner[id] = owner
	w.mu.Unlock()
}

// Forget drops all attributions of owner.
func (w *Watcher) Forget(owner int) {
	w.mu.Lock()
	for id, o := range w.owner {
		if o == owner {
			delete(w.owner, id)
		}
	}
	w.mu.Unlock()
}

// Taken returns how many dumps were taken.
func (w *Watcher) Taken() int64 { w.mu.Lock(); defer w.mu.Unlock(); return w.taken }

// Cost returns the total time spent dumping and the bytes dumped (informational).
func (w *Watcher) Cost() (time.Duration, int64) {
	w.mu.Lock()
	defer w.mu.Unlock()
	return time.Duration(w.nanos), w.bytes
}

// Fresh returns a snapshot whose capture began after Fresh was called.
func (w *Watcher) Fresh() *Snapshot {
	my := w.calls.Add(1)
	w.mu.Lock()
	defer w.mu.Unlock()
	if w.last != nil && w.lastAt >= my {
		return w.last
	}
	at := w.calls.Load()
	t0 := time.Now()
	defer func() { w.nanos += int64(time.Since(t0)) }()
	for {
		n := runtime.Stack(w.buf, true)
		if n < len(w.buf) {
			w.bytes += int64(n)
			w.last = w.parse(string(w.buf[:n]))
			break
		}
		w.buf = make([]byte, 2*len(w.buf))
	}
	w.taken++
	w.lastAt = at
	w.last.Gen = w.taken
	return w.last
}

func (w *Watcher) parse(dump string) *Snapshot {
	s := &Snapshot{}
	alive := map[int64]struct{}{}
	for _, blk := range strings.Split(dump, "\n\n") {
		if !strings.HasPrefix(blk, "goroutine ") {
			continue
		}
		nl := strings.IndexByte(blk, '\n')
		if nl < 0 {
			continue
		}
		hdr := blk[len("goroutine "):nl]
		sp := strings.IndexByte(hdr, ' ')
		if sp < 0 {
			continue
		}
		id, _ := strconv.ParseInt(hdr[:sp], 10, 64)
		alive[id] = struct{}{}
		hit := false
		for _, sub := range w.watch {
			if strings.Contains(blk, sub) {
				hit = true
				break
			}
		}
		if !hit {
			continue
		}
		g := &G{ID: id}
		if a, b := strings.IndexByte(hdr, '['), strings.LastIndexByte(hdr, ']'); a >= 0 && b > a {
			st := hdr[a+1 : b]
			if c := strings.IndexByte(st, ','); c >= 0 {
				st = st[:c]
			}
			g.State = st
		}
		lines := strings.Split(blk[nl+1:], "\n")
		for i := 0; i < len(lines); i++ {
			ln := lines[i]
			if ln == "" || ln[0] == '\t' {
				continue
			}
			var file string
			var lno int
			if i+1 < len(lines) && strings.HasPrefix(lines[i+1], "\t") {
				loc := strings.TrimSpace(lines[i+1])
				if sp := strings.IndexByte(loc, ' '); sp >= 0 {
					loc = loc[:sp]
				}
				if c := strings.LastIndexByte(loc, ':'); c >= 0 {
					file = loc[:c]
					lno, _ = strconv.Atoi(loc[c+1:])
				}
			}
			if strings.HasPrefix(ln, "created by ") {
				rest := ln[len("created by "):]
				if k := strings.Index(rest, " in goroutine "); k >= 0 {
					g.Parent, _ = strconv.ParseInt(strings.TrimSpace(rest[k+len(" in goroutine "):]), 10, 64)
					rest = rest[:k]
				}
				g.CreatedBy = rest
				continue
			}
			fn := ln
			if p := strings.LastIndexByte(fn, '('); p > 0 {
				fn = fn[:p]
			}
			g.Frames = append(g.Frames, SFrame{Fn: fn, File: file, Line: lno})
		}
		s.Gs = append(s.Gs, g)
	}
	// attribution: own registration, else inherit from the parent
	for pass := 0; pass < 4; pass++ {
		changed := false
		for _, g := range s.Gs {
			if _, ok := w.owner[g.ID]; ok {
				continue
			}
			if o, ok := w.owner[g.Parent]; ok && g.Parent != 0 {
				w.owner[g.ID] = o
				changed = true
			}
		}
		if !changed {
			break
		}
	}
	for _, g := range s.Gs {
		g.Owner = w.owner[g.ID]
	}
	// forget dead goroutines whose attribution can no longer be inherited:
	// keep them (ids are never reused) but bound the map
	if len(w.owner) > 200000 {
		for id := range w.owner {
			if _, ok := alive[id]; !ok {
				delete(w.owner, id)
			}
		}
	}
	return s
}

// InnermostWith returns the innermost frame whose function contains sub.
func (g *G) InnermostWith(sub string) (SFrame, bool) {
	for _, f := range g.Frames {
		if strings.Contains(f.Fn, sub) {
			return f, true
		}
	}
	return SFrame{}, false
}

// Has reports whether any frame's function contains sub.
func (g *G) Has(sub string) bool {
	_, ok := g.InnermostWith(sub)
	return ok
}

// String renders the goroutine compactly (for witnesses).
func (g *G) String() string {
	var sb strings.Builder
	sb.WriteString("g" + strconv.FormatInt(g.ID, 10) + " [" + g.State + "] owner=" + strconv.Itoa(g.Owner))
	for i, f := range g.Frames {
		if i >= 8 {
			break
		}
		sb.WriteString(" < " + f.Fn + ":" + strconv.Itoa(f.Line))
	}
	return sb.String()
}
