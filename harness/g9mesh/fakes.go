package g9mesh

import (
	"context"
	"sync"
	"sync/atomic"

	"github.com/aperturerobotics/bifrost/link"
	"github.com/aperturerobotics/bifrost/peer"
	"github.com/aperturerobotics/bifrost/protocol"
	"github.com/aperturerobotics/bifrost/stream"
)

// FakeLink implements link.MountedLink.
type FakeLink struct {
	UUID          uint64
	Local, Remote peer.ID
	// Opens counts OpenMountedStream calls.
	Opens atomic.Int64
	// LocalReads counts GetLocalPeer calls (the opener decision reads it).
	LocalReads atomic.Int64
	// OnOpen, if set, builds the stream returned by OpenMountedStream.
	OnOpen func(ctx context.Context, l *FakeLink, pid protocol.ID) (link.MountedStream, error)
}

func (l *FakeLink) GetLinkUUID() uint64            { return l.UUID }
func (l *FakeLink) GetTransportUUID() uint64       { return 1 }
func (l *FakeLink) GetRemoteTransportUUID() uint64 { return 2 }
func (l *FakeLink) GetLocalPeer() peer.ID          { l.LocalReads.Add(1); return l.Local }
func (l *FakeLink) GetRemotePeer() peer.ID         { return l.Remote }

// OpenMountedStream counts the call and delegates to OnOpen.
func (l *FakeLink) OpenMountedStream(ctx context.Context, pid protocol.ID, _ stream.OpenOpts) (link.MountedStream, error) {
	l.Opens.Add(1)
	if l.OnOpen != nil {
		return l.OnOpen(ctx, l, pid)
	}
	return nil, context.Canceled
}

var _ link.MountedLink = (*FakeLink)(nil)

// FakeMStream implements link.MountedStream.
type FakeMStream struct {
	Strm  stream.Stream
	Proto protocol.ID
	Peer  peer.ID
	Lnk   link.MountedLink
}

func (s *FakeMStream) GetStream() stream.Stream     { return s.Strm }
func (s *FakeMStream) GetProtocolID() protocol.ID   { return s.Proto }
func (s *FakeMStream) GetOpenOpts() stream.OpenOpts { return stream.OpenOpts{} }
func (s *FakeMStream) GetPeerID() peer.ID           { return s.Peer }
func (s *FakeMStream) GetLink() link.MountedLink    { return s.Lnk }

var _ link.MountedStream = (*FakeMStream)(nil)

// OpenGate is a harness-controlled gate for OpenMountedStream calls of fake
// links (a transport that is slow to open / to abort an open): Wait blocks
// until Open was called. A goroutine blocked at the gate is recognisable in a
// goroutine snapshot by the frame g9mesh.(*OpenGate).Wait in state "chan receive".
type OpenGate struct {
	once sync.Once
	ch   chan struct{}
}

// NewOpenGate returns a closed gate.
func NewOpenGate() *OpenGate { return &OpenGate{ch: make(chan struct{})} }

// Open opens the gate (idempotent).
func (g *OpenGate) Open() { g.once.Do(func() { close(g.ch) }) }

// Wait blocks until the gate is open.
//
//go:noinline
func (g *OpenGate) Wait() { <-g.ch }
