package g9mesh

import (
	"context"
	"fmt"
	"io"
	"strings"
	"sync"
	"sync/atomic"
	"time"

	"github.com/aperturerobotics/bifrost/crypto"
	"github.com/aperturerobotics/bifrost/peer"
	"github.com/aperturerobotics/bifrost/pubsub"
	"github.com/aperturerobotics/bifrost/pubsub/floodsub"
	"github.com/sirupsen/logrus"

	"verifharness/keys"
)

const fsPkg = "bifrost/pubsub/floodsub."

// Env is the per-process environment shared by all meshes of a test: the
// goroutine watcher and the calibrated line of Execute's idle select.
type Env struct {
	W        *Watcher
	IdleLine int
	owners   atomic.Int64
	LE       *logrus.Entry
}

// NewEnv builds the environment and calibrates the idle line of
// FloodSub.Execute: a fresh instance that nobody ever wakes can only park in
// the first select of its loop.
func NewEnv() (*Env, error) {
	lg := logrus.New()
	lg.SetOutput(io.Discard)
	lg.SetLevel(logrus.ErrorLevel)
	e := &Env{W: NewWatcher(fsPkg, "bifrost/pubsub/controller."), LE: logrus.NewEntry(lg)}
	ctx, cancel := context.WithCancel(context.Background())
	defer cancel()
	fs, err := floodsub.NewFloodSub(ctx, e.LE, nil, &floodsub.Config{})
	if err != nil {
		return nil, err
	}
	own := e.NewOwner()
	var gid atomic.Int64
	done := make(chan struct{})
	go func() {
		defer close(done)
		e.W.Register(own)
		gid.Store(CurGoid())
		_ = fs.Execute(ctx)
	}()
	deadline := time.Now().Add(30 * time.Second)
	for e.IdleLine == 0 {
		if time.Now().After(deadline) {
			return nil, fmt.Errorf("calibration: Execute never parked")
		}
		time.Sleep(time.Millisecond)
		for _, g := range e.W.Fresh().Gs {
			if g.ID != gid.Load() || g.State != "select" {
				continue
			}
			if f, ok := g.InnermostWith(fsPkg); ok && strings.HasSuffix(f.Fn, "(*FloodSub).Execute") {
				e.IdleLine = f.Line
			}
		}
	}
	cancel()
	<-done
	e.W.Forget(own)
	return e, nil
}

// NewOwner allocates an attribution id.
func (e *Env) NewOwner() int { return int(e.owners.Add(1)) }

// Delivery is one handler callback.
type Delivery struct {
	Node    int
	Sub     int // harness id of the subscription
	Handler int // harness id of the handler
	Channel string
	From    string
	Data    string
	T       int64 // logical time at callback entry
}

// Node is one real FloodSub instance.
type Node struct {
	Idx   int
	Ident *keys.Identity
	FS    pubsub.PubSub
	m     *Mesh
	execd atomic.Bool
}

// Mesh is a set of FloodSub nodes and the tapped streams between them.
type Mesh struct {
	Env    *Env
	Owner  int
	Clk    Clock
	Ctx    context.Context
	cancel context.CancelFunc
	Nodes  []*Node

	mu     sync.Mutex
	pipes  []*Pipe
	dups   []*Duplex
	deliv  []Delivery
	nDeliv atomic.Int64
	linkID atomic.Uint64
	wg     sync.WaitGroup
}

// NewMesh builds a mesh with one (not yet executing) FloodSub per identity.
func NewMesh(env *Env, idents []*keys.Identity) (*Mesh, error) {
	m := &Mesh{Env: env, Owner: env.NewOwner()}
	m.Ctx, m.cancel = context.WithCancel(context.Background())
	for i, id := range idents {
		fs, err := floodsub.NewFloodSub(m.Ctx, env.LE, nil, &floodsub.Config{})
		if err != nil {
			return nil, err
		}
		m.Nodes = append(m.Nodes, &Node{Idx: i, Ident: id, FS: fs, m: m})
	}
	return m, nil
}

// Adopt attributes the calling goroutine to the mesh (call it from every
// harness goroutine that calls into floodsub: handler goroutines are created
// by the caller of Publish).
func (m *Mesh) Adopt() { m.Env.W.Register(m.Owner) }

// Go runs f in an adopted goroutine tracked by the mesh.
func (m *Mesh) Go(f func()) {
	m.wg.Add(1)
	go func() {
		defer m.wg.Done()
		m.Adopt()
		f()
	}()
}

// Exec starts the node's Execute loop (once).
func (n *Node) Exec() {
	if n.execd.Swap(true) {
		return
	}
	n.m.Go(func() { _ = n.FS.Execute(n.m.Ctx) })
}

// Link connects nodes a and b with a fresh tapped stream and hands the two
// ends to the nodes (a is the initiator). aFirst chooses which side's
// AddPeerStream is called first. The link uuid is uuid (reuse a uuid to
// replace the stream of an existing link tuple).
func (m *Mesh) Link(a, b int, uuid uint64, aFirst bool) *Duplex {
	d := NewDuplex(&m.Clk, fmt.Sprintf("%d-%d#%d", a, b, uuid), a, b)
	m.mu.Lock()
	m.dups = append(m.dups, d)
	m.pipes = append(m.pipes, d.AB, d.BA)
	m.mu.Unlock()
	na, nb := m.Nodes[a], m.Nodes[b]
	la := &FakeLink{UUID: uuid, Local: na.Ident.ID, Remote: nb.Ident.ID}
	lb := &FakeLink{UUID: uuid, Local: nb.Ident.ID, Remote: na.Ident.ID}
	addA := func() {
		na.FS.AddPeerStream(pubsub.NewPeerLinkTuple(la), true,
			&FakeMStream{Strm: d.EndA(), Proto: floodsub.FloodSubID, Peer: nb.Ident.ID, Lnk: la})
	}
	addB := func() {
		nb.FS.AddPeerStream(pubsub.NewPeerLinkTuple(lb), false,
			&FakeMStream{Strm: d.EndB(), Proto: floodsub.FloodSubID, Peer: na.Ident.ID, Lnk: lb})
	}
	if aFirst {
		addA()
		addB()
	} else {
		addB()
		addA()
	}
	return d
}

// NextUUID returns a fresh link uuid.
func (m *Mesh) NextUUID() uint64 { return m.linkID.Add(1) }

// Attach connects node a to a harness-driven endpoint that claims to be
// remote: the returned End is the harness' end (write crafted frames to it);
// nobody reads what the node sends, it is only recorded on the tap d.AB.
func (m *Mesh) Attach(a int, remote peer.ID, nodeInitiates bool) (*Duplex, *End) {
	return m.AttachLink(a, remote, m.NextUUID(), nodeInitiates)
}

// AttachLink is Attach with a chosen link uuid: calling it again with the
// uuid (and remote) of an existing harness-driven endpoint REPLACES the stream
// of that (peer, link) tuple, as a pubsub controller does when the stream of a
// link is re-opened. The old Duplex stays in the mesh's pipe list (its taps and
// gates remain usable).
func (m *Mesh) AttachLink(a int, remote peer.ID, uuid uint64, nodeInitiates bool) (*Duplex, *End) {
	d := NewDuplex(&m.Clk, fmt.Sprintf("%d-h#%d", a, uuid), a, -1)
	d.AB.SetSink()
	m.mu.Lock()
	m.dups = append(m.dups, d)
	m.pipes = append(m.pipes, d.AB, d.BA)
	m.mu.Unlock()
	na := m.Nodes[a]
	la := &FakeLink{UUID: uuid, Local: na.Ident.ID, Remote: remote}
	na.FS.AddPeerStream(pubsub.NewPeerLinkTuple(la), nodeInitiates,
		&FakeMStream{Strm: d.EndA(), Proto: floodsub.FloodSubID, Peer: remote, Lnk: la})
	return d, d.EndB()
}

// Handler returns a callback that logs deliveries for (node, sub, handler).
func (m *Mesh) Handler(node, sub, handler int, channel string) func(pubsub.Message) {
	return func(msg pubsub.Message) {
		t := m.Clk.Tick()
		d := Delivery{Node: node, Sub: sub, Handler: handler, Channel: channel,
			From: msg.GetFrom().String(), Data: string(msg.GetData()), T: t}
		m.mu.Lock()
		m.deliv = append(m.deliv, d)
		m.mu.Unlock()
		m.nDeliv.Add(1)
	}
}

// Deliveries returns a copy of the delivery log.
func (m *Mesh) Deliveries() []Delivery {
	m.mu.Lock()
	defer m.mu.Unlock()
	return append([]Delivery(nil), m.deliv...)
}

// Pipes returns all pipes.
func (m *Mesh) Pipes() []*Pipe {
	m.mu.Lock()
	defer m.mu.Unlock()
	return append([]*Pipe(nil), m.pipes...)
}

// Publisher is the exported-but-not-in-interface publish entry of FloodSub.
type Publisher interface {
	Publish(ctx context.Context, channelID string, privKey crypto.PrivKey, data []byte) error
}

func (m *Mesh) counters() (ops int64, idle bool) {
	idle = true
	for _, p := range m.Pipes() {
		ops += p.Ops()
		if !p.Idle() {
			idle = false
		}
	}
	return ops + m.nDeliv.Load(), idle
}

// GIdle classifies one goroutine with floodsub frames: is it parked at a
// place from which only an external stimulus (a harness call, bytes on a
// pipe) can wake it?
func (e *Env) GIdle(g *G) bool {
	f, ok := g.InnermostWith(fsPkg)
	if !ok {
		return true
	}
	switch {
	case strings.HasSuffix(f.Fn, "(*FloodSub).Execute"):
		return g.State == "select" && f.Line == e.IdleLine
	case strings.HasSuffix(f.Fn, "(*streamHandler).executeSession"):
		// parked in its select, or blocked in a Write that the harness
		// stalled (Pipe.StallWrites): only the harness can wake it.
		return g.State == "select" || g.State == "sync.Cond.Wait" && g.Has("g9mesh.(*Pipe).Write")
	case strings.HasSuffix(f.Fn, "(*streamHandler).readPump"):
		return g.State == "sync.Cond.Wait" && g.Has("g9mesh.(*Pipe).Read")
	}
	return false
}

// QuiescentNow decides exactly whether the mesh is quiescent: every pipe
// empty with its reader parked, every goroutine of the mesh that is inside
// floodsub parked at an idle place (and no unattributed floodsub goroutine
// active), and nothing moved while the goroutine snapshot was taken. The
// caller must not have harness operations on the mesh in flight. busy
// describes the first obstacle.
func (m *Mesh) QuiescentNow() (ok bool, busy string) {
	c1, idle := m.counters()
	if !idle {
		return false, "pipe not idle"
	}
	snap := m.Env.W.Fresh()
	for _, g := range snap.Gs {
		if !g.Has(fsPkg) {
			continue
		}
		if g.Owner != m.Owner && g.Owner != 0 {
			continue
		}
		if !m.Env.GIdle(g) {
			return false, g.String()
		}
	}
	c2, idle := m.counters()
	if !idle || c1 != c2 {
		return false, "moved during snapshot"
	}
	return true, ""
}

// Backpressured reports whether some goroutine of the mesh is parked in
// streamHandler.writePacket, i.e. waits for room in a peer's full send queue.
func (m *Mesh) Backpressured() (bool, string) {
	for _, g := range m.Env.W.Fresh().Gs {
		if g.Owner == m.Owner && g.State == "select" && g.Has(fsPkg+"(*streamHandler).writePacket") {
			return true, g.String()
		}
	}
	return false, ""
}

// GoroutineParkedOnMutex reports whether goroutine id is parked in
// sync.Mutex.Lock below a floodsub frame (it waits for a floodsub lock).
func (m *Mesh) GoroutineParkedOnMutex(id int64) bool {
	for _, g := range m.Env.W.Fresh().Gs {
		if g.ID != id || g.State != "sync.Mutex.Lock" {
			continue
		}
		// the caller of the lock operation must be floodsub code
		for _, f := range g.Frames {
			if strings.HasPrefix(f.Fn, "sync.") || strings.HasPrefix(f.Fn, "internal/sync.") || strings.HasPrefix(f.Fn, "runtime.") {
				continue
			}
			return strings.Contains(f.Fn, fsPkg)
		}
	}
	return false
}

// WaitQuiescent polls QuiescentNow; false means the watchdog expired
// (inconclusive, never a verdict).
func (m *Mesh) WaitQuiescent(watchdog time.Duration) (bool, string) {
	deadline := time.Now().Add(watchdog)
	var busy string
	for {
		var ok bool
		if ok, busy = m.QuiescentNow(); ok {
			return true, ""
		}
		if time.Now().After(deadline) {
			return false, busy
		}
		time.Sleep(3 * time.Millisecond)
	}
}

// Close tears the mesh down and waits for the Execute loops to return.
func (m *Mesh) Close() {
	m.cancel()
	for _, p := range m.Pipes() {
		p.Close()
	}
	for _, n := range m.Nodes {
		n.FS.Close()
	}
	m.wg.Wait()
	// attributions are kept: session goroutines still winding down stay
	// attributed to this (finished) mesh and so never disturb another one.
}
