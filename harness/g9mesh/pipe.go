// Package g9mesh is "Harness C": real FloodSub instances connected by tapped
// in-memory streams, fake mounted links / streams, a hostile frame writer and
// an exact (goroutine-state based) quiescence detector.
package g9mesh

import (
	"encoding/binary"
	"io"
	"sync"
	"sync/atomic"
	"time"

	"github.com/aperturerobotics/bifrost/pubsub/floodsub"
	"github.com/aperturerobotics/bifrost/pubsub/util/pubmessage"
)

// Clock is the shared logical clock of one mesh.
type Clock struct{ v atomic.Int64 }

// Tick advances the clock and returns the new value.
func (c *Clock) Tick() int64 { return c.v.Add(1) }

// Now returns the current value without advancing.
func (c *Clock) Now() int64 { return c.v.Load() }

// PubInfo is the harness' own parse of one published SignedMsg on the wire.
type PubInfo struct {
	// Payload is PubMessageInner.Data as a string (the harness' unique id).
	Payload string
	// Channel is the channel field of the (signed) inner message.
	Channel string
	// From is the claimed sender (b58).
	From string
	// InnerOK says whether the inner message could be parsed.
	InnerOK bool
}

// SubInfo is one SubscriptionOpts on the wire.
type SubInfo struct {
	Channel   string
	Subscribe bool
}

// Frame is one Write on a pipe (the stream_packet session writes exactly one
// length-prefixed packet per Write).
type Frame struct {
	Seq int
	// Tx is the logical time at Write entry.
	Tx int64
	// Rx is the logical time at which the last byte was handed to the reader
	// (taken before Read returns); 0 while undelivered.
	Rx atomic.Int64
	// Parsed says whether the frame was a well-formed floodsub Packet.
	Parsed bool
	Subs   []SubInfo
	Pubs   []PubInfo
	Len    int
	raw    []byte
}

// Pipe is one direction of a tapped in-memory stream. Writes never block
// (unbounded buffer) unless the harness stalls them (StallWrites); a Read never
// crosses a frame boundary and hands out nothing while reads are held
// (HoldReads).
type Pipe struct {
	Name     string
	From, To int
	clk      *Clock

	mu        sync.Mutex
	cond      *sync.Cond
	frames    []*Frame
	head      int
	off       int
	parked    bool
	delivered int
	processed int
	closed    bool
	sink      bool
	maxRead   int
	ops       int64
	// gates (harness controlled, never time based)
	holdR    bool // reads are held: buffered frames are not handed out (link latency)
	stallW   bool // writes are stalled: Write blocks (a transport whose send window is full)
	wblocked int  // writers currently blocked at the stall gate
}

// NewPipe builds a pipe.
func NewPipe(clk *Clock, name string, from, to int) *Pipe {
	p := &Pipe{Name: name, From: from, To: to, clk: clk}
	p.cond = sync.NewCond(&p.mu)
	return p
}

// SetSink marks the pipe as having no reader (harness end): it always counts
// as idle.
func (p *Pipe) SetSink() { p.mu.Lock(); p.sink = true; p.mu.Unlock() }

// SetMaxRead limits the bytes handed out per Read (0 = unlimited).
func (p *Pipe) SetMaxRead(n int) { p.mu.Lock(); p.maxRead = n; p.mu.Unlock() }

func parseFrame(f *Frame, b []byte) {
	if len(b) < 4 || int(binary.LittleEndian.Uint32(b)) != len(b)-4 {
		return
	}
	pkt := &floodsub.Packet{}
	if err := pkt.UnmarshalVT(b[4:]); err != nil {
		return
	}
	f.Parsed = true
	for _, s := range pkt.GetSubscriptions() {
		f.Subs = append(f.Subs, SubInfo{Channel: s.GetChannelId(), Subscribe: s.GetSubscribe()})
	}
	for _, m := range pkt.GetPublish() {
		pi := PubInfo{From: m.GetFromPeerId()}
		in := &pubmessage.PubMessageInner{}
		if err := in.UnmarshalVT(m.GetData()); err == nil {
			pi.InnerOK = true
			pi.Payload = string(in.GetData())
			pi.Channel = in.GetChannel()
		}
		f.Pubs = append(f.Pubs, pi)
	}
}

// Write appends one frame.
func (p *Pipe) Write(b []byte) (int, error) {
	if len(b) == 0 {
		return 0, nil
	}
	f := &Frame{Len: len(b), raw: append([]byte(nil), b...)}
	parseFrame(f, f.raw)
	p.mu.Lock()
	if p.closed {
		p.mu.Unlock()
		return 0, io.ErrClosedPipe
	}
	// Tx is taken at Write entry: that is when the node decided to send.
	f.Tx = p.clk.Tick()
	for p.stallW && !p.closed {
		p.wblocked++
		p.cond.Wait()
		p.wblocked--
	}
	if p.closed {
		p.mu.Unlock()
		return 0, io.ErrClosedPipe
	}
	f.Seq = len(p.frames)
	p.frames = append(p.frames, f)
	p.ops++
	p.cond.Broadcast()
	p.mu.Unlock()
	return len(b), nil
}

// Read hands out bytes of the current frame.
func (p *Pipe) Read(b []byte) (int, error) {
	p.mu.Lock()
	defer p.mu.Unlock()
	// the (single, sequential) reader came back: everything delivered so far
	// has been processed by it.
	p.processed = p.delivered
	for (p.head == len(p.frames) || p.holdR) && !p.closed {
		p.parked = true
		p.cond.Wait()
	}
	p.parked = false
	if p.head == len(p.frames) {
		return 0, io.EOF
	}
	if len(b) == 0 {
		return 0, nil
	}
	f := p.frames[p.head]
	src := f.raw[p.off:]
	if p.maxRead > 0 && len(src) > p.maxRead {
		src = src[:p.maxRead]
	}
	n := copy(b, src)
	p.off += n
	p.ops++
	if p.off == len(f.raw) {
		f.Rx.Store(p.clk.Tick())
		p.head++
		p.off = 0
		p.delivered++
	}
	return n, nil
}

// Close closes the pipe: pending data is dropped for the reader (EOF).
func (p *Pipe) Close() {
	p.mu.Lock()
	if !p.closed {
		p.closed = true
		p.ops++
		// drop undelivered data: a closed stream delivers EOF
		p.head = len(p.frames)
		p.off = 0
		p.cond.Broadcast()
	}
	p.mu.Unlock()
}

// Idle reports whether nothing is buffered and the reader is parked in Read
// (or the pipe is closed / has no reader).
func (p *Pipe) Idle() bool {
	p.mu.Lock()
	defer p.mu.Unlock()
	if p.closed || p.sink {
		return true
	}
	return p.parked && (p.head == len(p.frames) || p.holdR)
}

// HoldReads closes (on) or opens the read gate: while it is closed the reader
// is handed nothing, buffered frames stay in flight (a slow link) and the
// pipe counts as idle once its reader is parked. Writers are not affected.
func (p *Pipe) HoldReads(on bool) {
	p.mu.Lock()
	p.holdR = on
	p.ops++
	p.cond.Broadcast()
	p.mu.Unlock()
}

// StallWrites closes (on) or opens the write gate: while it is closed every
// Write blocks until the gate is opened or the pipe is closed (a transport
// that does not drain: back-pressure reaches the writer).
func (p *Pipe) StallWrites(on bool) {
	p.mu.Lock()
	p.stallW = on
	p.ops++
	p.cond.Broadcast()
	p.mu.Unlock()
}

// WritersBlocked returns how many writers are blocked at the write gate.
func (p *Pipe) WritersBlocked() int { p.mu.Lock(); defer p.mu.Unlock(); return p.wblocked }

// Pending returns the number of frames written but not yet completely read.
func (p *Pipe) Pending() int { p.mu.Lock(); defer p.mu.Unlock(); return len(p.frames) - p.head }

// Ops is a counter that changes with every write, read and close.
func (p *Pipe) Ops() int64 { p.mu.Lock(); defer p.mu.Unlock(); return p.ops }

// Closed reports whether the pipe was closed.
func (p *Pipe) Closed() bool { p.mu.Lock(); defer p.mu.Unlock(); return p.closed }

// Frames returns a snapshot of the frame log.
func (p *Pipe) Frames() []*Frame {
	p.mu.Lock()
	defer p.mu.Unlock()
	return append([]*Frame(nil), p.frames...)
}

// Processed returns how many frames the reader has completely processed (it
// re-entered Read after the frame was delivered).
func (p *Pipe) Processed() int { p.mu.Lock(); defer p.mu.Unlock(); return p.processed }

// Duplex is a bidirectional tapped stream between endpoints A and B.
type Duplex struct {
	AB, BA *Pipe
}

// NewDuplex builds a duplex stream between node indexes a and b.
func NewDuplex(clk *Clock, name string, a, b int) *Duplex {
	return &Duplex{AB: NewPipe(clk, name+":a>b", a, b), BA: NewPipe(clk, name+":b>a", b, a)}
}

// EndA returns A's end of the stream.
func (d *Duplex) EndA() *End { return &End{rd: d.BA, wr: d.AB} }

// EndB returns B's end of the stream.
func (d *Duplex) EndB() *End { return &End{rd: d.AB, wr: d.BA} }

// Close closes both directions.
func (d *Duplex) Close() { d.AB.Close(); d.BA.Close() }

// End is one end of a Duplex; it implements stream.Stream.
type End struct {
	rd, wr *Pipe
}

func (e *End) Read(b []byte) (int, error)  { return e.rd.Read(b) }
func (e *End) Write(b []byte) (int, error) { return e.wr.Write(b) }

// Close closes the stream in both directions.
func (e *End) Close() error                     { e.rd.Close(); e.wr.Close(); return nil }
func (e *End) SetReadDeadline(time.Time) error  { return nil }
func (e *End) SetWriteDeadline(time.Time) error { return nil }
func (e *End) SetDeadline(time.Time) error      { return nil }

// WritePacket writes pkt as one length-prefixed frame (what an honest
// stream_packet session would do); used by harness-driven endpoints.
func (e *End) WritePacket(pkt *floodsub.Packet) error {
	data, err := pkt.MarshalVT()
	if err != nil {
		return err
	}
	return e.WriteFrame(data)
}

// WriteFrame writes body with a length prefix.
func (e *End) WriteFrame(body []byte) error {
	b := make([]byte, 4+len(body))
	binary.LittleEndian.PutUint32(b, uint32(len(body)))
	copy(b[4:], body)
	_, err := e.wr.Write(b)
	return err
}
