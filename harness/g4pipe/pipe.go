// Package g4pipe provides chunkPipe: an in-memory duplex byte stream whose
// delivery chunking, partial writes and faults are scripted by the harness
// and which logs every byte, every accepted write and every delivered read.
//
// It is the "underlying stream" for the C07/C08/C09/C40 monitors: because the
// harness *is* the underlying stream it knows the ground truth (which bytes
// were written, where each underlying read ended, when EOF / an error was
// handed to the reader, whether Close was called).
package g4pipe

import (
	"errors"
	"io"
	"math/rand/v2"
	"sync"
	"time"
)

// Chunker decides how many bytes the next Read may deliver. avail is
// min(buffered bytes, len(p)) and is >= 1; the result is clamped to 1..avail.
// Called with the half's lock held, so an implementation may own a PRNG.
type Chunker interface {
	Next(avail int) int
}

// ChunkerFunc adapts a function.
type ChunkerFunc func(avail int) int

// Next implements Chunker.
func (f ChunkerFunc) Next(avail int) int { return f(avail) }

// All delivers as much as possible per read.
var All Chunker = ChunkerFunc(func(avail int) int { return avail })

// OneByte delivers one byte per read.
var OneByte Chunker = ChunkerFunc(func(avail int) int { return 1 })

// Random delivers PRNG-sized chunks in 1..max (max <= 0: 1..avail).
func Random(r *rand.Rand, max int) Chunker {
	return ChunkerFunc(func(avail int) int {
		m := avail
		if max > 0 && max < m {
			m = max
		}
		return 1 + r.IntN(m)
	})
}

// Script delivers the listed sizes, then falls back to next (All if nil).
func Script(sizes []int, next Chunker) Chunker {
	i := 0
	if next == nil {
		next = All
	}
	return ChunkerFunc(func(avail int) int {
		if i < len(sizes) {
			n := sizes[i]
			i++
			return n
		}
		return next.Next(avail)
	})
}

// ErrFault is the default injected error.
var ErrFault = errors.New("g4pipe: injected fault")

// Half is one direction of the pipe.
type Half struct {
	mu   sync.Mutex
	cond *sync.Cond

	buf     []byte // bytes accepted from the writer starting at stream offset base
	base    int    // stream offset of buf[0] (0 while the full byte log is kept)
	total   int    // bytes accepted so far
	rpos    int    // bytes delivered to the reader (stream offset)
	keepLog bool   // keep every byte (Written / Unread-from-start); default true
	logRd   bool   // keep the end offset of every delivered read
	wclosed bool   // writer closed: EOF after the buffer drained
	rclosed bool   // reader closed
	hold    bool   // reader blocked until Release
	capN    int    // 0 = unbounded; otherwise writers block while buffered >= capN

	chunk Chunker

	readFaultAt  int // -1 none; reader gets readFaultErr once rpos == readFaultAt
	readFaultErr error
	errWithData  bool // terminal error (EOF / fault) is returned together with the last data bytes

	writeAccept   func(n int) int // nil: accept everything; else number of bytes accepted of an n byte Write (n<len, nil error)
	writeFaultAt  int             // -1 none; writes stop at this offset with writeFaultErr
	writeFaultErr error

	readEnds []int // end offsets of delivered reads (only if logRd)
	nReads   int
	readHash uint64
	nWrites  int
	termErr  error // terminal error handed to the reader (nil until handed over)
	termPos  int

	// zeroRead, if set, is asked before every delivery (data or terminal
	// error) whether this Read returns (0, nil) instead ("nothing happened",
	// which io.Reader permits); the delivery then happens on a later Read.
	zeroRead  func(pos, avail int) bool
	nZero     int // reads answered with (0, nil) on behalf of zeroRead
	rparked   int // readers currently parked because nothing is deliverable (not counting Hold)
	parkedCnt int // how often a reader parked for lack of data
}

func newHalf() *Half {
	h := &Half{readFaultAt: -1, writeFaultAt: -1, chunk: All, keepLog: true, readHash: 1469598103934665603}
	h.cond = sync.NewCond(&h.mu)
	return h
}

// SetChunker sets the delivery chunker.
func (h *Half) SetChunker(c Chunker) { h.mu.Lock(); h.chunk = c; h.mu.Unlock() }

// SetCap bounds the number of buffered (undelivered) bytes (0 = unbounded).
func (h *Half) SetCap(n int) { h.mu.Lock(); h.capN = n; h.mu.Unlock(); h.cond.Broadcast() }

// Hold blocks the reader until Release.
func (h *Half) Hold() { h.mu.Lock(); h.hold = true; h.mu.Unlock() }

// Release lets the reader continue.
func (h *Half) Release() { h.mu.Lock(); h.hold = false; h.mu.Unlock(); h.cond.Broadcast() }

// FaultReadAt makes the reader receive err once exactly off bytes were
// delivered (bytes beyond off are never delivered).
func (h *Half) FaultReadAt(off int, err error) {
	h.mu.Lock()
	h.readFaultAt, h.readFaultErr = off, err
	h.mu.Unlock()
	h.cond.Broadcast()
}

// ErrWithData makes the terminal error (EOF or fault) come together with the
// last data bytes (n > 0, err != nil), which io.Reader permits.
func (h *Half) ErrWithData(b bool) { h.mu.Lock(); h.errWithData = b; h.mu.Unlock() }

// ZeroReads installs f: before every delivery (of data, or of the terminal
// error once the stream is drained) the pipe asks f(pos, avail) (pos = bytes
// delivered so far, avail = bytes deliverable now, 0 when only the terminal
// error is left); if it answers true the Read returns (0, nil) although
// len(p) > 0 and delivers nothing. io.Reader allows that ("callers should treat
// a return of 0 and nil as indicating that nothing happened; in particular it
// does not indicate EOF"). f is called with the half's lock held and must
// answer false eventually (a reader is expected to call Read again at once).
// A reader with nothing deliverable still blocks: (0, nil) is only ever
// returned in place of a delivery, so a retrying reader cannot spin forever.
func (h *Half) ZeroReads(f func(pos, avail int) bool) { h.mu.Lock(); h.zeroRead = f; h.mu.Unlock() }

// ZeroReadCount returns how many reads were answered with (0, nil) by ZeroReads.
func (h *Half) ZeroReadCount() int { h.mu.Lock(); defer h.mu.Unlock(); return h.nZero }

// ReadersParked returns the number of readers currently blocked inside Read
// because neither data nor a terminal error is deliverable (a reader blocked by
// Hold is not counted), and how often a reader parked that way so far.
func (h *Half) ReadersParked() (now, total int) {
	h.mu.Lock()
	defer h.mu.Unlock()
	return h.rparked, h.parkedCnt
}

// PartialWrites makes Write accept only f(len(p)) bytes with a nil error.
func (h *Half) PartialWrites(f func(n int) int) { h.mu.Lock(); h.writeAccept = f; h.mu.Unlock() }

// FaultWriteAt makes writes fail with err once off bytes were accepted.
func (h *Half) FaultWriteAt(off int, err error) {
	h.mu.Lock()
	h.writeFaultAt, h.writeFaultErr = off, err
	h.mu.Unlock()
}

// Inject appends raw bytes to the stream as if written by the writer
// (atomic, not subject to partial-write / fault rules).
func (h *Half) Inject(p []byte) {
	h.mu.Lock()
	h.nWrites++
	h.appendLocked(p)
	h.mu.Unlock()
	h.cond.Broadcast()
}

// KeepLog(false) lets the pipe forget delivered bytes (Written is then
// unavailable); use it for high-volume flows: fresh memory is expensive under
// the race detector.
func (h *Half) KeepLog(b bool) { h.mu.Lock(); h.keepLog = b; h.mu.Unlock() }

// LogReads makes the pipe keep the end offset of every delivered read.
func (h *Half) LogReads(b bool) { h.mu.Lock(); h.logRd = b; h.mu.Unlock() }

func (h *Half) appendLocked(p []byte) {
	if !h.keepLog && h.rpos-h.base > 1<<16 {
		// compact: drop delivered bytes
		k := h.rpos - h.base
		n := copy(h.buf, h.buf[k:])
		h.buf = h.buf[:n]
		h.base = h.rpos
	}
	h.buf = append(h.buf, p...)
	h.total += len(p)
}

// CloseWrite ends the stream: the reader gets io.EOF after draining.
func (h *Half) CloseWrite() { h.mu.Lock(); h.wclosed = true; h.mu.Unlock(); h.cond.Broadcast() }

// Written returns a copy of the byte log (only meaningful while KeepLog is on).
func (h *Half) Written() []byte {
	h.mu.Lock()
	defer h.mu.Unlock()
	if h.base != 0 {
		panic("g4pipe: Written after the log was compacted")
	}
	return append([]byte(nil), h.buf...)
}

// WrittenLen returns the number of bytes accepted so far.
func (h *Half) WrittenLen() int { h.mu.Lock(); defer h.mu.Unlock(); return h.total }

// Delivered returns the number of bytes handed to the reader.
func (h *Half) Delivered() int { h.mu.Lock(); defer h.mu.Unlock(); return h.rpos }

// Unread returns a copy of the bytes not yet handed to the reader.
func (h *Half) Unread() []byte {
	h.mu.Lock()
	defer h.mu.Unlock()
	return append([]byte(nil), h.buf[h.rpos-h.base:]...)
}

// ReadEnds returns the end offsets of the delivered reads (LogReads only).
func (h *Half) ReadEnds() []int {
	h.mu.Lock()
	defer h.mu.Unlock()
	return append([]int(nil), h.readEnds...)
}

// ChunkEndAfter returns the end offset of the delivered read that contains
// stream offset pos (the smallest logged end > pos), or -1 (LogReads only).
func (h *Half) ChunkEndAfter(pos int) int {
	h.mu.Lock()
	defer h.mu.Unlock()
	lo, hi := 0, len(h.readEnds)
	for lo < hi {
		m := (lo + hi) / 2
		if h.readEnds[m] > pos {
			hi = m
		} else {
			lo = m + 1
		}
	}
	if lo == len(h.readEnds) {
		return -1
	}
	return h.readEnds[lo]
}

// ReadStats returns the number of delivered reads and a hash of their sizes
// (identifies the delivery schedule).
func (h *Half) ReadStats() (n int, hash uint64) {
	h.mu.Lock()
	defer h.mu.Unlock()
	return h.nReads, h.readHash
}

// WriteCalls returns the number of accepted Write/Inject calls.
func (h *Half) WriteCalls() int { h.mu.Lock(); defer h.mu.Unlock(); return h.nWrites }

// Terminal returns the terminal error handed to the reader and the stream
// position at which it was handed over (nil, 0 if not yet).
func (h *Half) Terminal() (error, int) { h.mu.Lock(); defer h.mu.Unlock(); return h.termErr, h.termPos }

// ReaderClosed reports whether the reading end was closed.
func (h *Half) ReaderClosed() bool { h.mu.Lock(); defer h.mu.Unlock(); return h.rclosed }

func (h *Half) write(p []byte) (int, error) {
	h.mu.Lock()
	defer h.mu.Unlock()
	if len(p) == 0 {
		return 0, nil
	}
	for {
		if h.wclosed || h.rclosed {
			return 0, io.ErrClosedPipe
		}
		if h.capN > 0 && h.total-h.rpos >= h.capN {
			h.cond.Wait()
			continue
		}
		break
	}
	n := len(p)
	var err error
	if h.writeAccept != nil {
		m := h.writeAccept(n)
		if m < 0 {
			m = 0
		}
		if m < n {
			n = m
		}
	}
	if h.writeFaultAt >= 0 && h.total+n >= h.writeFaultAt {
		n = h.writeFaultAt - h.total
		if n < 0 {
			n = 0
		}
		err = h.writeFaultErr
	}
	h.nWrites++
	h.appendLocked(p[:n])
	h.cond.Broadcast()
	return n, err
}

func (h *Half) read(p []byte) (int, error) {
	h.mu.Lock()
	defer h.mu.Unlock()
	for {
		if h.rclosed {
			return 0, io.ErrClosedPipe
		}
		if h.termErr != nil {
			return 0, h.termErr
		}
		if h.hold {
			h.cond.Wait()
			continue
		}
		limit := h.total
		var endErr error
		if h.readFaultAt >= 0 && h.readFaultAt <= limit {
			limit = h.readFaultAt
			endErr = h.readFaultErr
		} else if h.wclosed {
			endErr = io.EOF
		}
		avail := limit - h.rpos
		if avail <= 0 {
			if endErr != nil {
				if h.zeroRead != nil && len(p) > 0 && h.zeroRead(h.rpos, 0) {
					h.noteZeroLocked()
					return 0, nil
				}
				h.termErr, h.termPos = endErr, h.rpos
				h.cond.Broadcast()
				return 0, endErr
			}
			h.rparked++
			h.parkedCnt++
			h.cond.Wait()
			h.rparked--
			continue
		}
		if len(p) == 0 {
			return 0, nil
		}
		if h.zeroRead != nil && h.zeroRead(h.rpos, avail) {
			h.noteZeroLocked()
			return 0, nil
		}
		if avail > len(p) {
			avail = len(p)
		}
		n := h.chunk.Next(avail)
		if n < 1 {
			n = 1
		}
		if n > avail {
			n = avail
		}
		copy(p, h.buf[h.rpos-h.base:h.rpos-h.base+n])
		h.rpos += n
		h.nReads++
		h.readHash = (h.readHash ^ uint64(n)) * 1099511628211
		if h.logRd {
			h.readEnds = append(h.readEnds, h.rpos)
		}
		var err error
		if h.errWithData && endErr != nil && h.rpos == limit {
			h.termErr, h.termPos = endErr, h.rpos
			err = endErr
		}
		if h.capN > 0 {
			h.cond.Broadcast()
		}
		return n, err
	}
}

func (h *Half) noteZeroLocked() {
	h.nZero++
	h.readHash = (h.readHash ^ 0x5a5a) * 1099511628211
}

func (h *Half) closeRead() {
	h.mu.Lock()
	h.rclosed = true
	h.mu.Unlock()
	h.cond.Broadcast()
}

// End is one endpoint of the duplex pipe. It implements io.ReadWriteCloser,
// bifrost's stream.Stream and (loosely) net.Conn's deadline methods.
type End struct {
	// In is the direction this end reads from, Out the one it writes to.
	In, Out *Half

	mu        sync.Mutex
	closes    int
	deadlines int
	closeCh   chan struct{}
	readDl    time.Time // last read deadline set (zero: none)
	readDlSet int       // number of non-zero read deadlines set
}

// New builds a pipe and returns its two ends.
func New() (a, b *End) {
	ab, ba := newHalf(), newHalf()
	a = &End{In: ba, Out: ab, closeCh: make(chan struct{})}
	b = &End{In: ab, Out: ba, closeCh: make(chan struct{})}
	return a, b
}

// Read implements io.Reader.
func (e *End) Read(p []byte) (int, error) { return e.In.read(p) }

// Write implements io.Writer.
func (e *End) Write(p []byte) (int, error) { return e.Out.write(p) }

// Close closes both directions of this end (like net.Pipe): the peer reads
// EOF after draining, local reads fail, peer writes fail.
func (e *End) Close() error {
	e.mu.Lock()
	e.closes++
	first := e.closes == 1
	e.mu.Unlock()
	if first {
		close(e.closeCh)
	}
	e.Out.CloseWrite()
	e.In.closeRead()
	return nil
}

// CloseWrite half-closes: peer reads EOF after draining.
func (e *End) CloseWrite() { e.Out.CloseWrite() }

// Closes returns how often Close was called on this end.
func (e *End) Closes() int { e.mu.Lock(); defer e.mu.Unlock(); return e.closes }

// Closed returns a channel closed on the first Close.
func (e *End) Closed() <-chan struct{} { return e.closeCh }

// SetDeadline is recorded and otherwise ignored (no wall-clock in verdicts).
func (e *End) SetDeadline(t time.Time) error {
	e.mu.Lock()
	e.deadlines++
	e.noteReadDeadlineLocked(t)
	e.mu.Unlock()
	return nil
}

func (e *End) noteReadDeadlineLocked(t time.Time) {
	e.readDl = t
	if !t.IsZero() {
		e.readDlSet++
	}
}

// SetReadDeadline see SetDeadline.
func (e *End) SetReadDeadline(t time.Time) error {
	e.mu.Lock()
	e.deadlines++
	e.noteReadDeadlineLocked(t)
	e.mu.Unlock()
	return nil
}

// ReadDeadlineArmed reports whether a non-zero read deadline is currently set
// on this end (the pipe never enforces it: a harness that wants the timeout to
// "fire" injects a read fault once the reader is parked), and how many
// non-zero read deadlines were set so far.
func (e *End) ReadDeadlineArmed() (armed bool, sets int) {
	e.mu.Lock()
	defer e.mu.Unlock()
	return !e.readDl.IsZero(), e.readDlSet
}

// SetWriteDeadline see SetDeadline.
func (e *End) SetWriteDeadline(time.Time) error {
	e.mu.Lock()
	e.deadlines++
	e.mu.Unlock()
	return nil
}

// ScriptReader is a non-concurrent io.Reader over a fixed byte string with
// scripted chunking; after the data it returns Err (io.EOF if nil).
type ScriptReader struct {
	Data  []byte
	Pos   int
	Chunk Chunker
	Err   error
	// ErrWithData returns the terminal error together with the last bytes.
	ErrWithData bool
	// Calls counts Read calls, ZeroReads counts reads asked with len(p)==0.
	Calls int
}

// Read implements io.Reader.
func (s *ScriptReader) Read(p []byte) (int, error) {
	s.Calls++
	end := s.Err
	if end == nil {
		end = io.EOF
	}
	avail := len(s.Data) - s.Pos
	if avail <= 0 {
		return 0, end
	}
	if len(p) == 0 {
		return 0, nil
	}
	if avail > len(p) {
		avail = len(p)
	}
	n := avail
	if s.Chunk != nil {
		n = s.Chunk.Next(avail)
	}
	if n < 1 {
		n = 1
	}
	if n > avail {
		n = avail
	}
	copy(p, s.Data[s.Pos:s.Pos+n])
	s.Pos += n
	if s.ErrWithData && s.Pos == len(s.Data) {
		return n, end
	}
	return n, nil
}
