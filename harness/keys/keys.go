// Package keys provides a deterministic pool of Ed25519 identities.
package keys

import (
	"math/rand/v2"

	"github.com/aperturerobotics/bifrost/crypto"
	"github.com/aperturerobotics/bifrost/peer"
)

type reader struct{ r *rand.Rand }

func (p reader) Read(b []byte) (int, error) {
	for i := range b {
		b[i] = byte(p.r.UintN(256))
	}
	return len(b), nil
}

// Identity is one key pair with its derived peer ID.
type Identity struct {
	Priv crypto.PrivKey
	Pub  crypto.PubKey
	ID   peer.ID
	Peer peer.Peer
}

// String returns the b58 peer id.
func (i *Identity) String() string { return i.ID.String() }

// New generates one identity from the PRNG.
func New(r *rand.Rand) *Identity {
	priv, pub, err := crypto.GenerateEd25519Key(reader{r})
	if err != nil {
		panic(err)
	}
	id, err := peer.IDFromPublicKey(pub)
	if err != nil {
		panic(err)
	}
	p, err := peer.NewPeer(priv)
	if err != nil {
		panic(err)
	}
	return &Identity{Priv: priv, Pub: pub, ID: id, Peer: p}
}

// Pool generates n identities.
func Pool(r *rand.Rand, n int) []*Identity {
	out := make([]*Identity, n)
	for i := range out {
		out[i] = New(r)
	}
	return out
}
