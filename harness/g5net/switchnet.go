// Package g5net holds the shared harness pieces of group g5 (C03, C05):
// an in-memory datagram network with a rebinding table (SwitchNet) and the
// wiring of real bifrost pconn transports / transport controllers on top of it.
package g5net

import (
	"errors"
	"net"
	"os"
	"strings"
	"sync"
	"sync/atomic"
	"time"
)

// Addr is a string address on a SwitchNet.
type Addr string

// Network implements net.Addr.
func (a Addr) Network() string { return "switch" }

// String implements net.Addr.
func (a Addr) String() string { return string(a) }

// ParseAddr is the address parser handed to pconn.NewTransport.
func ParseAddr(s string) (net.Addr, error) {
	if s == "" {
		return nil, errors.New("empty switch address")
	}
	return Addr(s), nil
}

// resolver maps the spellings of an address to its canonical form, the way a
// name service does: an address has ONE canonical spelling (the one it was
// registered under: NewEndpoint / Serve) and any number of aliases - host names
// registered with Alias, the same name with a trailing dot, and the same name
// in another letter case. Dialing an alias reaches the canonical address, and
// the net.Addr a connection reports (net.Addr.String()) is always the canonical
// spelling - so the string a caller dialed and the remote address string of the
// resulting session differ.
type resolver struct {
	names   map[string]bool   // canonical spellings
	aliases map[string]string // registered host names -> canonical
}

func newResolver() resolver {
	return resolver{names: map[string]bool{}, aliases: map[string]string{}}
}

// resolve returns the canonical spelling of s (s itself when nothing matches).
func (r *resolver) resolve(s string) string {
	if r.names[s] {
		return s
	}
	if c, ok := r.aliases[s]; ok {
		return c
	}
	t := strings.TrimRight(s, ".")
	if t == "" {
		return s
	}
	if r.names[t] {
		return t
	}
	if c, ok := r.aliases[t]; ok {
		return c
	}
	for n := range r.names {
		if strings.EqualFold(n, t) {
			return n
		}
	}
	for a, c := range r.aliases {
		if strings.EqualFold(a, t) {
			return c
		}
	}
	return t
}

type packet struct {
	data []byte
	from Addr
}

// SwitchNet is an in-memory datagram network. Every endpoint has a fixed home
// address. In addition the harness binds *service addresses* to endpoints
// through a table that can be changed at any time: a datagram sent to service
// address A is delivered to whichever endpoint currently serves A (or is
// dropped when nobody does). Replies travel to the sender's home address and
// are shown to the sender as coming from A (like a NAT), so the sender never
// learns from the network which endpoint answered.
type SwitchNet struct {
	mu    sync.Mutex
	homes map[Addr]*Endpoint
	table map[Addr]*Endpoint
	// via[replier][recipient home] = service address under which the replier was reached
	via map[*Endpoint]map[Addr]Addr
	// counters per destination address
	sent    map[Addr]*atomic.Int64
	dropped map[Addr]*atomic.Int64
	// hold: service addresses whose datagrams are kept back (in order) until Release
	hold    map[Addr]bool
	held    map[Addr][]heldPacket
	heldCnt map[Addr]*atomic.Int64
	// res: the spellings under which addresses can be dialed (see resolver)
	res resolver
	// filter: selective hold (see SetFilter)
	filter func(from, to Addr, data []byte) bool
}

type heldPacket struct {
	from *Endpoint
	data []byte
}

// NewSwitchNet builds an empty network.
func NewSwitchNet() *SwitchNet {
	return &SwitchNet{
		homes: map[Addr]*Endpoint{}, table: map[Addr]*Endpoint{},
		via:  map[*Endpoint]map[Addr]Addr{},
		sent: map[Addr]*atomic.Int64{}, dropped: map[Addr]*atomic.Int64{},
		hold: map[Addr]bool{}, held: map[Addr][]heldPacket{}, heldCnt: map[Addr]*atomic.Int64{},
		res: newResolver(),
	}
}

// Alias registers a host name for the canonical address (see resolver).
func (n *SwitchNet) Alias(alias, canonical string) {
	n.mu.Lock()
	n.res.names[canonical] = true
	n.res.aliases[alias] = canonical
	n.mu.Unlock()
}

// ParseAddr is the address parser of the transports on this network: it accepts
// every spelling of an address and returns the canonical one.
func (n *SwitchNet) ParseAddr(s string) (net.Addr, error) {
	if s == "" {
		return nil, errors.New("empty switch address")
	}
	n.mu.Lock()
	c := n.res.resolve(s)
	n.mu.Unlock()
	return Addr(c), nil
}

// Endpoint is a net.PacketConn on a SwitchNet.
type Endpoint struct {
	n    *SwitchNet
	home Addr
	in   chan packet

	closeOnce sync.Once
	closed    chan struct{}

	dmu      sync.Mutex
	deadline time.Time
	dlChange chan struct{}

	rx atomic.Int64
}

// NewEndpoint creates an endpoint with the given home address.
func (n *SwitchNet) NewEndpoint(home string) *Endpoint {
	e := &Endpoint{n: n, home: Addr(home), in: make(chan packet, 4096), closed: make(chan struct{}), dlChange: make(chan struct{})}
	n.mu.Lock()
	n.homes[e.home] = e
	n.res.names[home] = true
	n.mu.Unlock()
	return e
}

// Serve (re)binds the service address to the endpoint; nil = nobody serves it.
func (n *SwitchNet) Serve(addr string, e *Endpoint) {
	n.mu.Lock()
	n.res.names[addr] = true
	if e == nil {
		delete(n.table, Addr(addr))
	} else {
		n.table[Addr(addr)] = e
	}
	n.mu.Unlock()
}

// Hold keeps every datagram sent towards the service address back (they are
// neither delivered nor dropped) until Release: a dial of the address stays in
// flight for as long as the harness wants, without any timing assumption.
func (n *SwitchNet) Hold(addr string) {
	n.mu.Lock()
	n.hold[Addr(addr)] = true
	if n.heldCnt[Addr(addr)] == nil {
		n.heldCnt[Addr(addr)] = &atomic.Int64{}
	}
	n.mu.Unlock()
}

// SetFilter installs a selective hold: f sees every datagram when it is sent
// (sender's home address, destination as written by the sender, payload) and
// says whether it is to be kept back; a datagram kept back joins the Hold queue
// of its destination (Held counts it, Release delivers it). nil removes the
// filter. f is called without any lock of the network held and must be
// thread-safe.
func (n *SwitchNet) SetFilter(f func(from, to Addr, data []byte) bool) {
	n.mu.Lock()
	n.filter = f
	n.mu.Unlock()
}

// Via states that the network already holds the mapping a datagram from
// recipientHome to the service address `as` (served by e) would create: whatever
// e sends to recipientHome is shown there as coming from `as` - for as long as
// e serves `as`. (An endpoint that took over a service address opens sessions
// from that address.)
func (n *SwitchNet) Via(e *Endpoint, recipientHome, as string) {
	n.mu.Lock()
	m := n.via[e]
	if m == nil {
		m = map[Addr]Addr{}
		n.via[e] = m
	}
	m[Addr(recipientHome)] = Addr(as)
	n.mu.Unlock()
}

// Held returns how many datagrams towards addr have been kept back so far.
func (n *SwitchNet) Held(addr string) int64 {
	n.mu.Lock()
	c := n.heldCnt[Addr(addr)]
	n.mu.Unlock()
	if c == nil {
		return 0
	}
	return c.Load()
}

// Release ends a Hold: the datagrams kept back are delivered, in order, to
// whoever serves the address now.
func (n *SwitchNet) Release(addr string) {
	n.mu.Lock()
	delete(n.hold, Addr(addr))
	q := n.held[Addr(addr)]
	delete(n.held, Addr(addr))
	n.mu.Unlock()
	for _, h := range q {
		h.from.deliver(h.data, Addr(addr), true)
	}
}

// Sent returns how many datagrams were sent towards addr so far (delivered or not).
func (n *SwitchNet) Sent(addr string) int64 {
	n.mu.Lock()
	c := n.sent[Addr(addr)]
	n.mu.Unlock()
	if c == nil {
		return 0
	}
	return c.Load()
}

// Dropped returns how many datagrams towards addr were dropped (nobody served it).
func (n *SwitchNet) Dropped(addr string) int64 {
	n.mu.Lock()
	c := n.dropped[Addr(addr)]
	n.mu.Unlock()
	if c == nil {
		return 0
	}
	return c.Load()
}

func (n *SwitchNet) route(from *Endpoint, to Addr, count bool) (dst *Endpoint, shownFrom Addr) {
	n.mu.Lock()
	defer n.mu.Unlock()
	if count {
		c := n.sent[to]
		if c == nil {
			c = &atomic.Int64{}
			n.sent[to] = c
		}
		c.Add(1)
	}
	shownFrom = from.home
	if t, ok := n.table[to]; ok {
		dst = t
		m := n.via[t]
		if m == nil {
			m = map[Addr]Addr{}
			n.via[t] = m
		}
		m[from.home] = to
	} else if h, ok := n.homes[to]; ok {
		dst = h
		// a reply: show the service address under which `from` was reached by `h`
		if a, ok := n.via[from][to]; ok {
			shownFrom = a
			if n.table[a] != from {
				// the service address was taken away from `from`: the
				// mapping is gone in both directions
				dst = nil
			}
		}
	}
	if dst == nil {
		d := n.dropped[to]
		if d == nil {
			d = &atomic.Int64{}
			n.dropped[to] = d
		}
		d.Add(1)
	}
	return
}

// ReadFrom implements net.PacketConn.
func (e *Endpoint) ReadFrom(p []byte) (int, net.Addr, error) {
	for {
		e.dmu.Lock()
		dl := e.deadline
		ch := e.dlChange
		e.dmu.Unlock()
		var tch <-chan time.Time
		var tm *time.Timer
		if !dl.IsZero() {
			d := time.Until(dl)
			if d <= 0 {
				return 0, nil, os.ErrDeadlineExceeded
			}
			tm = time.NewTimer(d)
			tch = tm.C
		}
		select {
		case pk := <-e.in:
			if tm != nil {
				tm.Stop()
			}
			e.rx.Add(1)
			return copy(p, pk.data), pk.from, nil
		case <-e.closed:
			if tm != nil {
				tm.Stop()
			}
			return 0, nil, net.ErrClosed
		case <-tch:
			return 0, nil, os.ErrDeadlineExceeded
		case <-ch:
			if tm != nil {
				tm.Stop()
			}
		}
	}
}

// WriteTo implements net.PacketConn.
func (e *Endpoint) WriteTo(p []byte, addr net.Addr) (int, error) {
	select {
	case <-e.closed:
		return 0, net.ErrClosed
	default:
	}
	e.deliver(append([]byte(nil), p...), Addr(addr.String()), false)
	return len(p), nil
}

// deliver routes one datagram (data is owned by the callee). released = the
// datagram comes out of a Hold queue (it was counted as sent already).
func (e *Endpoint) deliver(data []byte, to Addr, released bool) {
	n := e.n
	if !released {
		n.mu.Lock()
		f := n.filter
		n.mu.Unlock()
		keep := f != nil && f(e.home, to, data)
		n.mu.Lock()
		if keep && n.heldCnt[to] == nil {
			n.heldCnt[to] = &atomic.Int64{}
		}
		if keep || n.hold[to] {
			n.held[to] = append(n.held[to], heldPacket{from: e, data: data})
			n.heldCnt[to].Add(1)
			c := n.sent[to]
			if c == nil {
				c = &atomic.Int64{}
				n.sent[to] = c
			}
			c.Add(1)
			n.mu.Unlock()
			return
		}
		n.mu.Unlock()
	}
	dst, shown := n.route(e, to, !released)
	if dst == nil {
		return
	}
	pk := packet{data: data, from: shown}
	select {
	case dst.in <- pk:
	case <-dst.closed:
	default: // queue full: drop like a real network
	}
}

// Received returns the number of datagrams read from this endpoint.
func (e *Endpoint) Received() int64 { return e.rx.Load() }

// Close implements net.PacketConn.
func (e *Endpoint) Close() error {
	e.closeOnce.Do(func() { close(e.closed) })
	return nil
}

// LocalAddr implements net.PacketConn.
func (e *Endpoint) LocalAddr() net.Addr { return e.home }

// SetDeadline implements net.PacketConn.
func (e *Endpoint) SetDeadline(t time.Time) error { return e.SetReadDeadline(t) }

// SetReadDeadline implements net.PacketConn.
func (e *Endpoint) SetReadDeadline(t time.Time) error {
	e.dmu.Lock()
	e.deadline = t
	close(e.dlChange)
	e.dlChange = make(chan struct{})
	e.dmu.Unlock()
	return nil
}

// SetWriteDeadline implements net.PacketConn.
func (e *Endpoint) SetWriteDeadline(time.Time) error { return nil }

// SetReadBuffer keeps quic-go from printing its buffer size warning.
func (e *Endpoint) SetReadBuffer(int) error { return nil }

// SetWriteBuffer keeps quic-go from printing its buffer size warning.
func (e *Endpoint) SetWriteBuffer(int) error { return nil }

var _ net.PacketConn = (*Endpoint)(nil)
