package g5net

import (
	"bytes"
	"context"
	"io"
	"runtime/pprof"
	"strconv"
	"strings"
	"sync"

	"github.com/aperturerobotics/bifrost/crypto"
	"github.com/aperturerobotics/bifrost/link"
	"github.com/aperturerobotics/bifrost/testbed"
	"github.com/aperturerobotics/bifrost/transport"
	"github.com/aperturerobotics/bifrost/transport/common/conn"
	"github.com/aperturerobotics/bifrost/transport/common/dialer"
	"github.com/aperturerobotics/bifrost/transport/common/pconn"
	transport_quic "github.com/aperturerobotics/bifrost/transport/common/quic"
	transport_controller "github.com/aperturerobotics/bifrost/transport/controller"
	"github.com/aperturerobotics/controllerbus/controller"
	"github.com/blang/semver/v4"
	"github.com/sirupsen/logrus"
	"verifharness/keys"
)

// TransportType is the transport type id of the switch transport (tptaddr "switch|<addr>").
const TransportType = "switch"

// QuietLogger returns a logger that discards everything.
func QuietLogger() *logrus.Entry {
	l := logrus.New()
	l.SetOutput(io.Discard)
	l.SetLevel(logrus.PanicLevel)
	return logrus.NewEntry(l)
}

// LinkEvent is one callback seen by a Recorder.
type LinkEvent struct {
	Established bool
	Link        link.Link
}

// Recorder is a transport.TransportHandler that records every callback and
// forwards it to an optional inner handler (the real controller's handler).
type Recorder struct {
	mu     sync.Mutex
	inner  transport.TransportHandler
	events []LinkEvent
	notify chan struct{}
	// pump: without a controller behind the recorder nobody would accept
	// streams and notice that the session died; when set, the recorder runs the
	// accept loop the transport controller would run and closes a dead link.
	pump bool
	// lostGate: while not nil, loss reports are recorded on arrival but handed to
	// the inner handler only once the gate is closed (HoldLost(false)). The
	// transport makes every report from a goroutine of its own, so the order in
	// which the handler gets an established and a lost report of two different
	// links is not fixed by the code: this makes the "loss seen late" schedule
	// reproducible without any timing.
	lostGate chan struct{}
	lostHeld int
}

// NewRecorder builds a recorder forwarding to inner (may be nil).
func NewRecorder(inner transport.TransportHandler) *Recorder {
	return &Recorder{inner: inner, notify: make(chan struct{})}
}

// HandleLinkEstablished implements transport.TransportHandler.
func (r *Recorder) HandleLinkEstablished(lnk link.Link) {
	r.mu.Lock()
	r.events = append(r.events, LinkEvent{true, lnk})
	close(r.notify)
	r.notify = make(chan struct{})
	in := r.inner
	pump := r.pump
	r.mu.Unlock()
	if in != nil {
		in.HandleLinkEstablished(lnk)
	} else if pump {
		go func() {
			for {
				strm, _, err := lnk.AcceptStream()
				if err != nil {
					_ = lnk.Close()
					return
				}
				if strm != nil {
					_ = strm.Close()
				}
			}
		}()
	}
}

// HandleLinkLost implements transport.TransportHandler.
func (r *Recorder) HandleLinkLost(lnk link.Link) {
	r.mu.Lock()
	r.events = append(r.events, LinkEvent{false, lnk})
	close(r.notify)
	r.notify = make(chan struct{})
	in := r.inner
	gate := r.lostGate
	if gate != nil {
		r.lostHeld++
	}
	r.mu.Unlock()
	if gate != nil {
		<-gate
	}
	if in != nil {
		in.HandleLinkLost(lnk)
	}
}

// HoldLost(true): from now on loss reports are kept from the inner handler
// (they are still recorded on arrival); HoldLost(false) hands them over.
func (r *Recorder) HoldLost(on bool) {
	r.mu.Lock()
	defer r.mu.Unlock()
	if on {
		if r.lostGate == nil {
			r.lostGate = make(chan struct{})
		}
		return
	}
	if r.lostGate != nil {
		close(r.lostGate)
		r.lostGate = nil
	}
}

// LostHeld returns how many loss reports arrived while a HoldLost gate was up.
func (r *Recorder) LostHeld() int {
	r.mu.Lock()
	defer r.mu.Unlock()
	return r.lostHeld
}

// Len is the recorder's logical clock: the number of callbacks seen so far
// (the index the next event will get in Events()).
func (r *Recorder) Len() int {
	r.mu.Lock()
	defer r.mu.Unlock()
	return len(r.events)
}

// Events returns a copy of the events so far and a channel closed on the next event.
func (r *Recorder) Events() ([]LinkEvent, <-chan struct{}) {
	r.mu.Lock()
	defer r.mu.Unlock()
	return append([]LinkEvent(nil), r.events...), r.notify
}

// EstablishedCount returns the number of established callbacks so far.
func (r *Recorder) EstablishedCount() int {
	r.mu.Lock()
	defer r.mu.Unlock()
	n := 0
	for _, e := range r.events {
		if e.Established {
			n++
		}
	}
	return n
}

// SwitchTpt is a pconn transport on a SwitchNet endpoint that can be used as
// the transport of a transport controller (adds MatchTransportType).
type SwitchTpt struct {
	*pconn.Transport
}

// MatchTransportType implements dialer.TransportDialer.
func (s *SwitchTpt) MatchTransportType(t string) bool { return t == TransportType }

var (
	_ transport.Transport    = (*SwitchTpt)(nil)
	_ dialer.TransportDialer = (*SwitchTpt)(nil)
)

// Opts are the pconn options used everywhere: 1 s idle timeout so that an
// abandoned session disappears quickly.
func Opts() *pconn.Opts {
	return &pconn.Opts{Quic: &transport_quic.Opts{MaxIdleTimeoutDur: "1s"}}
}

// Remote is a bare real pconn transport (no controller) with a recording handler.
type Remote struct {
	ID  *keys.Identity
	EP  *Endpoint
	Tpt *pconn.Transport
	Rec *Recorder
}

// StartRemote builds a real pconn transport for the identity on a new
// endpoint with the given home address and runs its accept loop.
func StartRemote(ctx context.Context, le *logrus.Entry, n *SwitchNet, home string, id *keys.Identity) (*Remote, error) {
	return StartRemoteWithOpts(ctx, le, n, home, id, Opts())
}

// StartRemoteWithOpts is StartRemote with the caller's transport options.
func StartRemoteWithOpts(ctx context.Context, le *logrus.Entry, n *SwitchNet, home string, id *keys.Identity, opts *pconn.Opts) (*Remote, error) {
	ep := n.NewEndpoint(home)
	rec := NewRecorder(nil)
	rec.pump = true
	tpt, err := pconn.NewTransport(ctx, le, id.Priv, rec, opts, 0, ep, n.ParseAddr, nil)
	if err != nil {
		return nil, err
	}
	go func() { _ = tpt.Execute(ctx) }()
	return &Remote{ID: id, EP: ep, Tpt: tpt, Rec: rec}, nil
}

// Local is a real transport controller on a testbed bus whose transport is a
// real pconn transport on a SwitchNet endpoint.
type Local struct {
	ID   *keys.Identity
	TB   *testbed.Testbed
	Ctrl *transport_controller.Controller
	EP   *Endpoint
	Rec  *Recorder // sits between the transport and the controller's real handler
}

// StartLocal builds the testbed, controller and a pconn transport on a new endpoint.
func StartLocal(ctx context.Context, le *logrus.Entry, n *SwitchNet, home string, id *keys.Identity, staticPeerMap map[string]*dialer.DialerOpts) (*Local, error) {
	ep := n.NewEndpoint(home)
	l, err := startLocal(ctx, le, id, func(cctx context.Context, cle *logrus.Entry, pkey crypto.PrivKey, handler transport.TransportHandler) (transport.Transport, error) {
		pt, err := pconn.NewTransport(cctx, cle, pkey, handler, Opts(), 0, ep, n.ParseAddr, staticPeerMap)
		if err != nil {
			return nil, err
		}
		return &SwitchTpt{Transport: pt}, nil
	})
	if l != nil {
		l.EP = ep
	}
	return l, err
}

// StartLocalStream builds the testbed, controller and a conn (stream) transport dialing through the StreamNet.
func StartLocalStream(ctx context.Context, le *logrus.Entry, n *StreamNet, home string, id *keys.Identity, staticPeerMap map[string]*dialer.DialerOpts) (*Local, error) {
	return startLocal(ctx, le, id, func(cctx context.Context, cle *logrus.Entry, pkey crypto.PrivKey, handler transport.TransportHandler) (transport.Transport, error) {
		ct, err := conn.NewTransport(cctx, cle, pkey, handler, ConnOpts(), 0, Addr(home), n.DialFunc(home))
		if err != nil {
			return nil, err
		}
		return &StreamTpt{Transport: ct, spm: staticPeerMap}, nil
	})
}

func startLocal(ctx context.Context, le *logrus.Entry, id *keys.Identity, build transport_controller.Constructor) (*Local, error) {
	tb, err := testbed.NewTestbed(ctx, le, testbed.TestbedOpts{NoEcho: true, PrivKey: id.Priv})
	if err != nil {
		return nil, err
	}
	l := &Local{ID: id, TB: tb, Rec: NewRecorder(nil)}
	ctor := func(cctx context.Context, cle *logrus.Entry, pkey crypto.PrivKey, handler transport.TransportHandler) (transport.Transport, error) {
		l.Rec.mu.Lock()
		l.Rec.inner = handler
		l.Rec.mu.Unlock()
		return build(cctx, cle, pkey, l.Rec)
	}
	info := controller.NewInfo("verif/g5/switch", semver.MustParse("0.0.1"), "switch transport")
	l.Ctrl = transport_controller.NewController(le, tb.Bus, info, id.ID, false, ctor)
	if _, err := tb.Bus.AddController(ctx, l.Ctrl, nil); err != nil {
		return nil, err
	}
	if _, err := l.Ctrl.GetTransport(ctx); err != nil {
		return nil, err
	}
	return l, nil
}

// WithLabel runs f with a pprof label so that every goroutine started
// (transitively) from f can be found again with GoroutinesWithLabel.
func WithLabel(ctx context.Context, value string, f func(ctx context.Context)) {
	pprof.Do(ctx, pprof.Labels("g5case", value), f)
}

// GoroutinesAll returns the blocks of a debug=1 goroutine profile (one per
// distinct stack+labels) and the subset carrying the label value.
func GoroutinesAll(value string) (all, mine []string) {
	needle := `"g5case":"` + value + `"`
	for _, blk := range snapshotAfterNow() {
		all = append(all, blk)
		if strings.Contains(blk, needle) {
			mine = append(mine, blk)
		}
	}
	return
}

// WithReqLabel runs f with a second pprof label ("g5req") on top of the case
// label, so that the goroutines of one request can be told from another's.
func WithReqLabel(ctx context.Context, req string, f func(ctx context.Context)) {
	pprof.Do(ctx, pprof.Labels("g5req", req), f)
}

// GoroutineCount returns how many goroutines carrying the case label have a
// stack (debug=1 profile block: labels line + frames, runtime frames are not
// shown) that contains every one of the given substrings.
func GoroutineCount(value string, contains ...string) int {
	_, mine := GoroutinesAll(value)
	n := 0
blocks:
	for _, blk := range mine {
		for _, c := range contains {
			if !strings.Contains(blk, c) {
				continue blocks
			}
		}
		k := 1
		if i := strings.Index(blk, " @"); i > 0 {
			if v, err := strconv.Atoi(strings.TrimSpace(blk[:i])); err == nil {
				k = v
			}
		}
		n += k
	}
	return n
}

// TopFrames returns, for every goroutine carrying the case label whose stack
// contains all the given substrings, the topmost non-runtime frame (function name).
func TopFrames(value string, contains ...string) []string {
	_, mine := GoroutinesAll(value)
	var out []string
blocks:
	for _, blk := range mine {
		for _, c := range contains {
			if !strings.Contains(blk, c) {
				continue blocks
			}
		}
		for _, ln := range strings.Split(blk, "\n") {
			if !strings.HasPrefix(ln, "#\t") {
				continue
			}
			f := strings.Fields(ln)
			if len(f) >= 3 {
				fn := f[2]
				if i := strings.LastIndex(fn, "+0x"); i > 0 {
					fn = fn[:i]
				}
				out = append(out, fn)
			}
			break
		}
	}
	return out
}

// A goroutine profile stops the world and is expensive in a process that runs
// many cases in parallel: concurrent callers share one profile. Every caller
// gets a profile that was STARTED after its call (never a stale one).
var snap struct {
	mu      sync.Mutex
	cond    *sync.Cond
	running bool
	gen     uint64 // number of completed profiles
	blocks  []string
}

func snapshotAfterNow() []string {
	snap.mu.Lock()
	defer snap.mu.Unlock()
	if snap.cond == nil {
		snap.cond = sync.NewCond(&snap.mu)
	}
	target := snap.gen + 1
	if snap.running {
		target++ // the one under way started before this call
	}
	for snap.gen < target {
		if snap.running {
			snap.cond.Wait()
			continue
		}
		snap.running = true
		snap.mu.Unlock()
		var buf bytes.Buffer
		_ = pprof.Lookup("goroutine").WriteTo(&buf, 1)
		blocks := strings.Split(buf.String(), "\n\n")
		snap.mu.Lock()
		snap.blocks, snap.running = blocks, false
		snap.gen++
		snap.cond.Broadcast()
	}
	return snap.blocks
}
