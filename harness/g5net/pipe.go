package g5net

import (
	"context"
	"errors"
	"io"
	"net"
	"sync"
	"sync/atomic"

	"github.com/aperturerobotics/bifrost/peer"
	"github.com/aperturerobotics/bifrost/transport"
	"github.com/aperturerobotics/bifrost/transport/common/conn"
	"github.com/aperturerobotics/bifrost/transport/common/dialer"
	transport_quic "github.com/aperturerobotics/bifrost/transport/common/quic"
	"github.com/sirupsen/logrus"
	"verifharness/keys"
)

// half is one direction of an in-memory duplex byte stream (unbounded, never blocks the writer).
type half struct {
	mu     sync.Mutex
	cond   *sync.Cond
	buf    []byte
	closed bool
}

func newHalf() *half { h := &half{}; h.cond = sync.NewCond(&h.mu); return h }

func (h *half) write(p []byte) (int, error) {
	h.mu.Lock()
	defer h.mu.Unlock()
	if h.closed {
		return 0, io.ErrClosedPipe
	}
	h.buf = append(h.buf, p...)
	h.cond.Broadcast()
	return len(p), nil
}

func (h *half) read(p []byte) (int, error) {
	h.mu.Lock()
	defer h.mu.Unlock()
	for len(h.buf) == 0 {
		if h.closed {
			return 0, io.EOF
		}
		h.cond.Wait()
	}
	n := copy(p, h.buf)
	h.buf = h.buf[n:]
	return n, nil
}

func (h *half) close() { h.mu.Lock(); h.closed = true; h.cond.Broadcast(); h.mu.Unlock() }

// PipeEnd is one end of an in-memory duplex stream.
type PipeEnd struct{ rd, wr *half }

// Read implements io.Reader.
func (e *PipeEnd) Read(p []byte) (int, error) { return e.rd.read(p) }

// Write implements io.Writer.
func (e *PipeEnd) Write(p []byte) (int, error) { return e.wr.write(p) }

// Close closes both directions (the other end sees EOF / ErrClosedPipe).
func (e *PipeEnd) Close() error { e.rd.close(); e.wr.close(); return nil }

// NewPipe returns the two ends of an in-memory duplex stream.
func NewPipe() (*PipeEnd, *PipeEnd) {
	a, b := newHalf(), newHalf()
	return &PipeEnd{rd: a, wr: b}, &PipeEnd{rd: b, wr: a}
}

// StreamNet is the stream-transport counterpart of SwitchNet: a dial to a
// service address yields a fresh pipe to whichever conn transport currently
// serves it, or fails ("connection refused") when nobody does. Rebinding an
// address resets the connections made through it.
type StreamNet struct {
	mu      sync.Mutex
	table   map[string]*StreamRemote
	open    map[string][]*PipeEnd
	dials   atomic.Int64
	refused atomic.Int64
	// gates: addresses whose connection attempts are kept waiting until Release
	gates   map[string]chan struct{}
	waiting map[string]int64
	// res: the spellings under which addresses can be dialed (see resolver); the
	// dial function reports the canonical address as the connection's remote address
	res resolver
}

// Alias registers a host name for the canonical address (see resolver).
func (n *StreamNet) Alias(alias, canonical string) {
	n.mu.Lock()
	n.res.names[canonical] = true
	n.res.aliases[alias] = canonical
	n.mu.Unlock()
}

// NewStreamNet builds an empty stream network.
func NewStreamNet() *StreamNet {
	return &StreamNet{table: map[string]*StreamRemote{}, open: map[string][]*PipeEnd{}, gates: map[string]chan struct{}{}, waiting: map[string]int64{}, res: newResolver()}
}

// Hold keeps every connection attempt to addr waiting (in the dial function)
// until Release; who answers is decided by the table at release time.
func (n *StreamNet) Hold(addr string) {
	n.mu.Lock()
	if n.gates[addr] == nil {
		n.gates[addr] = make(chan struct{})
	}
	n.mu.Unlock()
}

// Held returns how many connection attempts to addr have been kept waiting so far.
func (n *StreamNet) Held(addr string) int64 {
	n.mu.Lock()
	defer n.mu.Unlock()
	return n.waiting[addr]
}

// Release ends a Hold.
func (n *StreamNet) Release(addr string) {
	n.mu.Lock()
	g := n.gates[addr]
	delete(n.gates, addr)
	n.mu.Unlock()
	if g != nil {
		close(g)
	}
}

// Dials returns the number of connection attempts so far.
func (n *StreamNet) Dials() int64 { return n.dials.Load() }

// Refused returns the number of connection attempts that found nobody serving the address.
func (n *StreamNet) Refused() int64 { return n.refused.Load() }

// Serve (re)binds addr; connections made through the previous binding are reset.
func (n *StreamNet) Serve(addr string, r *StreamRemote) {
	n.mu.Lock()
	n.res.names[addr] = true
	old := n.open[addr]
	delete(n.open, addr)
	if r == nil {
		delete(n.table, addr)
	} else {
		n.table[addr] = r
	}
	n.mu.Unlock()
	for _, p := range old {
		_ = p.Close()
	}
}

// DialFunc returns the conn.AddrDialFunc of a node whose own address is home.
func (n *StreamNet) DialFunc(home string) conn.AddrDialFunc {
	return func(ctx context.Context, dialed string) (io.ReadWriteCloser, net.Addr, error) {
		n.dials.Add(1)
		n.mu.Lock()
		addr := n.res.resolve(dialed)
		if g := n.gates[addr]; g != nil {
			n.waiting[addr]++
			n.mu.Unlock()
			select {
			case <-g:
			case <-ctx.Done():
				return nil, nil, ctx.Err()
			}
			n.mu.Lock()
		}
		r := n.table[addr]
		var a, b *PipeEnd
		if r != nil {
			a, b = NewPipe()
			n.open[addr] = append(n.open[addr], a)
		}
		n.mu.Unlock()
		if r == nil {
			n.refused.Add(1)
			return nil, nil, errors.New("stream net: connection refused: " + addr)
		}
		go func() { _, _ = r.Tpt.HandleConn(r.ctx, false, b, Addr(home), "") }()
		return a, Addr(addr), nil
	}
}

// Inbound makes the transport r (which should be the one serving addr) open a
// connection TO the node whose conn transport is `to` (home address toHome):
// the node sees an incoming connection from addr, r dials it without a peer
// constraint. The connection belongs to the binding of addr (a later Serve
// resets it). The returned channel yields r's result of the handshake.
func (n *StreamNet) Inbound(ctx context.Context, addr string, r *StreamRemote, to *conn.Transport, toHome string) <-chan error {
	a, b := NewPipe()
	n.mu.Lock()
	n.open[addr] = append(n.open[addr], a)
	n.mu.Unlock()
	res := make(chan error, 1)
	go func() { _, _ = to.HandleConn(ctx, false, b, Addr(addr), "") }()
	go func() {
		_, err := r.Tpt.HandleConn(r.ctx, true, a, Addr(toHome), "")
		res <- err
	}()
	return res
}

// ConnOpts are the conn transport options used everywhere (1 s idle timeout).
func ConnOpts() *conn.Opts {
	return &conn.Opts{Quic: &transport_quic.Opts{MaxIdleTimeoutDur: "1s"}}
}

// StreamRemote is a bare real conn (stream) transport with a recording handler.
type StreamRemote struct {
	ID  *keys.Identity
	Tpt *conn.Transport
	Rec *Recorder
	ctx context.Context
}

// StartStreamRemote builds a real conn transport for the identity.
func StartStreamRemote(ctx context.Context, le *logrus.Entry, home string, id *keys.Identity) (*StreamRemote, error) {
	rec := NewRecorder(nil)
	rec.pump = true
	tpt, err := conn.NewTransport(ctx, le, id.Priv, rec, ConnOpts(), 0, Addr(home), nil)
	if err != nil {
		return nil, err
	}
	return &StreamRemote{ID: id, Tpt: tpt, Rec: rec, ctx: ctx}, nil
}

// StartStreamDialer builds a bare real conn transport (no controller) that can
// dial through the StreamNet; home is its own address as shown to the listeners.
func StartStreamDialer(ctx context.Context, le *logrus.Entry, n *StreamNet, home string, id *keys.Identity) (*StreamRemote, error) {
	rec := NewRecorder(nil)
	rec.pump = true
	tpt, err := conn.NewTransport(ctx, le, id.Priv, rec, ConnOpts(), 0, Addr(home), n.DialFunc(home))
	if err != nil {
		return nil, err
	}
	return &StreamRemote{ID: id, Tpt: tpt, Rec: rec, ctx: ctx}, nil
}

// StreamTpt is a conn transport usable as the transport of a transport controller.
type StreamTpt struct {
	*conn.Transport
	spm map[string]*dialer.DialerOpts
}

// MatchTransportType implements dialer.TransportDialer.
func (s *StreamTpt) MatchTransportType(t string) bool { return t == TransportType }

// GetPeerDialer implements dialer.TransportDialer.
func (s *StreamTpt) GetPeerDialer(ctx context.Context, peerID peer.ID) (*dialer.DialerOpts, error) {
	return s.spm[peerID.String()], nil
}

var (
	_ transport.Transport    = (*StreamTpt)(nil)
	_ dialer.TransportDialer = (*StreamTpt)(nil)
)

// StartStreamNode builds a bare real conn transport (no controller) with the
// caller's options and dial function (nil: the node cannot dial by address).
// Used by the direct-call families: the harness keeps its own service table,
// in which rebinding an address does NOT reset the connections made earlier.
func StartStreamNode(ctx context.Context, le *logrus.Entry, home string, id *keys.Identity, opts *conn.Opts, dial conn.AddrDialFunc) (*StreamRemote, error) {
	rec := NewRecorder(nil)
	rec.pump = true
	tpt, err := conn.NewTransport(ctx, le, id.Priv, rec, opts, 0, Addr(home), dial)
	if err != nil {
		return nil, err
	}
	return &StreamRemote{ID: id, Tpt: tpt, Rec: rec, ctx: ctx}, nil
}
